/-
  MODEL of include/bitserializer/conversion_detail/convert_utf.h (transliteration, branch for
  branch) — Utf8::{Decode,Encode}, Utf16::{Decode,Encode}, Utf32::{Decode,Encode}, Transcode,
  the LE/BE wrappers, and Memory::Reverse for 16/32-bit units.

  Conventions:
  * code units are `Nat`; the driver only feeds units `< 2^w` (what the C++ type can hold);
  * iterators are indices into the input list (`pos`);
  * the error mark is `Option (List Nat)` (`none` = nullptr, `some []` = empty string);
  * bit operations of the C++ are written with the arithmetic that is *exactly* equal to
    them on the operand ranges that occur (`x >> 6` = `x / 64`, `x & 0x3F` = `x % 64`,
    `(a << 6) | (t & 0x3F)` = `a*64 + t%64`, `(x & 0xE0) == 0xC0` = `0xC0 ≤ x < 0xE0` for x < 256,
    `0xC0 | y` = `0xC0 + y` for y < 0x20, …). The correspondence check runs model and
    implementation on every class of unit, so a slip in one of these equivalences shows up.
-/
import BSVerif.Basic

namespace BSVerif.Utf

inductive Code where
  | success | invalidSequence | unexpectedEnd
  deriving DecidableEq, Repr

inductive Policy where
  | skip | throwError
  deriving DecidableEq, Repr

structure Res where
  out : List Nat
  code : Code
  iter : Nat
  invalid : Nat
  deriving DecidableEq, Repr

def isSurrogate (c : Nat) : Bool := 0xD800 ≤ c && c ≤ 0xDFFF

/-- `Detail::HandleEncodingError`: `none` = policy ThrowError (caller returns), otherwise the new output. -/
def handleError (out : List Nat) (pol : Policy) (mark : Option (List Nat)) : Option (List Nat) :=
  match pol with
  | .throwError => none
  | .skip => some (match mark with | some m => out ++ m | none => out)

/-- lead byte classification of `Utf8::Decode`: (tails, sym after masking, minSym, isWrongSeq) -/
def classify8 (b : Nat) : Nat × Nat × Nat × Bool :=
  if 0xC0 ≤ b ∧ b < 0xE0 then (2, b % 32, 0x80, false)
  else if 0xE0 ≤ b ∧ b < 0xF0 then (3, b % 16, 0x800, false)
  else if 0xF0 ≤ b ∧ b < 0xF8 then (4, b % 8, 0x10000, false)
  else if 0xF8 ≤ b ∧ b < 0xFC then (5, b, 0, true)
  else if 0xFC ≤ b ∧ b < 0xFE then (6, b, 0, true)
  else (0, b, 0, true)

/-- the `for (; tails > 1; --tails)` loop body over the tail bytes that are present -/
def foldTails : List Nat → Nat → Bool → Nat × Bool
  | [], sym, wrong => (sym, wrong)
  | t :: ts, sym, wrong =>
    if wrong then foldTails ts sym true
    else if 0x80 ≤ t ∧ t < 0xC0 then foldTails ts (sym * 64 + t % 64) false
    else foldTails ts sym true

/-- `Utf8::Decode` to 16-bit (`w = 16`) or 32-bit (`w = 32`) output. -/
def decode8 (w : Nat) (pol : Policy) (mark : Option (List Nat)) :
    List Nat → Nat → List Nat → Nat → Res
  | [], pos, out, inv => ⟨out, .success, pos, inv⟩
  | b :: rest, pos, out, inv =>
    if b < 0x80 then decode8 w pol mark rest (pos + 1) (out ++ [b]) inv
    else
      let (tails, sym0, minSym, wrong0) := classify8 b
      let k := tails - 1
      if rest.length < k then ⟨out, .unexpectedEnd, pos, inv⟩
      else
        let (sym, wrong) := foldTails (rest.take k) sym0 wrong0
        if wrong || sym < minSym || sym > 0x10FFFF || isSurrogate sym then
          match handleError out pol mark with
          | none => ⟨out, .invalidSequence, pos, inv + 1⟩
          | some out' => decode8 w pol mark (rest.drop k) (pos + 1 + k) out' (inv + 1)
        else if sym > 0xFFFF ∧ w = 16 then
          decode8 w pol mark (rest.drop k) (pos + 1 + k)
            (out ++ [0xD800 + (sym - 0x10000) / 1024 % 1024, 0xDC00 + (sym - 0x10000) % 1024]) inv
        else
          decode8 w pol mark (rest.drop k) (pos + 1 + k) (out ++ [sym]) inv
termination_by l => l.length
decreasing_by all_goals (simp [List.length_drop] <;> omega)

/-- the three `outStr.append({...})` branches of `Utf8::Encode` -/
def emit8 (sym : Nat) : List Nat :=
  if sym < 0x800 then [0xC0 + sym / 64, 0x80 + sym % 64]
  else if sym < 0x10000 then [0xE0 + sym / 4096, 0x80 + sym / 64 % 64, 0x80 + sym % 64]
  else [(0xF0 ||| sym / 262144) % 256, 0x80 + sym / 4096 % 64, 0x80 + sym / 64 % 64, 0x80 + sym % 64]

/-- `Utf8::Encode` from 16-bit (`wi = 16`) or 32-bit (`wi = 32`) input. -/
def encode8 (wi : Nat) (pol : Policy) (mark : Option (List Nat)) :
    List Nat → Nat → List Nat → Nat → Res
  | [], pos, out, inv => ⟨out, .success, pos, inv⟩
  | u :: rest, pos, out, inv =>
    if u < 0x80 then encode8 wi pol mark rest (pos + 1) (out ++ [u]) inv
    else if wi = 16 ∧ isSurrogate u then
      if u ≥ 0xDC00 then
        match handleError out pol mark with
        | none => ⟨out, .invalidSequence, pos, inv + 1⟩
        | some out' => encode8 wi pol mark rest (pos + 1) out' (inv + 1)
      else
        match rest with
        | [] => ⟨out, .unexpectedEnd, pos, inv⟩
        | low :: rest' =>
          if low ≥ 0xDC00 ∧ low ≤ 0xDFFF then
            encode8 wi pol mark rest' (pos + 2)
              (out ++ emit8 (0x10000 + (u % 1024) * 1024 + low % 1024)) inv
          else
            match handleError out pol mark with
            | none => ⟨out, .invalidSequence, pos, inv + 1⟩
            | some out' => encode8 wi pol mark (low :: rest') (pos + 1) out' (inv + 1)
    else if wi = 32 ∧ (u > 0x10FFFF ∨ isSurrogate u) then
      match handleError out pol mark with
      | none => ⟨out, .invalidSequence, pos, inv + 1⟩
      | some out' => encode8 wi pol mark rest (pos + 1) out' (inv + 1)
    else encode8 wi pol mark rest (pos + 1) (out ++ emit8 u) inv
termination_by l => l.length

/-- `Utf16::Decode` to 32-bit output. -/
def decode16to32 (pol : Policy) (mark : Option (List Nat)) :
    List Nat → Nat → List Nat → Nat → Res
  | [], pos, out, inv => ⟨out, .success, pos, inv⟩
  | u :: rest, pos, out, inv =>
    if isSurrogate u then
      if u ≥ 0xDC00 then
        match handleError out pol mark with
        | none => ⟨out, .invalidSequence, pos, inv + 1⟩
        | some out' => decode16to32 pol mark rest (pos + 1) out' (inv + 1)
      else
        match rest with
        | [] => ⟨out, .unexpectedEnd, pos, inv⟩
        | low :: rest' =>
          if low ≥ 0xDC00 ∧ low ≤ 0xDFFF then
            decode16to32 pol mark rest' (pos + 2) (out ++ [0x10000 + (u % 1024) * 1024 + low % 1024]) inv
          else
            match handleError out pol mark with
            | none => ⟨out, .invalidSequence, pos, inv + 1⟩
            | some out' => decode16to32 pol mark (low :: rest') (pos + 1) out' (inv + 1)
    else decode16to32 pol mark rest (pos + 1) (out ++ [u]) inv
termination_by l => l.length

/-- `Utf16::Decode` to 16-bit output and `Utf16::Encode` from 16-bit input (two copies of the
    same loop): copy, but refuse to copy a final unit in `[0xD800, 0xDBFF)` (sic). -/
def copy16 : List Nat → Nat → List Nat → Res
  | [], pos, out => ⟨out, .success, pos, 0⟩
  | u :: rest, pos, out =>
    if rest.isEmpty ∧ 0xD800 ≤ u ∧ u < 0xDBFF then ⟨out, .unexpectedEnd, pos, 0⟩
    else copy16 rest (pos + 1) (out ++ [u])

/-- `Utf16::Encode` from 32-bit input. -/
def encode16from32 (pol : Policy) (mark : Option (List Nat)) :
    List Nat → Nat → List Nat → Nat → Res
  | [], pos, out, inv => ⟨out, .success, pos, inv⟩
  | u :: rest, pos, out, inv =>
    if u > 0x10FFFF ∨ isSurrogate u then
      match handleError out pol mark with
      | none => ⟨out, .invalidSequence, pos, inv + 1⟩
      | some out' => encode16from32 pol mark rest (pos + 1) out' (inv + 1)
    else if u < 0x10000 then encode16from32 pol mark rest (pos + 1) (out ++ [u]) inv
    else encode16from32 pol mark rest (pos + 1)
      (out ++ [(0xD800 ||| (u - 0x10000) / 1024) % 65536, 0xDC00 + (u - 0x10000) % 1024]) inv

/-- same-width `Utf32` copy loops and `Transcode`'s `outStr.append(in, end)` -/
def copyAll (inp : List Nat) (pos : Nat) (out : List Nat) : Res :=
  ⟨out ++ inp, .success, pos + inp.length, 0⟩

/-- `Utf8::Decode`, `Utf16::Decode`, `Utf32::Decode` (native byte order) dispatch on output width. -/
def utf8Decode (wo : Nat) (pol : Policy) (mark : Option (List Nat)) (inp : List Nat) (out : List Nat) : Res :=
  decode8 wo pol mark inp 0 out 0

def utf8Encode (wi : Nat) (pol : Policy) (mark : Option (List Nat)) (inp : List Nat) (out : List Nat) : Res :=
  encode8 wi pol mark inp 0 out 0

def utf16Decode (wo : Nat) (pol : Policy) (mark : Option (List Nat)) (inp : List Nat) (out : List Nat) : Res :=
  if wo = 8 then encode8 16 pol mark inp 0 out 0
  else if wo = 16 then copy16 inp 0 out
  else decode16to32 pol mark inp 0 out 0

def utf16Encode (wi : Nat) (pol : Policy) (mark : Option (List Nat)) (inp : List Nat) (out : List Nat) : Res :=
  if wi = 8 then decode8 16 pol mark inp 0 out 0
  else if wi = 16 then copy16 inp 0 out
  else encode16from32 pol mark inp 0 out 0

def utf32Decode (wo : Nat) (pol : Policy) (mark : Option (List Nat)) (inp : List Nat) (out : List Nat) : Res :=
  if wo = 32 then copyAll inp 0 out
  else if wo = 16 then utf16Encode 32 pol mark inp out
  else encode8 32 pol mark inp 0 out 0

def utf32Encode (wi : Nat) (pol : Policy) (mark : Option (List Nat)) (inp : List Nat) (out : List Nat) : Res :=
  if wi = 32 then copyAll inp 0 out
  else if wi = 16 then utf16Decode 32 pol mark inp out
  else decode8 32 pol mark inp 0 out 0

/-- `Transcode(in, end, outStr, policy, mark)`: dispatch on the two code-unit sizes. -/
def transcode (wi wo : Nat) (pol : Policy) (mark : Option (List Nat)) (inp : List Nat) (out : List Nat) : Res :=
  if wi = wo then copyAll inp 0 out
  else if wo = 8 then utf8Encode wi pol mark inp out
  else if wo = 16 then utf16Encode wi pol mark inp out
  else utf32Encode wi pol mark inp out

/-! ### Byte order: `Memory::Reverse` on one unit and on a range, LE/BE wrappers -/

/-- `Memory::Reverse(uint16_t)`: `(v >> 8) | (v << 8)` truncated to 16 bits. -/
def reverse16 (v : Nat) : Nat := v / 256 % 256 + (v % 256) * 256

/-- `Memory::Reverse(uint32_t)`. -/
def reverse32 (v : Nat) : Nat :=
  v / 16777216 % 256 + (v / 65536 % 256) * 256 + (v / 256 % 256) * 65536 + (v % 256) * 16777216

def reverseUnit (w : Nat) (v : Nat) : Nat :=
  if w = 16 then reverse16 v else if w = 32 then reverse32 v else v

/-- how a little-endian host reads a `w`-bit unit from memory -/
def unitOfBytesLE : List Nat → Nat
  | [] => 0
  | b :: bs => b + 256 * unitOfBytesLE bs

def unitsOfBytes16 : List Nat → List Nat
  | a :: b :: rest => (a + 256 * b) :: unitsOfBytes16 rest
  | _ => []

def unitsOfBytes32 : List Nat → List Nat
  | a :: b :: c :: d :: rest => (a + 256 * b + 65536 * c + 16777216 * d) :: unitsOfBytes32 rest
  | _ => []

/-- reinterpret a byte buffer as native (LE host) units of width `w`; a trailing partial unit is dropped -/
def unitsOfBytes (w : Nat) (bs : List Nat) : List Nat :=
  if w = 16 then unitsOfBytes16 bs else if w = 32 then unitsOfBytes32 bs else bs

/-- `Utf16Le/Utf16Be/Utf32Le/Utf32Be::Decode` on a little-endian host:
    the iterator adapter byte-swaps each unit when `be`. Input is given as native units
    (what the host reads from the buffer). -/
def decodeEndian (wi : Nat) (be : Bool) (wo : Nat) (pol : Policy) (mark : Option (List Nat)) (inp : List Nat) (out : List Nat) : Res :=
  let inp' := if be then inp.map (reverseUnit wi) else inp
  if wi = 16 then utf16Decode wo pol mark inp' out else utf32Decode wo pol mark inp' out

/-- `…::Encode` for the LE/BE classes: encode natively, then `Memory::Reverse` the appended part. -/
def encodeEndian (wo : Nat) (be : Bool) (wi : Nat) (pol : Policy) (mark : Option (List Nat)) (inp : List Nat) (out : List Nat) : Res :=
  let r := if wo = 16 then utf16Encode wi pol mark inp out else utf32Encode wi pol mark inp out
  if be then { r with out := out ++ (r.out.drop out.length).map (reverseUnit wo) } else r

end BSVerif.Utf
