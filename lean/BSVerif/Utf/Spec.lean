/-
  SPEC (written from the Unicode Standard §3.9, not from the C++):
  Unicode scalar values and the three encoding forms.
-/
namespace BSVerif.Utf.Spec

/-- Unicode scalar value (D76): code point that is not a surrogate. -/
def IsScalar (c : Nat) : Prop := c < 0x110000 ∧ ¬ (0xD800 ≤ c ∧ c ≤ 0xDFFF)

instance (c : Nat) : Decidable (IsScalar c) := by unfold IsScalar; exact inferInstance

/-- UTF-8 encoding form, shortest form (Table 3-6). -/
def enc8 (c : Nat) : List Nat :=
  if c < 0x80 then [c]
  else if c < 0x800 then [0xC0 + c / 64, 0x80 + c % 64]
  else if c < 0x10000 then [0xE0 + c / 4096, 0x80 + c / 64 % 64, 0x80 + c % 64]
  else [0xF0 + c / 262144, 0x80 + c / 4096 % 64, 0x80 + c / 64 % 64, 0x80 + c % 64]

/-- UTF-16 encoding form (Table 3-5): surrogate pairs only above U+FFFF. -/
def enc16 (c : Nat) : List Nat :=
  if c < 0x10000 then [c]
  else [0xD800 + (c - 0x10000) / 1024, 0xDC00 + (c - 0x10000) % 1024]

/-- UTF-32 encoding form. -/
def enc32 (c : Nat) : List Nat := [c]

/-- `w` ∈ {8,16,32}; any other width is treated as 32 (never used). -/
def enc (w : Nat) (c : Nat) : List Nat :=
  if w = 8 then enc8 c else if w = 16 then enc16 c else enc32 c

def encs (w : Nat) (t : List Nat) : List Nat := t.flatMap (enc w)

@[simp] theorem encs_nil (w : Nat) : encs w [] = [] := rfl
@[simp] theorem encs_cons (w c : Nat) (t : List Nat) : encs w (c :: t) = enc w c ++ encs w t := by
  simp [encs, List.flatMap_cons]

/-- Byte serialisation of code units: little / big endian, `w/8` bytes per unit. -/
def unitBytesLE (w : Nat) (u : Nat) : List Nat :=
  (List.range (w / 8)).map fun i => u / 256 ^ i % 256

def unitBytesBE (w : Nat) (u : Nat) : List Nat := (unitBytesLE w u).reverse

def bytesLE (w : Nat) (us : List Nat) : List Nat := us.flatMap (unitBytesLE w)
def bytesBE (w : Nat) (us : List Nat) : List Nat := us.flatMap (unitBytesBE w)

/-- Well-formedness of a unit sequence in encoding form `w`: it is the encoding of scalars. -/
def WellFormed (w : Nat) (us : List Nat) : Prop := ∃ t, (∀ c ∈ t, IsScalar c) ∧ encs w t = us

/-! ### Executable reference decoder (maximal subpart segmentation, Unicode §3.9 / Table 3-7)

`segment w us` splits an arbitrary unit sequence into scalars and ill-formed runs.
For UTF-8 an ill-formed run is a *maximal subpart* (U+FFFD substitution practice);
for UTF-16 it is a lone surrogate; for UTF-32 a non-scalar unit. -/

inductive Seg where
  | scalar (c : Nat) (len : Nat)   -- a well-formed scalar occupying `len` units
  | bad (len : Nat)                -- an ill-formed subsequence of `len` units (len ≥ 1)
  deriving Repr, DecidableEq

def isCont (b : Nat) : Bool := 0x80 ≤ b && b ≤ 0xBF

/-- One step of the Table 3-7 recogniser: given the lead byte and the following bytes,
    return the segment at the head. -/
def seg8Head (b : Nat) (rest : List Nat) : Seg :=
  if b < 0x80 then .scalar b 1
  else if 0xC2 ≤ b ∧ b ≤ 0xDF then
    match rest with
    | t1 :: _ => if isCont t1 then .scalar ((b - 0xC0) * 64 + (t1 - 0x80)) 2 else .bad 1
    | [] => .bad 1
  else if 0xE0 ≤ b ∧ b ≤ 0xEF then
    let lo := if b = 0xE0 then 0xA0 else 0x80
    let hi := if b = 0xED then 0x9F else 0xBF
    match rest with
    | t1 :: r2 =>
      if lo ≤ t1 ∧ t1 ≤ hi then
        match r2 with
        | t2 :: _ => if isCont t2 then .scalar ((b - 0xE0) * 4096 + (t1 - 0x80) * 64 + (t2 - 0x80)) 3 else .bad 2
        | [] => .bad 2
      else .bad 1
    | [] => .bad 1
  else if 0xF0 ≤ b ∧ b ≤ 0xF4 then
    let lo := if b = 0xF0 then 0x90 else 0x80
    let hi := if b = 0xF4 then 0x8F else 0xBF
    match rest with
    | t1 :: r2 =>
      if lo ≤ t1 ∧ t1 ≤ hi then
        match r2 with
        | t2 :: r3 =>
          if isCont t2 then
            match r3 with
            | t3 :: _ =>
              if isCont t3 then
                .scalar ((b - 0xF0) * 262144 + (t1 - 0x80) * 4096 + (t2 - 0x80) * 64 + (t3 - 0x80)) 4
              else .bad 3
            | [] => .bad 3
          else .bad 2
        | [] => .bad 2
      else .bad 1
    | [] => .bad 1
  else .bad 1

def seg16Head (u : Nat) (rest : List Nat) : Seg :=
  if 0xD800 ≤ u ∧ u ≤ 0xDBFF then
    match rest with
    | l :: _ => if 0xDC00 ≤ l ∧ l ≤ 0xDFFF then .scalar (0x10000 + (u - 0xD800) * 1024 + (l - 0xDC00)) 2 else .bad 1
    | [] => .bad 1
  else if 0xDC00 ≤ u ∧ u ≤ 0xDFFF then .bad 1
  else .scalar u 1

def seg32Head (u : Nat) : Seg :=
  if u < 0x110000 ∧ ¬ (0xD800 ≤ u ∧ u ≤ 0xDFFF) then .scalar u 1 else .bad 1

def segHead (w : Nat) (u : Nat) (rest : List Nat) : Seg :=
  if w = 8 then seg8Head u rest else if w = 16 then seg16Head u rest else seg32Head u

def Seg.len : Seg → Nat
  | .scalar _ n => n
  | .bad n => n

/-- Segmentation with fuel (the driver passes `us.length`). -/
def segmentFuel (w : Nat) : Nat → List Nat → List Seg
  | 0, _ => []
  | _, [] => []
  | fuel + 1, u :: rest =>
    let s := segHead w u rest
    s :: segmentFuel w fuel (rest.drop (s.len - 1))

def segment (w : Nat) (us : List Nat) : List Seg := segmentFuel w us.length us

def hasBad (segs : List Seg) : Bool := segs.any fun s => match s with | .bad _ => true | _ => false

/-- index (in units) of the first ill-formed subsequence, if any -/
def firstBad : List Seg → Nat → Option Nat
  | [], _ => none
  | .bad _ :: _, pos => some pos
  | .scalar _ n :: r, pos => firstBad r (pos + n)

def scalarsOf (segs : List Seg) : List Nat :=
  segs.filterMap fun s => match s with | .scalar c _ => some c | _ => none

end BSVerif.Utf.Spec
