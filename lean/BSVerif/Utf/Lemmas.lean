/-
  Helper lemmas for the UTF model: one "step" lemma per code-point class and per function,
  stated over abstract lead/tail units so that the property theorems can instantiate them with
  `omega`-proved arithmetic about the Spec encoders.
-/
import BSVerif.Utf.Model
import BSVerif.Utf.Spec

namespace BSVerif.Utf
open Spec

/-! ### `Utf8::Decode` steps -/

theorem decode8_step1 (w b : Nat) (hb : b < 0x80)
    (pol : Policy) (mark : Option (List Nat)) (rest : List Nat) (pos : Nat) (out : List Nat) (inv : Nat) :
    decode8 w pol mark (b :: rest) pos out inv = decode8 w pol mark rest (pos + 1) (out ++ [b]) inv := by
  rw [decode8]; simp only [hb, if_true]

theorem decode8_step2 (w : Nat) (b t : Nat) (hb : 0xC0 ≤ b ∧ b < 0xE0) (ht : 0x80 ≤ t ∧ t < 0xC0)
    (hmin : 0x80 ≤ b % 32 * 64 + t % 64)
    (pol : Policy) (mark : Option (List Nat)) (rest : List Nat) (pos : Nat) (out : List Nat) (inv : Nat) :
    decode8 w pol mark (b :: t :: rest) pos out inv
      = decode8 w pol mark rest (pos + 2) (out ++ [b % 32 * 64 + t % 64]) inv := by
  have a1 : ¬ (b < 0x80) := by omega
  rw [decode8]
  simp only [a1, if_false, classify8, hb, and_self, if_true]
  simp only [List.length_cons, Nat.add_one_sub_one, List.take_succ_cons, List.take_zero, List.drop_succ_cons,
    List.drop_zero, foldTails, ht, and_self, if_true, Bool.false_eq_true, if_false, isSurrogate]
  have c1 : ¬ (rest.length + 1 < 1) := by omega
  simp only [c1, if_false]
  have c2 : ¬ (b % 32 * 64 + t % 64 < 128) := by omega
  have c3 : ¬ (b % 32 * 64 + t % 64 > 1114111) := by omega
  have c4 : ¬ (55296 ≤ b % 32 * 64 + t % 64) := by omega
  have c5 : ¬ (b % 32 * 64 + t % 64 > 65535) := by omega
  simp [c2, c3, c4, c5]

theorem decode8_step3 (w : Nat) (b t1 t2 : Nat) (hb : 0xE0 ≤ b ∧ b < 0xF0)
    (ht1 : 0x80 ≤ t1 ∧ t1 < 0xC0) (ht2 : 0x80 ≤ t2 ∧ t2 < 0xC0)
    (hmin : 0x800 ≤ (b % 16 * 64 + t1 % 64) * 64 + t2 % 64)
    (hsur : ¬ (0xD800 ≤ (b % 16 * 64 + t1 % 64) * 64 + t2 % 64 ∧ (b % 16 * 64 + t1 % 64) * 64 + t2 % 64 ≤ 0xDFFF))
    (pol : Policy) (mark : Option (List Nat)) (rest : List Nat) (pos : Nat) (out : List Nat) (inv : Nat) :
    decode8 w pol mark (b :: t1 :: t2 :: rest) pos out inv
      = decode8 w pol mark rest (pos + 3) (out ++ [(b % 16 * 64 + t1 % 64) * 64 + t2 % 64]) inv := by
  have a1 : ¬ (b < 0x80) := by omega
  have a2 : ¬ (0xC0 ≤ b ∧ b < 0xE0) := by omega
  rw [decode8]
  simp only [a1, if_false, classify8, a2, hb, and_self, if_true]
  simp only [List.length_cons, List.take_succ_cons, List.take_zero, List.drop_succ_cons,
    List.drop_zero, foldTails, ht1, ht2, and_self, if_true, Bool.false_eq_true, if_false, isSurrogate]
  have c1 : ¬ (rest.length + 1 + 1 < 3 - 1) := by omega
  simp only [c1, if_false]
  have c2 : ¬ ((b % 16 * 64 + t1 % 64) * 64 + t2 % 64 < 2048) := by omega
  have c3 : ¬ ((b % 16 * 64 + t1 % 64) * 64 + t2 % 64 > 1114111) := by omega
  have c5 : ¬ ((b % 16 * 64 + t1 % 64) * 64 + t2 % 64 > 65535) := by omega
  simp [c2, c3, hsur, c5]

theorem decode8_step4 (w : Nat) (b t1 t2 t3 : Nat) (hb : 0xF0 ≤ b ∧ b < 0xF8)
    (ht1 : 0x80 ≤ t1 ∧ t1 < 0xC0) (ht2 : 0x80 ≤ t2 ∧ t2 < 0xC0) (ht3 : 0x80 ≤ t3 ∧ t3 < 0xC0)
    (hmin : 0x10000 ≤ ((b % 8 * 64 + t1 % 64) * 64 + t2 % 64) * 64 + t3 % 64)
    (hmax : ((b % 8 * 64 + t1 % 64) * 64 + t2 % 64) * 64 + t3 % 64 ≤ 0x10FFFF)
    (pol : Policy) (mark : Option (List Nat)) (rest : List Nat) (pos : Nat) (out : List Nat) (inv : Nat) :
    decode8 w pol mark (b :: t1 :: t2 :: t3 :: rest) pos out inv
      = decode8 w pol mark rest (pos + 4)
          (out ++ (if w = 16 then
            [0xD800 + (((b % 8 * 64 + t1 % 64) * 64 + t2 % 64) * 64 + t3 % 64 - 0x10000) / 1024 % 1024,
             0xDC00 + (((b % 8 * 64 + t1 % 64) * 64 + t2 % 64) * 64 + t3 % 64 - 0x10000) % 1024]
            else [((b % 8 * 64 + t1 % 64) * 64 + t2 % 64) * 64 + t3 % 64])) inv := by
  have a1 : ¬ (b < 0x80) := by omega
  have a2 : ¬ (0xC0 ≤ b ∧ b < 0xE0) := by omega
  have a3 : ¬ (0xE0 ≤ b ∧ b < 0xF0) := by omega
  rw [decode8]
  simp only [a1, if_false, classify8, a2, a3, hb, and_self, if_true]
  simp only [List.length_cons, List.take_succ_cons, List.take_zero, List.drop_succ_cons,
    List.drop_zero, foldTails, ht1, ht2, ht3, and_self, if_true, Bool.false_eq_true, if_false, isSurrogate]
  have c1 : ¬ (rest.length + 1 + 1 + 1 < 4 - 1) := by omega
  simp only [c1, if_false]
  have c2 : ¬ (((b % 8 * 64 + t1 % 64) * 64 + t2 % 64) * 64 + t3 % 64 < 65536) := by omega
  have c3 : ¬ (((b % 8 * 64 + t1 % 64) * 64 + t2 % 64) * 64 + t3 % 64 > 1114111) := by omega
  have c4 : ¬ (((b % 8 * 64 + t1 % 64) * 64 + t2 % 64) * 64 + t3 % 64 ≤ 57343) := by omega
  have c5 : (((b % 8 * 64 + t1 % 64) * 64 + t2 % 64) * 64 + t3 % 64 > 65535) := by omega
  by_cases hw : w = 16 <;> simp [c2, c3, c4, c5, hw]

/-- `Utf8::Decode` of the standard UTF-8 form of one scalar, in front of anything. -/
theorem decode8_enc8 (w : Nat) (c : Nat) (hc : IsScalar c)
    (pol : Policy) (mark : Option (List Nat)) (rest : List Nat) (pos : Nat) (out : List Nat) (inv : Nat) :
    decode8 w pol mark (enc8 c ++ rest) pos out inv
      = decode8 w pol mark rest (pos + (enc8 c).length) (out ++ (if w = 16 then enc16 c else [c])) inv := by
  obtain ⟨hlt, hns⟩ := hc
  unfold enc8 enc16
  by_cases h1 : c < 0x80
  · have h1' : c < 0x10000 := by omega
    simp only [h1, h1', if_true, List.cons_append, List.nil_append, List.length_cons, List.length_nil, ite_self]
    exact decode8_step1 w c h1 pol mark rest pos out inv
  · by_cases h2 : c < 0x800
    · have h2' : c < 0x10000 := by omega
      simp only [h1, h2, h2', if_true, if_false, List.cons_append, List.nil_append, List.length_cons, List.length_nil, ite_self]
      rw [decode8_step2 w _ _ (by omega) (by omega) (by omega)]
      congr 3; omega
    · by_cases h3 : c < 0x10000
      · simp only [h1, h2, h3, if_true, if_false, List.cons_append, List.nil_append, List.length_cons, List.length_nil, ite_self]
        rw [decode8_step3 w _ _ _ (by omega) (by omega) (by omega) (by omega) (by omega)]
        congr 3; omega
      · simp only [h1, h2, h3, if_false, List.cons_append, List.nil_append, List.length_cons, List.length_nil]
        rw [decode8_step4 w _ _ _ _ (by omega) (by omega) (by omega) (by omega) (by omega) (by omega)]
        have e : ((((240 + c / 262144) % 8 * 64 + (128 + c / 4096 % 64) % 64) * 64 + (128 + c / 64 % 64) % 64) * 64
            + (128 + c % 64) % 64) = c := by omega
        rw [e]
        have e2 : (c - 65536) / 1024 % 1024 = (c - 65536) / 1024 := by omega
        rw [e2]

end BSVerif.Utf

namespace BSVerif.Utf
open Spec

/-! ### `Utf8::Encode` steps -/

theorem lor_F0 : ∀ x, x < 8 → (0xF0 ||| x) % 256 = 0xF0 + x := by decide

theorem emit8_eq_enc8 (c : Nat) (h1 : 0x80 ≤ c) (h2 : c < 0x110000) : emit8 c = enc8 c := by
  unfold emit8 enc8
  have n1 : ¬ c < 0x80 := by omega
  simp only [n1, if_false]
  by_cases a : c < 0x800
  · simp [a]
  · by_cases b : c < 0x10000
    · simp [a, b]
    · simp only [a, b, if_false]
      rw [lor_F0 _ (by omega)]

theorem encode8_ascii (wi u : Nat) (hu : u < 0x80)
    (pol : Policy) (mark : Option (List Nat)) (rest : List Nat) (pos : Nat) (out : List Nat) (inv : Nat) :
    encode8 wi pol mark (u :: rest) pos out inv = encode8 wi pol mark rest (pos + 1) (out ++ [u]) inv := by
  rw [encode8.eq_def]; simp only [hu, if_true]

theorem encode8_plain (wi u : Nat) (hu : 0x80 ≤ u) (hmax : u < 0x110000) (hs : ¬ (0xD800 ≤ u ∧ u ≤ 0xDFFF))
    (pol : Policy) (mark : Option (List Nat)) (rest : List Nat) (pos : Nat) (out : List Nat) (inv : Nat) :
    encode8 wi pol mark (u :: rest) pos out inv = encode8 wi pol mark rest (pos + 1) (out ++ emit8 u) inv := by
  have a1 : ¬ u < 0x80 := by omega
  have a2 : isSurrogate u = false := by simp [isSurrogate]; omega
  have a3 : ¬ (u > 0x10FFFF) := by omega
  rw [encode8.eq_def]; simp [a1, a2, a3]

theorem encode8_pair (hi lo : Nat) (hhi : 0xD800 ≤ hi ∧ hi ≤ 0xDBFF) (hlo : 0xDC00 ≤ lo ∧ lo ≤ 0xDFFF)
    (pol : Policy) (mark : Option (List Nat)) (rest : List Nat) (pos : Nat) (out : List Nat) (inv : Nat) :
    encode8 16 pol mark (hi :: lo :: rest) pos out inv
      = encode8 16 pol mark rest (pos + 2) (out ++ emit8 (0x10000 + (hi % 1024) * 1024 + lo % 1024)) inv := by
  have a1 : ¬ hi < 0x80 := by omega
  have a2 : isSurrogate hi = true := by simp [isSurrogate]; omega
  have a3 : ¬ (hi ≥ 0xDC00) := by omega
  have a4 : lo ≥ 0xDC00 ∧ lo ≤ 0xDFFF := by omega
  rw [encode8.eq_def]; simp [a1, a2, a3, a4]

/-- `Utf8::Encode` of the standard UTF-16 / UTF-32 form of one scalar. -/
theorem encode8_enc (wi : Nat) (hwi : wi = 16 ∨ wi = 32) (c : Nat) (hc : IsScalar c)
    (pol : Policy) (mark : Option (List Nat)) (rest : List Nat) (pos : Nat) (out : List Nat) (inv : Nat) :
    encode8 wi pol mark (enc wi c ++ rest) pos out inv
      = encode8 wi pol mark rest (pos + (enc wi c).length) (out ++ enc8 c) inv := by
  obtain ⟨hlt, hns⟩ := hc
  by_cases h1 : c < 0x80
  · have e : enc wi c = [c] := by
      rcases hwi with h | h <;> subst h <;> simp [enc, enc16, enc32] <;> omega
    have e8 : enc8 c = [c] := by simp [enc8, h1]
    rw [e, e8]; exact encode8_ascii wi c h1 pol mark rest pos out inv
  · by_cases h3 : c < 0x10000
    · have e : enc wi c = [c] := by
        rcases hwi with h | h <;> subst h <;> simp [enc, enc16, enc32, h3]
      rw [e, ← emit8_eq_enc8 c (by omega) hlt]
      exact encode8_plain wi c (by omega) hlt hns pol mark rest pos out inv
    · rcases hwi with h | h <;> subst h
      · have e : enc 16 c = [0xD800 + (c - 0x10000) / 1024, 0xDC00 + (c - 0x10000) % 1024] := by
          simp [enc, enc16, h3]
        rw [e, List.cons_append, List.cons_append, List.nil_append,
          encode8_pair _ _ (by omega) (by omega), ← emit8_eq_enc8 c (by omega) hlt]
        have e2 : 65536 + (55296 + (c - 65536) / 1024) % 1024 * 1024 + (56320 + (c - 65536) % 1024) % 1024 = c := by
          omega
        rw [e2]; simp
      · have e : enc 32 c = [c] := by simp [enc, enc32]
        rw [e, ← emit8_eq_enc8 c (by omega) hlt]
        exact encode8_plain 32 c (by omega) hlt hns pol mark rest pos out inv

/-! ### `Utf16::Decode` to UTF-32 -/

theorem decode16to32_enc16 (c : Nat) (hc : IsScalar c)
    (pol : Policy) (mark : Option (List Nat)) (rest : List Nat) (pos : Nat) (out : List Nat) (inv : Nat) :
    decode16to32 pol mark (enc16 c ++ rest) pos out inv
      = decode16to32 pol mark rest (pos + (enc16 c).length) (out ++ [c]) inv := by
  obtain ⟨hlt, hns⟩ := hc
  unfold enc16
  by_cases h3 : c < 0x10000
  · have a2 : isSurrogate c = false := by simp [isSurrogate]; omega
    simp only [h3, if_true, List.cons_append, List.nil_append, List.length_cons, List.length_nil]
    rw [decode16to32.eq_def]; simp [a2]
  · simp only [h3, if_false, List.cons_append, List.nil_append, List.length_cons, List.length_nil]
    have a2 : isSurrogate (0xD800 + (c - 0x10000) / 1024) = true := by simp [isSurrogate]; omega
    have a3 : ¬ (0xD800 + (c - 0x10000) / 1024 ≥ 0xDC00) := by omega
    have a4 : 0xDC00 + (c - 0x10000) % 1024 ≥ 0xDC00 ∧ 0xDC00 + (c - 0x10000) % 1024 ≤ 0xDFFF := by omega
    have e2 : 65536 + (55296 + (c - 65536) / 1024) % 1024 * 1024 + (56320 + (c - 65536)) % 1024 = c := by
      omega
    rw [decode16to32.eq_def]; simp [a2, a3, a4, e2]

/-! ### `Utf16::Encode` from UTF-32 -/

theorem lor_D800 (x : Nat) (hx : x < 1024) : (0xD800 ||| x) % 65536 = 0xD800 + x := by
  have h : 0xD800 ||| x = 54 <<< 10 ||| x := by rfl
  rw [h, ← Nat.shiftLeft_add_eq_or_of_lt (by simpa using hx), Nat.shiftLeft_eq]
  omega

theorem encode16from32_enc32 (c : Nat) (hc : IsScalar c)
    (pol : Policy) (mark : Option (List Nat)) (rest : List Nat) (pos : Nat) (out : List Nat) (inv : Nat) :
    encode16from32 pol mark (c :: rest) pos out inv
      = encode16from32 pol mark rest (pos + 1) (out ++ enc16 c) inv := by
  obtain ⟨hlt, hns⟩ := hc
  have a1 : ¬ (c > 0x10FFFF) := by omega
  have a2 : isSurrogate c = false := by simp [isSurrogate]; omega
  unfold enc16
  by_cases h3 : c < 0x10000
  · rw [encode16from32]; simp [a1, a2, h3]
  · rw [encode16from32]; simp only [gt_iff_lt, a1, a2, Bool.false_eq_true, or_self, if_false, h3]
    rw [lor_D800 _ (by omega)]

/-! ### same-width UTF-16 copy -/

theorem copy16_no_high_at_end (l : List Nat) (h : ∀ u, l.getLast? = some u → ¬ (0xD800 ≤ u ∧ u < 0xDBFF))
    (pos : Nat) (out : List Nat) :
    copy16 l pos out = ⟨out ++ l, .success, pos + l.length, 0⟩ := by
  induction l generalizing pos out with
  | nil => simp [copy16]
  | cons u rest ih =>
    rw [copy16]
    by_cases hr : rest = []
    · subst hr
      have := h u (by simp)
      simp [this, copy16]
    · have hne : rest.isEmpty = false := by simpa using hr
      simp only [hne, Bool.false_eq_true, false_and, if_false]
      rw [ih (fun u hu => h u (by rw [List.getLast?_cons_of_ne_nil hr]; exact hu))]
      simp [Nat.add_assoc, Nat.add_comm 1]

end BSVerif.Utf
