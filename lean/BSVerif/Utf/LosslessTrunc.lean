/-
  Helper lemmas for the "lossless chunked reading" theorem of C13 — part 2: what the six
  transcoding loops (and the two same-width copy loops) do on a PREFIX of a well-formed unit
  sequence, i.e. on a reader window that may end inside a multi-unit character.
-/
import BSVerif.Utf.LosslessBytes

namespace BSVerif.Utf
open Spec
open BSVerif.Props.C11

/-! ### generic induction over the text -/

/-- If a conversion loop `f` (a) stops with Success on empty input, (b) steps over the standard
    `w`-form of one scalar appending its `wo`-form, and (c) reports UnexpectedEnd (consuming and
    appending nothing) on a proper non-empty prefix of the `w`-form of a scalar, then on the first `k`
    units of `encs w t` it converts a prefix `t'` of the text exactly and stops at its end. -/
theorem prefix_generic (w wo : Nat) (f : List Nat → Nat → List Nat → Nat → Res)
    (h_nil : ∀ pos out inv, f [] pos out inv = ⟨out, .success, pos, inv⟩)
    (h_step : ∀ c, IsScalar c → ∀ rest pos out inv,
        f (enc w c ++ rest) pos out inv = f rest (pos + (enc w c).length) (out ++ enc wo c) inv)
    (h_short : ∀ c, IsScalar c → ∀ k, 0 < k → k < (enc w c).length → ∀ pos out inv,
        f ((enc w c).take k) pos out inv = ⟨out, .unexpectedEnd, pos, inv⟩)
    (t : List Nat) (ht : AllScalar t) (k pos : Nat) (out : List Nat) (inv : Nat) :
    ∃ t' t'' code, t = t' ++ t'' ∧
      f ((encs w t).take k) pos out inv = ⟨out ++ encs wo t', code, pos + (encs w t').length, inv⟩ ∧
      (code = .success ∨ code = .unexpectedEnd) ∧ (encs w t').length ≤ k := by
  induction t generalizing k pos out with
  | nil => exact ⟨[], [], .success, rfl, by simp [h_nil], Or.inl rfl, by simp⟩
  | cons c t ih =>
    have hc : IsScalar c := ht c (by simp)
    have ht' : AllScalar t := fun x hx => ht x (by simp [hx])
    by_cases hk : (enc w c).length ≤ k
    · obtain ⟨t', t'', code, h1, h2, h3, h4⟩ := ih ht' (k - (enc w c).length) (pos + (enc w c).length) (out ++ enc wo c)
      refine ⟨c :: t', t'', code, by rw [h1]; rfl, ?_, h3, ?_⟩
      · have hk' : k = (enc w c).length + (k - (enc w c).length) := by omega
        rw [encs_cons, hk', List.take_length_add_append, h_step c hc, h2]
        simp [Nat.add_assoc]
      · simp only [encs_cons, List.length_append]; omega
    · by_cases hk0 : k = 0
      · subst hk0
        exact ⟨[], c :: t, .success, rfl, by simp [h_nil], Or.inl rfl, by simp⟩
      · refine ⟨[], c :: t, .unexpectedEnd, rfl, ?_, Or.inr rfl, by simp⟩
        rw [encs_cons, List.take_append_of_le_length (by omega), h_short c hc k (by omega) (by omega)]
        simp

/-! ### UnexpectedEnd on a character cut by the end of the input -/

theorem decode8_short (w b : Nat) (rest : List Nat) (hb : ¬ b < 0x80)
    (hlen : rest.length < (classify8 b).1 - 1)
    (pol : Policy) (mark : Option (List Nat)) (pos : Nat) (out : List Nat) (inv : Nat) :
    decode8 w pol mark (b :: rest) pos out inv = ⟨out, .unexpectedEnd, pos, inv⟩ := by
  rw [decode8]
  simp only [hb, if_false]
  generalize hcl : classify8 b = cl at hlen
  obtain ⟨tails, sym0, minSym, wrong0⟩ := cl
  simp only at hlen ⊢
  simp [hlen]

theorem decode8_cut (w c : Nat) (hc : IsScalar c) (k : Nat) (hk0 : 0 < k) (hk : k < (enc 8 c).length)
    (pol : Policy) (mark : Option (List Nat)) (pos : Nat) (out : List Nat) (inv : Nat) :
    decode8 w pol mark ((enc 8 c).take k) pos out inv = ⟨out, .unexpectedEnd, pos, inv⟩ := by
  obtain ⟨hlt, hns⟩ := hc
  simp only [enc, if_true] at hk ⊢
  unfold enc8 at hk ⊢
  by_cases h1 : c < 0x80
  · simp [h1] at hk; omega
  · by_cases h2 : c < 0x800
    · simp only [h1, h2, if_true, if_false, List.length_cons, List.length_nil] at hk ⊢
      have : k = 1 := by omega
      subst this
      simp only [List.take_succ_cons, List.take_zero]
      exact decode8_short w _ _ (by omega) (by
        have hcl : (classify8 (0xC0 + c / 64)).1 = 2 := by
          unfold classify8; rw [if_pos (by omega)]
        rw [hcl]; simp) pol mark pos out inv
    · by_cases h3 : c < 0x10000
      · simp only [h1, h2, h3, if_true, if_false, List.length_cons, List.length_nil] at hk ⊢
        have hcl : (classify8 (0xE0 + c / 4096)).1 = 3 := by
          unfold classify8; rw [if_neg (by omega), if_pos (by omega)]
        have : k = 1 ∨ k = 2 := by omega
        rcases this with rfl | rfl
        · simp only [List.take_succ_cons, List.take_zero]
          exact decode8_short w _ _ (by omega) (by rw [hcl]; simp) pol mark pos out inv
        · simp only [List.take_succ_cons, List.take_zero]
          exact decode8_short w _ _ (by omega) (by rw [hcl]; simp) pol mark pos out inv
      · simp only [h1, h2, h3, if_false, List.length_cons, List.length_nil] at hk ⊢
        have hcl : (classify8 (0xF0 + c / 262144)).1 = 4 := by
          unfold classify8; rw [if_neg (by omega), if_neg (by omega), if_pos (by omega)]
        have : k = 1 ∨ k = 2 ∨ k = 3 := by omega
        rcases this with rfl | rfl | rfl
        · simp only [List.take_succ_cons, List.take_zero]
          exact decode8_short w _ _ (by omega) (by rw [hcl]; simp) pol mark pos out inv
        · simp only [List.take_succ_cons, List.take_zero]
          exact decode8_short w _ _ (by omega) (by rw [hcl]; simp) pol mark pos out inv
        · simp only [List.take_succ_cons, List.take_zero]
          exact decode8_short w _ _ (by omega) (by rw [hcl]; simp) pol mark pos out inv

/-- a proper non-empty prefix of the UTF-16 form of a scalar is a lone high surrogate -/
theorem enc16_cut (c : Nat) (hc : IsScalar c) (k : Nat) (hk0 : 0 < k) (hk : k < (enc 16 c).length) :
    ∃ hi, (enc 16 c).take k = [hi] ∧ 0xD800 ≤ hi ∧ hi ≤ 0xDBFF := by
  obtain ⟨hlt, hns⟩ := hc
  simp only [enc, show ¬ (16 = 8) by decide, if_false, if_true] at hk ⊢
  unfold enc16 at hk ⊢
  by_cases h3 : c < 0x10000
  · simp [h3] at hk; omega
  · simp only [h3, if_false, List.length_cons, List.length_nil] at hk ⊢
    have : k = 1 := by omega
    subst this
    exact ⟨0xD800 + (c - 0x10000) / 1024, by simp, by omega, by omega⟩

theorem encode8_cut16 (hi : Nat) (h1 : 0xD800 ≤ hi) (h2 : hi ≤ 0xDBFF)
    (pol : Policy) (mark : Option (List Nat)) (pos : Nat) (out : List Nat) (inv : Nat) :
    encode8 16 pol mark [hi] pos out inv = ⟨out, .unexpectedEnd, pos, inv⟩ := by
  have a1 : ¬ hi < 0x80 := by omega
  have a2 : isSurrogate hi = true := by simp [isSurrogate]; omega
  have a3 : ¬ (hi ≥ 0xDC00) := by omega
  rw [encode8.eq_def]; simp [a1, a2, a3]

theorem decode16to32_cut (hi : Nat) (h1 : 0xD800 ≤ hi) (h2 : hi ≤ 0xDBFF)
    (pol : Policy) (mark : Option (List Nat)) (pos : Nat) (out : List Nat) (inv : Nat) :
    decode16to32 pol mark [hi] pos out inv = ⟨out, .unexpectedEnd, pos, inv⟩ := by
  have a2 : isSurrogate hi = true := by simp [isSurrogate]; omega
  have a3 : ¬ (hi ≥ 0xDC00) := by omega
  rw [decode16to32.eq_def]; simp [a2, a3]

/-! ### the six width-changing paths on a prefix -/

/-- shape of the result on a prefix: a prefix `t'` of the text converted exactly -/
def PrefixRes (w wo : Nat) (t : List Nat) (k : Nat) (out : List Nat) (r : Res) : Prop :=
  ∃ t' t'' code, t = t' ++ t'' ∧ r = ⟨out ++ encs wo t', code, (encs w t').length, 0⟩ ∧
    (code = .success ∨ code = .unexpectedEnd) ∧ (encs w t').length ≤ k

theorem decode8_prefix (wo : Nat) (hwo : wo = 16 ∨ wo = 32) (t : List Nat) (ht : AllScalar t) (k : Nat)
    (pol : Policy) (mark : Option (List Nat)) (out : List Nat) :
    PrefixRes 8 wo t k out (decode8 wo pol mark ((encs 8 t).take k) 0 out 0) := by
  have := prefix_generic 8 wo (decode8 wo pol mark) (by intros; simp [decode8])
    (by
      intro c hc rest pos out inv
      have e8 : enc 8 c = enc8 c := by simp [enc]
      rw [e8, decode8_enc8 wo c hc]
      rcases hwo with h | h <;> subst h <;> simp [enc, enc32])
    (by intro c hc k h0 hk pos out inv; exact decode8_cut wo c hc k h0 hk pol mark pos out inv)
    t ht k 0 out 0
  simpa [PrefixRes] using this

theorem encode8_prefix (wi : Nat) (hwi : wi = 16 ∨ wi = 32) (t : List Nat) (ht : AllScalar t) (k : Nat)
    (pol : Policy) (mark : Option (List Nat)) (out : List Nat) :
    PrefixRes wi 8 t k out (encode8 wi pol mark ((encs wi t).take k) 0 out 0) := by
  have := prefix_generic wi 8 (encode8 wi pol mark) (by intros; simp [encode8])
    (by
      intro c hc rest pos out inv
      rw [encode8_enc wi hwi c hc]; simp [enc])
    (by
      intro c hc k h0 hk pos out inv
      rcases hwi with h | h <;> subst h
      · obtain ⟨hi, e, h1, h2⟩ := enc16_cut c hc k h0 hk
        rw [e]; exact encode8_cut16 hi h1 h2 pol mark pos out inv
      · simp [enc, enc32] at hk; omega)
    t ht k 0 out 0
  simpa [PrefixRes] using this

theorem decode16to32_prefix (t : List Nat) (ht : AllScalar t) (k : Nat)
    (pol : Policy) (mark : Option (List Nat)) (out : List Nat) :
    PrefixRes 16 32 t k out (decode16to32 pol mark ((encs 16 t).take k) 0 out 0) := by
  have := prefix_generic 16 32 (decode16to32 pol mark) (by intros; simp [decode16to32])
    (by
      intro c hc rest pos out inv
      have e : enc 16 c = enc16 c := by simp [enc]
      rw [e, decode16to32_enc16 c hc]; simp [enc, enc32])
    (by
      intro c hc k h0 hk pos out inv
      obtain ⟨hi, e, h1, h2⟩ := enc16_cut c hc k h0 hk
      rw [e]; exact decode16to32_cut hi h1 h2 pol mark pos out inv)
    t ht k 0 out 0
  simpa [PrefixRes] using this

theorem encode16from32_prefix (t : List Nat) (ht : AllScalar t) (k : Nat)
    (pol : Policy) (mark : Option (List Nat)) (out : List Nat) :
    PrefixRes 32 16 t k out (encode16from32 pol mark ((encs 32 t).take k) 0 out 0) := by
  have := prefix_generic 32 16 (encode16from32 pol mark) (by intros; simp [encode16from32])
    (by
      intro c hc rest pos out inv
      have e : enc 32 c = [c] := by simp [enc, enc32]
      rw [e, List.cons_append, List.nil_append, encode16from32_enc32 c hc]; simp [enc])
    (by intro c hc k h0 hk pos out inv; simp [enc, enc32] at hk; omega)
    t ht k 0 out 0
  simpa [PrefixRes] using this

/-- **Truncation lemma, all six width-changing pairs**: the decoder the reader runs, applied to the
    first `k` units of a well-formed text, converts a prefix of the text exactly, stops at a
    character boundary with Success or UnexpectedEnd and counts no invalid sequence. -/
theorem nativeDecode_prefix (w wo : Nat) (hw : Width w) (hwo : Width wo) (hne : w ≠ wo)
    (t : List Nat) (ht : AllScalar t) (k : Nat) (pol : Policy) (mark : Option (List Nat)) (out : List Nat) :
    PrefixRes w wo t k out (nativeDecode w wo pol mark ((encs w t).take k) out) := by
  rcases hw with h | h | h <;> rcases hwo with h' | h' | h' <;> subst h <;> subst h' <;>
    first
    | exact absurd rfl hne
    | (simp only [nativeDecode, utf8Decode, utf16Decode, utf32Decode, utf16Encode]
       first
       | exact decode8_prefix _ (by simp) t ht k pol mark out
       | exact encode8_prefix _ (by simp) t ht k pol mark out
       | exact decode16to32_prefix t ht k pol mark out
       | exact encode16from32_prefix t ht k pol mark out)

/-- the same decoder on a complete well-formed text (all nine pairs except 8→8, which the reader
    never routes through a decoder) -/
theorem nativeDecode_full (w wo : Nat) (hw : Width w) (hwo : Width wo) (h88 : ¬ (w = 8 ∧ wo = 8))
    (t : List Nat) (ht : AllScalar t) (pol : Policy) (mark : Option (List Nat)) (out : List Nat) :
    nativeDecode w wo pol mark (encs w t) out = ⟨out ++ encs wo t, .success, (encs w t).length, 0⟩ := by
  rcases hw with h | h | h <;> subst h
  · rcases hwo with h' | h' | h' <;> subst h'
    · exact absurd ⟨rfl, rfl⟩ h88
    · simp only [nativeDecode, if_true]; exact utf8Decode_valid 16 (by simp) t ht pol mark out
    · simp only [nativeDecode, if_true]; exact utf8Decode_valid 32 (by simp) t ht pol mark out
  · simp only [nativeDecode, show ¬ (16 = 8) by decide, if_false, if_true]
    exact utf16Decode_valid wo hwo t ht pol mark out
  · simp only [nativeDecode, show ¬ (32 = 8) by decide, show ¬ (32 = 16) by decide, if_false]
    exact utf32Decode_valid wo hwo t ht pol mark out

/-! ### same-width paths (16→16 `copy16`, 32→32 `copyAll`) on arbitrary units -/

theorem copy16_prefix (l : List Nat) (pos : Nat) (out : List Nat) :
    ∃ j code, copy16 l pos out = ⟨out ++ l.take j, code, pos + j, 0⟩ ∧ j ≤ l.length ∧
      (code = .success ∨ code = .unexpectedEnd) := by
  induction l generalizing pos out with
  | nil => exact ⟨0, .success, by simp [copy16], by simp, Or.inl rfl⟩
  | cons u rest ih =>
    rw [copy16]
    split
    · exact ⟨0, .unexpectedEnd, by simp, by simp, Or.inr rfl⟩
    · obtain ⟨j, code, h1, h2, h3⟩ := ih (pos + 1) (out ++ [u])
      refine ⟨j + 1, code, ?_, by simp; omega, h3⟩
      rw [h1]; simp [Nat.add_assoc, Nat.add_comm 1]

/-- same-width result on arbitrary units: some prefix copied, stop with Success/UnexpectedEnd -/
theorem nativeDecode_same_prefix (w : Nat) (hw : w = 16 ∨ w = 32) (l : List Nat)
    (pol : Policy) (mark : Option (List Nat)) (out : List Nat) :
    ∃ j code, nativeDecode w w pol mark l out = ⟨out ++ l.take j, code, j, 0⟩ ∧ j ≤ l.length ∧
      (code = .success ∨ code = .unexpectedEnd) := by
  rcases hw with h | h <;> subst h
  · obtain ⟨j, code, h1, h2, h3⟩ := copy16_prefix l 0 out
    exact ⟨j, code, by simp [nativeDecode, utf16Decode, h1], h2, h3⟩
  · exact ⟨l.length, .success, by simp [nativeDecode, utf32Decode, copyAll], by simp, Or.inl rfl⟩

/-- same-width result on a complete *suffix* of a well-formed text: everything is copied -/
theorem nativeDecode_same_full (w : Nat) (hw : w = 16 ∨ w = 32) (t : List Nat) (ht : AllScalar t)
    (u1 u2 : List Nat) (hu : encs w t = u1 ++ u2)
    (pol : Policy) (mark : Option (List Nat)) (out : List Nat) :
    nativeDecode w w pol mark u2 out = ⟨out ++ u2, .success, u2.length, 0⟩ := by
  rcases hw with h | h <;> subst h
  · simp only [nativeDecode, show ¬ (16 = 8) by decide, if_false, if_true, utf16Decode]
    have hl : ∀ u, u2.getLast? = some u → ¬ (0xD800 ≤ u ∧ u < 0xDBFF) := by
      intro u hu2
      apply encs16_last t ht u
      rw [hu, List.getLast?_append, hu2]; rfl
    simpa using copy16_no_high_at_end u2 hl 0 out
  · simp [nativeDecode, utf32Decode, copyAll]

end BSVerif.Utf
