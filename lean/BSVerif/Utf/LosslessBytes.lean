/-
  Helper lemmas for the "lossless chunked reading" theorem of C13 — part 1: byte/unit plumbing.

  `encBytes e us` is the Spec's byte serialisation (`Spec.bytesLE` / `Spec.bytesBE`) of a unit
  sequence in the byte order of encoding `e`.  The lemmas here say how the reader's
  `unitsOfBytes` + the LE/BE iterator adapter of `chunkRes` see such bytes: as the units
  themselves (`chunkRes_encBytes`), and that byte prefixes/suffixes at unit boundaries are
  the serialisations of unit prefixes/suffixes.
-/
import BSVerif.Utf.Progress
import BSVerif.Props.C11

namespace BSVerif.Utf
open Spec
open BSVerif.Props.C11 (AllScalar Width reverse16_involutive reverse32_involutive)

/-- bytes of a unit sequence in the byte order of `e` (Spec serialisation) -/
def encBytes (e : UtfType) (us : List Nat) : List Nat :=
  if e.isBE then bytesBE e.width us else bytesLE e.width us

/-- the decoder that `chunkRes` runs, seen on *logical* units (after the byte-order adapter) -/
def nativeDecode (w wo : Nat) (pol : Policy) (mark : Option (List Nat)) (units out : List Nat) : Res :=
  if w = 8 then utf8Decode wo pol mark units out
  else if w = 16 then utf16Decode wo pol mark units out
  else utf32Decode wo pol mark units out

@[simp] theorem encBytes_nil (e : UtfType) : encBytes e [] = [] := by
  cases e <;> rfl

theorem encBytes_append (e : UtfType) (a b : List Nat) :
    encBytes e (a ++ b) = encBytes e a ++ encBytes e b := by
  unfold encBytes bytesBE bytesLE; split <;> simp [List.flatMap_append]

theorem encBytes_cons (e : UtfType) (a : Nat) (v : List Nat) :
    encBytes e (a :: v) = encBytes e [a] ++ encBytes e v := by
  rw [← encBytes_append]; rfl

theorem encBytes_single_length (e : UtfType) (a : Nat) : (encBytes e [a]).length = e.width / 8 := by
  cases e <;> simp [encBytes, bytesLE, bytesBE, unitBytesLE, unitBytesBE, UtfType.width, UtfType.isBE]

theorem encBytes_length (e : UtfType) (v : List Nat) : (encBytes e v).length = v.length * (e.width / 8) := by
  induction v with
  | nil => simp
  | cons a v ih =>
    rw [encBytes_cons, List.length_append, encBytes_single_length, ih, List.length_cons, Nat.add_mul]
    omega

theorem encBytes_take (e : UtfType) (v : List Nat) (k : Nat) :
    (encBytes e v).take (k * (e.width / 8)) = encBytes e (v.take k) := by
  induction v generalizing k with
  | nil => simp
  | cons a v ih =>
    cases k with
    | zero => simp
    | succ k =>
      rw [encBytes_cons e a v, List.take_succ_cons, encBytes_cons e a (v.take k)]
      have h : (k + 1) * (e.width / 8) = (encBytes e [a]).length + k * (e.width / 8) := by
        rw [encBytes_single_length, Nat.add_mul]; omega
      rw [h, List.take_length_add_append, ih]

theorem encBytes_drop (e : UtfType) (v : List Nat) (k : Nat) :
    (encBytes e v).drop (k * (e.width / 8)) = encBytes e (v.drop k) := by
  induction v generalizing k with
  | nil => simp
  | cons a v ih =>
    cases k with
    | zero => simp
    | succ k =>
      rw [encBytes_cons e a v, List.drop_succ_cons]
      have h : (k + 1) * (e.width / 8) = (encBytes e [a]).length + k * (e.width / 8) := by
        rw [encBytes_single_length, Nat.add_mul]; omega
      rw [h, List.drop_length_add_append, ih]

theorem encBytes_eq_nil (e : UtfType) (v : List Nat) (h : encBytes e v = []) : v = [] := by
  have hl := encBytes_length e v
  rw [h] at hl
  have hb := width_cases e
  cases v with
  | nil => rfl
  | cons a v =>
    simp only [List.length_nil, List.length_cons] at hl
    have : 0 < (v.length + 1) * (e.width / 8) := Nat.mul_pos (by omega) (by omega)
    omega

/-! ### what the reader sees -/

theorem encBytes_utf8 (v : List Nat) (h : ∀ x ∈ v, x < 2 ^ 8) : encBytes .utf8 v = v := by
  induction v with
  | nil => rfl
  | cons a v ih =>
    rw [encBytes_cons, ih (fun x hx => h x (by simp [hx]))]
    have := h a (by simp)
    simp [encBytes, bytesLE, unitBytesLE, UtfType.width, UtfType.isBE]
    omega

theorem units16_le (v : List Nat) (h : ∀ x ∈ v, x < 2 ^ 16) : unitsOfBytes16 (bytesLE 16 v) = v := by
  induction v with
  | nil => rfl
  | cons a v ih =>
    have ha := h a (by simp)
    have e : bytesLE 16 (a :: v) = a % 256 :: (a / 256 % 256) :: bytesLE 16 v := by
      simp [bytesLE, unitBytesLE, List.range_succ]
    rw [e, unitsOfBytes16, ih (fun x hx => h x (by simp [hx]))]
    congr 1; omega

theorem units16_be (v : List Nat) (h : ∀ x ∈ v, x < 2 ^ 16) :
    (unitsOfBytes16 (bytesBE 16 v)).map (reverseUnit 16) = v := by
  induction v with
  | nil => rfl
  | cons a v ih =>
    have ha := h a (by simp)
    have e : bytesBE 16 (a :: v) = (a / 256 % 256) :: (a % 256) :: bytesBE 16 v := by
      simp [bytesBE, unitBytesBE, unitBytesLE, List.range_succ]
    rw [e, unitsOfBytes16, List.map_cons, ih (fun x hx => h x (by simp [hx]))]
    congr 1
    have e1 : a / 256 % 256 + 256 * (a % 256) = reverse16 a := by unfold reverse16; omega
    rw [e1]
    simp only [reverseUnit, if_true]
    exact reverse16_involutive a ha

theorem units32_le (v : List Nat) (h : ∀ x ∈ v, x < 2 ^ 32) : unitsOfBytes32 (bytesLE 32 v) = v := by
  induction v with
  | nil => rfl
  | cons a v ih =>
    have ha := h a (by simp)
    have e : bytesLE 32 (a :: v)
        = a % 256 :: (a / 256 % 256) :: (a / 65536 % 256) :: (a / 16777216 % 256) :: bytesLE 32 v := by
      simp [bytesLE, unitBytesLE, List.range_succ]
    rw [e, unitsOfBytes32, ih (fun x hx => h x (by simp [hx]))]
    congr 1; omega

theorem units32_be (v : List Nat) (h : ∀ x ∈ v, x < 2 ^ 32) :
    (unitsOfBytes32 (bytesBE 32 v)).map (reverseUnit 32) = v := by
  induction v with
  | nil => rfl
  | cons a v ih =>
    have ha := h a (by simp)
    have e : bytesBE 32 (a :: v)
        = (a / 16777216 % 256) :: (a / 65536 % 256) :: (a / 256 % 256) :: (a % 256) :: bytesBE 32 v := by
      simp [bytesBE, unitBytesBE, unitBytesLE, List.range_succ]
    rw [e, unitsOfBytes32, List.map_cons, ih (fun x hx => h x (by simp [hx]))]
    congr 1
    have e1 : a / 16777216 % 256 + 256 * (a / 65536 % 256) + 65536 * (a / 256 % 256) + 16777216 * (a % 256)
        = reverse32 a := by unfold reverse32; omega
    rw [e1]
    simp only [reverseUnit, if_true, show ¬ (32 = 16) by decide, if_false]
    exact reverse32_involutive a ha

/-- **The reader's view of Spec-serialised units**: reinterpreting the bytes as host units and
    going through the LE/BE adapter of `DecodeChunk` yields the decoder run on the units
    themselves. -/
theorem chunkRes_encBytes (e : UtfType) (wo : Nat) (pol : Policy) (mark : Option (List Nat))
    (v out : List Nat) (hv : ∀ x ∈ v, x < 2 ^ e.width) :
    chunkRes e wo pol mark (unitsOfBytes e.width (encBytes e v)) out
      = nativeDecode e.width wo pol mark v out := by
  cases e
  · simp only [UtfType.width] at hv
    simp [chunkRes, nativeDecode, UtfType.width, unitsOfBytes, encBytes_utf8 v hv]
  · simp only [UtfType.width] at hv
    simp [chunkRes, nativeDecode, UtfType.width, UtfType.isBE, unitsOfBytes, encBytes, decodeEndian,
      units16_le v hv]
  · simp only [UtfType.width] at hv
    simp [chunkRes, nativeDecode, UtfType.width, UtfType.isBE, unitsOfBytes, encBytes, decodeEndian,
      units16_be v hv]
  · simp only [UtfType.width] at hv
    simp [chunkRes, nativeDecode, UtfType.width, UtfType.isBE, unitsOfBytes, encBytes, decodeEndian,
      units32_le v hv]
  · simp only [UtfType.width] at hv
    simp [chunkRes, nativeDecode, UtfType.width, UtfType.isBE, unitsOfBytes, encBytes, decodeEndian,
      units32_be v hv]

/-! ### unit ranges of the standard encoding forms -/

theorem enc_lt (w : Nat) (hw : Width w) (c : Nat) (hc : IsScalar c) : ∀ x ∈ enc w c, x < 2 ^ w := by
  obtain ⟨hlt, hns⟩ := hc
  rcases hw with h | h | h <;> subst h
  · intro x hx
    simp only [enc, if_true, enc8] at hx
    split at hx
    · simp at hx; omega
    · split at hx
      · simp at hx; omega
      · split at hx
        · simp at hx; omega
        · simp at hx; omega
  · intro x hx
    simp only [enc, show ¬ (16 = 8) by decide, if_false, if_true, enc16] at hx
    split at hx
    · simp at hx; omega
    · simp at hx; omega
  · intro x hx
    simp [enc, enc32] at hx; omega

theorem encs_append (w : Nat) (a b : List Nat) : encs w (a ++ b) = encs w a ++ encs w b := by
  simp [encs, List.flatMap_append]

theorem encs_lt (w : Nat) (hw : Width w) (t : List Nat) (ht : AllScalar t) : ∀ x ∈ encs w t, x < 2 ^ w := by
  induction t with
  | nil => simp
  | cons c t ih =>
    intro x hx
    simp only [encs_cons, List.mem_append] at hx
    rcases hx with hx | hx
    · exact enc_lt w hw c (ht c (by simp)) x hx
    · exact ih (fun y hy => ht y (by simp [hy])) x hx

theorem enc_ne_nil (w c : Nat) : enc w c ≠ [] := by
  unfold enc enc8 enc16 enc32
  repeat' split
  all_goals simp

theorem encs_eq_nil (w : Nat) (t : List Nat) (h : encs w t = []) : t = [] := by
  cases t with
  | nil => rfl
  | cons c t =>
    simp only [encs_cons, List.append_eq_nil_iff] at h
    exact absurd h.1 (enc_ne_nil w c)

end BSVerif.Utf
