/-
  MODEL of `DetectEncoding`, `CEncodedStreamReader<TTarget, N>` and `CEncodedStreamWriter`
  (include/bitserializer/conversion_detail/convert_utf.h:727-1091), little-endian host.

  * the input stream is `(rest, eof)`: `read n` delivers `min n rest.length` bytes and sets eof when
    fewer than `n` (n > 0) were available; once eof is set nothing is delivered any more;
  * the reader window is `(startOff, win)`: `win` = bytes between mStartDataPtr and mEndDataPtr,
    `startOff` = mStartDataPtr − mEncodedBuffer; `N` = ChunkSize.
-/
import BSVerif.Utf.Model
import BSVerif.Generated.UtfConsts

namespace BSVerif.Utf

inductive UtfType where
  | utf8 | utf16le | utf16be | utf32le | utf32be
  deriving DecidableEq, Repr

def UtfType.width : UtfType → Nat
  | .utf8 => 8 | .utf16le => 16 | .utf16be => 16 | .utf32le => 32 | .utf32be => 32

def UtfType.isBE : UtfType → Bool
  | .utf16be => true | .utf32be => true | _ => false

/-- BOM table as compiled into the library (regenerated from the source on every run). -/
def bomOf : UtfType → List Nat
  | .utf8 => Generated.Utf.bomUtf8
  | .utf16le => Generated.Utf.bomUtf16le
  | .utf16be => Generated.Utf.bomUtf16be
  | .utf32le => Generated.Utf.bomUtf32le
  | .utf32be => Generated.Utf.bomUtf32be

/-- `StartsWithBom` -/
def startsWith (bom : List Nat) (s : List Nat) : Bool := bom.isPrefixOf s

def le16At (s : List Nat) (i : Nat) : Nat := s.getD i 0 + 256 * s.getD (i + 1) 0
def le32At (s : List Nat) (i : Nat) : Nat :=
  s.getD i 0 + 256 * s.getD (i + 1) 0 + 65536 * s.getD (i + 2) 0 + 16777216 * s.getD (i + 3) 0

/-- the zero-byte pattern analysis loop of `DetectEncoding`, from index `i`, `fuel` iterations left -/
def analyse (s : List Nat) : Nat → Nat → UtfType
  | 0, _ => .utf8
  | fuel + 1, i =>
    if i ≥ s.length then .utf8 else
    let r32 : Option UtfType :=
      if i % 4 = 0 ∧ i + 4 ≤ s.length then
        let sym := le32At s i
        if sym ≠ 0 then
          if sym / 65536 = 0 then some .utf32le
          else if sym % 65536 = 0 then some .utf32be
          else none
        else none
      else none
    match r32 with
    | some t => t
    | none =>
      let r16 : Option UtfType :=
        if i % 2 = 0 ∧ i + 2 ≤ s.length then
          let sym := le16At s i
          if sym ≠ 0 then
            if sym / 256 = 0 then some .utf16le
            else if sym % 256 = 0 then some .utf16be
            else none
          else none
        else none
      match r16 with
      | some t => t
      | none => analyse s fuel (i + 1)

/-- `DetectEncoding(string_view, out_dataOffset)` -/
def detect (s : List Nat) : UtfType × Nat :=
  if s.isEmpty then (.utf8, 0)
  else if startsWith (bomOf .utf8) s then (.utf8, (bomOf .utf8).length)
  else if startsWith (bomOf .utf32le) s then (.utf32le, (bomOf .utf32le).length)
  else if startsWith (bomOf .utf32be) s then (.utf32be, (bomOf .utf32be).length)
  else if startsWith (bomOf .utf16le) s then (.utf16le, (bomOf .utf16le).length)
  else if startsWith (bomOf .utf16be) s then (.utf16be, (bomOf .utf16be).length)
  else (analyse s s.length 0, 0)

/-! ### input stream -/

structure IStream where
  rest : List Nat
  eof : Bool
  deriving Repr, DecidableEq

/-- `istream::read(ptr, n)`; returns (bytes delivered, new stream) -/
def IStream.read (s : IStream) (n : Nat) : List Nat × IStream :=
  if s.eof then ([], s)
  else if n = 0 then ([], s)
  else if s.rest.length < n then (s.rest, ⟨[], true⟩)
  else (s.rest.take n, ⟨s.rest.drop n, false⟩)

/-! ### CEncodedStreamReader -/

structure Reader where
  N : Nat
  wo : Nat                 -- target char width
  pol : Policy
  mark : Option (List Nat)
  utf : UtfType
  startOff : Nat
  win : List Nat
  stream : IStream
  deriving Repr

inductive ReadResult where
  | success | decodeError | endFile
  deriving DecidableEq, Repr

/-- `ReadNextEncodedChunk`: returns (lastReadSize ≠ 0, new state) -/
def Reader.readNext (r : Reader) : Bool × Reader :=
  let startOff := if r.startOff = r.N then 0 else if r.startOff ≠ 0 then 0 else r.startOff
  let win := if r.startOff = r.N then [] else r.win
  let (got, st) := r.stream.read (r.N - (startOff + win.length))
  (!got.isEmpty, { r with startOff := startOff, win := win ++ got, stream := st })

/-- constructor -/
def Reader.mk' (N wo : Nat) (pol : Policy) (mark : Option (List Nat)) (bytes : List Nat) : Reader :=
  let r0 : Reader := ⟨N, wo, pol, mark, .utf8, 0, [], ⟨bytes, false⟩⟩
  let (any, r1) := r0.readNext
  if any then
    let (t, off) := detect r1.win
    { r1 with utf := t, startOff := r1.startOff + off, win := r1.win.drop off }
  else r1

def Reader.isEnd (r : Reader) : Bool := r.win.isEmpty && r.stream.eof

/-- the `TUtf::Decode` call made by `DecodeChunk<TUtf>` -/
def chunkRes (utf : UtfType) (wo : Nat) (pol : Policy) (mark : Option (List Nat)) (units out : List Nat) : Res :=
  if utf.width = 8 then utf8Decode wo pol mark units out
  else decodeEndian utf.width utf.isBE wo pol mark units out

/-- `DecodeChunk<TUtf>`: returns (result, appended output, new state) given the current output -/
def Reader.decodeChunk (r : Reader) (out : List Nat) : ReadResult × List Nat × Reader :=
  let w := r.utf.width
  let bpu := w / 8
  let alignedLen := r.win.length - r.win.length % bpu
  let units := unitsOfBytes w (r.win.take alignedLen)
  let res : Res := chunkRes r.utf r.wo r.pol r.mark units out
  let consumed := res.iter * bpu
  let r1 := { r with startOff := r.startOff + consumed, win := r.win.drop consumed }
  if r.stream.eof then
    let cropped := res.code = .success ∧ ¬ r1.win.isEmpty
    if res.code = .unexpectedEnd ∨ cropped then
      match handleError res.out r.pol r.mark with
      | some out' => (.success, out', { r1 with startOff := 0, win := [] })
      | none => (.decodeError, res.out, r1)
    else if res.code = .success then (.success, res.out, r1)
    else (.decodeError, res.out, r1)
  else
    if res.code = .success ∨ res.code = .unexpectedEnd then (.success, res.out, r1)
    else (.decodeError, res.out, r1)

/-- `ReadChunk(outStr)` -/
def Reader.readChunk (r : Reader) (out : List Nat) : ReadResult × List Nat × Reader :=
  if r.isEnd then (.endFile, out, r)
  else
    let (any, r1) := r.readNext
    if !any && r1.win.isEmpty then (.endFile, out, r1)
    else if r1.utf = .utf8 ∧ r1.wo = 8 then
      (.success, out ++ r1.win, { r1 with startOff := 0, win := [] })
    else r1.decodeChunk out

/-- call `ReadChunk` until EndFile / DecodeError (at most `fuel` calls); returns the list of
    per-call results, the decoded text, and whether fuel ran out (= the caller would hang) -/
def Reader.readAll : Nat → Reader → List Nat → List ReadResult → List ReadResult × List Nat × Bool
  | 0, _, out, acc => (acc.reverse, out, true)
  | fuel + 1, r, out, acc =>
    match r.readChunk out with
    | (.success, out', r') => Reader.readAll fuel r' out' (.success :: acc)
    | (res, out', _) => ((res :: acc).reverse, out', false)

/-- progress measure for the no-hang theorem -/
def Reader.measure (r : Reader) : Nat :=
  r.stream.rest.length + r.win.length + (if r.stream.eof then 0 else 1)

/-! ### CEncodedStreamWriter -/

/-- bytes of native units on a little-endian host -/
def bytesOfUnits (w : Nat) (us : List Nat) : List Nat :=
  us.flatMap fun u => (List.range (w / 8)).map fun i => u / 256 ^ i % 256

/-- `Write(str)` with `wi`-bit source units: returns (code, bytes written) -/
def writerWrite (t : UtfType) (pol : Policy) (wi : Nat) (str : List Nat) : Code × List Nat :=
  if wi = 8 ∧ t = .utf8 then (.success, str)
  else
    let w := t.width
    -- default error mark of the scratch string's char type
    let mark : Option (List Nat) := some (if w = 8 then [0xE2, 0x98, 0x90] else [0x2610])
    let res : Res :=
      if w = 8 then utf8Encode wi pol mark str []
      else encodeEndian w t.isBE wi pol mark str []
    if res.code = .success then (.success, bytesOfUnits w res.out) else (res.code, [])

def writerOpen (t : UtfType) (addBom : Bool) : List Nat := if addBom then bomOf t else []

end BSVerif.Utf
