/-
  SPEC for C03 (written from the property, not from the C++): a document is a tree of values; an
  object is a finite map from keys to values; a request history is answered by lookups.
  `judge` checks a list of implementation answers against this abstract data model.

  Closing a scope — object or array, wherever its cursor stands — passes over everything in it that
  was not read, so what follows it in the enclosing scope is answered from the right place. (Before
  the repair `~CMsgPackReadArrayScope` skips the unread elements, an array scope left partly read was
  the recorded class `msgpack-array-left-partly-read`; the oracle now demands the data-model answers
  after such a close as after any other.)

  Values may be ext values and timestamps (ext type -1): scalars of the data model like any other — skipped as a whole
  when they are not read, loaded only into a timestamp target (a timestamp) and mismatched for every other target;
  timestamps may be keys.

  A `bin` value is a LIST OF BYTES. `OpenBinaryScope` on it gives its length; the byte reads deliver its bytes in order,
  one past the last is OutOfRange; closing the scope — fully read, partly read or not read at all — passes over the
  whole value, so whatever is left unread does not disturb what follows. `OpenBinaryScope` on a value that is not a
  `bin` answers "no" and leaves that value where it is: it is still the next value of the array / the root (a byte
  container then loads it through `OpenArrayScope`), and it does not count as an element.
-/
import BSVerif.Scope.Model

namespace BSVerif.Scope.Spec
open BSVerif.Scope

inductive Val where
  | sc (t : Tok)                       -- scalar token (nil/bool/int/flt/str/bin)
  | arr (items : List Val)
  | map (entries : List (Val × Val))
  deriving Repr

/-- parse `n` values from a token list (fuel = token count) -/
def parseVals : Nat → Nat → List Tok → Option (List Val × List Tok)
  | _, 0, ts => some ([], ts)
  | 0, _ + 1, _ => none
  | fuel + 1, n + 1, ts =>
    match ts with
    | [] => none
    | .arr k :: rest =>
      match parseVals fuel k rest with
      | some (items, rest') =>
        match parseVals fuel n rest' with
        | some (vs, rest'') => some (.arr items :: vs, rest'')
        | none => none
      | none => none
    | .map k :: rest =>
      match parseVals fuel (2 * k) rest with
      | some (kv, rest') =>
        let rec pair : List Val → List (Val × Val)
          | a :: b :: r => (a, b) :: pair r
          | _ => []
        match parseVals fuel n rest' with
        | some (vs, rest'') => some (.map (pair kv) :: vs, rest'')
        | none => none
      | none => none
    | t :: rest =>
      match parseVals fuel n rest with
      | some (vs, rest') => some (.sc t :: vs, rest')
      | none => none

/-- all top-level values of a document -/
def parseDoc (ts : List Tok) : Option (List Val) :=
  let rec go : Nat → List Tok → List Val → Option (List Val)
    | 0, _, _ => none
    | fuel + 1, ts, acc =>
      if ts.isEmpty then some acc.reverse
      else match parseVals ts.length 1 ts with
        | some ([v], rest) => go fuel rest (v :: acc)
        | _ => none
  go (ts.length + 1) ts []

def keyOf : Val → Option Key
  | .sc (.str s) => some (.str s)
  | .sc (.int v) => some (.int v)
  | .sc (.ts s n) => some (.ts s n)
  | _ => none

/-- abstract scope views -/
inductive View where
  | root (vals : List Val) (idx : Nat)
  | obj (entries : List (Val × Val))
  | arr (items : List Val) (idx : Nat)
  | bin (bytes : List Nat) (idx : Nat)
  deriving Repr

def lookup (entries : List (Val × Val)) (k : Key) : Option Val :=
  (entries.find? fun e => keyOf e.1 == some k).map (·.2)

def expectScalar (mis : Mis) (ty : Ty) (v : Val) : Ans :=
  match v with
  | .sc t =>
    match matchTy ty t with
    | .val s => .val s
    | .overflow => .err .overflow
    | .other => if t ≠ .nil ∧ mis = .throwError then .err .mismatched else .no
  | _ => if mis = .throwError then .err .mismatched else .no

/-- number of complete top-level values at the front of a (possibly truncated) token list -/
def completeTop (ts : List Tok) : Nat :=
  let rec go : Nat → List Tok → Nat → Nat
    | 0, _, n => n
    | fuel + 1, ts, n =>
      if ts.isEmpty then n
      else match parseVals ts.length 1 ts with
        | some ([_], rest) => go fuel rest (n + 1)
        | _ => n
  go (ts.length + 1) ts 0

/-- A TRUNCATED document (the token list ends inside a container): the data model has no value for the incomplete
    top-level container, so the only demand is C20's — once a history has asked for that container (read it, or opened
    and, as every history does, closed it), the session must not end normally: either a request raises an exception, or
    the skip loop of a scope destructor notices the missing part and `Finalize()` reports it. Histories that never
    reach the incomplete value are not judged. -/
def judgeTruncated (doc : List Tok) (reqs : List Req) (answers : List Ans) : String :=
  let top := completeTop doc
  let rec go : List Req → List Ans → Nat → Nat → Bool → Bool
    | q :: qs, a :: as, depth, rootIdx, touched =>
      -- `OpenBinaryScope` at the root consumes a value only when it opens (a value of another type stays in place;
      -- an incomplete container is never a `bin`, so such a request does not reach the missing part)
      let isRootReq := depth == 0 && (match q, a with
        | .next _, _ | .openArr, _ | .openObj, _ => true
        | .openBin, .opened _ => true
        | _, _ => false)
      let touched' := touched || (isRootReq && rootIdx == top)
      let rootIdx' := if isRootReq then rootIdx + 1 else rootIdx
      let depth' := match a with | .opened _ => depth + 1 | .closed => depth - 1 | _ => depth
      go qs as depth' rootIdx' touched'
    | _, _, _, _, touched => touched
  let endsInError := match answers.getLast? with | some (.err _) => true | _ => false
  if go reqs answers 0 0 false then
    (if endsInError then "ok" else "bad:truncated_document_loaded_without_an_exception")
  else "nospec"

/-- returns `ok`, `bad:<why>` or `known:<class>` -/
def judge (mis : Mis) (doc : List Tok) (reqs : List Req) (answers : List Ans) : String :=
  match parseDoc doc with
  | none => judgeTruncated doc reqs answers
  | some vals =>
    let rec go : List View → List Req → List Ans → Nat → String
      | _, [], [], _ => "ok"
      | _, [], _ :: _, _ => "bad:more_answers_than_requests"
      | _, _ :: _, [], i => s!"bad:req{i}:missing_answer"
      | views, q :: qs, a :: as, i =>
        let bad (why : String) : String := s!"bad:req{i}:{why}"
        let expect (e : Ans) (views' : List View) : String :=
          if a = e then (match e with | .err _ => (if as.isEmpty then "ok" else bad "answers_after_exception") | _ => go views' qs as (i + 1))
          else bad "answer_differs_from_the_data_model"
        match views, q with
        | .root vs idx :: tl, .next ty =>
          match vs[idx]? with
          | none => expect (.err .parsing) views
          | some v => expect (expectScalar mis ty v) (.root vs (idx + 1) :: tl)
        | .root vs idx :: tl, .openArr =>
          match vs[idx]? with
          | none => expect (.err .parsing) views
          | some (.arr items) => expect (.opened items.length) (.arr items 0 :: .root vs (idx + 1) :: tl)
          | some (.sc .nil) => expect .no (.root vs (idx + 1) :: tl)
          | some _ => expect (if mis = .throwError then .err .mismatched else .no) (.root vs (idx + 1) :: tl)
        | .root vs idx :: tl, .openObj =>
          match vs[idx]? with
          | none => expect (.err .parsing) views
          | some (.map es) => expect (.opened es.length) (.obj es :: .root vs (idx + 1) :: tl)
          | some (.sc .nil) => expect .no (.root vs (idx + 1) :: tl)
          | some _ => expect (if mis = .throwError then .err .mismatched else .no) (.root vs (idx + 1) :: tl)
        | .arr items idx :: tl, .next ty =>
          match items[idx]? with
          | none => expect (.err .outOfRange) views
          | some v => expect (expectScalar mis ty v) (.arr items (idx + 1) :: tl)
        | .arr items idx :: tl, .openArr =>
          match items[idx]? with
          | none => expect (.err .outOfRange) views
          | some (.arr its) => expect (.opened its.length) (.arr its 0 :: .arr items (idx + 1) :: tl)
          | some (.sc .nil) => expect .no (.arr items (idx + 1) :: tl)
          | some _ => expect (if mis = .throwError then .err .mismatched else .no) (.arr items (idx + 1) :: tl)
        | .arr items idx :: tl, .openObj =>
          match items[idx]? with
          | none => expect (.err .outOfRange) views
          | some (.map es) => expect (.opened es.length) (.obj es :: .arr items (idx + 1) :: tl)
          | some (.sc .nil) => expect .no (.arr items (idx + 1) :: tl)
          | some _ => expect (if mis = .throwError then .err .mismatched else .no) (.arr items (idx + 1) :: tl)
        | .root vs idx :: tl, .openBin =>
          match vs[idx]? with
          | none => expect (.err .parsing) views
          | some (.sc (.bin bs)) => expect (.opened bs.length) (.bin bs 0 :: .root vs (idx + 1) :: tl)
          | some _ => expect .no views                       -- left in place: still the next value
        | .arr items idx :: tl, .openBin =>
          match items[idx]? with
          | none => expect (.err .outOfRange) views
          | some (.sc (.bin bs)) => expect (.opened bs.length) (.bin bs 0 :: .arr items (idx + 1) :: tl)
          | some _ => expect .no views                       -- left in place and not counted
        | .arr items idx :: _, .isEnd => expect (.flag (idx = items.length)) views
        | .arr _ _ :: tl, .close => expect .closed tl
        | .obj es :: tl, .get k ty =>
          match lookup es k with
          | some v => expect (expectScalar mis ty v) views
          | none => expect .no views
        | .obj es :: tl, .openArrK k =>
          match lookup es k with
          | some (.arr its) => expect (.opened its.length) (.arr its 0 :: views)
          | some (.sc .nil) => expect .no views
          | some _ => expect (if mis = .throwError then .err .mismatched else .no) views
          | none => expect .no views
        | .obj es :: tl, .openObjK k =>
          match lookup es k with
          | some (.map es') => expect (.opened es'.length) (.obj es' :: views)
          | some (.sc .nil) => expect .no views
          | some _ => expect (if mis = .throwError then .err .mismatched else .no) views
          | none => expect .no views
        | .obj es :: _, .openBinK k =>
          match lookup es k with
          | some (.sc (.bin bs)) => expect (.opened bs.length) (.bin bs 0 :: views)
          | _ => expect .no views
        | .bin bs idx :: tl, .readByte =>
          match bs[idx]? with
          | some b => expect (.val (.byte b)) (.bin bs (idx + 1) :: tl)
          | none => expect (.err .outOfRange) views
        | .bin bs idx :: _, .isEnd => expect (.flag (idx = bs.length)) views
        | .bin _ _ :: tl, .close => expect .closed tl
        | .obj es :: _, .visit => expect (.keys (es.filterMap fun e => keyOf e.1)) views
        | .obj _ :: tl, .close => expect .closed tl
        | _, _ => "nospec"
    go [.root vals 0] reqs answers 0

end BSVerif.Scope.Spec
