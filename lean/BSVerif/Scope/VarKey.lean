/-
  `CVariableKey::operator==` of msgpack_archive.h for integer keys (transliteration) and the theorem that it IS
  equality of the mathematical integers, for every C++ integer type the caller may pass the key as.
  The scope model (Scope/Model.lean) compares keys as mathematical integers; this file is what justifies that.
-/
namespace BSVerif.Scope.VarKey

/-- a C++ integer type: width in bits and signedness -/
structure ITy where
  bits : Nat
  signed : Bool
  deriving Repr, DecidableEq

/-- the values representable in `t` -/
def ITy.holds (t : ITy) (v : Int) : Prop :=
  if t.signed then -(2 ^ (t.bits - 1) : Int) ≤ v ∧ v < 2 ^ (t.bits - 1) else 0 ≤ v ∧ v < 2 ^ t.bits

/-- which alternative of the key tuple `ReadKey` filled: `uint64_t` (positive fixint, uint 8..64 formats)
    or `int64_t` (negative fixint, int 8..64 formats) -/
inductive Stored where
  | u (v : Int)
  | s (v : Int)
  deriving Repr, DecidableEq

def Stored.val : Stored → Int
  | .u v => v
  | .s v => v

def Stored.holds : Stored → Prop
  | .u v => 0 ≤ v ∧ v < 2 ^ 64
  | .s v => -(2 ^ 63 : Int) ≤ v ∧ v < 2 ^ 63

/-- `static_cast<std::make_unsigned_t<T>>(value)` -/
def toUnsigned (t : ITy) (v : Int) : Int := v % 2 ^ t.bits

/-- `static_cast<int64_t>(value)` of a `uint64_t` -/
def toSigned64 (v : Int) : Int := if v < 2 ^ 63 then v else v - 2 ^ 64

/-- `CVariableKey::operator==(const T& value)`, integral branch -/
def eqKey (st : Stored) (t : ITy) (v : Int) : Bool :=
  match st with
  | .u r => decide (v ≥ 0) && r == toUnsigned t v
  | .s r =>
    if t.signed then r == v
    else decide (v ≤ 2 ^ 63 - 1) && r == toSigned64 v

/-- the comparison is equality of the integers, whatever type the caller used -/
theorem eqKey_iff (st : Stored) (t : ITy) (v : Int)
    (hb : t.bits = 8 ∨ t.bits = 16 ∨ t.bits = 32 ∨ t.bits = 64) (hv : t.holds v) (hs : st.holds) :
    eqKey st t v = true ↔ st.val = v := by
  obtain ⟨bits, sg⟩ := t
  simp only at hb
  rcases hb with h | h | h | h <;> subst h <;> cases sg <;> cases st <;>
    simp only [eqKey, toUnsigned, toSigned64, Stored.val, ITy.holds, Stored.holds, Bool.and_eq_true, decide_eq_true_eq, beq_iff_eq,
      Bool.false_eq_true, if_false, if_true] at * <;>
    (try split) <;> omega

/-- the same comparison WITHOUT the `value >= 0` guard is not equality: −1 passed as `int` would match the stored
    key 4294967295 (this is the shape of a realistic regression; kept as a refutation so that the guard is visibly needed) -/
def eqKeyNoGuard (st : Stored) (t : ITy) (v : Int) : Bool :=
  match st with
  | .u r => r == toUnsigned t v
  | .s r => eqKey (.s r) t v

theorem eqKeyNoGuard_refuted : eqKeyNoGuard (.u 4294967295) ⟨32, true⟩ (-1) = true ∧ (Stored.u 4294967295).val ≠ -1 := by
  decide

end BSVerif.Scope.VarKey
