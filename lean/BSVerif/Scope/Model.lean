/-
  MODEL of the MsgPack read scopes (include/bitserializer/msgpack_archive.h:470-960):
  CMsgPackReadObjectScope (mStartPos/mSize/mIndex/mCurrentKey cursor, FindValueByKey with
  wrap-around, ResetKey, OnFinishChildScope, VisitKeys, destructor skip loop),
  CMsgPackReadArrayScope (mSize/mIndex, CheckEnd, destructor skip loop), CMsgPackReadBinaryScope (mSize/mIndex over the
  payload of one `bin` value, opened by `OpenBinaryScope` of the root/array/object scope — which leaves a value of another
  type in place and does not count it —, destructor skip loop), MsgPackReadRootScope
  (Finalize) and the deferred-error path of the destructors (an exception of SkipValue inside a
  destructor is caught, the first one is remembered in the SerializationContext and rethrown by
  MsgPackReadRootScope::Finalize) — over a TOKEN-level reader: the document is a list of tokens, a position is a token index. The byte-level
  reader (src/msgpack/msgpack_readers.cpp) is modelled separately (BSVerif/MsgPack); what the
  scopes use of it is: ReadValue<T> (true + value / false after skipping the value by policy /
  MismatchedTypes), ReadArraySize, ReadMapSize, ReadValueType, SkipValue, Get/SetPosition.
-/
import BSVerif.Basic

namespace BSVerif.Scope

inductive Tok where
  | nil
  | bool (b : Bool)
  | int (v : Int)
  | flt (bits : Nat)
  | str (s : List Nat)
  | bin (bs : List Nat)
  | arr (n : Nat)
  | map (n : Nat)
  | ext (ty : Int) (payload : List Nat)   -- ext family (fixext1..16, ext8/16/32) with a type other than -1
  | ts (sec : Int) (ns : Nat)             -- ext type -1 in the timestamp 32 / timestamp 64 layout
  deriving Repr, DecidableEq

/-- number of values that follow a header token -/
def Tok.children : Tok → Nat
  | .arr n => n
  | .map n => 2 * n
  | _ => 0

/-- `SkipValue` on the token stream: skip `need` complete values; `none` = input exhausted
    (the real reader throws ParsingException). -/
def skipN : List Tok → Nat → Option (List Tok)
  | ts, 0 => some ts
  | [], _ + 1 => none
  | t :: ts, n + 1 => skipN ts (n + t.children)

inductive Key where
  | str (s : List Nat)
  | int (v : Int)
  | ts (sec : Int) (ns : Nat)
  deriving Repr, DecidableEq

inductive Ty where
  | int | bool | str | flt | nil
  | ts                                    -- target `CBinTimestamp`
  deriving Repr, DecidableEq

inductive Err where
  | parsing | mismatched | outOfRange | overflow
  deriving Repr, DecidableEq

inductive Mis where
  | throwError | skip
  deriving Repr, DecidableEq

/-- loaded scalar -/
inductive Sc where
  | int (v : Int) | bool (b : Bool) | str (s : List Nat) | flt (b : Nat) | nil
  | ts (sec : Int) (ns : Nat)             -- loaded `CBinTimestamp`
  | byte (b : Nat)                        -- one byte delivered by a binary scope
  deriving Repr, DecidableEq

structure Rd where
  doc : List Tok
  pos : Nat
  mis : Mis
  deriving Repr

def Rd.rest (r : Rd) : List Tok := r.doc.drop r.pos

/-- `SkipValue()` -/
def Rd.skipValue (r : Rd) : Except Err Rd :=
  match r.rest with
  | [] => .error .parsing        -- "No more values to read"
  | _ =>
    match skipN r.rest 1 with
    | some rest' => .ok { r with pos := r.doc.length - rest'.length }
    | none => .error .parsing

/-- where the reader stands after `SkipValue()` has thrown: the token stream is exhausted (`skipN` fails only
    on `[]`), i.e. every complete token was consumed and the position is the end of the input -/
def Rd.atEnd (r : Rd) : Rd := { r with pos := r.doc.length }

/-- `HandleMismatchedTypesPolicy`: nil is always skipped; otherwise throw or skip exactly one value -/
def Rd.mismatch (r : Rd) (t : Tok) : Except Err Rd :=
  if t ≠ .nil ∧ r.mis = .throwError then .error .mismatched else r.skipValue

/-- outcome of matching a target type against a token -/
inductive Match where
  | val (v : Sc)      -- loaded
  | overflow          -- same family, value does not fit (overflow policy is ThrowError in these ops)
  | other             -- another kind: mismatched-types policy
  deriving Repr, DecidableEq

/-- `ReadInteger` funnels booleans into integer targets and 0/1 into bool targets;
    the int target of the ops is int64: an integer token outside its range (uint64 values ≥ 2^63) does not fit
    (`ConvertByPolicy`, overflow policy ThrowError). `ReadValue(CBinTimestamp&)` loads ext type -1 only; an ext value
    of another type goes to the mismatched-types policy like any other kind. -/
def matchTy : Ty → Tok → Match
  | .int, .int v => if -9223372036854775808 ≤ v ∧ v < 9223372036854775808 then .val (.int v) else .overflow
  | .int, .bool b => .val (.int (if b then 1 else 0))
  | .bool, .bool b => .val (.bool b)
  | .bool, .int v => if v = 0 then .val (.bool false) else if v = 1 then .val (.bool true) else .overflow
  | .str, .str s => .val (.str s)
  | .flt, .flt b => .val (.flt b)
  | .nil, .nil => .val .nil
  | .ts, .ts s n => .val (.ts s n)
  | _, _ => .other

/-- `ReadValue(T&)`: `some v` = true + value, `none` = false (value passed over, target untouched) -/
def Rd.readValue (r : Rd) (ty : Ty) : Except Err (Option Sc × Rd) :=
  match r.rest with
  | [] => .error .parsing
  | t :: _ =>
    match matchTy ty t with
    | .val v => .ok (some v, { r with pos := r.pos + 1 })
    | .overflow => .error .overflow
    | .other => do let r' ← r.mismatch t; pure (none, r')

/-- `ReadArraySize` / `ReadMapSize` -/
def Rd.readArraySize (r : Rd) : Except Err (Option Nat × Rd) :=
  match r.rest with
  | [] => .error .parsing
  | .arr n :: _ => .ok (some n, { r with pos := r.pos + 1 })
  | t :: _ => do let r' ← r.mismatch t; pure (none, r')

def Rd.readMapSize (r : Rd) : Except Err (Option Nat × Rd) :=
  match r.rest with
  | [] => .error .parsing
  | .map n :: _ => .ok (some n, { r with pos := r.pos + 1 })
  | t :: _ => do let r' ← r.mismatch t; pure (none, r')

/-- `ReadKey`: only string / integer / timestamp (/float, not generated here) keys are supported; an ext value of
    another type is `ValueType::Ext`: unsupported -/
def Rd.readKey (r : Rd) : Except Err (Key × Rd) :=
  match r.rest with
  | [] => .error .parsing
  | .str s :: _ => .ok (.str s, { r with pos := r.pos + 1 })
  | .int v :: _ => .ok (.int v, { r with pos := r.pos + 1 })
  | .ts s n :: _ => .ok (.ts s n, { r with pos := r.pos + 1 })
  | _ :: _ => .error .parsing    -- "Unsupported key type"

/-! ### `bin` values at the token level

A `bin` value is ONE token. While a binary scope is open the token-level reader stands AT that token and the scope's
`mIndex` is the offset in its payload (the real reader stands `index` bytes behind the end of the `bin` header); with
`index = size = payload length` the real reader is at the end of the value, i.e. at token position + 1. -/

/-- `ReadValueType() == ValueType::BinaryArray` (a peek; "No more values to read" at the end of the input) -/
def Rd.isBinary (r : Rd) : Except Err Bool :=
  match r.rest with
  | [] => .error .parsing
  | .bin _ :: _ => .ok true
  | _ :: _ => .ok false

/-- `ReadBinarySize`: the payload length of a `bin` value (the reader stays at the token, see above); any other value
    goes to the mismatched-types policy (the scopes call it only after `ReadValueType()` said BinaryArray) -/
def Rd.readBinarySize (r : Rd) : Except Err (Option Nat × Rd) :=
  match r.rest with
  | [] => .error .parsing
  | .bin bs :: _ => .ok (some bs.length, r)
  | t :: _ => do let r' ← r.mismatch t; pure (none, r')

/-- `ReadBinary()`: byte `index` of the `bin` value the reader stands at. It fails only at the end of the input
    ("No more values to read"): at the token level that is a payload shorter than `index + 1` bytes — unreachable from
    the scopes (`CheckEnd` guards `SerializeValue`, the destructor loop stops at `mSize`, and `mSize` is the payload length) -/
def Rd.readBinary (r : Rd) (index : Nat) : Except Err Nat :=
  match r.rest with
  | .bin bs :: _ =>
    match bs[index]? with
    | some b => .ok b
    | none => .error .parsing
  | _ => .error .parsing

/-! ### object scope -/

structure Obj where
  start : Nat
  size : Nat
  index : Nat
  cur : Option Key
  deriving Repr, DecidableEq

/-- `ResetKey()` -/
def resetKey (o : Obj) (r : Rd) : Except Err (Obj × Rd) :=
  match o.cur with
  | some _ => do
    let r' ← r.skipValue
    pure ({ o with cur := none, index := o.index + 1 }, r')
  | none => pure (o, r)

/-- the `for (c < mSize)` loop of `FindValueByKey` with `fuel` iterations left -/
def findLoop (key : Key) : Nat → Obj → Rd → Except Err (Bool × Obj × Rd)
  | 0, o, r => .ok (false, { o with cur := none }, r)
  | fuel + 1, o, r => do
    let (o1, r1) := if o.index = o.size then ({ o with index := 0 }, { r with pos := o.start }) else (o, r)
    let (k, r2) ← r1.readKey
    if k = key then pure (true, { o1 with cur := some k }, r2)
    else do
      let r3 ← r2.skipValue
      findLoop key fuel { o1 with cur := some k, index := o1.index + 1 } r3

/-- `FindValueByKey(key)` -/
def findValueByKey (key : Key) (o : Obj) (r : Rd) : Except Err (Bool × Obj × Rd) :=
  match o.cur with
  | some k =>
    if k = key then .ok (true, o, r)
    else do
      let (o1, r1) ← resetKey o r
      findLoop key o1.size o1 r1
  | none => findLoop key o.size o r

/-- `OnFinishChildScope()` of the object scope -/
def Obj.onFinishChild (o : Obj) : Obj := { o with cur := none, index := o.index + 1 }

/-- `SerializeValue(key, value)` -/
def objGet (key : Key) (ty : Ty) (o : Obj) (r : Rd) : Except Err (Option Sc × Obj × Rd) := do
  let (found, o1, r1) ← findValueByKey key o r
  if found then
    let o2 := { o1 with cur := none, index := o1.index + 1 }
    let (v, r2) ← r1.readValue ty
    pure (v, o2, r2)
  else pure (none, o1, r1)

/-- destructor loop: `ResetKey(); for (c = mIndex; c < mSize; ++c) { Skip; Skip; ++mIndex }` -/
def closeLoop : Nat → Obj → Rd → Except Err (Obj × Rd)
  | 0, o, r => .ok (o, r)
  | n + 1, o, r => do
    let r1 ← r.skipValue
    let r2 ← r1.skipValue
    closeLoop n { o with index := o.index + 1 } r2

def objClose (o : Obj) (r : Rd) : Except Err (Obj × Rd) := do
  let (o1, r1) ← resetKey o r
  closeLoop (o1.size - o1.index) o1 r1

/-! ### array scope: the destructor skips the elements that were not read -/

/-- `for (; mIndex < mSize; ++mIndex) SkipValue();` with `n = mSize - mIndex` iterations left -/
def arrCloseLoop : Nat → Rd → Except Err Rd
  | 0, r => .ok r
  | n + 1, r => do
    let r1 ← r.skipValue
    arrCloseLoop n r1

/-- `~CMsgPackReadArrayScope` (the body of its `try`) -/
def arrClose (size index : Nat) (r : Rd) : Except Err Rd := arrCloseLoop (size - index) r

/-! ### binary scope: the destructor skips the bytes that were not read -/

/-- `for (; mIndex < mSize; ++mIndex) ReadBinary();` with `n = mSize - mIndex` iterations left -/
def binCloseLoop : Nat → Nat → Rd → Except Err Unit
  | 0, _, _ => .ok ()
  | n + 1, index, r => do
    let _ ← r.readBinary index
    binCloseLoop n (index + 1) r

/-- `~CMsgPackReadBinaryScope` (the body of its `try`): afterwards the reader is behind the `bin` value -/
def binClose (size index : Nat) (r : Rd) : Except Err Rd := do
  binCloseLoop (size - index) index r
  pure { r with pos := r.pos + 1 }

/-- `VisitKeys`: returns the keys in document order -/
def visitLoop : Nat → Obj → Rd → List Key → Except Err (List Key × Obj × Rd)
  | 0, o, r, acc => .ok (acc.reverse, o, r)
  | n + 1, o, r, acc => do
    let (k, r1) ← r.readKey
    let (o2, r2) ← resetKey { o with cur := some k } r1
    visitLoop n o2 r2 (k :: acc)

def objVisit (o : Obj) (r : Rd) : Except Err (List Key × Obj × Rd) := do
  let (o1, r1) ← resetKey o r
  visitLoop o1.size { o1 with index := 0 } { r1 with pos := o1.start } []

/-! ### the scope stack machine driven by requests -/

inductive Scope where
  | root
  | obj (o : Obj)
  | arr (size index : Nat)
  | bin (size index : Nat)
  deriving Repr, DecidableEq

inductive Req where
  | get (k : Key) (ty : Ty)        -- object: SerializeValue(key, v)
  | openArrK (k : Key)             -- object: OpenArrayScope(key)
  | openObjK (k : Key)             -- object: OpenObjectScope(key)
  | visit                          -- object: VisitKeys
  | next (ty : Ty)                 -- array/root: SerializeValue(v)
  | openArr                        -- array/root: OpenArrayScope
  | openObj                        -- array/root: OpenObjectScope
  | isEnd                          -- array / binary: IsEnd()
  | openBin                        -- array/root: OpenBinaryScope
  | openBinK (k : Key)             -- object: OpenBinaryScope(key)
  | readByte                       -- binary: SerializeValue(char / unsigned char)
  | close                          -- destroy the innermost scope
  deriving Repr, DecidableEq

inductive Ans where
  | val (v : Sc)          -- true + value
  | no                    -- false / nullopt
  | opened (n : Nat)
  | keys (ks : List Key)
  | flag (b : Bool)
  | closed
  | err (e : Err)
  | terminate             -- exception escaped a destructor (cannot happen any more: kept for the answer protocol)
  | badReq
  deriving Repr, DecidableEq

structure St where
  rd : Rd
  stack : List Scope      -- innermost first; bottom is `root`
  deferred : Option Err := none   -- `SerializationContext::mDeferredError` (first error caught in a destructor)
  deriving Repr

/-- `SerializationContext::DeferError`: only the first error is kept -/
def deferError (d : Option Err) (e : Err) : Option Err :=
  match d with
  | some d => some d
  | none => some e

def checkEnd (size index : Nat) : Except Err Unit :=
  if index = size then .error .outOfRange else .ok ()

/-- notify the parent when a child scope is destroyed (`~CMsgPackScopeBase`) -/
def notifyParent : List Scope → List Scope
  | .obj o :: rest => .obj o.onFinishChild :: rest
  | s => s

def step (st : St) (req : Req) : Ans × St :=
  match st.stack, req with
  -- root scope ---------------------------------------------------------------------------
  | .root :: _, .next ty =>
    match st.rd.readValue ty with
    | .ok (some v, r) => (.val v, { st with rd := r })
    | .ok (none, r) => (.no, { st with rd := r })
    | .error e => (.err e, st)
  | .root :: tl, .openArr =>
    match st.rd.readArraySize with
    | .ok (some n, r) => (.opened n, { st with rd := r, stack := .arr n 0 :: .root :: tl })
    | .ok (none, r) => (.no, { st with rd := r })
    | .error e => (.err e, st)
  | .root :: tl, .openObj =>
    match st.rd.readMapSize with
    | .ok (some n, r) => (.opened n, { st with rd := r, stack := .obj ⟨r.pos, n, 0, none⟩ :: .root :: tl })
    | .ok (none, r) => (.no, { st with rd := r })
    | .error e => (.err e, st)
  | .root :: tl, .openBin =>
    match st.rd.isBinary with
    | .error e => (.err e, st)
    | .ok false => (.no, st)       -- a value of another type is left in place
    | .ok true =>
      match st.rd.readBinarySize with
      | .ok (some n, r) => (.opened n, { st with rd := r, stack := .bin n 0 :: .root :: tl })
      | .ok (none, r) => (.no, { st with rd := r })
      | .error e => (.err e, st)
  -- array scope --------------------------------------------------------------------------
  | .arr size index :: tl, .next ty =>
    match checkEnd size index with
    | .error e => (.err e, st)
    | .ok () =>
      match st.rd.readValue ty with
      | .ok (some v, r) => (.val v, { st with rd := r, stack := .arr size (index + 1) :: tl })
      | .ok (none, r) => (.no, { st with rd := r, stack := .arr size (index + 1) :: tl })
      | .error e => (.err e, st)
  | .arr size index :: tl, .openArr =>
    match checkEnd size index with
    | .error e => (.err e, st)
    | .ok () =>
      match st.rd.readArraySize with
      | .ok (some n, r) => (.opened n, { st with rd := r, stack := .arr n 0 :: .arr size (index + 1) :: tl })
      | .ok (none, r) => (.no, { st with rd := r, stack := .arr size (index + 1) :: tl })
      | .error e => (.err e, st)
  | .arr size index :: tl, .openObj =>
    match checkEnd size index with
    | .error e => (.err e, st)
    | .ok () =>
      match st.rd.readMapSize with
      | .ok (some n, r) => (.opened n, { st with rd := r, stack := .obj ⟨r.pos, n, 0, none⟩ :: .arr size (index + 1) :: tl })
      | .ok (none, r) => (.no, { st with rd := r, stack := .arr size (index + 1) :: tl })
      | .error e => (.err e, st)
  | .arr size index :: tl, .openBin =>
    match checkEnd size index with
    | .error e => (.err e, st)
    | .ok () =>
      match st.rd.isBinary with
      | .error e => (.err e, st)
      | .ok false => (.no, st)     -- a value of another type is left in place and NOT counted (`mIndex` unchanged)
      | .ok true =>
        match st.rd.readBinarySize with
        | .ok (some n, r) => (.opened n, { st with rd := r, stack := .bin n 0 :: .arr size (index + 1) :: tl })
        | .ok (none, r) => (.no, { st with rd := r, stack := .arr size (index + 1) :: tl })
        | .error e => (.err e, st)
  | .arr size index :: _, .isEnd => (.flag (index = size), st)
  | .arr size index :: tl, .close =>
    match arrClose size index st.rd with
    | .ok r => (.closed, { st with rd := r, stack := notifyParent tl })
    -- SkipValue threw inside ~CMsgPackReadArrayScope: caught, deferred; the base destructor still notifies the parent
    | .error e => (.closed, { rd := st.rd.atEnd, stack := notifyParent tl, deferred := deferError st.deferred e })
  -- object scope -------------------------------------------------------------------------
  | .obj o :: tl, .get k ty =>
    match objGet k ty o st.rd with
    | .ok (some v, o', r) => (.val v, { st with rd := r, stack := .obj o' :: tl })
    | .ok (none, o', r) => (.no, { st with rd := r, stack := .obj o' :: tl })
    | .error e => (.err e, st)
  | .obj o :: tl, .openArrK k =>
    match findValueByKey k o st.rd with
    | .error e => (.err e, st)
    | .ok (false, o', r) => (.no, { st with rd := r, stack := .obj o' :: tl })
    | .ok (true, o', r) =>
      match r.readArraySize with
      | .ok (some n, r') => (.opened n, { st with rd := r', stack := .arr n 0 :: .obj o' :: tl })
      | .ok (none, r') => (.no, { st with rd := r', stack := .obj o'.onFinishChild :: tl })
      | .error e => (.err e, st)
  | .obj o :: tl, .openObjK k =>
    match findValueByKey k o st.rd with
    | .error e => (.err e, st)
    | .ok (false, o', r) => (.no, { st with rd := r, stack := .obj o' :: tl })
    | .ok (true, o', r) =>
      match r.readMapSize with
      | .ok (some n, r') => (.opened n, { st with rd := r', stack := .obj ⟨r'.pos, n, 0, none⟩ :: .obj o' :: tl })
      | .ok (none, r') => (.no, { st with rd := r', stack := .obj o'.onFinishChild :: tl })
      | .error e => (.err e, st)
  | .obj o :: tl, .openBinK k =>
    match findValueByKey k o st.rd with
    | .error e => (.err e, st)
    | .ok (false, o', r) => (.no, { st with rd := r, stack := .obj o' :: tl })
    | .ok (true, o', r) =>
      match r.isBinary with
      | .error e => (.err e, st)
      -- a value of another type is left in place: `mCurrentKey` stays set, the reader stays at the value
      | .ok false => (.no, { st with rd := r, stack := .obj o' :: tl })
      | .ok true =>
        match r.readBinarySize with
        | .ok (some n, r') => (.opened n, { st with rd := r', stack := .bin n 0 :: .obj o' :: tl })
        | .ok (none, r') => (.no, { st with rd := r', stack := .obj o'.onFinishChild :: tl })
        | .error e => (.err e, st)
  | .obj o :: tl, .visit =>
    match objVisit o st.rd with
    | .ok (ks, o', r) => (.keys ks, { st with rd := r, stack := .obj o' :: tl })
    | .error e => (.err e, st)
  | .obj o :: tl, .close =>
    match objClose o st.rd with
    | .ok (_, r) => (.closed, { st with rd := r, stack := notifyParent tl })
    -- SkipValue threw inside ~CMsgPackReadObjectScope: caught, deferred; the base destructor still notifies the parent
    | .error e => (.closed, { rd := st.rd.atEnd, stack := notifyParent tl, deferred := deferError st.deferred e })
  -- binary scope -------------------------------------------------------------------------
  | .bin size index :: tl, .readByte =>
    match checkEnd size index with
    | .error e => (.err e, st)
    | .ok () =>
      match st.rd.readBinary index with
      | .ok b => (.val (.byte b), { st with stack := .bin size (index + 1) :: tl })
      | .error e => (.err e, st)
  | .bin size index :: _, .isEnd => (.flag (index = size), st)
  | .bin size index :: tl, .close =>
    -- only the binary scope of an OBJECT scope has a parent to notify (the array scope and the root pass none;
    -- `notifyParent` does nothing for them)
    match binClose size index st.rd with
    | .ok r => (.closed, { st with rd := r, stack := notifyParent tl })
    -- ReadBinary threw inside ~CMsgPackReadBinaryScope (end of the input): caught, deferred
    | .error e => (.closed, { rd := st.rd.atEnd, stack := notifyParent tl, deferred := deferError st.deferred e })
  | _, _ => (.badReq, st)

/-- run a request list; an error answer ends the run (the exception propagates to the caller);
    after the last request `Finalize()` rethrows the deferred error, if any -/
def run : St → List Req → List Ans
  | st, [] =>
    match st.deferred with
    | some e => [.err e]
    | none => []
  | st, q :: qs =>
    match step st q with
    | (.err e, _) => [.err e]
    | (.terminate, _) => [.terminate]
    | (.badReq, _) => [.badReq]
    | (a, st') => a :: run st' qs

def initSt (doc : List Tok) (mis : Mis) : St := ⟨⟨doc, 0, mis⟩, [.root], none⟩

end BSVerif.Scope
