/-
  Helper lemmas for C03: the cursor invariant of CMsgPackReadObjectScope and the correctness of
  FindValueByKey (cyclic scan with wrap-around), SerializeValue(key, …) and the destructor's skip loop,
  over an arbitrary object layout `pre ++ (k₀ v₀ … kₙ₋₁ vₙ₋₁) ++ post` of complete values.
-/
import BSVerif.Scope.Lemmas

namespace BSVerif.Scope

/-- the object scope `o` over reader `r` sits at entry `i` of layout `L`
    (`c = some k`: the key of entry `i` has been read and is `k`, the reader is at its value) -/
structure ObjAt (L : Layout) (o : Obj) (r : Rd) (i : Nat) (c : Option Key) : Prop where
  doc : r.doc = L.doc
  start : o.start = L.posOf 0
  size : o.size = L.size
  index : o.index = i
  cur : o.cur = c
  pos : r.pos = L.posOf i + (if c.isSome then 1 else 0)

/-- same, but saying nothing about `mCurrentKey` (the scan loop overwrites it before reading it) -/
structure ObjPos (L : Layout) (o : Obj) (r : Rd) (i : Nat) : Prop where
  doc : r.doc = L.doc
  start : o.start = L.posOf 0
  size : o.size = L.size
  index : o.index = i
  pos : r.pos = L.posOf i

def keyAt (L : Layout) (j : Nat) : Option Key := (L.entries[j]?).map (·.1)

/-- linear part of the key scan: entries `i … i+f-1`, no wrap-around -/
theorem findLoop_linear (L : Layout) (hwf : L.WF) (key : Key) (f : Nat) :
    ∀ (i : Nat) (o : Obj) (r : Rd), i + f ≤ L.size → ObjPos L o r i →
    (match (List.range f).find? (fun d => keyAt L (i + d) == some key) with
     | some d => ∃ o' r', findLoop key f o r = .ok (true, o', r') ∧ ObjAt L o' r' (i + d) (some key) ∧ r'.mis = r.mis
     | none => ∃ o' r', findLoop key f o r = .ok (false, o', r') ∧ ObjAt L o' r' (i + f) none ∧ r'.mis = r.mis) := by
  induction f with
  | zero =>
    intro i o r _ h
    simp only [List.range_zero, List.find?_nil, findLoop]
    exact ⟨_, _, rfl, ⟨h.doc, h.start, h.size, by simpa using h.index, rfl, by simpa using h.pos⟩, rfl⟩
  | succ f ih =>
    intro i o r hle h
    have hlt : i < L.entries.length := by unfold Layout.size at hle; omega
    obtain ⟨e, he⟩ : ∃ e, L.entries[i]? = some e := ⟨L.entries[i], by simp [hlt]⟩
    have hnw : ¬ (o.index = o.size) := by rw [h.index, h.size]; unfold Layout.size; omega
    have hrk := readKey_at L r h.doc i e he h.pos
    rw [List.range_succ_eq_map, List.find?_cons]
    simp only [Nat.add_zero]
    unfold findLoop
    simp only [hnw, if_false, hrk, bind, Except.bind]
    by_cases hk : e.1 = key
    · have hka : (keyAt L i == some key) = true := by simp [keyAt, he, hk]
      simp only [hka, hk, if_true]
      exact ⟨_, _, rfl, ⟨h.doc, h.start, h.size, by simpa using h.index, rfl, by simp⟩, rfl⟩
    · have hka : (keyAt L i == some key) = false := by simp [keyAt, he, hk]
      simp only [hka, hk, if_false]
      have hsk := skipValue_at_value L { r with pos := L.posOf i + 1 } h.doc i e he (hwf e (List.mem_of_getElem? he)) rfl
      simp only [hsk]
      have h' : ObjPos L { o with cur := some e.1, index := o.index + 1 } { r with pos := L.posOf (i + 1) } (i + 1) :=
        ⟨h.doc, h.start, h.size, by simp [h.index], rfl⟩
      have := ih (i + 1) _ _ (by omega) h'
      rw [List.find?_map]
      have hfun : ((fun d => keyAt L (i + d) == some key) ∘ Nat.succ) = (fun d => keyAt L (i + 1 + d) == some key) := by
        funext d; simp [Nat.add_assoc, Nat.add_comm 1 d]
      rw [hfun]
      cases hfd : (List.range f).find? (fun d => keyAt L (i + 1 + d) == some key) with
      | some d =>
        rw [hfd] at this
        simp only [Option.map_some] at this ⊢
        obtain ⟨o', r', h1, h2, h3⟩ := this
        refine ⟨o', r', h1, ?_, h3⟩
        have : i + d.succ = i + 1 + d := by omega
        rw [this]; exact h2
      | none =>
        rw [hfd] at this
        simp only [Option.map_none] at this ⊢
        obtain ⟨o', r', h1, h2, h3⟩ := this
        refine ⟨o', r', h1, ?_, h3⟩
        have : i + (f + 1) = i + 1 + f := by omega
        rw [this]; exact h2
theorem findLoop_cur_irrelevant (key : Key) (f : Nat) (o : Obj) (c : Option Key) (r : Rd) :
    findLoop key f { o with cur := c } r = findLoop key f o r := by
  cases f with
  | zero => simp [findLoop]
  | succ f => simp only [findLoop]; split <;> rfl

theorem findLoop_add (key : Key) (a b : Nat) : ∀ (o : Obj) (r : Rd),
    findLoop key (a + b) o r =
      (match findLoop key a o r with
       | .ok (true, o', r') => .ok (true, o', r')
       | .ok (false, o', r') => findLoop key b o' r'
       | .error e => .error e) := by
  induction a with
  | zero =>
    intro o r
    simp only [Nat.zero_add, findLoop]
    exact (findLoop_cur_irrelevant key b o none r).symm
  | succ a ih =>
    intro o r
    rw [show a + 1 + b = (a + b) + 1 by omega]
    simp only [findLoop, bind, Except.bind]
    split
    · rfl
    · rename_i k r2 hk
      split
      · rfl
      · split
        · rfl
        · rename_i r3 hs
          exact ih _ _

theorem findLoop_wrap (key : Key) (f : Nat) (o : Obj) (r : Rd) (h1 : o.index = o.size) (h2 : o.size ≠ 0) :
    findLoop key (f + 1) o r = findLoop key (f + 1) { o with index := 0 } { r with pos := o.start } := by
  have h3 : ¬ ((0 : Nat) = o.size) := fun h => h2 h.symm
  simp only [findLoop, h1, if_true, h3, if_false]

/-- the full cyclic scan of `FindValueByKey`, from any entry `j` -/
theorem findLoop_cyclic (L : Layout) (hwf : L.WF) (key : Key) (j : Nat) (hj : j ≤ L.size) (o : Obj) (r : Rd)
    (h : ObjPos L o r j) :
    ∃ b o' r', findLoop key L.size o r = .ok (b, o', r') ∧ r'.mis = r.mis ∧
      (b = true → ∃ m, keyAt L m = some key ∧ ObjAt L o' r' m (some key)) ∧
      (b = false → (∀ m, keyAt L m ≠ some key) ∧ ∃ j', j' ≤ L.size ∧ ObjAt L o' r' j' none) := by
  have hsplit : L.size = (L.size - j) + j := by omega
  rw [hsplit, findLoop_add]
  have p1 := findLoop_linear L hwf key (L.size - j) j o r (by omega) h
  cases hf1 : (List.range (L.size - j)).find? (fun d => keyAt L (j + d) == some key) with
  | some d =>
    rw [hf1] at p1
    obtain ⟨o', r', e1, e2, e3⟩ := p1
    rw [e1]
    refine ⟨true, o', r', rfl, e3, ?_, by simp⟩
    intro _
    have := List.find?_some hf1
    exact ⟨j + d, by simpa using this, e2⟩
  | none =>
    rw [hf1] at p1
    obtain ⟨o1, r1, e1, e2, e3⟩ := p1
    rw [e1]
    simp only
    have hno1 : ∀ m, j ≤ m → m < L.size → keyAt L m ≠ some key := by
      intro m hm1 hm2
      have := List.find?_eq_none.mp hf1 (m - j) (by simp; omega)
      have hm : j + (m - j) = m := by omega
      rw [hm] at this; simpa using this
    have hidx : j + (L.size - j) = L.size := by omega
    rw [hidx] at e2
    cases j with
    | zero =>
      simp only [findLoop]
      refine ⟨false, _, r1, rfl, e3, by simp, ?_⟩
      intro _
      refine ⟨?_, L.size, Nat.le_refl _, ⟨e2.doc, e2.start, e2.size, e2.index, rfl, by simpa using e2.pos⟩⟩
      intro m
      by_cases hm : m < L.size
      · exact hno1 m (Nat.zero_le _) hm
      · simp [keyAt, Layout.size] at hm ⊢; simp [List.getElem?_eq_none hm]
    | succ j' =>
      have hsz : o1.size ≠ 0 := by rw [e2.size]; omega
      rw [findLoop_wrap key j' o1 r1 (by rw [e2.index, e2.size]) hsz]
      have hp : ObjPos L { o1 with index := 0 } { r1 with pos := o1.start } 0 :=
        ⟨e2.doc, e2.start, e2.size, rfl, e2.start⟩
      have p2 := findLoop_linear L hwf key (j' + 1) 0 _ _ (by omega) hp
      cases hf2 : (List.range (j' + 1)).find? (fun d => keyAt L (0 + d) == some key) with
      | some d =>
        rw [hf2] at p2
        obtain ⟨o', r', f1, f2, f3⟩ := p2
        refine ⟨true, o', r', f1, by rw [f3, ← e3], ?_, by simp⟩
        intro _
        have := List.find?_some hf2
        exact ⟨0 + d, by simpa using this, f2⟩
      | none =>
        rw [hf2] at p2
        obtain ⟨o', r', f1, f2, f3⟩ := p2
        refine ⟨false, o', r', f1, by rw [f3, ← e3], by simp, ?_⟩
        intro _
        refine ⟨?_, 0 + (j' + 1), by omega, f2⟩
        intro m
        by_cases hm : m < j' + 1
        · have := List.find?_eq_none.mp hf2 m (by simp; omega)
          simpa using this
        · by_cases hm2 : m < L.size
          · exact hno1 m (by omega) hm2
          · simp [keyAt, Layout.size] at hm2 ⊢; simp [List.getElem?_eq_none hm2]

/-- invariant of the object scope cursor (`mIndex`, `mCurrentKey`, reader position) -/
def Inv (L : Layout) (o : Obj) (r : Rd) : Prop :=
  ∃ i c, ObjAt L o r i c ∧ i ≤ L.size ∧ (∀ k, c = some k → keyAt L i = some k)

theorem keyAt_some {L : Layout} {i : Nat} {k : Key} (h : keyAt L i = some k) :
    ∃ e, L.entries[i]? = some e ∧ e.1 = k ∧ i < L.size := by
  unfold keyAt at h
  cases he : L.entries[i]? with
  | none => simp [he] at h
  | some e =>
    simp [he] at h
    refine ⟨e, rfl, h, ?_⟩
    unfold Layout.size
    rcases Nat.lt_or_ge i L.entries.length with h' | h'
    · exact h'
    · simp [List.getElem?_eq_none h'] at he

theorem findValueByKey_spec (L : Layout) (hwf : L.WF) (key : Key) (o : Obj) (r : Rd) (hinv : Inv L o r) :
    ∃ b o' r', findValueByKey key o r = .ok (b, o', r') ∧ r'.mis = r.mis ∧
      (b = true → ∃ m, keyAt L m = some key ∧ ObjAt L o' r' m (some key)) ∧
      (b = false → (∀ m, keyAt L m ≠ some key) ∧ ∃ j', j' ≤ L.size ∧ ObjAt L o' r' j' none) := by
  obtain ⟨i, c, hat, hi, hc⟩ := hinv
  unfold findValueByKey
  cases c with
  | none =>
    rw [hat.cur]
    simp only
    rw [hat.size]
    exact findLoop_cyclic L hwf key i hi o r ⟨hat.doc, hat.start, hat.size, hat.index, by simpa using hat.pos⟩
  | some k =>
    rw [hat.cur]
    simp only
    by_cases hk : k = key
    · subst hk
      simp only [if_true]
      exact ⟨true, o, r, rfl, rfl, fun _ => ⟨i, hc k rfl, hat⟩, by simp⟩
    · simp only [hk, if_false]
      obtain ⟨e, he, _, hlt⟩ := keyAt_some (hc k rfl)
      have hsk := skipValue_at_value L r hat.doc i e he (hwf e (List.mem_of_getElem? he)) (by simpa using hat.pos)
      simp only [resetKey, hat.cur, hsk, bind, Except.bind, pure, Except.pure]
      have hp : ObjPos L { o with cur := none, index := o.index + 1 } { r with pos := L.posOf (i + 1) } (i + 1) :=
        ⟨hat.doc, hat.start, hat.size, by simp [hat.index], rfl⟩
      have := findLoop_cyclic L hwf key (i + 1) (by omega) _ _ hp
      simpa [hat.size] using this

/-- what loading a value of kind `ty` from the complete value `v` must give (the abstract answer):
    `ok (some s)` loaded, `ok none` not loaded (skipped by policy / nil), or the policy's exception -/
def valueAnswer (mis : Mis) (ty : Ty) (v : List Tok) : Except Err (Option Sc) :=
  match v with
  | [] => .error .parsing
  | t :: _ =>
    match matchTy ty t with
    | .val s => .ok (some s)
    | .overflow => .error .overflow
    | .other => if t ≠ .nil ∧ mis = .throwError then .error .mismatched else .ok none

theorem wfv_scalar_head {t : Tok} {ts : List Tok} (h : WFv (t :: ts)) (hc : t.children = 0) : ts = [] := by
  have := h.2 [] 0
  simp [skipN, hc] at this
  cases ts with
  | nil => rfl
  | cons a as => simp [skipN] at this

theorem matchTy_val_children {ty : Ty} {t : Tok} {s : Sc} (h : matchTy ty t = .val s) : t.children = 0 := by
  cases ty <;> cases t <;> simp_all [matchTy, Tok.children]

theorem matchTy_overflow_children {ty : Ty} {t : Tok} (h : matchTy ty t = .overflow) : t.children = 0 := by
  cases ty <;> cases t <;> simp_all [matchTy, Tok.children]

/-- reading the value of entry `m` with target kind `ty` -/
theorem readValue_at_value (L : Layout) (hwf : L.WF) (ty : Ty) (r : Rd) (m : Nat) (e : Key × List Tok)
    (hdoc : r.doc = L.doc) (he : L.entries[m]? = some e) (hpos : r.pos = L.posOf m + 1) :
    match valueAnswer r.mis ty e.2 with
    | .ok a => r.readValue ty = .ok (a, { r with pos := L.posOf (m + 1) })
    | .error err => r.readValue ty = .error err := by
  have hw := hwf e (List.mem_of_getElem? he)
  have hrest := rest_at_value L r hdoc m e he hpos
  unfold Rd.readValue valueAnswer
  rw [hrest]
  cases hv : e.2 with
  | nil => exact absurd hv hw.1
  | cons t ts =>
    simp only [List.cons_append]
    cases hm : matchTy ty t with
    | val s =>
      simp only
      have hts : ts = [] := wfv_scalar_head (hv ▸ hw) (matchTy_val_children hm)
      have := L.posOf_succ m e he
      rw [hv, hts] at this
      simp at this
      rw [hpos, this]
    | overflow => simp
    | other =>
      simp only [Rd.mismatch]
      by_cases hthrow : t ≠ .nil ∧ r.mis = .throwError
      · simp [hthrow]; rfl
      · simp only [hthrow, if_false]
        have hsk := skipValue_at_value L r hdoc m e he hw hpos
        simp [hsk, bind, Except.bind, pure, Except.pure]

/-- **`SerializeValue(key, value)` on an object scope**, any cursor state satisfying the invariant:
    the answer is the abstract answer for the value stored under `key` (or "not loaded" when no
    entry has that key), and the invariant is re-established. -/
theorem objGet_spec (L : Layout) (hwf : L.WF) (key : Key) (ty : Ty) (o : Obj) (r : Rd) (hinv : Inv L o r) :
    (∃ (m : Nat) (e : Key × List Tok), L.entries[m]? = some e ∧ e.1 = key ∧
      (match valueAnswer r.mis ty e.2 with
       | .ok a => ∃ o' r', objGet key ty o r = .ok (a, o', r') ∧ Inv L o' r' ∧ r'.mis = r.mis
       | .error err => objGet key ty o r = .error err)) ∨
    ((∀ m, keyAt L m ≠ some key) ∧ ∃ o' r', objGet key ty o r = .ok (none, o', r') ∧ Inv L o' r' ∧ r'.mis = r.mis) := by
  obtain ⟨b, o1, r1, hf, hmis, ht, hfalse⟩ := findValueByKey_spec L hwf key o r hinv
  cases b with
  | true =>
    obtain ⟨m, hk, hat⟩ := ht rfl
    obtain ⟨e, he, hek, hlt⟩ := keyAt_some hk
    left
    refine ⟨m, e, he, hek, ?_⟩
    have hrv := readValue_at_value L hwf ty r1 m e hat.doc he (by simpa using hat.pos)
    rw [hmis] at hrv
    unfold objGet
    simp only [hf, bind, Except.bind, if_true]
    cases hva : valueAnswer r.mis ty e.2 with
    | ok a =>
      rw [hva] at hrv
      simp only [hrv, pure, Except.pure]
      refine ⟨_, _, rfl, ⟨m + 1, none, ⟨hat.doc, hat.start, hat.size, by simp [hat.index], rfl, by simp⟩, by omega, by simp⟩, rfl⟩
    | error err =>
      rw [hva] at hrv
      simp only [hrv]
  | false =>
    obtain ⟨hno, j', hj', hat⟩ := hfalse rfl
    right
    refine ⟨hno, o1, r1, ?_, ⟨j', none, hat, hj', by simp⟩, hmis⟩
    unfold objGet
    simp [hf, bind, Except.bind, pure, Except.pure]

theorem keyTok_children (k : Key) : (keyTok k).children = 0 := by cases k <;> rfl

theorem skipValue_at_key (L : Layout) (r : Rd) (hdoc : r.doc = L.doc) (i : Nat) (e : Key × List Tok)
    (he : L.entries[i]? = some e) (hpos : r.pos = L.posOf i) :
    r.skipValue = .ok { r with pos := L.posOf i + 1 } := by
  have hrest := rest_at L r hdoc i hpos
  rw [drop_entry L i e he] at hrest
  unfold Rd.skipValue
  rw [hrest]
  simp only [List.cons_append, skipN, keyTok_children, Nat.add_zero, Nat.zero_add]
  have hle := L.posOf_le (i + 1)
  have hs := L.posOf_succ i e he
  have hlen : (e.2 ++ (L.entries.drop (i + 1)).flatMap Layout.enc ++ L.post).length = L.doc.length - (L.posOf i + 1) := by
    have := rest_at_value L { r with pos := L.posOf i + 1 } hdoc i e he rfl
    unfold Rd.rest at this
    simp only at this
    rw [List.append_assoc, ← this, hdoc, List.length_drop]
  congr 2
  rw [hdoc, hlen]; omega

theorem closeLoop_spec (L : Layout) (hwf : L.WF) : ∀ (f i : Nat) (o : Obj) (r : Rd), i + f = L.size → ObjPos L o r i →
    ∃ o' r', closeLoop f o r = .ok (o', r') ∧ ObjPos L o' r' L.size ∧ r'.mis = r.mis := by
  intro f
  induction f with
  | zero =>
    intro i o r hif h
    have : i = L.size := by omega
    subst this
    exact ⟨o, r, rfl, h, rfl⟩
  | succ f ih =>
    intro i o r hif h
    have hlt : i < L.entries.length := by unfold Layout.size at hif; omega
    obtain ⟨e, he⟩ : ∃ e, L.entries[i]? = some e := ⟨L.entries[i], by simp [hlt]⟩
    have h1 := skipValue_at_key L r h.doc i e he h.pos
    have h2 := skipValue_at_value L { r with pos := L.posOf i + 1 } h.doc i e he (hwf e (List.mem_of_getElem? he)) rfl
    simp only [closeLoop, h1, h2, bind, Except.bind]
    exact ih (i + 1) _ _ (by omega) ⟨h.doc, h.start, h.size, by simp [h.index], rfl⟩

/-- **Closing an object scope** (its destructor) from any cursor state leaves the reader exactly behind
    the object — whatever was requested, in whatever order, and whatever was never requested. -/
theorem objClose_spec (L : Layout) (hwf : L.WF) (o : Obj) (r : Rd) (hinv : Inv L o r) :
    ∃ o' r', objClose o r = .ok (o', r') ∧ r'.pos = L.posOf L.size ∧ r'.doc = r.doc ∧ r'.mis = r.mis := by
  obtain ⟨i, c, hat, hi, hc⟩ := hinv
  unfold objClose
  cases c with
  | none =>
    simp only [resetKey, hat.cur, bind, Except.bind, pure, Except.pure]
    obtain ⟨o', r', h1, h2, h3⟩ := closeLoop_spec L hwf (o.size - o.index) i o r (by rw [hat.size, hat.index]; omega)
      ⟨hat.doc, hat.start, hat.size, hat.index, by simpa using hat.pos⟩
    exact ⟨o', r', h1, h2.pos, by rw [h2.doc, hat.doc], h3⟩
  | some k =>
    obtain ⟨e, he, _, hlt⟩ := keyAt_some (hc k rfl)
    have hsk := skipValue_at_value L r hat.doc i e he (hwf e (List.mem_of_getElem? he)) (by simpa using hat.pos)
    simp only [resetKey, hat.cur, hsk, bind, Except.bind, pure, Except.pure]
    obtain ⟨o', r', h1, h2, h3⟩ := closeLoop_spec L hwf (o.size - (o.index + 1)) (i + 1) { o with cur := none, index := o.index + 1 }
      { r with pos := L.posOf (i + 1) } (by rw [hat.size, hat.index]; omega) ⟨hat.doc, hat.start, hat.size, by simp [hat.index], rfl⟩
    exact ⟨o', r', h1, h2.pos, by rw [h2.doc, hat.doc], h3⟩

/-! ### array scopes: element requests and the destructor's skip loop

`CMsgPackReadArrayScope` opened under a key of an object scope, read as far as the caller likes (a `std::tuple`
shorter than the array under the Skip policy, a partly read nested array), and destroyed: the destructor skips the
elements that were not read, so the object scope's cursor invariant holds again and whatever is requested
afterwards is answered from the right place. -/

/-- reading the complete value `v` with target kind `ty`, anywhere in a document -/
theorem readValue_at {r : Rd} {pre v rest : List Tok} (h : At r pre v rest) (hv : WFv v) (ty : Ty) :
    match valueAnswer r.mis ty v with
    | .ok a => r.readValue ty = .ok (a, { r with pos := (pre ++ v).length })
    | .error err => r.readValue ty = .error err := by
  have hrest := rest_of_at h
  unfold Rd.readValue valueAnswer
  rw [hrest]
  cases hvv : v with
  | nil => exact absurd hvv hv.1
  | cons t ts =>
    simp only [List.cons_append]
    cases hm : matchTy ty t with
    | val s =>
      simp only
      have hts : ts = [] := wfv_scalar_head (hvv ▸ hv) (matchTy_val_children hm)
      subst hts
      rw [h.pos]; simp
    | overflow => simp
    | other =>
      simp only [Rd.mismatch]
      by_cases hthrow : t ≠ .nil ∧ r.mis = .throwError
      · simp [hthrow]; rfl
      · simp only [hthrow, if_false]
        have hsk := skip_at h hv
        rw [hvv] at hsk
        simp [hsk, bind, Except.bind, pure, Except.pure]

/-- the abstract answers to reading the first elements of an array with the target kinds `tys`: element by element,
    the first exception ends it; asking for more elements than there are is OutOfRange (`CheckEnd`) -/
def arrAnswer (mis : Mis) : List Ty → List (List Tok) → Except Err (List (Option Sc))
  | [], _ => .ok []
  | _ :: _, [] => .error .outOfRange
  | ty :: tys, v :: vs =>
    match valueAnswer mis ty v with
    | .error e => .error e
    | .ok a =>
      match arrAnswer mis tys vs with
      | .error e => .error e
      | .ok as => .ok (a :: as)

/-- `SerializeValue(value)` on an array scope once for each target kind of `tys`: the answers, `mIndex` afterwards, reader -/
def arrReads : List Ty → Nat → Nat → Rd → Except Err (List (Option Sc) × Nat × Rd)
  | [], _, index, r => .ok ([], index, r)
  | ty :: tys, size, index, r =>
    match checkEnd size index with
    | .error e => .error e
    | .ok () =>
      match r.readValue ty with
      | .error e => .error e
      | .ok (a, r1) =>
        match arrReads tys size (index + 1) r1 with
        | .error e => .error e
        | .ok (as, idx, r2) => .ok (a :: as, idx, r2)

theorem arrReads_at (tys : List Ty) :
    ∀ (items : List (List Tok)), (∀ v ∈ items, WFv v) → ∀ (r : Rd) (pre rest : List Tok) (size index : Nat),
    At r pre items.flatten rest → size = index + items.length →
    match arrAnswer r.mis tys items with
    | .ok as => tys.length ≤ items.length ∧
        arrReads tys size index r = .ok (as, index + tys.length, { r with pos := (pre ++ (items.take tys.length).flatten).length })
    | .error e => arrReads tys size index r = .error e := by
  induction tys with
  | nil =>
    intro items _ r pre rest size index h _
    simp only [arrAnswer, arrReads, List.length_nil, Nat.zero_le, List.take_zero, List.flatten_nil, List.append_nil,
      Nat.add_zero, true_and]
    rw [← h.pos]
  | cons ty tys ih =>
    intro items hw r pre rest size index h hsz
    cases items with
    | nil =>
      simp only [List.length_nil, Nat.add_zero] at hsz
      simp [arrAnswer, arrReads, checkEnd, hsz]
    | cons v vs =>
      have hne : ¬ (index = size) := by simp only [List.length_cons] at hsz; omega
      simp only [List.flatten_cons] at h
      have hrv := readValue_at h.split (hw v (by simp)) ty
      simp only [arrAnswer, arrReads, checkEnd, hne, if_false]
      cases hva : valueAnswer r.mis ty v with
      | error e => rw [hva] at hrv; simp only [hrv]
      | ok a =>
        rw [hva] at hrv
        simp only [hrv]
        have := ih vs (fun w hw' => hw w (by simp [hw'])) { r with pos := (pre ++ v).length } (pre ++ v) rest size (index + 1)
          h.advance (by simp only [List.length_cons] at hsz; omega)
        simp only at this
        cases haa : arrAnswer r.mis tys vs with
        | error e => rw [haa] at this; simp only [this]
        | ok as =>
          rw [haa] at this
          obtain ⟨hle, hrd⟩ := this
          simp only [hrd]
          refine ⟨by simp only [List.length_cons]; omega, ?_⟩
          simp [List.append_assoc, Nat.add_assoc, Nat.add_comm 1]

/-- `OpenArrayScope(key)` on an object scope, `SerializeValue` for each kind of `tys` on the array scope, and the
    destruction of the array scope wherever it then stands (`none`: the scope was not opened: absent key, nil, or a
    value of another kind under the Skip policy) -/
def objReadArr (key : Key) (tys : List Ty) (o : Obj) (r : Rd) : Except Err (Option (List (Option Sc)) × Obj × Rd) :=
  match findValueByKey key o r with
  | .error e => .error e
  | .ok (false, o1, r1) => .ok (none, o1, r1)
  | .ok (true, o1, r1) =>
    match r1.readArraySize with
    | .error e => .error e
    | .ok (none, r2) => .ok (none, o1.onFinishChild, r2)
    | .ok (some n, r2) =>
      match arrReads tys n 0 r2 with
      | .error e => .error e
      | .ok (as, idx, r3) =>
        match arrClose n idx r3 with
        | .error e => .error e      -- deferred to Finalize() by the destructor; impossible on complete values (below)
        | .ok r4 => .ok (some as, o1.onFinishChild, r4)

/-- the complete value `v` is an array of the complete values `items` -/
def IsArr (v : List Tok) (items : List (List Tok)) : Prop :=
  v = .arr items.length :: items.flatten ∧ ∀ w ∈ items, WFv w

/-- every entry whose value starts with an array header is an array of complete values (true of every
    well-formed document; `WFv` alone only says that the value as a whole is skipped exactly) -/
def Layout.ArrWF (L : Layout) : Prop :=
  ∀ e ∈ L.entries, ∀ n ts, e.2 = .arr n :: ts → ∃ items, IsArr e.2 items

/-- the abstract outcome of "open the array stored in the complete value `v`, read `tys`, close it" -/
inductive ArrOutcome (mis : Mis) (tys : List Ty) (v : List Tok) : Except Err (Option (List (Option Sc))) → Prop where
  | arr (items : List (List Tok)) (h : IsArr v items) :
      ArrOutcome mis tys v (match arrAnswer mis tys items with | .ok as => .ok (some as) | .error e => .error e)
  | notArr (t : Tok) (ts : List Tok) (h : v = t :: ts) (hn : ∀ n, t ≠ .arr n) :
      ArrOutcome mis tys v (if t ≠ .nil ∧ mis = .throwError then .error .mismatched else .ok none)

theorem at_of_drop {r : Rd} {p : Nat} {v rest : List Tok} (h : r.doc.drop p = v ++ rest) (hp : r.pos = p)
    (hle : p ≤ r.doc.length) : At r (r.doc.take p) v rest := by
  refine ⟨?_, by rw [hp, List.length_take]; omega⟩
  rw [List.append_assoc, ← h, List.take_append_drop]

theorem readArraySize_not_arr {r : Rd} {t : Tok} {rest' : List Tok} (h : r.rest = t :: rest') (hn : ∀ n, t ≠ .arr n) :
    r.readArraySize = (match r.mismatch t with | .ok r' => .ok (none, r') | .error e => .error e) := by
  unfold Rd.readArraySize
  rw [h]
  cases t with
  | arr n => exact absurd rfl (hn n)
  | _ => simp only [bind, Except.bind, pure, Except.pure] <;> cases r.mismatch _ <;> rfl

/-- **An array scope under a key, left wherever the caller likes**: the answers are the abstract answers for the
    first elements of the stored array, and — because the destructor skips the elements that were not read — the
    object scope's cursor invariant holds again afterwards (so every later request is answered correctly:
    `history_correct`) -/
theorem objReadArr_spec (L : Layout) (hwf : L.WF) (harr : L.ArrWF) (key : Key) (tys : List Ty) (o : Obj) (r : Rd)
    (hinv : Inv L o r) :
    (∃ (m : Nat) (e : Key × List Tok) (out : Except Err (Option (List (Option Sc)))),
      L.entries[m]? = some e ∧ e.1 = key ∧ ArrOutcome r.mis tys e.2 out ∧
      (match out with
       | .ok a => ∃ o' r', objReadArr key tys o r = .ok (a, o', r') ∧ Inv L o' r' ∧ r'.mis = r.mis
       | .error err => objReadArr key tys o r = .error err)) ∨
    ((∀ m, keyAt L m ≠ some key) ∧ ∃ o' r', objReadArr key tys o r = .ok (none, o', r') ∧ Inv L o' r' ∧ r'.mis = r.mis) := by
  obtain ⟨b, o1, r1, hf, hmis, ht, hfalse⟩ := findValueByKey_spec L hwf key o r hinv
  cases b with
  | false =>
    obtain ⟨hno, j', hj', hat⟩ := hfalse rfl
    right
    refine ⟨hno, o1, r1, ?_, ⟨j', none, hat, hj', by simp⟩, hmis⟩
    simp [objReadArr, hf]
  | true =>
    obtain ⟨m, hk, hat⟩ := ht rfl
    obtain ⟨e, he, hek, hlt⟩ := keyAt_some hk
    left
    rw [← hmis]
    have hw := hwf e (List.mem_of_getElem? he)
    have hpos : r1.pos = L.posOf m + 1 := by simpa using hat.pos
    have hrest := rest_at_value L r1 hat.doc m e he hpos
    have hinv' : ∀ (r' : Rd), r'.doc = r1.doc → r'.pos = L.posOf (m + 1) → Inv L o1.onFinishChild r' := by
      intro r' hd hp
      exact ⟨m + 1, none, ⟨by rw [hd, hat.doc], hat.start, hat.size, by simp [Obj.onFinishChild, hat.index], rfl, by simpa using hp⟩,
        by omega, by simp⟩
    cases hv : e.2 with
    | nil => exact absurd hv hw.1
    | cons t ts =>
      rw [hv] at hrest
      simp only [List.cons_append] at hrest
      by_cases harrt : ∃ n, t = .arr n
      · -- the value is an array
        obtain ⟨n, rfl⟩ := harrt
        obtain ⟨items, hia⟩ := harr e (List.mem_of_getElem? he) n ts hv
        have hia' := hia
        obtain ⟨hshape, hitems⟩ := hia
        rw [hv] at hshape
        have hn : n = items.length := by injection hshape with h1 _; injection h1
        have hts : ts = items.flatten := by injection hshape
        subst hn; subst hts
        refine ⟨m, e, _, he, hek, ArrOutcome.arr items hia', ?_⟩
        have hras : r1.readArraySize = .ok (some items.length, { r1 with pos := r1.pos + 1 }) := by
          unfold Rd.readArraySize; rw [hrest]
        -- the reader behind the array header is in front of the elements
        have hdrop : r1.doc.drop (r1.pos + 1) = items.flatten ++ ((L.entries.drop (m + 1)).flatMap Layout.enc ++ L.post) := by
          have : r1.doc.drop (r1.pos + 1) = (r1.doc.drop r1.pos).drop 1 := by rw [List.drop_drop]
          rw [this]; unfold Rd.rest at hrest; rw [hrest]; simp
        have hlen : r1.pos + 1 ≤ r1.doc.length := by
          have : (r1.doc.drop r1.pos).length = r1.doc.length - r1.pos := List.length_drop ..
          unfold Rd.rest at hrest; rw [hrest] at this; simp at this; omega
        have hat2 : At { r1 with pos := r1.pos + 1 } (r1.doc.take (r1.pos + 1)) items.flatten
            ((L.entries.drop (m + 1)).flatMap Layout.enc ++ L.post) :=
          at_of_drop (r := { r1 with pos := r1.pos + 1 }) hdrop rfl hlen
        have hreads := arrReads_at tys items hitems _ _ _ items.length 0 hat2 (by omega)
        simp only at hreads
        simp only [objReadArr, hf, hras]
        cases haa : arrAnswer r1.mis tys items with
        | error err => rw [haa] at hreads; simp only [hreads]
        | ok as =>
          rw [haa] at hreads
          obtain ⟨hle, hrd⟩ := hreads
          simp only [hrd, Nat.zero_add]
          -- the destructor passes over the elements that were not read
          have hsplit : items.flatten = (items.take tys.length).flatten ++ (items.drop tys.length).flatten := by
            rw [← List.flatten_append, List.take_append_drop]
          have hat3 := hat2
          rw [hsplit] at hat3
          have hcl := arrCloseLoop_at (items.drop tys.length) (fun w hw' => hitems w (List.mem_of_mem_drop hw')) _ _ _ hat3.advance
          have hcnt : items.length - tys.length = (items.drop tys.length).length := by simp
          simp only [arrClose, hcnt, hcl]
          refine ⟨_, _, rfl, hinv' _ rfl ?_, rfl⟩
          simp only
          rw [List.append_assoc, ← hsplit]
          have hs := L.posOf_succ m e he
          rw [hv] at hs
          simp only [List.length_append, List.length_take, List.length_cons] at hs ⊢
          omega
      · -- a value of another kind: policy
        have hn : ∀ n, t ≠ .arr n := fun n h => harrt ⟨n, h⟩
        refine ⟨m, e, _, he, hek, ArrOutcome.notArr t ts hv hn, ?_⟩
        have hras := readArraySize_not_arr hrest hn
        by_cases hthrow : t ≠ .nil ∧ r1.mis = .throwError
        · have hmm : r1.mismatch t = .error .mismatched := by simp [Rd.mismatch, hthrow]
          rw [hmm] at hras
          rw [if_pos hthrow]
          simp only [objReadArr, hf, hras]
        · have hsk := skipValue_at_value L r1 hat.doc m e he hw hpos
          have hmm : r1.mismatch t = .ok { r1 with pos := L.posOf (m + 1) } := by
            simp only [Rd.mismatch, if_neg hthrow, hsk]
          rw [hmm] at hras
          rw [if_neg hthrow]
          simp only [objReadArr, hf, hras]
          exact ⟨_, _, rfl, hinv' _ rfl rfl, rfl⟩

/-! ### binary scopes: byte requests and the destructor's skip loop

`CMsgPackReadBinaryScope` opened on a `bin` value (one token; the token-level reader stands at it while the scope is
open), read as far as the caller likes and destroyed: the destructor passes over the bytes that were not read, so the
reader is behind the value whatever was left. -/

/-- `SerializeValue(byte)` on a binary scope `k` times: the bytes and `mIndex` afterwards -/
def binReads : Nat → Nat → Nat → Rd → Except Err (List Nat × Nat)
  | 0, _, index, _ => .ok ([], index)
  | k + 1, size, index, r =>
    match checkEnd size index with
    | .error e => .error e
    | .ok () =>
      match r.readBinary index with
      | .error e => .error e
      | .ok b =>
        match binReads k size (index + 1) r with
        | .error e => .error e
        | .ok (bs, idx) => .ok (b :: bs, idx)

theorem readBinary_at {r : Rd} {bs : List Nat} {rest' : List Tok} (h : r.rest = .bin bs :: rest') (i : Nat)
    (hi : i < bs.length) : r.readBinary i = .ok bs[i] := by
  simp [Rd.readBinary, h, List.getElem?_eq_getElem hi]

/-- the byte requests deliver the bytes of the value in order; one past the last is OutOfRange (`CheckEnd`) -/
theorem binReads_at {r : Rd} {bs : List Nat} {rest' : List Tok} (h : r.rest = .bin bs :: rest') :
    ∀ (k index : Nat), index ≤ bs.length →
    binReads k bs.length index r =
      (if index + k ≤ bs.length then .ok ((bs.drop index).take k, index + k) else .error .outOfRange) := by
  intro k
  induction k with
  | zero => intro index hi; simp [binReads, hi]
  | succ k ih =>
    intro index hi
    by_cases hend : index = bs.length
    · have : ¬ (index + (k + 1) ≤ bs.length) := by omega
      simp [binReads, checkEnd, hend]
    · have hlt : index < bs.length := by omega
      have := ih (index + 1) (by omega)
      simp only [binReads, checkEnd, hend, if_false, readBinary_at h index hlt, this]
      by_cases hk : index + 1 + k ≤ bs.length
      · have hk' : index + (k + 1) ≤ bs.length := by omega
        simp only [hk, hk', if_true]
        rw [List.drop_eq_getElem_cons hlt, List.take_succ_cons]
        congr 2; omega
      · have hk' : ¬ (index + (k + 1) ≤ bs.length) := by omega
        simp only [hk, hk', if_false]

theorem binCloseLoop_at {r : Rd} {bs : List Nat} {rest' : List Tok} (h : r.rest = .bin bs :: rest') :
    ∀ (n index : Nat), index + n ≤ bs.length → binCloseLoop n index r = .ok () := by
  intro n
  induction n with
  | zero => intro index _; rfl
  | succ n ih =>
    intro index hi
    simp only [binCloseLoop, readBinary_at h index (by omega), bind, Except.bind]
    exact ih (index + 1) (by omega)

/-- **the binary scope's destructor**: wherever the scope stands in the payload, it leaves the reader behind the value -/
theorem binClose_at {r : Rd} {bs : List Nat} {rest' : List Tok} (h : r.rest = .bin bs :: rest') (index : Nat)
    (hi : index ≤ bs.length) : binClose bs.length index r = .ok { r with pos := r.pos + 1 } := by
  simp only [binClose, binCloseLoop_at h (bs.length - index) index (by omega), bind, Except.bind, pure, Except.pure]

theorem isBinary_bin {r : Rd} {bs : List Nat} {rest' : List Tok} (h : r.rest = .bin bs :: rest') : r.isBinary = .ok true := by
  simp [Rd.isBinary, h]

theorem isBinary_other {r : Rd} {t : Tok} {rest' : List Tok} (h : r.rest = t :: rest') (hn : ∀ bs, t ≠ .bin bs) :
    r.isBinary = .ok false := by
  unfold Rd.isBinary
  rw [h]
  cases t with
  | bin bs => exact absurd rfl (hn bs)
  | _ => rfl

theorem readBinarySize_bin {r : Rd} {bs : List Nat} {rest' : List Tok} (h : r.rest = .bin bs :: rest') :
    r.readBinarySize = .ok (some bs.length, r) := by
  simp [Rd.readBinarySize, h]

/-- `OpenBinaryScope(key)` on an object scope, `k` byte requests on the binary scope, and the destruction of the binary
    scope wherever it then stands (`none`: the scope was not opened: absent key, or a value that is not a `bin` — that
    value is left in place under `mCurrentKey`) -/
def objReadBin (key : Key) (k : Nat) (o : Obj) (r : Rd) : Except Err (Option (List Nat) × Obj × Rd) :=
  match findValueByKey key o r with
  | .error e => .error e
  | .ok (false, o1, r1) => .ok (none, o1, r1)
  | .ok (true, o1, r1) =>
    match r1.isBinary with
    | .error e => .error e
    | .ok false => .ok (none, o1, r1)
    | .ok true =>
      match r1.readBinarySize with
      | .error e => .error e
      | .ok (none, r2) => .ok (none, o1.onFinishChild, r2)
      | .ok (some n, r2) =>
        match binReads k n 0 r2 with
        | .error e => .error e
        | .ok (bs, idx) =>
          match binClose n idx r2 with
          | .error e => .error e      -- deferred to Finalize() by the destructor; impossible on a complete value (below)
          | .ok r3 => .ok (some bs, o1.onFinishChild, r3)

/-- the abstract outcome of "open the complete value `v` as a byte list, read `k` bytes, close it" -/
inductive BinOutcome (k : Nat) (v : List Tok) : Except Err (Option (List Nat)) → Prop where
  | bin (bs : List Nat) (h : v = [.bin bs]) :
      BinOutcome k v (if k ≤ bs.length then .ok (some (bs.take k)) else .error .outOfRange)
  | notBin (t : Tok) (ts : List Tok) (h : v = t :: ts) (hn : ∀ bs, t ≠ .bin bs) : BinOutcome k v (.ok none)

/-- **A binary scope under a key, left wherever the caller likes**: the answers are the first `k` bytes of the stored
    `bin` value (OutOfRange when more bytes are requested than there are), and — because the destructor skips the bytes
    that were not read — the object scope's cursor invariant holds again afterwards. A value that is not a `bin` is left
    in place (the invariant holds with the key still current). -/
theorem objReadBin_spec (L : Layout) (hwf : L.WF) (key : Key) (k : Nat) (o : Obj) (r : Rd) (hinv : Inv L o r) :
    (∃ (m : Nat) (e : Key × List Tok) (out : Except Err (Option (List Nat))),
      L.entries[m]? = some e ∧ e.1 = key ∧ BinOutcome k e.2 out ∧
      (match out with
       | .ok a => ∃ o' r', objReadBin key k o r = .ok (a, o', r') ∧ Inv L o' r' ∧ r'.mis = r.mis
       | .error err => objReadBin key k o r = .error err)) ∨
    ((∀ m, keyAt L m ≠ some key) ∧ ∃ o' r', objReadBin key k o r = .ok (none, o', r') ∧ Inv L o' r' ∧ r'.mis = r.mis) := by
  obtain ⟨b, o1, r1, hf, hmis, ht, hfalse⟩ := findValueByKey_spec L hwf key o r hinv
  cases b with
  | false =>
    obtain ⟨hno, j', hj', hat⟩ := hfalse rfl
    right
    refine ⟨hno, o1, r1, ?_, ⟨j', none, hat, hj', by simp⟩, hmis⟩
    simp [objReadBin, hf]
  | true =>
    obtain ⟨m, hk, hat⟩ := ht rfl
    obtain ⟨e, he, hek, hlt⟩ := keyAt_some hk
    left
    rw [← hmis]
    have hw := hwf e (List.mem_of_getElem? he)
    have hpos : r1.pos = L.posOf m + 1 := by simpa using hat.pos
    have hrest := rest_at_value L r1 hat.doc m e he hpos
    cases hv : e.2 with
    | nil => exact absurd hv hw.1
    | cons t ts =>
      rw [hv] at hrest
      simp only [List.cons_append] at hrest
      by_cases hbin : ∃ bs, t = .bin bs
      · -- the value is a `bin`: one token
        obtain ⟨bs, rfl⟩ := hbin
        have hts : ts = [] := wfv_scalar_head (hv ▸ hw) rfl
        subst hts
        refine ⟨m, e, _, he, hek, BinOutcome.bin bs hv, ?_⟩
        have hreads := binReads_at hrest k 0 (Nat.zero_le _)
        simp only [Nat.zero_add, List.drop_zero] at hreads
        by_cases hkl : k ≤ bs.length
        · simp only [hkl, if_true] at hreads ⊢
          have hcl := binClose_at hrest k hkl
          refine ⟨o1.onFinishChild, { r1 with pos := r1.pos + 1 }, ?_, ?_, rfl⟩
          · simp only [objReadBin, hf, isBinary_bin hrest, readBinarySize_bin hrest, hreads, hcl]
          · have hs := L.posOf_succ m e he
            rw [hv] at hs
            simp only [List.length_cons, List.length_nil] at hs
            exact ⟨m + 1, none, ⟨hat.doc, hat.start, hat.size, by simp [Obj.onFinishChild, hat.index], rfl,
              by simp only [Option.isSome_none]; rw [hpos, hs]; simp⟩, by omega, by simp⟩
        · simp only [hkl, if_false] at hreads ⊢
          simp only [objReadBin, hf, isBinary_bin hrest, readBinarySize_bin hrest, hreads]
      · -- a value of another type: left in place, the key stays current
        have hn : ∀ bs, t ≠ .bin bs := fun bs h => hbin ⟨bs, h⟩
        refine ⟨m, e, _, he, hek, BinOutcome.notBin t ts hv hn, ?_⟩
        refine ⟨o1, r1, ?_, ⟨m, some key, hat, by omega, fun k' hk' => by cases hk'; exact hk⟩, rfl⟩
        simp only [objReadBin, hf, isBinary_other hrest hn]

/-- a freshly opened object scope satisfies the invariant -/
theorem inv_init (L : Layout) (r : Rd) (hdoc : r.doc = L.doc) (hpos : r.pos = L.posOf 0) :
    Inv L ⟨r.pos, L.size, 0, none⟩ r :=
  ⟨0, none, ⟨hdoc, hpos, rfl, rfl, rfl, by simpa using hpos⟩, Nat.zero_le _, by simp⟩

end BSVerif.Scope
