/-
  Helper lemmas for C03/C05: layout of an object body in the token stream, exactness of
  `SkipValue` on complete values, and the linear key scan of `FindValueByKey`.
-/
import BSVerif.Scope.Model

namespace BSVerif.Scope

def keyTok : Key → Tok
  | .str s => .str s
  | .int v => .int v
  | .ts sec ns => .ts sec ns

/-- `v` is one complete value: skipping it consumes exactly `v`, whatever follows and whatever else
    is still pending -/
def WFv (v : List Tok) : Prop :=
  v ≠ [] ∧ ∀ (rest : List Tok) (n : Nat), skipN (v ++ rest) (n + 1) = skipN rest n

theorem wfv_scalar (t : Tok) (h : t.children = 0) : WFv [t] := by
  refine ⟨by simp, ?_⟩
  intro rest n
  simp [skipN, h]

/-- `k` complete values in a row -/
theorem skipN_values (vs : List (List Tok)) (h : ∀ v ∈ vs, WFv v) (rest : List Tok) (n : Nat) :
    skipN (vs.flatten ++ rest) (n + vs.length) = skipN rest n := by
  induction vs generalizing n with
  | nil => simp
  | cons v vs ih =>
    have hv := (h v (by simp)).2
    simp only [List.flatten_cons, List.append_assoc, List.length_cons]
    rw [show n + (vs.length + 1) = (n + vs.length) + 1 by omega, hv]
    exact ih (fun w hw => h w (by simp [hw])) n

theorem wfv_arr (items : List (List Tok)) (h : ∀ v ∈ items, WFv v) : WFv (.arr items.length :: items.flatten) := by
  refine ⟨by simp, ?_⟩
  intro rest n
  simp only [List.cons_append, skipN, Tok.children]
  exact skipN_values items h rest n

theorem wfv_map (kvs : List (List Tok)) (h : ∀ v ∈ kvs, WFv v) (m : Nat) (hm : kvs.length = 2 * m) :
    WFv (.map m :: kvs.flatten) := by
  refine ⟨by simp, ?_⟩
  intro rest n
  simp only [List.cons_append, skipN, Tok.children]
  rw [← hm]
  exact skipN_values kvs h rest n

/-- layout of one object in a document: `pre ++ (k₀ v₀ k₁ v₁ …) ++ post` -/
structure Layout where
  pre : List Tok
  entries : List (Key × List Tok)
  post : List Tok

def Layout.enc (e : Key × List Tok) : List Tok := keyTok e.1 :: e.2
def Layout.body (L : Layout) : List Tok := L.entries.flatMap Layout.enc
def Layout.doc (L : Layout) : List Tok := L.pre ++ L.body ++ L.post
def Layout.size (L : Layout) : Nat := L.entries.length
/-- token index of the key of entry `i` -/
def Layout.posOf (L : Layout) (i : Nat) : Nat := L.pre.length + ((L.entries.take i).flatMap Layout.enc).length
def Layout.WF (L : Layout) : Prop := ∀ e ∈ L.entries, WFv e.2

theorem Layout.drop_posOf (L : Layout) (i : Nat) :
    L.doc.drop (L.posOf i) = (L.entries.drop i).flatMap Layout.enc ++ L.post := by
  have hb : L.body = (L.entries.take i).flatMap Layout.enc ++ (L.entries.drop i).flatMap Layout.enc := by
    unfold Layout.body; rw [← List.flatMap_append, List.take_append_drop]
  unfold Layout.doc Layout.posOf
  rw [hb]
  have : L.pre ++ ((L.entries.take i).flatMap Layout.enc ++ (L.entries.drop i).flatMap Layout.enc) ++ L.post
      = (L.pre ++ (L.entries.take i).flatMap Layout.enc) ++ ((L.entries.drop i).flatMap Layout.enc ++ L.post) := by
    simp [List.append_assoc]
  rw [this, ← List.length_append, List.drop_left]

theorem Layout.posOf_succ (L : Layout) (i : Nat) (e : Key × List Tok) (h : L.entries[i]? = some e) :
    L.posOf (i + 1) = L.posOf i + 1 + e.2.length := by
  unfold Layout.posOf
  have : L.entries.take (i + 1) = L.entries.take i ++ [e] := by
    rw [List.take_add_one, h]; simp
  rw [this, List.flatMap_append]
  simp [Layout.enc]; omega

theorem Layout.posOf_le (L : Layout) (i : Nat) : L.posOf i ≤ L.doc.length := by
  unfold Layout.posOf Layout.doc Layout.body
  have h1 : ((L.entries.take i).flatMap Layout.enc).length ≤ (L.entries.flatMap Layout.enc).length := by
    have : L.entries.flatMap Layout.enc = (L.entries.take i).flatMap Layout.enc ++ (L.entries.drop i).flatMap Layout.enc := by
      rw [← List.flatMap_append, List.take_append_drop]
    rw [this, List.length_append]; omega
  simp only [List.length_append]; omega

/-! ### the token reader at layout positions -/

theorem rest_at (L : Layout) (r : Rd) (hdoc : r.doc = L.doc) (i : Nat) (hpos : r.pos = L.posOf i) :
    r.rest = (L.entries.drop i).flatMap Layout.enc ++ L.post := by
  unfold Rd.rest; rw [hdoc, hpos, L.drop_posOf]

theorem drop_entry (L : Layout) (i : Nat) (e : Key × List Tok) (h : L.entries[i]? = some e) :
    (L.entries.drop i).flatMap Layout.enc = keyTok e.1 :: (e.2 ++ (L.entries.drop (i + 1)).flatMap Layout.enc) := by
  have : L.entries.drop i = e :: L.entries.drop (i + 1) := by
    have hlt : i < L.entries.length := by
      rcases Nat.lt_or_ge i L.entries.length with h' | h'
      · exact h'
      · simp [List.getElem?_eq_none h'] at h
    rw [List.drop_eq_getElem_cons hlt]
    simp [List.getElem?_eq_getElem hlt] at h
    rw [h]
  rw [this]; simp [Layout.enc]

theorem readKey_at (L : Layout) (r : Rd) (hdoc : r.doc = L.doc) (i : Nat) (e : Key × List Tok)
    (h : L.entries[i]? = some e) (hpos : r.pos = L.posOf i) :
    r.readKey = .ok (e.1, { r with pos := L.posOf i + 1 }) := by
  unfold Rd.readKey
  rw [rest_at L r hdoc i hpos, drop_entry L i e h]
  cases hk : e.1 <;> simp [keyTok, hpos]

theorem rest_at_value (L : Layout) (r : Rd) (hdoc : r.doc = L.doc) (i : Nat) (e : Key × List Tok)
    (h : L.entries[i]? = some e) (hpos : r.pos = L.posOf i + 1) :
    r.rest = e.2 ++ ((L.entries.drop (i + 1)).flatMap Layout.enc ++ L.post) := by
  unfold Rd.rest
  rw [hdoc, hpos, ← List.drop_drop, L.drop_posOf, drop_entry L i e h]
  simp

theorem skipValue_at_value (L : Layout) (r : Rd) (hdoc : r.doc = L.doc) (i : Nat) (e : Key × List Tok)
    (h : L.entries[i]? = some e) (hwf : WFv e.2) (hpos : r.pos = L.posOf i + 1) :
    r.skipValue = .ok { r with pos := L.posOf (i + 1) } := by
  have hrest := rest_at_value L r hdoc i e h hpos
  unfold Rd.skipValue
  rw [hrest]
  obtain ⟨hne, hskip⟩ := hwf
  cases hv : e.2 with
  | nil => exact absurd hv hne
  | cons t ts =>
    have := hskip ((L.entries.drop (i + 1)).flatMap Layout.enc ++ L.post) 0
    rw [hv] at this
    simp only [List.cons_append] at this ⊢
    rw [this]
    simp only [skipN]
    have hd := L.drop_posOf (i + 1)
    have hl : ((L.entries.drop (i + 1)).flatMap Layout.enc ++ L.post).length = L.doc.length - L.posOf (i + 1) := by
      rw [← hd, List.length_drop]
    have hle := L.posOf_le (i + 1)
    congr 2
    rw [hdoc, hl]; omega

/-! ### the token reader in front of a run of complete values (array elements) -/

/-- reader positioned in front of the tokens `v`, with `rest` behind them -/
structure At (r : Rd) (pre v rest : List Tok) : Prop where
  doc : r.doc = pre ++ v ++ rest
  pos : r.pos = pre.length

theorem rest_of_at {r : Rd} {pre v rest : List Tok} (h : At r pre v rest) : r.rest = v ++ rest := by
  unfold Rd.rest; rw [h.doc, h.pos, List.append_assoc, List.drop_left]

/-- `SkipValue()` in front of one complete value passes over exactly that value -/
theorem skip_at {r : Rd} {pre v rest : List Tok} (h : At r pre v rest) (hv : WFv v) :
    r.skipValue = .ok { r with pos := (pre ++ v).length } := by
  unfold Rd.skipValue
  rw [rest_of_at h]
  obtain ⟨hne, hs⟩ := hv
  cases hvv : v with
  | nil => exact absurd hvv hne
  | cons t ts =>
    have := hs rest 0
    rw [hvv] at this
    simp only [List.cons_append] at this ⊢
    rw [this]; simp only [skipN]
    congr 2
    rw [h.doc, hvv]; simp; omega

/-- in front of `v ++ w`: in front of `v`, with `w` counted to what follows -/
theorem At.split {r : Rd} {pre v w rest : List Tok} (h : At r pre (v ++ w) rest) : At r pre v (w ++ rest) :=
  ⟨by rw [h.doc]; simp [List.append_assoc], h.pos⟩

/-- having passed over `v`, the reader is in front of `w` -/
theorem At.advance {r : Rd} {pre v w rest : List Tok} (h : At r pre (v ++ w) rest) :
    At { r with pos := (pre ++ v).length } (pre ++ v) w rest :=
  ⟨by show r.doc = _; rw [h.doc]; simp [List.append_assoc], rfl⟩

/-- **the array scope's destructor loop**: in front of `items.length` complete values it passes over exactly
    those values, whatever they are (scalars, nested arrays, nested objects) and whatever follows -/
theorem arrCloseLoop_at (items : List (List Tok)) (hw : ∀ v ∈ items, WFv v) :
    ∀ (r : Rd) (pre rest : List Tok), At r pre items.flatten rest →
      arrCloseLoop items.length r = .ok { r with pos := (pre ++ items.flatten).length } := by
  induction items with
  | nil =>
    intro r pre rest h
    simp only [List.flatten_nil, List.append_nil, List.length_nil, arrCloseLoop]
    rw [← h.pos]
  | cons v vs ih =>
    intro r pre rest h
    simp only [List.flatten_cons] at h
    have hsk := skip_at h.split (hw v (by simp))
    simp only [List.length_cons, arrCloseLoop, hsk, bind, Except.bind]
    have := ih (fun w hw' => hw w (by simp [hw'])) _ (pre ++ v) rest h.advance
    rw [this]
    simp [List.append_assoc]

end BSVerif.Scope
