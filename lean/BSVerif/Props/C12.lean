/-
  C12 — Ill-formed UTF input is reported or replaced per policy, never propagated.

  PROPERTY THEOREMS ONLY. Quantifiers: ALL code-unit sequences (well-formed or not, any length),
  both policies, every mark, every prior output content.
    * `*_bounds`       : the returned iterator stays inside the input (and never moves backwards)
    * termination      : every model function is total by construction (structural / measure recursion)
    * `*_shape`        : prior output preserved; what is appended is a sequence of standard encodings
                         of Unicode scalar values and error marks, nothing else; under Skip the count
                         equals the number of marks and InvalidSequence is never returned; under
                         ThrowError no mark is written
    * `wellformed_out` : hence the appended output is well-formed whenever the mark is
    * `*_throw_sound`  : Success under ThrowError implies the input WAS the standard encoding of a
                         scalar list and the output is its standard encoding (ill-formed input is
                         never accepted: no overlong forms, no surrogates, nothing above U+10FFFF)
-/
import BSVerif.Utf.Shape
import BSVerif.Utf.Lemmas
import BSVerif.Props.C11

namespace BSVerif.Props.C12
open BSVerif.Utf BSVerif.Utf.Spec

/-! #### iterator bounds (all inputs) -/

theorem decode8_bounds (w : Nat) (pol : Policy) (mark : Option (List Nat)) (inp : List Nat) (pos : Nat) (out : List Nat) (inv : Nat) :
    pos ≤ (decode8 w pol mark inp pos out inv).iter ∧ (decode8 w pol mark inp pos out inv).iter ≤ pos + inp.length := by
  fun_induction decode8 w pol mark inp pos out inv <;> simp_all [List.length_drop] <;> omega

theorem encode8_bounds (w : Nat) (pol : Policy) (mark : Option (List Nat)) (inp : List Nat) (pos : Nat) (out : List Nat) (inv : Nat) :
    pos ≤ (encode8 w pol mark inp pos out inv).iter ∧ (encode8 w pol mark inp pos out inv).iter ≤ pos + inp.length := by
  fun_induction encode8 w pol mark inp pos out inv <;> simp_all <;> omega

theorem decode16to32_bounds (pol : Policy) (mark : Option (List Nat)) (inp : List Nat) (pos : Nat) (out : List Nat) (inv : Nat) :
    pos ≤ (decode16to32 pol mark inp pos out inv).iter ∧ (decode16to32 pol mark inp pos out inv).iter ≤ pos + inp.length := by
  fun_induction decode16to32 pol mark inp pos out inv <;> simp_all <;> omega

theorem encode16from32_bounds (pol : Policy) (mark : Option (List Nat)) (inp : List Nat) (pos : Nat) (out : List Nat) (inv : Nat) :
    pos ≤ (encode16from32 pol mark inp pos out inv).iter ∧ (encode16from32 pol mark inp pos out inv).iter ≤ pos + inp.length := by
  fun_induction encode16from32 pol mark inp pos out inv <;> simp_all <;> omega

theorem copy16_bounds (inp : List Nat) (pos : Nat) (out : List Nat) :
    pos ≤ (copy16 inp pos out).iter ∧ (copy16 inp pos out).iter ≤ pos + inp.length := by
  fun_induction copy16 inp pos out <;> simp_all <;> omega

/-- **C12 (bounds).** `Transcode` never reports an iterator outside its input, for any input. -/
theorem transcode_in_bounds (wi wo : Nat) (pol : Policy) (mark : Option (List Nat)) (inp out : List Nat) :
    (transcode wi wo pol mark inp out).iter ≤ inp.length := by
  unfold transcode utf8Encode utf16Encode utf32Encode utf16Decode copyAll
  have a := fun w => decode8_bounds w pol mark inp 0 out 0
  have b := fun w => encode8_bounds w pol mark inp 0 out 0
  have c := decode16to32_bounds pol mark inp 0 out 0
  have d := encode16from32_bounds pol mark inp 0 out 0
  have e := copy16_bounds inp 0 out
  have a16 := a 16; have a32 := a 32
  split <;> (try split) <;> (try split) <;> (try split) <;> (try split) <;> simp_all <;> first | omega | (have := b wi; omega)

/-! #### shape of every result (all inputs) -/

theorem decode8_shape (w : Nat) (hw : w = 16 ∨ w = 32) (pol : Policy) (mark : Option (List Nat)) (inp : List Nat) (pos : Nat) (out : List Nat) (inv : Nat) :
    Shape w pol mark out inv (decode8 w pol mark inp pos out inv) := by
  fun_induction decode8 w pol mark inp pos out inv
  case case1 => exact shape_stop _ _ (by simp)
  case case2 b _ _ _ _ hb ih =>
    refine shape_scalar b ⟨by omega, by omega⟩ _ ?_ ih
    rcases hw with h | h <;> subst h <;> simp [enc, enc16, enc32] <;> omega
  case case3 => exact shape_stop _ _ (by simp)
  case case4 hE => rw [handleError_none hE]; exact shape_throw _
  case case5 hE ih =>
    obtain ⟨rfl, rfl⟩ := handleError_some hE
    exact shape_mark ih
  case case6 sym _ _ hn hs ih =>
    simp [isSurrogate] at hn
    refine shape_scalar sym ⟨by omega, by omega⟩ _ ?_ ih
    obtain ⟨h1, rfl⟩ := hs
    have : ¬ sym < 65536 := by omega
    simp [enc, enc16, this]; omega
  case case7 sym _ _ hn hs ih =>
    simp [isSurrogate] at hn
    refine shape_scalar sym ⟨by omega, by omega⟩ _ ?_ ih
    rcases hw with h | h <;> subst h
    · have : sym < 65536 := by omega
      simp [enc, enc16, this]
    · simp [enc, enc32]

theorem encode8_shape (wi : Nat) (pol : Policy) (mark : Option (List Nat)) (inp : List Nat)
    (hin : ∀ u ∈ inp, u < 2 ^ wi) (hwi : wi = 16 ∨ wi = 32) (pos : Nat) (out : List Nat) (inv : Nat) :
    Shape 8 pol mark out inv (encode8 wi pol mark inp pos out inv) := by
  fun_induction encode8 wi pol mark inp pos out inv
  case case1 => exact shape_stop _ _ (by simp)
  case case2 b rest _ _ _ hb ih =>
    refine shape_scalar b ⟨by omega, by omega⟩ _ ?_ (ih (fun u hu => hin u (by simp [hu])))
    simp [enc, enc8, hb]
  case case3 hE => rw [handleError_none hE]; exact shape_throw _
  case case4 hE ih =>
    obtain ⟨rfl, rfl⟩ := handleError_some hE
    exact shape_mark (ih (fun u hu => hin u (by simp [hu])))
  case case5 => exact shape_stop _ _ (by simp)
  case case6 =>
    rename_i b _ _ _ _ hs hb low rest' hl ih
    have hs2 := hs.2; simp [isSurrogate] at hs2
    refine shape_scalar (65536 + b % 1024 * 1024 + low % 1024) ⟨by omega, by omega⟩ _ ?_
      (ih (fun u hu => hin u (by simp [hu])))
    rw [emit8_eq_enc8 _ (by omega) (by omega)]; simp [enc]
  case case7 hE => rw [handleError_none hE]; exact shape_throw _
  case case8 hE ih =>
    obtain ⟨rfl, rfl⟩ := handleError_some hE
    exact shape_mark (ih (fun u hu => hin u (by simp [hu])))
  case case9 hE => rw [handleError_none hE]; exact shape_throw _
  case case10 hE ih =>
    obtain ⟨rfl, rfl⟩ := handleError_some hE
    exact shape_mark (ih (fun u hu => hin u (by simp [hu])))
  case case11 b rest _ _ _ hb h16 h32 ih =>
    have hb2 := hin b (by simp)
    have hsc : IsScalar b := by
      rcases hwi with h | h <;> subst h <;> simp [isSurrogate] at h16 h32 <;> refine ⟨by omega, by omega⟩
    refine shape_scalar b hsc _ ?_ (ih (fun u hu => hin u (by simp [hu])))
    rw [emit8_eq_enc8 _ (by omega) hsc.1]; simp [enc]

theorem decode16to32_shape (pol : Policy) (mark : Option (List Nat)) (inp : List Nat)
    (hin : ∀ u ∈ inp, u < 2 ^ 16) (pos : Nat) (out : List Nat) (inv : Nat) :
    Shape 32 pol mark out inv (decode16to32 pol mark inp pos out inv) := by
  fun_induction decode16to32 pol mark inp pos out inv
  case case1 => exact shape_stop _ _ (by simp)
  case case2 hE => rw [handleError_none hE]; exact shape_throw _
  case case3 hE ih =>
    obtain ⟨rfl, rfl⟩ := handleError_some hE
    exact shape_mark (ih (fun u hu => hin u (by simp [hu])))
  case case4 => exact shape_stop _ _ (by simp)
  case case5 =>
    rename_i b _ _ _ hs hb low rest' hl ih
    simp [isSurrogate] at hs
    refine shape_scalar (65536 + b % 1024 * 1024 + low % 1024) ⟨by omega, by omega⟩ _ ?_
      (ih (fun u hu => hin u (by simp [hu])))
    simp [enc, enc32]
  case case6 hE => rw [handleError_none hE]; exact shape_throw _
  case case7 hE ih =>
    obtain ⟨rfl, rfl⟩ := handleError_some hE
    exact shape_mark (ih (fun u hu => hin u (by simp [hu])))
  case case8 b rest _ _ _ hs ih =>
    have hb2 := hin b (by simp)
    simp [isSurrogate] at hs
    refine shape_scalar b ⟨by omega, by omega⟩ _ ?_ (ih (fun u hu => hin u (by simp [hu])))
    simp [enc, enc32]

theorem encode16from32_shape (pol : Policy) (mark : Option (List Nat)) (inp : List Nat)
    (pos : Nat) (out : List Nat) (inv : Nat) :
    Shape 16 pol mark out inv (encode16from32 pol mark inp pos out inv) := by
  fun_induction encode16from32 pol mark inp pos out inv
  case case1 => exact shape_stop _ _ (by simp)
  case case2 hE => rw [handleError_none hE]; exact shape_throw _
  case case3 hE ih =>
    obtain ⟨rfl, rfl⟩ := handleError_some hE
    exact shape_mark ih
  case case4 b _ _ _ _ hs hb ih =>
    simp [isSurrogate] at hs
    refine shape_scalar b ⟨by omega, by omega⟩ _ ?_ ih
    simp [enc, enc16, hb]
  case case5 b _ _ _ _ hs hb ih =>
    simp [isSurrogate] at hs
    refine shape_scalar b ⟨by omega, by omega⟩ _ ?_ ih
    rw [lor_D800 _ (by omega)]
    simp [enc, enc16, hb]

/-- **C12 (shape).** For every input whatsoever and every pair of *different* widths, `Transcode`
    preserves the prior output and appends only standard encodings of scalar values and error
    marks; under Skip the reported count equals the number of marks written and the code is
    never InvalidSequence; under ThrowError no mark is ever written. -/
theorem transcode_shape (wi wo : Nat) (hwi : C11.Width wi) (hwo : C11.Width wo) (hne : wi ≠ wo)
    (pol : Policy) (mark : Option (List Nat)) (inp : List Nat) (hin : ∀ u ∈ inp, u < 2 ^ wi) (out : List Nat) :
    Shape wo pol mark out 0 (transcode wi wo pol mark inp out) := by
  unfold transcode utf8Encode utf16Encode utf32Encode utf16Decode
  rcases hwi with h | h | h <;> rcases hwo with h' | h' | h' <;> subst h <;> subst h' <;>
    first
    | exact absurd rfl hne
    | (simp; first
        | exact encode8_shape _ pol mark inp hin (by simp) 0 out 0
        | exact decode8_shape _ (by simp) pol mark inp 0 out 0
        | exact decode16to32_shape pol mark inp hin 0 out 0
        | exact encode16from32_shape pol mark inp 0 out 0)

/-- rendering with a well-formed mark is well-formed -/
theorem render_wellformed (wo : Nat) (mark : Option (List Nat)) (items : List (Option Nat))
    (hs : ∀ c, some c ∈ items → IsScalar c) (hm : WellFormed wo (mark.getD [])) :
    WellFormed wo (render wo mark items) := by
  induction items with
  | nil => exact ⟨[], by simp, by simp [render]⟩
  | cons it items ih =>
    obtain ⟨t, ht, he⟩ := ih (fun c hc => hs c (by simp [hc]))
    cases it with
    | some c =>
      refine ⟨c :: t, ?_, by simp [render, he]⟩
      intro x hx; simp at hx; rcases hx with rfl | hx
      · exact hs x (by simp)
      · exact ht x hx
    | none =>
      obtain ⟨tm, htm, hem⟩ := hm
      refine ⟨tm ++ t, ?_, ?_⟩
      · intro x hx; simp at hx; rcases hx with hx | hx; exact htm x hx; exact ht x hx
      · simp [render, encs, List.flatMap_append] at *; rw [hem, he]

/-- **C12 (output well-formed).** Whatever the input, what `Transcode` appends is well-formed in the
    target encoding form whenever the error mark is (in particular for the default marks). -/
theorem transcode_output_wellformed (wi wo : Nat) (hwi : C11.Width wi) (hwo : C11.Width wo) (hne : wi ≠ wo)
    (pol : Policy) (mark : Option (List Nat)) (inp : List Nat) (hin : ∀ u ∈ inp, u < 2 ^ wi) (out : List Nat)
    (hm : WellFormed wo (mark.getD [])) :
    ∃ appended, (transcode wi wo pol mark inp out).out = out ++ appended ∧ WellFormed wo appended := by
  obtain ⟨items, h1, h2, _, _⟩ := transcode_shape wi wo hwi hwo hne pol mark inp hin out
  exact ⟨_, h1, render_wellformed wo mark items h2 hm⟩

/-! #### ThrowError soundness: ill-formed UTF-8 is never accepted -/

/-- **C12 (never propagated, UTF-8 source).** If `Utf8::Decode` reports Success under ThrowError, the
    input was exactly the standard (shortest-form, surrogate-free, ≤ U+10FFFF) UTF-8 encoding of a
    list of scalar values, and the output is its standard encoding in the target form. -/
theorem decode8_throw_sound (w : Nat) (hw : w = 16 ∨ w = 32) (mark : Option (List Nat)) (inp : List Nat)
    (pos : Nat) (out : List Nat) (inv : Nat) :
    (decode8 w .throwError mark inp pos out inv).code = .success →
    ∃ t, C11.AllScalar t ∧ inp = encs 8 t ∧ (decode8 w .throwError mark inp pos out inv).out = out ++ encs w t := by
  fun_induction decode8 w .throwError mark inp pos out inv
  case case1 => intro _; exact ⟨[], by simp [C11.AllScalar], by simp, by simp⟩
  case case2 b rest _ _ _ hb ih =>
    intro hs
    obtain ⟨t, h1, h2, h3⟩ := ih hs
    refine ⟨b :: t, ?_, ?_, ?_⟩
    · intro x hx; simp at hx; rcases hx with rfl | hx
      · exact ⟨by omega, by omega⟩
      · exact h1 x hx
    · simp [enc, enc8, hb, h2]
    · have hb' : b < 65536 := by omega
      rw [h3]; rcases hw with h | h <;> subst h <;> simp [enc, enc16, enc32, hb']
  case case3 => intro h; simp at h
  case case4 => intro h; simp at h
  case case5 hE _ => simp [handleError] at hE
  case case6 =>
    rename_i b rest _ _ _ hb8 tails sym0 minSym wrong0 hc k hlen sym wrong hf hn hs ih
    intro hsucc
    obtain ⟨t, h1, h2, h3⟩ := ih hsucc
    simp only [Bool.or_eq_true, decide_eq_true_eq, not_or, Bool.not_eq_true] at hn
    obtain ⟨⟨⟨hw0, hmin⟩, hmax⟩, hsur⟩ := hn
    subst hw0
    have henc := decode8_accepts_only_standard b rest hb8 tails sym0 minSym wrong0 hc hlen sym hf hmin hmax hsur
    simp [isSurrogate] at hsur
    refine ⟨sym :: t, ?_, ?_, ?_⟩
    · intro x hx; simp at hx; rcases hx with rfl | hx
      · exact ⟨by omega, by omega⟩
      · exact h1 x hx
    · have : b :: rest = (b :: rest.take k) ++ rest.drop k := by simp
      rw [this, henc, h2]; simp [enc]
    · rw [h3]; obtain ⟨hgt, rfl⟩ := hs
      have : ¬ sym < 65536 := by omega
      simp [enc, enc16, this]; omega
  case case7 =>
    rename_i b rest _ _ _ hb8 tails sym0 minSym wrong0 hc k hlen sym wrong hf hn hs ih
    intro hsucc
    obtain ⟨t, h1, h2, h3⟩ := ih hsucc
    simp only [Bool.or_eq_true, decide_eq_true_eq, not_or, Bool.not_eq_true] at hn
    obtain ⟨⟨⟨hw0, hmin⟩, hmax⟩, hsur⟩ := hn
    subst hw0
    have henc := decode8_accepts_only_standard b rest hb8 tails sym0 minSym wrong0 hc hlen sym hf hmin hmax hsur
    simp [isSurrogate] at hsur
    refine ⟨sym :: t, ?_, ?_, ?_⟩
    · intro x hx; simp at hx; rcases hx with rfl | hx
      · exact ⟨by omega, by omega⟩
      · exact h1 x hx
    · have : b :: rest = (b :: rest.take k) ++ rest.drop k := by simp
      rw [this, henc, h2]; simp [enc]
    · rw [h3]
      rcases hw with h | h <;> subst h
      · have : sym < 65536 := by omega
        simp [enc, enc16, this]
      · simp [enc, enc32]

theorem handleError_throw (out : List Nat) (mark : Option (List Nat)) : handleError out .throwError mark = none := rfl

theorem encode8_throw_sound (wi : Nat) (hwi : wi = 16 ∨ wi = 32) (mark : Option (List Nat)) (inp : List Nat)
    (hin : ∀ u ∈ inp, u < 2 ^ wi) (pos : Nat) (out : List Nat) (inv : Nat) :
    (encode8 wi .throwError mark inp pos out inv).code = .success →
    ∃ t, C11.AllScalar t ∧ inp = encs wi t ∧ (encode8 wi .throwError mark inp pos out inv).out = out ++ encs 8 t := by
  fun_induction encode8 wi .throwError mark inp pos out inv
  case case1 => intro _; exact ⟨[], by simp [C11.AllScalar], by simp, by simp⟩
  case case2 b rest _ _ _ hb ih =>
    intro hs
    obtain ⟨t, h1, h2, h3⟩ := ih (fun u hu => hin u (by simp [hu])) hs
    have hb16 : b < 65536 := by omega
    refine ⟨b :: t, ?_, ?_, ?_⟩
    · intro x hx; simp at hx; rcases hx with rfl | hx
      · exact ⟨by omega, by omega⟩
      · exact h1 x hx
    · rcases hwi with h | h <;> subst h <;> simp [enc, enc16, enc32, hb16, h2]
    · rw [h3]; simp [enc, enc8, hb]
  case case3 => intro h; simp at h
  case case4 hE _ => simp [handleError] at hE
  case case5 => intro h; simp at h
  case case6 =>
    rename_i b _ _ _ _ hs hb low rest' hl ih
    intro hsucc
    obtain ⟨t, h1, h2, h3⟩ := ih (fun u hu => hin u (by simp [hu])) hsucc
    have hs2 := hs.2; simp [isSurrogate] at hs2
    have hwi16 := hs.1
    subst hwi16
    refine ⟨(65536 + b % 1024 * 1024 + low % 1024) :: t, ?_, ?_, ?_⟩
    · intro x hx; simp at hx; rcases hx with rfl | hx
      · exact ⟨by omega, by omega⟩
      · exact h1 x hx
    · have hc : ¬ (65536 + b % 1024 * 1024 + low % 1024 < 65536) := by omega
      simp only [encs_cons, enc, enc16, hc, if_false, h2]
      simp
      constructor <;> omega
    · rw [h3, emit8_eq_enc8 _ (by omega) (by omega)]; simp [enc]
  case case7 => intro h; simp at h
  case case8 hE _ => simp [handleError] at hE
  case case9 => intro h; simp at h
  case case10 hE _ => simp [handleError] at hE
  case case11 b rest _ _ _ hb h16 h32 ih =>
    intro hsucc
    obtain ⟨t, h1, h2, h3⟩ := ih (fun u hu => hin u (by simp [hu])) hsucc
    have hb2 := hin b (by simp)
    have hsc : IsScalar b := by
      rcases hwi with h | h <;> subst h <;> simp [isSurrogate] at h16 h32 <;> refine ⟨by omega, by omega⟩
    refine ⟨b :: t, ?_, ?_, ?_⟩
    · intro x hx; simp at hx; rcases hx with rfl | hx
      · exact hsc
      · exact h1 x hx
    · rcases hwi with h | h <;> subst h
      · have : b < 65536 := by omega
        simp [enc, enc16, this, h2]
      · simp [enc, enc32, h2]
    · rw [h3, emit8_eq_enc8 _ (by omega) hsc.1]; simp [enc]

theorem decode16to32_throw_sound (mark : Option (List Nat)) (inp : List Nat) (hin : ∀ u ∈ inp, u < 2 ^ 16)
    (pos : Nat) (out : List Nat) (inv : Nat) :
    (decode16to32 .throwError mark inp pos out inv).code = .success →
    ∃ t, C11.AllScalar t ∧ inp = encs 16 t ∧ (decode16to32 .throwError mark inp pos out inv).out = out ++ encs 32 t := by
  fun_induction decode16to32 .throwError mark inp pos out inv
  case case1 => intro _; exact ⟨[], by simp [C11.AllScalar], by simp, by simp⟩
  case case2 => intro h; simp at h
  case case3 hE _ => simp [handleError] at hE
  case case4 => intro h; simp at h
  case case5 =>
    rename_i b _ _ _ hs hb low rest' hl ih
    intro hsucc
    obtain ⟨t, h1, h2, h3⟩ := ih (fun u hu => hin u (by simp [hu])) hsucc
    simp [isSurrogate] at hs
    refine ⟨(65536 + b % 1024 * 1024 + low % 1024) :: t, ?_, ?_, ?_⟩
    · intro x hx; simp at hx; rcases hx with rfl | hx
      · exact ⟨by omega, by omega⟩
      · exact h1 x hx
    · have hc : ¬ (65536 + b % 1024 * 1024 + low % 1024 < 65536) := by omega
      simp only [encs_cons, enc, enc16, hc, if_false, h2]
      simp
      constructor <;> omega
    · rw [h3]; simp [enc, enc32]
  case case6 => intro h; simp at h
  case case7 hE _ => simp [handleError] at hE
  case case8 b rest _ _ _ hs ih =>
    intro hsucc
    obtain ⟨t, h1, h2, h3⟩ := ih (fun u hu => hin u (by simp [hu])) hsucc
    have hb2 := hin b (by simp)
    simp [isSurrogate] at hs
    refine ⟨b :: t, ?_, ?_, ?_⟩
    · intro x hx; simp at hx; rcases hx with rfl | hx
      · exact ⟨by omega, by omega⟩
      · exact h1 x hx
    · have : b < 65536 := by omega
      simp [enc, enc16, this, h2]
    · rw [h3]; simp [enc, enc32]

theorem encode16from32_throw_sound (mark : Option (List Nat)) (inp : List Nat) (pos : Nat) (out : List Nat) (inv : Nat) :
    (encode16from32 .throwError mark inp pos out inv).code = .success →
    ∃ t, C11.AllScalar t ∧ inp = encs 32 t ∧ (encode16from32 .throwError mark inp pos out inv).out = out ++ encs 16 t := by
  fun_induction encode16from32 .throwError mark inp pos out inv
  case case1 => intro _; exact ⟨[], by simp [C11.AllScalar], by simp, by simp⟩
  case case2 => intro h; simp at h
  case case3 hE _ => simp [handleError] at hE
  case case4 b _ _ _ _ hs hb ih =>
    intro hsucc
    obtain ⟨t, h1, h2, h3⟩ := ih hsucc
    simp [isSurrogate] at hs
    refine ⟨b :: t, ?_, by simp [enc, enc32, h2], by rw [h3]; simp [enc, enc16, hb]⟩
    intro x hx; simp at hx; rcases hx with rfl | hx
    · exact ⟨by omega, by omega⟩
    · exact h1 x hx
  case case5 b _ _ _ _ hs hb ih =>
    intro hsucc
    obtain ⟨t, h1, h2, h3⟩ := ih hsucc
    simp [isSurrogate] at hs
    refine ⟨b :: t, ?_, by simp [enc, enc32, h2], ?_⟩
    · intro x hx; simp at hx; rcases hx with rfl | hx
      · exact ⟨by omega, by omega⟩
      · exact h1 x hx
    · rw [h3, lor_D800 _ (by omega)]; simp [enc, enc16, hb]

/-- **C12 (never propagated), every pair of different widths.** If `Transcode` reports Success under the
    ThrowError policy then its input WAS the standard encoding of a list of Unicode scalar values — no
    overlong form, no surrogate, nothing above U+10FFFF, no cropped sequence — and what it appended is exactly
    that text in the target encoding form. -/
theorem transcode_throw_sound (wi wo : Nat) (hwi : C11.Width wi) (hwo : C11.Width wo) (hne : wi ≠ wo)
    (mark : Option (List Nat)) (inp : List Nat) (hin : ∀ u ∈ inp, u < 2 ^ wi) (out : List Nat)
    (hs : (transcode wi wo .throwError mark inp out).code = .success) :
    ∃ t, C11.AllScalar t ∧ inp = encs wi t ∧ (transcode wi wo .throwError mark inp out).out = out ++ encs wo t := by
  unfold transcode utf8Encode utf16Encode utf32Encode utf16Decode at hs ⊢
  rcases hwi with h | h | h <;> rcases hwo with h' | h' | h' <;> subst h <;> subst h' <;>
    first
    | exact absurd rfl hne
    | (simp at hs ⊢; first
        | exact encode8_throw_sound _ (by simp) mark inp hin 0 out 0 hs
        | exact decode8_throw_sound _ (by simp) mark inp 0 out 0 hs
        | exact decode16to32_throw_sound mark inp hin 0 out 0 hs
        | exact encode16from32_throw_sound mark inp 0 out 0 hs)


/-! #### non-vacuity: concrete ill-formed inputs reach the interesting branches -/

example : (transcode 8 16 .skip (some [0x2610]) [0xC0, 0x80, 0x41] [7]).out = [7, 0x2610, 0x41] := by
  simp [transcode, utf16Encode, decode8, classify8, foldTails, handleError, isSurrogate]

example : (transcode 8 32 .throwError none [0x41, 0xED, 0xA0, 0x80] []).iter = 1 := by
  simp [transcode, utf32Encode, decode8, classify8, foldTails, handleError, isSurrogate]

end BSVerif.Props.C12
