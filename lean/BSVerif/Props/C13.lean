/-
  C13 — Encoded text streams: encoding detection, BOM and chunked decoding are lossless.

  Umbrella module (what `tools/check.py C13` builds and audits). The property theorems live in
    * Props/C13Detect.lean   — regenerated BOM table, BOM / BOM-less detection, ambiguity,
                               progress and termination of the chunked reader for EVERY byte stream;
    * Props/C13Writer.lean   — the writer emits exactly the configured encoding and BOM;
    * Props/C13Lossless.lean — main clause: a well-formed text in any of the five encodings is read
                               back exactly (`Success* EndFile`, text = `encs wo t`) for every chunk
                               size ≥ 32, with and without BOM; writer session → reader round trip.
  All of them are in namespace `BSVerif.Props.C13`.
-/
import BSVerif.Props.C13Detect
import BSVerif.Props.C13Lossless
