/-
  C13 — Encoded text streams: encoding detection, BOM and chunked decoding are lossless.
  PROPERTY THEOREMS ONLY.
-/
import BSVerif.Utf.StreamOracle
import BSVerif.Props.C12
import BSVerif.Utf.Progress

namespace BSVerif.Props.C13
open BSVerif.Utf BSVerif.Utf.Spec BSVerif.Utf.StreamOracle

/-! #### regenerated obligations -/

/-- The BOM table compiled into the library is the Unicode one, for all five encodings. -/
theorem bom_table : ∀ t : UtfType, bomOf t = specBom t := by
  intro t; cases t <;> decide

/-- The default chunk size satisfies the reader's `static_assert`s (multiple of 4, ≥ 32). -/
theorem chunk_size_obligation :
    Generated.Utf.encodedStreamReaderDefaultChunk % 4 = 0 ∧ 32 ≤ Generated.Utf.encodedStreamReaderDefaultChunk := by
  decide

/-! #### detection -/

/-- **BOM detection**, all encodings, any body. The UTF-16LE BOM followed by two zero bytes *is* the
    UTF-32LE BOM (Unicode's own ambiguity), hence the side condition. -/
theorem detect_bom (e : UtfType) (body : List Nat)
    (h16 : e = .utf16le → ¬ [0, 0].isPrefixOf body) :
    detect (specBom e ++ body) = (e, (specBom e).length) := by
  cases e <;> simp [detect, bomOf, specBom, startsWith, Generated.Utf.bomUtf8, Generated.Utf.bomUtf16le,
    Generated.Utf.bomUtf16be, Generated.Utf.bomUtf32le, Generated.Utf.bomUtf32be] <;> simp_all

/-- The NUL-freeness side condition of BOM-less detection is forced: two different texts in two
    different encodings can be the same bytes, so no detector can satisfy the unrestricted claim. -/
theorem ambiguous : bytesLE 8 (encs 8 [0x41, 0]) = bytesLE 16 (encs 16 [0x41]) ∧ [0x41, 0] ≠ [0x41] := by
  decide

/-! #### chunked reader: progress and termination (the "never hangs" part of the property) -/

/-- window invariant of `CEncodedStreamReader` (start/end pointers stay inside the N-byte buffer) -/
abbrev WInv := BSVerif.Utf.WInv

/-- **Every successful `ReadChunk` makes progress**: for every reader state with a chunk size that
    satisfies the class's `static_assert`s (here: ≥ 32), every stream content, policy and target
    width, a call that returns Success strictly decreases
    `unread stream bytes + buffered bytes + [stream not yet at eof]`, and keeps the window invariant.
    (On the tree before commit 41d2b3f this was false: a stream ending inside a UTF-16/32 code unit
    left 1–3 bytes in the window for ever.) -/
theorem readChunk_progress (r : Reader) (out : List Nat) (hN : 32 ≤ r.N) (hinv : WInv r)
    (hs : (r.readChunk out).1 = .success) :
    (r.readChunk out).2.2.measure < r.measure ∧ WInv (r.readChunk out).2.2 ∧ (r.readChunk out).2.2.N = r.N :=
  readChunk_progress' r out hN hinv hs

/-- **A caller that reads until EndFile/DecodeError always terminates**, for every byte stream
    (well-formed, ill-formed or truncated anywhere), every N ≥ 32, policy, mark and target width:
    `len + 2` calls always suffice. -/
theorem readAll_terminates (N wo : Nat) (pol : Policy) (mark : Option (List Nat)) (bytes : List Nat) (hN : 32 ≤ N) :
    (Reader.readAll (bytes.length + 2) (Reader.mk' N wo pol mark bytes) [] []).2.2 = false := by
  obtain ⟨h1, h2, h3⟩ := mk'_spec N wo pol mark bytes
  exact readAll_no_hang _ _ _ _ (by omega) h1 (by omega)

example : (Reader.mk' 32 8 .skip (some [0x3F]) [0xFF, 0xFE, 0x41, 0x00, 0x42]).utf = .utf16le := by decide

end BSVerif.Props.C13
