/-
  C20 — Every failure surfaces as a catchable exception: no terminate, no leak.

  PROPERTY THEOREMS ONLY.
  (1) scope-lifetime machine: if no destructor can throw, then for EVERY program and EVERY fault
      schedule the outcome is never `terminate`, and a failing step surfaces as exactly its own
      exception (the first one).
  (2) regenerated from the source on every run (clang AST, transitive may-throw analysis): the list
      of user-provided destructors and the calls in them that may throw. On the current tree
      exactly two destructors are fallible — the two recorded findings; a new throwing call in any
      destructor breaks `fallible_dtors_are_the_recorded_ones` by name.
  Allocation failure, stream failure and truncation at every position are runtime enumerations
  (harness/ops_fault.cpp), labelled validation.
-/
import BSVerif.Fault.Model
import BSVerif.Generated.InventoryConsts

namespace BSVerif.Props.C20
open BSVerif.Fault

theorem unwind_false_of_all_false (stack : List Bool) (h : ∀ d ∈ stack, d = false) : unwind stack = false := by
  induction stack with
  | nil => rfl
  | cons d rest ih =>
    simp only [unwind]
    rw [h d (by simp), ih (fun x hx => h x (by simp [hx]))]
    rfl

/-- **No terminate**: with infallible destructors, whatever fails wherever, the process is never terminated. -/
theorem no_terminate (prog : List Instr) (hp : noThrowingDtor prog) :
    ∀ stack, (∀ d ∈ stack, d = false) → exec prog stack ≠ .terminate := by
  induction prog with
  | nil =>
    intro stack hs
    simp [exec, unwind_false_of_all_false stack hs]
  | cons i is ih =>
    intro stack hs
    have hp' : noThrowingDtor is := fun d hd => hp d (by simp [hd])
    cases i with
    | openScope d =>
      have hd : d = false := hp d (by simp)
      simp only [exec]
      exact ih hp' (d :: stack) (by intro x hx; simp at hx; rcases hx with rfl | hx; exact hd; exact hs x hx)
    | step f =>
      cases f with
      | none => simp only [exec]; exact ih hp' stack hs
      | some e => simp [exec, unwind_false_of_all_false stack hs]
    | closeScope =>
      cases stack with
      | nil => simp only [exec]; exact ih hp' [] (by simp)
      | cons d rest =>
        have hd : d = false := hs d (by simp)
        subst hd
        simp only [exec, Bool.false_eq_true, if_false]
        exact ih hp' rest (fun x hx => hs x (by simp [hx]))

/-- **The error surfaces**: with infallible destructors the outcome is the first failing step's own exception
    (or normal completion when nothing fails). -/
theorem error_surfaces (prog : List Instr) (hp : noThrowingDtor prog) :
    ∀ stack, (∀ d ∈ stack, d = false) →
    exec prog stack = (match firstFailure prog with | some e => .exception e | none => .completed) := by
  induction prog with
  | nil => intro stack hs; simp [exec, firstFailure, unwind_false_of_all_false stack hs]
  | cons i is ih =>
    intro stack hs
    have hp' : noThrowingDtor is := fun d hd => hp d (by simp [hd])
    cases i with
    | openScope d =>
      have hd : d = false := hp d (by simp)
      simp only [exec, firstFailure]
      exact ih hp' (d :: stack) (by intro x hx; simp at hx; rcases hx with rfl | hx; exact hd; exact hs x hx)
    | step f =>
      cases f with
      | none => simp only [exec, firstFailure]; exact ih hp' stack hs
      | some e => simp [exec, firstFailure, unwind_false_of_all_false stack hs]
    | closeScope =>
      cases stack with
      | nil => simp only [exec, firstFailure]; exact ih hp' [] (by simp)
      | cons d rest =>
        have hd : d = false := hs d (by simp)
        subst hd
        simp only [exec, firstFailure, Bool.false_eq_true, if_false]
        exact ih hp' rest (fun x hx => hs x (by simp [hx]))

/-- the hypothesis is necessary: one throwing destructor and one failing step give `terminate` -/
theorem throwing_dtor_terminates : exec [.openScope true, .step (some 7)] [] = .terminate := by decide

/-! #### regenerated obligation over the destructor inventory -/
open BSVerif.Generated.Inventory

/-- Exactly the two recorded destructors can throw (CSV row flush, MsgPack unread-member skip); every
    other user-provided destructor of the library is infallible. -/
theorem fallible_dtors_are_the_recorded_ones :
    (dtors.filter (fun d => !d.2.isEmpty)).map (·.1) =
      ["BitSerializer::Csv::Detail::CCsvWriteObjectScope::~CCsvWriteObjectScope",
       "BitSerializer::MsgPack::Detail::CMsgPackReadObjectScope::~CMsgPackReadObjectScope"] := by
  decide

/-- the scope base-class destructor (parent notification) and the four root-scope destructors (owning
    `delete` of the reader/writer) are infallible -/
theorem root_and_base_dtors_infallible :
    (dtors.filter (fun d => d.2.isEmpty)).map (·.1) =
      ["BitSerializer::Csv::Detail::CsvReadRootScope::~CsvReadRootScope",
       "BitSerializer::Csv::Detail::CsvWriteRootScope::~CsvWriteRootScope",
       "BitSerializer::Csv::Detail::ICsvReader::~ICsvReader",
       "BitSerializer::Csv::Detail::ICsvWriter::~ICsvWriter",
       "BitSerializer::MsgPack::Detail::CMsgPackScopeBase::~CMsgPackScopeBase",
       "BitSerializer::MsgPack::Detail::CVariableKey::~CVariableKey",
       "BitSerializer::MsgPack::Detail::IMsgPackReader::~IMsgPackReader",
       "BitSerializer::MsgPack::Detail::IMsgPackWriter::~IMsgPackWriter",
       "BitSerializer::MsgPack::Detail::MsgPackReadRootScope::~MsgPackReadRootScope",
       "BitSerializer::MsgPack::Detail::MsgPackWriteRootScope::~MsgPackWriteRootScope"] := by
  decide

example : noThrowingDtor [.openScope false, .step none, .openScope false, .step (some 3), .closeScope, .closeScope] := by
  intro d hd; simp at hd; exact hd

end BSVerif.Props.C20
