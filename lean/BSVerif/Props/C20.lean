/-
  C20 — Every failure surfaces as a catchable exception: no terminate, no leak.

  PROPERTY THEOREMS ONLY.
  (1) scope-lifetime machine (Fault/Model.lean): destructors whose work fails either defer the error to
      `Finalize()` or let it escape. If no destructor lets an exception escape, then for EVERY program and
      EVERY fault schedule — failing steps, failing destructor work, both, in any order, also a destructor
      failing while another exception unwinds the stack — the outcome is never `terminate`
      (`no_terminate`); a failing step surfaces as exactly its own exception (`error_surfaces`); and when no
      step fails, the call completes normally ONLY IF no destructor's work failed either: a deferred error is
      rethrown by `Finalize()`, never swallowed (`deferred_error_surfaces`), and an exception that reaches the
      caller is one that was really raised (`exception_is_genuine`).
  (2) regenerated from the source on every run (clang AST, transitive may-throw analysis that knows that
      `try { … } catch (...) { }` confines what the try block throws): `dtors` = every user-provided destructor
      with the calls through which an exception may LEAVE it, `dtorsDeferred` = the calls it guards. On the current
      tree no destructor can let an exception escape (`dtors_cannot_let_exceptions_escape`, the hypothesis of (1));
      exactly four destructors have fallible work and defer it (`deferring_dtors_are_the_four_scopes`). A new
      throwing call in any destructor — or the removal of one of the try/catch blocks — breaks the first
      theorem by name. Before fixes 149505c / d75a225 two destructors were fallible (the recorded classes
      msgpack-object-dtor-throws, csv-write-dtor-throws); `throwing_dtor_terminates` keeps the reason why that
      was fatal.
  Allocation failure, stream failure and truncation at every position are runtime enumerations
  (harness/ops_fault.cpp), labelled validation.
-/
import BSVerif.Fault.Model
import BSVerif.Generated.InventoryConsts
import BSVerif.Csv.Archive

namespace BSVerif.Props.C20
open BSVerif.Fault

def stackOk (stack : List Dtor) : Prop := ∀ d ∈ stack, d.escapes = false

theorem unwind_some_of_ok (stack : List Dtor) (h : stackOk stack) : ∀ dfr, ∃ dfr', unwind stack dfr = some dfr' := by
  induction stack with
  | nil => intro dfr; exact ⟨dfr, rfl⟩
  | cons d rest ih =>
    intro dfr
    have hr : stackOk rest := fun x hx => h x (by simp [hx])
    cases d with
    | clean => simp only [unwind]; exact ih hr dfr
    | defers e => simp only [unwind]; exact ih hr _
    | throws e => have := h (.throws e) (by simp); simp [Dtor.escapes] at this

theorem stackOk_cons {d : Dtor} {stack : List Dtor} (hd : d.escapes = false) (hs : stackOk stack) : stackOk (d :: stack) := by
  intro x hx; simp at hx; rcases hx with rfl | hx
  · exact hd
  · exact hs x hx

theorem stackOk_tail {d : Dtor} {stack : List Dtor} (hs : stackOk (d :: stack)) : stackOk stack :=
  fun x hx => hs x (by simp [hx])

/-- **No terminate**: when no destructor lets an exception escape, then whatever fails wherever — steps, the
    destructors' own work, during normal closes or during stack unwinding — the process is never terminated. -/
theorem no_terminate (prog : List Instr) (hp : noEscapingDtor prog) :
    ∀ stack dfr, stackOk stack → exec prog stack dfr ≠ .terminate := by
  induction prog with
  | nil =>
    intro stack dfr hs
    obtain ⟨d', hu⟩ := unwind_some_of_ok stack hs dfr
    simp only [exec, hu]
    cases dfr <;> simp
  | cons i is ih =>
    intro stack dfr hs
    have hp' : noEscapingDtor is := fun d hd => hp d (by simp [hd])
    cases i with
    | openScope d =>
      simp only [exec]
      exact ih hp' (d :: stack) dfr (stackOk_cons (hp d (by simp)) hs)
    | step f =>
      cases f with
      | none => simp only [exec]; exact ih hp' stack dfr hs
      | some e =>
        obtain ⟨d', hu⟩ := unwind_some_of_ok stack hs dfr
        simp [exec, hu]
    | closeScope =>
      cases stack with
      | nil => simp only [exec]; exact ih hp' [] dfr (by intro x hx; simp at hx)
      | cons d rest =>
        have hr := stackOk_tail hs
        cases d with
        | clean => simp only [exec]; exact ih hp' rest dfr hr
        | defers e => simp only [exec]; exact ih hp' rest _ hr
        | throws e => have := hs (.throws e) (by simp); simp [Dtor.escapes] at this

/-- **The error surfaces**: a failing step reaches the caller as exactly its own exception — the first one —
    whatever the destructors that run during the unwinding do (their errors are deferred and dropped with the context). -/
theorem error_surfaces (prog : List Instr) (hp : noEscapingDtor prog) (e : Nat) (hf : firstFailure prog = some e) :
    ∀ stack dfr, stackOk stack → exec prog stack dfr = .exception e := by
  induction prog with
  | nil => simp [firstFailure] at hf
  | cons i is ih =>
    intro stack dfr hs
    have hp' : noEscapingDtor is := fun d hd => hp d (by simp [hd])
    cases i with
    | openScope d =>
      simp only [exec]
      exact ih hp' (by simpa [firstFailure] using hf) (d :: stack) dfr (stackOk_cons (hp d (by simp)) hs)
    | step f =>
      cases f with
      | none => simp only [exec]; exact ih hp' (by simpa [firstFailure] using hf) stack dfr hs
      | some e' =>
        obtain ⟨d', hu⟩ := unwind_some_of_ok stack hs dfr
        have : e' = e := by simpa [firstFailure] using hf
        simp [exec, hu, this]
    | closeScope =>
      have hf' : firstFailure is = some e := by simpa [firstFailure] using hf
      cases stack with
      | nil => simp only [exec]; exact ih hp' hf' [] dfr (by intro x hx; simp at hx)
      | cons d rest =>
        have hr := stackOk_tail hs
        cases d with
        | clean => simp only [exec]; exact ih hp' hf' rest dfr hr
        | defers e'' => simp only [exec]; exact ih hp' hf' rest _ hr
        | throws e'' => have := hs (.throws e'') (by simp); simp [Dtor.escapes] at this

theorem deferError_ne_none (dfr : Option Nat) (e : Nat) : deferError dfr e ≠ none := by
  cases dfr <;> simp [deferError]

/-- once an error is deferred and no step fails, the call cannot complete normally -/
theorem deferred_never_completes (prog : List Instr) (hf : firstFailure prog = none) :
    ∀ stack dfr, dfr ≠ none → exec prog stack dfr ≠ .completed := by
  induction prog with
  | nil =>
    intro stack dfr hd
    simp only [exec]
    cases dfr with
    | none => exact absurd rfl hd
    | some x => cases unwind stack (some x) <;> simp
  | cons i is ih =>
    intro stack dfr hd
    cases i with
    | openScope d => simp only [exec]; exact ih (by simpa [firstFailure] using hf) _ dfr hd
    | step f =>
      cases f with
      | none => simp only [exec]; exact ih (by simpa [firstFailure] using hf) _ dfr hd
      | some e => simp [firstFailure] at hf
    | closeScope =>
      have hf' : firstFailure is = none := by simpa [firstFailure] using hf
      cases stack with
      | nil => simp only [exec]; exact ih hf' _ dfr hd
      | cons d rest =>
        cases d with
        | clean => simp only [exec]; exact ih hf' _ dfr hd
        | defers e => simp only [exec]; exact ih hf' _ _ (deferError_ne_none dfr e)
        | throws e => simp [exec]

/-- **A deferred error surfaces too**: when no step fails, the call returns normally ONLY IF nothing at all failed —
    no error was pending and the work of every destructor, of the scopes already open and of every scope the
    program opens, succeeded. (Scopes with fallible destructors are closed before `Finalize()`: `endsClean`.) -/
theorem deferred_error_surfaces (prog : List Instr) (hf : firstFailure prog = none) :
    ∀ stack dfr, endsClean prog stack = true → exec prog stack dfr = .completed →
      dfr = none ∧ (∀ d ∈ stack, d = .clean) ∧ (∀ d, Instr.openScope d ∈ prog → d = .clean) := by
  induction prog with
  | nil =>
    intro stack dfr hc hex
    simp only [endsClean, List.all_eq_true, beq_iff_eq] at hc
    refine ⟨?_, hc, by simp⟩
    cases dfr with
    | none => rfl
    | some x => exact absurd hex (deferred_never_completes [] rfl stack (some x) (by simp))
  | cons i is ih =>
    intro stack dfr hc hex
    cases i with
    | openScope d =>
      simp only [exec] at hex
      simp only [endsClean] at hc
      obtain ⟨h1, h2, h3⟩ := ih (by simpa [firstFailure] using hf) (d :: stack) dfr hc hex
      refine ⟨h1, fun x hx => h2 x (by simp [hx]), ?_⟩
      intro x hx
      simp only [List.mem_cons, Instr.openScope.injEq] at hx
      rcases hx with rfl | hx
      · exact h2 x (by simp)
      · exact h3 x hx
    | step f =>
      cases f with
      | none =>
        simp only [exec] at hex
        simp only [endsClean] at hc
        obtain ⟨h1, h2, h3⟩ := ih (by simpa [firstFailure] using hf) stack dfr hc hex
        exact ⟨h1, h2, fun x hx => h3 x (by simpa using hx)⟩
      | some e => simp [firstFailure] at hf
    | closeScope =>
      have hf' : firstFailure is = none := by simpa [firstFailure] using hf
      simp only [endsClean] at hc
      cases stack with
      | nil =>
        simp only [exec] at hex
        obtain ⟨h1, _, h3⟩ := ih hf' [] dfr hc hex
        exact ⟨h1, by simp, fun x hx => h3 x (by simpa using hx)⟩
      | cons d rest =>
        simp only [List.tail_cons] at hc
        cases d with
        | clean =>
          simp only [exec] at hex
          obtain ⟨h1, h2, h3⟩ := ih hf' rest dfr hc hex
          refine ⟨h1, ?_, fun x hx => h3 x (by simpa using hx)⟩
          intro x hx; simp at hx; rcases hx with rfl | hx
          · rfl
          · exact h2 x hx
        | defers e =>
          simp only [exec] at hex
          exact absurd hex (deferred_never_completes is hf' rest _ (deferError_ne_none dfr e))
        | throws e => simp [exec] at hex

theorem unwind_mem (stack : List Dtor) : ∀ dfr dfr' x, unwind stack dfr = some dfr' → dfr' = some x →
    dfr = some x ∨ Dtor.defers x ∈ stack := by
  induction stack with
  | nil => intro dfr dfr' x h hx; simp only [unwind, Option.some.injEq] at h; left; rw [h, hx]
  | cons d rest ih =>
    intro dfr dfr' x h hx
    cases d with
    | clean => simp only [unwind] at h; rcases ih dfr dfr' x h hx with h' | h'; exact Or.inl h'; exact Or.inr (by simp [h'])
    | defers e =>
      simp only [unwind] at h
      rcases ih _ dfr' x h hx with h' | h'
      · cases dfr with
        | none => simp only [deferError, Option.some.injEq] at h'; right; simp [h']
        | some y => simp only [deferError] at h'; left; exact h'
      · exact Or.inr (by simp [h'])
    | throws e => simp [unwind] at h

/-- **Nothing is invented**: an exception that reaches the caller was raised by a step of the program, by the work of
    one of its destructors, or was already pending. -/
theorem exception_is_genuine (prog : List Instr) :
    ∀ stack dfr e, exec prog stack dfr = .exception e →
      dfr = some e ∨ Instr.step (some e) ∈ prog ∨ Instr.openScope (.defers e) ∈ prog ∨ Dtor.defers e ∈ stack := by
  induction prog with
  | nil =>
    intro stack dfr e h
    simp only [exec] at h
    cases hu : unwind stack dfr with
    | none => simp [hu] at h
    | some d' =>
      cases dfr with
      | none => simp [hu] at h
      | some x => simp [hu] at h; left; rw [h]
  | cons i is ih =>
    intro stack dfr e h
    cases i with
    | openScope d =>
      simp only [exec] at h
      rcases ih (d :: stack) dfr e h with h' | h' | h' | h'
      · exact Or.inl h'
      · exact Or.inr (Or.inl (by simp [h']))
      · exact Or.inr (Or.inr (Or.inl (by simp [h'])))
      · simp only [List.mem_cons] at h'
        rcases h' with rfl | h'
        · exact Or.inr (Or.inr (Or.inl (by simp)))
        · exact Or.inr (Or.inr (Or.inr h'))
    | step f =>
      cases f with
      | none =>
        simp only [exec] at h
        rcases ih stack dfr e h with h' | h' | h' | h'
        · exact Or.inl h'
        · exact Or.inr (Or.inl (by simp [h']))
        · exact Or.inr (Or.inr (Or.inl (by simp [h'])))
        · exact Or.inr (Or.inr (Or.inr h'))
      | some e' =>
        simp only [exec] at h
        cases hu : unwind stack dfr with
        | none => simp [hu] at h
        | some d' => simp [hu] at h; exact Or.inr (Or.inl (by simp [h]))
    | closeScope =>
      cases stack with
      | nil =>
        simp only [exec] at h
        rcases ih [] dfr e h with h' | h' | h' | h'
        · exact Or.inl h'
        · exact Or.inr (Or.inl (by simp [h']))
        · exact Or.inr (Or.inr (Or.inl (by simp [h'])))
        · simp at h'
      | cons d rest =>
        cases d with
        | clean =>
          simp only [exec] at h
          rcases ih rest dfr e h with h' | h' | h' | h'
          · exact Or.inl h'
          · exact Or.inr (Or.inl (by simp [h']))
          · exact Or.inr (Or.inr (Or.inl (by simp [h'])))
          · exact Or.inr (Or.inr (Or.inr (by simp [h'])))
        | defers e' =>
          simp only [exec] at h
          rcases ih rest _ e h with h' | h' | h' | h'
          · cases dfr with
            | none => simp only [deferError, Option.some.injEq] at h'; exact Or.inr (Or.inr (Or.inr (by simp [h'])))
            | some y => simp only [deferError] at h'; exact Or.inl h'
          · exact Or.inr (Or.inl (by simp [h']))
          · exact Or.inr (Or.inr (Or.inl (by simp [h'])))
          · exact Or.inr (Or.inr (Or.inr (by simp [h'])))
        | throws e' => simp [exec] at h

/-- the hypothesis is necessary — why an exception leaving a destructor is fatal: a scope whose destructor lets its
    error escape ends in `terminate` when it is closed normally (`std::optional<T>::~optional()` is noexcept) and when it
    is destroyed while another exception unwinds the stack (the two repaired findings); the same faults with a
    deferring destructor give the caller an exception -/
theorem throwing_dtor_terminates :
    exec [.openScope (.throws 1), .step (some 7)] [] none = .terminate ∧
    exec [.openScope (.throws 1), .closeScope] [] none = .terminate ∧
    exec [.openScope (.defers 1), .step (some 7)] [] none = .exception 7 ∧
    exec [.openScope (.defers 1), .closeScope] [] none = .exception 1 := by decide

/-- only the FIRST deferred error is kept (the later ones are consequences of the first) -/
theorem first_deferred_error_is_kept :
    exec [.openScope (.defers 1), .openScope (.defers 2), .closeScope, .step none, .closeScope] [.clean] none = .exception 2 ∧
    exec [.openScope (.defers 1), .closeScope, .openScope (.defers 2), .closeScope] [.clean] none = .exception 1 := by decide

/-! #### regenerated obligations over the destructor inventory -/
open BSVerif.Generated.Inventory

/-- **No destructor of the library can let an exception escape**: in every user-provided destructor, every call that
    may throw (transitively) sits inside a `try` with a catch-all handler that does not rethrow. This discharges the
    hypothesis `noEscapingDtor` of the theorems above for the real code; a throwing call added to any destructor, or
    a removed try/catch, makes this theorem false by name. (Formerly `fallible_dtors_are_the_recorded_ones`, which
    listed the two destructors of the recorded findings.) -/
theorem dtors_cannot_let_exceptions_escape : dtors.all (fun d => d.2.isEmpty) = true := by
  decide

/-- the destructors that have fallible work and defer its error to `Finalize()`: the CSV row flush, the MsgPack
    unread-member skip, the MsgPack unread-element skip and the MsgPack unread-byte skip of the binary scope — the
    `Dtor.defers` scopes of the machine -/
theorem deferring_dtors_are_the_four_scopes :
    dtorsDeferred.filter (fun d => !d.2.isEmpty) =
      [("BitSerializer::Csv::Detail::CCsvWriteObjectScope::~CCsvWriteObjectScope", ["NextLine"]),
       ("BitSerializer::MsgPack::Detail::CMsgPackReadArrayScope::~CMsgPackReadArrayScope", ["SkipValue"]),
       ("BitSerializer::MsgPack::Detail::CMsgPackReadBinaryScope::~CMsgPackReadBinaryScope", ["ReadBinary"]),
       ("BitSerializer::MsgPack::Detail::CMsgPackReadObjectScope::~CMsgPackReadObjectScope", ["ResetKey", "SkipValue"])] := by
  decide

/-- the user-provided destructors of the library: the four scopes above, the scope base class (parent notification),
    the four root scopes (owning `delete` of the reader/writer) and the interface/base destructors -/
theorem dtor_inventory :
    dtors.map (·.1) =
      ["BitSerializer::Csv::Detail::CCsvWriteObjectScope::~CCsvWriteObjectScope",
       "BitSerializer::Csv::Detail::CsvReadRootScope::~CsvReadRootScope",
       "BitSerializer::Csv::Detail::CsvWriteRootScope::~CsvWriteRootScope",
       "BitSerializer::Csv::Detail::ICsvReader::~ICsvReader",
       "BitSerializer::Csv::Detail::ICsvWriter::~ICsvWriter",
       "BitSerializer::MsgPack::Detail::CMsgPackReadArrayScope::~CMsgPackReadArrayScope",
       "BitSerializer::MsgPack::Detail::CMsgPackReadBinaryScope::~CMsgPackReadBinaryScope",
       "BitSerializer::MsgPack::Detail::CMsgPackReadObjectScope::~CMsgPackReadObjectScope",
       "BitSerializer::MsgPack::Detail::CMsgPackScopeBase::~CMsgPackScopeBase",
       "BitSerializer::MsgPack::Detail::CVariableKey::~CVariableKey",
       "BitSerializer::MsgPack::Detail::IMsgPackReader::~IMsgPackReader",
       "BitSerializer::MsgPack::Detail::IMsgPackWriter::~IMsgPackWriter",
       "BitSerializer::MsgPack::Detail::MsgPackReadRootScope::~MsgPackReadRootScope",
       "BitSerializer::MsgPack::Detail::MsgPackWriteRootScope::~MsgPackWriteRootScope"] := by
  decide

/-! #### the CSV save session with the deferred row error = the session that stops at the first row error

The CSV theorems (C09) are stated for `Archive.saveString/saveStream`, which end at the first `NextLine` error. The
repaired code goes on (the destructor defers the error, the remaining rows are written, `Finalize()` rethrows the first
error). Both give the caller the same text or the same exception, for every table. -/
section Csv
open BSVerif.Csv BSVerif.Csv.Archive BSVerif.Csv.Writer

theorem stringRows_deferred_some (rows : List (List KV)) : ∀ (w : StringWriter) (e : Err),
    (stringRowsDeferred w (some e) rows).2 = some e := by
  induction rows with
  | nil => intro w e; rfl
  | cons r rs ih =>
    intro w e
    simp only [stringRowsDeferred]
    split
    · exact ih _ e
    · exact ih _ e

theorem streamRows_deferred_some (rows : List (List KV)) : ∀ (w : StreamWriter) (e : Err),
    (streamRowsDeferred w (some e) rows).2 = some e := by
  induction rows with
  | nil => intro w e; rfl
  | cons r rs ih =>
    intro w e
    simp only [streamRowsDeferred]
    split
    · exact ih _ e
    · exact ih _ e

theorem stringRows_deferred_eq (rows : List (List KV)) : ∀ (w : StringWriter),
    match w.writeRows rows with
    | .ok w' => stringRowsDeferred w none rows = (w', none)
    | .error e => (stringRowsDeferred w none rows).2 = some e := by
  induction rows with
  | nil => intro w; rfl
  | cons r rs ih =>
    intro w
    simp only [StringWriter.writeRows, StringWriter.writeRow, stringRowsDeferred]
    cases h : (List.foldl (fun w kv => w.writeValue kv.1 kv.2) w r).nextLine with
    | ok w2 => exact ih w2
    | error e => exact stringRows_deferred_some rs _ e

theorem streamRows_deferred_eq (rows : List (List KV)) : ∀ (w : StreamWriter),
    match w.writeRows rows with
    | .ok w' => streamRowsDeferred w none rows = (w', none)
    | .error e => (streamRowsDeferred w none rows).2 = some e := by
  induction rows with
  | nil => intro w; rfl
  | cons r rs ih =>
    intro w
    simp only [StreamWriter.writeRows, StreamWriter.writeRow, streamRowsDeferred]
    cases h : (List.foldl (fun w kv => w.writeValue kv.1 kv.2) w r).nextLine with
    | ok w2 => exact ih w2
    | error e => exact streamRows_deferred_some rs _ e

/-- **A ragged CSV table still ends in its SerializationException** (and every other table in exactly the same text):
    deferring the row error from the destructor to `Finalize()` changes nothing the caller can observe, for every
    separator and every list of objects. -/
theorem csv_deferred_save_eq (sep : Nat) (objs : List (List KV)) :
    saveStringDeferred sep objs = Archive.saveString sep objs ∧ saveStreamDeferred sep objs = Archive.saveStream sep objs := by
  constructor
  · simp only [saveStringDeferred, Archive.saveString, Writer.saveString, bind, Except.bind]
    cases validateSeparator sep with
    | error e => rfl
    | ok u =>
      simp only
      have := stringRows_deferred_eq objs (StringWriter.mk [] true sep [] 0 0 0)
      cases h : (StringWriter.mk [] true sep [] 0 0 0).writeRows objs with
      | ok w' => rw [h] at this; simp only [this]
      | error e =>
        rw [h] at this
        simp only at this
        generalize stringRowsDeferred _ none objs = res at this
        obtain ⟨w, d⟩ := res
        simp only at this
        subst this
        rfl
  · simp only [saveStreamDeferred, Archive.saveStream, Writer.saveStream, bind, Except.bind]
    cases validateSeparator sep with
    | error e => rfl
    | ok u =>
      simp only
      have := streamRows_deferred_eq objs (StreamWriter.mk [] true sep [] [] 0 0 0)
      cases h : (StreamWriter.mk [] true sep [] [] 0 0 0).writeRows objs with
      | ok w' => rw [h] at this; simp only [this]
      | error e =>
        rw [h] at this
        simp only at this
        generalize streamRowsDeferred _ none objs = res at this
        obtain ⟨w, d⟩ := res
        simp only at this
        subst this
        rfl

-- the ragged table of the former finding (`fault.midsave csv_ragged_*`: rows {x=2}, {x=3, extra=1}): rejected, not terminated
example : saveStringDeferred 44 [[([120], [50])], [([120], [51]), ([101], [49])]] = .error .serOutOfRange := by rfl

end Csv

/-! #### non-vacuity -/

-- a session in which a destructor's work fails during a normal close AND a step fails later: hypotheses hold
example : noEscapingDtor [.openScope .clean, .step none, .openScope (.defers 4), .closeScope, .step (some 3), .closeScope] ∧
    firstFailure [.openScope .clean, .step none, .openScope (.defers 4), .closeScope, .step (some 3), .closeScope] = some 3 := by
  refine ⟨?_, rfl⟩
  intro d hd; simp at hd; rcases hd with rfl | rfl <;> rfl

-- a session without failing step whose scopes are all closed before Finalize()
example : firstFailure [.openScope (.defers 4), .step none, .closeScope] = none ∧
    endsClean [.openScope (.defers 4), .step none, .closeScope] [.clean] = true ∧
    exec [.openScope (.defers 4), .step none, .closeScope] [.clean] none = .exception 4 := by decide

end BSVerif.Props.C20
