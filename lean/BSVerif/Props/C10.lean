import BSVerif.BinStream.Oracle
namespace BSVerif.Props.C10
end BSVerif.Props.C10
