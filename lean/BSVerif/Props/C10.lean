/-
  C10 — Memory and stream loading are equivalent wherever buffer boundaries fall.

  The property theorems are in three files (this one only collects them, so that `lake build BSVerif.Props.C10`
  and the axiom audit see all of them):
  * Props/C10bin.lean  (namespace BSVerif.Props.C10)      `CBinaryStreamReader` refines a plain cursor over the bytes,
                                                          for every chunk size and every history of operations;
  * Props/C10csv.lean  (namespace BSVerif.Props.C10.Csv)  CSV stream reader/writer = CSV string reader/writer;
  * Props/C10mp.lean   (namespace BSVerif.Props.C10mp)    MsgPack stream reader = MsgPack string reader for every entry
                                                          point and every history (built on C10bin), stream writer =
                                                          string writer.
-/
import BSVerif.Props.C10bin
import BSVerif.Props.C10csv
import BSVerif.Props.C10mp
