/-
  C09 — CSV written and read per RFC 4180 for any field content and separator.

  PROPERTY THEOREMS ONLY (helper lemmas: Csv/SpecLemmas, WriterLemmas, ReaderLemmas, AbstractLemmas,
  SessionLemmas). Quantifiers: ALL tables (any number ≥ 1 of columns, any number of rows, arbitrary
  cell contents — separators, quotes, CR, LF, any code units), ALL allowed separators, ALL RFC 4180
  renderings (`Spec.Renders`: free quoting per field, CRLF or LF per line, optional final line break),
  ALL request scripts of one kind (by key in any order with repetitions and absent keys / by index).

    * `write_parse`            what the writer produces is read by the strict RFC 4180 recogniser as
                               exactly header + rows (escaping lemma per cell, then rows)
    * `writer_rejects_ragged`  rows of different width are refused by the writer
    * `reader_conforms`        on every RFC 4180 rendering of every table the string reader delivers exactly
                               what the Oracle expects (`Oracle.expectOfRecs`): the cells by key / by index,
                               a parsing error at the first record of the wrong width, an error when a
                               header is expected and there is no record
    * `any_rendering`          … spelled out for by-key scripts on a well-formed table: every row, every
                               requested key in any order → the cell of that column (any column order)
    * `width_mismatch_rejected` a record whose field count differs from the header raises a parsing error
    * `reader_reads_writer`    reading back what the writer wrote gives the rows, each cell by name
    * `archive_roundtrip`      SaveObject then LoadObject (model of csv_archive.h) returns the objects
    * `save_empty` / `load_empty_refused`  the recorded finding: an empty array is saved as the empty
                               text, which cannot be loaded
-/
import BSVerif.Csv.SessionLemmas
import BSVerif.Csv.SpecComplete
import BSVerif.Csv.WriterLemmas
import BSVerif.Csv.ReaderLemmas
import BSVerif.Csv.Archive
import BSVerif.Generated.CsvConsts

namespace BSVerif.Props.C09
open BSVerif.Csv BSVerif.Csv.Spec BSVerif.Csv.Reader BSVerif.Csv.Oracle BSVerif.Csv.Abs

/-- every separator the library allows keeps the RFC 4180 grammar unambiguous -/
theorem allowed_sepOk : ∀ sep ∈ BSVerif.Generated.Csv.allowedSeparators, SepOk sep := by decide

/-- the separators the library allows are exactly the documented ones -/
theorem allowed_is_documented : BSVerif.Generated.Csv.allowedSeparators = Oracle.specSeparators := by decide

/-- the `WriteValue` calls for a table: every row paired with the header names -/
def kvRows (hdr : List Field) (rows : List (List Field)) : List (List Writer.KV) := rows.map (fun r => hdr.zip r)

/-- what `CCsvStringWriter` (header on) produces for a table -/
def modelSave (sep : Nat) (hdr : List Field) (rows : List (List Field)) : Except Err (List Nat) :=
  Writer.saveString sep true (kvRows hdr rows)

/-- a table: at least one column, every row as wide as the header -/
def WellFormed (hdr : List Field) (rows : List (List Field)) : Prop := hdr ≠ [] ∧ ∀ r ∈ rows, r.length = hdr.length

theorem zip_fst {hdr r : List Field} (h : r.length = hdr.length) : (hdr.zip r).map (·.1) = hdr := by
  apply List.map_fst_zip; omega
theorem zip_snd {hdr r : List Field} (h : r.length = hdr.length) : (hdr.zip r).map (·.2) = r := by
  apply List.map_snd_zip; omega

/-- the text the writer produces is a rendering (in the sense of the Spec) of header + rows -/
theorem modelSave_renders (sep : Nat) (hdr : List Field) (first : List Field) (rest : List (List Field))
    (hw : WellFormed hdr (first :: rest)) :
    ∃ txt, modelSave sep hdr (first :: rest) = .ok txt ∧ Renders sep (hdr :: first :: rest) txt := by
  obtain ⟨hne, hlen⟩ := hw
  have h1 := hlen first (by simp)
  have hrest : ∀ r ∈ rest.map (fun r => hdr.zip r), r.length = (hdr.zip first).length := by
    intro r hr
    obtain ⟨r', hr', rfl⟩ := List.mem_map.mp hr
    have := hlen r' (by simp [hr'])
    simp [List.length_zip]; omega
  have hs := Writer.saveString_eq sep true (hdr.zip first) (rest.map (fun r => hdr.zip r)) hrest
  refine ⟨_, hs, ?_⟩
  have hvals : ((hdr.zip first) :: rest.map (fun r => hdr.zip r)).map (·.map (·.2)) = first :: rest := by
    simp only [List.map_cons, zip_snd h1, List.map_map]
    congr 1
    rw [List.map_congr_left (g := id)]
    · simp
    · intro r hr; exact zip_snd (hlen r (by simp [hr]))
  simp only [if_true, zip_fst h1, hvals]
  apply Writer.lines_renders
  intro r hr
  simp only [List.cons_append, List.nil_append, List.mem_cons] at hr
  rcases hr with rfl | rfl | hr
  · exact hne
  · intro h; rw [h] at h1; exact hne (List.length_eq_zero_iff.mp h1.symm)
  · intro h; have := hlen r (by simp [hr]); rw [h] at this; exact hne (List.length_eq_zero_iff.mp this.symm)

/-- **C09 (writer).** For every allowed separator and every table with arbitrary cell contents, the text
    produced by the writer is read by the strict RFC 4180 recogniser as exactly header + rows. -/
theorem write_parse (sep : Nat) (hsep : sep ∈ BSVerif.Generated.Csv.allowedSeparators)
    (hdr first : List Field) (rest : List (List Field)) (hw : WellFormed hdr (first :: rest)) :
    ∃ txt, modelSave sep hdr (first :: rest) = .ok txt ∧ Spec.parse sep txt = some (hdr :: first :: rest) := by
  obtain ⟨txt, h1, h2⟩ := modelSave_renders sep hdr first rest hw
  exact ⟨txt, h1, parse_of_renders (allowed_sepOk sep hsep) h2⟩

example : WellFormed [[97], [98]] [[[34, 44], [13]]] := by simp [WellFormed]
example : modelSave 44 [[97], [98]] [[[34, 44], [13]]] = .ok [97, 44, 98, 13, 10, 34, 34, 34, 44, 34, 44, 34, 13, 34, 13, 10] := by rfl

/-- **C09 (writer, width).** Rows of different width are refused. -/
theorem writer_rejects_ragged (sep : Nat) (wh : Bool) (first : List Writer.KV) (rest : List (List Writer.KV))
    (h : ∃ r ∈ rest, r.length ≠ first.length) : Writer.saveString sep wh (first :: rest) = .error .serOutOfRange :=
  Writer.saveString_ragged sep wh first rest h

/-- **C09 (reader, general form).** On every RFC-4180-conformant rendering of every table — any quoting
    choices, CRLF or LF, with or without final line break — the string reader's session delivers exactly
    what the Oracle derives from the table itself: cells by key (any order, repetitions, absent keys) or by
    index, a parsing error at the first record whose width differs, an error for a missing header line. -/
theorem reader_conforms (sep : Nat) (hs : SepOk sep) (wh : Bool) (script : List Req) (recs : Table) (txt : List Nat)
    (hr : Renders sep recs txt) (exp : Outcome) (he : expectOfRecs wh script recs = some exp) :
    memSession sep wh script txt = exp := by
  rw [memSession_eq_abs sep hs]
  exact absSession_expect (renders_lineStep hs) wh script recs txt hr exp he

/-- the rendering relation is exactly the set of texts the strict RFC 4180 recogniser accepts -/
theorem renders_iff_parse (sep : Nat) (hs : SepOk sep) (t : Table) (txt : List Nat) :
    Renders sep t txt ↔ Spec.parse sep txt = some t := Spec.renders_iff_parse hs t txt

/-- **C09 (reader, all inputs).** Whenever the Oracle has a verdict for a text (i.e. the strict RFC 4180 recogniser
    accepts it and the script is of one kind), the string reader's session is exactly what the Oracle expects —
    for ALL texts, not only those produced by some writer. -/
theorem reader_satisfies_oracle (sep : Nat) (wh : Bool) (script : List Req) (txt : List Nat) (exp : Outcome)
    (he : expectRead sep wh script txt = some exp) : memSession sep wh script txt = exp := by
  unfold expectRead at he
  by_cases hs : SepOk sep
  · rw [if_neg (fun hn => hn hs)] at he
    cases hp : Spec.parse sep txt with
    | none => rw [hp] at he; cases he
    | some recs =>
      rw [hp] at he
      exact reader_conforms sep hs wh script recs txt (Spec.renders_of_parse hs hp) exp he
  · rw [if_pos hs] at he; cases he

/-- the cells a by-key script must deliver for a row -/
def rowByKey (hdr : List Field) (script : List Req) (row : List Field) : List Cell := script.map (reqCell (some hdr) row)

theorem expectRows_wellformed (hdr : List Field) (script : List Req) (hk : noIdx script = true) (rows : List (List Field))
    (hlen : ∀ r ∈ rows, r.length = hdr.length) :
    expectRows (some hdr) script hdr.length rows = .ok hdr (rows.map (rowByKey hdr script)) false 0 := by
  induction rows with
  | nil => rfl
  | cons r rs ih =>
    have h1 : ¬ (r.length ≠ hdr.length) := by have := hlen r (by simp); omega
    have h2 : ¬ (scriptKind script = .idxs ∧ script.length > hdr.length) := by
      rw [AbsReader.scriptKind_keys hk]; intro h; cases h.1
    simp only [expectRows, h1, h2, if_false, ih (fun r' hr' => hlen r' (by simp [hr'])), Outcome.addRow, List.map_cons,
      AbsReader.expectRow_keys hk, rowByKey]

/-- **C09 (reader, any rendering, any column order).** Every RFC 4180 rendering of a well-formed table with
    distinct column names loads to the same rows: for every row, every requested key — in any order, so for
    any order of the columns in the text — delivers the cell of that column; keys that are no column name
    are reported as not found. -/
theorem any_rendering (sep : Nat) (hsep : sep ∈ BSVerif.Generated.Csv.allowedSeparators)
    (hdr : List Field) (rows : List (List Field)) (hn : hdr.Nodup) (hlen : ∀ r ∈ rows, r.length = hdr.length)
    (txt : List Nat) (hr : Renders sep (hdr :: rows) txt) (script : List Req) (hk : noIdx script = true) :
    memSession sep true script txt = .ok hdr (rows.map (rowByKey hdr script)) false (rows.length - 1) := by
  apply reader_conforms sep (allowed_sepOk sep hsep) true script (hdr :: rows) txt hr
  have hkind : scriptKind script ≠ .mixed := by rw [AbsReader.scriptKind_keys hk]; intro h; cases h
  have hnd : ¬ (¬ hdr.Nodup ∧ allIdx script = false) := fun h => h.1 hn
  simp only [expectOfRecs, hkind, if_false, if_true, hnd, expectRows_wellformed hdr script hk rows hlen, fixIndex]

example : Renders 44 [[[97], [98]], [[49], [34]]] [97, 44, 34, 98, 34, 10, 49, 44, 34, 34, 34, 34] := by
  have h1 : RecordR 44 [[97], [98]] ([97] ++ 44 :: [34, 98, 34]) :=
    RecordR.cons (FieldR.plain [97] (by decide)) (by simp) (RecordR.one (FieldR.quoted [98]))
  have h2 : RecordR 44 [[49], [34]] ([49] ++ 44 :: [34, 34, 34, 34]) :=
    RecordR.cons (FieldR.plain [49] (by decide)) (by simp) (RecordR.one (FieldR.quoted [34]))
  exact Renders.cons h1 EolR.lf (Renders.last h2 (by simp))

theorem expectRows_bad (hdr : Option (List Field)) (script : List Req) (hk : noIdx script = true) (w : Nat) (rows : List (List Field))
    (hbad : ∃ r ∈ rows, r.length ≠ w) : ∃ n, expectRows hdr script w rows = .err .parsing n := by
  induction rows with
  | nil => simp at hbad
  | cons r rs ih =>
    by_cases h1 : r.length ≠ w
    · exact ⟨0, by simp [expectRows, h1]⟩
    · have : ∃ r' ∈ rs, r'.length ≠ w := by
        obtain ⟨r', hm, hn⟩ := hbad
        simp only [List.mem_cons] at hm
        rcases hm with rfl | hm
        · exact absurd hn h1
        · exact ⟨r', hm, hn⟩
      obtain ⟨n, hn⟩ := ih this
      have h2 : ¬ (scriptKind script = .idxs ∧ script.length > w) := by
        rw [AbsReader.scriptKind_keys hk]; intro h; cases h.1
      exact ⟨n + 1, by simp [expectRows, h1, h2, hn, Outcome.addRow]⟩

/-- **C09 (reader, width).** A record whose field count differs from the header is rejected with a parsing
    error, in every rendering. -/
theorem width_mismatch_rejected (sep : Nat) (hsep : sep ∈ BSVerif.Generated.Csv.allowedSeparators)
    (hdr : List Field) (rows : List (List Field)) (hn : hdr.Nodup) (hbad : ∃ r ∈ rows, r.length ≠ hdr.length)
    (txt : List Nat) (hr : Renders sep (hdr :: rows) txt) (script : List Req) (hk : noIdx script = true) :
    ∃ n, memSession sep true script txt = .err .parsing n := by
  obtain ⟨n, hn'⟩ := expectRows_bad (some hdr) script hk hdr.length rows hbad
  refine ⟨n, ?_⟩
  apply reader_conforms sep (allowed_sepOk sep hsep) true script (hdr :: rows) txt hr
  have hkind : scriptKind script ≠ .mixed := by rw [AbsReader.scriptKind_keys hk]; intro h; cases h
  have hnd : ¬ (¬ hdr.Nodup ∧ allIdx script = false) := fun h => h.1 hn
  simp only [expectOfRecs, hkind, if_false, if_true, hnd, hn', fixIndex]

/-- **C09 (round trip).** Reading back what the writer wrote gives the rows — each cell by name, keys in
    any order — for arbitrary cell contents and every allowed separator. -/
theorem reader_reads_writer (sep : Nat) (hsep : sep ∈ BSVerif.Generated.Csv.allowedSeparators)
    (hdr first : List Field) (rest : List (List Field)) (hw : WellFormed hdr (first :: rest)) (hn : hdr.Nodup)
    (script : List Req) (hk : noIdx script = true) :
    ∃ txt, modelSave sep hdr (first :: rest) = .ok txt ∧
      memSession sep true script txt = .ok hdr ((first :: rest).map (rowByKey hdr script)) false rest.length := by
  obtain ⟨txt, h1, h2⟩ := modelSave_renders sep hdr first rest hw
  refine ⟨txt, h1, ?_⟩
  have := any_rendering sep hsep hdr (first :: rest) hn hw.2 txt h2 script hk
  simpa using this

/-! ### archive level (model of csv_archive.h) -/

theorem lookup_self (keys : List Field) (hn : keys.Nodup) (row : List Field) (hl : row.length = keys.length) :
    keys.map (lookupCell (some keys) row) = row.map .val := by
  apply List.ext_getElem
  · simp [hl]
  · intro i h1 h2
    simp only [List.getElem_map, lookupCell]
    simp only [List.length_map] at h1 h2
    have hi : keys.idxOf keys[i] = i := idxOf_of_getElem? hn (List.getElem?_eq_getElem h1)
    rw [hi, List.getElem?_eq_getElem h2]
    simp [h1]

/-- **C09 (archive round trip).** `SaveObject<CsvArchive>` of a non-empty array of objects with fields `keys`
    (distinct names, arbitrary string values) followed by `LoadObject<CsvArchive>` into objects with the same
    fields returns exactly the values, for every allowed separator. -/
theorem archive_roundtrip (sep : Nat) (hsep : sep ∈ BSVerif.Generated.Csv.allowedSeparators)
    (keys first : List Field) (rest : List (List Field)) (hw : WellFormed keys (first :: rest)) (hn : keys.Nodup) :
    ∃ txt, Archive.saveString sep (kvRows keys (first :: rest)) = .ok txt ∧
      Archive.loadString sep keys txt = .ok ((first :: rest).map (·.map .val)) := by
  have hnoidx : noIdx (keys.map Req.lit) = true := by simp [noIdx, isIdx]
  obtain ⟨txt, h1, h2⟩ := reader_reads_writer sep hsep keys first rest hw hn (keys.map Req.lit) hnoidx
  refine ⟨txt, ?_, ?_⟩
  · simp only [Archive.saveString, Archive.validateSeparator, hsep, if_true, bind, Except.bind]
    exact h1
  · simp only [Archive.loadString, Archive.validateSeparator, hsep, if_true, bind, Except.bind, h2, Archive.ofOutcome]
    congr 1
    apply List.map_congr_left
    intro row hrow
    simp only [rowByKey, List.map_map]
    have : (reqCell (some keys) row ∘ Req.lit) = lookupCell (some keys) row := by funext k; rfl
    rw [this]
    exact lookup_self keys hn row (hw.2 row hrow)

/-- separators outside the allowed set are refused by the archive -/
theorem bad_separator_refused (sep : Nat) (h : sep ∉ BSVerif.Generated.Csv.allowedSeparators) (objs : List (List Writer.KV))
    (keys : List Field) (txt : List Nat) :
    Archive.saveString sep objs = .error .invalidOptions ∧ Archive.loadString sep keys txt = .error .invalidOptions := by
  simp [Archive.saveString, Archive.loadString, Archive.validateSeparator, h, bind, Except.bind]

/-! ### recorded finding `csv-empty-array-unloadable` -/

/-- an empty array is saved as the empty text (no header line) … -/
theorem save_empty (sep : Nat) (hsep : sep ∈ BSVerif.Generated.Csv.allowedSeparators) :
    Archive.saveString sep [] = .ok [] := by
  simp [Archive.saveString, Archive.validateSeparator, hsep, bind, Except.bind, Writer.saveString, Writer.StringWriter.writeRows]

/-- … which `LoadObject` refuses: the full round-trip statement over tables with 0 rows does not hold -/
theorem load_empty_refused (sep : Nat) (hsep : sep ∈ BSVerif.Generated.Csv.allowedSeparators) (keys : List Field) :
    Archive.loadString sep keys [] = .error .parsing := by
  simp [Archive.loadString, Archive.validateSeparator, hsep, bind, Except.bind, memSession, MemReader.create,
    MemReader.parseNextLine, Archive.ofOutcome]

/-- the round trip of SaveObject + LoadObject over ALL arrays (including the empty one) -/
def ArchiveRoundTripAll : Prop :=
  ∀ sep ∈ BSVerif.Generated.Csv.allowedSeparators, ∀ (keys : List Field) (objs : List (List Field)),
    WellFormed keys objs → keys.Nodup →
    ∃ txt, Archive.saveString sep (kvRows keys objs) = .ok txt ∧ Archive.loadString sep keys txt = .ok (objs.map (·.map .val))

theorem archiveRoundTripAll_refuted : ¬ ArchiveRoundTripAll := by
  intro h
  obtain ⟨txt, h1, h2⟩ := h 44 (by decide) [[120]] [] (by simp [WellFormed]) (by simp)
  rw [show kvRows [[120]] [] = [] from rfl, save_empty 44 (by decide)] at h1
  injection h1 with h1
  subst h1
  rw [load_empty_refused 44 (by decide)] at h2
  cases h2

/-- the partial statement: the excluded inputs are exactly the empty arrays -/
theorem archiveRoundTrip_partial :
    ∀ sep ∈ BSVerif.Generated.Csv.allowedSeparators, ∀ (keys : List Field) (objs : List (List Field)),
      objs ≠ [] → WellFormed keys objs → keys.Nodup →
      ∃ txt, Archive.saveString sep (kvRows keys objs) = .ok txt ∧ Archive.loadString sep keys txt = .ok (objs.map (·.map .val)) := by
  intro sep hsep keys objs hne hw hn
  cases objs with
  | nil => exact absurd rfl hne
  | cons first rest => exact archive_roundtrip sep hsep keys first rest hw hn

end BSVerif.Props.C09
