/-
  C10 — Memory and stream loading are equivalent wherever buffer boundaries fall.
  Part 1: the binary stream reader (this file was Props/C10.lean; the namespace is still `BSVerif.Props.C10`.
  Props/C10.lean now only collects the three parts: C10bin, C10csv, C10mp — C10mp builds on the theorems below).

  PROPERTY THEOREMS ONLY (helpers: BSVerif/BinStream/Lemmas.lean).
  The core is a REFINEMENT: the sliding-cache stream reader `CBinaryStreamReader` behaves, for every
  cache size N > 0, every byte string and every history of operations, exactly like a plain cursor
  `(data, pos)` over the whole byte string — which is what the in-memory readers are. Each
  theorem below says: from any state satisfying the invariant `RInv`, the operation returns what
  the cursor returns, moves the abstract position as the cursor does, and re-establishes `RInv`.
  Because `N`, the data and the state are universally quantified, this covers every alignment of
  every value against the cache boundary.
-/
import BSVerif.BinStream.Lemmas
import BSVerif.BinStream.Oracle

namespace BSVerif.Props.C10
open BSVerif.BinStream

local macro "triv" : term => `(by first | rfl | trivial)

/-- abstraction function: the cursor a reader state stands for -/
def abs (r : Reader) : Cursor := ⟨r.stream.data, r.getPosition⟩

/-- the constructor establishes the invariant at position 0 -/
theorem init_refines (N : Nat) (hN : 0 < N) (data : List Nat) :
    RInv (Reader.mk' N data) ∧ abs (Reader.mk' N data) = ⟨data, 0⟩ ∧ (Reader.mk' N data).N = N := by
  have h0 : RInv0 ⟨N, [], 0, 0, ⟨data, 0, false, false⟩⟩ :=
    ⟨hN, Nat.le_refl _, Nat.zero_le _, Nat.le_refl _, Nat.zero_le _, by simp [slice], rfl, by simp, by simp⟩
  obtain ⟨a1, a2, a3, a4, _, _⟩ := readNextChunk_spec _ h0
  refine ⟨a1, ?_, a4⟩
  unfold abs Reader.mk'
  rw [a2, a3]
  simp [Reader.getPosition, Reader.win]

/-- `IsEnd()` is exact -/
theorem isEnd_refines (r : Reader) (h : RInv r) : r.isEnd = (abs r).isEnd := by
  have hb := h.base
  have hwl := win_length r
  have := hb.startLe; have := hb.posGe; have := hb.posLe
  unfold Reader.isEnd abs Cursor.isEnd Reader.getPosition
  simp only
  by_cases hw : r.win = []
  · have hl : r.win.length = 0 := by simp [hw]
    simp only [hw, List.isEmpty_nil, Bool.true_and, List.length_nil, Nat.sub_zero]
    cases he : r.stream.eof
    · simp
      rcases Nat.lt_or_ge r.streamPos r.stream.data.length with hlt | hge
      · exact hlt
      · have := h.endEof (by omega) (by omega)
        simp [he] at this
    · simp; have := hb.eofEnd he; omega
  · have hp := (win_nonempty_pos r hb hw).1
    unfold Reader.getPosition at hp
    have : r.win.isEmpty = false := by simpa using hw
    simp [this]; omega

/-- `PeekByte()` -/
theorem peekByte_refines (r : Reader) (h : RInv r) :
    r.peekByte.1 = (abs r).peekByte ∧ RInv r.peekByte.2 ∧ abs r.peekByte.2 = abs r ∧ r.peekByte.2.N = r.N := by
  obtain ⟨e1, e2, e3, e4, e5, e6⟩ := ensure_spec r h
  unfold Reader.peekByte
  generalize r.ensure = en at *
  obtain ⟨ok, r1⟩ := en
  simp only at e1 e2 e3 e4 e5 e6 ⊢
  cases ok with
  | true =>
    simp only [if_true]
    have hp := win_nonempty_pos r1 e1.base (e6 rfl)
    refine ⟨?_, e1, by simp [abs, e2, e3], e4⟩
    rw [hp.2, e2, e3]; rfl
  | false =>
    simp only [Bool.false_eq_true, if_false]
    refine ⟨?_, e1, by simp [abs, e2, e3], e4⟩
    have : ¬ r.getPosition < r.stream.data.length := by simpa using e5.symm
    simp [abs, Cursor.peekByte]; omega

/-- `ReadByte()` -/
theorem readByte_refines (r : Reader) (h : RInv r) :
    r.readByte.1 = (abs r).peekByte ∧ RInv r.readByte.2 ∧ abs r.readByte.2 = (abs r).advance 1 ∧ r.readByte.2.N = r.N := by
  obtain ⟨e1, e2, e3, e4, e5, e6⟩ := ensure_spec r h
  unfold Reader.readByte
  generalize r.ensure = en at *
  obtain ⟨ok, r1⟩ := en
  simp only at e1 e2 e3 e4 e5 e6 ⊢
  cases ok with
  | true =>
    simp only [if_true]
    have hw := e6 rfl
    have hp := win_nonempty_pos r1 e1.base hw
    have hl : 1 ≤ r1.win.length := by cases hr : r1.win with
      | nil => exact absurd hr hw
      | cons _ _ => simp
    obtain ⟨a1, a2⟩ := advance_spec r1 e1.base 1 hl
    obtain ⟨f1, f2, f3, f4⟩ := finish_rnc _ a1
    refine ⟨?_, f1, ?_, by rw [f4]; exact e4⟩
    · rw [hp.2, e2, e3]; rfl
    · unfold abs Cursor.advance
      rw [f2, f3, a2, e2]
      simp only [e3]
      have : r.getPosition < r.stream.data.length := by simpa using e5.symm
      congr 1; omega
  | false =>
    simp only [Bool.false_eq_true, if_false]
    have hge : ¬ r.getPosition < r.stream.data.length := by simpa using e5.symm
    have hle := getPosition_le r h.base
    refine ⟨?_, e1, ?_, e4⟩
    · simp [abs, Cursor.peekByte]; omega
    · unfold abs Cursor.advance; simp only [e2, e3]; congr 1; omega

/-- `GotoNextByte()` -/
theorem gotoNextByte_refines (r : Reader) (h : RInv r) :
    RInv r.gotoNextByte ∧ abs r.gotoNextByte = (abs r).advance 1 ∧ r.gotoNextByte.N = r.N := by
  obtain ⟨e1, e2, e3, e4, e5, e6⟩ := ensure_spec r h
  unfold Reader.gotoNextByte
  generalize r.ensure = en at *
  obtain ⟨ok, r1⟩ := en
  simp only at e1 e2 e3 e4 e5 e6 ⊢
  cases ok with
  | true =>
    simp only [if_true]
    have hw := e6 rfl
    have hl : 1 ≤ r1.win.length := by cases hr : r1.win with
      | nil => exact absurd hr hw
      | cons _ _ => simp
    obtain ⟨a1, a2⟩ := advance_spec r1 e1.base 1 hl
    obtain ⟨f1, f2, f3, f4⟩ := finish_rnc _ a1
    refine ⟨f1, ?_, by rw [f4]; exact e4⟩
    unfold abs Cursor.advance
    rw [f2, f3, a2, e2]
    simp only [e3]
    have : r.getPosition < r.stream.data.length := by simpa using e5.symm
    congr 1; omega
  | false =>
    simp only [Bool.false_eq_true, if_false]
    have hge : ¬ r.getPosition < r.stream.data.length := by simpa using e5.symm
    have hle := getPosition_le r h.base
    refine ⟨e1, ?_, e4⟩
    unfold abs Cursor.advance; simp only [e2, e3]; congr 1; omega

/-- a block of `k` buffered bytes is the corresponding block of the byte string -/
theorem take_win (r : Reader) (h : RInv0 r) (k : Nat) (hk : k ≤ r.win.length) :
    r.win.take k = slice r.stream.data r.getPosition k ∧ r.getPosition + k ≤ r.stream.data.length := by
  have hweq := win_eq r h
  have hl := congrArg List.length hweq
  rw [slice_length] at hl
  have hl2 : r.win.length ≤ r.stream.data.length - r.getPosition := Nat.le_trans (Nat.le_of_eq hl) (Nat.min_le_right _ _)
  have hp := getPosition_le r h
  constructor
  · conv => lhs; rw [hweq]
    rw [slice_take, Nat.min_eq_left hk]
  · omega

/-- `ReadSolidBlock(k)`: a contiguous block of at most N bytes, or nothing (and no movement) when
    fewer than `k` bytes remain or `k` exceeds the cache size -/
theorem readSolidBlock_refines (r : Reader) (h : RInv r) (k : Nat) :
    (r.readSolidBlock k).1 = (if k ≤ r.N then (abs r).block k else none) ∧
    RInv (r.readSolidBlock k).2 ∧ (r.readSolidBlock k).2.N = r.N ∧
    abs (r.readSolidBlock k).2 = (if (r.readSolidBlock k).1.isSome then (abs r).advance k else abs r) := by
  unfold Reader.readSolidBlock
  by_cases hkN : k > r.N
  · have : ¬ k ≤ r.N := by omega
    simp [hkN, this, h]
  · have hkN' : k ≤ r.N := by omega
    simp only [hkN, if_false, hkN', if_true]
    -- state after the optional refill
    have key : ∃ (okRead : Bool) (r1 : Reader),
        (if r.win.length < k then
            ((r.readNextChunk.1 && !decide (r.readNextChunk.2.win.length < k)), r.readNextChunk.2)
          else (true, r)) = (okRead, r1) ∧
        RInv r1 ∧ r1.getPosition = r.getPosition ∧ r1.stream.data = r.stream.data ∧ r1.N = r.N ∧
        (okRead = true → k ≤ r1.win.length) ∧ (okRead = false → r.stream.data.length < r.getPosition + k) := by
      by_cases hlt : r.win.length < k
      · simp only [hlt, if_true]
        obtain ⟨a1, a2, a3, a4, a5, a6⟩ := readNextChunk_spec r h.base
        refine ⟨_, _, rfl, a1, a2, a3, a4, ?_, ?_⟩
        · intro ho; simp at ho; omega
        · intro ho
          have hl := congrArg List.length a5
          rw [slice_length] at hl
          have hl' : r.N ≤ r.readNextChunk.2.win.length ∨ r.stream.data.length - r.getPosition ≤ r.readNextChunk.2.win.length := by
            omega
          have hple := getPosition_le r h.base
          rw [a6] at ho
          simp at ho
          by_cases hc : r.win.length < r.readNextChunk.2.win.length
          · have := ho hc; omega
          · omega
      · simp only [hlt, if_false]
        refine ⟨true, r, rfl, h, rfl, rfl, rfl, fun _ => by omega, fun hf => by simp at hf⟩
    obtain ⟨okRead, r1, hk1, i1, i2, i3, i4, i5, i6⟩ := key
    rw [hk1]
    simp only
    cases okRead with
    | false =>
      have := i6 rfl
      simp only [Bool.not_false, if_true]
      refine ⟨?_, i1, i4, ?_⟩
      · have hn : ¬ (r.getPosition + k ≤ r.stream.data.length) := by omega
        simp [abs, Cursor.block, hn]
      · simp [abs, i2, i3]
    | true =>
      simp only [Bool.not_true, Bool.false_eq_true, if_false]
      have hkw := i5 rfl
      obtain ⟨t1, t2⟩ := take_win r1 i1.base k hkw
      obtain ⟨a1, a2⟩ := advance_spec r1 i1.base k hkw
      obtain ⟨f1, f2, f3, f4⟩ := finish_peek _ a1
      refine ⟨?_, f1, by rw [f4]; exact i4, ?_⟩
      · rw [t1, i2, i3]
        simp only [abs, Cursor.block]
        rw [i2, i3] at t2
        simp [t2, slice]
      · simp only [Option.isSome_some, if_true]
        unfold abs Cursor.advance
        rw [f2, f3, a2]
        simp only [i2, i3]
        rw [i2, i3] at t2
        congr 1; omega

/-- `ReadByChunks(remaining)`: at the end nothing; otherwise a non-empty (when `remaining > 0`) prefix of
    the rest of the byte string, not longer than `remaining`, and the cursor moves behind it -/
theorem readByChunks_refines (r : Reader) (h : RInv r) (rem : Nat) :
    RInv (r.readByChunks rem).2 ∧ (r.readByChunks rem).2.N = r.N ∧
    (match (r.readByChunks rem).1 with
     | none => (abs r).isEnd = true ∧ abs (r.readByChunks rem).2 = abs r
     | some b => (abs r).isEnd = false ∧ b = slice r.stream.data r.getPosition b.length ∧ b.length ≤ rem ∧
                 (0 < rem → 0 < b.length) ∧ abs (r.readByChunks rem).2 = (abs r).advance b.length) := by
  obtain ⟨e1, e2, e3, e4, e5, e6⟩ := ensure_spec r h
  unfold Reader.readByChunks
  generalize r.ensure = en at *
  obtain ⟨ok, r1⟩ := en
  simp only at e1 e2 e3 e4 e5 e6 ⊢
  cases ok with
  | false =>
    simp only [Bool.false_eq_true, if_false]
    have hge : ¬ r.getPosition < r.stream.data.length := by simpa using e5.symm
    refine ⟨e1, e4, ?_, by simp [abs, e2, e3]⟩
    simp [abs, Cursor.isEnd]; omega
  | true =>
    simp only [if_true]
    have hlt : r.getPosition < r.stream.data.length := by simpa using e5.symm
    have hw := e6 rfl
    have hl : 0 < r1.win.length := by cases hr : r1.win with
      | nil => exact absurd hr hw
      | cons _ _ => simp
    have hk : min r1.win.length rem ≤ r1.win.length := Nat.min_le_left _ _
    obtain ⟨t1, t2⟩ := take_win r1 e1.base _ hk
    obtain ⟨a1, a2⟩ := advance_spec r1 e1.base _ hk
    obtain ⟨f1, f2, f3, f4⟩ := finish_peek _ a1
    have hlen : (List.take (min r1.win.length rem) r1.win).length = min r1.win.length rem := by
      simp [List.length_take]
    refine ⟨f1, by rw [f4]; exact e4, ?_, ?_, ?_, ?_, ?_⟩
    · simp [abs, Cursor.isEnd]; omega
    · rw [hlen, t1, e2, e3]
    · rw [hlen]; exact Nat.min_le_right _ _
    · intro hr; rw [hlen]; omega
    · unfold abs Cursor.advance
      rw [f2, f3, a2, hlen, e2]
      simp only [e3]
      rw [e2, e3] at t2
      congr 1; omega

/-- `SetPosition(q)` for a position inside the byte string: always succeeds — whether `q` lies in the
    cached chunk, ahead of it, or BEHIND it after the end of the stream was reached — and moves the
    cursor exactly to `q`. Beyond the end it fails. -/
theorem setPosition_refines (r : Reader) (h : RInv r) (q : Nat) :
    (r.setPosition q).1 = decide (q ≤ r.stream.data.length) ∧
    (q ≤ r.stream.data.length →
      RInv (r.setPosition q).2 ∧ abs (r.setPosition q).2 = ⟨r.stream.data, q⟩ ∧ (r.setPosition q).2.N = r.N) := by
  have hb := h.base
  have hsl := hb.startLe; have hpg := hb.posGe; have hpl := hb.posLe; have hbl := hb.bufLe
  unfold Reader.setPosition
  by_cases hin : q + r.buf.length ≥ r.streamPos ∧ q < r.streamPos
  · simp only [hin, and_self, if_true]
    refine ⟨by simp; omega, fun _ => ⟨⟨⟨hb.nPos, by simp; omega, hb.bufLe, hb.posGe, hb.posLe, hb.bufEq, hb.spos, hb.eofEnd, hb.failEof⟩, ?_⟩, ?_, triv⟩⟩
    · intro hs; simp only at hs; omega
    · unfold abs Reader.getPosition
      simp only [win_length]
      congr 1; omega
  · simp only [hin, if_false]
    by_cases hq : q = r.streamPos
    · subst hq
      simp only [ne_eq, not_true_eq_false, if_false, if_true, true_or]
      have h0 : RInv0 { r with streamPos := r.streamPos, buf := [], startOff := 0, stream := r.stream } :=
        ⟨hb.nPos, Nat.le_refl _, Nat.zero_le _, Nat.zero_le _, hb.posLe, by simp [slice], hb.spos, hb.eofEnd, hb.failEof⟩
      obtain ⟨a1, a2, a3, a4, _, _⟩ := readNextChunk_spec _ h0
      refine ⟨by simp; omega, fun _ => ⟨a1, ?_, a4⟩⟩
      unfold abs
      rw [a2, a3]
      simp [Reader.getPosition, Reader.win]
    · simp only [ne_eq, hq, not_false_eq_true, if_true, if_false, false_or]
      by_cases hle : q ≤ r.stream.data.length
      · have hs : (r.stream.clear.seekg q) = ⟨r.stream.data, q, false, false⟩ := by
          unfold Stream.clear Stream.seekg
          have : ¬ q > r.stream.data.length := by omega
          simp [this]
        rw [hs]
        simp only [Bool.not_false, if_true]
        have h0 : RInv0 ⟨r.N, [], 0, q, ⟨r.stream.data, q, false, false⟩⟩ :=
          ⟨hb.nPos, Nat.le_refl _, Nat.zero_le _, Nat.zero_le _, hle, by simp [slice], rfl, by simp, by simp⟩
        obtain ⟨a1, a2, a3, a4, _, _⟩ := readNextChunk_spec _ h0
        refine ⟨by simp [hle], fun _ => ⟨a1, ?_, a4⟩⟩
        unfold abs
        rw [a2, a3]
        simp [Reader.getPosition, Reader.win]
      · have hs : (r.stream.clear.seekg q).fail = true := by
          unfold Stream.clear Stream.seekg
          have : q > r.stream.data.length := by omega
          simp [this]
        simp only [hs, Bool.not_true, Bool.false_eq_true, if_false]
        exact ⟨by simp [hle], fun hc => absurd hc hle⟩

/-! #### every history -/

open BSVerif.BinStream.Oracle in
/-- **C10 core, every operation history**: starting from the constructor (any N > 0, any byte string),
    after ANY sequence of operations whose `SetPosition` targets lie inside the byte string, the reader
    still satisfies the invariant and still stands for a cursor over the SAME byte string — so every
    further operation again answers as the in-memory cursor does (theorems above). -/
theorem history_refines (ops : List Op) :
    ∀ (r : Reader), RInv r → (∀ p, Op.set p ∈ ops → p ≤ r.stream.data.length) →
    RInv (ops.foldl (fun r op => (stepModel r op).2) r) ∧
    (ops.foldl (fun r op => (stepModel r op).2) r).stream.data = r.stream.data ∧
    (ops.foldl (fun r op => (stepModel r op).2) r).N = r.N := by
  induction ops with
  | nil => intro r h _; exact ⟨h, rfl, rfl⟩
  | cons op ops ih =>
    intro r h hset
    simp only [List.foldl_cons]
    have step : RInv (stepModel r op).2 ∧ (stepModel r op).2.stream.data = r.stream.data ∧ (stepModel r op).2.N = r.N := by
      cases op <;> simp only [stepModel]
      all_goals first | exact ⟨h, trivial, trivial⟩ | skip
      case peek =>
        obtain ⟨_, a, b, c⟩ := peekByte_refines r h
        exact ⟨a, by have := congrArg Cursor.data b; simpa [abs] using this, c⟩
      case next =>
        obtain ⟨a, b, c⟩ := gotoNextByte_refines r h
        exact ⟨a, by have := congrArg Cursor.data b; simpa [abs, Cursor.advance] using this, c⟩
      case rb =>
        obtain ⟨_, a, b, c⟩ := readByte_refines r h
        exact ⟨a, by have := congrArg Cursor.data b; simpa [abs, Cursor.advance] using this, c⟩
      case solid k =>
        obtain ⟨_, a, c, b⟩ := readSolidBlock_refines r h k
        refine ⟨a, ?_, c⟩
        have := congrArg Cursor.data b
        split at this <;> simpa [abs, Cursor.advance] using this
      case chunks k =>
        obtain ⟨a, c, b⟩ := readByChunks_refines r h k
        refine ⟨a, ?_, c⟩
        split at b
        · have := congrArg Cursor.data b.2; simpa [abs] using this
        · have := congrArg Cursor.data b.2.2.2.2; simpa [abs, Cursor.advance] using this
      case set p =>
        obtain ⟨_, b⟩ := setPosition_refines r h p
        obtain ⟨a, b, c⟩ := b (hset p (by simp))
        exact ⟨a, by have := congrArg Cursor.data b; simpa [abs] using this, c⟩
    obtain ⟨s1, s2, s3⟩ := step
    obtain ⟨i1, i2, i3⟩ := ih _ s1 (fun p hp => by rw [s2]; exact hset p (by simp [hp]))
    exact ⟨i1, by rw [i2, s2], by rw [i3, s3]⟩

/-! #### non-vacuity: a state in the middle of a multi-chunk stream satisfies the invariant -/

example : RInv (Reader.mk' 4 [1, 2, 3, 4, 5, 6, 7]) := (init_refines 4 (by decide) _).1
example : ((Reader.mk' 4 [1, 2, 3, 4, 5, 6, 7]).readSolidBlock 3).1 = some [1, 2, 3] := by decide
example : (((Reader.mk' 4 [1, 2, 3, 4, 5, 6, 7]).readSolidBlock 3).2.readSolidBlock 3).1 = some [4, 5, 6] := by decide

end BSVerif.Props.C10
