/-
  C18 — Loading into a populated target gives the same result as into a fresh one.

  PROPERTY THEOREMS ONLY (helpers: BSVerif/Cont/Lemmas.lean). Quantifiers: ALL prior contents, ALL
  estimated sizes (0 = archive reports none, exact, too small, too large), ALL item lists (unbounded),
  ALL element loaders (`Loader`: scalars, strings, nested containers, classes).

  The unrestricted statement is FALSE for the code as it is: an element whose `Serialize` returns false
  (value of another kind skipped by policy, nil, absent) inside a REUSED slot keeps the slot's old value.
  `container_full_refuted` is the witness, `container_partial` the theorem with the exact, decidable
  exclusion: "every item that meets a slot of the prior content is loadable".
-/
import BSVerif.Cont.Lemmas

namespace BSVerif.Props.C18
open BSVerif.Cont

variable {ι α : Type}

/-! ### sequence containers through SerializeContainer (vector, deque, list, queue, stack, priority_queue) -/

/-- **General form.** If no item's result depends on the previous value of its target, the loaded
    container does not depend on the prior content — for every estimated size. -/
theorem container_general (L : Loader ι α) (prior : List α) (est : Nat) (items : List ι)
    (h : ∀ it ∈ items, PriorIndep L it) :
    serializeContainer L prior est items = serializeContainer L [] est items := by
  rw [serializeContainer_spec, serializeContainer_spec]
  exact specLoad_congr L _ _ items fun i hi => Or.inl (h _ (List.getElem_mem hi))

/-- **C18 for scalar elements**: when every element of the document is loadable, a populated target ends
    up exactly like a fresh one. -/
theorem container_fresh_eq (d : α) (prior : List α) (est : Nat) (items : List (Option α))
    (h : ∀ it ∈ items, it.isSome = true) :
    serializeContainer (scalar d) prior est items = serializeContainer (scalar d) [] est items :=
  container_general _ prior est items fun it hit => scalar_priorIndep d it (h it hit)

/-- … and that result is the document's values: nothing loaded is lost, nothing stale survives. -/
theorem container_result (d : α) (prior : List α) (est : Nat) (items : List (Option α))
    (h : ∀ it ∈ items, it.isSome = true) :
    serializeContainer (scalar d) prior est items = items.map (·.getD d) := by
  rw [serializeContainer_spec, specLoad_eq_mapIdx, List.mapIdx_eq_iff]
  intro i
  rw [List.getElem?_map]
  cases hi : items[i]? with
  | none => rfl
  | some it =>
    have : it.isSome = true := h it (List.mem_of_getElem? hi)
    cases it with
    | none => simp at this
    | some v => rfl

/-- the documents excluded from C18: an unloadable item at a position the prior content reaches -/
def NoSkipInReusedSlot (prior : List α) (items : List (Option α)) : Bool :=
  (items.take prior.length).all (·.isSome)

/-- **C18, partial form** (exact exclusion): loadable items wherever a prior element is reused. -/
theorem container_partial (d : α) (prior : List α) (est : Nat) (items : List (Option α))
    (h : NoSkipInReusedSlot prior items = true) :
    serializeContainer (scalar d) prior est items = serializeContainer (scalar d) [] est items := by
  rw [serializeContainer_spec, serializeContainer_spec]
  apply specLoad_congr
  intro i hi
  by_cases hp : i < prior.length
  · left
    apply scalar_priorIndep
    simp only [NoSkipInReusedSlot, List.all_eq_true] at h
    apply h
    rw [List.mem_iff_getElem]
    exact ⟨i, by simp; omega, by simp⟩
  · right
    by_cases he : est = 0
    · simp only [he, ne_eq, not_true_eq_false, if_false]
      rw [List.getElem?_eq_none (by omega)]
      simp
    · simp only [ne_eq, he, not_false_eq_true, if_true]
      by_cases hie : i < est
      · rw [resize_getElem? _ _ _ _ hie, resize_getElem? _ _ _ _ hie, List.getElem?_eq_none (by omega)]
        simp
      · rw [List.getElem?_eq_none (by simp; omega), List.getElem?_eq_none (by simp; omega)]

/-- the full statement of C18 for sequence containers -/
def ContainerFull : Prop :=
  ∀ (prior : List Int) (est : Nat) (items : List (Option Int)),
    serializeContainer (scalar 0) prior est items = serializeContainer (scalar 0) [] est items

/-- **Refutation**: `[901]` loaded from a one-element array whose element is not loadable (e.g. `["x"]`
    into vector<int64> under MismatchedTypesPolicy::Skip) keeps 901; a fresh target gets 0.
    Replayed on the real code: `cont.load vector - 901 a1,s78`. -/
theorem container_full_refuted : ¬ ContainerFull := by
  intro h
  have := h [901] 1 [none]
  revert this
  decide

/-- **The loops meet the data model** of the Spec when the estimate is exact (MsgPack, JSON, XML) or absent
    (CSV): element i is the item loaded into the prior element i if there was one, else into a
    value-initialised element; the size is the number of items. -/
theorem container_meets_data_model (L : Loader ι α) (prior : List α) (est : Nat) (items : List ι)
    (hest : est = 0 ∨ est = items.length) :
    serializeContainer L prior est items = items.mapIdx fun i it => (L.load it (prior[i]?.getD L.dflt)).2 := by
  rw [serializeContainer_spec, specLoad_eq_mapIdx, List.mapIdx_eq_mapIdx_iff]
  intro i hi
  by_cases he : est = 0
  · simp [he]
  · have : est = items.length := by omega
    simp only [ne_eq, he, not_false_eq_true, if_true]
    rw [resize_getElem? _ _ _ _ (by omega)]

/-! ### std::forward_list -/

/-- the forward_list overload (seed element, `emplace_after(LastIt)`) never runs into
    `emplace_after(end())` and computes what the generic container loader computes -/
theorem forward_list_eq_container (L : Loader ι α) (prior : List α) (est : Nat) (items : List ι) :
    serializeForwardList L prior est items = some (serializeContainer L prior est items) := by
  rw [serializeForwardList_spec, serializeContainer_spec]
  congr 1
  by_cases he : est = 0
  · simp only [he, ne_eq, not_true_eq_false, if_false]
    cases prior with
    | nil =>
      simp only [List.isEmpty_nil, if_true]
      apply specLoad_congr
      intro i _
      right
      cases i <;> simp [resize]
    | cons => simp
  · simp [he]

theorem forward_list_fresh_eq (d : α) (prior : List α) (est : Nat) (items : List (Option α))
    (h : NoSkipInReusedSlot prior items = true) :
    serializeForwardList (scalar d) prior est items = serializeForwardList (scalar d) [] est items := by
  rw [forward_list_eq_container, forward_list_eq_container, container_partial d prior est items h]

/-! ### vector<bool>, bitset, fixed arrays, valarray -/

/-- vector<bool> never shows the prior content (every element is assigned the carried `value`) — and it
    is the list of carried values: an unloadable element repeats the previous element's value -/
theorem vector_bool_fresh_eq (prior : List Bool) (est : Nat) (items : List (Option Bool)) :
    serializeVectorBool prior est items = serializeVectorBool [] est items ∧
    serializeVectorBool prior est items = runBool false items := by
  rw [serializeVectorBool_spec, serializeVectorBool_spec]
  exact ⟨rfl, rfl⟩

/-- bitset<N>: independent of the prior bits, including the OutOfRange outcome for short documents -/
theorem bitset_fresh_eq (prior prior' : List Bool) (items : List (Option Bool)) (h : prior.length = prior'.length) :
    serializeBitset prior items = serializeBitset prior' items :=
  bitsetLoop_congr false prior prior' items h

/-- std::array / C array of the same size: equal results when every element is loadable -/
theorem fixed_array_fresh_eq (d : α) (prior prior' : List α) (items : List (Option α)) (hl : prior.length = prior'.length)
    (h : ∀ it ∈ items, it.isSome = true) :
    serializeFixedArray (scalar d) prior items = serializeFixedArray (scalar d) prior' items := by
  rw [serializeFixedArray_spec, serializeFixedArray_spec, hl]
  split
  · congr 1
    exact specLoad_congr _ _ _ items fun i hi => Or.inl (scalar_priorIndep d _ (h _ (List.getElem_mem hi)))
  · rfl

/-- a document with another number of elements than the fixed-size target is rejected -/
theorem fixed_array_size_mismatch (L : Loader ι α) (prior : List α) (items : List ι) (h : prior.length ≠ items.length) :
    serializeFixedArray L prior items = .error .outOfRange := by
  rw [serializeFixedArray_spec]; simp [h]

/-- valarray is loaded through a temporary vector: never depends on the prior content -/
theorem valarray_fresh_eq (L : Loader ι α) (prior : List α) (est : Nat) (items : List ι) :
    serializeValarray L prior est items = serializeValarray L [] est items := rfl

/-! ### sets, multimaps: cleared first -/

theorem set_fresh_eq [DecidableEq α] (L : Loader ι α) (u : Bool) (prior : List α) (items : List ι) :
    serializeSet L u prior items = serializeSet L u [] items := rfl

/-- the members are exactly the values the items load into a value-initialised element -/
theorem set_members [DecidableEq α] (L : Loader ι α) (u : Bool) (prior : List α) (items : List ι) (x : α) :
    x ∈ serializeSet L u prior items ↔ ∃ it ∈ items, (L.load it L.dflt).2 = x := by
  unfold serializeSet
  rw [foldl_setInsert_mem u (fun it => (L.load it L.dflt).2) items [] x]
  simp

theorem multimap_fresh_eq (L : Loader ι α) (prior : List (Int × α)) (items : List (Option (Option Int × ι))) :
    serializeMultiMap L prior items = serializeMultiMap L [] items := rfl

/-! ### maps and the three load modes -/

theorem clean_fresh_eq (L : Loader ι α) (prior : MapOf α) (doc : List (Option Int × ι)) :
    serializeMap L .clean prior doc = serializeMap L .clean [] doc := rfl

/-- OnlyExistKeys never adds (nor removes) a key -/
theorem only_exist_never_adds (L : Loader ι α) (prior : MapOf α) (doc : List (Option Int × ι)) :
    keys (serializeMap L .onlyExist prior doc) = keys prior := by
  unfold serializeMap
  simp [keys_foldl_onlyExist]

/-- UpdateKeys never removes a key -/
theorem update_never_removes (L : Loader ι α) (prior : MapOf α) (doc : List (Option Int × ι)) (k : Int)
    (h : k ∈ keys prior) : k ∈ keys (serializeMap L .update prior doc) := by
  unfold serializeMap
  simp only [reduceCtorEq, if_false]
  exact keys_foldl_update_mono L doc prior k h

/-- … and adds every convertible key of the document -/
theorem update_adds_document_keys (L : Loader ι α) (prior : MapOf α) (doc : List (Option Int × ι)) (k : Int) (it : ι)
    (h : (some k, it) ∈ doc) : k ∈ keys (serializeMap L .update prior doc) := by
  unfold serializeMap
  simp only [reduceCtorEq, if_false]
  exact keys_foldl_update_doc L doc prior k it h

/-! ### optional, unique_ptr, shared_ptr -/

theorem optional_fresh_eq (L : Loader ι α) (it : ι) (prior : Option α) (h : PriorIndep L it) :
    serializeOptional L it prior = serializeOptional L it none := by
  simp only [serializeOptional, h (prior.getD L.dflt) L.dflt, Option.getD_none]

/-- for scalars (and strings) NO document is excluded: a failed load resets the optional/pointer -/
theorem optional_scalar_independent (d : α) (it : Option α) (prior : Option α) :
    serializeOptional (scalar d) it prior = serializeOptional (scalar d) it none := by
  cases it <;> rfl

/-! ### nesting -/

/-- a nested array whose elements are all prior-independent is itself prior-independent -/
theorem vecLoader_priorIndep (L : Loader ι α) (est : Nat) (items : List ι) (h : ∀ it ∈ items, PriorIndep L it) :
    PriorIndep (vecLoader L) (some (est, items)) := by
  intro a b
  simp only [vecLoader]
  rw [container_general L a est items h, container_general L b est items h]

/-- **C18 for vector<vector<T>>** (any depth by iterating `vecLoader_priorIndep`): if every outer element
    is an array of loadable values, populated = fresh -/
theorem nested_fresh_eq (d : α) (prior : List (List α)) (est : Nat) (items : List (ArrItem (Option α)))
    (h : ∀ it ∈ items, ∃ e its, it = some (e, its) ∧ ∀ x ∈ its, x.isSome = true) :
    loadObject (vecLoader (vecLoader (scalar d))) (some (est, items)) prior
      = loadObject (vecLoader (vecLoader (scalar d))) (some (est, items)) [] := by
  simp only [loadObject, vecLoader]
  apply container_general
  intro it hit
  obtain ⟨e, its, rfl, hx⟩ := h it hit
  exact vecLoader_priorIndep _ e its fun x hxm => scalar_priorIndep d x (hx x hxm)

def NestedFull : Prop :=
  ∀ (prior : List (List Int)) (est : Nat) (items : List (ArrItem (Option Int))),
    loadObject (vecLoader (vecLoader (scalar 0))) (some (est, items)) prior
      = loadObject (vecLoader (vecLoader (scalar 0))) (some (est, items)) []

/-- an inner element that is not loadable keeps the stale inner value: `[[901]]` ← `[[nil]]`
    (`cont.load vector_of_vector - 901 a1,a1,n`) -/
theorem nested_full_refuted : ¬ NestedFull := by
  intro h
  have := h [[901]] 1 [some (1, [none])]
  revert this
  decide

/-! ### non-vacuity -/

example : (∀ it ∈ [some (1 : Int), some 2], it.isSome = true) ∧
    serializeContainer (scalar 0) [901, 902, 903] 2 [some 1, some 2] = [1, 2] := by decide

example : NoSkipInReusedSlot [901] [some (1 : Int), none, some 3] = true ∧
    serializeContainer (scalar 0) [901] 3 [some 1, none, some 3] = [1, 0, 3] := by decide

example : serializeForwardList (scalar (0 : Int)) [] 0 [some 1, none] = some [1, 0] := by decide

example : keys (serializeMap (scalar (0 : Int)) .onlyExist [(1, 901), (2, 902)] [(some 2, some 20), (some 3, some 30)]) = [1, 2] := by
  decide

example : serializeMap (scalar (0 : Int)) .update [(1, 901), (2, 902)] [(some 2, some 20), (some 3, none)] = [(1, 901), (2, 20), (3, 0)] := by
  decide

example : serializeBitset [true, true] [some false, none] = .ok [false, false] ∧ serializeBitset [true, true] [some false] = .error .outOfRange :=
  ⟨rfl, rfl⟩

end BSVerif.Props.C18
