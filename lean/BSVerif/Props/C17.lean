/-
  C17 — Validation reports exactly the failing fields and rules, after a full load.

  PROPERTY THEOREMS ONLY (helpers: BSVerif/Valid/Lemmas.lean). Quantifiers: ALL classes (any number of
  fields of the modelled kinds — int64, string, optional, vector, nested class, vector of classes, map of
  classes — each with ANY list of validators in any order, built-in or custom), ALL documents, ALL values of
  maxValidationErrors. `Spec.failing cls doc` is the declarative specification: the failing fields in load
  order, each with the messages of its failing validators in declaration order.

  The character-level semantics of Email and PhoneNumber are in Props/C17Text.lean (imported here, so that
  `lake build BSVerif.Props.C17` checks them too).

  Distinct paths (`Nodup`) is the precondition of "exactly the failing fields": two fields with the same key in
  one object would share one entry of the exception's map (messages appended) — excluded, decidable.
-/
import BSVerif.Valid.Lemmas
import BSVerif.Generated.ValidConsts
import BSVerif.Props.C17Text      -- the text validators Email / PhoneNumber (model, Spec, theorems `BSVerif.Props.C17Text.*`)

namespace BSVerif.Props.C17
open BSVerif.Scope BSVerif.Scope.Spec BSVerif.Valid

def thrown : Outcome → Bool
  | .validation _ _ => true
  | .ok _ => false

/-- the trace of the model — what the validator calls report, in order — is the specification's list -/
theorem trace_eq_failing (cls : List Field) (es : List (Val × Val)) :
    (loadRoot cls es).2 = flattenFailing (Spec.failing cls (.map es)) := (loadRoot_spec cls es).2

theorem failing_msgs_ne_nil (cls : List Field) (doc : Val) : ∀ e ∈ Spec.failing cls doc, e.2 ≠ [] := by
  intro e he
  simp only [Spec.failing, List.mem_filterMap] at he
  obtain ⟨o, _, ho⟩ := he
  split at ho
  · simp at ho
  · rename_i h
    simp only [Option.some.injEq] at ho
    rw [← ho]
    simpa using h

theorem flatten_eq_nil (l : List (String × List String)) (h : ∀ e ∈ l, e.2 ≠ []) : flattenFailing l = [] ↔ l = [] := by
  cases l with
  | nil => simp [flattenFailing]
  | cons e l =>
    have := h e (by simp)
    cases hm : e.2 with
    | nil => exact absurd hm this
    | cons x xs => simp [flattenFailing, hm]

/-- **C17 (iff)**: for every cap, a load throws ValidationException exactly when some validator of some
    visited field fails. A root value that is not an object visits no field. -/
theorem throws_iff (cap : Nat) (cls : List Field) (doc : Val) :
    thrown (loadClass cap cls doc) = true ↔ Spec.failing cls doc ≠ [] := by
  cases doc with
  | sc t => simp [loadClass, thrown, Spec.failing, Spec.occs]
  | arr l => simp [loadClass, thrown, Spec.failing, Spec.occs]
  | map es =>
    have htr := trace_eq_failing cls es
    have hne := failing_msgs_ne_nil cls (.map es)
    simp only [loadClass]
    cases hrun : runEvents cap [] (loadRoot cls es).2 with
    | error m =>
      simp only [thrown, true_iff]
      intro hnil
      rw [htr, hnil] at hrun
      simp [flattenFailing, runEvents] at hrun
    | ok m =>
      by_cases hf : Spec.failing cls (.map es) = []
      · rw [htr, hf] at hrun
        simp only [flattenFailing, List.flatMap_nil, runEvents, Except.ok.injEq] at hrun
        simp [← hrun, thrown, hf]
      · have hev : (loadRoot cls es).2 ≠ [] := by
          rw [htr]; intro h; exact hf ((flatten_eq_nil _ hne).mp h)
        have := runEvents_ok_ne_nil cap [] _ m hrun (Or.inr hev)
        have hem : m.isEmpty = false := by cases m <;> simp_all
        simp [hem, thrown, hf]

/-- **C17 (exactly, cap = 0)**: the load runs to its end; the exception lists exactly the failing fields with
    exactly their messages, and the object holds the document's values (passing fields are loaded). -/
theorem reports_exact (cls : List Field) (es : List (Val × Val))
    (hnd : ((Spec.failing cls (.map es)).map (·.1)).Nodup) :
    loadClass 0 cls (.map es) =
      if (Spec.failing cls (.map es)).isEmpty then .ok (Spec.expectedState cls (.map es))
      else .validation (Spec.failing cls (.map es)) (some (Spec.expectedState cls (.map es))) := by
  have h := run_failing 0 (Spec.failing cls (.map es)) [] (by simpa [paths] using hnd) (failing_msgs_ne_nil cls _) (Or.inl rfl)
  simp only [true_or, if_true, List.nil_append] at h
  simp only [loadClass, (loadRoot_spec cls es).2, (loadRoot_spec cls es).1, h]

/-- **C17 (cap not reached)**: with maxValidationErrors = n and fewer than n failing fields the report is
    still exact and complete. -/
theorem reports_capped_below (n : Nat) (cls : List Field) (es : List (Val × Val))
    (hnd : ((Spec.failing cls (.map es)).map (·.1)).Nodup) (hlt : (Spec.failing cls (.map es)).length < n) :
    loadClass n cls (.map es) =
      if (Spec.failing cls (.map es)).isEmpty then .ok (Spec.expectedState cls (.map es))
      else .validation (Spec.failing cls (.map es)) (some (Spec.expectedState cls (.map es))) := by
  have h := run_failing n (Spec.failing cls (.map es)) [] (by simpa [paths] using hnd) (failing_msgs_ne_nil cls _)
    (Or.inr (by simp; omega))
  have hc : n = 0 ∨ ([] : ErrMap).length + (Spec.failing cls (.map es)).length < n := Or.inr (by simpa using hlt)
  simp only [hc, if_true, List.nil_append] at h
  simp only [loadClass, (loadRoot_spec cls es).2, (loadRoot_spec cls es).1, h]

/-- **C17 (capped)**: with maxValidationErrors = n > 0 and at least n failing fields, the exception is thrown
    as soon as the n-th failing field is entered into the map: it lists the first n failing fields in load
    order, the first n−1 with all their messages and the n-th with its FIRST message only (a non-empty
    prefix); the load is abandoned at that point. -/
theorem reports_capped (n : Nat) (hn : 0 < n) (cls : List Field) (es : List (Val × Val))
    (hnd : ((Spec.failing cls (.map es)).map (·.1)).Nodup) (hge : n ≤ (Spec.failing cls (.map es)).length) :
    ∃ p msg rest, (Spec.failing cls (.map es))[n - 1]? = some (p, msg :: rest) ∧
      loadClass n cls (.map es) = .validation ((Spec.failing cls (.map es)).take (n - 1) ++ [(p, [msg])]) none := by
  have h := run_failing n (Spec.failing cls (.map es)) [] (by simpa [paths] using hnd) (failing_msgs_ne_nil cls _)
    (Or.inr (by simpa using hn))
  have hc : ¬ (n = 0 ∨ ([] : ErrMap).length + (Spec.failing cls (.map es)).length < n) := by simp; omega
  rw [if_neg hc] at h
  simp only [List.nil_append, List.length_nil, Nat.sub_zero] at h
  obtain ⟨p, msg, rest, h1, h2⟩ := h
  exact ⟨p, msg, rest, h1, by simp only [loadClass, (loadRoot_spec cls es).2, h2]⟩

/-- **passing fields are loaded**: whenever the load ran to its end — with or without a ValidationException, for
    any cap — the object holds exactly the document's values, whatever validators are attached. -/
theorem passing_fields_loaded (cap : Nat) (cls : List Field) (es : List (Val × Val)) :
    match loadClass cap cls (.map es) with
    | .ok st => st = Spec.expectedState cls (.map es)
    | .validation _ (some st) => st = Spec.expectedState cls (.map es)
    | .validation _ none => True := by
  simp only [loadClass]
  cases runEvents cap [] (loadRoot cls es).2 with
  | error m => trivial
  | ok m =>
    simp only
    split
    · rename_i h
      split at h
      · simp only [Outcome.ok.injEq] at h; rw [← h]; exact (loadRoot_spec cls es).1
      · simp at h
    · rename_i h
      split at h
      · simp at h
      · simp only [Outcome.validation.injEq, Option.some.injEq] at h; rw [← h.2]; exact (loadRoot_spec cls es).1
    · trivial

/-! ### semantics of the built-in validators (of the model of validators.h) -/

/-- Required fails only when the field was not loaded -/
theorem required_semantics (msg : Option String) (seen : Seen) (loaded : Bool) :
    (Validator.required msg).check seen loaded = none ↔ loaded = true := by
  cases loaded <;> simp [Validator.check]

/-- Range is inclusive and passes when the field is absent -/
theorem range_semantics (lo hi : Int) (msg : Option String) (seen : Seen) (loaded : Bool) :
    (Validator.range lo hi msg).check seen loaded = none ↔ (loaded = false ∨ (lo ≤ seen.int ∧ seen.int ≤ hi)) := by
  cases loaded
  · simp [Validator.check]
  · simp only [Validator.check, Bool.not_true, Bool.false_eq_true, if_false, Bool.true_eq_false, false_or]
    by_cases h : seen.int < lo ∨ seen.int > hi
    · simp [h] <;> omega
    · simp [h] <;> omega

theorem minSize_semantics (n : Nat) (msg : Option String) (seen : Seen) (loaded : Bool) :
    (Validator.minSize n msg).check seen loaded = none ↔ (loaded = false ∨ n ≤ seen.size) := by
  cases loaded
  · simp [Validator.check]
  · simp only [Validator.check, Bool.not_true, Bool.false_eq_true, if_false, Bool.true_eq_false, false_or]
    by_cases h : seen.size ≥ n
    · simp [h] <;> omega
    · simp [h] <;> omega

theorem maxSize_semantics (n : Nat) (msg : Option String) (seen : Seen) (loaded : Bool) :
    (Validator.maxSize n msg).check seen loaded = none ↔ (loaded = false ∨ seen.size ≤ n) := by
  cases loaded
  · simp [Validator.check]
  · simp only [Validator.check, Bool.not_true, Bool.false_eq_true, if_false, Bool.true_eq_false, false_or]
    by_cases h : seen.size ≤ n
    · simp [h]
    · simp [h]

/-- the model's validators and the documented semantics agree, for every validator including custom ones -/
theorem check_iff_fails (v : Validator) (seen : Seen) (loaded : Bool) :
    (v.check seen loaded).isSome = Spec.fails v seen loaded := by
  rw [check_eq]
  cases Spec.fails v seen loaded <;> rfl

/-- the default messages are the ones compiled into the library (regenerated by the translator) -/
theorem required_default_message :
    requiredDefault = BSVerif.Generated.Valid.requiredMsg ∧
    (Validator.range 1 10 none).check ⟨11, 0⟩ true = some BSVerif.Generated.Valid.rangeMsg_1_10 ∧
    (Validator.range (-5) 5 none).check ⟨-6, 0⟩ true = some BSVerif.Generated.Valid.rangeMsg_m5_5 ∧
    (Validator.minSize 2 none).check ⟨0, 1⟩ true = some BSVerif.Generated.Valid.minSizeMsg_2 ∧
    (Validator.maxSize 5 none).check ⟨0, 6⟩ true = some BSVerif.Generated.Valid.maxSizeMsg_5 ∧
    BSVerif.Generated.Valid.maxValidationErrorsDefault = 0 := by
  decide

/-! ### non-vacuity -/

def exampleClass : List Field :=
  [⟨"i", .leaf .int, [.required none, .range 1 10 none]⟩, ⟨"s", .leaf .str, [.minSize 2 none, .maxSize 5 none]⟩,
   ⟨"n", .obj [⟨"i", .int, [.required none]⟩], [.required (some "n is required")]⟩]

def exampleDoc : List (Val × Val) :=
  [(.sc (.str [105]), .sc (.int 11)), (.sc (.str [115]), .sc (.str [97])), (.sc (.str [110]), .map [])]

example : Spec.failing exampleClass (.map exampleDoc) =
    [("/i", ["Value must be between 1 and 10"]), ("/s", ["The minimum size of this field should be 2"]),
     ("/n/i", ["This field is required"])] := by decide

example : ((Spec.failing exampleClass (.map exampleDoc)).map (·.1)).Nodup := by decide

example : loadClass 2 exampleClass (.map exampleDoc) =
    .validation [("/i", ["Value must be between 1 and 10"]), ("/s", ["The minimum size of this field should be 2"])] none := by
  decide

end BSVerif.Props.C17
