/-
  C17 — Validation reports exactly the failing fields and rules, after a full load.

  PROPERTY THEOREMS ONLY (helpers: BSVerif/Valid/Lemmas.lean). Quantifiers: ALL classes (any number of
  fields of the modelled kinds — int64, string, optional, vector, REGISTERED ENUM (loaded by name), nested class,
  vector of classes, map of classes — each with ANY list of validators in any order, built-in or custom), ALL
  documents, ALL values of maxValidationErrors. The statements of `throws_iff`, `reports_exact`,
  `reports_capped_below`, `reports_capped`, `passing_fields_loaded` did not change when the enum kind was added to
  `Leaf`: they quantify over every class, so they now speak about classes with enum fields as well (examples at the
  end). `enum_loaded_iff_registered_name` says when an enum field counts as loaded; the `throwError_*` theorems
  carry the property over to MismatchedTypesPolicy::ThrowError (`loadClassT`). `Spec.failing cls doc` is the declarative specification: the failing fields in load
  order, each with the messages of its failing validators in declaration order.

  The character-level semantics of Email and PhoneNumber are in Props/C17Text.lean (imported here, so that
  `lake build BSVerif.Props.C17` checks them too).

  Distinct paths (`Nodup`) is the precondition of "exactly the failing fields": two fields with the same key in
  one object would share one entry of the exception's map (messages appended) — excluded, decidable.
-/
import BSVerif.Valid.Lemmas
import BSVerif.Generated.ValidConsts
import BSVerif.Generated.ValidenumConsts
import BSVerif.Props.C17Text      -- the text validators Email / PhoneNumber (model, Spec, theorems `BSVerif.Props.C17Text.*`)

namespace BSVerif.Props.C17
open BSVerif.Scope BSVerif.Scope.Spec BSVerif.Valid

def thrown : Outcome → Bool
  | .validation _ _ => true
  | .ok _ => false

/-- the trace of the model — what the validator calls report, in order — is the specification's list -/
theorem trace_eq_failing (cls : List Field) (es : List (Val × Val)) :
    (loadRoot cls es).2 = flattenFailing (Spec.failing cls (.map es)) := (loadRoot_spec cls es).2

theorem failing_msgs_ne_nil (cls : List Field) (doc : Val) : ∀ e ∈ Spec.failing cls doc, e.2 ≠ [] := by
  intro e he
  simp only [Spec.failing, List.mem_filterMap] at he
  obtain ⟨o, _, ho⟩ := he
  split at ho
  · simp at ho
  · rename_i h
    simp only [Option.some.injEq] at ho
    rw [← ho]
    simpa using h

theorem flatten_eq_nil (l : List (String × List String)) (h : ∀ e ∈ l, e.2 ≠ []) : flattenFailing l = [] ↔ l = [] := by
  cases l with
  | nil => simp [flattenFailing]
  | cons e l =>
    have := h e (by simp)
    cases hm : e.2 with
    | nil => exact absurd hm this
    | cons x xs => simp [flattenFailing, hm]

/-- **C17 (iff)**: for every cap, a load throws ValidationException exactly when some validator of some
    visited field fails. A root value that is not an object visits no field. -/
theorem throws_iff (cap : Nat) (cls : List Field) (doc : Val) :
    thrown (loadClass cap cls doc) = true ↔ Spec.failing cls doc ≠ [] := by
  cases doc with
  | sc t => simp [loadClass, thrown, Spec.failing, Spec.occs]
  | arr l => simp [loadClass, thrown, Spec.failing, Spec.occs]
  | map es =>
    have htr := trace_eq_failing cls es
    have hne := failing_msgs_ne_nil cls (.map es)
    simp only [loadClass]
    cases hrun : runEvents cap [] (loadRoot cls es).2 with
    | error m =>
      simp only [thrown, true_iff]
      intro hnil
      rw [htr, hnil] at hrun
      simp [flattenFailing, runEvents] at hrun
    | ok m =>
      by_cases hf : Spec.failing cls (.map es) = []
      · rw [htr, hf] at hrun
        simp only [flattenFailing, List.flatMap_nil, runEvents, Except.ok.injEq] at hrun
        simp [← hrun, thrown, hf]
      · have hev : (loadRoot cls es).2 ≠ [] := by
          rw [htr]; intro h; exact hf ((flatten_eq_nil _ hne).mp h)
        have := runEvents_ok_ne_nil cap [] _ m hrun (Or.inr hev)
        have hem : m.isEmpty = false := by cases m <;> simp_all
        simp [hem, thrown, hf]

/-- **C17 (exactly, cap = 0)**: the load runs to its end; the exception lists exactly the failing fields with
    exactly their messages, and the object holds the document's values (passing fields are loaded). -/
theorem reports_exact (cls : List Field) (es : List (Val × Val))
    (hnd : ((Spec.failing cls (.map es)).map (·.1)).Nodup) :
    loadClass 0 cls (.map es) =
      if (Spec.failing cls (.map es)).isEmpty then .ok (Spec.expectedState cls (.map es))
      else .validation (Spec.failing cls (.map es)) (some (Spec.expectedState cls (.map es))) := by
  have h := run_failing 0 (Spec.failing cls (.map es)) [] (by simpa [paths] using hnd) (failing_msgs_ne_nil cls _) (Or.inl rfl)
  simp only [true_or, if_true, List.nil_append] at h
  simp only [loadClass, (loadRoot_spec cls es).2, (loadRoot_spec cls es).1, h]

/-- **C17 (cap not reached)**: with maxValidationErrors = n and fewer than n failing fields the report is
    still exact and complete. -/
theorem reports_capped_below (n : Nat) (cls : List Field) (es : List (Val × Val))
    (hnd : ((Spec.failing cls (.map es)).map (·.1)).Nodup) (hlt : (Spec.failing cls (.map es)).length < n) :
    loadClass n cls (.map es) =
      if (Spec.failing cls (.map es)).isEmpty then .ok (Spec.expectedState cls (.map es))
      else .validation (Spec.failing cls (.map es)) (some (Spec.expectedState cls (.map es))) := by
  have h := run_failing n (Spec.failing cls (.map es)) [] (by simpa [paths] using hnd) (failing_msgs_ne_nil cls _)
    (Or.inr (by simp; omega))
  have hc : n = 0 ∨ ([] : ErrMap).length + (Spec.failing cls (.map es)).length < n := Or.inr (by simpa using hlt)
  simp only [hc, if_true, List.nil_append] at h
  simp only [loadClass, (loadRoot_spec cls es).2, (loadRoot_spec cls es).1, h]

/-- **C17 (capped)**: with maxValidationErrors = n > 0 and at least n failing fields, the exception is thrown
    as soon as the n-th failing field is entered into the map: it lists the first n failing fields in load
    order, the first n−1 with all their messages and the n-th with its FIRST message only (a non-empty
    prefix); the load is abandoned at that point. -/
theorem reports_capped (n : Nat) (hn : 0 < n) (cls : List Field) (es : List (Val × Val))
    (hnd : ((Spec.failing cls (.map es)).map (·.1)).Nodup) (hge : n ≤ (Spec.failing cls (.map es)).length) :
    ∃ p msg rest, (Spec.failing cls (.map es))[n - 1]? = some (p, msg :: rest) ∧
      loadClass n cls (.map es) = .validation ((Spec.failing cls (.map es)).take (n - 1) ++ [(p, [msg])]) none := by
  have h := run_failing n (Spec.failing cls (.map es)) [] (by simpa [paths] using hnd) (failing_msgs_ne_nil cls _)
    (Or.inr (by simpa using hn))
  have hc : ¬ (n = 0 ∨ ([] : ErrMap).length + (Spec.failing cls (.map es)).length < n) := by simp; omega
  rw [if_neg hc] at h
  simp only [List.nil_append, List.length_nil, Nat.sub_zero] at h
  obtain ⟨p, msg, rest, h1, h2⟩ := h
  exact ⟨p, msg, rest, h1, by simp only [loadClass, (loadRoot_spec cls es).2, h2]⟩

/-- **passing fields are loaded**: whenever the load ran to its end — with or without a ValidationException, for
    any cap — the object holds exactly the document's values, whatever validators are attached. -/
theorem passing_fields_loaded (cap : Nat) (cls : List Field) (es : List (Val × Val)) :
    match loadClass cap cls (.map es) with
    | .ok st => st = Spec.expectedState cls (.map es)
    | .validation _ (some st) => st = Spec.expectedState cls (.map es)
    | .validation _ none => True := by
  simp only [loadClass]
  cases runEvents cap [] (loadRoot cls es).2 with
  | error m => trivial
  | ok m =>
    simp only
    split
    · rename_i h
      split at h
      · simp only [Outcome.ok.injEq] at h; rw [← h]; exact (loadRoot_spec cls es).1
      · simp at h
    · rename_i h
      split at h
      · simp at h
      · simp only [Outcome.validation.injEq, Option.some.injEq] at h; rw [← h.2]; exact (loadRoot_spec cls es).1
    · trivial

/-! ### semantics of the built-in validators (of the model of validators.h) -/

/-- Required fails only when the field was not loaded -/
theorem required_semantics (msg : Option String) (seen : Seen) (loaded : Bool) :
    (Validator.required msg).check seen loaded = none ↔ loaded = true := by
  cases loaded <;> simp [Validator.check]

/-- Range is inclusive and passes when the field is absent -/
theorem range_semantics (lo hi : Int) (msg : Option String) (seen : Seen) (loaded : Bool) :
    (Validator.range lo hi msg).check seen loaded = none ↔ (loaded = false ∨ (lo ≤ seen.int ∧ seen.int ≤ hi)) := by
  cases loaded
  · simp [Validator.check]
  · simp only [Validator.check, Bool.not_true, Bool.false_eq_true, if_false, Bool.true_eq_false, false_or]
    by_cases h : seen.int < lo ∨ seen.int > hi
    · simp [h] <;> omega
    · simp [h] <;> omega

theorem minSize_semantics (n : Nat) (msg : Option String) (seen : Seen) (loaded : Bool) :
    (Validator.minSize n msg).check seen loaded = none ↔ (loaded = false ∨ n ≤ seen.size) := by
  cases loaded
  · simp [Validator.check]
  · simp only [Validator.check, Bool.not_true, Bool.false_eq_true, if_false, Bool.true_eq_false, false_or]
    by_cases h : seen.size ≥ n
    · simp [h] <;> omega
    · simp [h] <;> omega

theorem maxSize_semantics (n : Nat) (msg : Option String) (seen : Seen) (loaded : Bool) :
    (Validator.maxSize n msg).check seen loaded = none ↔ (loaded = false ∨ seen.size ≤ n) := by
  cases loaded
  · simp [Validator.check]
  · simp only [Validator.check, Bool.not_true, Bool.false_eq_true, if_false, Bool.true_eq_false, false_or]
    by_cases h : seen.size ≤ n
    · simp [h]
    · simp [h]

/-- the model's validators and the documented semantics agree, for every validator including custom ones -/
theorem check_iff_fails (v : Validator) (seen : Seen) (loaded : Bool) :
    (v.check seen loaded).isSome = Spec.fails v seen loaded := by
  rw [check_eq]
  cases Spec.fails v seen loaded <;> rfl

/-- the default messages are the ones compiled into the library (regenerated by the translator) -/
theorem required_default_message :
    requiredDefault = BSVerif.Generated.Valid.requiredMsg ∧
    (Validator.range 1 10 none).check ⟨11, 0⟩ true = some BSVerif.Generated.Valid.rangeMsg_1_10 ∧
    (Validator.range (-5) 5 none).check ⟨-6, 0⟩ true = some BSVerif.Generated.Valid.rangeMsg_m5_5 ∧
    (Validator.minSize 2 none).check ⟨0, 1⟩ true = some BSVerif.Generated.Valid.minSizeMsg_2 ∧
    (Validator.maxSize 5 none).check ⟨0, 6⟩ true = some BSVerif.Generated.Valid.maxSizeMsg_5 ∧
    BSVerif.Generated.Valid.maxValidationErrorsDefault = 0 := by
  decide

/-! ### enum fields -/

/-- the string names an enumerator: some registered name equals it up to ASCII letter case -/
def IsRegisteredName (s : List Nat) : Prop := ∃ n ∈ enumNames, Spec.foldCase n = Spec.foldCase s

theorem registered_isSome_iff (s : List Nat) : (Spec.registered s).isSome = true ↔ IsRegisteredName s := by
  simp only [Spec.registered, List.findIdx?_isSome, List.any_eq_true, beq_iff_eq, IsRegisteredName]

/-- **an enum field counts as loaded iff the document holds a string that is a registered name** (up to letter
    case): not for any other string, a number, an array, an object, nil or an absent key. -/
theorem enum_loaded_iff_registered_name (v : Option Val) :
    (loadLeaf .enm v).1 = true ↔ ∃ s, v = some (.sc (.str s)) ∧ IsRegisteredName s := by
  rw [(loadLeaf_view .enm v).1]
  cases v with
  | none => simp [Spec.leafView]
  | some v =>
    cases v with
    | arr l => simp [Spec.leafView]
    | map l => simp [Spec.leafView]
    | sc t =>
      cases t <;> simp [Spec.leafView]
      rename_i s
      rw [← registered_isSome_iff]
      cases Spec.registered s <;> simp

/-- the same for the field of a class: the result of `Serialize(archive, key, enumMember)` — what `Required` and every
    custom validator receive as `isLoaded` — is true iff the value under the key is a string naming an enumerator; and
    that is also what the specification's occurrence of the field says -/
theorem enum_field_loaded_iff (key : String) (vs : List Validator) (v : Option Val) :
    ((loadField ⟨key, .leaf .enm, vs⟩ v).1 = true ↔ ∃ s, v = some (.sc (.str s)) ∧ IsRegisteredName s) ∧
    (∃ seen loaded, Spec.fieldOccs ⟨key, .leaf .enm, vs⟩ v = [⟨"/" ++ key, vs, seen, loaded⟩] ∧
      (loaded = true ↔ ∃ s, v = some (.sc (.str s)) ∧ IsRegisteredName s)) := by
  refine ⟨by simpa [loadField] using enum_loaded_iff_registered_name v, ?_⟩
  refine ⟨(Spec.leafView .enm v).2, (Spec.leafView .enm v).1, rfl, ?_⟩
  rw [← (loadLeaf_view .enm v).1]
  exact enum_loaded_iff_registered_name v

/-- a field that is not loaded keeps the member's value (mismatched-and-skipped leaves the target untouched); a
    loaded one holds the enumerator of the FIRST registered name that equals the string up to letter case -/
theorem enum_not_loaded_untouched (v : Option Val) :
    ((loadLeaf .enm v).1 = false → (loadLeaf .enm v).2 = .enm enumInitial) ∧
    (∀ i, loadLeaf .enm v = (true, .enm i) →
      ∃ s n, v = some (.sc (.str s)) ∧ enumNames[i]? = some n ∧ Spec.foldCase n = Spec.foldCase s ∧
        ∀ j < i, ∀ m, enumNames[j]? = some m → Spec.foldCase m ≠ Spec.foldCase s) := by
  cases v with
  | none => simp [loadLeaf]
  | some v =>
    cases v with
    | arr l => simp [loadLeaf]
    | map l => simp [loadLeaf]
    | sc t =>
      cases t <;> simp [loadLeaf]
      rename_i s
      rw [findEnum_registered]
      cases h : Spec.registered s with
      | none => simp
      | some k =>
        simp only [reduceCtorEq, false_imp_iff, Prod.mk.injEq, true_and, LeafVal.enm.injEq, true_and]
        intro i hi
        subst hi
        rw [Spec.registered, List.findIdx?_eq_some_iff_getElem] at h
        obtain ⟨hlt, hp, hmin⟩ := h
        refine ⟨enumNames[k], by simp, by simpa using hp, ?_⟩
        intro j hj m hm
        have hjl : j < enumNames.length := by omega
        have := hmin j hj
        rw [List.getElem?_eq_getElem hjl] at hm
        simp only [Option.some.injEq] at hm
        rw [← hm]
        simpa using this

/-- the code's table scan (size test, `tolower` character loop, first hit) and the specification's "equals a registered
    name up to letter case" choose the same enumerator for every string -/
theorem enum_lookup_eq_spec (s : List Nat) : findEnum enumNames 0 s = Spec.registered s := findEnum_registered s

def upperAscii (s : List Nat) : List Nat := s.map fun c => if 97 ≤ c ∧ c ≤ 122 then c - 32 else c

/-- the probes of harness/dump/dump_validenum.cpp: "", "Lo", "Lowx", "low ", "Lov", "Hig", "Highh", "L\xf6w" -/
def unknownProbes : List (List Nat) :=
  [[], [76, 111], [76, 111, 119, 120], [108, 111, 119, 32], [76, 111, 118], [72, 105, 103], [72, 105, 103, 104, 104], [76, 246, 119]]

/-- the model's table is what the library's registry holds after the harness registration (names, order, values), the
    member's initial value is the harness's, and the compiled conversion answers the probes as the model does: every
    name as registered, upper-cased and lower-cased finds its enumerator; the unknown probes find nothing
    (regenerated by the translator from harness/dump/dump_validenum.cpp) -/
theorem enum_table_matches_code :
    enumNames = BSVerif.Generated.Validenum.toneNames ∧
    BSVerif.Generated.Validenum.toneCount = enumNames.length ∧
    BSVerif.Generated.Validenum.toneValues = List.range enumNames.length ∧
    enumInitial = BSVerif.Generated.Validenum.toneInitial ∧
    enumNames.map (fun n => (findEnum enumNames 0 n).getD enumNames.length) = BSVerif.Generated.Validenum.toneFindExact ∧
    enumNames.map (fun n => (findEnum enumNames 0 (upperAscii n)).getD enumNames.length) = BSVerif.Generated.Validenum.toneFindUpper ∧
    enumNames.map (fun n => (findEnum enumNames 0 (Spec.foldCase n)).getD enumNames.length) = BSVerif.Generated.Validenum.toneFindLower ∧
    unknownProbes.map (fun s => (findEnum enumNames 0 s).getD enumNames.length) = BSVerif.Generated.Validenum.toneFindUnknown := by
  decide

/-! ### MismatchedTypesPolicy::ThrowError -/

/-- **no mismatched value: the ThrowError load is the Skip load** — so `throws_iff`, `reports_exact`,
    `reports_capped_below`, `reports_capped`, `passing_fields_loaded` hold for it word for word; and the fields the
    specification lists "before the first mismatch" are all the visited fields. -/
theorem throwError_without_mismatch (cap : Nat) (cls : List Field) (doc : Val) (h : Spec.hasMismatch cls doc = false) :
    loadClassT cap cls doc = .done (loadClass cap cls doc) ∧ Spec.failingBefore cls doc = Spec.failing cls doc := by
  refine ⟨?_, failingBefore_clean cls doc h⟩
  cases doc with
  | sc t => cases t <;> first | rfl | simp [Spec.hasMismatch, Spec.occsT, Spec.isNil] at h
  | arr l => simp [Spec.hasMismatch, Spec.occsT, Spec.isNil] at h
  | map es =>
    simp only [loadClassT, (rootCut_failingBefore cls es).2, h, Bool.false_eq_true, if_false]

/-- **a mismatched value**: the load ends with SerializationException(MismatchedTypes) — unless maxValidationErrors = n > 0
    was reached by the failing fields loaded BEFORE that value, in which case the capped ValidationException of
    `reports_capped` is thrown (first n failing fields before the mismatch, the n-th with its first message). -/
theorem throwError_mismatch (cap : Nat) (cls : List Field) (doc : Val) (h : Spec.hasMismatch cls doc = true)
    (hnd : ((Spec.failingBefore cls doc).map (·.1)).Nodup) :
    ((cap = 0 ∨ (Spec.failingBefore cls doc).length < cap) ∧ loadClassT cap cls doc = .mismatched) ∨
    (0 < cap ∧ cap ≤ (Spec.failingBefore cls doc).length ∧
      ∃ p msg rest, (Spec.failingBefore cls doc)[cap - 1]? = some (p, msg :: rest) ∧
        loadClassT cap cls doc = .done (.validation ((Spec.failingBefore cls doc).take (cap - 1) ++ [(p, [msg])]) none)) := by
  cases doc with
  | sc t =>
    cases t <;> first
      | (simp [Spec.hasMismatch, Spec.occsT, Spec.isNil] at h; done)
      | (left; refine ⟨?_, rfl⟩; simp [Spec.failingBefore, Spec.beforeMismatch, Spec.occsT, Spec.isNil, Spec.failingOf]; omega)
  | arr l =>
    left; refine ⟨?_, rfl⟩
    simp [Spec.failingBefore, Spec.beforeMismatch, Spec.occsT, Spec.isNil, Spec.failingOf]; omega
  | map es =>
    obtain ⟨h1, h2⟩ := rootCut_failingBefore cls es
    have hrun := run_failing cap (Spec.failingBefore cls (.map es)) [] (by simpa [paths] using hnd)
      (failingOf_msgs_ne_nil _) (by simp; omega)
    simp only [loadClassT, h2, h, if_true, h1]
    by_cases hc : cap = 0 ∨ ([] : ErrMap).length + (Spec.failingBefore cls (.map es)).length < cap
    · rw [if_pos hc] at hrun
      left
      exact ⟨by simpa using hc, by rw [hrun]⟩
    · rw [if_neg hc] at hrun
      simp only [List.nil_append, List.length_nil, Nat.sub_zero] at hrun
      obtain ⟨p, msg, rest, e1, e2⟩ := hrun
      right
      refine ⟨by simp at hc; omega, by simp at hc; omega, p, msg, rest, e1, by rw [e2]⟩

/-- with the default maxValidationErrors = 0 a mismatched value always ends the load with MismatchedTypes -/
theorem throwError_mismatch_uncapped (cls : List Field) (doc : Val) (h : Spec.hasMismatch cls doc = true) :
    loadClassT 0 cls doc = .mismatched := by
  cases doc with
  | sc t => cases t <;> first | rfl | simp [Spec.hasMismatch, Spec.occsT, Spec.isNil] at h
  | arr l => rfl
  | map es => simp only [loadClassT, (rootCut_failingBefore cls es).2, h, if_true, runEvents_zero]

/-- whatever the cap: a document with a mismatched value is never loaded to its end under ThrowError — no `ok`, no
    ValidationException of a completed load -/
theorem throwError_never_ok_on_mismatch (cap : Nat) (cls : List Field) (doc : Val) (h : Spec.hasMismatch cls doc = true) :
    loadClassT cap cls doc = .mismatched ∨ ∃ m, loadClassT cap cls doc = .done (.validation m none) := by
  cases doc with
  | sc t => cases t <;> first | (left; rfl) | simp [Spec.hasMismatch, Spec.occsT, Spec.isNil] at h
  | arr l => left; rfl
  | map es =>
    simp only [loadClassT, (rootCut_failingBefore cls es).2, h, if_true]
    cases runEvents cap [] (rootCut cls es).1 with
    | error m => exact Or.inr ⟨m, rfl⟩
    | ok m => exact Or.inl rfl

/-! ### non-vacuity -/

def exampleClass : List Field :=
  [⟨"i", .leaf .int, [.required none, .range 1 10 none]⟩, ⟨"s", .leaf .str, [.minSize 2 none, .maxSize 5 none]⟩,
   ⟨"n", .obj [⟨"i", .int, [.required none]⟩], [.required (some "n is required")]⟩]

def exampleDoc : List (Val × Val) :=
  [(.sc (.str [105]), .sc (.int 11)), (.sc (.str [115]), .sc (.str [97])), (.sc (.str [110]), .map [])]

example : Spec.failing exampleClass (.map exampleDoc) =
    [("/i", ["Value must be between 1 and 10"]), ("/s", ["The minimum size of this field should be 2"]),
     ("/n/i", ["This field is required"])] := by decide

example : ((Spec.failing exampleClass (.map exampleDoc)).map (·.1)).Nodup := by decide

example : loadClass 2 exampleClass (.map exampleDoc) =
    .validation [("/i", ["Value must be between 1 and 10"]), ("/s", ["The minimum size of this field should be 2"])] none := by
  decide

/-! ### non-vacuity: classes with enum fields -/

/-- "e" : enum, Required + a custom validator that fails when the field is loaded and its value is odd;
    "i" : int64, Required;  "n" : nested class with an enum field -/
def enumClass : List Field :=
  [⟨"e", .leaf .enm, [.required none, .custom (fun s l => l && s.int % 2 != 0) "odd"]⟩, ⟨"i", .leaf .int, [.required none]⟩,
   ⟨"n", .obj [⟨"e", .enm, [.required (some "tone?")]⟩], []⟩]

def key (c : Nat) : Val := .sc (.str [c])
def strV (s : String) : Val := .sc (.str (s.toList.map Char.toNat))

-- a registered name in another letter case is loaded: no validator fails, the object holds High (2)
example : loadClass 0 enumClass (.map [(key 101, strV "hIGH"), (key 105, .sc (.int 7)), (key 110, .map [(key 101, strV "Low")])]) =
    .ok [.leaf (.enm 2), .leaf (.int 7), .obj [.enm 0]] := by decide

-- an unknown name ("Lo"), a number, nil, an absent key: not loaded — Required fails, the member keeps Mid (1), and the custom
-- validator is told isLoaded = false (so "odd" is not reported although Mid is odd)
example : loadClass 0 enumClass (.map [(key 101, strV "Lo"), (key 105, .sc (.int 7)), (key 110, .map [(key 101, .sc (.int 1))])]) =
    .validation [("/e", ["This field is required"]), ("/n/e", ["tone?"])] (some [.leaf (.enm 1), .leaf (.int 7), .obj [.enm 1]]) := by decide

example : Spec.failing enumClass (.map [(key 101, .sc .nil), (key 105, strV "x")]) =
    [("/e", ["This field is required"]), ("/i", ["This field is required"])] := by decide

-- a loaded odd value: the custom validator sees (Mid, isLoaded = true)
example : loadClass 1 enumClass (.map [(key 101, strV "MID"), (key 110, .map [])]) = .validation [("/e", ["odd"])] none := by decide

example : ∃ s, IsRegisteredName s ∧ s ∉ enumNames := ⟨[108, 79, 119], ⟨[76, 111, 119], by decide, by decide⟩, by decide⟩
example : ¬ IsRegisteredName [76, 111] := by
  intro ⟨n, hn, h⟩
  revert n
  decide

-- ThrowError: the unknown name is a mismatched value; cap 0 → MismatchedTypes; the cap reached before it → ValidationException
example : Spec.hasMismatch enumClass (.map [(key 105, strV "x"), (key 101, .sc .nil)]) = true := by decide
example : loadClassT 0 enumClass (.map [(key 105, strV "x"), (key 101, .sc .nil)]) = .mismatched := by decide
example : loadClassT 1 enumClass (.map [(key 105, strV "x"), (key 101, .sc .nil)]) =
    .done (.validation [("/e", ["This field is required"])] none) := by decide
example : loadClassT 0 enumClass (.map [(key 101, strV "Lo")]) = .mismatched := by decide
example : Spec.hasMismatch enumClass (.map [(key 101, strV "low"), (key 105, .sc .nil)]) = false := by decide
example : ((Spec.failingBefore enumClass (.map [(key 105, strV "x"), (key 101, .sc .nil)])).map (·.1)).Nodup := by decide

end BSVerif.Props.C17
