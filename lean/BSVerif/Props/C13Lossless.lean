/-
  C13 — main clause: "A text stream written in any of the five UTF encodings is read back as the
  same text … The result does not depend on the stream length relative to the reader's chunk size
  or on multi-unit characters straddling chunk boundaries."

  PROPERTY THEOREMS ONLY (helper lemmas: BSVerif/Utf/Lossless{Bytes,Trunc,,Detect}.lean; the
  reader invariant `RInv` and its step theorem `readChunk_step` are in BSVerif/Utf/Lossless.lean).

  Objects: the MODEL of `CEncodedStreamReader` (`Reader.mk'`, `Reader.readChunk`, `Reader.readAll`
  in BSVerif/Utf/Stream.lean) on top of the transcoder model; the SPEC encoders `encs` and the
  Spec byte serialisations `bytesLE`/`bytesBE` (through `encBytes`).

  Quantifiers: every chunk size N ≥ 32 (the class's static_assert), every encoding, every target
  width, both policies, every error mark, every list of Unicode scalar values (any length — shorter
  than, equal to, or many times the chunk size; characters may straddle chunk boundaries anywhere).
-/
import BSVerif.Utf.Lossless
import BSVerif.Utf.LosslessDetect
import BSVerif.Props.C13Detect

namespace BSVerif.Props.C13
open BSVerif.Utf BSVerif.Utf.Spec BSVerif.Utf.StreamOracle
open BSVerif.Props.C11 (AllScalar Width)

/-- stream content: optional BOM, then the Spec serialisation of the Spec encoding of `t` -/
def streamBytes (e : UtfType) (withBom : Bool) (t : List Nat) : List Nat :=
  (if withBom then bomOf e else []) ++ encBytes e (encs e.width t)

/-- `Success* EndFile` -/
def SuccessThenEnd (rs : List ReadResult) : Prop := ∃ n, rs = List.replicate n .success ++ [.endFile]

/-- The full statement of the clause for one stream: a caller looping on `ReadChunk` gets
    `Success … Success EndFile`, exactly the text in the target encoding form, and does not hang. -/
def ReadsBack (N wo : Nat) (pol : Policy) (mark : Option (List Nat)) (bytes : List Nat) (t : List Nat)
    (fuel : Nat) : Prop :=
  ∃ rs, SuccessThenEnd rs ∧
    Reader.readAll fuel (Reader.mk' N wo pol mark bytes) [] [] = (rs, encs wo t, false)

/-- generic core: whenever detection on the first chunk is right, the stream is read back -/
theorem reads_back_of_detect (N : Nat) (hN : 32 ≤ N) (e : UtfType) (wo : Nat) (hwo : Width wo)
    (pol : Policy) (mark : Option (List Nat)) (t : List Nat) (ht : AllScalar t) (pre : List Nat)
    (hpre : pre.length ≤ 4) (hne : pre ++ encBytes e (encs e.width t) ≠ [])
    (hdet : detect ((pre ++ encBytes e (encs e.width t)).take N) = (e, pre.length))
    (fuel : Nat) (hfuel : (pre ++ encBytes e (encs e.width t)).length + 2 ≤ fuel) :
    ReadsBack N wo pol mark (pre ++ encBytes e (encs e.width t)) t fuel := by
  have hinv := mk'_inv N wo pol mark e t pre hN hpre hne hdet
  obtain ⟨_, _, hm⟩ := mk'_spec N wo pol mark (pre ++ encBytes e (encs e.width t))
  obtain ⟨n, hn⟩ := readAll_lossless e wo hwo t ht fuel _ [] [] hinv (by omega)
  exact ⟨_, ⟨n, rfl⟩, by simpa using hn⟩

/-- **C13, main clause, streams with BOM.** For every chunk size `N ≥ 32`, every encoding `e`,
    every target width, policy, mark and every text `t` of Unicode scalar values: the stream
    `BOM(e) ++ bytes_e(encs e.width t)` is read back by the `ReadChunk` loop as exactly
    `encs wo t`, with results `Success* EndFile`, without hanging (`len + 2` calls suffice).
    Side condition `h16` is literally the one of `detect_bom`: a UTF-16LE BOM followed by the
    character U+0000 is byte-identical to the UTF-32LE BOM (Unicode's own ambiguity). -/
theorem read_lossless_bom (N : Nat) (hN : 32 ≤ N) (e : UtfType) (wo : Nat) (hwo : wo = 8 ∨ wo = 16 ∨ wo = 32)
    (pol : Policy) (mark : Option (List Nat)) (t : List Nat) (ht : ∀ c ∈ t, IsScalar c)
    (h16 : e = .utf16le → ¬ [0, 0].isPrefixOf (encBytes e (encs e.width t)))
    (fuel : Nat) (hfuel : (streamBytes e true t).length + 2 ≤ fuel) :
    ReadsBack N wo pol mark (streamBytes e true t) t fuel := by
  simp only [streamBytes, if_true] at hfuel ⊢
  refine reads_back_of_detect N hN e wo hwo pol mark t ht (bomOf e) (bomOf_length_le e)
    (by simp [bomOf_ne_nil]) ?_ fuel hfuel
  have hl := bomOf_length_le e
  rw [List.take_append, List.take_of_length_le (by omega), bom_table e]
  exact detect_bom e _ (fun he hp => h16 he (isPrefixOf_take _ _ _ hp))

/-- **C13, main clause, with the text-level side condition.** -/
theorem read_lossless_bom' (N : Nat) (hN : 32 ≤ N) (e : UtfType) (wo : Nat) (hwo : wo = 8 ∨ wo = 16 ∨ wo = 32)
    (pol : Policy) (mark : Option (List Nat)) (t : List Nat) (ht : ∀ c ∈ t, IsScalar c)
    (h0 : e = .utf16le → t.head? ≠ some 0) :
    ReadsBack N wo pol mark (streamBytes e true t) t ((streamBytes e true t).length + 2) :=
  read_lossless_bom N hN e wo hwo pol mark t ht
    (fun he => by subst he; exact h16_of_head t ht (h0 rfl)) _ (Nat.le_refl _)

/-- **The decoded text does not depend on the chunk size** (hence not on where chunk boundaries
    fall inside the stream or inside multi-unit characters): any two chunk sizes ≥ 32 give the
    same text, the same final result, and neither hangs. -/
theorem chunk_size_irrelevant (N1 N2 : Nat) (h1 : 32 ≤ N1) (h2 : 32 ≤ N2) (e : UtfType) (wo : Nat)
    (hwo : wo = 8 ∨ wo = 16 ∨ wo = 32) (pol : Policy) (mark : Option (List Nat)) (t : List Nat)
    (ht : ∀ c ∈ t, IsScalar c)
    (h16 : e = .utf16le → ¬ [0, 0].isPrefixOf (encBytes e (encs e.width t)))
    (fuel : Nat) (hfuel : (streamBytes e true t).length + 2 ≤ fuel) :
    (Reader.readAll fuel (Reader.mk' N1 wo pol mark (streamBytes e true t)) [] []).2
      = (Reader.readAll fuel (Reader.mk' N2 wo pol mark (streamBytes e true t)) [] []).2 ∧
    (Reader.readAll fuel (Reader.mk' N1 wo pol mark (streamBytes e true t)) [] []).1.getLast?
      = (Reader.readAll fuel (Reader.mk' N2 wo pol mark (streamBytes e true t)) [] []).1.getLast? := by
  obtain ⟨rs1, ⟨n1, hr1⟩, e1⟩ := read_lossless_bom N1 h1 e wo hwo pol mark t ht h16 fuel hfuel
  obtain ⟨rs2, ⟨n2, hr2⟩, e2⟩ := read_lossless_bom N2 h2 e wo hwo pol mark t ht h16 fuel hfuel
  rw [e1, e2, hr1, hr2]
  simp

/-! #### streams without BOM -/

/-- **C13, main clause, BOM-less streams.** Same statement without BOM, for the texts for which
    BOM-less detection is required at all (DESIGN.md §C13 / `StreamOracle.mustDetect`): the text
    starts with an ASCII character other than NUL and contains no U+0000 (`ambiguous` shows that
    this restriction is forced). -/
theorem read_lossless_nobom (N : Nat) (hN : 32 ≤ N) (e : UtfType) (wo : Nat) (hwo : wo = 8 ∨ wo = 16 ∨ wo = 32)
    (pol : Policy) (mark : Option (List Nat)) (c : Nat) (ts : List Nat)
    (hc : 0 < c ∧ c < 0x80) (hts : ∀ x ∈ ts, IsScalar x ∧ x ≠ 0)
    (fuel : Nat) (hfuel : (streamBytes e false (c :: ts)).length + 2 ≤ fuel) :
    ReadsBack N wo pol mark (streamBytes e false (c :: ts)) (c :: ts) fuel := by
  have hsc : AllScalar (c :: ts) := by
    intro x hx; simp at hx; rcases hx with rfl | hx
    · exact ⟨by omega, by omega⟩
    · exact (hts x hx).1
  have hne : encBytes e (encs e.width (c :: ts)) ≠ [] := fun h => by
    have := encs_eq_nil _ _ (encBytes_eq_nil e _ h); simp at this
  simp only [streamBytes, Bool.false_eq_true, if_false, List.nil_append] at hfuel ⊢
  have := reads_back_of_detect N hN e wo hwo pol mark (c :: ts) hsc [] (by simp) (by simpa using hne)
    (by simpa using detect_nobom_chunk N hN e c ts hc hts) fuel (by simpa using hfuel)
  simpa using this

/-- the same, with the hypothesis phrased with the oracle's own predicate `mustDetect` -/
theorem read_lossless_nobom' (N : Nat) (hN : 32 ≤ N) (e : UtfType) (wo : Nat) (hwo : wo = 8 ∨ wo = 16 ∨ wo = 32)
    (pol : Policy) (mark : Option (List Nat)) (t : List Nat) (ht : ∀ c ∈ t, IsScalar c)
    (hm : mustDetect false t = true) :
    ReadsBack N wo pol mark (streamBytes e false t) t ((streamBytes e false t).length + 2) := by
  cases t with
  | nil => simp [mustDetect] at hm
  | cons c ts =>
    simp only [mustDetect, Bool.false_or, Bool.and_eq_true, decide_eq_true_eq, Bool.not_eq_true',
      List.contains_eq_mem, decide_eq_false_iff_not, List.mem_cons, not_or] at hm
    obtain ⟨hc, _, h0⟩ := hm
    refine read_lossless_nobom N hN e wo hwo pol mark c ts hc (fun x hx => ⟨ht x (by simp [hx]), ?_⟩) _
      (Nat.le_refl _)
    intro hx0; subst hx0; exact h0 hx

/-- the empty stream (empty text, no BOM): `EndFile` at once, nothing decoded -/
theorem read_empty (N : Nat) (hN : 32 ≤ N) (wo : Nat) (pol : Policy) (mark : Option (List Nat)) (fuel : Nat)
    (hfuel : 1 ≤ fuel) :
    Reader.readAll fuel (Reader.mk' N wo pol mark []) [] [] = ([.endFile], [], false) := by
  obtain ⟨f, rfl⟩ : ∃ f, fuel = f + 1 := ⟨fuel - 1, by omega⟩
  have h0 : ¬ (0 = N) := by omega
  have h1 : ¬ (N = 0) := by omega
  have h2 : 0 < N := by omega
  simp [Reader.readAll, Reader.readChunk, Reader.mk', Reader.readNext, IStream.read, Reader.isEnd, h0, h1, h2]

/-! #### written by the stream writer, read back by the stream reader -/

/-- the bytes a writer session leaves in the stream (`session`, Props/C13Writer.lean) are `streamBytes` of the
    concatenated text -/
theorem session_bytes (e : UtfType) (addBom : Bool) (wpol : Policy) (wi : Nat) (hwi : wi = 8 ∨ wi = 16 ∨ wi = 32)
    (texts : List (List Nat)) (ht : ∀ t ∈ texts, ∀ c ∈ t, IsScalar c) :
    session e addBom wpol wi (texts.map (encs wi)) = streamBytes e addBom texts.flatten := by
  rw [writer_session e addBom wpol wi hwi texts ht, ← bom_table e]
  simp only [streamBytes]
  congr 1
  induction texts with
  | nil => simp
  | cons p ps ih =>
    rw [List.flatMap_cons, List.flatten_cons, encs_append, encBytes_append, ih (fun q hq => ht q (by simp [hq]))]
    rfl

/-- **C13, main clause end to end (model writer → model reader).** A text written in parts through
    `CEncodedStreamWriter` (any encoding, any source width, either writer policy, with BOM) and read through
    `CEncodedStreamReader` (any chunk size ≥ 32, any target width, policy, mark) comes back as the same text. -/
theorem write_then_read (N : Nat) (hN : 32 ≤ N) (e : UtfType) (wi wo : Nat)
    (hwi : wi = 8 ∨ wi = 16 ∨ wi = 32) (hwo : wo = 8 ∨ wo = 16 ∨ wo = 32)
    (wpol pol : Policy) (mark : Option (List Nat)) (texts : List (List Nat))
    (ht : ∀ t ∈ texts, ∀ c ∈ t, IsScalar c) (h0 : e = .utf16le → texts.flatten.head? ≠ some 0) :
    ReadsBack N wo pol mark (session e true wpol wi (texts.map (encs wi))) texts.flatten
      ((session e true wpol wi (texts.map (encs wi))).length + 2) := by
  have hf : ∀ c ∈ texts.flatten, IsScalar c := by
    intro c hc
    obtain ⟨p, hp1, hp2⟩ := List.mem_flatten.mp hc
    exact ht p hp1 c hp2
  rw [session_bytes e true wpol wi hwi texts ht]
  exact read_lossless_bom' N hN e wo hwo pol mark _ hf h0

/-! #### non-vacuity and concrete instances -/

/-- 1-, 2-, 3- and 4-byte characters (and all range boundaries); 48 bytes in UTF-8, 46 in UTF-16,
    72 in UTF-32 — longer than one 32-byte chunk in every encoding; with the UTF-8 BOM the first
    chunk boundary (N = 32) falls inside the 3-byte character U+E000, with a UTF-16 BOM inside the
    surrogate pair of U+10000 (whose high surrogate D800 is in the range `copy16` refuses at the end
    of a chunk). -/
def sample : List Nat :=
  [0x41, 0xE9, 0x20AC, 0x1F600, 0x7A, 0x10FFFF, 0x800, 0x7FF, 0xFFFD, 0x24, 0xD7FF, 0xE000, 0x10000, 0x61,
   0x1F601, 0x416, 0x4E2D, 0x1D11E]

theorem sample_scalar : ∀ c ∈ sample, IsScalar c := by decide

/-- hypotheses of `read_lossless_bom` are satisfiable for every encoding on a non-trivial text -/
example (e : UtfType) : ReadsBack 32 16 .throwError none (streamBytes e true sample) sample
    ((streamBytes e true sample).length + 2) :=
  read_lossless_bom' 32 (by decide) e 16 (by simp) .throwError none sample sample_scalar (fun _ => by decide)

/-- … and those of `read_lossless_nobom` -/
example (e : UtfType) : ReadsBack 36 8 .skip (some [0x3F]) (streamBytes e false sample) sample
    ((streamBytes e false sample).length + 2) :=
  read_lossless_nobom' 36 (by decide) e 8 (by simp) .skip (some [0x3F]) sample sample_scalar (by decide)

/-- the side condition of `read_lossless_bom` is needed: U+0000 first in a UTF-16LE stream with BOM
    is detected as UTF-32LE (the bytes ARE a UTF-32LE BOM) -/
example : (Reader.mk' 32 16 .skip none (streamBytes .utf16le true [0, 0x41])).utf = .utf32le := by decide

/-- straddling really happens in the sample: byte 32 of the UTF-8 stream with BOM (first byte of
    the second chunk) is a continuation byte -/
example : (streamBytes .utf8 true sample).getD 32 0 = 0x80 := by decide

/-- … and bytes 30–33 of the UTF-16LE stream with BOM are the surrogate pair D800 DC00, cut in the middle -/
example : ((streamBytes .utf16le true sample).drop 30).take 4 = [0x00, 0xD8, 0x00, 0xDC] := by decide

/-- hypotheses of `write_then_read` are satisfiable (three `Write` calls, one of them empty) -/
example (e : UtfType) :
    ReadsBack 32 8 .skip none (session e true .throwError 32 ([sample, [], sample].map (encs 32)))
      [sample, [], sample].flatten ((session e true .throwError 32 ([sample, [], sample].map (encs 32))).length + 2) :=
  write_then_read 32 (by decide) e 32 8 (by simp) (by simp) .throwError .skip none [sample, [], sample]
    (by decide) (fun _ => by decide)

/- evaluated instances (model run, compiled evaluation — a check of the theorem statements, not a
   proof): all five encodings × three target widths × several chunk sizes, with and without BOM -/
def allEnc : List UtfType := [.utf8, .utf16le, .utf16be, .utf32le, .utf32be]

def checkInstance (N wo : Nat) (e : UtfType) (bom : Bool) (t : List Nat) : Bool :=
  let bytes := streamBytes e bom t
  let (rs, text, hang) := Reader.readAll (bytes.length + 2) (Reader.mk' N wo .throwError none bytes) [] []
  text == encs wo t && !hang && rs.getLast? == some .endFile && rs.dropLast.all (· == .success)

#guard allEnc.all fun e => [8, 16, 32].all fun wo => [32, 33, 34, 35, 36, 40, 47, 48, 64, 4096].all fun N =>
  [true, false].all fun bom => checkInstance N wo e bom sample

#guard allEnc.all fun e => [8, 16, 32].all fun wo => [32, 36].all fun N =>
  checkInstance N wo e true (sample ++ sample ++ sample ++ [0x1F600, 0x1F600, 0x1F600, 0x10FFFF] ++ sample)

end BSVerif.Props.C13
