/-
  C13, last sentence: "The writer emits exactly the configured encoding and BOM."

  Theorems about the MODEL of `CEncodedStreamWriter` (Utf/Stream.lean: `writerOpen`, `writerWrite`):
  for every scalar list, every source width, every one of the five target encodings and both policies, one `Write`
  call appends exactly the standard encoding of the text in the configured byte order; the constructor writes
  exactly the BOM of the standard (or nothing); a rejected `Write` contributes nothing, so a whole session writes
  BOM ++ the encodings of the accepted texts.
-/
import BSVerif.Props.C11
import BSVerif.Utf.Stream
import BSVerif.Utf.StreamOracle

namespace BSVerif.Props.C13
open BSVerif BSVerif.Utf BSVerif.Utf.Spec BSVerif.Utf.StreamOracle BSVerif.Props.C11

/-- the byte image the standard prescribes for units of width `e.width` in `e`'s byte order -/
def stdBytes (e : UtfType) (us : List Nat) : List Nat :=
  if e.isBE then bytesBE e.width us else bytesLE e.width us

theorem bytesOfUnits_eq_LE (w : Nat) (us : List Nat) : bytesOfUnits w us = bytesLE w us := rfl

theorem enc16_lt (c : Nat) (hc : IsScalar c) : ∀ u ∈ enc 16 c, u < 65536 := by
  intro u hu
  unfold IsScalar at hc
  by_cases h : c < 0x10000 <;> simp [enc, enc16, h] at hu <;> omega

theorem encs16_lt (t : List Nat) (ht : AllScalar t) : ∀ u ∈ encs 16 t, u < 65536 := by
  intro u hu
  simp only [encs, List.mem_flatMap] at hu
  obtain ⟨c, hc, hu⟩ := hu
  exact enc16_lt c (ht c hc) u hu

theorem encs32_lt (t : List Nat) (ht : AllScalar t) : ∀ u ∈ encs 32 t, u < 4294967296 := by
  intro u hu
  simp only [encs, List.mem_flatMap] at hu
  obtain ⟨c, hc, hu⟩ := hu
  have := ht c hc
  unfold IsScalar at this
  simp [enc, enc32] at hu
  omega

theorem unitBytesLE16_of (a b : Nat) (ha : a < 256) (hb : b < 256) : unitBytesLE 16 (a + 256 * b) = [a, b] := by
  have f1 : (a + 256 * b) % 256 = a := by omega
  have f2 : (a + 256 * b) / 256 % 256 = b := by omega
  simp [unitBytesLE, List.range_succ, f1, f2]

theorem unitBytesLE32_of (a b c d : Nat) (ha : a < 256) (hb : b < 256) (hc : c < 256) (hd : d < 256) :
    unitBytesLE 32 (a + 256 * b + 65536 * c + 16777216 * d) = [a, b, c, d] := by
  have f1 : (a + 256 * b + 65536 * c + 16777216 * d) % 256 = a := by omega
  have f2 : (a + 256 * b + 65536 * c + 16777216 * d) / 256 % 256 = b := by omega
  have f3 : (a + 256 * b + 65536 * c + 16777216 * d) / 65536 % 256 = c := by omega
  have f4 : (a + 256 * b + 65536 * c + 16777216 * d) / 16777216 % 256 = d := by omega
  simp [unitBytesLE, List.range_succ, f1, f2, f3, f4]

theorem unitBytes_rev16 (u : Nat) (h : u < 65536) : unitBytesLE 16 (reverse16 u) = unitBytesBE 16 u := by
  obtain ⟨a, b, ha, hb, rfl⟩ : ∃ a b, a < 256 ∧ b < 256 ∧ u = a + 256 * b :=
    ⟨u % 256, u / 256, by omega, by omega, by omega⟩
  clear h
  have h1 : (a + 256 * b) / 256 % 256 = b := by omega
  have h2 : (a + 256 * b) % 256 = a := by omega
  have hr : reverse16 (a + 256 * b) = b + 256 * a := by simp only [reverse16, h1, h2]; omega
  rw [hr, unitBytesBE, unitBytesLE16_of a b ha hb, unitBytesLE16_of b a hb ha]
  rfl

theorem unitBytes_rev32 (u : Nat) (h : u < 4294967296) : unitBytesLE 32 (reverse32 u) = unitBytesBE 32 u := by
  obtain ⟨a, b, c, d, ha, hb, hc, hd, rfl⟩ : ∃ a b c d, a < 256 ∧ b < 256 ∧ c < 256 ∧ d < 256 ∧
      u = a + 256 * b + 65536 * c + 16777216 * d :=
    ⟨u % 256, u / 256 % 256, u / 65536 % 256, u / 16777216, by omega, by omega, by omega, by omega, by omega⟩
  rw [reverse32_bytes a b c d ha hb hc hd, unitBytesBE, unitBytesLE32_of a b c d ha hb hc hd, unitBytesLE32_of d c b a hd hc hb ha]
  rfl

theorem bytes_rev16 (us : List Nat) (h : ∀ u ∈ us, u < 65536) :
    bytesOfUnits 16 (us.map (reverseUnit 16)) = bytesBE 16 us := by
  induction us with
  | nil => rfl
  | cons u us ih =>
    have hu := h u (by simp)
    have ih' := ih (fun v hv => h v (by simp [hv]))
    simp only [bytesOfUnits_eq_LE, bytesLE, bytesBE, List.map_cons, List.flatMap_cons] at *
    rw [ih']
    simp [reverseUnit, unitBytes_rev16 u hu]

theorem bytes_rev32 (us : List Nat) (h : ∀ u ∈ us, u < 4294967296) :
    bytesOfUnits 32 (us.map (reverseUnit 32)) = bytesBE 32 us := by
  induction us with
  | nil => rfl
  | cons u us ih =>
    have hu := h u (by simp)
    have ih' := ih (fun v hv => h v (by simp [hv]))
    simp only [bytesOfUnits_eq_LE, bytesLE, bytesBE, List.map_cons, List.flatMap_cons] at *
    rw [ih']
    simp [reverseUnit, unitBytes_rev32 u hu]

theorem enc8_lt (c : Nat) (hc : IsScalar c) : ∀ u ∈ enc 8 c, u < 256 := by
  intro u hu
  unfold IsScalar at hc
  by_cases h1 : c < 0x80
  · simp [enc, enc8, h1] at hu; omega
  · by_cases h2 : c < 0x800
    · simp [enc, enc8, h1, h2] at hu; omega
    · by_cases h3 : c < 0x10000
      · simp [enc, enc8, h1, h2, h3] at hu; omega
      · simp [enc, enc8, h1, h2, h3] at hu; omega

theorem bytesLE8 (us : List Nat) (h : ∀ u ∈ us, u < 256) : bytesLE 8 us = us := by
  induction us with
  | nil => rfl
  | cons u us ih =>
    have hu := h u (by simp)
    have ih' := ih (fun v hv => h v (by simp [hv]))
    simp only [bytesLE, List.flatMap_cons] at *
    rw [ih']
    simp [unitBytesLE, List.range_succ]
    omega

theorem encs8_lt (t : List Nat) (ht : AllScalar t) : ∀ u ∈ encs 8 t, u < 256 := by
  intro u hu
  simp only [encs, List.mem_flatMap] at hu
  obtain ⟨c, hc, hu⟩ := hu
  exact enc8_lt c (ht c hc) u hu

/-- **C13 (writer, one call).** `Write` of a well-formed text in any source width appends exactly the standard encoding of
    that text in the configured encoding and byte order, and reports Success — for all five encodings and both policies. -/
theorem writer_emits_standard_encoding (e : UtfType) (pol : Policy) (wi : Nat) (hwi : Width wi)
    (t : List Nat) (ht : AllScalar t) :
    writerWrite e pol wi (encs wi t) = (.success, stdBytes e (encs e.width t)) := by
  unfold writerWrite
  by_cases h8 : wi = 8 ∧ e = .utf8
  · obtain ⟨rfl, rfl⟩ := h8
    simp [stdBytes, UtfType.isBE, UtfType.width, bytesLE8 _ (encs8_lt t ht)]
  · rw [if_neg h8]
    cases e
    · -- utf8 target, wider source
      have hwi' : wi = 16 ∨ wi = 32 := by
        rcases hwi with h | h | h
        · exact absurd ⟨h, rfl⟩ h8
        · exact Or.inl h
        · exact Or.inr h
      simp [UtfType.width, utf8Encode_valid wi hwi' t ht, stdBytes, UtfType.isBE, bytesOfUnits_eq_LE]
    · simp [UtfType.width, UtfType.isBE, encodeEndian, utf16Encode_valid wi hwi t ht, stdBytes, bytesOfUnits_eq_LE]
    · simp [UtfType.width, UtfType.isBE, encodeEndian, utf16Encode_valid wi hwi t ht, stdBytes, bytes_rev16 _ (encs16_lt t ht)]
    · simp [UtfType.width, UtfType.isBE, encodeEndian, utf32Encode_valid wi hwi t ht, stdBytes, bytesOfUnits_eq_LE]
    · simp [UtfType.width, UtfType.isBE, encodeEndian, utf32Encode_valid wi hwi t ht, stdBytes, bytes_rev32 _ (encs32_lt t ht)]

/-- the constructor writes exactly the BOM of the standard, or nothing -/
theorem writer_bom (e : UtfType) (addBom : Bool) :
    writerOpen e addBom = if addBom then specBom e else [] := by
  cases e <;> cases addBom <;> decide

theorem ite_pair_snd (c : Code) (x : List Nat)
    (h : (if c = .success then (Code.success, x) else (c, ([] : List Nat))).1 ≠ .success) :
    (if c = .success then (Code.success, x) else (c, ([] : List Nat))).2 = [] := by
  by_cases hc : c = .success
  · rw [if_pos hc] at h; exact absurd rfl h
  · rw [if_neg hc]

/-- a rejected `Write` leaves nothing in the stream (whatever was transcoded before the error is discarded) -/
theorem rejected_write_emits_nothing (e : UtfType) (pol : Policy) (wi : Nat) (s : List Nat)
    (h : (writerWrite e pol wi s).1 ≠ .success) : (writerWrite e pol wi s).2 = [] := by
  unfold writerWrite at *
  by_cases h8 : wi = 8 ∧ e = .utf8
  · rw [if_pos h8] at h; exact absurd rfl h
  · rw [if_neg h8] at h ⊢
    dsimp only at h ⊢
    exact ite_pair_snd _ _ h

/-- a whole writer session: the bytes in the stream after the constructor and a list of `Write` calls -/
def session (e : UtfType) (addBom : Bool) (pol : Policy) (wi : Nat) (parts : List (List Nat)) : List Nat :=
  parts.foldl (fun acc s => acc ++ (writerWrite e pol wi s).2) (writerOpen e addBom)

theorem foldl_append_eq (f : List Nat → List Nat) (parts : List (List Nat)) (init : List Nat) :
    parts.foldl (fun acc s => acc ++ f s) init = init ++ parts.flatMap f := by
  induction parts generalizing init with
  | nil => simp
  | cons p ps ih => simp [ih, List.append_assoc]

/-- **C13 (writer, whole session).** After any number of `Write` calls with well-formed texts the stream holds exactly
    BOM? ++ the standard encoding of the concatenated text. -/
theorem writer_session (e : UtfType) (addBom : Bool) (pol : Policy) (wi : Nat) (hwi : Width wi)
    (texts : List (List Nat)) (ht : ∀ t ∈ texts, AllScalar t) :
    session e addBom pol wi (texts.map (encs wi))
      = (if addBom then specBom e else []) ++ texts.flatMap (fun t => stdBytes e (encs e.width t)) := by
  unfold session
  rw [foldl_append_eq, writer_bom]
  congr 1
  induction texts with
  | nil => rfl
  | cons t ts ih =>
    simp only [List.map_cons, List.flatMap_cons]
    rw [writer_emits_standard_encoding e pol wi hwi t (ht t (by simp)), ih (fun t' h => ht t' (by simp [h]))]

-- non-vacuity: a text with 1-, 2-, 3- and 4-byte characters, UTF-16 source, UTF-32BE target with BOM
example : AllScalar [0x41, 0xE9, 0x20AC, 0x1F600] ∧ Width 16 ∧
    (specBom .utf32be ++ stdBytes .utf32be (encs 32 [0x41, 0xE9, 0x20AC, 0x1F600])
      = [0, 0, 0xFE, 0xFF, 0, 0, 0, 0x41, 0, 0, 0, 0xE9, 0, 0, 0x20, 0xAC, 0, 1, 0xF6, 0]) := by
  refine ⟨by unfold AllScalar; decide, Or.inr (Or.inl rfl), by decide⟩

end BSVerif.Props.C13
