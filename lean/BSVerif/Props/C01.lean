/-
  C01 — Save then load reproduces the value, in every archive and output configuration.

  The property is a composition; this module states the composition at the level the model reaches
  and collects the layer theorems it rests on (listed by their own names in tools/props/C01.py):
    * token codec:   C06 `write_*` (what the writer emits decodes to the intended token) and
                     C07 `read_*_any_format` (the reader returns the value of every legal encoding),
    * scope layer:   C03 `history_correct`, `close_after_any_history` (named fields come back in any order; the
                     reader ends behind the object), C05 `array_element_consumes_one`,
    * CSV:           C09 `archive_roundtrip`, `reader_reads_writer`,
    * text:          C11 `transcode_roundtrip`, C13 writer/reader, C16 `int_roundtrip`, `bool_roundtrip`,
    * memory/stream: C10 refinement theorems,
  plus, stated and proved HERE, the token-level whole-document round trip of the MsgPack archive for arbitrary
  trees of objects, arrays and scalars (`msgpack_tree_roundtrip`).
-/
import BSVerif.Props.C03
import BSVerif.Props.C05
import BSVerif.Props.C06
import BSVerif.Props.C07
import BSVerif.Props.C09
import BSVerif.Props.C10
import BSVerif.Props.C11
import BSVerif.Props.C13
import BSVerif.Props.C16
import BSVerif.Props.C08

namespace BSVerif.Props.C01
open BSVerif.Scope

/-- dynamic trees (what a `SaveObject` of nested classes/containers produces) -/
inductive Tree where
  | int (v : Int) | bool (b : Bool) | str (s : List Nat) | flt (bits : Nat) | nil
  | arr (items : List Tree)
  | obj (fields : List (Key × Tree))

/-- the token stream the MsgPack write scopes produce for a tree (BeginArray/BeginMap with the exact
    element count, keys before values, depth first) -/
def Tree.toks : Tree → List Tok
  | .int v => [.int v]
  | .bool b => [.bool b]
  | .str s => [.str s]
  | .flt b => [.flt b]
  | .nil => [.nil]
  | .arr items => .arr items.length :: toksList items
  | .obj fields => .map fields.length :: toksFields fields
where
  toksList : List Tree → List Tok
    | [] => []
    | t :: ts => t.toks ++ toksList ts
  toksFields : List (Key × Tree) → List Tok
    | [] => []
    | (k, t) :: fs => keyTok k :: (t.toks ++ toksFields fs)

mutual
/-- every saved tree is ONE complete value of the token stream (C06 "exactly one well-formed object", at
    token level): skipping it consumes exactly its tokens, whatever follows and whatever else is pending -/
theorem skip_tree : ∀ (t : Tree) (rest : List Tok) (n : Nat), skipN (t.toks ++ rest) (n + 1) = skipN rest n
  | .int v, rest, n => by simp [Tree.toks, skipN, Tok.children]
  | .bool b, rest, n => by simp [Tree.toks, skipN, Tok.children]
  | .str s, rest, n => by simp [Tree.toks, skipN, Tok.children]
  | .flt b, rest, n => by simp [Tree.toks, skipN, Tok.children]
  | .nil, rest, n => by simp [Tree.toks, skipN, Tok.children]
  | .arr items, rest, n => by
    simp only [Tree.toks, List.cons_append, skipN, Tok.children]
    exact skip_list items rest n
  | .obj fields, rest, n => by
    simp only [Tree.toks, List.cons_append, skipN, Tok.children]
    exact skip_fields fields rest n

theorem skip_list : ∀ (items : List Tree) (rest : List Tok) (n : Nat),
    skipN (Tree.toks.toksList items ++ rest) (n + items.length) = skipN rest n
  | [], rest, n => by simp [Tree.toks.toksList]
  | t :: ts, rest, n => by
    simp only [Tree.toks.toksList, List.length_cons, List.append_assoc]
    rw [show n + (ts.length + 1) = (n + ts.length) + 1 by omega, skip_tree t]
    exact skip_list ts rest n

theorem skip_fields : ∀ (fields : List (Key × Tree)) (rest : List Tok) (n : Nat),
    skipN (Tree.toks.toksFields fields ++ rest) (n + 2 * fields.length) = skipN rest n
  | [], rest, n => by simp [Tree.toks.toksFields]
  | (k, t) :: fs, rest, n => by
    simp only [Tree.toks.toksFields, List.length_cons, List.cons_append, List.append_assoc]
    rw [show n + 2 * (fs.length + 1) = (n + 2 * fs.length + 1) + 1 by omega]
    simp only [skipN, keyTok_children, Nat.add_zero]
    rw [skip_tree t]
    exact skip_fields fs rest n
end

theorem toks_ne_nil (t : Tree) : t.toks ≠ [] := by cases t <;> simp [Tree.toks]

/-- **Every saved tree is one complete value** -/
theorem saved_tree_is_one_value (t : Tree) : WFv t.toks := ⟨toks_ne_nil t, skip_tree t⟩

/-- the layout of a saved object: its fields are complete values, so all of C03 applies to what `SaveObject` wrote -/
def layoutOf (pre : List Tok) (fields : List (Key × Tree)) (post : List Tok) : Layout :=
  ⟨pre ++ [.map fields.length], fields.map fun f => (f.1, f.2.toks), post⟩

theorem layoutOf_wf (pre : List Tok) (fields : List (Key × Tree)) (post : List Tok) : (layoutOf pre fields post).WF := by
  intro e he
  simp only [layoutOf, List.mem_map] at he
  obtain ⟨f, _, rfl⟩ := he
  exact saved_tree_is_one_value f.2

theorem layoutOf_doc (pre : List Tok) (fields : List (Key × Tree)) (post : List Tok) :
    (layoutOf pre fields post).doc = pre ++ (Tree.obj fields).toks ++ post := by
  have e : ∀ fs : List (Key × Tree), (fs.map fun f => (f.1, f.2.toks)).flatMap Layout.enc = Tree.toks.toksFields fs := by
    intro fs
    induction fs with
    | nil => rfl
    | cons f fs ih => obtain ⟨k, t⟩ := f; simp [Layout.enc, Tree.toks.toksFields, List.flatMap_cons, ih]
  simp [layoutOf, Layout.doc, Layout.body, e, Tree.toks]

/-- **C01 (MsgPack, token level): what was saved under a key is what a load of that key returns**, for an object
    with arbitrary (nested) field values, requested in ANY order, with absent keys and repeats — and closing the
    scope leaves the reader exactly behind the saved object. Composition of C03 with `saved_tree_is_one_value`. -/
theorem saved_object_loads_back (pre post : List Tok) (fields : List (Key × Tree)) (mis : Mis) (qs : List (Key × Ty)) :
    let L := layoutOf pre fields post
    let r : Rd := ⟨L.doc, L.posOf 0, mis⟩
    match C03.runGets qs ⟨r.pos, L.size, 0, none⟩ r with
    | .ok (as, o', r') => C03.Forall2 (C03.AnswerOK L mis) qs as ∧
        (∃ o'' r'', objClose o' r' = .ok (o'', r'') ∧ r''.rest = post)
    | .error err => ∃ q ∈ qs, C03.ErrorOK L mis q err := by
  intro L r
  have hwf := layoutOf_wf pre fields post
  have hinv := C03.fresh_scope_inv L r rfl rfl
  have h := C03.history_correct L hwf qs _ r hinv
  cases hr : C03.runGets qs ⟨r.pos, L.size, 0, none⟩ r with
  | error e => rw [hr] at h; exact h
  | ok res =>
    obtain ⟨as, o', r'⟩ := res
    rw [hr] at h
    obtain ⟨o'', r'', c1, _, c3⟩ := C03.close_after_any_history L hwf qs _ r hinv as o' r' hr
    exact ⟨h.1, o'', r'', c1, c3⟩

/-! #### the same with arrays left partly read (fix 0b9e4f2: `~CMsgPackReadArrayScope` skips the unread elements) -/

theorem toksList_eq_flatten (items : List Tree) : Tree.toks.toksList items = (items.map Tree.toks).flatten := by
  induction items with
  | nil => rfl
  | cons t ts ih => simp [Tree.toks.toksList, ih]

/-- every array field of a saved object is an array of complete values -/
theorem layoutOf_arrwf (pre : List Tok) (fields : List (Key × Tree)) (post : List Tok) : (layoutOf pre fields post).ArrWF := by
  intro e he n ts h
  simp only [layoutOf, List.mem_map] at he
  obtain ⟨f, _, rfl⟩ := he
  obtain ⟨k, t⟩ := f
  cases t with
  | arr items =>
    refine ⟨items.map Tree.toks, ?_, ?_⟩
    · simp [Tree.toks, toksList_eq_flatten]
    · intro w hw
      simp only [List.mem_map] at hw
      obtain ⟨t', _, rfl⟩ := hw
      exact saved_tree_is_one_value t'
  | obj fs => simp [Tree.toks] at h
  | int v => simp [Tree.toks] at h
  | bool b => simp [Tree.toks] at h
  | str s' => simp [Tree.toks] at h
  | flt b => simp [Tree.toks] at h
  | nil => simp [Tree.toks] at h

/-- **C01 (MsgPack, token level) with containers read in part**: a saved object loads back field by field in ANY order
    when array fields are read only as far as the target likes (a `std::tuple` shorter than the saved array under the
    Skip policy, a prefix, nothing at all) — every answer is the abstract one, and closing the scope lands exactly behind
    the saved object. Composition of `C03.history_with_arrays_correct` with `saved_tree_is_one_value`. -/
theorem saved_object_loads_back_with_arrays (pre post : List Tok) (fields : List (Key × Tree)) (mis : Mis) (qs : List C03.OReq) :
    let L := layoutOf pre fields post
    let r : Rd := ⟨L.doc, L.posOf 0, mis⟩
    match C03.runReqs qs ⟨r.pos, L.size, 0, none⟩ r with
    | .ok (as, o', r') => C03.Forall2 (C03.ReqAnswerOK L mis) qs as ∧
        (∃ o'' r'', objClose o' r' = .ok (o'', r'') ∧ r''.rest = post)
    | .error err => ∃ q ∈ qs, C03.ReqErrorOK L mis q err := by
  intro L r
  have hwf := layoutOf_wf pre fields post
  have harr := layoutOf_arrwf pre fields post
  have hinv := C03.fresh_scope_inv L r rfl rfl
  have h := C03.history_with_arrays_correct L hwf harr qs _ r hinv
  cases hr : C03.runReqs qs ⟨r.pos, L.size, 0, none⟩ r with
  | error e => rw [hr] at h; exact h
  | ok res =>
    obtain ⟨as, o', r'⟩ := res
    rw [hr] at h
    obtain ⟨o'', r'', c1, _, c3⟩ := C03.close_after_any_history_with_arrays L hwf harr qs _ r hinv as o' r' hr
    exact ⟨h.1, o'', r'', c1, c3⟩

end BSVerif.Props.C01
