/-
  C11 — Transcoding valid Unicode text between UTF-8/16/32 is exact and reversible.

  PROPERTY THEOREMS ONLY (helper lemmas live in BSVerif/Utf/Lemmas.lean).
  Quantifiers: every list `t` of Unicode scalar values (unbounded length), every ordered pair of
  code-unit widths, both error policies, every error mark (including nullptr), every prior
  content `out` of the output string.
-/
import BSVerif.Utf.Lemmas
import BSVerif.Generated.UtfConsts

namespace BSVerif.Props.C11
open BSVerif.Utf BSVerif.Utf.Spec

def AllScalar (t : List Nat) : Prop := ∀ c ∈ t, IsScalar c

/-! #### the five conversion loops on standard encodings of arbitrary scalar lists -/

theorem decode8_valid (w : Nat) (t : List Nat) (ht : AllScalar t)
    (pol : Policy) (mark : Option (List Nat)) (pos : Nat) (out : List Nat) (inv : Nat) :
    decode8 w pol mark (encs 8 t) pos out inv
      = ⟨out ++ encs (if w = 16 then 16 else 32) t, .success, pos + (encs 8 t).length, inv⟩ := by
  induction t generalizing pos out inv with
  | nil => simp [decode8]
  | cons c t ih =>
    have hc : IsScalar c := ht c (by simp)
    have ht' : AllScalar t := fun x hx => ht x (by simp [hx])
    simp only [encs_cons]
    have e8 : enc 8 c = enc8 c := by simp [enc]
    rw [e8, decode8_enc8 w c hc, ih ht']
    by_cases hw : w = 16
    · simp [hw, enc, Nat.add_assoc]
    · simp [hw, enc, enc32, Nat.add_assoc]

theorem encode8_valid (wi : Nat) (hwi : wi = 16 ∨ wi = 32) (t : List Nat) (ht : AllScalar t)
    (pol : Policy) (mark : Option (List Nat)) (pos : Nat) (out : List Nat) (inv : Nat) :
    encode8 wi pol mark (encs wi t) pos out inv
      = ⟨out ++ encs 8 t, .success, pos + (encs wi t).length, inv⟩ := by
  induction t generalizing pos out inv with
  | nil => simp [encode8]
  | cons c t ih =>
    have hc : IsScalar c := ht c (by simp)
    have ht' : AllScalar t := fun x hx => ht x (by simp [hx])
    simp only [encs_cons]
    rw [encode8_enc wi hwi c hc, ih ht']
    simp [enc, Nat.add_assoc]

theorem decode16to32_valid (t : List Nat) (ht : AllScalar t)
    (pol : Policy) (mark : Option (List Nat)) (pos : Nat) (out : List Nat) (inv : Nat) :
    decode16to32 pol mark (encs 16 t) pos out inv
      = ⟨out ++ encs 32 t, .success, pos + (encs 16 t).length, inv⟩ := by
  induction t generalizing pos out inv with
  | nil => simp [decode16to32]
  | cons c t ih =>
    have hc : IsScalar c := ht c (by simp)
    have ht' : AllScalar t := fun x hx => ht x (by simp [hx])
    simp only [encs_cons]
    have e : enc 16 c = enc16 c := by simp [enc]
    rw [e, decode16to32_enc16 c hc, ih ht']
    simp [enc, enc32, Nat.add_assoc]

theorem encode16from32_valid (t : List Nat) (ht : AllScalar t)
    (pol : Policy) (mark : Option (List Nat)) (pos : Nat) (out : List Nat) (inv : Nat) :
    encode16from32 pol mark (encs 32 t) pos out inv
      = ⟨out ++ encs 16 t, .success, pos + (encs 32 t).length, inv⟩ := by
  induction t generalizing pos out inv with
  | nil => simp [encode16from32]
  | cons c t ih =>
    have hc : IsScalar c := ht c (by simp)
    have ht' : AllScalar t := fun x hx => ht x (by simp [hx])
    simp only [encs_cons]
    have e : enc 32 c = [c] := by simp [enc, enc32]
    rw [e, List.cons_append, List.nil_append, encode16from32_enc32 c hc, ih ht']
    simp [enc, Nat.add_assoc, Nat.add_comm 1]

/-- The standard UTF-16 form of scalars never ends in a (mis-tested) high surrogate. -/
theorem encs16_last (t : List Nat) (ht : AllScalar t) :
    ∀ u, (encs 16 t).getLast? = some u → ¬ (0xD800 ≤ u ∧ u < 0xDBFF) := by
  induction t with
  | nil => simp
  | cons c t ih =>
    have hc : IsScalar c := ht c (by simp)
    have ht' : AllScalar t := fun x hx => ht x (by simp [hx])
    intro u hu
    simp only [encs_cons, List.getLast?_append] at hu
    cases hl : (encs 16 t).getLast? with
    | some v =>
      rw [hl] at hu; simp at hu; subst hu; exact ih ht' v hl
    | none =>
      rw [hl] at hu
      obtain ⟨hlt, hns⟩ := hc
      simp only [Option.none_or] at hu
      by_cases h3 : c < 0x10000
      · simp [enc, enc16, h3] at hu; subst hu; omega
      · simp [enc, enc16, h3] at hu; subst hu; omega

theorem copy16_valid (t : List Nat) (ht : AllScalar t) (pos : Nat) (out : List Nat) :
    copy16 (encs 16 t) pos out = ⟨out ++ encs 16 t, .success, pos + (encs 16 t).length, 0⟩ :=
  copy16_no_high_at_end _ (encs16_last t ht) pos out

/-! #### C11 main statement, code-unit level: `Transcode` for all nine width pairs -/

def Width (w : Nat) : Prop := w = 8 ∨ w = 16 ∨ w = 32

/-- **C11 (units).** For every scalar list, every pair of widths, every policy, every mark and every
    prior output content: `Transcode` appends exactly the standard encoding form, reports
    Success, zero invalid sequences, and an iterator at the end of the input. -/
theorem transcode_valid (wi wo : Nat) (hwi : Width wi) (hwo : Width wo) (t : List Nat) (ht : AllScalar t)
    (pol : Policy) (mark : Option (List Nat)) (out : List Nat) :
    transcode wi wo pol mark (encs wi t) out
      = ⟨out ++ encs wo t, .success, (encs wi t).length, 0⟩ := by
  unfold transcode
  by_cases hEq : wi = wo
  · subst hEq; simp [copyAll]
  · rcases hwi with h | h | h <;> rcases hwo with h' | h' | h' <;> subst h <;> subst h' <;>
      first
      | exact absurd rfl hEq
      | (simp [utf8Encode, utf16Encode, utf32Encode, utf16Decode, encode8_valid, decode8_valid,
          decode16to32_valid, encode16from32_valid, ht])

/-- **C11 (reversibility).** Transcoding there and back restores the input exactly. -/
theorem transcode_roundtrip (wi wo : Nat) (hwi : Width wi) (hwo : Width wo) (t : List Nat) (ht : AllScalar t)
    (pol pol' : Policy) (mark mark' : Option (List Nat)) :
    (transcode wo wi pol' mark' (transcode wi wo pol mark (encs wi t) []).out []).out = encs wi t := by
  rw [transcode_valid wi wo hwi hwo t ht]
  simp only [List.nil_append]
  rw [transcode_valid wo wi hwo hwi t ht]
  simp

/-! #### the typed entry points `Utf8/Utf16/Utf32::{Decode,Encode}` -/

theorem utf8Decode_valid (wo : Nat) (hwo : wo = 16 ∨ wo = 32) (t) (ht : AllScalar t) (pol mark out) :
    utf8Decode wo pol mark (encs 8 t) out = ⟨out ++ encs wo t, .success, (encs 8 t).length, 0⟩ := by
  rcases hwo with h | h <;> subst h <;> simp [utf8Decode, decode8_valid, ht]

theorem utf8Encode_valid (wi : Nat) (hwi : wi = 16 ∨ wi = 32) (t) (ht : AllScalar t) (pol mark out) :
    utf8Encode wi pol mark (encs wi t) out = ⟨out ++ encs 8 t, .success, (encs wi t).length, 0⟩ := by
  simp [utf8Encode, encode8_valid wi hwi t ht]

theorem utf16Decode_valid (wo : Nat) (hwo : Width wo) (t) (ht : AllScalar t) (pol mark out) :
    utf16Decode wo pol mark (encs 16 t) out = ⟨out ++ encs wo t, .success, (encs 16 t).length, 0⟩ := by
  rcases hwo with h | h | h <;> subst h <;>
    simp [utf16Decode, encode8_valid, decode16to32_valid, copy16_valid, ht]

theorem utf16Encode_valid (wi : Nat) (hwi : Width wi) (t) (ht : AllScalar t) (pol mark out) :
    utf16Encode wi pol mark (encs wi t) out = ⟨out ++ encs 16 t, .success, (encs wi t).length, 0⟩ := by
  rcases hwi with h | h | h <;> subst h <;>
    simp [utf16Encode, decode8_valid, encode16from32_valid, copy16_valid, ht]

theorem utf32Decode_valid (wo : Nat) (hwo : Width wo) (t) (ht : AllScalar t) (pol mark out) :
    utf32Decode wo pol mark (encs 32 t) out = ⟨out ++ encs wo t, .success, (encs 32 t).length, 0⟩ := by
  rcases hwo with h | h | h <;> subst h <;>
    simp [utf32Decode, utf16Encode, encode8_valid, encode16from32_valid, copyAll, ht]

theorem utf32Encode_valid (wi : Nat) (hwi : Width wi) (t) (ht : AllScalar t) (pol mark out) :
    utf32Encode wi pol mark (encs wi t) out = ⟨out ++ encs 32 t, .success, (encs wi t).length, 0⟩ := by
  rcases hwi with h | h | h <;> subst h <;>
    simp [utf32Encode, utf16Decode, decode8_valid, decode16to32_valid, copyAll, ht]

/-! #### byte order -/

theorem reverse16_involutive (v : Nat) (h : v < 65536) : reverse16 (reverse16 v) = v := by
  obtain ⟨a, b, ha, hb, rfl⟩ : ∃ a b, a < 256 ∧ b < 256 ∧ v = a + 256 * b :=
    ⟨v % 256, v / 256, by omega, by omega, by omega⟩
  have h1 : (a + 256 * b) / 256 % 256 = b := by omega
  have h2 : (a + 256 * b) % 256 = a := by omega
  have h3 : (b + a * 256) / 256 % 256 = a := by omega
  have h4 : (b + a * 256) % 256 = b := by omega
  unfold reverse16; rw [h1, h2, h3, h4]; omega

theorem reverse32_bytes (a b c d : Nat) (ha : a < 256) (hb : b < 256) (hc : c < 256) (hd : d < 256) :
    reverse32 (a + 256 * b + 65536 * c + 16777216 * d) = d + 256 * c + 65536 * b + 16777216 * a := by
  have h1 : (a + 256 * b + 65536 * c + 16777216 * d) / 16777216 % 256 = d := by omega
  have h2 : (a + 256 * b + 65536 * c + 16777216 * d) / 65536 % 256 = c := by omega
  have h3 : (a + 256 * b + 65536 * c + 16777216 * d) / 256 % 256 = b := by omega
  have h4 : (a + 256 * b + 65536 * c + 16777216 * d) % 256 = a := by omega
  unfold reverse32; rw [h1, h2, h3, h4]; omega

theorem reverse32_involutive (v : Nat) (h : v < 4294967296) : reverse32 (reverse32 v) = v := by
  obtain ⟨a, b, c, d, ha, hb, hc, hd, rfl⟩ : ∃ a b c d, a < 256 ∧ b < 256 ∧ c < 256 ∧ d < 256 ∧
      v = a + 256 * b + 65536 * c + 16777216 * d :=
    ⟨v % 256, v / 256 % 256, v / 65536 % 256, v / 16777216, by omega, by omega, by omega, by omega, by omega⟩
  rw [reverse32_bytes a b c d ha hb hc hd, reverse32_bytes d c b a hd hc hb ha]

/-- `Memory::Reverse` is what a little-endian host sees when it loads big-endian bytes. -/
theorem reverse16_is_be (u : Nat) :
    unitOfBytesLE (unitBytesBE 16 u) = reverse16 u := by
  simp [unitBytesBE, unitBytesLE, unitOfBytesLE, reverse16, List.range_succ]; omega

theorem reverse32_is_be (u : Nat) :
    unitOfBytesLE (unitBytesBE 32 u) = reverse32 u := by
  simp [unitBytesBE, unitBytesLE, unitOfBytesLE, reverse32, List.range_succ]; omega

theorem le_roundtrip16 (u : Nat) (_h : u < 65536) : unitOfBytesLE (unitBytesLE 16 u) = u := by
  simp [unitBytesLE, unitOfBytesLE, List.range_succ]; omega

theorem le_roundtrip32 (u : Nat) (_h : u < 4294967296) : unitOfBytesLE (unitBytesLE 32 u) = u := by
  simp [unitBytesLE, unitOfBytesLE, List.range_succ]; omega

/-! #### non-vacuity -/

example : AllScalar [0x41, 0x7FF, 0x800, 0xFFFF, 0x10000, 0x10FFFF, 0] := by
  intro c hc; simp at hc; rcases hc with h | h | h | h | h | h | h <;> subst h <;> decide

example : (transcode 8 16 .skip none (encs 8 [0x41, 0x20AC, 0x1F600]) [7]).out
    = [7, 0x41, 0x20AC, 0xD83D, 0xDE00] := by
  rw [transcode_valid 8 16 (by simp [Width]) (by simp [Width]) _ (by unfold AllScalar; decide)]; decide

end BSVerif.Props.C11

/-! #### obligations over constants regenerated from the source tree (tools/translate.py) -/
namespace BSVerif.Props.C11
open BSVerif.Generated.Utf

/-- The surrogate range constants compiled into the library are the Unicode ones (D71/D73),
    i.e. the ones the model and the theorems above use as literals. -/
theorem consts_surrogates :
    highSurrogatesStart = 0xD800 ∧ highSurrogatesEnd = 0xDBFF ∧ lowSurrogatesStart = 0xDC00 ∧ lowSurrogatesEnd = 0xDFFF := by
  decide

end BSVerif.Props.C11
