/-
  C03 — Named fields load correctly in any request order, with absent and unread fields.

  PROPERTY THEOREMS ONLY (helpers: BSVerif/Scope/{Lemmas,Cursor}.lean).
  Setting: an object of ANY size whose entries are ANY complete values (scalars, nested arrays,
  nested objects — `Layout.WF`), embedded anywhere in a document (`pre`, `post` arbitrary), read
  through the model of CMsgPackReadObjectScope over the token-level reader. Quantifiers: all
  layouts, all cursor states satisfying the invariant, all keys (present, absent, repeated), all
  target kinds, both mismatched-types policies, all request histories (unbounded length).
-/
import BSVerif.Scope.Cursor
import BSVerif.Scope.VarKey
import BSVerif.Scope.Spec

namespace BSVerif.Props.C03
open BSVerif.Scope

/-- the abstract answer to `SerializeValue(key, value of kind ty)` on the object `L` -/
def AnswerOK (L : Layout) (mis : Mis) (q : Key × Ty) (a : Option Sc) : Prop :=
  (∃ (m : Nat) (e : Key × List Tok), L.entries[m]? = some e ∧ e.1 = q.1 ∧ valueAnswer mis q.2 e.2 = .ok a) ∨
  ((∀ m, keyAt L m ≠ some q.1) ∧ a = none)

/-- the exception a request may raise: exactly the policy's exception for the value stored under that key -/
def ErrorOK (L : Layout) (mis : Mis) (q : Key × Ty) (err : Err) : Prop :=
  ∃ (m : Nat) (e : Key × List Tok), L.entries[m]? = some e ∧ e.1 = q.1 ∧ valueAnswer mis q.2 e.2 = .error err

/-- **C03, one request.** From any cursor state satisfying the invariant, a request for any key and
    kind returns exactly the value stored under that key (or "not loaded" for an absent key, a nil,
    or a value skipped by policy; or the policy's exception), and re-establishes the invariant. -/
theorem get_correct (L : Layout) (hwf : L.WF) (q : Key × Ty) (o : Obj) (r : Rd) (hinv : Inv L o r) :
    match objGet q.1 q.2 o r with
    | .ok (a, o', r') => AnswerOK L r.mis q a ∧ Inv L o' r' ∧ r'.mis = r.mis
    | .error err => ErrorOK L r.mis q err := by
  rcases objGet_spec L hwf q.1 q.2 o r hinv with ⟨m, e, he, hk, h⟩ | ⟨hno, o', r', h, hinv', hm⟩
  · cases hva : valueAnswer r.mis q.2 e.2 with
    | ok a =>
      rw [hva] at h
      obtain ⟨o', r', h1, h2, h3⟩ := h
      rw [h1]
      exact ⟨Or.inl ⟨m, e, he, hk, hva⟩, h2, h3⟩
    | error err =>
      rw [hva] at h
      rw [h]
      exact ⟨m, e, he, hk, hva⟩
  · rw [h]
    exact ⟨Or.inr ⟨hno, rfl⟩, hinv', hm⟩

/-- pointwise relation between the requests and the answers of a history -/
inductive Forall2 {α β : Type} (R : α → β → Prop) : List α → List β → Prop where
  | nil : Forall2 R [] []
  | cons {a b as bs} : R a b → Forall2 R as bs → Forall2 R (a :: as) (b :: bs)

/-- a history of requests on one object scope -/
def runGets : List (Key × Ty) → Obj → Rd → Except Err (List (Option Sc) × Obj × Rd)
  | [], o, r => .ok ([], o, r)
  | q :: qs, o, r =>
    match objGet q.1 q.2 o r with
    | .error e => .error e
    | .ok (a, o', r') =>
      match runGets qs o' r' with
      | .error e => .error e
      | .ok (as, o'', r'') => .ok (a :: as, o'', r'')

/-- **C03, every history.** Any sequence of requests — any order, repeated keys, absent keys — gets,
    request by request, exactly the abstract answers; if an exception is raised it is the policy's
    exception for one of the requested fields. -/
theorem history_correct (L : Layout) (hwf : L.WF) (qs : List (Key × Ty)) :
    ∀ (o : Obj) (r : Rd), Inv L o r →
    match runGets qs o r with
    | .ok (as, o', r') => Forall2 (AnswerOK L r.mis) qs as ∧ Inv L o' r' ∧ r'.mis = r.mis
    | .error err => ∃ q ∈ qs, ErrorOK L r.mis q err := by
  induction qs with
  | nil => intro o r h; exact ⟨Forall2.nil, h, rfl⟩
  | cons q qs ih =>
    intro o r hinv
    have hg := get_correct L hwf q o r hinv
    unfold runGets
    cases hobj : objGet q.1 q.2 o r with
    | error e => rw [hobj] at hg; exact ⟨q, by simp, hg⟩
    | ok res =>
      obtain ⟨a, o', r'⟩ := res
      rw [hobj] at hg
      obtain ⟨ha, hinv', hm⟩ := hg
      have := ih o' r' hinv'
      cases hr : runGets qs o' r' with
      | error e =>
        rw [hr] at this
        obtain ⟨q', hq', he'⟩ := this
        simp only [hr]
        exact ⟨q', by simp [hq'], hm ▸ he'⟩
      | ok res2 =>
        obtain ⟨as, o'', r''⟩ := res2
        rw [hr] at this
        obtain ⟨h1, h2, h3⟩ := this
        simp only [hr]
        exact ⟨Forall2.cons ha (hm ▸ h1), h2, by rw [h3, hm]⟩

/-- **C03, unread fields are skipped.** After ANY history, destroying the scope leaves the reader
    exactly behind the object, so the data that follows it is read correctly. -/
theorem close_after_any_history (L : Layout) (hwf : L.WF) (qs : List (Key × Ty)) (o : Obj) (r : Rd) (hinv : Inv L o r)
    (as : List (Option Sc)) (o' : Obj) (r' : Rd) (hrun : runGets qs o r = .ok (as, o', r')) :
    ∃ o'' r'', objClose o' r' = .ok (o'', r'') ∧ r''.pos = L.posOf L.size ∧ r''.rest = L.post := by
  have h := history_correct L hwf qs o r hinv
  rw [hrun] at h
  obtain ⟨o'', r'', h1, h2, h3, _⟩ := objClose_spec L hwf o' r' h.2.1
  refine ⟨o'', r'', h1, h2, ?_⟩
  have hdoc : r''.doc = L.doc := by
    obtain ⟨i, c, hat, _⟩ := h.2.1
    rw [h3, hat.doc]
  have := rest_at L r'' hdoc L.size h2
  rw [this]
  simp [Layout.size]

/-- a freshly opened scope (`OpenObjectScope` right after the map header) satisfies the invariant -/
theorem fresh_scope_inv (L : Layout) (r : Rd) (hdoc : r.doc = L.doc) (hpos : r.pos = L.posOf 0) :
    Inv L ⟨r.pos, L.size, 0, none⟩ r := inv_init L r hdoc hpos

/-! #### histories with array scopes left partly read

`~CMsgPackReadArrayScope` skips the elements that were not read (fix 0b9e4f2; errors of the skip are deferred to
`Finalize()`), so an array scope opened under a key may be left wherever the caller likes — a `std::tuple` shorter
than the array under the Skip policy, a partly read nested array — without disturbing what is requested
afterwards. The request language of the history theorems is extended accordingly. -/

/-- a request on an object scope: a scalar by key, the array under a key read with the target kinds `tys`
    (as many or as few elements as the caller likes) and closed, or the `bin` value under a key opened as a binary
    scope of which `n` bytes (all, some, none) are read before it is closed -/
inductive OReq where
  | get (k : Key) (ty : Ty)
  | arr (k : Key) (tys : List Ty)
  | bin (k : Key) (n : Nat)

inductive OAns where
  | val (a : Option Sc)
  | arr (a : Option (List (Option Sc)))
  | bin (a : Option (List Nat))

def runReq : OReq → Obj → Rd → Except Err (OAns × Obj × Rd)
  | .get k ty, o, r =>
    match objGet k ty o r with
    | .ok (a, o', r') => .ok (.val a, o', r')
    | .error e => .error e
  | .arr k tys, o, r =>
    match objReadArr k tys o r with
    | .ok (a, o', r') => .ok (.arr a, o', r')
    | .error e => .error e
  | .bin k n, o, r =>
    match objReadBin k n o r with
    | .ok (a, o', r') => .ok (.bin a, o', r')
    | .error e => .error e

def runReqs : List OReq → Obj → Rd → Except Err (List OAns × Obj × Rd)
  | [], o, r => .ok ([], o, r)
  | q :: qs, o, r =>
    match runReq q o r with
    | .error e => .error e
    | .ok (a, o', r') =>
      match runReqs qs o' r' with
      | .error e => .error e
      | .ok (as, o'', r'') => .ok (a :: as, o'', r'')

/-- the abstract answer to a request: for an array request, the answers for the FIRST `tys.length` elements of the
    array stored under the key (`none`: absent key, nil, or a value of another kind under Skip) -/
def ReqAnswerOK (L : Layout) (mis : Mis) : OReq → OAns → Prop
  | .get k ty, .val a => AnswerOK L mis (k, ty) a
  | .arr k tys, .arr a =>
    (∃ (m : Nat) (e : Key × List Tok), L.entries[m]? = some e ∧ e.1 = k ∧ ArrOutcome mis tys e.2 (.ok a)) ∨
    ((∀ m, keyAt L m ≠ some k) ∧ a = none)
  -- a binary-scope request: the FIRST `n` bytes of the `bin` value stored under the key (`none`: absent key or a value
  -- that is not a `bin`, which is left in place)
  | .bin k n, .bin a =>
    (∃ (m : Nat) (e : Key × List Tok), L.entries[m]? = some e ∧ e.1 = k ∧ BinOutcome n e.2 (.ok a)) ∨
    ((∀ m, keyAt L m ≠ some k) ∧ a = none)
  | _, _ => False

/-- the exception a request may raise: the policy's exception for the requested field / for one of the requested
    elements, or OutOfRange for an element beyond the end of the array -/
def ReqErrorOK (L : Layout) (mis : Mis) : OReq → Err → Prop
  | .get k ty, err => ErrorOK L mis (k, ty) err
  | .arr k tys, err => ∃ (m : Nat) (e : Key × List Tok), L.entries[m]? = some e ∧ e.1 = k ∧ ArrOutcome mis tys e.2 (.error err)
  -- more bytes requested than the value has: OutOfRange
  | .bin k n, err => ∃ (m : Nat) (e : Key × List Tok), L.entries[m]? = some e ∧ e.1 = k ∧ BinOutcome n e.2 (.error err)

/-- **one request of the extended language** re-establishes the cursor invariant, whatever part of an array or of a
    `bin` value it left unread (the values of the object may be ext values / timestamps: `Layout.WF` admits every
    complete value) -/
theorem req_correct (L : Layout) (hwf : L.WF) (harr : L.ArrWF) (q : OReq) (o : Obj) (r : Rd) (hinv : Inv L o r) :
    match runReq q o r with
    | .ok (a, o', r') => ReqAnswerOK L r.mis q a ∧ Inv L o' r' ∧ r'.mis = r.mis
    | .error err => ReqErrorOK L r.mis q err := by
  cases q with
  | get k ty =>
    have hg := get_correct L hwf (k, ty) o r hinv
    simp only [runReq]
    cases hobj : objGet k ty o r with
    | error e => rw [hobj] at hg; exact hg
    | ok res => obtain ⟨a, o', r'⟩ := res; rw [hobj] at hg; exact hg
  | arr k tys =>
    simp only [runReq]
    rcases objReadArr_spec L hwf harr k tys o r hinv with ⟨m, e, out, he, hk, hout, h⟩ | ⟨hno, o', r', h, hinv', hm⟩
    · cases out with
      | ok a =>
        obtain ⟨o', r', h1, h2, h3⟩ := h
        rw [h1]
        exact ⟨Or.inl ⟨m, e, he, hk, hout⟩, h2, h3⟩
      | error err =>
        simp only at h
        rw [h]
        exact ⟨m, e, he, hk, hout⟩
    · rw [h]
      exact ⟨Or.inr ⟨hno, rfl⟩, hinv', hm⟩
  | bin k n =>
    simp only [runReq]
    rcases objReadBin_spec L hwf k n o r hinv with ⟨m, e, out, he, hk, hout, h⟩ | ⟨hno, o', r', h, hinv', hm⟩
    · cases out with
      | ok a =>
        obtain ⟨o', r', h1, h2, h3⟩ := h
        rw [h1]
        exact ⟨Or.inl ⟨m, e, he, hk, hout⟩, h2, h3⟩
      | error err =>
        simp only at h
        rw [h]
        exact ⟨m, e, he, hk, hout⟩
    · rw [h]
      exact ⟨Or.inr ⟨hno, rfl⟩, hinv', hm⟩

/-- **C03, every history, with arrays left partly read.** Any sequence of requests — scalars by key in any order,
    repeated and absent keys, arrays by key of which only the first few elements (or none) are read before the
    array scope is destroyed, and `bin` values by key opened as binary scopes of which all, some or none of the bytes
    are read (also `OpenBinaryScope` on values that are not `bin`) — gets, request by request, exactly the abstract
    answers: an array or a `bin` value left partly read disturbs nothing that follows. If an exception is raised it is the policy's exception for one of the requests. -/
theorem history_with_arrays_correct (L : Layout) (hwf : L.WF) (harr : L.ArrWF) (qs : List OReq) :
    ∀ (o : Obj) (r : Rd), Inv L o r →
    match runReqs qs o r with
    | .ok (as, o', r') => Forall2 (ReqAnswerOK L r.mis) qs as ∧ Inv L o' r' ∧ r'.mis = r.mis
    | .error err => ∃ q ∈ qs, ReqErrorOK L r.mis q err := by
  induction qs with
  | nil => intro o r h; exact ⟨Forall2.nil, h, rfl⟩
  | cons q qs ih =>
    intro o r hinv
    have hg := req_correct L hwf harr q o r hinv
    unfold runReqs
    cases hobj : runReq q o r with
    | error e => rw [hobj] at hg; exact ⟨q, by simp, hg⟩
    | ok res =>
      obtain ⟨a, o', r'⟩ := res
      rw [hobj] at hg
      obtain ⟨ha, hinv', hm⟩ := hg
      have := ih o' r' hinv'
      cases hr : runReqs qs o' r' with
      | error e =>
        rw [hr] at this
        obtain ⟨q', hq', he'⟩ := this
        simp only [hr]
        exact ⟨q', by simp [hq'], hm ▸ he'⟩
      | ok res2 =>
        obtain ⟨as, o'', r''⟩ := res2
        rw [hr] at this
        obtain ⟨h1, h2, h3⟩ := this
        simp only [hr]
        exact ⟨Forall2.cons ha (hm ▸ h1), h2, by rw [h3, hm]⟩

/-- **C03, unread fields, unread elements and unread bytes are skipped.** After ANY history of the extended language,
    destroying the object scope leaves the reader exactly behind the object. -/
theorem close_after_any_history_with_arrays (L : Layout) (hwf : L.WF) (harr : L.ArrWF) (qs : List OReq) (o : Obj) (r : Rd)
    (hinv : Inv L o r) (as : List OAns) (o' : Obj) (r' : Rd) (hrun : runReqs qs o r = .ok (as, o', r')) :
    ∃ o'' r'', objClose o' r' = .ok (o'', r'') ∧ r''.pos = L.posOf L.size ∧ r''.rest = L.post := by
  have h := history_with_arrays_correct L hwf harr qs o r hinv
  rw [hrun] at h
  obtain ⟨o'', r'', h1, h2, h3, _⟩ := objClose_spec L hwf o' r' h.2.1
  refine ⟨o'', r'', h1, h2, ?_⟩
  have hdoc : r''.doc = L.doc := by
    obtain ⟨i, c, hat, _⟩ := h.2.1
    rw [h3, hat.doc]
  have := rest_at L r'' hdoc L.size h2
  rw [this]
  simp [Layout.size]

/-! the composite requests are what the scope machine — the model that is run against the real scopes — does -/

def toAns : Option Sc → Ans
  | some v => .val v
  | none => .no

/-- `arrReads` = the machine's `SerializeValue` steps on an array scope -/
theorem arrReads_is_machine (tys : List Ty) : ∀ (size index : Nat) (r : Rd) (tl : List Scope) (d : Option Err)
    (as : List (Option Sc)) (idx : Nat) (r' : Rd), arrReads tys size index r = .ok (as, idx, r') →
    ∀ qs, run ⟨r, .arr size index :: tl, d⟩ (tys.map .next ++ qs) = as.map toAns ++ run ⟨r', .arr size idx :: tl, d⟩ qs := by
  induction tys with
  | nil =>
    intro size index r tl d as idx r' h qs
    simp only [arrReads, Except.ok.injEq, Prod.mk.injEq] at h
    obtain ⟨rfl, rfl, rfl⟩ := h
    rfl
  | cons ty tys ih =>
    intro size index r tl d as idx r' h qs
    simp only [arrReads] at h
    cases hc : checkEnd size index with
    | error e => simp [hc] at h
    | ok u =>
      cases hr : r.readValue ty with
      | error e => simp [hc, hr] at h
      | ok res =>
        obtain ⟨a, r1⟩ := res
        cases hrest : arrReads tys size (index + 1) r1 with
        | error e => simp [hc, hr, hrest] at h
        | ok res2 =>
          obtain ⟨as', idx', r2⟩ := res2
          simp only [hc, hr, hrest, Except.ok.injEq, Prod.mk.injEq] at h
          obtain ⟨rfl, rfl, rfl⟩ := h
          have := ih size (index + 1) r1 tl d as' idx' r2 hrest qs
          cases a with
          | some v => simp only [List.map_cons, List.cons_append, run, step, hc, hr, toAns, this]
          | none => simp only [List.map_cons, List.cons_append, run, step, hc, hr, toAns, this]

/-- **`objReadArr` = the machine's `OpenArrayScope(key)`, element requests, destruction of the array scope**, from any
    state of the enclosing object scope and whatever is requested afterwards (`qs`) -/
theorem objReadArr_is_machine (key : Key) (tys : List Ty) (o : Obj) (r : Rd) (tl : List Scope) (d : Option Err) :
    match objReadArr key tys o r with
    | .ok (some as, o', r') => ∃ n, ∀ qs,
        run ⟨r, .obj o :: tl, d⟩ (.openArrK key :: (tys.map .next ++ .close :: qs))
          = .opened n :: (as.map toAns ++ .closed :: run ⟨r', .obj o' :: tl, d⟩ qs)
    | .ok (none, o', r') => ∀ qs,
        run ⟨r, .obj o :: tl, d⟩ (.openArrK key :: qs) = .no :: run ⟨r', .obj o' :: tl, d⟩ qs
    | .error _ => True := by
  unfold objReadArr
  cases hf : findValueByKey key o r with
  | error e => trivial
  | ok res =>
    obtain ⟨b, o1, r1⟩ := res
    cases b with
    | false => intro qs; simp only [run, step, hf]
    | true =>
      simp only
      cases hs : r1.readArraySize with
      | error e => trivial
      | ok res2 =>
        obtain ⟨sz, r2⟩ := res2
        cases sz with
        | none => intro qs; simp only [run, step, hf, hs]
        | some n =>
          simp only
          cases hrd : arrReads tys n 0 r2 with
          | error e => trivial
          | ok res3 =>
            obtain ⟨as, idx, r3⟩ := res3
            simp only
            cases hcl : arrClose n idx r3 with
            | error e => trivial
            | ok r4 =>
              refine ⟨n, fun qs => ?_⟩
              have := arrReads_is_machine tys n 0 r2 (.obj o1 :: tl) d as idx r3 hrd (.close :: qs)
              simp only [run, step, hf, hs, this, hcl, notifyParent]

def byteAns (b : Nat) : Ans := .val (.byte b)

/-- `binReads` = the machine's `SerializeValue(byte)` steps on a binary scope -/
theorem binReads_is_machine (k : Nat) : ∀ (size index : Nat) (r : Rd) (tl : List Scope) (d : Option Err)
    (bs : List Nat) (idx : Nat), binReads k size index r = .ok (bs, idx) →
    ∀ qs, run ⟨r, .bin size index :: tl, d⟩ (List.replicate k .readByte ++ qs) = bs.map byteAns ++ run ⟨r, .bin size idx :: tl, d⟩ qs := by
  induction k with
  | zero =>
    intro size index r tl d bs idx h qs
    simp only [binReads, Except.ok.injEq, Prod.mk.injEq] at h
    obtain ⟨rfl, rfl⟩ := h
    rfl
  | succ k ih =>
    intro size index r tl d bs idx h qs
    simp only [binReads] at h
    cases hc : checkEnd size index with
    | error e => simp [hc] at h
    | ok u =>
      cases hr : r.readBinary index with
      | error e => simp [hc, hr] at h
      | ok b =>
        cases hrest : binReads k size (index + 1) r with
        | error e => simp [hc, hr, hrest] at h
        | ok res2 =>
          obtain ⟨bs', idx'⟩ := res2
          simp only [hc, hr, hrest, Except.ok.injEq, Prod.mk.injEq] at h
          obtain ⟨rfl, rfl⟩ := h
          have := ih size (index + 1) r tl d bs' idx' hrest qs
          simp only [List.replicate_succ, List.map_cons, List.cons_append, run, step, hc, hr, byteAns, this]

/-- **`objReadBin` = the machine's `OpenBinaryScope(key)`, byte requests, destruction of the binary scope**, from any
    state of the enclosing object scope and whatever is requested afterwards (`qs`) -/
theorem objReadBin_is_machine (key : Key) (k : Nat) (o : Obj) (r : Rd) (tl : List Scope) (d : Option Err) :
    match objReadBin key k o r with
    | .ok (some bs, o', r') => ∃ n, ∀ qs,
        run ⟨r, .obj o :: tl, d⟩ (.openBinK key :: (List.replicate k .readByte ++ .close :: qs))
          = .opened n :: (bs.map byteAns ++ .closed :: run ⟨r', .obj o' :: tl, d⟩ qs)
    | .ok (none, o', r') => ∀ qs,
        run ⟨r, .obj o :: tl, d⟩ (.openBinK key :: qs) = .no :: run ⟨r', .obj o' :: tl, d⟩ qs
    | .error _ => True := by
  unfold objReadBin
  cases hf : findValueByKey key o r with
  | error e => trivial
  | ok res =>
    obtain ⟨b, o1, r1⟩ := res
    cases b with
    | false => intro qs; simp only [run, step, hf]
    | true =>
      simp only
      cases hb : r1.isBinary with
      | error e => trivial
      | ok isb =>
        cases isb with
        | false => intro qs; simp only [run, step, hf, hb]
        | true =>
          simp only
          cases hs : r1.readBinarySize with
          | error e => trivial
          | ok res2 =>
            obtain ⟨sz, r2⟩ := res2
            cases sz with
            | none => intro qs; simp only [run, step, hf, hb, hs]
            | some n =>
              simp only
              cases hrd : binReads k n 0 r2 with
              | error e => trivial
              | ok res3 =>
                obtain ⟨bs, idx⟩ := res3
                simp only
                cases hcl : binClose n idx r2 with
                | error e => trivial
                | ok r3 =>
                  refine ⟨n, fun qs => ?_⟩
                  have := binReads_is_machine k n 0 r2 (.obj o1 :: tl) d bs idx hrd (.close :: qs)
                  simp only [run, step, hf, hb, hs, this, hcl, notifyParent]

/-- the composite `objReadArr` is what the scope machine (the model run against the real scopes) does for the requests
    `OpenArrayScope(key)`, one `SerializeValue` per kind, destroy — on the witness of the former finding and around it -/
example :
    let doc : List Tok := [.map 2, .str [97], .arr 3, .int 1, .str [120], .int 3, .str [98], .int 5, .int 7]
    (objReadArr (.str [97]) [.int, .int] ⟨1, 2, 0, none⟩ ⟨doc, 1, .skip⟩).toOption.map (fun x => (x.1, x.2.2.pos))
      = some (some [some (.int 1), none], 6) ∧
    run (initSt doc .skip) [.openObj, .openArrK (.str [97]), .next .int, .next .int, .close, .get (.str [98]) .int, .close, .next .int]
      = [.opened 2, .opened 3, .val (.int 1), .no, .closed, .val (.int 5), .closed, .val (.int 7)] := by
  decide

/-! #### the former finding `msgpack-array-left-partly-read`: now a positive statement -/

/-- the witness of the former finding: `{"a":[1,2,3],"b":5} 7`, open "a", read one element, close, request "b",
    close, read the sentinel — every answer is the data-model answer -/
theorem array_left_partly_read_harmless :
    run (initSt [.map 2, .str [97], .arr 3, .int 1, .int 2, .int 3, .str [98], .int 5, .int 7] .skip)
        [.openObj, .openArrK (.str [97]), .next .int, .close, .get (.str [98]) .int, .close, .next .int]
      = [.opened 2, .opened 3, .val (.int 1), .closed, .val (.int 5), .closed, .val (.int 7)] := by
  decide

/-- the scope machine WITHOUT the skip loop in `~CMsgPackReadArrayScope` (the code before fix 0b9e4f2) -/
def stepBeforeFix (st : St) (req : Req) : Ans × St :=
  match st.stack, req with
  | .arr _ _ :: tl, .close => (.closed, { st with stack := notifyParent tl })
  | _, _ => step st req

def runBeforeFix : St → List Req → List Ans
  | _, [] => []
  | st, q :: qs =>
    match stepBeforeFix st q with
    | (.err e, _) => [.err e]
    | (.terminate, _) => [.terminate]
    | (.badReq, _) => [.badReq]
    | (a, st') => a :: runBeforeFix st' qs

/-- why the loop is needed (documented refutation of the unrepaired code): without it the same history reads "b" from
    inside the array -/
theorem array_left_partly_read_refuted_before_fix :
    runBeforeFix (initSt [.map 2, .str [97], .arr 3, .int 1, .int 2, .int 3, .str [98], .int 5, .int 7] .skip)
        [.openObj, .openArrK (.str [97]), .next .int, .close, .get (.str [98]) .int, .close, .next .int]
      ≠ [.opened 2, .opened 3, .val (.int 1), .closed, .val (.int 5), .closed, .val (.int 7)] := by
  decide

/-- a truncated document: the skip loop of a destructor fails, the scope is closed all the same (`C`), and the error
    surfaces from `Finalize()` after the last request — never `terminate` (C20) -/
example :
    run (initSt [.map 2, .str [97], .arr 3, .int 1] .skip) [.openObj, .openArrK (.str [97]), .next .int, .close, .close]
      = [.opened 2, .opened 3, .val (.int 1), .closed, .closed, .err .parsing] := by
  decide

/-! #### binary scopes left partly read (the former defect of `CMsgPackReadBinaryScope`): a positive statement

`~CMsgPackReadBinaryScope` skips the bytes that were not read (errors deferred to `Finalize()`); before that repair a
binary scope closed early left the reader inside the payload. -/

/-- the witness: `{"a": bin(1,2,3,4,5), "b": 5} 7`, open "a" as a binary scope, read two bytes, close, request "b",
    close, read the sentinel — every answer is the data-model answer -/
theorem binary_left_partly_read_harmless :
    run (initSt [.map 2, .str [97], .bin [1, 2, 3, 4, 5], .str [98], .int 5, .int 7] .skip)
        [.openObj, .openBinK (.str [97]), .readByte, .readByte, .close, .get (.str [98]) .int, .close, .next .int]
      = [.opened 2, .opened 5, .val (.byte 1), .val (.byte 2), .closed, .val (.int 5), .closed, .val (.int 7)] := by
  decide

/-- the same inside an array and at the root, read partly and not at all; `OpenBinaryScope` on the value that is not a
    `bin` leaves it in place and does not count it -/
theorem binary_left_partly_read_harmless_in_array :
    run (initSt [.arr 3, .bin [1, 2, 3, 4, 5], .int 9, .bin [6, 7], .bin [8, 9], .int 7] .skip)
        [.openArr, .openBin, .readByte, .close, .openBin, .next .int, .openBin, .close, .isEnd, .close,
         .openBin, .close, .next .int]
      = [.opened 3, .opened 5, .val (.byte 1), .closed, .no, .val (.int 9), .opened 2, .closed, .flag true, .closed,
         .opened 2, .closed, .val (.int 7)] := by
  decide

/-- single-byte MessagePack values: what a reader that was left inside a payload takes the next byte for -/
def byteTok (b : Nat) : Option Tok :=
  if b < 128 then some (.int b)
  else if b = 0xc0 then some .nil
  else if b = 0xc2 then some (.bool false)
  else if b = 0xc3 then some (.bool true)
  else if 0xe0 ≤ b ∧ b < 256 then some (.int (Int.ofNat b - 256))
  else none

/-- the scope machine WITHOUT `~CMsgPackReadBinaryScope` (the code before the fix): the reader stays where the last byte
    request left it, so the rest of the payload is what the enclosing scope reads next. At the token level: the `bin`
    token is replaced by its unread bytes taken as values. Domain of this description (otherwise `badReq`): unread bytes
    that are single-byte values, and no object scope below (an object scope may seek back and skip the intact value). -/
def stepBeforeBinFix (st : St) (req : Req) : Ans × St :=
  match st.stack, req with
  | .bin _ index :: tl, .close =>
    match st.rd.rest with
    | .bin bs :: _ =>
      if tl.all (fun s => match s with | .obj _ => false | _ => true) then
        match (bs.drop index).mapM byteTok with
        | some ts =>
          (.closed, { st with rd := { st.rd with doc := st.rd.doc.take st.rd.pos ++ ts ++ st.rd.doc.drop (st.rd.pos + 1) }, stack := tl })
        | none => (.badReq, st)
      else (.badReq, st)
    | _ => (.badReq, st)
  | _, _ => step st req

def runBeforeBinFix : St → List Req → List Ans
  | st, [] =>
    match st.deferred with
    | some e => [.err e]
    | none => []
  | st, q :: qs =>
    match stepBeforeBinFix st q with
    | (.err e, _) => [.err e]
    | (.terminate, _) => [.terminate]
    | (.badReq, _) => [.badReq]
    | (a, st') => a :: runBeforeBinFix st' qs

/-- why the destructor is needed (documented refutation of the unrepaired code): `[bin(1,2,3,4,5), 9] 7`, one byte read —
    without the skip the array's second element is read from inside the payload (`2`), and the sentinel too (`3`); these
    are the answers the unrepaired real code gave (`P2;P5;T01;C;Ti2;C;Ti3`) -/
theorem binary_left_partly_read_refuted_before_fix :
    runBeforeBinFix (initSt [.arr 2, .bin [1, 2, 3, 4, 5], .int 9, .int 7] .skip)
        [.openArr, .openBin, .readByte, .close, .next .int, .close, .next .int]
      = [.opened 2, .opened 5, .val (.byte 1), .closed, .val (.int 2), .closed, .val (.int 3)] ∧
    run (initSt [.arr 2, .bin [1, 2, 3, 4, 5], .int 9, .int 7] .skip)
        [.openArr, .openBin, .readByte, .close, .next .int, .close, .next .int]
      = [.opened 2, .opened 5, .val (.byte 1), .closed, .val (.int 9), .closed, .val (.int 7)] := by
  decide

/-! #### ext values and timestamps: complete values like any other -/

/-- an ext value of any type and payload, and a timestamp, are complete values: `SkipValue` passes over exactly the one
    token (byte level: header + type + payload, `C05.reader_skip_exact`), so the history theorems above hold for
    objects that contain them -/
theorem ext_and_timestamp_are_complete_values (ty : Int) (p : List Nat) (sec : Int) (ns : Nat) :
    WFv [.ext ty p] ∧ WFv [.ts sec ns] ∧ WFv [keyTok (.ts sec ns)] :=
  ⟨wfv_scalar _ rfl, wfv_scalar _ rfl, wfv_scalar _ rfl⟩

/-- unread ext values and timestamp keys in front of, between and behind the requested fields: passed over when the scan
    goes by and when the scope closes; a timestamp loads only into the timestamp target -/
example :
    run (initSt [.map 4, .str [97], .ext 5 [1, 2, 3], .ts 5 0, .ext (-128) [], .str [98], .int 5, .int 3, .ts 1700000000 999999999, .int 7] .skip)
        [.openObj, .get (.str [98]) .int, .get (.int 3) .ts, .get (.ts 5 0) .ts, .get (.int 3) .int, .get (.str [97]) .ts, .close, .next .int]
      = [.opened 4, .val (.int 5), .val (.ts 1700000000 999999999), .no, .no, .no, .closed, .val (.int 7)] := by
  decide

/-- an integer token outside int64 (a uint64 value ≥ 2^63) does not fit the int64 target: Overflow, not a value -/
example :
    run (initSt [.int 9223372036854775808] .throwError) [.next .int] = [.err .overflow] ∧
    run (initSt [.int 9223372036854775807] .throwError) [.next .int] = [.val (.int 9223372036854775807)] ∧
    run (initSt [.int (-9223372036854775808)] .throwError) [.next .int] = [.val (.int (-9223372036854775808))] := by
  decide

/-! #### non-vacuity -/

def exampleLayout : Layout := ⟨[.map 2], [(.str [97], [.arr 2, .int 1, .int 2]), (.int 5, [.str [120]])], [.int 7]⟩

example : exampleLayout.WF := by
  intro e he
  simp [exampleLayout] at he
  rcases he with rfl | rfl
  · exact wfv_arr [[.int 1], [.int 2]] (by intro v hv; simp at hv; rcases hv with rfl | rfl <;> exact wfv_scalar _ rfl)
  · exact wfv_scalar _ rfl

example : exampleLayout.ArrWF := by
  intro e he n ts h
  simp [exampleLayout] at he
  rcases he with rfl | rfl
  · exact ⟨[[.int 1], [.int 2]], rfl, by intro v hv; simp at hv; rcases hv with rfl | rfl <;> exact wfv_scalar _ rfl⟩
  · simp at h

/-- a layout with an ext value, a timestamp key and a `bin` value -/
def exampleLayout2 : Layout :=
  ⟨[.map 3], [(.str [97], [.bin [1, 2, 3]]), (.ts 5 0, [.ext 7 [9, 9]]), (.int 5, [.str [120]])], [.int 7]⟩

example : exampleLayout2.WF := by
  intro e he
  simp [exampleLayout2] at he
  rcases he with rfl | rfl | rfl <;> exact wfv_scalar _ rfl

example : exampleLayout2.ArrWF := by
  intro e he n ts h
  simp [exampleLayout2] at he
  rcases he with rfl | rfl | rfl <;> simp at h

-- the `bin` value read partly, fully, not at all and beyond its end; OpenBinaryScope on values that are not `bin`
example : (runReqs [.bin (.str [97]) 1, .get (.int 5) .str, .bin (.str [97]) 3, .bin (.ts 5 0) 0, .bin (.str [97]) 0, .bin (.int 5) 2,
    .get (.int 5) .str] ⟨1, 3, 0, none⟩ ⟨exampleLayout2.doc, 1, .skip⟩).toOption.map (fun x => x.1.length) = some 7 ∧
    (runReqs [.bin (.str [97]) 4] ⟨1, 3, 0, none⟩ ⟨exampleLayout2.doc, 1, .skip⟩).toOption.isNone = true := by
  decide

-- an array read partly (one of two elements), then fields before and after it, then the array again in full
example : (runReqs [.arr (.str [97]) [.int], .get (.int 5) .str, .arr (.str [97]) [.int, .int], .arr (.str [97]) [], .get (.int 5) .str]
    ⟨1, 2, 0, none⟩ ⟨exampleLayout.doc, 1, .skip⟩).toOption.map (fun x => x.1.length) = some 5 := by
  decide

example : (runGets [(.int 5, .str), (.str [97], .int), (.str [122], .int), (.int 5, .str)] ⟨1, 2, 0, none⟩
    ⟨exampleLayout.doc, 1, .skip⟩).toOption.map (·.1) = some [some (.str [120]), none, none, some (.str [120])] := by
  decide

end BSVerif.Props.C03

namespace BSVerif.Props.C03

/-- key comparison of the object scope (`CVariableKey::operator==`) is equality of the integers, whichever C++ integer type the
    caller passes the key as: an absent key never "matches" a stored key through a two's-complement coincidence -/
theorem key_compare_is_integer_equality (st : Scope.VarKey.Stored) (t : Scope.VarKey.ITy) (v : Int)
    (hb : t.bits = 8 ∨ t.bits = 16 ∨ t.bits = 32 ∨ t.bits = 64) (hv : t.holds v) (hs : st.holds) :
    Scope.VarKey.eqKey st t v = true ↔ st.val = v :=
  Scope.VarKey.eqKey_iff st t v hb hv hs

-- premises satisfiable on a non-trivial instance: −1 as int32 against the stored uint64 key 4294967295
example : (⟨32, true⟩ : Scope.VarKey.ITy).holds (-1) ∧ (Scope.VarKey.Stored.u 4294967295).holds ∧
    Scope.VarKey.eqKey (.u 4294967295) ⟨32, true⟩ (-1) = false := by
  refine ⟨by simp [Scope.VarKey.ITy.holds], by simp [Scope.VarKey.Stored.holds], by decide⟩

end BSVerif.Props.C03
