import BSVerif.Scope.Spec
namespace BSVerif.Props.C03
end BSVerif.Props.C03
