/-
  C03 — Named fields load correctly in any request order, with absent and unread fields.

  PROPERTY THEOREMS ONLY (helpers: BSVerif/Scope/{Lemmas,Cursor}.lean).
  Setting: an object of ANY size whose entries are ANY complete values (scalars, nested arrays,
  nested objects — `Layout.WF`), embedded anywhere in a document (`pre`, `post` arbitrary), read
  through the model of CMsgPackReadObjectScope over the token-level reader. Quantifiers: all
  layouts, all cursor states satisfying the invariant, all keys (present, absent, repeated), all
  target kinds, both mismatched-types policies, all request histories (unbounded length).
-/
import BSVerif.Scope.Cursor
import BSVerif.Scope.VarKey
import BSVerif.Scope.Spec

namespace BSVerif.Props.C03
open BSVerif.Scope

/-- the abstract answer to `SerializeValue(key, value of kind ty)` on the object `L` -/
def AnswerOK (L : Layout) (mis : Mis) (q : Key × Ty) (a : Option Sc) : Prop :=
  (∃ (m : Nat) (e : Key × List Tok), L.entries[m]? = some e ∧ e.1 = q.1 ∧ valueAnswer mis q.2 e.2 = .ok a) ∨
  ((∀ m, keyAt L m ≠ some q.1) ∧ a = none)

/-- the exception a request may raise: exactly the policy's exception for the value stored under that key -/
def ErrorOK (L : Layout) (mis : Mis) (q : Key × Ty) (err : Err) : Prop :=
  ∃ (m : Nat) (e : Key × List Tok), L.entries[m]? = some e ∧ e.1 = q.1 ∧ valueAnswer mis q.2 e.2 = .error err

/-- **C03, one request.** From any cursor state satisfying the invariant, a request for any key and
    kind returns exactly the value stored under that key (or "not loaded" for an absent key, a nil,
    or a value skipped by policy; or the policy's exception), and re-establishes the invariant. -/
theorem get_correct (L : Layout) (hwf : L.WF) (q : Key × Ty) (o : Obj) (r : Rd) (hinv : Inv L o r) :
    match objGet q.1 q.2 o r with
    | .ok (a, o', r') => AnswerOK L r.mis q a ∧ Inv L o' r' ∧ r'.mis = r.mis
    | .error err => ErrorOK L r.mis q err := by
  rcases objGet_spec L hwf q.1 q.2 o r hinv with ⟨m, e, he, hk, h⟩ | ⟨hno, o', r', h, hinv', hm⟩
  · cases hva : valueAnswer r.mis q.2 e.2 with
    | ok a =>
      rw [hva] at h
      obtain ⟨o', r', h1, h2, h3⟩ := h
      rw [h1]
      exact ⟨Or.inl ⟨m, e, he, hk, hva⟩, h2, h3⟩
    | error err =>
      rw [hva] at h
      rw [h]
      exact ⟨m, e, he, hk, hva⟩
  · rw [h]
    exact ⟨Or.inr ⟨hno, rfl⟩, hinv', hm⟩

/-- pointwise relation between the requests and the answers of a history -/
inductive Forall2 {α β : Type} (R : α → β → Prop) : List α → List β → Prop where
  | nil : Forall2 R [] []
  | cons {a b as bs} : R a b → Forall2 R as bs → Forall2 R (a :: as) (b :: bs)

/-- a history of requests on one object scope -/
def runGets : List (Key × Ty) → Obj → Rd → Except Err (List (Option Sc) × Obj × Rd)
  | [], o, r => .ok ([], o, r)
  | q :: qs, o, r =>
    match objGet q.1 q.2 o r with
    | .error e => .error e
    | .ok (a, o', r') =>
      match runGets qs o' r' with
      | .error e => .error e
      | .ok (as, o'', r'') => .ok (a :: as, o'', r'')

/-- **C03, every history.** Any sequence of requests — any order, repeated keys, absent keys — gets,
    request by request, exactly the abstract answers; if an exception is raised it is the policy's
    exception for one of the requested fields. -/
theorem history_correct (L : Layout) (hwf : L.WF) (qs : List (Key × Ty)) :
    ∀ (o : Obj) (r : Rd), Inv L o r →
    match runGets qs o r with
    | .ok (as, o', r') => Forall2 (AnswerOK L r.mis) qs as ∧ Inv L o' r' ∧ r'.mis = r.mis
    | .error err => ∃ q ∈ qs, ErrorOK L r.mis q err := by
  induction qs with
  | nil => intro o r h; exact ⟨Forall2.nil, h, rfl⟩
  | cons q qs ih =>
    intro o r hinv
    have hg := get_correct L hwf q o r hinv
    unfold runGets
    cases hobj : objGet q.1 q.2 o r with
    | error e => rw [hobj] at hg; exact ⟨q, by simp, hg⟩
    | ok res =>
      obtain ⟨a, o', r'⟩ := res
      rw [hobj] at hg
      obtain ⟨ha, hinv', hm⟩ := hg
      have := ih o' r' hinv'
      cases hr : runGets qs o' r' with
      | error e =>
        rw [hr] at this
        obtain ⟨q', hq', he'⟩ := this
        simp only [hr]
        exact ⟨q', by simp [hq'], hm ▸ he'⟩
      | ok res2 =>
        obtain ⟨as, o'', r''⟩ := res2
        rw [hr] at this
        obtain ⟨h1, h2, h3⟩ := this
        simp only [hr]
        exact ⟨Forall2.cons ha (hm ▸ h1), h2, by rw [h3, hm]⟩

/-- **C03, unread fields are skipped.** After ANY history, destroying the scope leaves the reader
    exactly behind the object, so the data that follows it is read correctly. -/
theorem close_after_any_history (L : Layout) (hwf : L.WF) (qs : List (Key × Ty)) (o : Obj) (r : Rd) (hinv : Inv L o r)
    (as : List (Option Sc)) (o' : Obj) (r' : Rd) (hrun : runGets qs o r = .ok (as, o', r')) :
    ∃ o'' r'', objClose o' r' = .ok (o'', r'') ∧ r''.pos = L.posOf L.size ∧ r''.rest = L.post := by
  have h := history_correct L hwf qs o r hinv
  rw [hrun] at h
  obtain ⟨o'', r'', h1, h2, h3, _⟩ := objClose_spec L hwf o' r' h.2.1
  refine ⟨o'', r'', h1, h2, ?_⟩
  have hdoc : r''.doc = L.doc := by
    obtain ⟨i, c, hat, _⟩ := h.2.1
    rw [h3, hat.doc]
  have := rest_at L r'' hdoc L.size h2
  rw [this]
  simp [Layout.size]

/-- a freshly opened scope (`OpenObjectScope` right after the map header) satisfies the invariant -/
theorem fresh_scope_inv (L : Layout) (r : Rd) (hdoc : r.doc = L.doc) (hpos : r.pos = L.posOf 0) :
    Inv L ⟨r.pos, L.size, 0, none⟩ r := inv_init L r hdoc hpos

/-! #### recorded finding, as a refutation: an array left partly read misplaces the parent -/

/-- The full statement "whatever is left unread is skipped" fails for array scopes: witness
    `{"a":[1,2,3],"b":5} 7`, open "a", read one element, close, request "b". -/
theorem array_left_partly_read_refuted :
    run (initSt [.map 2, .str [97], .arr 3, .int 1, .int 2, .int 3, .str [98], .int 5, .int 7] .skip)
        [.openObj, .openArrK (.str [97]), .next .int, .close, .get (.str [98]) .int, .close, .next .int]
      ≠ [.opened 2, .opened 3, .val (.int 1), .closed, .val (.int 5), .closed, .val (.int 7)] := by
  decide

/-! #### non-vacuity -/

def exampleLayout : Layout := ⟨[.map 2], [(.str [97], [.arr 2, .int 1, .int 2]), (.int 5, [.str [120]])], [.int 7]⟩

example : exampleLayout.WF := by
  intro e he
  simp [exampleLayout] at he
  rcases he with rfl | rfl
  · exact wfv_arr [[.int 1], [.int 2]] (by intro v hv; simp at hv; rcases hv with rfl | rfl <;> exact wfv_scalar _ rfl)
  · exact wfv_scalar _ rfl

example : (runGets [(.int 5, .str), (.str [97], .int), (.str [122], .int), (.int 5, .str)] ⟨1, 2, 0, none⟩
    ⟨exampleLayout.doc, 1, .skip⟩).toOption.map (·.1) = some [some (.str [120]), none, none, some (.str [120])] := by
  decide

end BSVerif.Props.C03

namespace BSVerif.Props.C03

/-- key comparison of the object scope (`CVariableKey::operator==`) is equality of the integers, whichever C++ integer type the
    caller passes the key as: an absent key never "matches" a stored key through a two's-complement coincidence -/
theorem key_compare_is_integer_equality (st : Scope.VarKey.Stored) (t : Scope.VarKey.ITy) (v : Int)
    (hb : t.bits = 8 ∨ t.bits = 16 ∨ t.bits = 32 ∨ t.bits = 64) (hv : t.holds v) (hs : st.holds) :
    Scope.VarKey.eqKey st t v = true ↔ st.val = v :=
  Scope.VarKey.eqKey_iff st t v hb hv hs

-- premises satisfiable on a non-trivial instance: −1 as int32 against the stored uint64 key 4294967295
example : (⟨32, true⟩ : Scope.VarKey.ITy).holds (-1) ∧ (Scope.VarKey.Stored.u 4294967295).holds ∧
    Scope.VarKey.eqKey (.u 4294967295) ⟨32, true⟩ (-1) = false := by
  refine ⟨by simp [Scope.VarKey.ITy.holds], by simp [Scope.VarKey.Stored.holds], by decide⟩

end BSVerif.Props.C03
