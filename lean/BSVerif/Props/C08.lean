/-
  C08 — JSON/XML output is standard-conformant; standard renderings load identically
  (+ the JSON/XML part of C01: save then load reproduces the value or the save fails;
   + the JSON positions of C04: numbers load exactly or are reported per policy).

  PROPERTY THEOREMS ONLY (helpers: BSVerif/Adapter/Lemmas.lean).

  What is proved is the ADAPTER (rapidjson_archive.h / pugixml_archive.h as modelled in
  Adapter/JsonModel.lean, Adapter/XmlModel.lean). RapidJSON's and pugixml's printer / parser are a
  PARAMETER: `Codec` below, with the law `parse (print cfg d) = some d` on the domain JSON can carry
  (finite numbers, well-formed UTF-8) as an explicit HYPOTHESIS of the theorems (not an axiom). The law
  is exercised, not proved: every save op of the check is read back by the SPEC parsers
  (Adapter/JsonText.lean, Adapter/XmlText.lean) and by Python json / expat.

  Quantifiers: all values (`Val`: unbounded trees of typed scalars, arrays, objects, empty optionals),
  all map-free target types (`Schema`), all JSON DOMs, both policies for both kinds of mismatch, every
  member order.
-/
import BSVerif.Adapter.Lemmas
import BSVerif.Adapter.XmlLemmas
import BSVerif.Generated.JsonxmlConsts

namespace BSVerif.Props.C08
open BSVerif.Adapter BSVerif.Adapter.JsonModel BSVerif.Adapter.Spec

/-! ### C08, first sentence (JSON): the DOM that is printed IS the data model of the value -/

/-- **dom_of_save.** For every value, the DOM built by the Save scopes has exactly the value's names, nesting,
    member order, array order and scalar lexical values. -/
theorem dom_of_save (v : Val) : DomOf v (build v) := domOf_build v

/-- `SaveObject` either hands this DOM to the printer or raises: it raises exactly when the writer would reject the
    document (non-finite number; ill-formed UTF-8 when the output is a transcoding stream) — fix 4dd3f56. -/
theorem save_ok_iff (transcode : Bool) (v : Val) :
    (save transcode v = .ok (build v) ∧ rejected transcode (build v) = false) ∨
    (save transcode v = .error .outOfRange ∧ rejected transcode (build v) = true) := by
  unfold save
  cases h : rejected transcode (build v) <;> simp [h]

/-- a non-finite double anywhere makes the save fail, whatever the output kind (was: silently truncated text) -/
theorem save_rejects_nonfinite (transcode : Bool) (b : Nat) (h : isFiniteBits b64 b = false) (items : List Val) :
    save transcode (.arr (.sc (.f64 b) :: items)) = .error .outOfRange := by
  simp [save, build, buildList, ofScalar, rejected, rejectedList, h]

/-! ### C08, second sentence + C04 (JSON): loading a DOM -/

/-- **load_of_dom (specification form).** For every map-free target type and every DOM whose objects have distinct
    names, what the Load scopes deliver is exactly the specified result: objects are finite maps (lookup by name,
    independent of member order), arrays are sequences, every number loads exactly or goes to the overflow policy,
    every value of another kind goes to the mismatched-types policy, null leaves the target unset. -/
theorem load_of_dom (o : Opts) (s : Schema) (d : Json) (hs : noMap s = true) (hd : jsonOk d = true) :
    expectLoad o s (some d) = some (loadRoot o s d) :=
  load_meets_spec o s (some d) hs (fun _ h => by cases h; exact hd)

/-- **C04 at the JSON positions** (root, array element, member are all `loadValue`): for every arithmetic target and
    every JSON scalar, the loaded value is the same mathematical value or the policy's answer. -/
theorem number_exact_or_policy (o : Opts) (ty : IntTy) (v : Int) (h : -(2 ^ 63 : Int) ≤ v ∧ v < (2 ^ 64 : Int)) :
    loadValue o (.int ty) (.int v) =
      if ty.inRange v then .ok (some (.int ty v))
      else if o.overflow = .throwError then .error .overflow else .ok none := by
  rw [loadValue_int o ty v h]; rfl

/-- all leaf kinds at once -/
theorem leaf_load_meets_spec (o : Opts) (t : LeafTy) (j : Json) (hj : JsonIntRange j) :
    loadValue o t j = expectLeaf o t j := loadValue_eq_expectLeaf o t j hj

/-- **member order does not matter**: any permutation of the members of an object (with distinct names) loads to the
    same class value; holds at every nesting level since `fs`, `ms` are arbitrary. -/
theorem load_member_order_independent (o : Opts) (fs : List (Bool × Str × Schema)) (ms ms' : List (Str × Json))
    (hp : ms.Perm ms') (hnd : (ms.map Prod.fst).Nodup) :
    load o (.cls fs) (some (.obj ms')) = load o (.cls fs) (some (.obj ms)) := by
  simp only [load, loadFields_perm o fs hp hnd]

/-! ### C01 (JSON): save then load -/

/-- **round trip at the DOM.** Reading the DOM built for a value with the value's own type gives the value back
    (every integer width within its range, doubles bit for bit, floats whose widening survives, text byte for byte,
    empty optionals, nested arrays and classes with distinct keys). -/
theorem load_build_roundtrip (o : Opts) (s : Schema) (v : Val) (h : conforms s v = true) :
    loadRoot o s (build v) = .ok (expected s v) := load_build o s v h

/-- the third-party printer / parser pair -/
structure Codec where
  Text : Type
  Cfg : Type
  print : Cfg → Json → Text
  parse : Text → Option Json

/-- the codec law on the domain JSON can carry (hypothesis; RapidJSON Writer + Reader in full-precision mode) -/
def Codec.Lawful (c : Codec) : Prop := ∀ cfg d, rejected true d = false → c.parse (c.print cfg d) = some d

/-- `SaveObject` to text -/
def saveText (c : Codec) (cfg : c.Cfg) (transcode : Bool) (v : Val) : Except Err c.Text :=
  (save transcode v).map (c.print cfg)

/-- `LoadObject` from text -/
def loadText (c : Codec) (o : Opts) (s : Schema) (t : c.Text) : Except Err LVal :=
  match c.parse t with
  | none => .error .parsing
  | some d => loadRoot o s d

/-- **C01 for JSON.** Under the codec law, for every output configuration: saving a representable value either raises
    (exactly when it holds something JSON cannot carry) or produces a text that loads back to the value — never a
    document that loads to something else. -/
theorem save_then_load (c : Codec) (hc : c.Lawful) (cfg : c.Cfg) (transcode : Bool) (o : Opts) (s : Schema) (v : Val)
    (h : conforms s v = true) :
    (∃ t, saveText c cfg transcode v = .ok t ∧ (rejected true (build v) = false → loadText c o s t = .ok (expected s v))) ∨
    (saveText c cfg transcode v = .error .outOfRange ∧ rejected transcode (build v) = true) := by
  rcases save_ok_iff transcode v with ⟨hs, _⟩ | ⟨hs, hr⟩
  · left
    refine ⟨c.print cfg (build v), by simp [saveText, hs, Except.map], ?_⟩
    intro hdom
    simp [loadText, hc cfg (build v) hdom, load_build_roundtrip o s v h]
  · right
    exact ⟨by simp [saveText, hs, Except.map], hr⟩

/-! ### number choice at the JSON root -/

/-- the integer handed to RapidJSON by the root scope after fix a9ee3d8: `SetInt64(value)` for signed, `SetUint64(value)`
    for unsigned types (implicit conversion to int64_t / uint64_t) -/
def rootInt (t : IntTy) (v : Int) : Int := if t.signed then IntTy.i64.wrap v else IntTy.u64.wrap v

/-- every C++ integer type survives the root scope -/
theorem root_int_exact (t : IntTy) (v : Int) (h : t.inRange v = true) : rootInt t v = v := by
  unfold rootInt
  rw [wrap_char, wrap_char]
  cases t <;> simp [IntTy.inRange, IntTy.min, IntTy.max, IntTy.bits, IntTy.signed] at h ⊢ <;> omega

/-- the choice of the unchanged code: `SetInt64` / `SetUint64` only for exactly int64_t / uint64_t, `SetInt(value)`
    (conversion to int) for everything else -/
def rootIntBeforeFix (t : IntTy) (v : Int) : Int :=
  if t = .i64 then v else if t = .u64 then v else IntTy.i32.wrap v

/-- which types survived `SetInt`: exactly those whose range lies within int -/
theorem setInt_survivors (t : IntTy) (v : Int) (h : t.inRange v = true)
    (ht : t = .i8 ∨ t = .u8 ∨ t = .i16 ∨ t = .u16 ∨ t = .i32 ∨ t = .i64 ∨ t = .u64) : rootIntBeforeFix t v = v := by
  unfold rootIntBeforeFix
  rw [wrap_char]
  rcases ht with rfl | rfl | rfl | rfl | rfl | rfl | rfl <;>
    simp [IntTy.inRange, IntTy.min, IntTy.max, IntTy.bits, IntTy.signed] at h ⊢ <;> omega

/-- full statement for the unchanged code -/
def RootIntExactBeforeFix : Prop := ∀ t v, t.inRange v = true → rootIntBeforeFix t v = v

/-- refuted: uint32 3000000000 was saved as -1294967296; long long 2^40 as 0; unsigned long long 2^64-1 as -1 -/
theorem rootIntBeforeFix_refuted : ¬ RootIntExactBeforeFix := by
  intro h
  have := h .u32 3000000000 (by decide)
  revert this
  decide

example : rootIntBeforeFix .u32 3000000000 = -1294967296 := by decide
example : rootIntBeforeFix .ll 1099511627776 = 0 := by decide
example : rootIntBeforeFix .ull 18446744073709551615 = -1 := by decide

/-! ### C08, first sentence (XML) -/

/-- **dom_of_save (XML).** For every value with finite numbers whose attribute fields are scalars with distinct names, the
    element the Save scopes build under `name` has exactly the value's names (`value` / `array` / `object` for array items),
    nesting, child order, attributes and scalar lexical values. `NumFmtOk` is the XML half of the codec law: the number
    formatting inside pugixml's `set_value(double/float)` reads back, by value, as the number that was set
    (hypothesis; checked on every `xml.save` op of the run with pugixml's actual text). -/
theorem xml_dom_of_save (fmt : XmlModel.NumFmt) (hf : NumFmtOk fmt) (name : Str) (v : Val) (hv : xmlValOk v = true) :
    XmlSpec.domMatches name v (XmlModel.buildNode fmt name v) = true := domMatches_build fmt hf name v hv

/-- the document element of `SaveObject`: default names `array` / `root`, or the explicit key -/
theorem xml_root_of_save (fmt : XmlModel.NumFmt) (hf : NumFmtOk fmt) (key : Option Str) (v : Val) (hv : xmlValOk v = true)
    (root : XNode) (h : XmlModel.buildRoot fmt key v = some root) :
    ∃ name, XmlSpec.domMatches name v root = true ∧
      (name = key.getD XmlModel.nameArray ∨ name = key.getD XmlModel.nameRoot) := by
  cases v with
  | arr items =>
    simp only [XmlModel.buildRoot, Option.some.injEq] at h
    subst h
    exact ⟨_, xml_dom_of_save fmt hf _ _ hv, Or.inl rfl⟩
  | obj fields =>
    simp only [XmlModel.buildRoot, Option.some.injEq] at h
    subst h
    exact ⟨_, xml_dom_of_save fmt hf _ _ hv, Or.inr rfl⟩
  | sc s => simp [XmlModel.buildRoot] at h
  | none => simp [XmlModel.buildRoot] at h

/-! ### XML: element naming -/

/-- the names the model gives to array items and default roots are the ones the real Save path produces
    (Generated/JsonxmlConsts.lean is dumped from a run of the current tree) -/
theorem xml_names_match_code :
    XmlModel.nameValue = Generated.Jsonxml.xml_item_value ∧ XmlModel.nameArray = Generated.Jsonxml.xml_item_array ∧
    XmlModel.nameObject = Generated.Jsonxml.xml_item_object ∧ XmlModel.nameArray = Generated.Jsonxml.xml_root_array ∧
    XmlModel.nameRoot = Generated.Jsonxml.xml_root_object := by decide

/-! ### non-vacuity -/

/-- `{"id": 3000000000, "tags": ["a", ""], "opt": null, "pos": {"x": -1.5}}` -/
def exampleSchema : Schema :=
  .cls [(false, [105, 100], .leaf (.int .u32)), (false, [116], .vec (.leaf .str)), (false, [111], .opt (.leaf (.int .i16))),
        (false, [112], .cls [(false, [120], .leaf .f64)])]

def exampleVal : Val :=
  .obj [(false, [105, 100], .sc (.int .u32 3000000000)), (false, [116], .arr [.sc (.str [97]), .sc (.str [])]), (false, [111], .none),
        (false, [112], .obj [(false, [120], .sc (.f64 0xBFF8000000000000))])]

example : conforms exampleSchema exampleVal = true := by
  simp [exampleSchema, exampleVal, conforms, conformsFields, conformsList, scalarOk, Scalar.ty, nullNone, IntTy.inRange, IntTy.min, IntTy.max, IntTy.bits, IntTy.signed]
example : noMap exampleSchema = true := by simp [exampleSchema, noMap, noMapFields]
example : jsonOk (build exampleVal) = true := by
  simp [exampleVal, build, buildFields, buildList, ofScalar, jsonOk, membersOk, jsonListOk]
example : rejected true (build exampleVal) = false := by
  simp [exampleVal, build, buildFields, buildList, ofScalar, rejected, rejectedMembers, rejectedList, isFiniteBits, b64, Fmt.signBit, Fmt.infBits]
  decide

/-- `<root id="7"><tags><value>a</value><value/></tags><opt/></root>` -/
def exampleXmlVal : Val :=
  .obj [(true, [105, 100], .sc (.int .u32 7)), (false, [116], .arr [.sc (.str [97]), .sc .null]), (false, [111], .none)]

example : xmlValOk exampleXmlVal = true := by
  simp [exampleXmlVal, xmlValOk, xmlFieldsOk, xmlListOk, scalarFinite]

/-- a lawful codec exists (the identity), so the hypothesis of `save_then_load` is satisfiable -/
example : (⟨Json, Unit, fun _ d => d, some⟩ : Codec).Lawful := fun _ _ _ => rfl

end BSVerif.Props.C08
