/-
  C04 — Numbers load exactly or are reported per policy, never silently altered
  (conversion layer: Convert::To / TryTo between arithmetic types and Detail::ConvertByPolicy).

  PROPERTY THEOREMS ONLY (helper lemmas live in BSVerif/Num/Lemmas.lean).
  Quantifiers: every pair of integer types of 8/16/32/64 bits and either signedness (incl. the
  character types), `bool`, both floating formats; every source value of the source type; both
  values of both policies. Floating-point hardware operations are a parameter `ops` constrained by
  the explicit laws `FloatLaws` (listed in NOTES.md); `refOps` is the IEEE 754 reference instance.
-/
import BSVerif.Num.Lemmas
import BSVerif.Num.Spec
import BSVerif.Num.NanLemmas

namespace BSVerif.Props.C04
open BSVerif.Num

/-! #### integer and bool conversions: exact or out_of_range, never a wrapped value -/

/-- `Detail::To(S → T)` on integer types: the value itself when `T` can hold it, `std::out_of_range` otherwise. -/
theorem conv_exact (S T : IntTy) (hS : S.Valid) (hT : T.Valid) (v : Int) (hv : S.Fits v) :
    convIntInt S T v = if T.Fits v then .ok v else .err .outOfRange :=
  convIntInt_exact S T hS hT v hv

example : (⟨16, false⟩ : IntTy).Valid ∧ (⟨8, true⟩ : IntTy).Valid ∧ (⟨16, false⟩ : IntTy).Fits 65535 := by decide

/-- No conversion between integer types ever stores a value different from the source
    (no truncation, no wrap-around, no sign change) and none reaches undefined behaviour. -/
theorem conv_never_alters (S T : IntTy) (hS : S.Valid) (hT : T.Valid) (v : Int) (hv : S.Fits v) :
    (∀ r, convIntInt S T v = .ok r → r = v ∧ T.Fits r) ∧ (∀ w, convIntInt S T v ≠ .ub w) ∧
    convIntInt S T v ≠ .err .invalidArgument := by
  rw [conv_exact S T hS hT v hv]
  by_cases h : T.Fits v <;> simp [h]

/-- integer → bool: only 0 and 1 are accepted -/
theorem conv_bool_exact (S : IntTy) (hS : S.Valid) (v : Int) (hv : S.Fits v) :
    convIntBool S v = if Ty.bool.FitsInt v then .ok v else .err .outOfRange :=
  convIntBool_exact S hS v hv

/-- bool → integer: always exact -/
theorem conv_from_bool_exact (T : IntTy) (hT : T.Valid) (x : Int) (hx : Ty.bool.FitsInt x) :
    convBoolInt T x = .ok x :=
  convBoolInt_exact T hT x (by simp only [Ty.FitsInt] at hx; omega)

/-- same source and target type: the value is passed through bit for bit (also NaNs) -/
theorem conv_same_type_identity (ops : FloatOps) (T : Ty) (v : Val) : convTo ops T T v = .ok v := by
  simp [convTo]

/-- a floating value offered to an integer or bool target is "another kind": invalid_argument, whatever its value -/
theorem float_to_integer_is_mismatch (ops : FloatOps) (F : FloatFmt) (T : Ty) (hT : T.isFloat = false) (b : Nat) :
    convTo ops (.flt F) T (.flt b) = .err .invalidArgument := by
  cases T with
  | bool => simp [convTo]
  | int t => simp [convTo]
  | flt f => simp [Ty.isFloat] at hT

/-! #### integer → floating point -/

/-- Whatever the hardware operations are: a stored float truncates back to exactly the source integer. -/
theorem int_to_float_sound (ops : FloatOps) (S : IntTy) (F : FloatFmt) (v : Int) (f : Nat)
    (h : convIntFloat ops S F v = .ok f) : f = ops.ofInt F v ∧ ops.toInt F f = some v := by
  unfold convIntFloat at h
  dsimp only at h
  split at h
  · cases h
  · split at h
    · cases h
    · rename_i back hb
      split at h
      · rename_i hc
        cases h
        refine ⟨rfl, ?_⟩
        unfold castFloatToInt at hb
        split at hb
        · rename_i t ht
          split at hb
          · cases hb; rw [ht, hc.1]
          · cases hb
        · cases hb
      · cases h

/-- Under the floating-point laws the (fixed) code never evaluates the undefined cast back, for any
    integer type and any source value, and answers exactly: the float when the conversion is exact,
    `std::out_of_range` when it is not. -/
theorem int_to_float_no_ub (ops : FloatOps) (L : FloatLaws ops) (S : IntTy) (hS : S.Valid) (F : FloatFmt)
    (v : Int) (hv : S.Fits v) :
    (∀ w, convIntFloat ops S F v ≠ .ub w) ∧ convIntFloat ops S F v ≠ .err .invalidArgument := by
  rw [convIntFloat_cases ops L S hS F v hv]
  by_cases h : ops.tr F v = some v <;> simp [h]

theorem int_to_float_exact_small (ops : FloatOps) (L : FloatLaws ops) (S : IntTy) (hS : S.Valid) (F : FloatFmt)
    (v : Int) (hv : S.Fits v) :
    convIntFloat ops S F v = if ops.tr F v = some v then .ok (ops.ofInt F v) else .err .outOfRange :=
  convIntFloat_cases ops L S hS F v hv

/-- the laws are consistent (toy instance: floats that are integers) -/
example : FloatLaws toyOps := toyOps_laws

/-- Witness for the finding repaired by `fix: do not cast an integer rounded up to 2^N back…`:
    without the guard, INT64_MAX → float evaluates `static_cast<int64_t>(9.223372e18f)` — undefined. -/
theorem unguarded_cast_back_is_ub :
    convIntFloatUnguarded refOps ⟨64, true⟩ .f32 (2 ^ 63 - 1) = .ub "float-cast-overflow" ∧
    convIntFloatUnguarded refOps ⟨64, false⟩ .f64 (2 ^ 64 - 1) = .ub "float-cast-overflow" ∧
    convIntFloatUnguarded refOps ⟨32, true⟩ .f32 (2 ^ 31 - 1) = .ub "float-cast-overflow" ∧
    convIntFloat refOps ⟨64, true⟩ .f32 (2 ^ 63 - 1) = .err .outOfRange ∧
    convIntFloat refOps ⟨64, false⟩ .f64 (2 ^ 64 - 1) = .err .outOfRange ∧
    convIntFloat refOps ⟨32, true⟩ .f32 (2 ^ 31 - 1) = .err .outOfRange := by
  decide +kernel

/-! #### floating point ↔ floating point -/

/-- float → double: always stored (the hardware widening, exact for every non-NaN value) -/
theorem float_widen_total (ops : FloatOps) (b : Nat) :
    convFloatFloat ops .f32 .f64 b = .ok (ops.cvt .f32 .f64 b) := by
  simp [convFloatFloat, FloatFmt.width]

/-- double → float: stored (converted by the hardware) when the value is infinite, NaN, or `lowest ≤ v ≤ max`; otherwise — a finite
    value beyond the range — `std::out_of_range`; never anything else -/
theorem float_narrow_cases (ops : FloatOps) (b : Nat) :
    convFloatFloat ops .f64 .f32 b =
      if isFinite .f64 b = false ∨ (ops.le .f32 FloatFmt.f32.lowestBits .f64 b = true ∧ ops.le .f64 b .f32 FloatFmt.f32.maxBits = true)
      then .ok (ops.cvt .f64 .f32 b) else .err .outOfRange := by
  simp [convFloatFloat, FloatFmt.width]

/-- the model's answer as seen by the Spec -/
def fltAnswer : Outcome Nat → Option ConvAnswer
  | .ok r => some (.ok (.flt r))
  | .err e => some (.err e)
  | .ub _ => none

/-- FULL statement for double → float on the IEEE reference operations: every answer is one the Spec admits
    (exact/nearest value when `lowest ≤ v ≤ max`, ±∞ and NaN carried over, out_of_range only for finite values
    beyond the range). -/
def NarrowFull : Prop :=
  ∀ b : Nat, ∃ a, fltAnswer (convFloatFloat refOps .f64 .f32 b) = some a ∧ acceptFromFloat .f64 (.flt .f32) b a = true

/-- **Holds on the repaired code** (it was refuted by +∞ before `!std::isfinite(v)` was added to the range test;
    witness `num.conv f64 f32 7ff0000000000000` stays in corpus/C04 as a regression op). -/
theorem float_narrow_full : NarrowFull := by
  intro b
  unfold convFloatFloat acceptFromFloat
  have hne : (FloatFmt.f64 = FloatFmt.f32) = False := by simp
  have hw : ¬ (32 > 64) := by omega
  by_cases hfin : isFinite .f64 b = true
  · simp only [FloatFmt.width, hne, ↓reduceIte, hfin, Bool.not_true, Bool.false_eq_true, refOps]
    by_cases hr : fle .f32 FloatFmt.f32.lowestBits .f64 b = true ∧ fle .f64 b .f32 FloatFmt.f32.maxBits = true
    · exact ⟨.ok (.flt (cvt .f64 .f32 b)), by simp [hw, hr, fltAnswer], by simp [hr]⟩
    · exact ⟨.err .outOfRange, by simp [hw, hr, fltAnswer], by simp [hr]⟩
  · have hf : isFinite .f64 b = false := by simpa using hfin
    refine ⟨.ok (.flt (cvt .f64 .f32 b)), by simp [FloatFmt.width, hw, hf, fltAnswer, refOps], ?_⟩
    simp only [hne, ↓reduceIte, hf, Bool.not_false]
    by_cases hn : isNaN .f64 b = true
    · have hd : decode .f64 b = .nan := by simpa [isNaN] using hn
      simp [hn, cvt_nan_is_nan b hd]
    · simp [hn]

example : isFinite .f64 0x7FF0000000000000 = false ∧ isFinite .f64 0x47EFFFFFE0000000 = true := by decide +kernel

/-! #### all pairs -/

/-- well-typed source value -/
def WellTyped : Ty → Val → Prop
  | .bool, .int x => x = 0 ∨ x = 1
  | .int t, .int x => t.Valid ∧ t.Fits x
  | .flt _, .flt _ => True
  | _, _ => False

def TyValid : Ty → Prop
  | .int t => t.Valid
  | _ => True

/-- `Detail::To` is total on every pair of arithmetic types: it answers a value or one of the two
    exception classes — never undefined behaviour; and an integer-valued answer is the source value itself. -/
theorem convTo_total (ops : FloatOps) (L : FloatLaws ops) (S T : Ty) (v : Val) (hv : WellTyped S v) (hT : TyValid T) :
    (∀ w, convTo ops S T v ≠ .ub w) ∧
    (∀ x r, v = .int x → convTo ops S T v = .ok (.int r) → r = x) := by
  by_cases hST : S = T
  · subst hST
    refine ⟨by simp [convTo], ?_⟩
    intro x r h1 h2
    simp only [convTo, ↓reduceIte, h1, Outcome.ok.injEq, Val.int.injEq] at h2
    exact h2.symm
  · cases S with
    | bool =>
      cases v with
      | flt b => simp [WellTyped] at hv
      | int x =>
        simp only [WellTyped] at hv
        cases T with
        | bool => exact absurd rfl hST
        | int t =>
          simp only [TyValid] at hT
          have := convBoolInt_exact t hT x hv
          simp [convTo, this]
        | flt f =>
          simp only [convTo, hST, ↓reduceIte]
          constructor
          · intro w
            cases h : convBoolFloat ops f x with
            | ok r => simp
            | err e => simp
            | ub w' => exact absurd h (convBoolFloat_no_ub ops f x w')
          · intro y r _
            cases h : convBoolFloat ops f x <;> simp
    | int s =>
      cases v with
      | flt b => simp [WellTyped] at hv
      | int x =>
        simp only [WellTyped] at hv
        cases T with
        | bool =>
          have := convIntBool_exact s hv.1 x hv.2
          simp only [convTo, hST, ↓reduceIte, this]
          by_cases h : 0 ≤ x ∧ x ≤ 1 <;> simp [h]
        | int t =>
          simp only [TyValid] at hT
          have := convIntInt_exact s t hv.1 hT x hv.2
          simp only [convTo, hST, ↓reduceIte, this]
          by_cases h : t.Fits x <;> simp [h]
        | flt f =>
          have := convIntFloat_cases ops L s hv.1 f x hv.2
          simp only [convTo, hST, ↓reduceIte, this]
          by_cases h : ops.tr f x = some x <;> simp [h]
    | flt fs =>
      cases v with
      | int x => simp [WellTyped] at hv
      | flt b =>
        cases T with
        | bool => simp [convTo]
        | int t => simp [convTo]
        | flt ft =>
          simp only [convTo, hST, ↓reduceIte]
          constructor
          · intro w
            cases h : convFloatFloat ops fs ft b with
            | ok r => simp
            | err e => simp
            | ub w' => exact absurd h (convFloatFloat_no_ub ops fs ft b w')
          · intro y r h; cases h

example : WellTyped (.int ⟨64, true⟩) (.int (2 ^ 63 - 1)) ∧ TyValid (.flt .f32) := by
  refine ⟨⟨by decide, by decide⟩, trivial⟩

/-- `Convert::TryTo`: a value exactly when `Convert::To` yields that value, empty exactly when it throws -/
theorem tryTo_spec (ops : FloatOps) (S T : Ty) (v : Val) :
    (∀ r, tryTo ops S T v = .ok (some r) ↔ convertTo ops S T v = .ok r) ∧
    (tryTo ops S T v = .ok none ↔ ∃ e, convertTo ops S T v = .err e) := by
  unfold tryTo
  cases h : convertTo ops S T v <;> simp

/-! #### ConvertByPolicy -/

/-- The four outcomes of `ConvertByPolicy` with the exact case split: loaded with exactly the converted
    value; otherwise the target is untouched and the call either returns false (Skip) or throws
    Overflow (out_of_range under ThrowError) / MismatchedTypes (invalid_argument or non-convertible
    types under ThrowError). -/
theorem policy_total {α : Type} (convertible : Bool) (r : Outcome α) (mis ovf : Pol) (hub : ∀ w, r ≠ .ub w) :
    convertByPolicy convertible r mis ovf =
      if convertible = true then
        match r with
        | .ok v => .loaded v
        | .err .outOfRange => if ovf = .throwError then .thrown .overflow else .skipped
        | .err .invalidArgument => if mis = .throwError then .thrown .mismatched else .skipped
        | .ub w => .ub w
      else if mis = .throwError then .thrown .mismatched else .skipped := by
  unfold convertByPolicy
  cases convertible <;> simp
  cases r with
  | ok v => rfl
  | err e => cases e <;> rfl
  | ub w => exact absurd rfl (hub w)

/-- Integers through `ConvertByPolicy`: loaded exactly, or — when the target cannot hold the value — skipped
    or Overflow according to `OverflowNumberPolicy`; `MismatchedTypesPolicy` is irrelevant; nothing else. -/
theorem policy_int_exact (S T : IntTy) (hS : S.Valid) (hT : T.Valid) (v : Int) (hv : S.Fits v) (mis ovf : Pol) :
    convertByPolicy true (convIntInt S T v) mis ovf =
      if T.Fits v then .loaded v
      else if ovf = .throwError then .thrown .overflow else .skipped := by
  rw [conv_exact S T hS hT v hv]
  by_cases h : T.Fits v <;> simp [convertByPolicy, h]

/-- (after `fix: ConvertByPolicy reported non-convertible types as ParsingError…`) no conversion outcome
    is ever reported as ParsingError -/
theorem policy_never_parsing {α : Type} (convertible : Bool) (r : Outcome α) (mis ovf : Pol) :
    convertByPolicy convertible r mis ovf ≠ .thrown .parsing := by
  unfold convertByPolicy
  cases convertible <;> simp
  · split <;> simp
  · cases r with
    | ok v => simp
    | err e => cases e <;> simp <;> split <;> simp
    | ub w => simp

/-! #### the laws on the reference instance (sampled) -/

/-- check of every law of `FloatLaws` on a list of integers (adjacent pairs for the binary laws) -/
def lawsHoldOn (ops : FloatOps) (F : FloatFmt) (vals : List Int) : Bool :=
  (vals.all fun v => (ops.tr F v).isSome) &&
  ((vals.zip (vals.drop 1)).all fun (v, w) =>
    match ops.tr F v, ops.tr F w with
    | some t, some u =>
      (decide (v ≤ w) → decide (t ≤ u)) && (ops.lt F (ops.ofInt F v) F (ops.ofInt F w) == decide (t < u)) &&
      (ops.lt F (ops.ofInt F w) F (ops.ofInt F v) == decide (u < t))
    | _, _ => false) &&
  ((List.range 65).all fun k => ops.tr F (2 ^ k) == some (2 ^ k) && ops.tr F (-(2 ^ k)) == some (-(2 ^ k))) &&
  (ops.tr F 0 == some 0) && (ops.ofInt F 0 == fzero)

/-- sorted sample: every ±2^k and ±2^k ± 1 (k ≤ 64) -/
def lawSample : List Int :=
  ((List.range 65).reverse.flatMap fun k => [-(2 ^ k : Int) - 1, -(2 ^ k : Int), -(2 ^ k : Int) + 1]) ++
  ((List.range 65).flatMap fun k => [(2 ^ k : Int) - 1, (2 ^ k : Int), (2 ^ k : Int) + 1])

/-- The IEEE reference instance satisfies every law on the sample (the laws for *all* integers are
    assumptions about IEEE 754 arithmetic, not proved here). -/
theorem refOps_laws_sample :
    lawsHoldOn refOps .f32 (lawSample.filter fun v => decide (-(2 ^ 64 : Int) ≤ v ∧ v ≤ 2 ^ 64)) = true ∧
    lawsHoldOn refOps .f64 (lawSample.filter fun v => decide (-(2 ^ 64 : Int) ≤ v ∧ v ≤ 2 ^ 64)) = true := by
  decide +kernel

end BSVerif.Props.C04
