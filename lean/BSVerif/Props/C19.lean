/-
  C19 — Independent serializations on different threads do not interfere.

  PROPERTY THEOREMS ONLY.
  (1) `interleaving_eq_sequential`: for EVERY schedule of any number of threads whose steps are
      confined to thread-private locations plus shared read-only constants, every thread ends with
      exactly the private state it would have after running alone, and the constants are untouched
      (so no step of one thread can ever observe a write of another: race freedom at the level of
      the footprint abstraction).
  (2) the side conditions that make the library an instance of (1) are REGENERATED FROM THE SOURCE on
      every run: the inventory of all objects of static storage duration (clang AST) and of all
      symbols in writable sections of the compiled objects (objdump). Everything else an operation
      touches is reachable only from its arguments, its stack `SerializationContext` and its own
      archive object.
  What a Lean theorem cannot exhibit — the memory-model behaviour of the compiled code — is
  exercised by the ThreadSanitizer stress run of the check (labelled validation, not proof).
-/
import BSVerif.Conc.Model
import BSVerif.Generated.InventoryConsts

namespace BSVerif.Props.C19
open BSVerif.Conc

/-- agreement of two memories on thread `i`'s view (its private locations and the constants) -/
def AgreeOn {n : Nat} (S : System n) (i : Fin n) (m₁ m₂ : Mem) : Prop := ∀ l, S.P i l ∨ S.C l → m₁ l = m₂ l

/-- executed prefix of thread i = its program minus what is still pending -/
structure Inv {n : Nat} (S : System n) (m₀ : Mem) (c : Conf n) : Prop where
  suffix : ∀ i, ∃ done, S.prog i = done ++ c.rest i ∧ AgreeOn S i c.mem (runSeq done m₀)

theorem step_preserves {n : Nat} (S : System n) (m₀ : Mem) (c : Conf n) (h : Inv S m₀ c) (i : Fin n) :
    Inv S m₀ (c.step i) := by
  unfold Conf.step
  cases hr : c.rest i with
  | nil => simpa [hr] using h
  | cons s tl =>
    simp only
    refine ⟨fun j => ?_⟩
    obtain ⟨done, hd, hag⟩ := h.suffix j
    have hs_i : s ∈ S.prog i := by
      obtain ⟨di, hdi, _⟩ := h.suffix i
      rw [hdi, hr]; simp
    by_cases hji : j = i
    · subst hji
      refine ⟨done ++ [s], by simp [hd, hr], ?_⟩
      intro l hl
      simp only [runSeq, List.foldl_append, List.foldl_cons, List.foldl_nil]
      rcases hl with hp | hc
      · exact S.local_ j s hs_i _ _ hag l hp
      · have hnp : ¬ S.P j l := fun hp => S.constSep j l hp hc
        rw [S.frame j s hs_i _ l hnp, S.frame j s hs_i _ l hnp]
        exact hag l (Or.inr hc)
    · refine ⟨done, by simp [hji, hd], ?_⟩
      intro l hl
      have hnp : ¬ S.P i l := by
        rcases hl with hp | hc
        · exact fun hpi => S.disjoint i j l (fun e => hji e.symm) hpi hp
        · exact fun hpi => S.constSep i l hpi hc
      show s c.mem l = runSeq done m₀ l
      rw [S.frame i s hs_i _ l hnp]
      exact hag l hl

/-- **C19 (abstract non-interference), every schedule.** -/
theorem interleaving_eq_sequential {n : Nat} (S : System n) (m₀ : Mem) (sched : List (Fin n)) :
    let c := (Conf.mk m₀ S.prog).run sched
    -- every thread that ran to completion has exactly its sequential private result …
    (∀ i, c.rest i = [] → ∀ l, S.P i l → c.mem l = runSeq (S.prog i) m₀ l) ∧
    -- … and the shared constants are never changed
    (∀ l, S.C l → c.mem l = m₀ l) := by
  have hinv : Inv S m₀ ((Conf.mk m₀ S.prog).run sched) := by
    unfold Conf.run
    have h0 : Inv S m₀ (Conf.mk m₀ S.prog) := ⟨fun i => ⟨[], by simp, fun l _ => rfl⟩⟩
    generalize Conf.mk m₀ S.prog = c0 at h0
    induction sched generalizing c0 with
    | nil => simpa using h0
    | cons i tl ih => simp only [List.foldl_cons]; exact ih _ (step_preserves S m₀ c0 h0 i)
  refine ⟨?_, ?_⟩
  · intro i hdone l hp
    obtain ⟨done, hd, hag⟩ := hinv.suffix i
    rw [hdone, List.append_nil] at hd
    rw [hd]; exact hag l (Or.inl hp)
  · intro l hc
    -- constants: no step of any thread writes them (frame + separation), by induction on the schedule
    have key : ∀ (sched : List (Fin n)) (c : Conf n), (∀ i s, s ∈ c.rest i → s ∈ S.prog i) →
        (c.run sched).mem l = c.mem l := by
      intro sched
      induction sched with
      | nil => intro c _; rfl
      | cons i tl ih =>
        intro c hsub
        simp only [Conf.run, List.foldl_cons]
        have : (c.step i).mem l = c.mem l ∧ (∀ j s, s ∈ (c.step i).rest j → s ∈ S.prog j) := by
          unfold Conf.step
          cases hr : c.rest i with
          | nil => exact ⟨rfl, hsub⟩
          | cons s tl' =>
            simp only
            have hs : s ∈ S.prog i := hsub i s (by rw [hr]; simp)
            refine ⟨S.frame i s hs _ l (fun hp => S.constSep i l hp hc), ?_⟩
            intro j s' hs'
            by_cases hji : j = i
            · subst hji; simp at hs'; exact hsub j s' (by rw [hr]; simp [hs'])
            · simp [hji] at hs'; exact hsub j s' hs'
        have := ih (c.step i) this.2
        simp only [Conf.run] at this
        rw [this, ‹(c.step i).mem l = c.mem l ∧ _›.1]
    exact key sched (Conf.mk m₀ S.prog) (fun i s hs => hs)

/-! #### regenerated side conditions -/
open BSVerif.Generated.Inventory

/-- writers that only run during static initialisation (namespace-scope `REGISTER_ENUM` initialisers,
    before `main`, hence before any thread of the property's scenario exists) -/
def initOnlyWriter (w : String) : Bool :=
  w == "BitSerializer::Convert::Detail::EnumRegistry::Register" ||
  w == "BitSerializer::Convert::Detail::EnumRegistry::Register(arg)"

/-- an object of static storage duration cannot be the subject of a data race in the property's
    scenario: it is immutable, or it is only written during static initialisation, or (the mutable
    `DefaultOptions`) nothing in the library ever writes it -/
def SafeStatic (s : String × String × String × List String) : Bool :=
  s.2.1 == "constexpr" || s.2.1 == "const" || s.2.2.2.all initOnlyWriter

/-- **Every object of static storage duration in the current tree is race-safe.** A new mutable
    `static` scratch buffer, cached key string or counter breaks this theorem by name. -/
theorem all_statics_safe : statics.all SafeStatic = true := by decide

/-- the only symbols the COMPILED library places in writable sections are the write-once enum registries -/
def allowedCompiledMutable : List String :=
  ["BitSerializer::Convert::Detail::EnumRegistry::mBeginIt", "BitSerializer::Convert::Detail::EnumRegistry::mEndIt",
   "BitSerializer::Convert::Detail::EnumRegistry::Register()::descriptors_", "BitSerializer::DefaultOptions"]

/-- a symbol in a writable section is harmless when it is one of the write-once registries, or when the source
    inventory says it is a `const` object (dynamically initialised once — function-local statics under the C++11
    guard — and never written again) -/
def SafeCompiled (s : String × String) : Bool :=
  allowedCompiledMutable.contains s.1 ||
  statics.any (fun t => t.1 == s.1 && (t.2.1 == "const" || t.2.1 == "constexpr"))

theorem compiled_mutable_safe : compiledMutable.all SafeCompiled = true := by
  decide

/-! #### non-vacuity: a two-thread system satisfying all hypotheses -/

def demo : System 2 where
  P := fun i l => l = i.val
  C := fun l => l = 9
  prog := fun i => [fun m l => if l = i.val then m l + m 9 else m l]
  disjoint := by intro i j l hij hi hj; subst hi; exact hij (Fin.ext hj)
  constSep := by
    intro i l hp hc
    have hi := i.isLt
    have h1 : (l : Nat) = i.val := hp
    have h2 : (l : Nat) = 9 := hc
    have h3 : i.val = 9 := h1.symm.trans h2
    have h4 : i.val < 2 := i.isLt
    rw [h3] at h4
    exact absurd h4 (by decide)
  frame := by intro i s hs m l hn; simp at hs; subst hs; simp [hn]
  local_ := by
    intro i s hs m₁ m₂ hag l hp
    simp at hs; subst hs
    simp only [hp, if_true]
    rw [hag i.val (Or.inl rfl), hag 9 (Or.inr rfl)]

example : ((Conf.mk (fun _ => 1) demo.prog).run [1, 0]).mem 0 = 2 := by decide

end BSVerif.Props.C19
