/-
  C16 — Number/text conversion is lossless; numeric parsing is total and range-checked.

  PROPERTY THEOREMS ONLY (helper lemmas live in BSVerif/Num/{TextLemmas,WideLemmas}.lean).
  Quantifiers: every integer type of 8/16/32/64 bits and either signedness, every value of it;
  every input string (list of code units of any length, any content) in 8-, 16- and 32-bit code
  units (wchar_t = 32-bit). Floating-point text is outside the proved part (it is the libstdc++
  assumption, tested through the exact-arithmetic reference BSVerif/Num/FloatText.lean).
-/
import BSVerif.Num.TextLemmas
import BSVerif.Num.WideLemmas
import BSVerif.Generated.NumConsts

namespace BSVerif.Props.C16
open BSVerif.Num

/-! #### printing -/

/-- `to_chars` output is the canonical decimal text of the Spec -/
theorem print_canonical (v : Int) : toCharsInt v = intText v := toCharsInt_eq v

/-- every value of every integer type prints in at most 20 characters: the 42-byte buffer always suffices,
    and the printed text is the same in every string width -/
theorem print_fits_buffer (t : IntTy) (ht : t.Valid) (v : Int) (hv : t.Fits v) (w : Nat) (hw : w = 8 ∨ w = 16 ∨ w = 32) :
    (toCharsInt v).length ≤ 20 ∧ printInt w v = .ok (intText v) := by
  have hlen : (toCharsInt v).length ≤ 20 := by
    rw [toCharsInt_eq]; unfold intText
    obtain ⟨tb, ts⟩ := t
    simp only [IntTy.Valid] at ht
    have hb : -(2 ^ 63 : Int) ≤ v ∧ v ≤ 2 ^ 64 - 1 := by
      rcases ht with rfl | rfl | rfl | rfl <;> cases ts <;>
        simp only [IntTy.Fits, IntTy.lo, IntTy.hi, ↓reduceIte, Bool.false_eq_true] at hv <;> omega
    split
    · have : (natDigits v.natAbs).length ≤ 19 := natDigits_length_le _ 19 (by omega) (by omega)
      simp only [List.length_cons]; omega
    · exact natDigits_length_le _ 20 (by omega) (by omega)
  refine ⟨hlen, ?_⟩
  have hascii : ∀ u ∈ toCharsInt v, u < 0x80 := by
    rw [toCharsInt_eq]; unfold intText
    intro u hu
    split at hu
    · simp only [List.mem_cons] at hu
      rcases hu with rfl | hu
      · simp [minusSign]
      · exact isDigit_ascii (natDigits_all_digits _ u hu)
    · exact isDigit_ascii (natDigits_all_digits _ u hu)
  unfold printInt
  have : ¬ (toCharsInt v).length > printBufSize := by simp only [printBufSize]; omega
  simp only [this, ↓reduceIte]
  rcases hw with rfl | rfl | rfl
  · simp [toCharsInt_eq]
  · simp only [Utf.utf8Decode]; rw [decode8_ascii_out _ _ _ _ hascii]; simp [toCharsInt_eq]
  · simp only [Utf.utf8Decode]; rw [decode8_ascii_out _ _ _ _ hascii]; simp [toCharsInt_eq]

example : (⟨64, true⟩ : IntTy).Valid ∧ (⟨64, true⟩ : IntTy).Fits (-(2 ^ 63)) := by decide

/-! #### parsing: total and range-checked -/

/-- For EVERY string: the parser answers exactly what the class of the string demands — the value of the
    leading literal (after optional blanks) if the type holds it, out_of_range if not, invalid_argument if there is
    no literal or the literal is fractional. -/
theorem parse_total (t : IntTy) (ht : t.Valid) (s : List Nat) : Conforms (classify t s) (Num.parseInt t 8 s) := by
  exact parseCore_conforms t ht (s.dropWhile isBlank)

/-- a returned value always lies in the range of the target type (no wrapped/truncated result, any width) -/
theorem parse_value_sound (t : IntTy) (ht : t.Valid) (str : List Nat) (v : Int) (h : parseCore t str = .ok v) :
    t.Fits v := by
  unfold parseCore at h
  cases hl : leadingLiteral t.signed str with
  | none => rw [fromCharsInt_none t str hl] at h; simp at h
  | some p =>
    obtain ⟨neg, ds, rest⟩ := p
    obtain ⟨-, hfc⟩ := fromCharsInt_some t ht str neg ds rest hl
    rw [hfc] at h
    by_cases hfit : t.Fits (if neg = true then -(digitsVal ds : Int) else (digitsVal ds : Int))
    · simp only [hfit, ↓reduceIte] at h
      split at h
      · split at h
        · cases h
        · cases h; exact hfit
      · cases h; exact hfit
    · simp [hfit] at h

/-- "-1" into an unsigned type is invalid_argument (no literal), as pinned by the tests -/
theorem unsigned_rejects_minus (t : IntTy) (ht : t.Valid) (hu : t.signed = false) (bl rest : List Nat)
    (hbl : ∀ c ∈ bl, isBlank c = true) :
    Num.parseInt t 8 (bl ++ minusSign :: rest) = .err .invalidArgument := by
  have hdw : (bl ++ minusSign :: rest).dropWhile isBlank = minusSign :: rest := by
    clear ht hu
    induction bl with
    | nil => simp [isBlank, minusSign]
    | cons a l ih =>
      have ha : isBlank a = true := hbl a (by simp)
      simp only [List.cons_append, List.dropWhile_cons, ha, ↓reduceIte]
      exact ih (fun c hc => hbl c (by simp [hc]))
  have h := parse_total t ht (bl ++ minusSign :: rest)
  have hc : classify t (bl ++ minusSign :: rest) = .invalid := by
    unfold classify classifyWith
    have : (bl ++ minusSign :: rest).dropWhile isBlank = minusSign :: rest := hdw
    have hXX : True := by
      trivial
    rw [this]
    simp [leadingLiteral, hu, isDigit, minusSign]
  rw [hc] at h; exact h

/-! #### round trip -/

theorem classify_intText (t : IntTy) (ht : t.Valid) (v : Int) (hv : t.Fits v) : classify t (intText v) = .value v := by
  obtain ⟨d, tl, hd, hdig⟩ : ∃ d tl, natDigits v.natAbs = d :: tl ∧ isDigit d = true := by
    cases h : natDigits v.natAbs with
    | nil => exact absurd h (natDigits_ne_nil _)
    | cons d tl => exact ⟨d, tl, rfl, natDigits_all_digits _ d (by rw [h]; simp)⟩
  have hnb : isBlank d = false := by simp [isDigit] at hdig; simp [isBlank]; omega
  have hnm : d ≠ minusSign := by simp [isDigit] at hdig; simp only [minusSign]; omega
  have htw : (natDigits v.natAbs).takeWhile isDigit = natDigits v.natAbs := by
    have := takeWhile_append_of_all isDigit (natDigits v.natAbs) [] (natDigits_all_digits _)
    simpa using this
  have hdw : (natDigits v.natAbs).dropWhile isDigit = [] := by
    rw [← drop_takeWhile_length, htw]; simp
  have hne : (natDigits v.natAbs).isEmpty = false := by rw [hd]; rfl
  unfold classify classifyWith intText
  by_cases hneg : v < 0
  · have hs : t.signed = true := by
      obtain ⟨tb, ts⟩ := t
      cases ts
      · simp only [IntTy.Fits, IntTy.lo, Bool.false_eq_true, ↓reduceIte] at hv; omega
      · rfl
    simp only [hneg, ↓reduceIte]
    have : (minusSign :: natDigits v.natAbs).dropWhile isBlank = minusSign :: natDigits v.natAbs := by
      simp [isBlank, minusSign]
    rw [this]
    simp only [leadingLiteral, hs, List.head?_cons, beq_self_eq_true, Bool.and_self, ↓reduceIte, List.drop_succ_cons,
      List.drop_zero, htw, hdw, hne, Bool.false_eq_true, fractionalTail, digitsVal_natDigits]
    have hval : -((v.natAbs : Nat) : Int) = v := by omega
    simp [hval, hv]
  · simp only [hneg, ↓reduceIte]
    have : (natDigits v.natAbs).dropWhile isBlank = natDigits v.natAbs := by
      rw [hd]; simp [hnb]
    rw [this]
    have hh : ((natDigits v.natAbs).head? == some minusSign) = false := by
      rw [hd]; simpa using hnm
    simp only [leadingLiteral, hh, Bool.and_false, Bool.false_eq_true, ↓reduceIte, htw, hdw, hne, fractionalTail,
      digitsVal_natDigits]
    have hval : ((v.natAbs : Nat) : Int) = v := by omega
    simp [hval, hv]

/-- Every value of every integer type prints to a text that parses back to itself. -/
theorem int_roundtrip (t : IntTy) (ht : t.Valid) (v : Int) (hv : t.Fits v) :
    Num.parseInt t 8 (toCharsInt v) = .ok v := by
  have h := parse_total t ht (toCharsInt v)
  rw [toCharsInt_eq, classify_intText t ht v hv] at h
  rw [toCharsInt_eq]; exact h

/-! #### width independence -/

/-- For EVERY string of 16- or 32-bit code units (well-formed UTF or not): the answer is the one the class of the
    string demands — the same classification as for 8-bit strings, applied to the code units. -/
theorem parse_width_independent (t : IntTy) (ht : t.Valid) (w : Nat) (hw : w = 16 ∨ w = 32) (s : List Nat)
    (hU : Units w s) : Conforms (classify t s) (Num.parseInt t w s) := by
  have hw8 : w ≠ 8 := by omega
  unfold Num.parseInt classify classifyWith
  simp only [hw8, ↓reduceIte]
  have hb : skipBlanks s = s.dropWhile isBlank := rfl
  rw [hb, narrow_eq]
  have hUb : Units w (s.dropWhile isBlank) := hU.dropWhile isBlank
  generalize s.dropWhile isBlank = body at hUb
  -- the 8-bit classification of the narrowed text …
  have h8 := parseCore_conforms t ht (narrowF w defaultMark8 body)
  -- … is the classification of the wide text itself
  rw [leadingLiteral_narrowF w hw t.signed body hUb] at h8
  cases hl : leadingLiteral t.signed body with
  | none => rw [hl] at h8; exact h8
  | some p =>
    obtain ⟨neg, ds, rest⟩ := p
    rw [hl] at h8
    obtain ⟨-, -, hrest, -⟩ := leadingLiteral_some hl
    have hUr : Units w rest := by
      rw [hrest]
      cases neg
      · exact hUb.dropWhile isDigit
      · exact (hUb.drop 1).dropWhile isDigit
    simp only [Option.map_some] at h8
    rw [narrowF_fractionalTail w hw rest hUr] at h8
    exact h8

/-- text whose units are all ASCII parses identically in every width -/
theorem parse_width_independent_ascii (t : IntTy) (w : Nat) (s : List Nat) (h : ∀ u ∈ s, u < 0x80) :
    Num.parseInt t w s = Num.parseInt t 8 s := by
  unfold Num.parseInt
  by_cases hw : w = 8
  · simp [hw]
  · simp only [hw, ↓reduceIte]
    have : ∀ u ∈ skipBlanks s, u < 0x80 := fun u hu => h u ((List.dropWhile_sublist _).subset hu)
    rw [narrow_eq, narrowF_of_ascii _ _ _ this]

/-- round trip through 16/32-bit strings -/
theorem int_roundtrip_wide (t : IntTy) (ht : t.Valid) (v : Int) (hv : t.Fits v) (w : Nat) (hw : w = 8 ∨ w = 16 ∨ w = 32) :
    ∃ txt, printInt w v = .ok txt ∧ Num.parseInt t w txt = .ok v := by
  refine ⟨intText v, (print_fits_buffer t ht v hv w hw).2, ?_⟩
  have hascii : ∀ u ∈ intText v, u < 0x80 := by
    unfold intText
    intro u hu
    split at hu
    · simp only [List.mem_cons] at hu
      rcases hu with rfl | hu
      · simp [minusSign]
      · exact isDigit_ascii (natDigits_all_digits _ u hu)
    · exact isDigit_ascii (natDigits_all_digits _ u hu)
  rw [parse_width_independent_ascii t w _ hascii, ← toCharsInt_eq]
  exact int_roundtrip t ht v hv

/-! #### bool -/

/-- For EVERY string (code units of any width): the bool parser answers what the class of the string demands —
    `0`/`1`/`true`/`false` (any letter case, after optional blanks) give the value, another number gives out_of_range,
    anything else invalid_argument. -/
theorem bool_parse_total (s : List Nat) : BoolConforms (classifyBool s) (parseBool s) := parseBool_conforms s

/-- printed bools parse back -/
theorem bool_roundtrip (b : Bool) : parseBool (printBool b) = .ok b := by
  cases b <;> decide

/-- every letter-case variant of `true` / `false`, after blanks and before arbitrary further text, is accepted -/
theorem bool_literals (bl word rest : List Nat) (hbl : ∀ c ∈ bl, isBlank c = true) :
    (word.map lower = wTrue → parseBool (bl ++ word ++ rest) = .ok true) ∧
    (word.map lower = wFalse → parseBool (bl ++ word ++ rest) = .ok false) := by
  have hdw : ∀ (x : Nat) (tl : List Nat), isBlank x = false → (bl ++ x :: tl).dropWhile isBlank = x :: tl := by
    intro x tl hx
    induction bl with
    | nil => simp [hx]
    | cons a l ih =>
      have ha : isBlank a = true := hbl a (by simp)
      simp only [List.cons_append, List.dropWhile_cons, ha, ↓reduceIte]
      exact ih (fun c hc => hbl c (by simp [hc]))
  have lowerT : ∀ x, lower x = 0x74 → isBlank x = false ∧ isDigit x = false := by
    intro x hx; unfold lower at hx; simp only [isBlank, isDigit]; split at hx <;> simp <;> omega
  have lowerF : ∀ x, lower x = 0x66 → isBlank x = false ∧ isDigit x = false := by
    intro x hx; unfold lower at hx; simp only [isBlank, isDigit]; split at hx <;> simp <;> omega
  constructor
  · intro hw
    have h := bool_parse_total (bl ++ word ++ rest)
    rcases word with _ | ⟨a, _ | ⟨b, _ | ⟨c, _ | ⟨d, _ | ⟨e, r⟩⟩⟩⟩⟩
    any_goals (simp [wTrue] at hw; done)
    · simp only [List.map_cons, List.map_nil, wTrue, List.cons.injEq, and_true] at hw
      obtain ⟨ha, hb, hc, hd⟩ := hw
      have hcl : classifyBool (bl ++ [a, b, c, d] ++ rest) = .value true := by
        unfold classifyBool
        have : bl ++ [a, b, c, d] ++ rest = bl ++ a :: (b :: c :: d :: rest) := by simp
        rw [this, hdw a _ (lowerT a ha).1]
        simp [(lowerT a ha).2, startsWithCI, wTrue, ha, hb, hc, hd]
      rw [hcl] at h; exact h
  · intro hw
    have h := bool_parse_total (bl ++ word ++ rest)
    rcases word with _ | ⟨a, _ | ⟨b, _ | ⟨c, _ | ⟨d, _ | ⟨e, _ | ⟨f, r⟩⟩⟩⟩⟩⟩
    any_goals (simp [wFalse] at hw; done)
    · simp only [List.map_cons, List.map_nil, wFalse, List.cons.injEq, and_true] at hw
      obtain ⟨ha, hb, hc, hd, he⟩ := hw
      have hcl : classifyBool (bl ++ [a, b, c, d, e] ++ rest) = .value false := by
        unfold classifyBool
        have : bl ++ [a, b, c, d, e] ++ rest = bl ++ a :: (b :: c :: d :: e :: rest) := by simp
        rw [this, hdw a _ (lowerF a ha).1]
        simp [(lowerF a ha).2, startsWithCI, wTrue, wFalse, ha, hb, hc, hd, he]
      rw [hcl] at h; exact h

/-! #### named constants of the tree (regenerated by the translator on every check) -/

/-- The default error mark that `Utf8::Encode` writes for an untranscodable unit of a wide numeric string is the
    one the model uses, and it contains no ASCII byte (so it can never extend or create a literal); the library
    is compiled with `from_chars` for floating types (the `strtod` fallback is not the modelled code). -/
theorem consts_default_marks :
    BSVerif.Generated.Num.defaultErrorMark8 = defaultMark8 ∧
    BSVerif.Generated.Num.defaultErrorMark16 = defaultMark16 ∧
    BSVerif.Generated.Num.defaultErrorMark32 = defaultMark16 ∧
    (∀ b ∈ BSVerif.Generated.Num.defaultErrorMark8, 0x80 ≤ b) ∧
    BSVerif.Generated.Num.hasFloatFromChars = 1 := by
  decide

end BSVerif.Props.C16
