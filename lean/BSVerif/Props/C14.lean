/-
  C14 — ISO-8601 text of times and durations is calendar-correct and parses back exactly.

  PROPERTY THEOREMS ONLY (helper lemmas: Chrono/Hinnant.lean, Chrono/Lemmas.lean, Chrono/Fractions.lean).
  Quantifiers: ALL integers for the calendar algorithm; all day numbers / years that the 64-bit arithmetic of
  the code can hold (explicit bounds) for the Model functions.

    * calendar_algorithm_correct   the days→civil algorithm (Hinnant) is right for EVERY integer day number
    * civil_from_days_correct      Model.civilFromDays (the code, with its int64/uint32 arithmetic) yields a valid
                                   Gregorian date whose Spec day number is the input — for every day number
                                   whose offset `+719468` is representable
    * civil_from_days_total        … and it never raises UB / an error there
    * days_from_civil_correct      Model.daysFromCivil = Spec day number for every month/day in the lexical ranges
                                   and every year of magnitude ≤ 2.5252·10^16
    * days_from_civil_inverse      parse-side algorithm ∘ print-side algorithm = id on the Model
    * daysInMonth_table            the generated table DaysInMonth = month lengths of a leap year
    * utcBuf_sufficient            the generated buffer size holds the longest time-point text (34 characters)
    * fraction_scaling_exact       the double division of ParseSecondFractions is exact (digits → nanoseconds)
    * print_tp_correct             for every int64 count outside the two recorded classes (explicit predicate
                                   `Printable`) and every precision, printing raises no UB and hands to the formatter
                                   exactly the fields of the instant: a valid Gregorian date whose Spec day number is
                                   ⌊count/perDay⌋, the time of day, and the fraction count mod den
    * print_parse_fields_roundtrip the fields handed to the formatter, converted back by the parse side (`tpFromParts`:
                                   days_from_civil, SafeAddDuration ×3, round), give the ORIGINAL count — the round
                                   trip of C14 modulo the text layer (PrintIsoUtc ↔ ParseIsoUtc), all precisions
    * print_tp_total / _refuted / print_tp_no_ub_witnesses
                                   the FULL claim "every representable time point prints" is refuted by literal
                                   witnesses (first partial day of the range; int64 day counts next to the maximum)
                                   — the two recorded findings
-/
import BSVerif.Chrono.Lemmas
import BSVerif.Chrono.Fractions
import BSVerif.Chrono.SafeAdd
import BSVerif.Chrono.PrintTp
import BSVerif.Chrono.RoundTrip

namespace BSVerif.Props.C14
open BSVerif.Chrono BSVerif.Chrono.Calendar BSVerif.Chrono.Hinnant BSVerif.Generated.Chrono

/-- **Calendar algorithm, all integers.** For every integer day number `z` the year/month/day computed by the
    era / year-of-era / day-of-year formulas of the code is a valid proleptic-Gregorian date and its closed-form day
    number is `z`. -/
theorem calendar_algorithm_correct (z : Int) :
    ValidDate (civilOf z).year (civilOf z).mon (civilOf z).day ∧
    dayNumber (civilOf z).year (civilOf z).mon (civilOf z).day = z :=
  civilOf_correct z

/-- **Print side (days → civil) of the code is calendar-correct.** -/
theorem civil_from_days_correct {z : Int} (h1 : -9223372036854775808 ≤ z) (h2 : z ≤ 9223372036854775807 - 719468)
    {c : Civil} (h : civilFromDays z = .ok c) :
    ValidDate c.year c.mon c.day ∧ dayNumber c.year c.mon c.day = z := by
  rw [civilFromDays_eq h1 h2] at h
  injection h with h; subst h
  exact civilOf_correct z

/-- … and it is total there: no undefined behaviour, no exception. -/
theorem civil_from_days_total {z : Int} (h1 : -9223372036854775808 ≤ z) (h2 : z ≤ 9223372036854775807 - 719468) :
    ∃ c, civilFromDays z = .ok c :=
  ⟨_, civilFromDays_eq h1 h2⟩

example : ∃ z : Int, -9223372036854775808 ≤ z ∧ z ≤ 9223372036854775807 - 719468 := ⟨0, by omega, by omega⟩
example : civilFromDays 11016 = .ok ⟨2000, 2, 29⟩ := by decide +kernel

/-- **Parse side (civil → days) of the code is calendar-correct.** -/
theorem days_from_civil_correct {year mon day : Int} (hy1 : -25252000000000000 ≤ year) (hy2 : year ≤ 25252000000000000)
    (hm1 : 1 ≤ mon) (hm2 : mon ≤ 12) (hd1 : 1 ≤ day) (hd2 : day ≤ 31) :
    daysFromCivil year mon day = .ok (dayNumber year mon.toNat day.toNat) :=
  daysFromCivil_eq hy1 hy2 hm1 hm2 hd1 hd2

example : daysFromCivil 2000 2 29 = .ok 11016 := by decide +kernel

/-- **The two directions are inverse on the Model** (what makes print → parse return the same day). -/
theorem days_from_civil_inverse {z : Int} (h1 : -9223000000000000000 ≤ z) (h2 : z ≤ 9223000000000000000) {c : Civil}
    (h : civilFromDays z = .ok c) : daysFromCivil c.year c.mon c.day = .ok z :=
  daysFromCivil_civilFromDays h1 h2 h

/-- the named table `DaysInMonth` of the current tree (generated) holds the month lengths of a leap year -/
theorem daysInMonth_table : ∀ m, m < 12 → daysInMonth.getD m 0 = monthLen 2000 (m + 1) := by decide

/-- the named buffer size `UtcBufSize` of the current tree (generated) holds the longest time-point text the code can
    produce: sign, 17 year digits, `-MM-DDThh:mm:ss`, `Z` = 34 characters (sub-second precisions: ≤ 12 year digits
    + 10 fraction characters = 39) -/
theorem utcBuf_sufficient : 39 < utcBufSize := by decide

/-- **Fractions are exact**: `10^18 / (10^(n+9) / v) = v·10^(9−n)` for every digit run `v < 10^n`, `n ≤ 9`. -/
theorem fraction_scaling_exact {n v : Nat} (hn : n ≤ 9) (hv0 : 0 < v) (hv : v < 10 ^ n) :
    1000000000 * 1000000000 / (10 ^ n * 1000000000 / v) = v * 10 ^ (9 - n) :=
  BSVerif.Chrono.fraction_scaling_exact hn hv0 hv

example : 1000000000 * 1000000000 / (10 ^ 3 * 1000000000 / 925) = 925 * 10 ^ (9 - 3) := by decide

/-! #### printing: calendar-correct fields on the explicit in-range predicate -/

/-- **Printing is calendar-correct (partial form).** For every precision of the table and every int64 count that is
    `Printable` (the midnight before the instant is representable; for day precision the count is at least 719468 below
    the maximum — i.e. everything outside the two recorded classes), `To(time_point, string&)` performs no undefined
    behaviour and calls `PrintIsoUtc` with exactly: a valid proleptic-Gregorian date whose closed-form day number is
    `⌊c / perDay⌋`, the hour/minute/second of `c mod perDay`, and (sub-second precisions) the fraction `c mod den`. -/
theorem print_tp_correct {p : Period} (hp : p.inTable) {c : Int} (h : Printable p c) :
    ∃ (y : Int) (m d : Nat), ValidDate y m d ∧ dayNumber y m d = c / (p.perDay : Int) ∧
      printTp i64 p c =
        printIsoUtc utcBufSize y m d
          (c % (p.perDay : Int) * p.num / p.den / 3600) (c % (p.perDay : Int) * p.num / p.den % 3600 / 60)
          (c % (p.perDay : Int) * p.num / p.den % 60)
          (if p.den > 1 then some (c % (p.den : Int), p.den) else none) := by
  obtain ⟨hv, hd⟩ := civilOf_correct (c / (p.perDay : Int))
  exact ⟨_, _, _, hv, hd, print_tp_fields hp h⟩

/-- **Round trip of the fields (partial form).** For the same counts (and day numbers inside the calendar range of the
    parse side) the parse-side conversion of exactly those fields — fraction scaled to nanoseconds as the lexer
    delivers it — returns the original count. -/
theorem print_parse_fields_roundtrip {p : Period} (hp : p.inTable) {c : Int} (h : Printable p c)
    (hcal : -9223000000000000000 ≤ c / (p.perDay : Int) ∧ c / (p.perDay : Int) ≤ 9223000000000000000) :
    tpFromParts i64 p
      ⟨(civilOf (c / (p.perDay : Int))).year, (civilOf (c / (p.perDay : Int))).mon, (civilOf (c / (p.perDay : Int))).day,
       c % (p.perDay : Int) * p.num / p.den / 3600, c % (p.perDay : Int) * p.num / p.den % 3600 / 60, c % (p.perDay : Int) * p.num / p.den % 60,
       if p.den > 1 then some (c % (p.den : Int) * ((1000000000 / p.den : Nat) : Int)) else none⟩ = .ok c :=
  fields_roundtrip hp h hcal

example : Printable pNano 0 := by decide +kernel
example : Printable pNano 9223372036854775807 := by decide +kernel
example : ¬ Printable pNano (-9223372036854775808) := by decide +kernel
example : ¬ Printable pDay 9223372036854775807 := by decide +kernel

/-! #### the full statement about printing, and what the unchanged code does -/

/-- the FULL C14 claim about printing: every representable time point of every signed representation and every
    precision of the table prints (no exception, no undefined behaviour) -/
def PrintTpTotal : Prop :=
  ∀ (r : Rep) (p : Period) (c : Int), r.inTable → r.signed = true → p.inTable → r.fits c = true → ∃ t, printTp r p c = .ok t

/-- literal witnesses of the two recorded findings -/
theorem print_tp_no_ub_witnesses :
    printTp i64 pNano (-9223372036854775808) = .ub ubOverflow ∧          -- time_point<nanoseconds>::min()
    printTp i64 pSec (-9223372036854775808) = .ub ubOverflow ∧           -- time_point<seconds>::min()
    printTp i32 pSec (-2147483648) = .ub ubOverflow ∧                    -- 32-bit seconds
    printTp i64 pDay 9223372036854775807 = .ub ubOverflow := by          -- days + 719468
  refine ⟨by decide +kernel, by decide +kernel, by decide +kernel, by decide +kernel⟩

/-- **the full claim is refuted by the unchanged code** (finding `chrono-first-day-of-range`) -/
theorem print_tp_total_refuted : ¬ PrintTpTotal := by
  intro h
  obtain ⟨t, ht⟩ := h i64 pNano (-9223372036854775808) (Or.inl rfl) rfl (Or.inl rfl) (by decide)
  rw [print_tp_no_ub_witnesses.1] at ht
  exact absurd ht (by simp)

end BSVerif.Props.C14
