/-
  C17, the two text validators — "the built-in validators follow their documented semantics".

  PROPERTY THEOREMS ONLY (helpers: BSVerif/Valid/TextLemmas.lean). The model (`Valid/TextValidators.lean`) is the
  branch-for-branch transliteration of `PhoneNumber::operator()` and `Email::operator()`; the Spec
  (`Valid/TextSpec.lean`) is written from the documentation and has three verdicts (accept / reject / open).
  Quantifiers: ALL strings of code units (any length, any unit values — char, char16_t, char32_t, wchar_t alike),
  ALL constructor parameters (min, max, isPlusRequired), loaded or not.
-/
import BSVerif.Valid.TextLemmas
import BSVerif.Generated.TextvalidConsts

namespace BSVerif.Props.C17Text
open BSVerif.Valid.Text BSVerif.Valid.TextSpec

/-! ### PhoneNumber -/

/-- a number of the documented shape passes exactly when the `+` is there if required and the number of digits is
    within [min, max] -/
theorem phone_shape_pass_iff (cfg : PhoneCfg) (s : List Nat) (hs : wellShaped s = true) :
    phone cfg true s = none ↔
      (cfg.plusRequired = true → s.head? = some 43) ∧ cfg.minNumbers ≤ digits s ∧ digits s ≤ cfg.maxNumbers := by
  obtain ⟨h1, h2, h3, h4⟩ := shape_loop s .start false {} hs rfl rfl (fun h => by cases h) (fun _ => rfl)
  have h3' : (phoneLoop {} s).digitCount = digits s := by simpa using h3
  have h4' : (phoneLoop {} s).hasPlus = (s.head? == some 43) := by simpa using h4
  simp only [phone, Bool.not_true, Bool.false_eq_true, if_false, finish_none_iff, h1, h2, h3', h4', true_and, beq_iff_eq]

/-- **(a) both bounds of the digit count are inclusive**: for every number of the documented shape that carries the
    `+` when it is required, and for all min, max (in particular all min ≤ max, min = max included),
    PhoneNumber(min, max, plus) passes if and only if min ≤ digits ≤ max. -/
theorem phone_digit_bounds_inclusive (min max : Nat) (plus : Bool) (s : List Nat) (hs : wellShaped s = true)
    (hplus : plus = true → s.head? = some 43) :
    phone ⟨min, max, plus⟩ true s = none ↔ min ≤ digits s ∧ digits s ≤ max := by
  rw [phone_shape_pass_iff _ s hs]
  exact ⟨fun h => h.2, fun h => ⟨hplus, h⟩⟩

/-- (b) "automatically pass if value is not loaded" -/
theorem phone_not_loaded_passes (cfg : PhoneCfg) (s : List Nat) : phone cfg false s = none := rfl

theorem email_not_loaded_passes (s : List Nat) : email false s = .pass := rfl

/-- every documented rule, when broken, makes the validator fail -/
theorem phone_broken_fails (min max : Nat) (plus : Bool) (s : List Nat)
    (h : (phoneBroken min max plus s).isSome = true) : phone ⟨min, max, plus⟩ true s ≠ none := by
  intro hp
  simp only [phone, Bool.not_true, Bool.false_eq_true, if_false, finish_none_iff] at hp
  obtain ⟨herr, hpar, hpl, hlo, hhi⟩ := hp
  unfold phoneBroken at h
  split at h
  · rename_i hc
    exact loop_bad_char s {} (by simpa using hc) herr
  split at h
  · rename_i hc
    simp only [Bool.and_eq_true, Bool.not_eq_true'] at hc
    have := loop_no_plus s {} hc.2
    rw [hpl hc.1] at this
    cases this
  split at h
  · rename_i hc
    exact loop_plus_after_digit s {} false (fun h => by cases h) hc herr
  split at h
  · rename_i hc
    rcases loop_parens s {} false rfl (by simpa using hc) with h1 | h1
    · exact h1 herr
    · rw [hpar] at h1; cases h1
  split at h
  · rename_i hc
    rcases loop_dash_misused s {} false (fun h => by cases h) hc with h1 | h1
    · exact h1 herr
    · rw [hpar] at h1; cases h1
  split at h
  · rename_i hc
    have hcnt := loop_count s {} herr
    simp only [Nat.zero_add] at hcnt
    rw [hcnt] at hlo hhi
    simp only [Bool.or_eq_true, decide_eq_true_eq] at hc
    change min ≤ digits s at hlo
    change digits s ≤ max at hhi
    omega
  · cases h

/-- **(c) Spec accepts ⇒ the validator passes** -/
theorem phone_accept_sound (min max : Nat) (plus : Bool) (s : List Nat)
    (h : phoneVerdict min max plus s = .accept) : phone ⟨min, max, plus⟩ true s = none := by
  unfold phoneVerdict at h
  split at h
  · rename_i ha
    simp only [phoneAccepts, Bool.and_eq_true, Bool.or_eq_true, Bool.not_eq_true', decide_eq_true_eq, beq_iff_eq] at ha
    obtain ⟨⟨⟨hs, hp⟩, hlo⟩, hhi⟩ := ha
    rw [phone_shape_pass_iff _ s hs]
    refine ⟨fun hreq => ?_, hlo, hhi⟩
    rcases hp with hp | hp
    · have hreq' : plus = true := hreq
      rw [hreq'] at hp; cases hp
    · exact hp
  · split at h <;> cases h

/-- **(c) Spec rejects ⇒ the validator fails** -/
theorem phone_reject_sound (min max : Nat) (plus : Bool) (s : List Nat)
    (h : phoneVerdict min max plus s = .reject) : phone ⟨min, max, plus⟩ true s ≠ none := by
  unfold phoneVerdict at h
  split at h
  · cases h
  · split at h
    · rename_i hb
      exact phone_broken_fails min max plus s hb
    · cases h

/-- (c) the validator passes ⇒ the Spec does not reject (it accepts or is silent) -/
theorem phone_pass_not_rejected (min max : Nat) (plus : Bool) (s : List Nat)
    (h : phone ⟨min, max, plus⟩ true s = none) : phoneVerdict min max plus s ≠ .reject :=
  fun hr => phone_reject_sound min max plus s hr h

/-- the validator fails ⇒ the Spec does not accept -/
theorem phone_fail_not_accepted (min max : Nat) (plus : Bool) (s : List Nat)
    (h : phone ⟨min, max, plus⟩ true s ≠ none) : phoneVerdict min max plus s ≠ .accept :=
  fun ha => h (phone_accept_sound min max plus s ha)

/-- the error `nested`, once set, leaves the parenthesis open -/
theorem loop_nested_inPar (cs : List Nat) : ∀ st : PhoneState, (st.error = some .nested → st.inPar = true) →
    (phoneLoop st cs).error = some .nested → (phoneLoop st cs).inPar = true := by
  induction cs with
  | nil => intro st h; exact h
  | cons c cs ih =>
    intro st h
    by_cases herr : st.error = none
    · rw [loop_cons_ok st c cs herr]
      apply ih
      rcases unit_cases c with hd | hc | hc | hc | hc | hc | hbad
      · rw [step_digit st c cs hd]; simp [herr]
      · subst hc
        by_cases h0 : st.digitCount = 0
        · rw [step_plus0 st cs h0]; simp [herr]
        · rw [step_plus_pos st cs h0]; simp
      · subst hc; rw [step_space]; simp [herr]
      · subst hc; rw [step_dash]; split <;> simp [herr]
      · subst hc; rw [step_open]; split <;> simp
      · subst hc; rw [step_close]; split <;> simp [herr]
      · rw [step_other st c cs hbad]; simp
    · rw [loop_error st _ herr]; exact h

/-- the errors the loop can set -/
def loopErr (e : Option PhoneErr) : Prop :=
  e = none ∨ e = some .dashes ∨ e = some .nested ∨ e = some .closing ∨ e = some .chars

theorem loop_loopErr (cs : List Nat) : ∀ st : PhoneState, loopErr st.error → loopErr (phoneLoop st cs).error := by
  induction cs with
  | nil => intro st h; exact h
  | cons c cs ih =>
    intro st h
    by_cases herr : st.error = none
    · rw [loop_cons_ok st c cs herr]
      apply ih
      rcases unit_cases c with hd | hc | hc | hc | hc | hc | hbad
      · rw [step_digit st c cs hd]; exact Or.inl herr
      · subst hc
        by_cases h0 : st.digitCount = 0
        · rw [step_plus0 st cs h0]; exact Or.inl herr
        · rw [step_plus_pos st cs h0]; simp [loopErr]
      · subst hc; rw [step_space]; exact Or.inl herr
      · subst hc; rw [step_dash]; split <;> simp [loopErr, herr]
      · subst hc; rw [step_open]; split <;> simp [loopErr, herr]
      · subst hc; rw [step_close]; split <;> simp [loopErr, herr]
      · rw [step_other st c cs hbad]; simp [loopErr]
    · rw [loop_error st _ herr]; exact h

/-- **(d) totality, and the complete list of outcomes**: for every configuration and every string the validator
    terminates with `pass` or with one of the message classes below; the digit-count texts carry the configured
    numbers ("must contain N digits" exactly when min = max). -/
theorem phone_total (cfg : PhoneCfg) (loaded : Bool) (s : List Nat) :
    phone cfg loaded s = none ∨ phone cfg loaded s = some .dashes ∨ phone cfg loaded s = some .closing ∨
    phone cfg loaded s = some .chars ∨ phone cfg loaded s = some .plus ∨ phone cfg loaded s = some .unclosed ∨
    (cfg.minNumbers = cfg.maxNumbers ∧ phone cfg loaded s = some (.digitsExact cfg.minNumbers)) ∨
    (cfg.minNumbers ≠ cfg.maxNumbers ∧ phone cfg loaded s = some (.digitsRange cfg.minNumbers cfg.maxNumbers)) := by
  cases loaded
  · exact Or.inl rfl
  · have hn := loop_nested_inPar s {} (fun h => by cases h)
    have hl := loop_loopErr s {} (Or.inl rfl)
    simp only [phone, Bool.not_true, Bool.false_eq_true, if_false]
    generalize phoneLoop {} s = st at hn hl
    unfold phoneFinish
    cases hp : st.inPar
    · have hne : st.error ≠ some .nested := fun h => by rw [hn h] at hp; cases hp
      cases hplus : (!st.hasPlus && cfg.plusRequired)
      · simp only [Bool.false_eq_true, if_false]
        rcases hl with he | he | he | he | he
        · simp only [he]
          by_cases hc : (decide (st.digitCount < cfg.minNumbers) || decide (st.digitCount > cfg.maxNumbers)) = true
          · simp only [hc, if_true]
            by_cases hm : cfg.minNumbers = cfg.maxNumbers
            · have : (cfg.minNumbers == cfg.maxNumbers) = true := by simp [hm]
              simp only [this, if_true]
              exact Or.inr (Or.inr (Or.inr (Or.inr (Or.inr (Or.inr (Or.inl ⟨hm, trivial⟩))))))
            · have : (cfg.minNumbers == cfg.maxNumbers) = false := by simp [hm]
              simp only [this, Bool.false_eq_true, if_false]
              exact Or.inr (Or.inr (Or.inr (Or.inr (Or.inr (Or.inr (Or.inr ⟨hm, trivial⟩))))))
          · simp [hc]
        · simp [he]
        · exact absurd he hne
        · simp [he]
        · simp [he]
      · simp
    · simp

/-- the text "contains nested parentheses" can never be returned: a second `(` leaves the parenthesis open, and the
    later test "missing closing parenthesis" overwrites it (recorded observation, not a pass/fail matter) -/
theorem phone_nested_message_unreachable (cfg : PhoneCfg) (loaded : Bool) (s : List Nat) :
    phone cfg loaded s ≠ some .nested := by
  rcases phone_total cfg loaded s with h | h | h | h | h | h | ⟨_, h⟩ | ⟨_, h⟩ <;> rw [h] <;> simp

/-- the documented shape never breaks a documented rule: `accept` and `reject` of the Spec are consistent -/
theorem spec_verdicts_consistent (min max : Nat) (plus : Bool) (s : List Nat)
    (h : phoneAccepts min max plus s = true) : phoneBroken min max plus s = none := by
  cases hb : phoneBroken min max plus s with
  | none => rfl
  | some w =>
    have ha : phoneVerdict min max plus s = .accept := by simp [phoneVerdict, h]
    exact absurd (phone_accept_sound min max plus s ha) (phone_broken_fails min max plus s (by simp [hb]))

/-! ### Email -/

/-- **the model of Email characterised by the grammar of the Spec**: it passes exactly the strings
    `local@domain` (split at the first `@`) whose local part is a Dot-string of atext of at most 64 units and
    whose domain is a list of at most 255 units of dot separated labels (letters, digits, inner hyphens, at most
    63 units) none of which begins with a digit. -/
theorem email_pass_iff (s : List Nat) :
    emailCore s = true ↔
      ∃ d, afterAt s = some d ∧ localOk (localPart s) = true ∧ domainOk d = true ∧ digitFirstLabel d = false := by
  rw [emailCore_spec]
  cases afterAt s with
  | none => simp
  | some d => simp [Bool.and_assoc]

/-- **(c) Spec accepts ⇒ the validator passes** (an accepted address has at most 254 units, so its size fits `int`) -/
theorem email_accept_sound (s : List Nat) (h : emailVerdict s = .accept) : email true s = .pass := by
  unfold emailVerdict at h
  split at h
  · cases h
  · rename_i d hd
    split at h
    · cases h
    · rename_i h1
      split at h
      · cases h
      · rename_i h2
        simp only [Bool.or_eq_true, Bool.not_eq_true', not_or, Bool.not_eq_false, decide_eq_true_eq, Bool.not_eq_true] at h1 h2
        have hc : emailCore s = true := (email_pass_iff s).mpr ⟨d, hd, h1.1, h1.2, h2.1⟩
        have hlen : ¬ s.length ≥ 2 ^ 31 := by omega
        simp [email, hlen, hc]

/-- **(c) Spec rejects ⇒ the validator fails** (any size) -/
theorem email_reject_sound (s : List Nat) (h : emailVerdict s = .reject) : email true s ≠ .pass := by
  intro hp
  have hc : emailCore s = true := by
    simp only [email, Bool.not_true, Bool.false_eq_true, if_false] at hp
    split at hp
    · cases hp
    · split at hp
      · assumption
      · cases hp
  obtain ⟨d, hd, h1, h2, _⟩ := (email_pass_iff s).mp hc
  simp [emailVerdict, hd, h1, h2] at h
  split at h <;> cases h

/-- (c) the validator passes ⇒ the Spec does not reject -/
theorem email_pass_not_rejected (s : List Nat) (h : email true s = .pass) : emailVerdict s ≠ .reject :=
  fun hr => email_reject_sound s hr h

/-- (d) totality: below the `int` bound the validator answers pass or fail for every string -/
theorem email_total (loaded : Bool) (s : List Nat) (h : s.length < 2 ^ 31) :
    email loaded s = .pass ∨ email loaded s = .fail := by
  have hlen : ¬ s.length ≥ 2 ^ 31 := by omega
  cases loaded
  · exact Or.inl rfl
  · cases hc : emailCore s <;> simp [email, hlen, hc]

/-! ### the constants of the code (regenerated from the compiled functors by tools/translate.py) -/

open BSVerif.Generated.Textvalid in
/-- the character classes and limits of the Spec (RFC) and of the model are the ones compiled into the library:
    atext (+ dot) in the local part, letters / digits / hyphen (+ dot) inside a label, a letter first, a letter or
    digit last; 64 / 63 / 255; PhoneNumber's defaults 7, 15, plus required; the default texts. -/
theorem text_constants_match_code :
    (List.range 256).filter (fun c => atext c || c == cDot) = emailLocalAccepted ∧
    (List.range 256).filter atext = emailLocalFirstAccepted ∧
    (List.range 256).filter (fun c => ldh c || c == cDot) = emailLabelMidAccepted ∧
    (List.range 256).filter alpha = emailLabelFirstAccepted ∧
    (List.range 256).filter letDig = emailLabelLastAccepted ∧
    (List.range 256).filter (fun c => !localCharRejected c) = emailLocalFirstAccepted ∧
    localPartMaxSize = emailLocalMax ∧ domainPartLabelMaxSize = emailLabelMax ∧ domainPartMaxSize = emailDomainMax ∧
    emailDefaultMessage = emailMsg ∧
    ({} : PhoneCfg) = ⟨phoneDefaultMin, phoneDefaultMax, phoneDefaultPlusRequired == 1⟩ ∧
    (List.range 256).filter (fun c => dgt c || c == cSpace || c == cDash) = phoneMidAccepted ∧
    PhoneErr.dashes.message = phoneMsgDashes ∧ PhoneErr.closing.message = phoneMsgClosing ∧
    PhoneErr.chars.message = phoneMsgChars ∧ PhoneErr.plus.message = phoneMsgPlus ∧
    PhoneErr.unclosed.message = phoneMsgUnclosed ∧ (PhoneErr.digitsExact 4).message = phoneMsgExact_4 ∧
    (PhoneErr.digitsRange 7 15).message = phoneMsgRange_7_15 := by
  decide +kernel

/-! ### non-vacuity -/

/-- "+555 (55) 555-55-55" (the example of the documentation) -/
def docExample : List Nat := [43, 53, 53, 53, 32, 40, 53, 53, 41, 32, 53, 53, 53, 45, 53, 53, 45, 53, 53]

example : wellShaped docExample = true := by decide
example : digits docExample = 12 := by decide
example : phone {} true docExample = none := by decide
-- exactly at the bounds, one below, one above; min = max
example : phone ⟨12, 12, true⟩ true docExample = none := by decide
example : phone ⟨7, 12, true⟩ true docExample = none := by decide
example : phone ⟨12, 15, true⟩ true docExample = none := by decide
example : phone ⟨7, 11, true⟩ true docExample = some (.digitsRange 7 11) := by decide
example : phone ⟨13, 15, true⟩ true docExample = some (.digitsRange 13 15) := by decide
example : phone ⟨11, 11, true⟩ true docExample = some (.digitsExact 11) := by decide
-- "(55) 555 55 55" and "555 5 55 55" of the README, without the plus
example : wellShaped [40, 53, 53, 41, 32, 53, 53, 53, 32, 53, 53, 32, 53, 53] = true := by decide
example : phoneVerdict 7 15 false [53, 53, 53, 32, 53, 32, 53, 53, 32, 53, 53] = .accept := by decide
example : phoneVerdict 7 15 true [53, 53, 53, 32, 53, 32, 53, 53, 32, 53, 53] = .reject := by decide
-- "+1234567- " : the dash separates nothing (rejected by the Spec, and by the fixed code)
example : phoneVerdict 7 15 true [43, 49, 50, 51, 52, 53, 54, 55, 45, 32] = .reject := by decide
example : phone {} true [43, 49, 50, 51, 52, 53, 54, 55, 45, 32] = some .dashes := by decide
-- " +91 - 22 - 27782183 " (a pinned test of the library): the documentation is silent
example : phoneVerdict 7 15 true [32, 43, 57, 49, 32, 45, 32, 50, 50, 32, 45, 32, 50, 55, 55, 56, 50, 49, 56, 51, 32] = .open := by decide
-- "+1 ((2)) 3": the second `(` is reported as a missing closing parenthesis
example : phone ⟨1, 9, true⟩ true [43, 49, 32, 40, 40, 50, 41, 41, 32, 51] = some .unclosed := by decide

/-- "a.b@c-d.ef" -/
def mailExample : List Nat := [97, 46, 98, 64, 99, 45, 100, 46, 101, 102]

example : emailVerdict mailExample = .accept := by decide
example : email true mailExample = .pass := by decide +kernel
-- "a@.b": the domain begins with a dot (rejected by the Spec, and by the fixed code)
example : emailVerdict [97, 64, 46, 98] = .reject := by decide
example : email true [97, 64, 46, 98] = .fail := by decide +kernel
-- "a@1b": a label that begins with a digit — RFC 1035 and RFC 1123 disagree, the Spec is silent, the code rejects
example : emailVerdict [97, 64, 49, 98] = .open := by decide
example : email true [97, 64, 49, 98] = .fail := by decide +kernel
-- "ab" / "a@b@c" / "a..b@c" / "\"a\"@b"
example : emailVerdict [97, 98] = .reject := by decide
example : emailVerdict [97, 64, 98, 64, 99] = .reject := by decide
example : emailVerdict [97, 46, 46, 98, 64, 99] = .reject := by decide
example : emailVerdict [34, 97, 34, 64, 98] = .reject := by decide
-- the local part at / over its limit
example : email true (List.replicate 64 97 ++ [64, 98]) = .pass := by decide +kernel
example : email true (List.replicate 65 97 ++ [64, 98]) = .fail := by decide +kernel
example : emailVerdict (List.replicate 64 97 ++ [64, 98]) = .accept := by decide +kernel
example : emailVerdict (List.replicate 65 97 ++ [64, 98]) = .reject := by decide +kernel

end BSVerif.Props.C17Text
