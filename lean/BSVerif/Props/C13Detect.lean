/-
  C13 — Encoded text streams: encoding detection, BOM and chunked decoding are lossless.
  PROPERTY THEOREMS ONLY.  Part 1: BOM table, detection, progress/termination of the chunked reader
  (+ the writer theorems of Props/C13Writer.lean).
  (Part 2 — the text is read back exactly, whatever the chunk size: Props/C13Lossless.lean;
   all parts are collected by Props/C13.lean, the module `check.py C13` builds and audits.)
-/
import BSVerif.Utf.StreamOracle
import BSVerif.Props.C12
import BSVerif.Utf.Progress
import BSVerif.Props.C13Writer

namespace BSVerif.Props.C13
open BSVerif.Utf BSVerif.Utf.Spec BSVerif.Utf.StreamOracle

/-! #### regenerated obligations -/

/-- The BOM table compiled into the library is the Unicode one, for all five encodings. -/
theorem bom_table : ∀ t : UtfType, bomOf t = specBom t := by
  intro t; cases t <;> decide

/-- The default chunk size satisfies the reader's `static_assert`s (multiple of 4, ≥ 32). -/
theorem chunk_size_obligation :
    Generated.Utf.encodedStreamReaderDefaultChunk % 4 = 0 ∧ 32 ≤ Generated.Utf.encodedStreamReaderDefaultChunk := by
  decide

/-! #### detection -/

/-- **BOM detection**, all encodings, any body. The UTF-16LE BOM followed by two zero bytes *is* the
    UTF-32LE BOM (Unicode's own ambiguity), hence the side condition. -/
theorem detect_bom (e : UtfType) (body : List Nat)
    (h16 : e = .utf16le → ¬ [0, 0].isPrefixOf body) :
    detect (specBom e ++ body) = (e, (specBom e).length) := by
  cases e <;> simp [detect, bomOf, specBom, startsWith, Generated.Utf.bomUtf8, Generated.Utf.bomUtf16le,
    Generated.Utf.bomUtf16be, Generated.Utf.bomUtf32le, Generated.Utf.bomUtf32be] <;> simp_all

/-- The NUL-freeness side condition of BOM-less detection is forced: two different texts in two
    different encodings can be the same bytes, so no detector can satisfy the unrestricted claim. -/
theorem ambiguous : bytesLE 8 (encs 8 [0x41, 0]) = bytesLE 16 (encs 16 [0x41]) ∧ [0x41, 0] ≠ [0x41] := by
  decide

/-! #### BOM-less detection (the positive half of the property; `ambiguous` above shows the side conditions are forced) -/

theorem getD_mem_or (s : List Nat) (i : Nat) (h : i < s.length) : s.getD i 0 ∈ s := by
  simp only [List.getD_eq_getElem?_getD, List.getElem?_eq_getElem h, Option.getD_some]; exact List.getElem_mem h

/-- a byte string without zero bytes is never taken for UTF-16/32 by the zero-pattern analysis -/
theorem analyse_no_zero (s : List Nat) (hnz : ∀ b ∈ s, 0 < b ∧ b < 256) : ∀ fuel i, analyse s fuel i = .utf8 := by
  intro fuel
  induction fuel with
  | zero => intro i; rfl
  | succ fuel ih =>
    intro i
    unfold analyse
    by_cases hi : i ≥ s.length
    · simp [hi]
    · simp only [hi, if_false]
      have h32 : (if i % 4 = 0 ∧ i + 4 ≤ s.length then
          (if le32At s i ≠ 0 then (if le32At s i / 65536 = 0 then some UtfType.utf32le
            else if le32At s i % 65536 = 0 then some UtfType.utf32be else none) else none) else none) = none := by
        by_cases hc : i % 4 = 0 ∧ i + 4 ≤ s.length
        · have b0 := hnz _ (getD_mem_or s i (by omega))
          have b1 := hnz _ (getD_mem_or s (i + 1) (by omega))
          have b2 := hnz _ (getD_mem_or s (i + 2) (by omega))
          have b3 := hnz _ (getD_mem_or s (i + 3) (by omega))
          have hx : le32At s i ≠ 0 ∧ le32At s i / 65536 ≠ 0 ∧ le32At s i % 65536 ≠ 0 := by unfold le32At; omega
          simp only [hc, and_self, if_true]
          rw [if_pos hx.1, if_neg hx.2.1, if_neg hx.2.2]
        · simp [hc]
      have h16 : (if i % 2 = 0 ∧ i + 2 ≤ s.length then
          (if le16At s i ≠ 0 then (if le16At s i / 256 = 0 then some UtfType.utf16le
            else if le16At s i % 256 = 0 then some UtfType.utf16be else none) else none) else none) = none := by
        by_cases hc : i % 2 = 0 ∧ i + 2 ≤ s.length
        · have b0 := hnz _ (getD_mem_or s i (by omega))
          have b1 := hnz _ (getD_mem_or s (i + 1) (by omega))
          have hx : le16At s i ≠ 0 ∧ le16At s i / 256 ≠ 0 ∧ le16At s i % 256 ≠ 0 := by unfold le16At; omega
          simp only [hc, and_self, if_true]
          rw [if_pos hx.1, if_neg hx.2.1, if_neg hx.2.2]
        · simp [hc]
      simp only [h32, h16]
      exact ih (i + 1)

/-- **BOM-less UTF-8**: any byte string without zero bytes that starts with an ASCII character is detected as UTF-8 -/
theorem detect_utf8_nobom (c : Nat) (rest : List Nat) (hc : 0 < c ∧ c < 0x80) (hnz : ∀ b ∈ rest, 0 < b ∧ b < 256) :
    detect (c :: rest) = (.utf8, 0) := by
  have hall : ∀ b ∈ c :: rest, 0 < b ∧ b < 256 := by
    intro b hb; simp at hb; rcases hb with rfl | hb
    · omega
    · exact hnz b hb
  unfold detect
  have h1 : ¬ (239 = c) := by omega
  have h2 : ¬ (255 = c) := by omega
  have h3 : ¬ (0 = c) := by omega
  have h4 : ¬ (254 = c) := by omega
  simp [startsWith, bomOf, Generated.Utf.bomUtf8, Generated.Utf.bomUtf16le, Generated.Utf.bomUtf16be,
    Generated.Utf.bomUtf32le, Generated.Utf.bomUtf32be, h1, h2, h3, h4]
  exact analyse_no_zero _ hall _ _

/-- **BOM-less UTF-16LE**: first unit ASCII (non-NUL), second unit (if any) not NUL -/
theorem detect_utf16le_nobom (c : Nat) (rest : List Nat) (hc : 0 < c ∧ c < 0x80)
    (hrest : ∀ a b r, rest = a :: b :: r → a < 256 ∧ b < 256 ∧ ¬ (a = 0 ∧ b = 0)) :
    detect (c :: 0 :: rest) = (.utf16le, 0) := by
  have h1 : ¬ (239 = c) := by omega
  have h2 : ¬ (255 = c) := by omega
  have h3 : ¬ (0 = c) := by omega
  have h4 : ¬ (254 = c) := by omega
  unfold detect
  simp only [startsWith, bomOf, Generated.Utf.bomUtf8, Generated.Utf.bomUtf16le, Generated.Utf.bomUtf16be,
    Generated.Utf.bomUtf32le, Generated.Utf.bomUtf32be, List.isEmpty_cons, Bool.false_eq_true, if_false,
    List.isPrefixOf, h1, h2, h3, h4, beq_iff_eq, Bool.and_eq_true, false_and, List.length_cons]
  match rest, hrest with
  | [], _ =>
    have hc0 : ¬ (c = 0) := by omega
    have hc1 : c < 256 := by omega
    simp [analyse, le16At, le32At, hc0, hc1]
  | [a], _ =>
    have hc0 : ¬ (c = 0) := by omega
    have hc1 : c < 256 := by omega
    simp [analyse, le16At, le32At, hc0, hc1]
  | a :: b :: r, hr =>
    obtain ⟨ha, hb, hab⟩ := hr a b r rfl
    have hx : le32At (c :: 0 :: a :: b :: r) 0 = c + 65536 * a + 16777216 * b := by simp [le32At]
    have hy : le16At (c :: 0 :: a :: b :: r) 0 = c := by simp [le16At]
    have e1 : ¬ ((c + 65536 * a + 16777216 * b) / 65536 = 0) := by omega
    have e2 : ¬ ((c + 65536 * a + 16777216 * b) % 65536 = 0) := by omega
    have e3 : c / 256 = 0 := by omega
    have hc0 : ¬ (c = 0) := by omega
    simp [analyse, hx, hy, e1, e2, e3, hc0]

/-- **BOM-less UTF-16BE** -/
theorem detect_utf16be_nobom (c : Nat) (rest : List Nat) (hc : 0 < c ∧ c < 0x80)
    (hrest : ∀ a b r, rest = a :: b :: r → a < 256 ∧ b < 256 ∧ ¬ (a = 0 ∧ b = 0)) :
    detect (0 :: c :: rest) = (.utf16be, 0) := by
  have h3 : ¬ (0 = c) := by omega
  have hc0 : ¬ (c = 0) := by omega
  unfold detect
  simp only [startsWith, bomOf, Generated.Utf.bomUtf8, Generated.Utf.bomUtf16le, Generated.Utf.bomUtf16be,
    Generated.Utf.bomUtf32le, Generated.Utf.bomUtf32be, List.isEmpty_cons, Bool.false_eq_true, if_false,
    List.isPrefixOf, h3, beq_iff_eq, Bool.and_eq_true, false_and, and_false, List.length_cons,
    show ¬ ((239 : Nat) = 0) by decide, show ¬ ((255 : Nat) = 0) by decide, show ¬ ((254 : Nat) = 0) by decide]
  have hy : ∀ l, le16At (0 :: c :: l) 0 = 256 * c := by intro l; simp [le16At]
  have e4 : ¬ (256 * c = 0) := by omega
  have e5 : ¬ (256 * c / 256 = 0) := by omega
  have e6 : 256 * c % 256 = 0 := by omega
  match rest, hrest with
  | [], _ => simp [analyse, hy, le32At, e4, e5, e6, hc0]
  | [a], _ => simp [analyse, hy, le32At, e4, e5, e6, hc0]
  | a :: b :: r, hr =>
    obtain ⟨ha, hb, hab⟩ := hr a b r rfl
    have hx : le32At (0 :: c :: a :: b :: r) 0 = 256 * c + 65536 * a + 16777216 * b := by simp [le32At]
    have e0 : ¬ (256 * c + 65536 * a + 16777216 * b = 0) := by omega
    have e1 : ¬ ((256 * c + 65536 * a + 16777216 * b) / 65536 = 0) := by omega
    have e2 : ¬ ((256 * c + 65536 * a + 16777216 * b) % 65536 = 0) := by omega
    simp [analyse, hx, hy, e0, e1, e2, e4, e5, e6, hc0]

/-- **BOM-less UTF-32LE** -/
theorem detect_utf32le_nobom (c : Nat) (rest : List Nat) (hc : 0 < c ∧ c < 0x80) :
    detect (c :: 0 :: 0 :: 0 :: rest) = (.utf32le, 0) := by
  have h1 : ¬ (239 = c) := by omega
  have h2 : ¬ (255 = c) := by omega
  have h3 : ¬ (0 = c) := by omega
  have h4 : ¬ (254 = c) := by omega
  have hc0 : ¬ (c = 0) := by omega
  have e1 : c / 65536 = 0 := by omega
  unfold detect
  simp only [startsWith, bomOf, Generated.Utf.bomUtf8, Generated.Utf.bomUtf16le, Generated.Utf.bomUtf16be,
    Generated.Utf.bomUtf32le, Generated.Utf.bomUtf32be, List.isEmpty_cons, Bool.false_eq_true, if_false,
    List.isPrefixOf, h1, h2, h3, h4, beq_iff_eq, Bool.and_eq_true, false_and, List.length_cons]
  have hx : le32At (c :: 0 :: 0 :: 0 :: rest) 0 = c := by simp [le32At]
  simp [analyse, hx, hc0, e1]

/-- **BOM-less UTF-32BE** -/
theorem detect_utf32be_nobom (c : Nat) (rest : List Nat) (hc : 0 < c ∧ c < 0x80) :
    detect (0 :: 0 :: 0 :: c :: rest) = (.utf32be, 0) := by
  have hc0 : ¬ (c = 0) := by omega
  unfold detect
  simp only [startsWith, bomOf, Generated.Utf.bomUtf8, Generated.Utf.bomUtf16le, Generated.Utf.bomUtf16be,
    Generated.Utf.bomUtf32le, Generated.Utf.bomUtf32be, List.isEmpty_cons, Bool.false_eq_true, if_false,
    List.isPrefixOf, beq_iff_eq, Bool.and_eq_true, false_and, and_false, List.length_cons,
    show ¬ ((239 : Nat) = 0) by decide, show ¬ ((255 : Nat) = 0) by decide, show ¬ ((254 : Nat) = 0) by decide]
  have hx : le32At (0 :: 0 :: 0 :: c :: rest) 0 = 16777216 * c := by simp [le32At]
  have e0 : ¬ (16777216 * c = 0) := by omega
  have e1 : ¬ (16777216 * c / 65536 = 0) := by omega
  have e2 : 16777216 * c % 65536 = 0 := by omega
  simp [analyse, hx, e0, e1, e2]


/-! #### chunked reader: progress and termination (the "never hangs" part of the property) -/

/-- window invariant of `CEncodedStreamReader` (start/end pointers stay inside the N-byte buffer) -/
abbrev WInv := BSVerif.Utf.WInv

/-- **Every successful `ReadChunk` makes progress**: for every reader state with a chunk size that
    satisfies the class's `static_assert`s (here: ≥ 32), every stream content, policy and target
    width, a call that returns Success strictly decreases
    `unread stream bytes + buffered bytes + [stream not yet at eof]`, and keeps the window invariant.
    (On the tree before commit 41d2b3f this was false: a stream ending inside a UTF-16/32 code unit
    left 1–3 bytes in the window for ever.) -/
theorem readChunk_progress (r : Reader) (out : List Nat) (hN : 32 ≤ r.N) (hinv : WInv r)
    (hs : (r.readChunk out).1 = .success) :
    (r.readChunk out).2.2.measure < r.measure ∧ WInv (r.readChunk out).2.2 ∧ (r.readChunk out).2.2.N = r.N :=
  readChunk_progress' r out hN hinv hs

/-- **A caller that reads until EndFile/DecodeError always terminates**, for every byte stream
    (well-formed, ill-formed or truncated anywhere), every N ≥ 32, policy, mark and target width:
    `len + 2` calls always suffice. -/
theorem readAll_terminates (N wo : Nat) (pol : Policy) (mark : Option (List Nat)) (bytes : List Nat) (hN : 32 ≤ N) :
    (Reader.readAll (bytes.length + 2) (Reader.mk' N wo pol mark bytes) [] []).2.2 = false := by
  obtain ⟨h1, h2, h3⟩ := mk'_spec N wo pol mark bytes
  exact readAll_no_hang _ _ _ _ (by omega) h1 (by omega)

example : (Reader.mk' 32 8 .skip (some [0x3F]) [0xFF, 0xFE, 0x41, 0x00, 0x42]).utf = .utf16le := by decide

end BSVerif.Props.C13
