/-
  C10 (CSV half) — loading from memory and from a stream give the same outcome wherever values,
  quoted fields, line breaks or multi-byte characters fall relative to the reader's buffer
  boundaries; stream output in UTF-8 without BOM equals memory output.

  PROPERTY THEOREMS ONLY (helper lemmas: Csv/StreamLemmas, Csv/StreamSim, Csv/ReaderLemmas,
  Csv/WriterLemmas). Quantifiers: ALL texts (conformant or not, any length), ALL chunk sizes ≥ 1
  (hence every alignment of every character with the chunk boundaries), ALL request scripts
  (by key / by index / mixed, repeated reads of the same cell included), ALL call sequences of the
  writers.

  Model assumptions (see Csv/StreamReader.lean): the stream is UTF-8 without BOM (decoded text =
  bytes), `std::istream::read` delivers min(n, remaining) bytes and sets eofbit iff fewer arrived.
-/
import BSVerif.Csv.StreamSim
import BSVerif.Csv.WriterLemmas
import BSVerif.Csv.Archive
import BSVerif.Props.C09
import BSVerif.Generated.UtfConsts

namespace BSVerif.Props.C10.Csv
open BSVerif.Csv BSVerif.Csv.Spec BSVerif.Csv.Reader BSVerif.Csv.Stream BSVerif.Csv.Abs BSVerif.Csv.Oracle

/-- **C10 (CSV reader).** For every chunk size, every separator that keeps the grammar unambiguous, every
    text and every request script, the stream reader's session has exactly the outcome of the string
    reader's session: the same headers, the same cells (also when a cell is read more than once), the same
    error class after the same number of rows. -/
theorem stream_reader_refines_memory (chunk : Nat) (hc : 1 ≤ chunk) (sep : Nat) (hs : SepOk sep) (wh : Bool)
    (script : List Req) (txt : List Nat) :
    streamSession chunk sep wh script txt = memSession sep wh script txt := by
  rw [streamSession_eq_abs chunk hc sep hs, memSession_eq_abs sep hs]

example : SepOk 44 ∧ 1 ≤ (256 : Nat) := by decide

/-- … in particular for the compiled-in chunk size and every allowed separator -/
theorem stream_reader_refines_memory_default (sep : Nat) (hsep : sep ∈ BSVerif.Generated.Csv.allowedSeparators) (wh : Bool)
    (script : List Req) (txt : List Nat) :
    streamSession BSVerif.Generated.Utf.encodedStreamReaderDefaultChunk sep wh script txt = memSession sep wh script txt :=
  stream_reader_refines_memory _ (by decide) sep (C09.allowed_sepOk sep hsep) wh script txt

/-- how the stream delivers its data (the chunk size) does not matter -/
theorem chunking_irrelevant (c1 c2 : Nat) (h1 : 1 ≤ c1) (h2 : 1 ≤ c2) (sep : Nat) (hs : SepOk sep) (wh : Bool)
    (script : List Req) (txt : List Nat) :
    streamSession c1 sep wh script txt = streamSession c2 sep wh script txt := by
  rw [stream_reader_refines_memory c1 h1 sep hs, stream_reader_refines_memory c2 h2 sep hs]

/-- hence the stream reader, too, delivers on every RFC 4180 rendering of a table what the Oracle expects (C09) -/
theorem stream_reader_conforms (chunk : Nat) (hc : 1 ≤ chunk) (sep : Nat) (hs : SepOk sep) (wh : Bool) (script : List Req)
    (recs : Table) (txt : List Nat) (hr : Renders sep recs txt) (exp : Outcome) (he : expectOfRecs wh script recs = some exp) :
    streamSession chunk sep wh script txt = exp := by
  rw [stream_reader_refines_memory chunk hc sep hs]
  exact C09.reader_conforms sep hs wh script recs txt hr exp he

/-- … and satisfies the Oracle on every text for which the Oracle has a verdict -/
theorem stream_reader_satisfies_oracle (chunk : Nat) (hc : 1 ≤ chunk) (sep : Nat) (wh : Bool) (script : List Req) (txt : List Nat)
    (exp : Outcome) (he : expectRead sep wh script txt = some exp) : streamSession chunk sep wh script txt = exp := by
  have hs : SepOk sep := by
    apply Classical.byContradiction; intro hn
    unfold expectRead at he; rw [if_pos hn] at he; cases he
  rw [stream_reader_refines_memory chunk hc sep hs]
  exact C09.reader_satisfies_oracle sep wh script txt exp he

/-- **C10 (archive, load).** `LoadObject<CsvArchive>` from a stream and from a string agree on every text. -/
theorem load_stream_eq_load_string (chunk : Nat) (hc : 1 ≤ chunk) (sep : Nat) (keys : List (List Nat)) (txt : List Nat) :
    Archive.loadStream chunk sep keys txt = Archive.loadString sep keys txt := by
  unfold Archive.loadStream Archive.loadString Archive.validateSeparator
  by_cases hsep : sep ∈ BSVerif.Generated.Csv.allowedSeparators
  · simp only [hsep, if_true, bind, Except.bind]
    rw [stream_reader_refines_memory chunk hc sep (C09.allowed_sepOk sep hsep)]
  · simp only [hsep, if_false, bind, Except.bind]

/-- **C10 (CSV writer).** For every sequence of `WriteValue`/`NextLine` calls (rows of any widths, header on
    or off) the stream writer (UTF-8, no BOM) produces exactly the bytes of the string writer, or fails with
    the same error. -/
theorem stream_writer_equals_string_writer (sep : Nat) (wh : Bool) (rows : List (List Writer.KV)) :
    Writer.saveStream sep wh rows = Writer.saveString sep wh rows :=
  Writer.saveStream_eq_saveString sep wh rows

/-- **C10 (archive, save).** `SaveObject<CsvArchive>` to a stream (UTF-8, no BOM) yields exactly the bytes of
    saving to a string. -/
theorem save_stream_eq_save_string (sep : Nat) (objs : List (List Writer.KV)) :
    Archive.saveStream sep objs = Archive.saveString sep objs := by
  unfold Archive.saveStream Archive.saveString
  rw [stream_writer_equals_string_writer]

/-- the line scanner of the stream reader refines the abstract line scanner for every chunking (line level) -/
theorem stream_line_refines (sep : Nat) (hs : SepOk sep) (e : Enc) (buf : List Nat) (hok : EncOk e) :
    ScanSpec sep e buf 0 0 0 none [] (buf ++ e.logical) (scanLineS sep e buf 0 0 0 none) :=
  scanLineS_abs sep hs _ e buf 0 0 0 none [] [] buf rfl hok (by simp) rfl rfl (fun p hp => by cases hp)

end BSVerif.Props.C10.Csv
