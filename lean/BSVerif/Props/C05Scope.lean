/-
  C05 (scope level) — a skipped value never disturbs the loading of its neighbours.
  PROPERTY THEOREMS about the MsgPack ARRAY scope (object scopes: Props/C03.lean; reader level: Props/C05.lean).

  `array_element_consumes_one`: for every array scope state with elements left, every target kind and
  both policies, a `SerializeValue` on the next element either raises the policy's exception or
  consumes EXACTLY that element — loaded, or passed over as "not loaded" (mismatched kind with Skip,
  nil) — and advances the element index by exactly one: index and reader position stay in step
  (this is the invariant the property names; it was violated before commit b9a6bd3).
-/
import BSVerif.Scope.Cursor
import BSVerif.Props.C03

namespace BSVerif.Props.C05.Scope
open BSVerif.Scope

local macro "triv" : term => `(by first | rfl | trivial)

/-- reader positioned in front of the complete value `v`, with `rest` behind it -/
structure At (r : Rd) (pre v rest : List Tok) : Prop where
  doc : r.doc = pre ++ v ++ rest
  pos : r.pos = pre.length

theorem rest_of_at {r : Rd} {pre v rest : List Tok} (h : At r pre v rest) : r.rest = v ++ rest := by
  unfold Rd.rest; rw [h.doc, h.pos, List.append_assoc, List.drop_left]

theorem skip_at {r : Rd} {pre v rest : List Tok} (h : At r pre v rest) (hv : WFv v) :
    r.skipValue = .ok { r with pos := (pre ++ v).length } := by
  unfold Rd.skipValue
  rw [rest_of_at h]
  obtain ⟨hne, hs⟩ := hv
  cases hvv : v with
  | nil => exact absurd hvv hne
  | cons t ts =>
    have := hs rest 0
    rw [hvv] at this
    simp only [List.cons_append] at this ⊢
    rw [this]; simp only [skipN]
    congr 2
    rw [h.doc, hvv]; simp; omega

/-- the abstract outcome of loading kind `ty` from the element `v` -/
def elementAnswer (mis : Mis) (ty : Ty) (v : List Tok) : Ans :=
  match valueAnswer mis ty v with
  | .ok (some s) => .val s
  | .ok none => .no
  | .error e => .err e

theorem array_element_consumes_one (r : Rd) (pre v rest : List Tok) (h : At r pre v rest) (hv : WFv v)
    (size index : Nat) (hlt : index < size) (tl : List Scope) (ty : Ty) :
    let res := step ⟨r, .arr size index :: tl⟩ (.next ty)
    res.1 = elementAnswer r.mis ty v ∧
    ((∀ e, res.1 ≠ .err e) →
      res.2.stack = .arr size (index + 1) :: tl ∧ res.2.rd.rest = rest ∧ res.2.rd.doc = r.doc ∧ res.2.rd.mis = r.mis) := by
  have hrest := rest_of_at h
  have hne : index ≠ size := by omega
  have hvne := hv.1
  cases hvv : v with
  | nil => exact absurd hvv hvne
  | cons t ts =>
    have hposle : (pre ++ v).length = pre.length + (t :: ts).length := by rw [hvv]; simp
    simp only [step, checkEnd, hne, if_false, Rd.readValue, hrest, hvv, List.cons_append, elementAnswer, valueAnswer]
    cases hm : matchTy ty t with
    | val s =>
      have hts : ts = [] := wfv_scalar_head (hvv ▸ hv) (matchTy_val_children hm)
      subst hts
      simp only
      refine ⟨triv, fun _ => ⟨triv, ?_, triv, triv⟩⟩
      unfold Rd.rest
      simp only
      rw [h.doc, h.pos, hvv]
      have : pre ++ [t] ++ rest = (pre ++ [t]) ++ rest := rfl
      rw [this, show pre.length + 1 = (pre ++ [t]).length by simp, List.drop_left]
    | overflow => simp
    | other =>
      simp only [Rd.mismatch]
      by_cases hthrow : t ≠ .nil ∧ r.mis = .throwError
      · simp [hthrow, bind, Except.bind]
      · simp only [hthrow, if_false]
        have hsk := skip_at h hv
        simp only [hsk, bind, Except.bind, pure, Except.pure]
        refine ⟨triv, fun _ => ⟨triv, ?_, triv, triv⟩⟩
        unfold Rd.rest
        simp only
        rw [h.doc, List.drop_left]

/-- non-vacuity and the concrete scenario of the property text: `[1,"x",3]` then `7`, loaded as three ints
    with the Skip policy, gives 1, not-loaded, 3 and then 7 — the skipped string disturbs nobody -/
example :
    run (initSt [.arr 3, .int 1, .str [120], .int 3, .int 7] .skip) [.openArr, .next .int, .next .int, .next .int, .close, .next .int]
      = [.opened 3, .val (.int 1), .no, .val (.int 3), .closed, .val (.int 7)] := by decide

end BSVerif.Props.C05.Scope
