/-
  C05 (scope level) — a skipped value never disturbs the loading of its neighbours.
  PROPERTY THEOREMS about the MsgPack ARRAY scope (object scopes: Props/C03.lean; reader level: Props/C05.lean).

  `array_element_consumes_one`: for every array scope state with elements left, every target kind and
  both policies, a `SerializeValue` on the next element either raises the policy's exception or
  consumes EXACTLY that element — loaded, or passed over as "not loaded" (mismatched kind with Skip,
  nil) — and advances the element index by exactly one: index and reader position stay in step
  (this is the invariant the property names; it was violated before commit b9a6bd3).

  `array_close_skips_unread`: destroying an array scope with elements left (a `std::tuple` shorter than the array
  under Skip, a partly read nested array) passes over exactly the unread elements — scalars or containers — so the
  value that FOLLOWS the array is the next one the enclosing scope sees (the destructor's skip loop, fix 0b9e4f2;
  before it the reader was left inside the array).

  `binary_scope_session` / `array_binary_element_consumes_one` / `root_binary_value_consumes_one`: a `bin` element opened
  as a binary scope, of which any number of bytes (all, some, none) is read before the scope is destroyed, is consumed
  as exactly that one value — the destructor of CMsgPackReadBinaryScope skips the unread bytes — and counts as one
  element. `open_binary_leaves_other_value`: `OpenBinaryScope` on an element that is NOT a `bin` answers "no", leaves the
  value in place and does NOT count it (the byte container then loads it through `OpenArrayScope`, which counts it).
-/
import BSVerif.Scope.Cursor
import BSVerif.Props.C03

namespace BSVerif.Props.C05.Scope
open BSVerif.Scope

local macro "triv" : term => `(by first | rfl | trivial)

-- `At r pre v rest` (reader positioned in front of the complete value `v`, with `rest` behind it), `rest_of_at` and
-- `skip_at` live in BSVerif/Scope/Lemmas.lean (shared with the array lemmas of C03)

/-- the abstract outcome of loading kind `ty` from the element `v` -/
def elementAnswer (mis : Mis) (ty : Ty) (v : List Tok) : Ans :=
  match valueAnswer mis ty v with
  | .ok (some s) => .val s
  | .ok none => .no
  | .error e => .err e

theorem array_element_consumes_one (r : Rd) (pre v rest : List Tok) (h : At r pre v rest) (hv : WFv v)
    (size index : Nat) (hlt : index < size) (tl : List Scope) (ty : Ty) (d : Option Err := none) :
    let res := step ⟨r, .arr size index :: tl, d⟩ (.next ty)
    res.1 = elementAnswer r.mis ty v ∧
    ((∀ e, res.1 ≠ .err e) →
      res.2.stack = .arr size (index + 1) :: tl ∧ res.2.rd.rest = rest ∧ res.2.rd.doc = r.doc ∧ res.2.rd.mis = r.mis ∧
      res.2.deferred = d) := by
  have hrest := rest_of_at h
  have hne : index ≠ size := by omega
  have hvne := hv.1
  cases hvv : v with
  | nil => exact absurd hvv hvne
  | cons t ts =>
    have hposle : (pre ++ v).length = pre.length + (t :: ts).length := by rw [hvv]; simp
    simp only [step, checkEnd, hne, if_false, Rd.readValue, hrest, hvv, List.cons_append, elementAnswer, valueAnswer]
    cases hm : matchTy ty t with
    | val s =>
      have hts : ts = [] := wfv_scalar_head (hvv ▸ hv) (matchTy_val_children hm)
      subst hts
      simp only
      refine ⟨triv, fun _ => ⟨triv, ?_, triv, triv, triv⟩⟩
      unfold Rd.rest
      simp only
      rw [h.doc, h.pos, hvv]
      have : pre ++ [t] ++ rest = (pre ++ [t]) ++ rest := rfl
      rw [this, show pre.length + 1 = (pre ++ [t]).length by simp, List.drop_left]
    | overflow => simp
    | other =>
      simp only [Rd.mismatch]
      by_cases hthrow : t ≠ .nil ∧ r.mis = .throwError
      · simp [hthrow, bind, Except.bind]
      · simp only [hthrow, if_false]
        have hsk := skip_at h hv
        simp only [hsk, bind, Except.bind, pure, Except.pure]
        refine ⟨triv, fun _ => ⟨triv, ?_, triv, triv, triv⟩⟩
        unfold Rd.rest
        simp only
        rw [h.doc, List.drop_left]

/-- **Unread elements are passed over when the array scope is destroyed**: with `size - index` complete values left in
    front of the reader, `close` lands exactly behind the last of them, notifies the parent and defers nothing. -/
theorem array_close_skips_unread (r : Rd) (pre rest : List Tok) (items : List (List Tok)) (hw : ∀ v ∈ items, WFv v)
    (h : At r pre items.flatten rest) (size index : Nat) (hsz : size = index + items.length) (tl : List Scope)
    (d : Option Err) :
    let res := step ⟨r, .arr size index :: tl, d⟩ .close
    res.1 = .closed ∧ res.2.stack = notifyParent tl ∧ res.2.deferred = d ∧
      res.2.rd = { r with pos := (pre ++ items.flatten).length } ∧ res.2.rd.rest = rest := by
  have hcl := arrCloseLoop_at items hw r pre rest h
  have hn : size - index = items.length := by omega
  simp only [step, arrClose, hn, hcl]
  refine ⟨triv, triv, triv, triv, ?_⟩
  unfold Rd.rest
  simp only
  rw [h.doc, List.drop_left]

/-! #### binary scopes -/

/-- **a binary scope session**: opened on the `bin` value `bs` the reader stands at, `k ≤ |bs|` byte requests deliver
    the first `k` bytes and the destruction of the scope — wherever it stands — leaves the reader behind the value,
    notifies the parent and defers nothing; whatever is requested afterwards (`qs`) goes on from there -/
theorem binary_scope_session (r : Rd) (bs : List Nat) (rest' : List Tok) (h : r.rest = .bin bs :: rest') (k : Nat)
    (hk : k ≤ bs.length) (tl : List Scope) (d : Option Err) (qs : List Req) :
    run ⟨r, .bin bs.length 0 :: tl, d⟩ (List.replicate k .readByte ++ .close :: qs)
      = (bs.take k).map C03.byteAns ++ .closed :: run ⟨{ r with pos := r.pos + 1 }, notifyParent tl, d⟩ qs := by
  have hreads := binReads_at h k 0 (Nat.zero_le _)
  simp only [Nat.zero_add, hk, if_true, List.drop_zero] at hreads
  rw [C03.binReads_is_machine k bs.length 0 r tl d _ _ hreads (.close :: qs)]
  simp only [run, step, binClose_at h k hk]

/-- **`OpenBinaryScope` on an array element that is not a `bin`**: "no", and NOTHING changes — the value stays in place
    and is not counted (`mIndex` unchanged), so the following `OpenArrayScope`/`SerializeValue` finds it as the same element -/
theorem open_binary_leaves_other_value (r : Rd) (pre v rest : List Tok) (h : At r pre v rest) (t : Tok) (ts : List Tok)
    (hv : v = t :: ts) (hn : ∀ bs, t ≠ .bin bs) (size index : Nat) (hlt : index < size) (tl : List Scope) (d : Option Err) :
    step ⟨r, .arr size index :: tl, d⟩ .openBin = (.no, ⟨r, .arr size index :: tl, d⟩) ∧
    step ⟨r, .root :: tl, d⟩ .openBin = (.no, ⟨r, .root :: tl, d⟩) := by
  have hrest : r.rest = t :: (ts ++ rest) := by rw [rest_of_at h, hv]; rfl
  have hne : index ≠ size := by omega
  simp only [step, checkEnd, hne, if_false, isBinary_other hrest hn, and_self]

/-- **a `bin` element of an array opened as a binary scope and left wherever the caller likes** counts as exactly one
    element and is passed over as exactly one value -/
theorem array_binary_element_consumes_one (r : Rd) (pre rest : List Tok) (bs : List Nat) (h : At r pre [.bin bs] rest)
    (size index : Nat) (hlt : index < size) (k : Nat) (hk : k ≤ bs.length) (tl : List Scope) (d : Option Err) (qs : List Req) :
    run ⟨r, .arr size index :: tl, d⟩ (.openBin :: (List.replicate k .readByte ++ .close :: qs))
      = .opened bs.length :: ((bs.take k).map C03.byteAns ++ .closed ::
          run ⟨{ r with pos := (pre ++ [Tok.bin bs]).length }, .arr size (index + 1) :: tl, d⟩ qs) := by
  have hrest : r.rest = .bin bs :: rest := by rw [rest_of_at h]; rfl
  have hne : index ≠ size := by omega
  have hsess := binary_scope_session r bs rest hrest k hk (.arr size (index + 1) :: tl) d qs
  have hpos : r.pos + 1 = (pre ++ [Tok.bin bs]).length := by rw [h.pos]; simp
  simp only [run, step, checkEnd, hne, if_false, isBinary_bin hrest, readBinarySize_bin hrest, hsess, notifyParent, hpos]

/-- the same at the root -/
theorem root_binary_value_consumes_one (r : Rd) (pre rest : List Tok) (bs : List Nat) (h : At r pre [.bin bs] rest)
    (k : Nat) (hk : k ≤ bs.length) (tl : List Scope) (d : Option Err) (qs : List Req) :
    run ⟨r, .root :: tl, d⟩ (.openBin :: (List.replicate k .readByte ++ .close :: qs))
      = .opened bs.length :: ((bs.take k).map C03.byteAns ++ .closed ::
          run ⟨{ r with pos := (pre ++ [Tok.bin bs]).length }, .root :: tl, d⟩ qs) := by
  have hrest : r.rest = .bin bs :: rest := by rw [rest_of_at h]; rfl
  have hsess := binary_scope_session r bs rest hrest k hk (.root :: tl) d qs
  have hpos : r.pos + 1 = (pre ++ [Tok.bin bs]).length := by rw [h.pos]; simp
  simp only [run, step, isBinary_bin hrest, readBinarySize_bin hrest, hsess, notifyParent, hpos]

/-- one byte request past the end of the value is OutOfRange (`CheckEnd`), whatever the policy -/
theorem binary_read_past_end (r : Rd) (size : Nat) (tl : List Scope) (d : Option Err) :
    (step ⟨r, .bin size size :: tl, d⟩ .readByte).1 = .err .outOfRange := by
  simp [step, checkEnd]

/-- non-vacuity: an array of byte containers whose middle element is a string (the scenario of the property text for
    byte containers): `OpenBinaryScope` answers "no" and leaves it, `OpenArrayScope` skips it by policy and counts it,
    the third element and the value behind the array load from the right place -/
example :
    run (initSt [.arr 3, .bin [1, 2, 3], .str [111], .bin [4, 5], .int 77] .skip)
        [.openArr, .openBin, .readByte, .readByte, .readByte, .isEnd, .close, .openBin, .openArr, .openBin, .readByte, .readByte, .close,
         .isEnd, .close, .next .int]
      = [.opened 3, .opened 3, .val (.byte 1), .val (.byte 2), .val (.byte 3), .flag true, .closed, .no, .no, .opened 2,
         .val (.byte 4), .val (.byte 5), .closed, .flag true, .closed, .val (.int 77)] := by decide

/-- the skipped elements may be containers: `[1,[2,[3]],{"k":4}]` left after one element, then `7` -/
example :
    run (initSt [.arr 3, .int 1, .arr 2, .int 2, .arr 1, .int 3, .map 1, .str [107], .int 4, .int 7] .skip)
        [.openArr, .next .int, .close, .next .int]
      = [.opened 3, .val (.int 1), .closed, .val (.int 7)] := by decide

/-- non-vacuity and the concrete scenario of the property text: `[1,"x",3]` then `7`, loaded as three ints
    with the Skip policy, gives 1, not-loaded, 3 and then 7 — the skipped string disturbs nobody -/
example :
    run (initSt [.arr 3, .int 1, .str [120], .int 3, .int 7] .skip) [.openArr, .next .int, .next .int, .next .int, .close, .next .int]
      = [.opened 3, .val (.int 1), .no, .val (.int 3), .closed, .val (.int 7)] := by decide

end BSVerif.Props.C05.Scope
