/-
  C06 — MsgPack output is spec-conformant, compact, and readable by any decoder (token level).

  PROPERTY THEOREMS ONLY (helper lemmas: MsgPack/Lemmas.lean, MsgPack/WriterLemmas.lean).
  Quantifiers: ALL values of every `WriteValue` overload / `BeginArray` / `BeginMap` / `BeginBinary`
  of the writer model (= CMsgPackStringWriter; CMsgPackStreamWriter is compared byte for byte by
  the harness).

  `Conformant t bs` : an independent decoder (Spec.decodeToken, written from the specification)
     reads from `bs` — followed by anything — exactly the token `t` and consumes exactly `bs`;
     and NO format of the specification is able to hold `t` in fewer bytes (Spec.MostCompact).

  Findings:
   * signed integers in (INT_N max, UINT_N max] were written one class too large — REPAIRED
     (`fix: write signed integers …`); the theorems below are about the repaired code and would
     not hold for the old one (`write_i16_conformant` at v = 200).
   * timestamp 96 is written seconds-first: `WriteTimestampFull` is REFUTED (`write_ts_refuted`,
     witness (−1 s, 5 ns)), `write_ts_conformant_partial` holds for seconds in 0..2^34−1, and
     `write_ts96_shape` states exactly what is written otherwise.
-/
import BSVerif.MsgPack.WriterLemmas
import BSVerif.MsgPack.SpecLemmas

namespace BSVerif.Props.C06
open BSVerif BSVerif.MsgPack BSVerif.MsgPack.Spec BSVerif.MsgPack.Model

/-- `bs` is the most compact spec-conformant encoding of exactly the token `t`. -/
def Conformant (t : Token) (bs : Bytes) : Prop :=
  (∀ r, ∃ f, decodeToken (bs ++ r) = some (t, f, r)) ∧ MostCompact t bs.length

/-- **NativeToBigEndian / PushValue.** The multi-byte fields are written in network byte order. -/
theorem pushBE_is_big_endian (k v : Nat) (hk : k = 1 ∨ k = 2 ∨ k = 4 ∨ k = 8) :
    pushBE k v = beBytes k v := pushBE_eq k v hk

/-- **Spec sanity.** The reference decoder inverts the reference encoder for every format and token
    (so `Conformant` / `ableToHold` are not vacuous). -/
theorem spec_decode_encode (f : Format) (t : Token) (bs : Bytes) (h : encodeAs f t = some bs) (r : Bytes) :
    decodeToken (bs ++ r) = some (t, f, r) := decode_encode f t bs h r

/-- A conformant encoding of a token without children is exactly one well-formed object. -/
theorem conformant_one_object (t : Token) (bs : Bytes) (h : Conformant t bs) (hc : t.children = 0) : OneObject bs := by
  obtain ⟨f, hf⟩ := h.1 []
  rw [List.append_nil] at hf
  unfold OneObject objects
  cases bs with
  | nil => simp [decodeToken] at hf
  | cons b t' => simp [objectsFuel, hf, hc]

/-! ### nil, bool, floats -/

theorem write_nil_conformant : Conformant .nil writeNil := by
  refine ⟨fun r => ⟨.nil, by simp [writeNil, decodeToken, formatOf]⟩, ?_⟩
  intro f bs h
  cases f <;> simp [encodeAs] at h
  subst h; simp [writeNil]

theorem write_bool_conformant (b : Bool) : Conformant (.bool b) (writeBool b) := by
  refine ⟨fun r => ?_, ?_⟩
  · cases b
    · exact ⟨.false_, by simp [writeBool, decodeToken, formatOf]⟩
    · exact ⟨.true_, by simp [writeBool, decodeToken, formatOf]⟩
  · intro f bs h
    cases f <;> cases b <;> simp [encodeAs] at h
    all_goals subst h; simp [writeBool]

theorem write_f32_conformant (bits : Nat) (h : bits < 2 ^ 32) : Conformant (.f32 bits) (writeF32 bits) := by
  refine ⟨fun r => ⟨.float32, decode_writeF32 bits h r⟩, ?_⟩
  intro f bs hb
  cases f <;> simp [encodeAs] at hb
  obtain ⟨_, rfl⟩ := hb
  simp [writeF32, pushBE_length 4 _ (by simp [WidthOk])]

theorem write_f64_conformant (bits : Nat) (h : bits < 2 ^ 64) : Conformant (.f64 bits) (writeF64 bits) := by
  refine ⟨fun r => ⟨.float64, decode_writeF64 bits h r⟩, ?_⟩
  intro f bs hb
  cases f <;> simp [encodeAs] at hb
  obtain ⟨_, rfl⟩ := hb
  simp [writeF64, pushBE_length 8 _ (by simp [WidthOk])]

/-! ### integers: every overload, all values of its type -/

theorem write_u64_conformant (v : Nat) (h : v < 2 ^ 64) : Conformant (.int (Int.ofNat v)) (writeU64 v) :=
  ⟨fun r => decode_writeU64 v (by simpa using h) r, fun f bs hb => by rw [writeU64_len]; exact encodeAs_int_len f _ bs hb⟩

theorem write_u32_conformant (v : Nat) (h : v < 2 ^ 32) : Conformant (.int (Int.ofNat v)) (writeU32 v) := by
  rw [← writeU32_eq v (by simpa using h)]; exact write_u64_conformant v (by omega)

theorem write_u16_conformant (v : Nat) (h : v < 2 ^ 16) : Conformant (.int (Int.ofNat v)) (writeU16 v) := by
  rw [← writeU16_eq v (by simpa using h)]; exact write_u32_conformant v (by omega)

theorem write_u8_conformant (v : Nat) (h : v < 2 ^ 8) : Conformant (.int (Int.ofNat v)) (writeU8 v) := by
  rw [← writeU8_eq v (by simpa using h)]; exact write_u16_conformant v (by omega)

theorem write_i64_conformant (v : Int) (h0 : -(2 ^ 63) ≤ v) (h1 : v < 2 ^ 63) : Conformant (.int v) (writeI64 v) :=
  ⟨fun r => decode_writeI64 v (by simpa using h0) (by simpa using h1) r,
   fun f bs hb => by rw [writeI64_len]; exact encodeAs_int_len f _ bs hb⟩

theorem write_i32_conformant (v : Int) (h0 : -(2 ^ 31) ≤ v) (h1 : v < 2 ^ 31) : Conformant (.int v) (writeI32 v) := by
  rw [← writeI32_eq v (by simpa using h0) (by simpa using h1)]; exact write_i64_conformant v (by omega) (by omega)

theorem write_i16_conformant (v : Int) (h0 : -(2 ^ 15) ≤ v) (h1 : v < 2 ^ 15) : Conformant (.int v) (writeI16 v) := by
  rw [← writeI16_eq v (by simpa using h0) (by simpa using h1)]; exact write_i32_conformant v (by omega) (by omega)

theorem write_i8_conformant (v : Int) (h0 : -(2 ^ 7) ≤ v) (h1 : v < 2 ^ 7) : Conformant (.int v) (writeI8 v) := by
  rw [← writeI8_eq v (by simpa using h0) (by simpa using h1)]; exact write_i16_conformant v (by omega) (by omega)

/-! ### strings, array / map / binary headers: all lengths -/

theorem write_str_conformant (d : Bytes) (h : d.length < 2 ^ 32) :
    ∃ bs, writeStr d = .ok bs ∧ Conformant (.str d) bs := by
  obtain ⟨bs, _, hw, _, hl⟩ := decode_writeStr d h []
  refine ⟨bs, hw, fun r => ?_, fun f bs' hb => by rw [hl]; exact encodeAs_str_len f d bs' hb⟩
  obtain ⟨bs2, f2, hw2, hd2, _⟩ := decode_writeStr d h r
  rw [hw] at hw2; cases hw2
  exact ⟨f2, hd2⟩

theorem write_str_too_large (d : Bytes) (h : 2 ^ 32 ≤ d.length) : writeStr d = .error .outOfRange :=
  writeStr_tooLarge d h

theorem begin_array_conformant (n : Nat) (h : n < 2 ^ 32) :
    ∃ bs, beginArray n = .ok bs ∧ Conformant (.array n) bs := by
  obtain ⟨bs, _, hw, _, hl⟩ := decode_beginArray n h []
  refine ⟨bs, hw, fun r => ?_, fun f bs' hb => by rw [hl]; exact encodeAs_array_len f n bs' hb⟩
  obtain ⟨bs2, f2, hw2, hd2, _⟩ := decode_beginArray n h r
  rw [hw] at hw2; cases hw2
  exact ⟨f2, hd2⟩

theorem begin_map_conformant (n : Nat) (h : n < 2 ^ 32) :
    ∃ bs, beginMap n = .ok bs ∧ Conformant (.map n) bs := by
  obtain ⟨bs, _, hw, _, hl⟩ := decode_beginMap n h []
  refine ⟨bs, hw, fun r => ?_, fun f bs' hb => by rw [hl]; exact encodeAs_map_len f n bs' hb⟩
  obtain ⟨bs2, f2, hw2, hd2, _⟩ := decode_beginMap n h r
  rw [hw] at hw2; cases hw2
  exact ⟨f2, hd2⟩

/-- `BeginBinary(n)` followed by the `n` bytes written through `WriteBinary` is the most compact bin token. -/
theorem begin_binary_conformant (d : Bytes) (h : d.length < 2 ^ 32) :
    ∃ hdr, beginBinary d.length = .ok hdr ∧ Conformant (.bin d) (hdr ++ d) := by
  obtain ⟨hdr, _, hw, _, hl⟩ := decode_beginBinary d h []
  refine ⟨hdr, hw, fun r => ?_, fun f bs' hb => by rw [List.length_append, hl]; exact encodeAs_bin_len f d bs' hb⟩
  obtain ⟨bs2, f2, hw2, hd2, _⟩ := decode_beginBinary d h r
  rw [hw] at hw2; cases hw2
  exact ⟨f2, by rw [List.append_assoc]; exact hd2⟩

/-- counts that no MessagePack format can hold are refused with OutOfRange -/
theorem begin_too_large (n : Nat) (h : 2 ^ 32 ≤ n) :
    beginArray n = .error .outOfRange ∧ beginMap n = .error .outOfRange ∧ beginBinary n = .error .outOfRange :=
  begin_tooLarge n h

/-! ### Timestamp extension -/

/-- Spec sanity: the three layouts are decoded back to the instant they encode. -/
theorem timestamp_spec_roundtrip (s : Int) (ns : Nat) (hs0 : -(2 ^ 63) ≤ s) (hs1 : s < 2 ^ 63) (hn : ns ≤ nsMax) :
    decodeTimestamp (encodeTimestamp s ns) = some (s, ns) := by
  unfold encodeTimestamp
  simp only [nsMax] at hn
  split
  · rename_i h
    split
    · rename_i h2
      obtain ⟨rfl, h3⟩ := h2
      have hb : beNat (beBytes 4 s.toNat) = s.toNat := beNat_beBytes 4 _ (by simp at h3 ⊢; omega)
      simp [decodeTimestamp, timestamp32, hb, Int.toNat_of_nonneg h.1]
    · have hlt : ns * 2 ^ 34 + s.toNat < 256 ^ 8 := by have := h.2; simp at this ⊢; omega
      have hb := beNat_beBytes 8 _ hlt
      have h1 : (ns * 2 ^ 34 + s.toNat) / 2 ^ 34 = ns := by have := h.2; simp at this; omega
      have h2 : (ns * 2 ^ 34 + s.toNat) % 2 ^ 34 = s.toNat := by have := h.2; simp at this; omega
      simp only [decodeTimestamp, timestamp64, beBytes_length, hb, h1, h2]
      simp [nsMax, hn, Int.toNat_of_nonneg h.1]
  · have hb1 : beNat (beBytes 4 ns) = ns := beNat_beBytes 4 _ (by simp; omega)
    have hb2 : beNat (beBytes 8 (ofSigned 64 s)) = ofSigned 64 s := by
      rw [← uimg8_eq_ofSigned]; exact beNat_beBytes 8 _ (uimg_lt 8 s)
    have hts : toSigned 64 (ofSigned 64 s) = s := by
      rw [← uimg8_eq_ofSigned]; exact toSigned_uimg8 s (by simpa using hs0) (by simpa using hs1)
    have ht : (beBytes 4 ns ++ beBytes 8 (ofSigned 64 s)).take 4 = beBytes 4 ns := by
      rw [List.take_append_of_le_length (by simp)]; simp [List.take_of_length_le]
    have hd : (beBytes 4 ns ++ beBytes 8 (ofSigned 64 s)).drop 4 = beBytes 8 (ofSigned 64 s) := by
      rw [List.drop_append_of_le_length (by simp)]; simp [List.drop_of_length_le]
    simp [decodeTimestamp, timestamp96, ht, hd, hb1, hb2, hts, nsMax, hn]

/-- **C06 for timestamps, as the property states it.** -/
def WriteTimestampFull : Prop :=
  ∀ (s ns : Int), -(2 ^ 63) ≤ s → s < 2 ^ 63 → 0 ≤ ns → ns ≤ 999999999 →
    Conformant (.ext timestampType (encodeTimestamp s ns.toNat)) (writeTs s ns)

/-- The unchanged code violates it: −1 s + 5 ns is written seconds-first (witness replayed by corpus/C06). -/
theorem write_ts_refuted : ¬ WriteTimestampFull := by
  intro h
  obtain ⟨f, hf⟩ := (h (-1) 5 (by decide) (by decide) (by decide) (by decide)).1 []
  have hl := (writeTs_large (-1) 5 (Or.inl (by decide)) (by decide) (by decide) (by decide) (by decide) []).1
  rw [hl] at hf
  have : beBytes 8 (ofSigned 64 (-1)) ++ beBytes 4 (Int.toNat 5) = encodeTimestamp (-1) (Int.toNat 5) := by
    simp only [Option.some.injEq, Prod.mk.injEq, Token.ext.injEq] at hf; exact hf.1.2
  revert this
  decide

/-- what the excluded inputs are: seconds outside 0 .. 2^34−1 (the timestamp 96 range) -/
def IsTimestamp96 (s : Int) : Prop := s < 0 ∨ 2 ^ 34 ≤ s
instance (s : Int) : Decidable (IsTimestamp96 s) := by unfold IsTimestamp96; exact inferInstance

/-- Outside the timestamp-96 range the writer emits exactly the spec's timestamp 32 / 64 layout, the
    smallest one able to hold the value, in the most compact ext format; a reference decoder
    recovers (s, ns). -/
theorem write_ts_conformant_partial (s ns : Int) (hs : ¬ IsTimestamp96 s) (hn0 : 0 ≤ ns) (hn1 : ns ≤ 999999999) :
    Conformant (.ext timestampType (encodeTimestamp s ns.toNat)) (writeTs s ns)
    ∧ decodeTimestamp (encodeTimestamp s ns.toNat) = some (s, ns.toNat) := by
  have hs0 : 0 ≤ s := by unfold IsTimestamp96 at hs; omega
  have hs1 : s < 17179869184 := by unfold IsTimestamp96 at hs; simp at hs; omega
  refine ⟨⟨fun r => ?_, ?_⟩, timestamp_spec_roundtrip s ns.toNat (by omega) (by omega) (by simp [nsMax]; omega)⟩
  · obtain ⟨f, hf, _⟩ := writeTs_small s ns hs0 hs1 hn0 hn1 r
    exact ⟨f, hf⟩
  · obtain ⟨_, _, hl⟩ := writeTs_small s ns hs0 hs1 hn0 hn1 []
    intro f bs hb
    have := encodeAs_ext_len f _ _ bs hb
    rw [hl]
    have hlen : (encodeTimestamp s ns.toNat).length = 4 ∨ (encodeTimestamp s ns.toNat).length = 8 := by
      unfold encodeTimestamp
      rw [if_pos ⟨hs0, by simpa using hs1⟩]
      split <;> simp [timestamp32, timestamp64]
    rcases hlen with h4 | h8
    · rw [h4] at this ⊢; simp [hdrExt] at this; omega
    · rw [h8] at this ⊢; simp [hdrExt] at this; omega

/-- In the timestamp-96 range the writer emits one well-formed, most compact ext token of type −1
    with 12 payload bytes — but the payload is ⟨seconds:8⟩⟨nanoseconds:4⟩, the reverse of the
    specification's ⟨nanoseconds:4⟩⟨seconds:8⟩ (known finding `ts96-seconds-first-write`). -/
theorem write_ts96_shape (s ns : Int) (hs : IsTimestamp96 s) (hs0 : -(2 ^ 63) ≤ s) (hs1 : s < 2 ^ 63)
    (hn0 : 0 ≤ ns) (hn1 : ns ≤ 999999999) :
    Conformant (.ext timestampType (beBytes 8 (ofSigned 64 s) ++ beBytes 4 ns.toNat)) (writeTs s ns)
    ∧ encodeTimestamp s ns.toNat = beBytes 4 ns.toNat ++ beBytes 8 (ofSigned 64 s) := by
  have hs' : s < 0 ∨ 17179869184 ≤ s := by unfold IsTimestamp96 at hs; simpa using hs
  refine ⟨⟨fun r => ⟨.ext8, (writeTs_large s ns hs' (by simpa using hs0) (by simpa using hs1) hn0 hn1 r).1⟩, ?_⟩, ?_⟩
  · intro f bs hb
    have := encodeAs_ext_len f _ _ bs hb
    rw [(writeTs_large s ns hs' (by simpa using hs0) (by simpa using hs1) hn0 hn1 []).2]
    simp [hdrExt] at this; omega
  · unfold encodeTimestamp timestamp96
    rw [if_neg (by unfold IsTimestamp96 at hs; omega)]

/-! #### non-vacuity -/

example : Conformant (.int 200) (writeI16 200) := write_i16_conformant 200 (by decide) (by decide)
example : writeI16 200 = [0xCC, 0xC8] := by decide
example : writeTs 1 5 = [0xD7, 0xFF, 0, 0, 0, 0x14, 0, 0, 0, 1] := by decide
example : ¬ IsTimestamp96 1 ∧ IsTimestamp96 (-1) := by decide
example : writeStr [0x41, 0x42] = .ok [0xA2, 0x41, 0x42] := by rfl

end BSVerif.Props.C06
