/-
  C15 — ISO-8601 parsing either yields the denoted value or throws; it never wraps.

  PROPERTY THEOREMS ONLY (helper lemmas: Chrono/SafeCast.lean, Chrono/SafeAdd.lean, Chrono/ParseTp.lean,
  Chrono/Fractions.lean). Quantifiers: ALL counts / all texts; every target representation of the table
  (int64, int32, uint64, int8), every precision (ns … days), both 64-bit source representations.

    * safeDurationCast_spec      SafeDurationCast = exact value if it exists and fits the target, else out_of_range
                                 (never a wrapped/truncated value, never UB) — for all counts, all table ratios
    * safeAddTp_spec             SafeAddDuration(time_point) = exact sum or out_of_range
    * safeAddDur_spec_same/_i64  SafeAddDuration(duration)   = exact sum or out_of_range
    * parse_fractions_exact      ParseSecondFractions yields exactly digits·10^(9−n) ns, 0 ≤ ns < 10^9
    * parse_tp_fields_valid      every accepted text has a real calendar date and a 24-hour clock time
                                 (29 February only in leap years: uses the generated DaysInMonth table)
    * parse_tp_never_wraps       accepted fields without fraction ⇒ the count is in range and is EXACTLY the
                                 denoted instant (count·num = seconds·den) for every target type and precision
    * parse_dur_rejects_years_months / _unknown_designator
                                 years, months and unknown designators are invalid_argument
    * first_day_refuted          the unchanged code violates "out_of_range only when the value does not fit":
                                 literal witness (finding `chrono-first-day-of-range`)
-/
import BSVerif.Chrono.ParseTp
import BSVerif.Chrono.Fractions

namespace BSVerif.Props.C15
open BSVerif.Chrono BSVerif.Chrono.Calendar BSVerif.Generated.Chrono

/-- **SafeDurationCast contract** (all counts; every ratio between a source period s/min/h/d/week and a target
    period ns…d; targets int64/int32/uint64/int8; sources int64/uint64). -/
theorem safeDurationCast_spec {rt rs : Rep} (hrt : rt.inTable) (hrs : rs.is64) {pt ps : Period} (hpt : pt.inTable)
    (hps : ps.isSource) {c : Int} (hc : rs.fits c = true) :
    safeDurationCast rt pt rs ps c =
      if (c * (ratioDiv ps pt).1) % (ratioDiv ps pt).2 = 0 ∧ rt.fits (c * (ratioDiv ps pt).1 / (ratioDiv ps pt).2)
      then .ok (c * (ratioDiv ps pt).1 / (ratioDiv ps pt).2) else .err .outOfRange :=
  BSVerif.Chrono.safeDurationCast_spec hrt hrs hpt hps hc

example : safeDurationCast i8 pMilli i64 pSec 1 = .err .outOfRange := by decide +kernel        -- 1000 ms does not fit int8
example : safeDurationCast u64 pMin i64 pSec (-16) = .err .outOfRange := by decide +kernel     -- was 307445734561825860
example : safeDurationCast i64 pHour u64 pSec 18446744073709551615 = .err .outOfRange := by decide +kernel  -- was UB
example : safeDurationCast i32 pDay i64 pSec 172800 = .ok 2 := by decide +kernel

/-- **SafeAddDuration(time_point&, int64 duration) contract.** -/
theorem safeAddTp_spec {r : Rep} (hr : r.inTable) {p ps : Period} (hp : p.inTable) (hps : ps.isSource ∨ ps = p)
    {tp src : Int} (htp : r.fits tp = true) (hsrc : i64.fits src = true) :
    safeAddTp r p tp i64 ps src =
      if src = 0 then .ok tp else
      let nd := if ps = p then (1, 1) else ratioDiv ps p
      if (src * nd.1) % nd.2 = 0 ∧ (commonRep3 i64 r).fits (src * nd.1 / nd.2) ∧ r.fits (tp + src * nd.1 / nd.2)
      then .ok (tp + src * nd.1 / nd.2) else .err .outOfRange :=
  BSVerif.Chrono.safeAddTp_spec hr hp hps htp hsrc

/-- **SafeAddDuration(duration&, same type) contract.** -/
theorem safeAddDur_spec_same {r : Rep} (hr : r.inTable) (p : Period) {target src : Int} (ht : r.fits target = true)
    (hs : r.fits src = true) :
    safeAddDur r p target r p src =
      if src = 0 then .ok target else if r.fits (target + src) then .ok (target + src) else .err .outOfRange :=
  safeAddDur_same hr p ht hs

/-- **SafeAddDuration(duration&, int64 rounded fraction) contract** (the repaired code: the fraction is rounded in
    64 bits, so a fraction that does not fit a narrow target is out_of_range, not a wrapped value). -/
theorem safeAddDur_spec_i64 {r : Rep} (hr : r.inTable) {p : Period} (hp : p.inTable) {target src : Int}
    (ht : r.fits target = true) (hs : i64.fits src = true) :
    safeAddDur r p target i64 p src =
      if src = 0 then .ok target else if r.fits src ∧ r.fits (target + src) then .ok (target + src) else .err .outOfRange :=
  safeAddDur_i64 hr hp ht hs

example : safeAddDur i8 pMilli 0 i64 pMilli 500 = .err .outOfRange := by decide +kernel   -- PT0.5S into duration<int8, milli>

/-- **ParseSecondFractions is exact.** -/
theorem parse_fractions_exact {s : List Nat} {ns : Int} {rest : List Nat} (h : parseFractions s = some (ns, rest)) :
    ∃ v n : Nat, fromChars u32 s = .ok v n rest ∧ ((v = 0 ∧ ns = 0) ∨ (0 < v ∧ n ≤ 9 ∧ ns = ((v * 10 ^ (9 - n) : Nat) : Int))) ∧
      0 ≤ ns ∧ ns < 1000000000 :=
  parseFractions_exact h

example : parseFractions [57, 50, 53, 90] = some (925000000, [90]) := by decide +kernel     -- ".925Z"

/-- **Field ranges.** Every text that `ParseIsoUtc` accepts has month 1…12, a day that exists in that month of that
    year (proleptic Gregorian; 29 February only in leap years), hour ≤ 23, minute ≤ 59, second ≤ 59. -/
theorem parse_tp_fields_valid {s : List Nat} {u : Parts} (h : parseIsoUtc8 s = .ok u) :
    ValidDate u.year u.mon.toNat u.day.toNat ∧ 1 ≤ u.mon ∧ u.mon ≤ 12 ∧ 1 ≤ u.day ∧ u.day ≤ 31 ∧
    0 ≤ u.hour ∧ u.hour ≤ 23 ∧ 0 ≤ u.min ∧ u.min ≤ 59 ∧ 0 ≤ u.sec ∧ u.sec ≤ 59 :=
  parseIsoUtc8_valid h

-- "2023-02-29T00:00:00Z" is rejected, "2024-02-29T00:00:00Z" is accepted
example : parseIsoUtc8 [50,48,50,51,45,48,50,45,50,57,84,48,48,58,48,48,58,48,48,90] = .err .invalidArgument := by decide +kernel
example : parseIsoUtc8 [50,48,50,52,45,48,50,45,50,57,84,48,48,58,48,48,58,48,48,90] = .ok ⟨2024, 2, 29, 0, 0, 0, none⟩ := by decide +kernel

/-- **Never wraps.** If the conversion of accepted fields (no fraction) to `time_point<…, duration<r, p>>` succeeds,
    the count is inside the representation `r` and denotes EXACTLY the instant of the text:
    `count · num = (dayNumber·86400 + h·3600 + m·60 + s) · den`. Otherwise the model raised out_of_range — there is no
    third possibility (the result type `Out` has no other normal value). -/
theorem parse_tp_never_wraps {r : Rep} (hr : r.inTable) {p : Period} (hp : p.inTable) {s : List Nat} {u : Parts}
    (hparse : parseIsoUtc8 s = .ok u) (hfrac : u.frac = none)
    (hy1 : -25252000000000000 ≤ u.year) (hy2 : u.year ≤ 25252000000000000)
    {v : Int} (h : tpFromParts r p u = .ok v) :
    r.fits v = true ∧
    v * p.num = (dayNumber u.year u.mon.toNat u.day.toNat * 86400 + (u.hour * 3600 + u.min * 60 + u.sec)) * p.den := by
  obtain ⟨-, m1, m2, d1, d2, h1, h2, mi1, mi2, s1, s2⟩ := parseIsoUtc8_valid hparse
  exact tpFromParts_exact hr hp hfrac hy1 hy2 m1 m2 d1 d2 ⟨h1, h2⟩ ⟨mi1, mi2⟩ ⟨s1, s2⟩ h

/-- durations with years or months are outside the grammar: invalid_argument (date section: 'Y', 'M'; and any other
    designator that is not W/D resp. H/M/S) -/
theorem parse_dur_rejects_years_months (r : Rep) (p : Period) (rs : Rep) (value : Int) (sym : Nat)
    (h : sym = 89 ∨ sym = 77) : transformToDuration r p rs value sym true = .err .invalidArgument := by
  rcases h with rfl | rfl <;> simp [transformToDuration]

theorem parse_dur_rejects_unknown_designator (r : Rep) (p : Period) (rs : Rep) (value : Int) (sym : Nat) (isDate : Bool)
    (h : sym ≠ 87 ∧ sym ≠ 68 ∧ sym ≠ 72 ∧ sym ≠ 77 ∧ sym ≠ 83) :
    transformToDuration r p rs value sym isDate = .err .invalidArgument := by
  obtain ⟨a, b, c, d, e⟩ := h
  cases isDate <;> simp [transformToDuration, a, b, c, d, e]

/-! #### the full statement about out_of_range, and what the unchanged code does -/

/-- the FULL C15 claim for whole-second texts: out_of_range is raised ONLY when the denoted count does not fit -/
def OutOfRangeOnlyWhenUnfit : Prop :=
  ∀ (r : Rep) (p : Period) (u : Parts) (c : Int), r.inTable → p.inTable → u.frac = none →
    ValidDate u.year u.mon.toNat u.day.toNat → 0 ≤ u.hour ∧ u.hour ≤ 23 ∧ 0 ≤ u.min ∧ u.min ≤ 59 ∧ 0 ≤ u.sec ∧ u.sec ≤ 59 →
    c * p.num = (dayNumber u.year u.mon.toNat u.day.toNat * 86400 + (u.hour * 3600 + u.min * 60 + u.sec)) * p.den →
    r.fits c = true → tpFromParts r p u = .ok c

/-- **refuted by the unchanged code** (finding `chrono-first-day-of-range`): 1677-09-21T00:12:44Z is
    −9223372036 s = −9223372036000000000 ns, inside int64 nanoseconds, yet the conversion raises out_of_range -/
theorem first_day_refuted : ¬ OutOfRangeOnlyWhenUnfit := by
  intro h
  have := h i64 pNano ⟨1677, 9, 21, 0, 12, 44, none⟩ (-9223372036000000000) (Or.inl rfl) (Or.inl rfl) rfl
    (validDate_iff.mp (by decide +kernel)) (by decide) (by decide +kernel) (by decide +kernel)
  have e : tpFromParts i64 pNano ⟨1677, 9, 21, 0, 12, 44, none⟩ = .err .outOfRange := by decide +kernel
  rw [e] at this
  exact absurd this (by simp)

end BSVerif.Props.C15
