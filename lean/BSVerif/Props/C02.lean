/-
  C02 — No input can crash, hang, or exhaust the loader or the string converters.

  In this technique the property decomposes into
    (1) TOTALITY: every loader/converter of the model is a total Lean function (Lean's termination checker is the
        no-hang proof); where the real loop has no syntactically decreasing quantity the progress lemma is stated
        and proved separately (`C13.readChunk_progress`, `C13.readAll_terminates`);
    (2) IN-BOUNDS: positions/iterators never leave the input (`C12.transcode_in_bounds`, the `*_bounds` lemmas,
        `C10.*_refines`: the sliding cache never serves a byte outside the byte string, `C05.reader_skip_total`);
    (3) every failure is a value of the error type (an std::exception in the code): `C16.parse_total`,
        `C16.bool_parse_total`, `C05.reader_skip_rejects`, `C07.truncation_rejected`, `C09.reader_conforms`;
    (4) the destructor obligation of C20.
  This module re-exports nothing: the theorems are listed by their own names in tools/props/C02.py and audited
  through this module's import closure. What is specific to C02 — the two recorded resource findings — is
  stated here on the token-level model.
-/
import BSVerif.Props.C05
import BSVerif.Props.C07
import BSVerif.Props.C09
import BSVerif.Props.C10
import BSVerif.Props.C12
import BSVerif.Props.C13
import BSVerif.Props.C16
import BSVerif.Props.C20

namespace BSVerif.Props.C02
open BSVerif.Scope

/-- nesting depth reached by `SkipValue` on a token stream (the real `SkipValueImpl` recurses once per level) -/
def nestDepth : List Tok → Nat → Nat → Nat
  | [], _, best => best
  | t :: ts, cur, best =>
    match t with
    | .arr (_ + 1) => nestDepth ts (cur + 1) (max best (cur + 1))
    | .map (_ + 1) => nestDepth ts (cur + 1) (max best (cur + 1))
    | _ => nestDepth ts cur best

/-- **Recorded finding (recursion).** The statement "recursion depth is bounded independently of the input"
    is false: `n` nested one-element arrays (n+1 tokens, n+1 bytes) need depth `n`. -/
theorem depth_unbounded_refuted : ∀ D : Nat, ∃ doc : List Tok, doc.length = D + 2 ∧ nestDepth doc 0 0 > D := by
  intro D
  refine ⟨List.replicate (D + 1) (.arr 1) ++ [.int 0], by simp, ?_⟩
  have key : ∀ n cur best, nestDepth (List.replicate n (.arr 1) ++ [.int 0]) cur best = max best (if n = 0 then best else cur + n) := by
    intro n
    induction n with
    | zero => intro cur best; simp [nestDepth]
    | succ n ih =>
      intro cur best
      simp only [List.replicate_succ, List.cons_append, nestDepth]
      rw [ih]
      by_cases hn : n = 0
      · subst hn; simp
      · simp [hn]; omega
  rw [key]; simp

/-- **Recorded finding (pre-allocation).** The element count a container pre-sizes to is the header's declared
    count, whatever the length of the input: a 1-token document can declare any count. -/
theorem prealloc_unbounded_refuted : ∀ n : Nat, ∃ doc : List Tok, doc.length = 1 ∧
    (match (Rd.readArraySize ⟨doc, 0, .skip⟩) with | .ok (some k, _) => k = n | _ => False) := by
  intro n
  exact ⟨[.arr n], rfl, by simp [Rd.readArraySize, Rd.rest]⟩

end BSVerif.Props.C02
