/-
  Helper lemmas for the number ↔ text model (C16 part): decimal digit strings, the `from_chars`
  digit loop against the declarative literal of the Spec, blank skipping.
-/
import BSVerif.Num.Model
import BSVerif.Num.Spec

namespace BSVerif.Num

theorem isdigitC_eq : isdigitC = isDigit := rfl

/-! ### digit strings -/

def dstep (a d : Nat) : Nat := a * 10 + (d - 0x30)

theorem digitsVal_eq (ds : List Nat) : digitsVal ds = ds.foldl dstep 0 := rfl

theorem foldl_dstep_shift (ds : List Nat) (a : Nat) :
    ds.foldl dstep a = a * 10 ^ ds.length + ds.foldl dstep 0 := by
  induction ds generalizing a with
  | nil => simp
  | cons d ds ih =>
    simp only [List.foldl_cons, List.length_cons]
    rw [ih (dstep a d), ih (dstep 0 d)]
    simp only [dstep, Nat.pow_succ, Nat.zero_mul, Nat.zero_add, Nat.add_mul, Nat.mul_assoc, Nat.add_assoc,
      Nat.mul_comm 10 (10 ^ ds.length)]

theorem digitsVal_cons (d : Nat) (ds : List Nat) :
    digitsVal (d :: ds) = (d - 0x30) * 10 ^ ds.length + digitsVal ds := by
  simp only [digitsVal_eq, List.foldl_cons]
  rw [foldl_dstep_shift]; simp [dstep]

theorem digitsVal_append_single (ds : List Nat) (d : Nat) :
    digitsVal (ds ++ [d]) = digitsVal ds * 10 + (d - 0x30) := by
  simp [digitsVal_eq, List.foldl_append, dstep]

theorem natDigits_lt (n : Nat) (h : n < 10) : natDigits n = [0x30 + n] := by
  rw [natDigits]; simp [h]

theorem natDigits_ge (n : Nat) (h : ¬ n < 10) : natDigits n = natDigits (n / 10) ++ [0x30 + n % 10] := by
  rw [natDigits]; simp [h]

theorem natDigits_all_digits (n : Nat) : ∀ c ∈ natDigits n, isDigit c = true := by
  induction n using Nat.strongRecOn with
  | _ n ih =>
    by_cases h : n < 10
    · rw [natDigits_lt n h]; intro c hc; simp at hc; subst hc; simp [isDigit]; omega
    · rw [natDigits_ge n h]; intro c hc
      simp only [List.mem_append, List.mem_singleton] at hc
      rcases hc with hc | hc
      · exact ih (n / 10) (by omega) c hc
      · subst hc; simp [isDigit]; omega

theorem natDigits_ne_nil (n : Nat) : natDigits n ≠ [] := by
  by_cases h : n < 10
  · rw [natDigits_lt n h]; simp
  · rw [natDigits_ge n h]; simp

theorem digitsVal_natDigits (n : Nat) : digitsVal (natDigits n) = n := by
  induction n using Nat.strongRecOn with
  | _ n ih =>
    by_cases h : n < 10
    · rw [natDigits_lt n h]; simp [digitsVal]
    · rw [natDigits_ge n h, digitsVal_append_single, ih (n / 10) (by omega)]; omega

theorem natDigits_length_le (n k : Nat) (h : n < 10 ^ k) (hk : 0 < k) : (natDigits n).length ≤ k := by
  induction k generalizing n with
  | zero => omega
  | succ k ih =>
    by_cases h10 : n < 10
    · rw [natDigits_lt n h10]; simp
    · rw [natDigits_ge n h10]
      simp only [List.length_append, List.length_cons, List.length_nil]
      have hk0 : 0 < k := by
        rcases k with _ | k
        · simp at h; omega
        · omega
      have : n / 10 < 10 ^ k := by
        rw [Nat.pow_succ] at h
        exact Nat.div_lt_of_lt_mul (by rw [Nat.mul_comm]; exact h)
      have := ih (n / 10) this hk0
      omega

/-- `to_chars` digit generation = canonical digits -/
theorem toDigitsAcc_eq (n : Nat) (acc : List Nat) : toDigitsAcc n acc = natDigits n ++ acc := by
  induction n using Nat.strongRecOn generalizing acc with
  | _ n ih =>
    rw [toDigitsAcc]
    by_cases h : n < 10
    · simp [h, natDigits_lt n h]
    · simp only [h, ↓reduceIte]
      rw [ih (n / 10) (by omega), natDigits_ge n h]; simp

theorem toCharsInt_eq (v : Int) : toCharsInt v = intText v := by
  unfold toCharsInt intText
  split <;> simp [toDigitsAcc_eq, minusSign]

/-! ### lists -/

theorem drop_takeWhile_length {α : Type} (p : α → Bool) (l : List α) :
    l.drop (l.takeWhile p).length = l.dropWhile p := by
  induction l with
  | nil => simp
  | cons a l ih =>
    by_cases h : p a = true
    · simp [h, ih]
    · simp [h]

theorem takeWhile_append_of_all {α : Type} (p : α → Bool) (ds rest : List α) (h : ∀ c ∈ ds, p c = true) :
    (ds ++ rest).takeWhile p = ds ++ rest.takeWhile p := by
  induction ds with
  | nil => simp
  | cons a ds ih =>
    have ha : p a = true := h a (by simp)
    simp [ha, ih (fun c hc => h c (by simp [hc]))]

/-! ### the `from_chars` digit loop -/

/-- The loop consumes exactly the maximal digit run; it reports "no overflow" iff the run's value is
    below 2^bits, and then returns that value. -/
theorem accDigits_spec (bits : Nat) (l : List Nat) (val : Nat) (ok : Bool) (k : Nat) (hval : val < 2 ^ bits) :
    let ds := l.takeWhile isDigit
    let total := val * 10 ^ ds.length + digitsVal ds
    (accDigits bits l val ok k).2.2 = k + ds.length ∧
    (accDigits bits l val ok k).2.1 = (ok && decide (total < 2 ^ bits)) ∧
    ((accDigits bits l val ok k).2.1 = true → (accDigits bits l val ok k).1 = total) := by
  induction l generalizing val ok k with
  | nil => simp [accDigits, digitsVal, hval]
  | cons c cs ih =>
    by_cases hc : isDigit c = true
    · have hc' : isdigitC c = true := hc
      simp only [List.takeWhile_cons, hc, ↓reduceIte, List.length_cons]
      rw [digitsVal_cons]
      by_cases hstep : ok = true ∧ val * 10 + (c - 0x30) < 2 ^ bits
      · have := ih (val * 10 + (c - 0x30)) true (k + 1) hstep.2
        simp only [accDigits, hc', ↓reduceIte, hstep, and_self]
        obtain ⟨h1, h2, h3⟩ := this
        have e : (val * 10 + (c - 48)) * 10 ^ (List.takeWhile isDigit cs).length + digitsVal (List.takeWhile isDigit cs)
               = val * 10 ^ ((List.takeWhile isDigit cs).length + 1) + ((c - 48) * 10 ^ (List.takeWhile isDigit cs).length + digitsVal (List.takeWhile isDigit cs)) := by
          simp only [Nat.pow_succ, Nat.add_mul, Nat.mul_assoc, Nat.add_assoc, Nat.mul_comm 10 (10 ^ _)]
        refine ⟨by rw [h1]; omega, ?_, ?_⟩
        · rw [h2, e]
        · intro hh; rw [h3 hh, e]
      · have := ih val false (k + 1) hval
        obtain ⟨h1, h2, h3⟩ := this
        have hres : accDigits bits (c :: cs) val ok k = accDigits bits cs val false (k + 1) := by
          simp only [accDigits, hc', ↓reduceIte]
          simp only [hstep, ↓reduceIte]
        rw [hres]
        refine ⟨by rw [h1]; omega, ?_, ?_⟩
        · rw [h2]
          simp only [Bool.false_and]
          by_cases hok : ok = true
          · have hov : ¬ (val * 10 + (c - 0x30) < 2 ^ bits) := fun h => hstep ⟨hok, h⟩
            have hp : 0 < 10 ^ (List.takeWhile isDigit cs).length := Nat.pow_pos (by omega)
            have hge : val * 10 + (c - 0x30) ≤ (val * 10 + (c - 0x30)) * 10 ^ (List.takeWhile isDigit cs).length :=
              Nat.le_mul_of_pos_right _ hp
            have e : (val * 10 + (c - 48)) * 10 ^ (List.takeWhile isDigit cs).length
                   = val * 10 ^ ((List.takeWhile isDigit cs).length + 1) + (c - 48) * 10 ^ (List.takeWhile isDigit cs).length := by
              simp only [Nat.pow_succ, Nat.add_mul, Nat.mul_assoc, Nat.mul_comm 10 (10 ^ _)]
            simp only [hok, Bool.true_and]
            symm; rw [decide_eq_false_iff_not]
            omega
          · simp [hok]
        · intro hh; rw [h2] at hh; simp at hh
    · have hc2 : isDigit c = false := by simpa using hc
      have hc' : isdigitC c = false := hc2
      simp [accDigits, hc', hc2, digitsVal, hval]

/-! ### `from_chars` against the declarative leading literal of the Spec -/

theorem leadingLiteral_none {signed : Bool} {s : List Nat} (h : leadingLiteral signed s = none) :
    ((if (signed && s.head? == some minusSign) = true then s.drop 1 else s).takeWhile isDigit) = [] := by
  unfold leadingLiteral at h
  dsimp only at h
  generalize (if (signed && s.head? == some minusSign) = true then List.drop 1 s else s) = body at h ⊢
  by_cases he : (body.takeWhile isDigit).isEmpty = true
  · exact List.isEmpty_iff.mp he
  · rw [if_neg he] at h; cases h

theorem leadingLiteral_some {signed : Bool} {s : List Nat} {neg : Bool} {ds rest : List Nat}
    (h : leadingLiteral signed s = some (neg, ds, rest)) :
    neg = (signed && s.head? == some minusSign) ∧
    ds = (if neg = true then s.drop 1 else s).takeWhile isDigit ∧
    rest = (if neg = true then s.drop 1 else s).dropWhile isDigit ∧ ds ≠ [] := by
  unfold leadingLiteral at h
  dsimp only at h
  by_cases he : ((if (signed && s.head? == some minusSign) = true then List.drop 1 s else s).takeWhile isDigit).isEmpty = true
  · rw [if_pos he] at h; cases h
  · rw [if_neg he] at h
    simp only [Option.some.injEq, Prod.mk.injEq] at h
    obtain ⟨h1, h2, h3⟩ := h
    subst h1
    refine ⟨rfl, h2.symm, h3.symm, ?_⟩
    rw [← h2]; intro hn; exact he (List.isEmpty_iff.mpr hn)

theorem fromCharsInt_none (t : IntTy) (s : List Nat) (h : leadingLiteral t.signed s = none) :
    fromCharsInt t s = ⟨.invalidArgument, 0, 0⟩ := by
  have hd := leadingLiteral_none h
  have hpow : 0 < 2 ^ t.bits := Nat.pow_pos (by omega)
  obtain ⟨h1, -, -⟩ := accDigits_spec t.bits (if (t.signed && s.head? == some minusSign) = true then s.drop 1 else s) 0 true 0 hpow
  simp only [hd, List.length_nil, Nat.add_zero] at h1
  unfold fromCharsInt
  simp only [h1, ↓reduceIte]

theorem fromCharsInt_some (t : IntTy) (ht : t.Valid) (s : List Nat) (neg : Bool) (ds rest : List Nat)
    (h : leadingLiteral t.signed s = some (neg, ds, rest)) :
    s.drop (ds.length + (if neg then 1 else 0)) = rest ∧
    fromCharsInt t s =
      if t.Fits (if neg then -(digitsVal ds : Int) else (digitsVal ds : Int))
      then ⟨.ok, ds.length + (if neg then 1 else 0), if neg then -(digitsVal ds : Int) else (digitsVal ds : Int)⟩
      else ⟨.resultOutOfRange, ds.length + (if neg then 1 else 0), 0⟩ := by
  obtain ⟨hneg, hds, hrest, hne⟩ := leadingLiteral_some h
  have hpow : 0 < 2 ^ t.bits := Nat.pow_pos (by omega)
  obtain ⟨h1, h2, h3⟩ := accDigits_spec t.bits (if neg = true then s.drop 1 else s) 0 true 0 hpow
  simp only [Nat.zero_mul, Nat.zero_add, Bool.true_and, ← hds] at h1 h2 h3
  have hlen : ds.length ≠ 0 := fun hh => hne (List.length_eq_zero_iff.mp hh)
  constructor
  · rw [hrest, hds]
    cases neg with
    | false => simp [drop_takeWhile_length]
    | true =>
      simp only [↓reduceIte]
      rw [Nat.add_comm, ← List.drop_drop]
      exact drop_takeWhile_length isDigit (s.drop 1)
  · unfold fromCharsInt
    simp only [← hneg, h1, hlen, ↓reduceIte]
    by_cases hov : digitsVal ds < 2 ^ t.bits
    · simp only [hov, decide_true] at h2
      have h4 := h3 h2
      simp only [h2, h4, Bool.not_true, Bool.false_eq_true, ↓reduceIte]
      obtain ⟨tb, ts⟩ := t
      simp only [IntTy.Valid] at ht
      simp only at hov hneg ⊢
      rcases ht with rfl | rfl | rfl | rfl <;> cases ts <;>
        simp only [IntTy.Fits, IntTy.lo, IntTy.hi, ↓reduceIte, Bool.false_eq_true, Bool.false_and] at hneg ⊢ <;>
        (try subst hneg) <;> (try cases neg) <;>
        (try simp only [↓reduceIte, Bool.false_eq_true, Nat.add_zero]) <;>
        (repeat' split) <;> first | rfl | omega | (exfalso; omega)
    · simp only [hov, decide_false] at h2
      simp only [h2, Bool.not_false, ↓reduceIte]
      obtain ⟨tb, ts⟩ := t
      simp only [IntTy.Valid] at ht
      simp only at hov hneg ⊢
      rcases ht with rfl | rfl | rfl | rfl <;> cases ts <;>
        simp only [IntTy.Fits, IntTy.lo, IntTy.hi, ↓reduceIte, Bool.false_eq_true, Bool.false_and] at hneg ⊢ <;>
        (try subst hneg) <;> (try cases neg) <;>
        (try simp only [↓reduceIte, Bool.false_eq_true, Nat.add_zero]) <;>
        (repeat' split) <;> first | rfl | omega | (exfalso; omega)


/-! ### conformance of an answer to the Spec's class of the input -/

/-- the answer `r` is what the class `c` of the Spec demands -/
def Conforms : ParseClass → Outcome Int → Prop
  | .value v, r => r = .ok v
  | .outOfRange, r => r = .err .outOfRange
  | .invalid, r => r = .err .invalidArgument
  | .outOfRangeOrInvalid, r => r = .err .outOfRange ∨ r = .err .invalidArgument

def BoolConforms : BoolClass → Outcome Bool → Prop
  | .value b, r => r = .ok b
  | .outOfRange, r => r = .err .outOfRange
  | .invalid, r => r = .err .invalidArgument
  | .valueOrOutOfRange b, r => r = .ok b ∨ r = .err .outOfRange


theorem parseCore_conforms (t : IntTy) (ht : t.Valid) (body : List Nat) :
    Conforms
      (match leadingLiteral t.signed body with
        | none => .invalid
        | some (neg, ds, rest) =>
          let v : Int := if neg then -(digitsVal ds : Int) else (digitsVal ds : Int)
          if fractionalTail rest then (if decide (t.Fits v) then .invalid else .outOfRangeOrInvalid)
          else if decide (t.Fits v) then .value v else .outOfRange)
      (parseCore t body) := by
  unfold parseCore
  cases hl : leadingLiteral t.signed body with
  | none => rw [fromCharsInt_none t body hl]; simp [Conforms]
  | some p =>
    obtain ⟨neg, ds, rest⟩ := p
    obtain ⟨hdrop, hfc⟩ := fromCharsInt_some t ht body neg ds rest hl
    rw [hfc]
    dsimp only
    by_cases hfit : t.Fits (if neg = true then -(digitsVal ds : Int) else (digitsVal ds : Int))
    · simp only [hfit, ↓reduceIte, decide_true, hdrop]
      unfold fractionalTail
      rcases rest with _ | ⟨c, _ | ⟨d, r⟩⟩
      · simp [Conforms]
      · simp [Conforms]
      · by_cases hcd : c = dot ∧ isDigit d = true
        · simp [Conforms, hcd.1, hcd.2, isdigitC_eq]
        · have h2 : ¬ (c = 0x2E ∧ isdigitC d = true) := hcd
          have h3 : (decide (c = dot) && isDigit d) = false := by
            by_cases hc : c = dot
            · have : isDigit d = false := by simpa [hc] using hcd
              simp [hc, this]
            · simp [hc]
          simp only [h2, ↓reduceIte, h3, Bool.false_eq_true, Conforms]
    · simp only [hfit, ↓reduceIte, decide_false, Bool.false_eq_true]
      split <;> simp [Conforms]

/-! ### the bool parser -/

theorem isCh_lower (a l u : Nat) (hlu : l = u + 0x20) (hu : 0x41 ≤ u ∧ u ≤ 0x5A) : isCh a l u = (lower a == l) := by
  unfold isCh lower
  rw [Bool.eq_iff_iff]
  simp only [Bool.or_eq_true, decide_eq_true_eq, beq_iff_eq]
  split <;> omega

theorem startsWithCI_true4 (a b c d : Nat) (r : List Nat) :
    startsWithCI wTrue (a :: b :: c :: d :: r) = (isCh a 0x74 0x54 && isCh b 0x72 0x52 && isCh c 0x75 0x55 && isCh d 0x65 0x45) := by
  rw [isCh_lower a _ _ rfl (by omega), isCh_lower b _ _ rfl (by omega), isCh_lower c _ _ rfl (by omega), isCh_lower d _ _ rfl (by omega)]
  simp [startsWithCI, wTrue, Bool.and_assoc]

theorem startsWithCI_false5 (a b c d e : Nat) (r : List Nat) :
    startsWithCI wFalse (a :: b :: c :: d :: e :: r) =
      (isCh a 0x66 0x46 && isCh b 0x61 0x41 && isCh c 0x6C 0x4C && isCh d 0x73 0x53 && isCh e 0x65 0x45) := by
  rw [isCh_lower a _ _ rfl (by omega), isCh_lower b _ _ rfl (by omega), isCh_lower c _ _ rfl (by omega), isCh_lower d _ _ rfl (by omega),
    isCh_lower e _ _ rfl (by omega)]
  simp [startsWithCI, wFalse, Bool.and_assoc]

theorem startsWithCI_short (word s : List Nat) (h : s.length < word.length) : startsWithCI word s = false := by
  unfold startsWithCI
  have : decide (word.length ≤ s.length) = false := by simp; omega
  simp [this]

theorem parseBool_conforms (s : List Nat) : BoolConforms (classifyBool s) (parseBool s) := by
  unfold classifyBool parseBool
  have hb : skipBlanks s = s.dropWhile isBlank := rfl
  rw [hb]
  generalize s.dropWhile isBlank = t
  dsimp only
  cases t with
  | nil => simp [startsWithCI_short, wTrue, wFalse, BoolConforms]
  | cons c rest =>
    by_cases hd : isDigit c = true
    · have hd' : isdigitC c = true := hd
      simp only [List.takeWhile_cons, hd, ↓reduceIte, hd']
      have hc : 0x30 ≤ c ∧ c ≤ 0x39 := by simp [isDigit] at hd; omega
      cases rest with
      | nil =>
        by_cases h1 : c = 0x31
        · subst h1; simp [BoolConforms]
        · by_cases h0 : c = 0x30
          · subst h0; simp [BoolConforms]
          · have hv : ¬ digitsVal [c] ≤ 1 := by simp [digitsVal]; omega
            simp [h1, h0, hv, BoolConforms]
      | cons d r2 =>
        by_cases hdd : isDigit d = true
        · have hdd' : isdigitC d = true := hdd
          simp only [List.takeWhile_cons, hdd, ↓reduceIte, hdd', Bool.not_true, Bool.false_eq_true, and_false]
          have e0 : (c :: d :: List.takeWhile isDigit r2 = [0x30]) = False := by simp
          have e1 : (c :: d :: List.takeWhile isDigit r2 = [0x31]) = False := by simp
          simp only [List.isEmpty_cons, Bool.not_false, ↓reduceIte, e0, e1]
          split <;> simp [BoolConforms]
        · have hdd2 : isDigit d = false := by simpa using hdd
          have hdd' : isdigitC d = false := hdd2
          simp only [List.takeWhile_cons, hdd2, Bool.false_eq_true, ↓reduceIte, hdd', Bool.not_false]
          by_cases h1 : c = 0x31
          · subst h1; simp [BoolConforms]
          · by_cases h0 : c = 0x30
            · subst h0; simp [BoolConforms]
            · have hv : ¬ digitsVal [c] ≤ 1 := by simp [digitsVal]; omega
              simp [h1, h0, hv, BoolConforms]
    · have hd2 : isDigit c = false := by simpa using hd
      have hd' : isdigitC c = false := hd2
      simp only [List.takeWhile_cons, hd2, Bool.false_eq_true, ↓reduceIte, List.isEmpty_nil, Bool.not_true, hd']
      rcases rest with _ | ⟨b, _ | ⟨c2, _ | ⟨d, _ | ⟨e, r⟩⟩⟩⟩
      · simp [startsWithCI_short, wTrue, wFalse, BoolConforms]
      · simp [startsWithCI_short, wTrue, wFalse, BoolConforms]
      · simp [startsWithCI_short, wTrue, wFalse, BoolConforms]
      · rw [startsWithCI_true4, startsWithCI_short wFalse _ (by simp [wFalse])]
        by_cases ht : (isCh c 0x74 0x54 && isCh b 0x72 0x52 && isCh c2 0x75 0x55 && isCh d 0x65 0x45) = true
        · simp [ht, BoolConforms]
        · simp [ht, BoolConforms]
      · rw [startsWithCI_true4, startsWithCI_false5]
        by_cases ht : (isCh c 0x74 0x54 && isCh b 0x72 0x52 && isCh c2 0x75 0x55 && isCh d 0x65 0x45) = true
        · simp [ht, BoolConforms]
        · by_cases hf : (isCh c 0x66 0x46 && isCh b 0x61 0x41 && isCh c2 0x6C 0x4C && isCh d 0x73 0x53 && isCh e 0x65 0x45) = true
          · simp [ht, hf, BoolConforms]
          · simp [ht, hf, BoolConforms]


end BSVerif.Num
