/-
  SPEC for numeric conversion (C04) and number/text conversion (C16).

  Written from the property statements and the C++ standard, not from the library code:
  * integer types: [basic.fundamental] — two's complement, range `[-2^(N-1), 2^(N-1)-1]` (signed),
    `[0, 2^N-1]` (unsigned); `bool` holds 0 or 1;
  * a conversion either yields *exactly the same mathematical value* or is reported
    (out_of_range → overflow policy); a value of another kind → invalid_argument → mismatched policy;
  * integer text: [charconv.from.chars] — the pattern is the `strtol` subject sequence in base 10
    without `+`, and with `-` only for signed types: `-? digit+` / `digit+`; [charconv.to.chars] —
    canonical decimal, no leading zeros, `-` for negatives;
  * blanks that may precede a literal: U+0020 and U+0009 (library documentation / pinned tests).
-/
import BSVerif.Num.Types

namespace BSVerif.Num


/-! ### C04: what a conversion of one value may answer

`Accept` lists the admissible answers; the Oracle checks membership. -/

inductive ConvAnswer where
  | ok (v : Val)
  | err (e : ConvErr)
  deriving DecidableEq, Repr

/-- nearest representable values of the integer `v` in `F` under any rounding to nearest:
    `f` is acceptable if it is finite, and no other finite value of `F` is strictly closer.
    Decided through the reference rounding: `f` must be the round-to-nearest-even result, or, on an
    exact tie, its neighbour — here simply: equal to `ofInt F v` (ties cannot be told apart from
    the answer alone, and round-to-nearest-even is the only mode C++ implementations use). -/
def nearestOfInt (F : FloatFmt) (v : Int) (f : Nat) : Bool := f = ofInt F v

/-- Admissible answers for converting integer-valued `v` (of an integer type or bool) to `T`. -/
def acceptFromInt (T : Ty) (v : Int) (a : ConvAnswer) : Bool :=
  match T with
  | .flt F =>
    if denotesInt F (ofInt F v) v then a = .ok (.flt (ofInt F v))                -- exactly representable: must be exact
    else a = .err .outOfRange ∨ a = .ok (.flt (ofInt F v))                        -- else reported, or rounded to nearest
  | _ =>
    if T.FitsInt v then a = .ok (.int v) else a = .err .outOfRange

/-- Admissible answers for converting the float `b` of format `S` to `T`. -/
def acceptFromFloat (S : FloatFmt) (T : Ty) (b : Nat) (a : ConvAnswer) : Bool :=
  match T with
  | .flt F =>
    if S = F then a = .ok (.flt b)
    else if !isFinite S b then
      -- ±∞ and NaN exist in both formats: the target can represent them, so they must be carried over
      -- (±∞ to the same ±∞, NaN to a NaN)
      (match a with
       | .ok (.flt r) => if isNaN S b then isNaN F r else r = cvt S F b
       | _ => false)
    else if fle F F.lowestBits S b ∧ fle S b F F.maxBits then a = .ok (.flt (cvt S F b))   -- in range: nearest
    else a = .err .outOfRange
  | _ => a = .err .invalidArgument        -- a floating value is "another kind" for integer/bool targets

/-- Recorded finding (known_findings.json, class `nonfinite-double-to-float-overflow`): the range test of the
    double → float branch is written with `>=`/`<=` against `lowest()`/`max()`, which ±∞ and NaN fail, so a value
    the target could hold is reported as out_of_range. Recognised exactly: source not finite, target another
    floating format, answer out_of_range. -/
def nonfiniteReported (S : FloatFmt) (T : Ty) (b : Nat) (a : ConvAnswer) : Bool :=
  match T with
  | .flt F => S ≠ F && !isFinite S b && a = .err .outOfRange
  | _ => false

/-! ### C16: integer text -/

def isDigit (c : Nat) : Bool := 0x30 ≤ c && c ≤ 0x39
def isBlank (c : Nat) : Bool := c = 0x20 || c = 0x09
abbrev minusSign : Nat := 0x2D
abbrev dot : Nat := 0x2E

/-- value of a digit string, most significant first -/
def digitsVal (ds : List Nat) : Nat := ds.foldl (fun a d => a * 10 + (d - 0x30)) 0

/-- canonical decimal digits of a natural number ([charconv.to.chars]: no leading zeros) -/
def natDigits (n : Nat) : List Nat :=
  if n < 10 then [0x30 + n] else natDigits (n / 10) ++ [0x30 + n % 10]

/-- canonical decimal text of an integer -/
def intText (v : Int) : List Nat :=
  if v < 0 then minusSign :: natDigits v.natAbs else natDigits v.natAbs

/-- The leading literal of `s` for a signed / unsigned target:
    `some (neg, digits, rest)` with `digits` the maximal non-empty digit run. -/
def leadingLiteral (signed : Bool) (s : List Nat) : Option (Bool × List Nat × List Nat) :=
  let neg := signed && s.head? == some minusSign
  let body := if neg then s.drop 1 else s
  let ds := body.takeWhile isDigit
  if ds.isEmpty then none else some (neg, ds, body.dropWhile isDigit)

/-- Does the text after the literal make it a fractional literal (`.` followed by a digit)? -/
def fractionalTail (rest : List Nat) : Bool :=
  match rest with
  | c :: d :: _ => c = dot && isDigit d
  | _ => false

inductive ParseClass where
  | value (v : Int)            -- must answer exactly `v`
  | outOfRange                 -- must answer out_of_range
  | invalid                    -- must answer invalid_argument
  | outOfRangeOrInvalid        -- fractional literal whose integer part is also out of range: either
  deriving DecidableEq, Repr

/-- The class of an input string for an integer-valued target with range predicate `fits`. -/
def classifyWith (signed : Bool) (fits : Int → Bool) (s : List Nat) : ParseClass :=
  match leadingLiteral signed (s.dropWhile isBlank) with
  | none => .invalid
  | some (neg, ds, rest) =>
    let v : Int := if neg then -(digitsVal ds : Int) else (digitsVal ds : Int)
    if fractionalTail rest then (if fits v then .invalid else .outOfRangeOrInvalid)
    else if fits v then .value v else .outOfRange

def classify (t : IntTy) (s : List Nat) : ParseClass :=
  classifyWith t.signed (fun v => decide (t.Fits v)) s

/-! ### C16: bool text — literals `0`, `1`, `true`, `false` (any letter case) after optional blanks -/

def lower (c : Nat) : Nat := if 0x41 ≤ c ∧ c ≤ 0x5A then c + 0x20 else c

def startsWithCI (word : List Nat) (s : List Nat) : Bool :=
  word.length ≤ s.length && (s.take word.length).map lower == word

def wTrue : List Nat := [0x74, 0x72, 0x75, 0x65]
def wFalse : List Nat := [0x66, 0x61, 0x6C, 0x73, 0x65]

inductive BoolClass where
  | value (b : Bool)
  | outOfRange
  | invalid
  | valueOrOutOfRange (b : Bool)     -- 0/1 written with redundant leading zeros: property silent
  deriving DecidableEq, Repr

def classifyBool (s : List Nat) : BoolClass :=
  let t := s.dropWhile isBlank
  let ds := t.takeWhile isDigit
  if !ds.isEmpty then
    if ds = [0x30] then .value false
    else if ds = [0x31] then .value true
    else if digitsVal ds ≤ 1 then .valueOrOutOfRange (digitsVal ds = 1)
    else .outOfRange
  else if startsWithCI wTrue t then .value true
  else if startsWithCI wFalse t then .value false
  else .invalid

end BSVerif.Num
