/-
  SPEC of floating-point ↔ decimal text, from the C++ standard:
  * [charconv.from.chars] / C `strtod` subject sequence in the "C" locale for `chars_format::general`:
      `-`? ( `inf` | `infinity` | `nan` | `nan(` n-char-seq `)` | decimal ) ignoring letter case, no `+`, no `0x`;
      decimal = digits [`.` digits] | `.` digits, then optionally `e|E` [`+|-`] digits;
    the value is the literal's real value rounded to nearest (ties to even); a value whose magnitude
    is beyond the finite range is `result_out_of_range`; a non-zero literal that rounds to zero is
    treated the same way by libstdc++ (the Spec admits both answers for it);
  * [charconv.to.chars] plain overload: the text with the smallest number of characters that
    `from_chars` maps back to the same value, in `%f` or `%e` style (ties: `%f`); among equally short
    texts the one closest to the value (so integers printed in `%f` style appear exactly).

  All arithmetic is exact (naturals / fractions of naturals); no floating point is executed in Lean.
  The model uses `printText` / `parseText` as its stand-in for libstdc++'s `to_chars` / `from_chars`
  on floating types (ASSUMPTION "libstdc++ conforms", tested by the correspondence run).
-/
import BSVerif.Num.Spec

namespace BSVerif.Num.FloatText
open BSVerif.Num

/-! ### exact helpers on fractions `num / den` -/

/-- `x · 10^k` for an integer `k`, on fractions -/
def mulPow10 (num den : Nat) (k : Int) : Nat × Nat :=
  if k ≥ 0 then (num * 10 ^ k.toNat, den) else (num, den * 10 ^ (-k).toNat)

/-- `num/den ≥ 10^t` -/
def gePow10 (num den : Nat) (t : Int) : Bool :=
  let s := mulPow10 num den (-t)
  decide (s.1 ≥ s.2)

/-- `⌊log10 (num/den)⌋` for `num, den > 0`: estimate from the binary logarithms, then correct. -/
def floorLog10 (num den : Nat) : Int :=
  let est : Int := (((Nat.log2 num : Int) - (Nat.log2 den : Int)) * 30103) / 100000
  -- the estimate is within ±2 of the truth; walk down from est+2
  let rec go (fuel : Nat) (t : Int) : Int :=
    match fuel with
    | 0 => t
    | f + 1 => if gePow10 num den t then t else go f (t - 1)
  go 6 (est + 2)

/-- the real value of a finite bit pattern as `(neg, num, den)` -/
def fracOf (F : FloatFmt) (b : Nat) : Option (Bool × Nat × Nat) :=
  match decode F b with
  | .fin neg m e => let s := scaled m 1 (-e); some (neg, s.1, s.2)
  | _ => none

/-- strip trailing decimal zeros: `(D, E)` with `D·10^E` unchanged -/
def stripZeros : Nat → Nat → Int → Nat × Int
  | 0, d, e => (d, e)
  | f + 1, d, e => if d ≠ 0 ∧ d % 10 = 0 then stripZeros f (d / 10) (e + 1) else (d, e)

/-- does the decimal `d · 10^s` round (to nearest even) to the bit pattern `b`? -/
def roundTrips (F : FloatFmt) (neg : Bool) (b : Nat) (d : Nat) (s : Int) : Bool :=
  let v := mulPow10 d 1 s
  roundRNE F neg v.1 v.2 = b

/-- shortest digits: the least `n` such that some `n`-digit decimal rounds to `b`, and among those
    the one closest to the value (ties: even). Returns `(D, E)` with value ≈ `D·10^E`, `D` without
    trailing zeros. `maxDigits` = 9 / 17 always suffices. -/
def shortestDigits (F : FloatFmt) (neg : Bool) (b : Nat) (num den : Nat) : Nat × Int :=
  let t := floorLog10 num den
  let rec go (fuel : Nat) (n : Nat) : Nat × Int :=
    match fuel with
    | 0 => (0, 0)
    | f + 1 =>
      let s : Int := t - ((n : Int) - 1)
      let y := mulPow10 num den (-s)
      let lo := y.1 / y.2
      let r := y.1 % y.2
      let okLo := roundTrips F neg b lo s
      let okHi := roundTrips F neg b (lo + 1) s
      let pick : Option Nat :=
        if okLo ∧ okHi then
          (if 2 * r < y.2 then some lo else if 2 * r > y.2 then some (lo + 1)
           else if lo % 2 = 0 then some lo else some (lo + 1))
        else if okLo then some lo
        else if okHi then some (lo + 1)
        else none
      match pick with
      | some d => stripZeros 40 d s
      | none => go f (n + 1)
  go 20 1

def digitCount (n : Nat) : Nat := (natDigits n).length

/-- `%e` style: `d[.ddd]e±XX` -/
def sciText (ds : List Nat) (e10 : Int) : List Nat :=
  let mant := match ds with
    | [] => []
    | [d] => [d]
    | d :: rest => d :: dot :: rest
  let ex := e10 + (ds.length : Int) - 1
  let exDigits := natDigits ex.natAbs
  let exDigits := if exDigits.length < 2 then 0x30 :: exDigits else exDigits
  mant ++ [0x65, if ex < 0 then minusSign else 0x2B] ++ exDigits

/-- `%f` style for `E ≤ 0` -/
def fixedText (ds : List Nat) (e10 : Int) : List Nat :=
  let n : Int := ds.length
  if e10 ≥ 0 then ds ++ List.replicate e10.toNat 0x30
  else if n + e10 > 0 then ds.take (n + e10).toNat ++ [dot] ++ ds.drop (n + e10).toNat
  else [0x30, dot] ++ List.replicate (-(n + e10)).toNat 0x30 ++ ds

/-- [charconv.to.chars] plain overload -/
def printText (F : FloatFmt) (b : Nat) : List Nat :=
  let sign := if fsign F b then [minusSign] else []
  match decode F b with
  | .nan => sign ++ [0x6E, 0x61, 0x6E]
  | .inf _ => sign ++ [0x69, 0x6E, 0x66]
  | .fin neg m e =>
    if m = 0 then sign ++ [0x30] else
    let s := scaled m 1 (-e)
    let de := shortestDigits F neg b s.1 s.2
    let ds := natDigits de.1
    let sci := sciText ds de.2
    if de.2 > 0 then
      -- `%f` style prints the (integer) value exactly: same length as digits+zeros, zero distance
      let exact := natDigits (s.1 / s.2)
      if sci.length < exact.length then sign ++ sci else sign ++ exact
    else
      let fixed := fixedText ds de.2
      if sci.length < fixed.length then sign ++ sci else sign ++ fixed

/-! ### parsing -/

inductive Lit where
  | nan
  | inf
  | dec (d : Nat) (e : Int)          -- d · 10^e
  deriving DecidableEq, Repr

structure Parsed where
  neg : Bool
  lit : Lit
  consumed : Nat
  deriving DecidableEq, Repr

def isAlnumUnderscore (c : Nat) : Bool :=
  isDigit c || (0x41 ≤ c && c ≤ 0x5A) || (0x61 ≤ c && c ≤ 0x7A) || c = 0x5F

/-- the leading floating literal of `s` (no blank skipping here) -/
def leadingFloat (s : List Nat) : Option Parsed :=
  let neg := s.head? == some minusSign
  let body := if neg then s.drop 1 else s
  let off := if neg then 1 else 0
  if startsWithCI [0x69, 0x6E, 0x66, 0x69, 0x6E, 0x69, 0x74, 0x79] body then some ⟨neg, .inf, off + 8⟩
  else if startsWithCI [0x69, 0x6E, 0x66] body then some ⟨neg, .inf, off + 3⟩
  else if startsWithCI [0x6E, 0x61, 0x6E] body then
    let rest := body.drop 3
    match rest with
    | 0x28 :: r =>
      let seq := r.takeWhile isAlnumUnderscore
      match r.drop seq.length with
      | 0x29 :: _ => some ⟨neg, .nan, off + 3 + 1 + seq.length + 1⟩
      | _ => some ⟨neg, .nan, off + 3⟩
    | _ => some ⟨neg, .nan, off + 3⟩
  else
    let ip := body.takeWhile isDigit
    let r1 := body.drop ip.length
    let (fp, r2, dotLen) := match r1 with
      | c :: r => if c = dot then (let f := r.takeWhile isDigit; (f, r.drop f.length, 1)) else ([], r1, 0)
      | [] => ([], r1, 0)
    if ip.isEmpty ∧ fp.isEmpty then none else
    let mantLen := ip.length + dotLen + fp.length
    let (ex, exLen) : Int × Nat := match r2 with
      | c :: r =>
        if c = 0x65 ∨ c = 0x45 then
          let (sgn, r', sl) : Bool × List Nat × Nat := match r with
            | x :: r'' => if x = minusSign then (true, r'', 1) else if x = 0x2B then (false, r'', 1) else (false, r, 0)
            | [] => (false, r, 0)
          let eds := r'.takeWhile isDigit
          if eds.isEmpty then (0, 0)
          else ((if sgn then -(digitsVal eds : Int) else (digitsVal eds : Int)), 1 + sl + eds.length)
        else (0, 0)
      | [] => (0, 0)
    some ⟨neg, .dec (digitsVal (ip ++ fp)) (ex - (fp.length : Int)), off + mantLen + exLen⟩

inductive Rounded where
  | bits (b : Nat)              -- finite non-zero result, or an exact zero literal
  | overflow                    -- magnitude beyond the finite range
  | underflow (z : Nat)         -- non-zero literal that rounds to (signed) zero
  deriving DecidableEq, Repr

/-- value of a decimal literal in format `F`; exponents far outside the format are clamped first -/
def roundDec (F : FloatFmt) (neg : Bool) (d : Nat) (e : Int) : Rounded :=
  let sign := if neg then F.signBit else 0
  if d = 0 then .bits sign
  else
    let nd : Int := digitCount d
    if e + nd > 400 then .overflow
    else if e + nd < -400 then .underflow sign
    else
      let v := mulPow10 d 1 e
      let b := roundRNE F neg v.1 v.2
      if b = sign + F.infBits then .overflow
      else if b = sign then .underflow sign
      else .bits b

def quietNaN (F : FloatFmt) (neg : Bool) : Nat :=
  (if neg then F.signBit else 0) + F.infBits + 2 ^ (F.mantBits - 1)

/-- [charconv.from.chars] on the text as given (the library has already skipped blanks), with
    libstdc++'s convention that a non-zero literal rounding to zero is `result_out_of_range`. -/
def fromCharsFloat (F : FloatFmt) (s : List Nat) : ConvAnswer :=
  match leadingFloat s with
  | none => .err .invalidArgument
  | some p =>
    match p.lit with
    | .nan => .ok (.flt (quietNaN F p.neg))
    | .inf => .ok (.flt ((if p.neg then F.signBit else 0) + F.infBits))
    | .dec d e =>
      match roundDec F p.neg d e with
      | .bits b => .ok (.flt b)
      | .overflow => .err .outOfRange
      | .underflow _ => .err .outOfRange

/-- C16 acceptance of a text → float answer (`s` is the raw text, blanks included) -/
def acceptParse (F : FloatFmt) (s : List Nat) (a : ConvAnswer) : Bool :=
  match leadingFloat (s.dropWhile isBlank) with
  | none => a = .err .invalidArgument
  | some p =>
    match p.lit with
    | .nan => (match a with | .ok (.flt b) => isNaN F b | _ => false)
    | .inf => a = .ok (.flt ((if p.neg then F.signBit else 0) + F.infBits))
    | .dec d e =>
      match roundDec F p.neg d e with
      | .bits b => a = .ok (.flt b)
      | .overflow => a = .err .outOfRange
      | .underflow z => a = .err .outOfRange ∨ a = .ok (.flt z)

/-- C16 judgement of a printed float: `none` = accepted -/
def judgePrinted (F : FloatFmt) (b : Nat) (txt : List Nat) : Option String :=
  if txt ≠ printText F b then some "not the shortest round-trip text of the value"
  else if isFinite F b then
    match leadingFloat txt with
    | some p =>
      if p.consumed = txt.length ∧ fromCharsFloat F txt = .ok (.flt b) then none
      else some "printed text does not parse back to the identical bit pattern"
    | none => some "printed text is not a numeric literal"
  else none

end BSVerif.Num.FloatText
