/-
  MODEL of
    include/bitserializer/conversion_detail/convert_fundamental.h
        Detail::To(arithmetic, arithmetic&)               -> `convTo` and its per-kind branches
        Detail::To(basic_string_view<TSym>, integer&)     -> `parseInt`
        Detail::To(basic_string_view<TSym>, bool&)        -> `parseBool`
        Detail::To(integer, basic_string<TSym>&)          -> `printInt`
        Detail::To(bool, basic_string<TSym>&)             -> `printBool`
    include/bitserializer/convert.h                       Convert::To / TryTo       -> `convertTo`, `tryTo`
    include/bitserializer/serialization_detail/archive_base.h  Detail::ConvertByPolicy -> `convertByPolicy`
  (tree with the two `fix:` commits of this area applied, see NOTES.md).

  Conventions
  * integers are `Int`; `static_cast` to an integer type is `IntTy.wrap` (value modulo 2^N,
    [conv.integral]); `static_cast<bool>(x)` is `x ≠ 0`;
  * floating values are bit patterns; the hardware operations on them are the PARAMETER `FloatOps`
    (the driver instantiates it with the IEEE reference `refOps`); `static_cast<Int>(float)` is
    undefined unless the truncated value fits ([conv.fpint]) — outcome `.ub`;
  * exceptions are `Outcome.err`; `std::from_chars` / `std::to_chars` (libstdc++) are modelled from
    [charconv] as `fromCharsInt` / `toCharsInt` — assumed conforming, exercised by the correspondence run;
  * `std::isdigit(c)` is `0x30 ≤ c ≤ 0x39` for every `int` argument (gcc folds the call to the range
    test at every optimisation level; for arguments outside `unsigned char` the C standard leaves it
    undefined — see NOTES.md, latent).
-/
import BSVerif.Num.Types
import BSVerif.Num.FloatText
import BSVerif.Utf.Model

namespace BSVerif.Num

/-! ### integer casts -/

/-- `static_cast<T>(v)` to an integer type: the unique value of `T` congruent to `v` modulo `2^N`. -/
def IntTy.wrap (t : IntTy) (v : Int) : Int :=
  if t.signed then (v + 2 ^ (t.bits - 1)) % 2 ^ t.bits - 2 ^ (t.bits - 1) else v % 2 ^ t.bits

inductive Outcome (α : Type) where
  | ok (v : α)
  | err (e : ConvErr)
  | ub (what : String)          -- undefined behaviour reached
  deriving DecidableEq, Repr

/-- The floating-point operations the conversion code uses (compiled to SSE2 instructions). -/
structure FloatOps where
  /-- `static_cast<F>(integer)` -/
  ofInt : FloatFmt → Int → Nat
  /-- truncation toward zero of a finite value; `none` for NaN / ±∞ -/
  toInt : FloatFmt → Nat → Option Int
  /-- `static_cast<T>(S value)` between floating formats -/
  cvt : FloatFmt → FloatFmt → Nat → Nat
  /-- `a <= b` (the narrower operand is promoted) -/
  le : FloatFmt → Nat → FloatFmt → Nat → Bool
  /-- `a < b` -/
  lt : FloatFmt → Nat → FloatFmt → Nat → Bool

/-- `static_cast<S>(value)` for a floating `value` and an integer type `S` ([conv.fpint]):
    defined iff the truncated value is representable in `S`. -/
def castFloatToInt (ops : FloatOps) (F : FloatFmt) (S : IntTy) (b : Nat) : Option Int :=
  match ops.toInt F b with
  | some t => if S.Fits t then some t else none
  | none => none

/-- the IEEE 754 reference instance (exact arithmetic, BSVerif/Num/Ieee.lean) used by the driver -/
def refOps : FloatOps := ⟨ofInt, toIntTrunc, cvt, fle, flt⟩

/-- +0.0 of either format -/
def fzero : Nat := 0

/-! ### `Detail::To(const TSource&, TTarget&)` — one function per `if constexpr` branch -/

/-- last `else` branch, both integer types (incl. char types):
    `value = static_cast<T>(src); result = static_cast<S>(value) == src && !(sign differs)` -/
def convIntInt (S T : IntTy) (x : Int) : Outcome Int :=
  let value := T.wrap x
  let back := S.wrap value
  if back = x ∧ ¬ ((value > 0 ∧ x < 0) ∨ (value < 0 ∧ x > 0)) then .ok value else .err .outOfRange

/-- bool branch, `TSource = bool`, integer target -/
def convBoolInt (T : IntTy) (x : Int) : Outcome Int :=
  let value := T.wrap x
  let back : Int := if value ≠ 0 then 1 else 0          -- static_cast<bool>(value)
  if back = x then .ok value else .err .outOfRange

/-- bool branch, `TTarget = bool`, integer source -/
def convIntBool (S : IntTy) (x : Int) : Outcome Int :=
  let value : Int := if x ≠ 0 then 1 else 0             -- static_cast<bool>(src)
  let back := S.wrap value
  if back = x then .ok value else .err .outOfRange

/-- bool branch, `TSource = bool`, floating target: `static_cast<bool>(value)` is `value != 0` -/
def convBoolFloat (ops : FloatOps) (F : FloatFmt) (x : Int) : Outcome Nat :=
  let value := ops.ofInt F x
  let isZero := ops.le F value F fzero && ops.le F fzero F value
  let back : Int := if isZero then 0 else 1
  if back = x then .ok value else .err .outOfRange

/-- `static_cast<T>(numeric_limits<S>::max() / 2 + 1) * 2` — 2^N, the first value above the range of `S`
    (a power of two ≤ 2^64: the cast and the doubling are exact in both formats). -/
def upperBound (ops : FloatOps) (S : IntTy) (F : FloatFmt) : Nat := ops.ofInt F ((S.hi / 2 + 1) * 2)

/-- last `else` branch, integer source and floating target (fixed tree): the cast back is evaluated only
    when `value < 2^N`; without that guard it is undefined for sources that round up to 2^N. -/
def convIntFloat (ops : FloatOps) (S : IntTy) (F : FloatFmt) (x : Int) : Outcome Nat :=
  let value := ops.ofInt F x
  if ¬ ops.lt F value F (upperBound ops S F) then .err .outOfRange          -- isCastBackDefined == false
  else
    match castFloatToInt ops F S value with
    | none => .ub "float-cast-overflow"
    | some back =>
      let pos := ops.lt F fzero F value
      let neg := ops.lt F value F fzero
      if back = x ∧ ¬ ((pos ∧ x < 0) ∨ (neg ∧ x > 0)) then .ok value else .err .outOfRange

/-- the same branch as it was before the fix (kept to state the refutation witness) -/
def convIntFloatUnguarded (ops : FloatOps) (S : IntTy) (F : FloatFmt) (x : Int) : Outcome Nat :=
  let value := ops.ofInt F x
  match castFloatToInt ops F S value with
  | none => .ub "float-cast-overflow"
  | some back =>
    let pos := ops.lt F fzero F value
    let neg := ops.lt F value F fzero
    if back = x ∧ ¬ ((pos ∧ x < 0) ∨ (neg ∧ x > 0)) then .ok value else .err .outOfRange

/-- floating source, floating target of another format:
    `sizeof(T) > sizeof(S) || !std::isfinite(src) || (src >= lowest<T> && src <= max<T>)` -/
def convFloatFloat (ops : FloatOps) (S T : FloatFmt) (b : Nat) : Outcome Nat :=
  if T.width > S.width ∨ isFinite S b = false ∨ (ops.le T T.lowestBits S b ∧ ops.le S b T T.maxBits) then .ok (ops.cvt S T b)
  else .err .outOfRange

/-- `Detail::To` for every pair of arithmetic types. `none`-like ill-typed calls cannot be written in
    C++; they are mapped to `.ub "ill-typed"` and excluded by the driver. -/
def convTo (ops : FloatOps) (S T : Ty) (v : Val) : Outcome Val :=
  if S = T then .ok v                                    -- is_same_v: plain assignment
  else
    match S, T, v with
    | .flt fs, .flt ft, .flt b => match convFloatFloat ops fs ft b with
        | .ok r => .ok (.flt r) | .err e => .err e | .ub w => .ub w
    | .flt _, _, .flt _ => .err .invalidArgument         -- "Floating point number cannot be converted to integer…"
    | .bool, .int t, .int x => match convBoolInt t x with
        | .ok r => .ok (.int r) | .err e => .err e | .ub w => .ub w
    | .bool, .flt f, .int x => match convBoolFloat ops f x with
        | .ok r => .ok (.flt r) | .err e => .err e | .ub w => .ub w
    | .int s, .bool, .int x => match convIntBool s x with
        | .ok r => .ok (.int r) | .err e => .err e | .ub w => .ub w
    | .int s, .int t, .int x => match convIntInt s t x with
        | .ok r => .ok (.int r) | .err e => .err e | .ub w => .ub w
    | .int s, .flt f, .int x => match convIntFloat ops s f x with
        | .ok r => .ok (.flt r) | .err e => .err e | .ub w => .ub w
    | _, _, _ => .ub "ill-typed"

/-- `Convert::To<TOut>(value)` for arithmetic types (same-type shortcut, else `Detail::To`). -/
def convertTo (ops : FloatOps) (S T : Ty) (v : Val) : Outcome Val := convTo ops S T v

/-- `Convert::TryTo<TOut>(value)`: any `std::exception` becomes an empty optional. -/
def tryTo (ops : FloatOps) (S T : Ty) (v : Val) : Outcome (Option Val) :=
  match convertTo ops S T v with
  | .ok r => .ok (some r)
  | .err _ => .ok none
  | .ub w => .ub w

/-! ### `Detail::ConvertByPolicy` -/

inductive Pol where
  | skip | throwError
  deriving DecidableEq, Repr

inductive SerErr where
  | overflow | mismatched | parsing
  deriving DecidableEq, Repr

inductive PolicyRes (α : Type) where
  | loaded (v : α)            -- target assigned, returns true
  | skipped                   -- target untouched, returns false
  | thrown (code : SerErr)    -- SerializationException, target untouched
  | ub (what : String)
  deriving DecidableEq, Repr

/-- `convertible` = `Convert::IsConvertible<TSource, TTarget>()`; `r` = outcome of `Convert::To`. -/
def convertByPolicy {α : Type} (convertible : Bool) (r : Outcome α) (mis ovf : Pol) : PolicyRes α :=
  if convertible then
    match r with
    | .ok v => .loaded v
    | .err .invalidArgument => if mis = .throwError then .thrown .mismatched else .skipped
    | .err .outOfRange => if ovf = .throwError then .thrown .overflow else .skipped
    | .ub w => .ub w
  else
    -- the MismatchedTypes exception thrown in the `try` block passes `catch (const SerializationException&)`
    if mis = .throwError then .thrown .mismatched else .skipped

/-! ### text → integer -/

/-- `std::isdigit` as compiled (see header) -/
def isdigitC (c : Nat) : Bool := 0x30 ≤ c && c ≤ 0x39

inductive Errc where
  | ok | invalidArgument | resultOutOfRange
  deriving DecidableEq, Repr

structure FromChars where
  ec : Errc
  ptr : Nat          -- index of `rc.ptr` relative to `first`
  value : Int        -- meaningful only when `ec = ok`
  deriving DecidableEq, Repr

/-- the digit loop of `std::from_chars` (libstdc++ `__from_chars_digit`/`__from_chars_alnum`):
    accumulate in the unsigned type of the same width with an overflow check; after an overflow the
    remaining digits are still consumed. Returns (value, no-overflow, digits consumed). -/
def accDigits (bits : Nat) : List Nat → Nat → Bool → Nat → Nat × Bool × Nat
  | [], val, ok, n => (val, ok, n)
  | c :: cs, val, ok, n =>
    if isdigitC c then
      if ok ∧ val * 10 + (c - 0x30) < 2 ^ bits then accDigits bits cs (val * 10 + (c - 0x30)) true (n + 1)
      else accDigits bits cs val false (n + 1)
    else (val, ok, n)

/-- `std::from_chars(first, last, value)` (base 10) for an integer type. -/
def fromCharsInt (t : IntTy) (s : List Nat) : FromChars :=
  let neg := t.signed && s.head? == some 0x2D
  let body := if neg then s.drop 1 else s
  let r := accDigits t.bits body 0 true 0
  if r.2.2 = 0 then ⟨.invalidArgument, 0, 0⟩
  else
    let ptr := r.2.2 + (if neg then 1 else 0)
    if !r.2.1 then ⟨.resultOutOfRange, ptr, 0⟩
    else if t.signed then
      let v : Int := if neg then -(r.1 : Int) else (r.1 : Int)
      if t.Fits v then ⟨.ok, ptr, v⟩ else ⟨.resultOutOfRange, ptr, 0⟩
    else ⟨.ok, ptr, (r.1 : Int)⟩

/-- the loop `for (; it != end && (*it == 0x20 || *it == 0x09); ++it)` -/
def skipBlanks (s : List Nat) : List Nat := s.dropWhile fun c => c = 0x20 || c = 0x09

/-- `validateResult(from_chars(first, last, out), str)` where `str` starts at `first` -/
def parseCore (t : IntTy) (str : List Nat) : Outcome Int :=
  let rc := fromCharsInt t str
  match rc.ec with
  | .resultOutOfRange => .err .outOfRange
  | .invalidArgument => .err .invalidArgument
  | .ok =>
    -- rc.ptr + 1 < end && *rc.ptr == '.' && isdigit(rc.ptr[1])
    match str.drop rc.ptr with
    | c :: d :: _ => if c = 0x2E ∧ isdigitC d then .err .invalidArgument else .ok rc.value
    | _ => .ok rc.value

/-- `GetDefaultErrorMark<char>()`: u8"☐" -/
def defaultMark8 : List Nat := [0xE2, 0x98, 0x90]

/-- `Utf::Utf8::Encode(it, end, utf8Str)` with the default policy (Skip) and mark; the result code is ignored. -/
def narrow (w : Nat) (s : List Nat) : List Nat :=
  (Utf.utf8Encode w .skip (some defaultMark8) s []).out

/-- `Detail::To(std::basic_string_view<TSym> in, T& out)` for an integer `T`; `w` = bits of `TSym`. -/
def parseInt (t : IntTy) (w : Nat) (s : List Nat) : Outcome Int :=
  let body := skipBlanks s
  if w = 8 then parseCore t body else parseCore t (narrow w body)

/-! ### text → bool (works on the code units of any width directly) -/

def isCh (u : Nat) (lo up : Nat) : Bool := u = lo || u = up

def parseBool (s : List Nat) : Outcome Bool :=
  let t := skipBlanks s
  match t with
  | [] => .err .invalidArgument
  | c :: rest =>
    if isdigitC c then
      let nextNotDigit : Bool := match rest with | [] => true | d :: _ => !isdigitC d
      if c = 0x31 ∧ nextNotDigit = true then .ok true
      else if c = 0x30 ∧ nextNotDigit = true then .ok false
      else .err .outOfRange
    else
      match t with
      | a :: b :: c2 :: d :: rest4 =>
        if isCh a 0x74 0x54 && isCh b 0x72 0x52 && isCh c2 0x75 0x55 && isCh d 0x65 0x45 then .ok true
        else match rest4 with
          | e :: _ =>
            if isCh a 0x66 0x46 && isCh b 0x61 0x41 && isCh c2 0x6C 0x4C && isCh d 0x73 0x53 && isCh e 0x65 0x45
            then .ok false else .err .invalidArgument
          | [] => .err .invalidArgument
      | _ => .err .invalidArgument

/-! ### integer / bool → text -/

/-- the digit generation of `std::to_chars`: least significant digit first, written from the back -/
def toDigitsAcc (n : Nat) (acc : List Nat) : List Nat :=
  if n < 10 then (0x30 + n) :: acc else toDigitsAcc (n / 10) ((0x30 + n % 10) :: acc)

/-- `std::to_chars(buf, buf + 42, in)` for an integer -/
def toCharsInt (v : Int) : List Nat :=
  if v < 0 then 0x2D :: toDigitsAcc v.natAbs [] else toDigitsAcc v.natAbs []

/-- size of `char buf[42]` -/
def printBufSize : Nat := 42

def defaultMark16 : List Nat := [0x2610]

/-- `Detail::To(const T& in, basic_string<TSym>& out)` for an integer `T`:
    `.err` is never produced for integers (`to_chars` fails only if the buffer is too small → runtime_error,
    which is outside the two conversion error classes: modelled as `.ub "buffer"`). -/
def printInt (w : Nat) (v : Int) : Outcome (List Nat) :=
  let buf := toCharsInt v
  if buf.length > printBufSize then .ub "to_chars-buffer"
  else if w = 8 then .ok buf
  else .ok (Utf.utf8Decode w .skip (some defaultMark16) buf []).out

/-! ### floating point ↔ text: the same two templates, with libstdc++'s `from_chars` / `to_chars` for
    floating types taken from the [charconv] reference in BSVerif/Num/FloatText.lean -/

/-- `Detail::To(std::basic_string_view<TSym> in, T& out)` for a floating `T` (no `.digit` check here) -/
def parseFloat (F : FloatFmt) (w : Nat) (s : List Nat) : Outcome Nat :=
  let body := skipBlanks s
  let str := if w = 8 then body else narrow w body
  match FloatText.fromCharsFloat F str with
  | .ok (.flt b) => .ok b
  | .ok _ => .ub "ill-typed"
  | .err e => .err e

/-- `Detail::To(const T& in, basic_string<TSym>& out)` for a floating `T` -/
def printFloat (F : FloatFmt) (w : Nat) (b : Nat) : Outcome (List Nat) :=
  let buf := FloatText.printText F b
  if buf.length > printBufSize then .ub "to_chars-buffer"
  else if w = 8 then .ok buf
  else .ok (Utf.utf8Decode w .skip (some defaultMark16) buf []).out

/-- `Detail::To(const bool& in, basic_string<TSym>& out)` -/
def printBool (b : Bool) : List Nat :=
  if b then [0x74, 0x72, 0x75, 0x65] else [0x66, 0x61, 0x6C, 0x73, 0x65]

end BSVerif.Num
