/-
  The reference conversion binary64 -> binary32 (Num/Ieee.lean `cvt`) maps a NaN to a NaN
  (helper for Props/C04 `float_narrow_full`).
-/
import BSVerif.Num.Ieee

namespace BSVerif.Num

theorem decode_nan_bits (sg q : Nat) (hs : sg = 0 ∨ sg = 2 ^ 31) (hq1 : 0 < q) (hq2 : q < 2 ^ 23) :
    decode .f32 (sg + (2 ^ 8 - 1) * 2 ^ 23 + q) = .nan := by
  have e1 : (sg + (2 ^ 8 - 1) * 2 ^ 23 + q) / 2 ^ 23 % 2 ^ 8 = 2 ^ 8 - 1 := by rcases hs with rfl | rfl <;> omega
  have e2 : (sg + (2 ^ 8 - 1) * 2 ^ 23 + q) % 2 ^ 23 = q := by rcases hs with rfl | rfl <;> omega
  have hq : ¬ q = 0 := by omega
  simp only [decode, fexp, fmant, FloatFmt.mantBits, FloatFmt.expBits, FloatFmt.expMax, e1, e2, if_true, hq, if_false]

theorem cvt_nan_is_nan (b : Nat) (h : decode .f64 b = .nan) : isNaN .f32 (cvt .f64 .f32 b) = true := by
  have hne : (FloatFmt.f64 = FloatFmt.f32) = False := by simp
  unfold cvt
  simp only [hne, if_false, h, FloatFmt.mantBits, FloatFmt.signBit, FloatFmt.infBits, FloatFmt.expMax, FloatFmt.expBits, FloatFmt.width,
    show ¬ ((52 : Nat) ≤ 23) by decide]
  have hp23 : fmant .f64 b / 2 ^ (52 - 23) < 2 ^ 23 := by
    simp only [fmant, FloatFmt.mantBits]
    have : b % 2 ^ 52 < 2 ^ 52 := Nat.mod_lt _ (by decide)
    omega
  generalize fmant .f64 b / 2 ^ (52 - 23) = p at *
  have hq1 : 2 ^ 22 ≤ p ||| 2 ^ (23 - 1) := Nat.right_le_or
  have hq2 : p ||| 2 ^ (23 - 1) < 2 ^ 23 := Nat.or_lt_two_pow hp23 (by decide)
  generalize p ||| 2 ^ (23 - 1) = q at *
  unfold isNaN
  have : decode .f32 ((if fsign .f64 b = true then 2 ^ (32 - 1) else 0) + (2 ^ 8 - 1) * 2 ^ 23 + q) = .nan := by
    apply decode_nan_bits _ q _ (by omega) hq2
    split <;> simp
  simp [this]

end BSVerif.Num
