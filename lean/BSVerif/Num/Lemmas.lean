/-
  Helper lemmas for the numeric-conversion model (C04 part): the cast-and-compare-back test over all
  64 pairs of integer types, the bool branches, and the integer → floating branch under the stated
  floating-point laws (`FloatLaws`).
-/
import BSVerif.Num.Model

namespace BSVerif.Num

/-! ### integer ↔ integer -/

theorem convIntInt_exact (S T : IntTy) (hS : S.Valid) (hT : T.Valid) (v : Int) (hv : S.Fits v) :
    convIntInt S T v = if T.Fits v then .ok v else .err .outOfRange := by
  obtain ⟨sb, ss⟩ := S
  obtain ⟨tb, ts⟩ := T
  simp only [IntTy.Valid] at hS hT
  rcases hS with rfl | rfl | rfl | rfl <;> rcases hT with rfl | rfl | rfl | rfl <;>
    cases ss <;> cases ts <;>
    simp only [convIntInt, IntTy.wrap, IntTy.Fits, IntTy.lo, IntTy.hi, ↓reduceIte, Bool.false_eq_true] at hv ⊢ <;>
    (split <;> try split) <;>
    first
      | rfl
      | (exfalso; omega)
      | (congr 1; omega)

theorem convIntBool_exact (S : IntTy) (hS : S.Valid) (v : Int) (hv : S.Fits v) :
    convIntBool S v = if 0 ≤ v ∧ v ≤ 1 then .ok v else .err .outOfRange := by
  obtain ⟨sb, ss⟩ := S
  simp only [IntTy.Valid] at hS
  rcases hS with rfl | rfl | rfl | rfl <;> cases ss <;>
    simp only [convIntBool, IntTy.wrap, IntTy.Fits, IntTy.lo, IntTy.hi, ↓reduceIte, Bool.false_eq_true] at hv ⊢ <;>
    (by_cases h0 : v = 0
     · subst h0; simp
     · by_cases h1 : v = 1
       · subst h1; simp
       · have hne : ¬ (0 ≤ v ∧ v ≤ 1) := by omega
         simp only [ne_eq, h0, not_false_eq_true, ↓reduceIte, hne]
         split
         · exfalso; omega
         · rfl)

theorem convBoolInt_exact (T : IntTy) (hT : T.Valid) (x : Int) (hx : x = 0 ∨ x = 1) :
    convBoolInt T x = .ok x := by
  obtain ⟨tb, ts⟩ := T
  simp only [IntTy.Valid] at hT
  rcases hT with rfl | rfl | rfl | rfl <;> cases ts <;> rcases hx with rfl | rfl <;>
    simp [convBoolInt, IntTy.wrap]

/-! ### floating-point laws assumed of the hardware operations (see NOTES.md)

`tr F v` is "convert the integer `v` to format `F`, then truncate back to an integer". -/

def FloatOps.tr (ops : FloatOps) (F : FloatFmt) (v : Int) : Option Int := ops.toInt F (ops.ofInt F v)

/-- bound of the integers that occur: all integer types have at most 64 bits -/
def Small (v : Int) : Prop := -(2 ^ 64 : Int) ≤ v ∧ v ≤ 2 ^ 64

structure FloatLaws (ops : FloatOps) : Prop where
  /-- an integer of at most 65 bits converts to a finite value (binary32 reaches 2^128) -/
  tr_some : ∀ F v, Small v → ∃ t, ops.tr F v = some t
  /-- conversion from integer is monotone (any rounding mode) -/
  tr_mono : ∀ F v w t u, Small v → Small w → v ≤ w → ops.tr F v = some t → ops.tr F w = some u → t ≤ u
  /-- zero and powers of two up to 2^64 are exactly representable -/
  tr_zero : ∀ F, ops.tr F 0 = some 0
  tr_pow2 : ∀ F k, k ≤ 64 → ops.tr F (2 ^ k) = some (2 ^ k) ∧ ops.tr F (-(2 ^ k)) = some (-(2 ^ k))
  /-- `<` on two converted integers agrees with `<` on their (integral) values -/
  lt_tr : ∀ F v w t u, Small v → Small w → ops.tr F v = some t → ops.tr F w = some u →
    ops.lt F (ops.ofInt F v) F (ops.ofInt F w) = decide (t < u)
  /-- converting 0 gives +0.0 -/
  ofInt_zero : ∀ F, ops.ofInt F 0 = fzero

theorem two_pow_le_64 (k : Nat) (hk : k ≤ 64) : (2 : Int) ^ k ≤ 2 ^ 64 := by
  have h := Nat.pow_le_pow_right (show 0 < 2 by omega) hk
  have : ((2 ^ k : Nat) : Int) ≤ ((2 ^ 64 : Nat) : Int) := Int.ofNat_le.mpr h
  simpa using this

theorem IntTy.fits_small (S : IntTy) (hS : S.Valid) (v : Int) (hv : S.Fits v) : Small v := by
  obtain ⟨sb, ss⟩ := S
  simp only [IntTy.Valid] at hS
  rcases hS with rfl | rfl | rfl | rfl <;> cases ss <;>
    simp only [IntTy.Fits, IntTy.lo, IntTy.hi, ↓reduceIte, Bool.false_eq_true, Small] at hv ⊢ <;> omega

/-- `(hi/2 + 1) * 2 = hi + 1 = 2^digits` and `lo` is `0` or `-2^(bits-1)` -/
theorem IntTy.bound_pow2 (S : IntTy) (hS : S.Valid) :
    ∃ k, k ≤ 64 ∧ (S.hi / 2 + 1) * 2 = 2 ^ k ∧ S.hi + 1 = 2 ^ k ∧ (S.lo = 0 ∨ ∃ j, j ≤ 64 ∧ S.lo = -(2 ^ j)) := by
  obtain ⟨sb, ss⟩ := S
  simp only [IntTy.Valid] at hS
  rcases hS with rfl | rfl | rfl | rfl <;> cases ss <;>
    simp only [IntTy.lo, IntTy.hi, ↓reduceIte, Bool.false_eq_true]
  · exact ⟨8, by omega, by omega, by omega, by simp⟩
  · exact ⟨7, by omega, by omega, by omega, Or.inr ⟨7, by omega, by omega⟩⟩
  · exact ⟨16, by omega, by omega, by omega, by simp⟩
  · exact ⟨15, by omega, by omega, by omega, Or.inr ⟨15, by omega, by omega⟩⟩
  · exact ⟨32, by omega, by omega, by omega, by simp⟩
  · exact ⟨31, by omega, by omega, by omega, Or.inr ⟨31, by omega, by omega⟩⟩
  · exact ⟨64, by omega, by omega, by omega, by simp⟩
  · exact ⟨63, by omega, by omega, by omega, Or.inr ⟨63, by omega, by omega⟩⟩

/-- The integer → floating branch, completely: exact value when the conversion is exact, else out_of_range;
    in particular the cast back is never evaluated outside its defined range. -/
theorem convIntFloat_cases (ops : FloatOps) (L : FloatLaws ops) (S : IntTy) (hS : S.Valid) (F : FloatFmt)
    (v : Int) (hv : S.Fits v) :
    convIntFloat ops S F v = if ops.tr F v = some v then .ok (ops.ofInt F v) else .err .outOfRange := by
  have hsm := S.fits_small hS v hv
  obtain ⟨t, ht⟩ := L.tr_some F v hsm
  obtain ⟨k, hk, hub, hhi, hlo⟩ := S.bound_pow2 hS
  have hsmk : Small (2 ^ k : Int) := by
    constructor
    · have : (0 : Int) ≤ 2 ^ k := Int.pow_nonneg (by omega); omega
    · exact two_pow_le_64 k hk
  have hguard : ops.lt F (ops.ofInt F v) F (upperBound ops S F) = decide (t < 2 ^ k) := by
    unfold upperBound; rw [hub]
    exact L.lt_tr F v (2 ^ k) t (2 ^ k) hsm hsmk ht (L.tr_pow2 F k hk).1
  -- lower bound of t
  have hlow : S.lo ≤ t := by
    rcases hlo with h0 | ⟨j, hj, hj2⟩
    · rw [h0]
      have h0s : Small 0 := by simp [Small]
      exact L.tr_mono F 0 v 0 t h0s hsm (by have := hv.1; omega) (L.tr_zero F) ht
    · rw [hj2]
      have hsj : Small (-(2 ^ j : Int)) := by
        constructor
        · have := two_pow_le_64 j hj; omega
        · have : (0 : Int) ≤ 2 ^ j := Int.pow_nonneg (by omega); omega
      exact L.tr_mono F _ v _ t hsj hsm (by have := hv.1; omega) (L.tr_pow2 F j hj).2 ht
  unfold convIntFloat
  simp only [hguard]
  by_cases hlt : t < 2 ^ k
  · have hfit : S.Fits t := ⟨hlow, by omega⟩
    have hcast : castFloatToInt ops F S (ops.ofInt F v) = some t := by
      unfold castFloatToInt
      have : ops.toInt F (ops.ofInt F v) = some t := ht
      simp [this, hfit]
    simp only [hlt, decide_true, not_true_eq_false, ↓reduceIte, hcast]
    have h0s : Small 0 := by simp [Small]
    have hpos : ops.lt F fzero F (ops.ofInt F v) = decide (0 < t) := by
      rw [← L.ofInt_zero F]; exact L.lt_tr F 0 v 0 t h0s hsm (L.tr_zero F) ht
    have hneg : ops.lt F (ops.ofInt F v) F fzero = decide (t < 0) := by
      rw [← L.ofInt_zero F]; exact L.lt_tr F v 0 t 0 hsm h0s ht (L.tr_zero F)
    simp only [hpos, hneg, ht]
    by_cases htv : t = v
    · subst htv
      have h1 : ¬ (0 < t ∧ t < 0) := by omega
      have h2 : ¬ (t < 0 ∧ t > 0) := by omega
      simp [h1, h2]
    · have : ¬ (some t = some v) := by simpa using htv
      simp [htv, this]
  · have hne : ¬ (some t = some v) := by
      intro h; have := Option.some.inj h; have := hv.2; omega
    simp [hlt, ht, hne]

theorem convBoolFloat_no_ub (ops : FloatOps) (F : FloatFmt) (x : Int) (w : String) :
    convBoolFloat ops F x ≠ .ub w := by
  unfold convBoolFloat; dsimp only; repeat' split <;> simp

theorem convFloatFloat_no_ub (ops : FloatOps) (S T : FloatFmt) (b : Nat) (w : String) :
    convFloatFloat ops S T b ≠ .ub w := by
  unfold convFloatFloat; split <;> simp

/-! ### the toy instance: floats that are integers (shows the laws are consistent) -/

/-- encode an integer as a natural "bit pattern": 2·|v| + sign -/
def toyEnc (v : Int) : Nat := 2 * v.natAbs + (if v < 0 then 1 else 0)
def toyDec (b : Nat) : Int := if b % 2 = 1 then -((b / 2 : Nat) : Int) else ((b / 2 : Nat) : Int)

theorem toyDec_enc (v : Int) : toyDec (toyEnc v) = v := by
  unfold toyDec toyEnc; split <;> split <;> omega

def toyOps : FloatOps :=
  ⟨fun _ v => toyEnc v, fun _ b => some (toyDec b), fun _ _ b => b,
   fun _ a _ b => decide (toyDec a ≤ toyDec b), fun _ a _ b => decide (toyDec a < toyDec b)⟩

theorem toyOps_laws : FloatLaws toyOps := by
  refine ⟨?_, ?_, ?_, ?_, ?_, ?_⟩
  · intro F v _; exact ⟨v, by simp [FloatOps.tr, toyOps, toyDec_enc]⟩
  · intro F v w t u _ _ h h1 h2
    simp [FloatOps.tr, toyOps, toyDec_enc] at h1 h2; omega
  · intro F; simp [FloatOps.tr, toyOps, toyDec_enc]
  · intro F k _; simp [FloatOps.tr, toyOps, toyDec_enc]
  · intro F v w t u _ _ h1 h2
    simp [FloatOps.tr, toyOps, toyDec_enc] at h1 h2 ⊢; subst h1; subst h2; rfl
  · intro F; simp [toyOps, toyEnc, fzero]

end BSVerif.Num
