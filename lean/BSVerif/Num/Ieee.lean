/-
  IEEE 754-2019 binary32 / binary64 reference (§3.4 encodings, §4.3.1 roundTiesToEven, §5.4.1
  convertFromInt / convertToIntegerTowardZero / convertFormat, §5.11 comparisons), written over
  exact integer arithmetic on bit patterns. Lean's `Float` is NOT used anywhere.

  Role: (a) the Spec's notion of "the real number a float bit pattern denotes" (Oracle), and
  (b) the executable instance `refOps` of the hardware operations the model is parameterised by
  (BSVerif/Num/Model.lean, `FloatOps`). That the x86-64 SSE2 instructions emitted by g++ for
  `static_cast` and `<=` agree with (b) is an ASSUMPTION, exercised by every correspondence run.
-/
namespace BSVerif.Num

inductive FloatFmt where
  | f32 | f64
  deriving DecidableEq, Repr

namespace FloatFmt
/-- width of the trailing significand field -/
def mantBits : FloatFmt → Nat | f32 => 23 | f64 => 52
def expBits : FloatFmt → Nat | f32 => 8 | f64 => 11
def bias : FloatFmt → Nat | f32 => 127 | f64 => 1023
def width : FloatFmt → Nat | f32 => 32 | f64 => 64
/-- exponent of the unit in the last place of subnormals (and of the smallest normal binade) -/
def emin (F : FloatFmt) : Int := 1 - (F.bias : Int) - (F.mantBits : Int)
def expMax (F : FloatFmt) : Nat := 2 ^ F.expBits - 1
def signBit (F : FloatFmt) : Nat := 2 ^ (F.width - 1)
def infBits (F : FloatFmt) : Nat := F.expMax * 2 ^ F.mantBits
/-- `numeric_limits<F>::max()` -/
def maxBits (F : FloatFmt) : Nat := F.infBits - 1
/-- `numeric_limits<F>::lowest()` -/
def lowestBits (F : FloatFmt) : Nat := F.signBit + F.maxBits
end FloatFmt

/-- What a bit pattern denotes: NaN, ±∞ or the real number `(-1)^neg · m · 2^e`. -/
inductive FVal where
  | nan
  | inf (neg : Bool)
  | fin (neg : Bool) (m : Nat) (e : Int)
  deriving DecidableEq, Repr

def fsign (F : FloatFmt) (b : Nat) : Bool := b / F.signBit % 2 = 1
def fexp (F : FloatFmt) (b : Nat) : Nat := b / 2 ^ F.mantBits % 2 ^ F.expBits
def fmant (F : FloatFmt) (b : Nat) : Nat := b % 2 ^ F.mantBits

def decode (F : FloatFmt) (b : Nat) : FVal :=
  let neg := fsign F b
  let ex := fexp F b
  let mant := fmant F b
  if ex = F.expMax then (if mant = 0 then .inf neg else .nan)
  else if ex = 0 then .fin neg mant F.emin
  else .fin neg (2 ^ F.mantBits + mant) ((ex : Int) - (F.bias : Int) - (F.mantBits : Int))

def isNaN (F : FloatFmt) (b : Nat) : Bool := decode F b = .nan
def isFinite (F : FloatFmt) (b : Nat) : Bool := match decode F b with | .fin .. => true | _ => false

/-- `num / (den · 2^e)` as a fraction of naturals -/
def scaled (num den : Nat) (e : Int) : Nat × Nat :=
  if e ≥ 0 then (num, den * 2 ^ e.toNat) else (num * 2 ^ (-e).toNat, den)

/-- roundTiesToEven of the real `(-1)^neg · num / den` (`den > 0`) to format `F`; overflow gives ±∞. -/
def roundRNE (F : FloatFmt) (neg : Bool) (num den : Nat) : Nat :=
  let sign := if neg then F.signBit else 0
  if num = 0 then sign else
  let p := F.mantBits + 1
  let e0 : Int := (Nat.log2 num : Int) - (Nat.log2 den : Int) - (p : Int)
  let e1 : Int := if e0 < F.emin then F.emin else e0
  let s1 := scaled num den e1
  let e2 : Int := if s1.1 / s1.2 ≥ 2 ^ p then e1 + 1 else e1
  let s2 := scaled num den e2
  let q := s2.1 / s2.2
  let r := s2.1 % s2.2
  let q1 := if 2 * r > s2.2 ∨ (2 * r = s2.2 ∧ q % 2 = 1) then q + 1 else q
  let q2 := if q1 = 2 ^ p then 2 ^ (p - 1) else q1
  let e3 : Int := if q1 = 2 ^ p then e2 + 1 else e2
  let be : Int := e3 + (F.bias : Int) + (F.mantBits : Int)
  if q2 < 2 ^ (p - 1) then sign + q2
  else if be ≥ (F.expMax : Int) then sign + F.infBits
  else sign + be.toNat * 2 ^ F.mantBits + (q2 - 2 ^ (p - 1))

/-- convertFromInt -/
def ofInt (F : FloatFmt) (v : Int) : Nat := roundRNE F (decide (v < 0)) v.natAbs 1

/-- convertToIntegerTowardZero; `none` for NaN and ±∞ -/
def toIntTrunc (F : FloatFmt) (b : Nat) : Option Int :=
  match decode F b with
  | .fin neg m e =>
    let a : Nat := if e ≥ 0 then m * 2 ^ e.toNat else m / 2 ^ (-e).toNat
    some (if neg then -(a : Int) else (a : Int))
  | _ => none

/-- Is the denoted value an integer? (finite only) -/
def isIntegral (F : FloatFmt) (b : Nat) : Bool :=
  match decode F b with
  | .fin _ m e => decide (e ≥ 0) || decide (m % 2 ^ (-e).toNat = 0)
  | _ => false

/-- convertFormat between the two formats. NaN: sign and payload kept (left-aligned), quiet bit set
    (what SSE2 cvtss2sd / cvtsd2ss do). -/
def cvt (S T : FloatFmt) (b : Nat) : Nat :=
  if S = T then b else
  match decode S b with
  | .nan =>
    let sign := if fsign S b then T.signBit else 0
    let payload := if S.mantBits ≤ T.mantBits then fmant S b * 2 ^ (T.mantBits - S.mantBits)
                   else fmant S b / 2 ^ (S.mantBits - T.mantBits)
    sign + T.infBits + (payload ||| 2 ^ (T.mantBits - 1))
  | .inf neg => (if neg then T.signBit else 0) + T.infBits
  | .fin neg m e => let s := scaled m 1 (-e); roundRNE T neg s.1 s.2

/-- Ordering key of a non-NaN value on a common scale: value · 2^1200 as an integer
    (every finite binary64 is a multiple of 2^-1074); ±∞ beyond every finite key. -/
def orderKey (F : FloatFmt) (b : Nat) : Option Int :=
  match decode F b with
  | .nan => none
  | .inf neg => some (if neg then -(2 ^ 2400 : Int) else (2 ^ 2400 : Int))
  | .fin neg m e =>
    let a : Nat := m * 2 ^ (e + 1200).toNat
    some (if neg then -(a : Int) else (a : Int))

/-- compareQuietLessEqual / compareQuietLess between values of possibly different formats
    (C++ promotes the narrower operand, which is exact). False if either operand is NaN. -/
def fle (A : FloatFmt) (a : Nat) (B : FloatFmt) (b : Nat) : Bool :=
  match orderKey A a, orderKey B b with
  | some x, some y => decide (x ≤ y)
  | _, _ => false

def flt (A : FloatFmt) (a : Nat) (B : FloatFmt) (b : Nat) : Bool :=
  match orderKey A a, orderKey B b with
  | some x, some y => decide (x < y)
  | _, _ => false

/-- Does the bit pattern denote exactly the integer `v`? -/
def denotesInt (F : FloatFmt) (b : Nat) (v : Int) : Bool :=
  isIntegral F b && toIntTrunc F b == some v

end BSVerif.Num
