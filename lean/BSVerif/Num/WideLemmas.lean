/-
  Helper lemmas for width independence of the text parsers (C16): what `Utf8::Encode` (Skip policy,
  default mark) does to the parts of a numeric literal held in 16/32-bit code units, and what
  `Utf8::Decode` does to printed ASCII digits.
-/
import BSVerif.Num.TextLemmas
import BSVerif.Utf.Lemmas

namespace BSVerif.Num
open BSVerif.Utf

/-- output of `Utf8::Encode` under Skip with mark `m`, as a function of the input alone -/
def narrowF (wi : Nat) (m : List Nat) : List Nat → List Nat
  | [] => []
  | u :: rest =>
    if u < 0x80 then u :: narrowF wi m rest
    else if wi = 16 ∧ isSurrogate u then
      if u ≥ 0xDC00 then m ++ narrowF wi m rest
      else
        match rest with
        | [] => []
        | low :: rest' =>
          if low ≥ 0xDC00 ∧ low ≤ 0xDFFF then emit8 (0x10000 + (u % 1024) * 1024 + low % 1024) ++ narrowF wi m rest'
          else m ++ narrowF wi m (low :: rest')
    else if wi = 32 ∧ (u > 0x10FFFF ∨ isSurrogate u) then m ++ narrowF wi m rest
    else emit8 u ++ narrowF wi m rest
termination_by l => l.length

theorem narrowF_nil (wi : Nat) (m : List Nat) : narrowF wi m [] = [] := by rw [narrowF.eq_def]

theorem narrowF_ascii (wi : Nat) (m : List Nat) (u : Nat) (rest : List Nat) (h : u < 0x80) :
    narrowF wi m (u :: rest) = u :: narrowF wi m rest := by rw [narrowF.eq_def]; simp [h]

theorem narrowF_low (m : List Nat) (u : Nat) (rest : List Nat) (h1 : ¬ u < 0x80) (h2 : isSurrogate u = true) (h3 : u ≥ 0xDC00) :
    narrowF 16 m (u :: rest) = m ++ narrowF 16 m rest := by rw [narrowF.eq_def]; simp [h1, h2, h3]

theorem narrowF_high_end (m : List Nat) (u : Nat) (h1 : ¬ u < 0x80) (h2 : isSurrogate u = true) (h3 : ¬ u ≥ 0xDC00) :
    narrowF 16 m [u] = [] := by rw [narrowF.eq_def]; simp [h1, h2, h3]

theorem narrowF_pair (m : List Nat) (u low : Nat) (rest : List Nat) (h1 : ¬ u < 0x80) (h2 : isSurrogate u = true) (h3 : ¬ u ≥ 0xDC00)
    (h4 : low ≥ 0xDC00 ∧ low ≤ 0xDFFF) :
    narrowF 16 m (u :: low :: rest) = emit8 (0x10000 + (u % 1024) * 1024 + low % 1024) ++ narrowF 16 m rest := by
  rw [narrowF.eq_def]; simp [h1, h2, h3, h4]

theorem narrowF_high_bad (m : List Nat) (u low : Nat) (rest : List Nat) (h1 : ¬ u < 0x80) (h2 : isSurrogate u = true) (h3 : ¬ u ≥ 0xDC00)
    (h4 : ¬ (low ≥ 0xDC00 ∧ low ≤ 0xDFFF)) :
    narrowF 16 m (u :: low :: rest) = m ++ narrowF 16 m (low :: rest) := by
  rw [narrowF.eq_def]; simp [h1, h2, h3, h4]

theorem narrowF_bad32 (m : List Nat) (u : Nat) (rest : List Nat) (h1 : ¬ u < 0x80) (h2 : u > 0x10FFFF ∨ isSurrogate u = true) :
    narrowF 32 m (u :: rest) = m ++ narrowF 32 m rest := by rw [narrowF.eq_def]; simp [h1, h2]

theorem narrowF_plain (wi : Nat) (m : List Nat) (u : Nat) (rest : List Nat) (h1 : ¬ u < 0x80) (h2 : ¬ (wi = 16 ∧ isSurrogate u = true))
    (h3 : ¬ (wi = 32 ∧ (u > 0x10FFFF ∨ isSurrogate u = true))) :
    narrowF wi m (u :: rest) = emit8 u ++ narrowF wi m rest := by rw [narrowF.eq_def]; simp [h1, h2, h3]

theorem encode8_out (wi : Nat) (m : List Nat) (l : List Nat) (pos : Nat) (out : List Nat) (inv : Nat) :
    (encode8 wi .skip (some m) l pos out inv).out = out ++ narrowF wi m l := by
  fun_induction encode8 wi .skip (some m) l pos out inv
  case case1 => simp [narrowF_nil]
  case case2 b rest pos out inv h ih => rw [ih, narrowF_ascii _ _ _ _ h]; simp
  case case3 b rest pos out inv h1 h2 h3 hx => simp [handleError] at hx
  case case4 b rest pos out inv h1 h2 h3 out' hx ih =>
    obtain ⟨rfl, h2b⟩ := h2
    simp only [handleError, Option.some.injEq] at hx; subst hx
    rw [ih, narrowF_low m b rest h1 h2b h3]; simp
  case case5 b pos out inv h1 h2 h3 =>
    obtain ⟨rfl, h2b⟩ := h2
    simp [narrowF_high_end m b h1 h2b h3]
  case case6 b pos out inv h1 h2 h3 low rest' h4 ih =>
    obtain ⟨rfl, h2b⟩ := h2
    rw [ih, narrowF_pair m b low rest' h1 h2b h3 h4]; simp
  case case7 b pos out inv h1 h2 h3 low rest' h4 hx => simp [handleError] at hx
  case case8 b pos out inv h1 h2 h3 low rest' h4 out' hx ih =>
    obtain ⟨rfl, h2b⟩ := h2
    simp only [handleError, Option.some.injEq] at hx; subst hx
    rw [ih, narrowF_high_bad m b low rest' h1 h2b h3 h4]; simp
  case case9 b rest pos out inv h1 h2 h3 hx => simp [handleError] at hx
  case case10 b rest pos out inv h1 h2 h3 out' hx ih =>
    obtain ⟨rfl, h3b⟩ := h3
    simp only [handleError, Option.some.injEq] at hx; subst hx
    rw [ih, narrowF_bad32 m b rest h1 h3b]; simp
  case case11 b rest pos out inv h1 h2 h3 ih =>
    rw [ih, narrowF_plain wi m b rest h1 h2 h3]; simp

/-! ### what narrowing does to the parts of a numeric literal -/

theorem emit8_head (x : Nat) (hx : x < 0x110000) : ∃ b tl, emit8 x = b :: tl ∧ 0x80 ≤ b := by
  unfold emit8
  by_cases h1 : x < 0x800
  · exact ⟨0xC0 + x / 64, [0x80 + x % 64], by simp [h1], by omega⟩
  · by_cases h2 : x < 0x10000
    · exact ⟨0xE0 + x / 4096, [0x80 + x / 64 % 64, 0x80 + x % 64], by simp [h1, h2], by omega⟩
    · refine ⟨(0xF0 ||| x / 262144) % 256, [0x80 + x / 4096 % 64, 0x80 + x / 64 % 64, 0x80 + x % 64], by simp [h1, h2], ?_⟩
      rw [lor_F0 _ (by omega)]; omega

def Units (w : Nat) (s : List Nat) : Prop := ∀ u ∈ s, u < 2 ^ w

theorem Units.tail {w u} {s : List Nat} (h : Units w (u :: s)) : Units w s := fun x hx => h x (by simp [hx])
theorem Units.head {w u} {s : List Nat} (h : Units w (u :: s)) : u < 2 ^ w := h u (by simp)

/-- a non-ASCII code unit never turns into an ASCII byte: the narrowed text is empty there or continues with a byte ≥ 0x80 -/
theorem narrowF_nonascii (w : Nat) (hw : w = 16 ∨ w = 32) (u : Nat) (rest : List Nat) (hu : ¬ u < 0x80)
    (hU : Units w (u :: rest)) :
    narrowF w defaultMark8 (u :: rest) = [] ∨ ∃ b tl, narrowF w defaultMark8 (u :: rest) = b :: tl ∧ 0x80 ≤ b := by
  have hlt := hU.head
  rcases hw with rfl | rfl
  · by_cases hs : isSurrogate u = true
    · by_cases h3 : u ≥ 0xDC00
      · right; rw [narrowF_low _ u rest hu hs h3]; exact ⟨0xE2, [0x98, 0x90] ++ narrowF 16 defaultMark8 rest, by simp [defaultMark8], by omega⟩
      · cases rest with
        | nil => left; exact narrowF_high_end _ u hu hs h3
        | cons low rest' =>
          right
          by_cases h4 : low ≥ 0xDC00 ∧ low ≤ 0xDFFF
          · rw [narrowF_pair _ u low rest' hu hs h3 h4]
            obtain ⟨b, tl, he, hb⟩ := emit8_head (0x10000 + (u % 1024) * 1024 + low % 1024) (by omega)
            exact ⟨b, tl ++ narrowF 16 defaultMark8 rest', by rw [he]; simp, hb⟩
          · rw [narrowF_high_bad _ u low rest' hu hs h3 h4]
            exact ⟨0xE2, [0x98, 0x90] ++ narrowF 16 defaultMark8 (low :: rest'), by simp [defaultMark8], by omega⟩
    · right
      rw [narrowF_plain 16 _ u rest hu (by simp [hs]) (by simp)]
      obtain ⟨b, tl, he, hb⟩ := emit8_head u (by omega)
      exact ⟨b, tl ++ narrowF 16 defaultMark8 rest, by rw [he]; simp, hb⟩
  · right
    by_cases hb : u > 0x10FFFF ∨ isSurrogate u = true
    · rw [narrowF_bad32 _ u rest hu hb]
      exact ⟨0xE2, [0x98, 0x90] ++ narrowF 32 defaultMark8 rest, by simp [defaultMark8], by omega⟩
    · rw [narrowF_plain 32 _ u rest hu (by simp) (by simp [hb])]
      obtain ⟨b, tl, he, hb2⟩ := emit8_head u (by omega)
      exact ⟨b, tl ++ narrowF 32 defaultMark8 rest, by rw [he]; simp, hb2⟩

theorem isDigit_ascii {c : Nat} (h : isDigit c = true) : c < 0x80 := by
  simp [isDigit] at h; omega

theorem isDigit_false_of_ge {c : Nat} (h : 0x80 ≤ c) : isDigit c = false := by
  simp [isDigit]; omega

theorem narrowF_takeWhile (w : Nat) (hw : w = 16 ∨ w = 32) (s : List Nat) (hU : Units w s) :
    (narrowF w defaultMark8 s).takeWhile isDigit = s.takeWhile isDigit := by
  induction s with
  | nil => simp [narrowF_nil]
  | cons u rest ih =>
    by_cases hu : u < 0x80
    · rw [narrowF_ascii _ _ _ _ hu]
      simp only [List.takeWhile_cons]
      rw [ih hU.tail]
    · have hd : isDigit u = false := isDigit_false_of_ge (by omega)
      rcases narrowF_nonascii w hw u rest hu hU with h | ⟨b, tl, h, hb⟩
      · simp [h, hd]
      · simp [h, hd, isDigit_false_of_ge hb]

theorem narrowF_dropWhile (w : Nat) (hw : w = 16 ∨ w = 32) (s : List Nat) (hU : Units w s) :
    (narrowF w defaultMark8 s).dropWhile isDigit = narrowF w defaultMark8 (s.dropWhile isDigit) := by
  induction s with
  | nil => simp [narrowF_nil]
  | cons u rest ih =>
    by_cases hu : u < 0x80
    · rw [narrowF_ascii _ _ _ _ hu]
      simp only [List.dropWhile_cons]
      by_cases hd : isDigit u = true
      · simp only [hd, ↓reduceIte]; exact ih hU.tail
      · simp only [hd, Bool.false_eq_true, ↓reduceIte]; rw [narrowF_ascii _ _ _ _ hu]
    · have hd : isDigit u = false := isDigit_false_of_ge (by omega)
      rcases narrowF_nonascii w hw u rest hu hU with h | ⟨b, tl, h, hb⟩
      · simp [h, hd]
      · simp [h, hd, isDigit_false_of_ge hb]

theorem narrowF_head_minus (w : Nat) (hw : w = 16 ∨ w = 32) (s : List Nat) (hU : Units w s) :
    ((narrowF w defaultMark8 s).head? == some minusSign) = (s.head? == some minusSign) := by
  cases s with
  | nil => simp [narrowF_nil]
  | cons u rest =>
    by_cases hu : u < 0x80
    · rw [narrowF_ascii _ _ _ _ hu]; simp
    · rcases narrowF_nonascii w hw u rest hu hU with h | ⟨b, tl, h, hb⟩
      · have : u ≠ minusSign := by simp only [minusSign]; omega
        simp [h, this]
      · have h1 : u ≠ minusSign := by simp only [minusSign]; omega
        have h2 : b ≠ minusSign := by simp only [minusSign]; omega
        have e1 : (b == minusSign) = false := by simpa using h2
        have e2 : (u == minusSign) = false := by simpa using h1
        simp [h, e1, e2]

theorem narrowF_drop_minus (w : Nat) (s : List Nat) (h : (s.head? == some minusSign) = true) :
    narrowF w defaultMark8 (s.drop 1) = (narrowF w defaultMark8 s).drop 1 := by
  cases s with
  | nil => simp at h
  | cons u rest =>
    simp at h
    subst h
    rw [narrowF_ascii _ _ _ _ (by simp [minusSign])]; simp

theorem narrowF_fractionalTail (w : Nat) (hw : w = 16 ∨ w = 32) (r : List Nat) (hU : Units w r) :
    fractionalTail (narrowF w defaultMark8 r) = fractionalTail r := by
  cases r with
  | nil => simp [narrowF_nil]
  | cons c r1 =>
    by_cases hc : c < 0x80
    · rw [narrowF_ascii _ _ _ _ hc]
      cases r1 with
      | nil => simp [narrowF_nil, fractionalTail]
      | cons d r2 =>
        by_cases hd : d < 0x80
        · rw [narrowF_ascii _ _ _ _ hd]; simp [fractionalTail]
        · have hdd : isDigit d = false := isDigit_false_of_ge (by omega)
          rcases narrowF_nonascii w hw d r2 hd hU.tail with h | ⟨b, tl, h, hb⟩
          · simp [h, fractionalTail, hdd]
          · simp [h, fractionalTail, hdd, isDigit_false_of_ge hb]
    · have hcd : c ≠ dot := by simp only [dot]; omega
      have hR : fractionalTail (c :: r1) = false := by
        unfold fractionalTail; cases r1 <;> simp [hcd]
      rw [hR]
      rcases narrowF_nonascii w hw c r1 hc hU with h | ⟨b, tl, h, hb⟩
      · simp [h, fractionalTail]
      · have hbd : b ≠ dot := by simp only [dot]; omega
        rw [h]; unfold fractionalTail; cases tl <;> simp [hbd]

theorem Units.drop {w : Nat} {s : List Nat} (h : Units w s) (n : Nat) : Units w (s.drop n) :=
  fun x hx => h x (List.mem_of_mem_drop hx)

theorem Units.dropWhile {w : Nat} {s : List Nat} (h : Units w s) (p : Nat → Bool) : Units w (s.dropWhile p) :=
  fun x hx => h x ((List.dropWhile_sublist p).subset hx)

/-- the leading literal of the narrowed text is the leading literal of the wide text -/
theorem leadingLiteral_narrowF (w : Nat) (hw : w = 16 ∨ w = 32) (signed : Bool) (s : List Nat) (hU : Units w s) :
    leadingLiteral signed (narrowF w defaultMark8 s) =
      (leadingLiteral signed s).map fun p => (p.1, p.2.1, narrowF w defaultMark8 p.2.2) := by
  unfold leadingLiteral
  dsimp only
  rw [narrowF_head_minus w hw s hU]
  by_cases hneg : (signed && s.head? == some minusSign) = true
  · have hm : (s.head? == some minusSign) = true := by
      cases signed <;> simp_all
    simp only [hneg, ↓reduceIte]
    rw [← narrowF_drop_minus w s hm, narrowF_takeWhile w hw _ (hU.drop 1), narrowF_dropWhile w hw _ (hU.drop 1)]
    split <;> simp
  · simp only [hneg, Bool.false_eq_true, ↓reduceIte]
    rw [narrowF_takeWhile w hw _ hU, narrowF_dropWhile w hw _ hU]
    split <;> simp


theorem narrow_eq (w : Nat) (s : List Nat) : narrow w s = narrowF w defaultMark8 s := by
  unfold narrow utf8Encode; rw [encode8_out]; simp

theorem narrowF_of_ascii (w : Nat) (m : List Nat) (s : List Nat) (h : ∀ u ∈ s, u < 0x80) : narrowF w m s = s := by
  induction s with
  | nil => exact narrowF_nil w m
  | cons u rest ih =>
    rw [narrowF_ascii _ _ _ _ (h u (by simp)), ih (fun x hx => h x (by simp [hx]))]

/-- `Utf8::Decode` copies ASCII bytes unchanged (printing into 16/32-bit strings) -/
theorem decode8_ascii_out (w : Nat) (pol : Policy) (mark : Option (List Nat)) (l : List Nat) (h : ∀ u ∈ l, u < 0x80)
    (pos : Nat) (out : List Nat) (inv : Nat) :
    (decode8 w pol mark l pos out inv).out = out ++ l := by
  induction l generalizing pos out with
  | nil => simp [decode8]
  | cons b rest ih =>
    rw [decode8_step1 w b (h b (by simp)), ih (fun x hx => h x (by simp [hx]))]; simp

end BSVerif.Num
