/-
  ORACLE for C04/C16: judges the implementation's answer for a numeric op directly against the Spec
  (BSVerif/Num/Spec.lean, BSVerif/Num/FloatText.lean), independently of the Model.
-/
import BSVerif.Num.Spec
import BSVerif.Num.FloatText

namespace BSVerif.Num.Oracle
open BSVerif.Num

inductive Verdict where
  | ok
  | known (cls : String)
  | bad (why : String)
  deriving Repr, DecidableEq

/-- value of type `S` well-formed and in range? -/
def valOk : Ty → Val → Bool
  | .flt F, .flt b => decide (b < 2 ^ F.width)
  | .flt _, _ => false
  | t, .int x => decide (t.FitsInt x)
  | _, _ => false

/-- answer well-typed for target `T`? -/
def answerTyped (T : Ty) : ConvAnswer → Bool
  | .ok v => valOk T v
  | .err _ => true

/-- C04 acceptance of a direct conversion answer -/
def acceptConv (S T : Ty) (v : Val) (a : ConvAnswer) : Bool :=
  if S = T then a = .ok v                     -- same type: identity, bit for bit
  else match S, v with
    | .flt F, .flt b => acceptFromFloat F T b a
    | _, .int x => acceptFromInt T x a
    | _, _ => false

def knownClassNonfinite : String := "nonfinite-double-to-float-overflow"

/-- recorded deviations of the conversion: none at present (the class `nonfinite-double-to-float-overflow` was repaired:
    `Spec.nonfiniteReported` describes what the unrepaired code did and is kept for the regression witness only) -/
def knownConv (_S _T : Ty) (_v : Val) (_a : ConvAnswer) : Bool := false

/-- acceptance including the recorded deviation (used to recognise it through TryTo / ConvertByPolicy) -/
def acceptConvOrKnown (S T : Ty) (v : Val) (a : ConvAnswer) : Bool := acceptConv S T v a || knownConv S T v a

def judgeConv (S T : Ty) (v : Val) (a : Option ConvAnswer) : Verdict :=
  match a with
  | none => .bad "answer is neither a value nor one of the two conversion errors"
  | some a =>
    if !answerTyped T a then .bad "answer is not a value of the target type"
    else if acceptConv S T v a then .ok
    else if knownConv S T v a then .known knownClassNonfinite
    else match a with
      | .ok _ => .bad "stored value differs from the source value (altered/wrapped/sign-changed)"
      | .err .outOfRange => .bad "out_of_range although the target represents the value"
      | .err .invalidArgument => .bad "invalid_argument for a value of the same kind"

/-- `TryTo`: `some r` exactly when `To` may answer `ok r`; `none` exactly when `To` may answer an error -/
def judgeTry (S T : Ty) (v : Val) (a : Option (Option Val)) : Verdict :=
  match a with
  | none => .bad "unreadable answer"
  | some (some r) => judgeConv S T v (some (.ok r))
  | some none =>
    if acceptConv S T v (.err .outOfRange) || acceptConv S T v (.err .invalidArgument) then .ok
    else if knownConv S T v (.err .outOfRange) then .known knownClassNonfinite
    else .bad "empty optional for a representable value"

/-! ### text -/

def acceptParseClass (c : ParseClass) (a : ConvAnswer) : Bool :=
  match c with
  | .value v => a = .ok (.int v)
  | .outOfRange => a = .err .outOfRange
  | .invalid => a = .err .invalidArgument
  | .outOfRangeOrInvalid => a = .err .outOfRange ∨ a = .err .invalidArgument

def acceptBoolClass (c : BoolClass) (a : ConvAnswer) : Bool :=
  match c with
  | .value b => a = .ok (.int (if b then 1 else 0))
  | .outOfRange => a = .err .outOfRange
  | .invalid => a = .err .invalidArgument
  | .valueOrOutOfRange b => a = .ok (.int (if b then 1 else 0)) ∨ a = .err .outOfRange

/-- acceptance of a text → `T` answer; the same classification for every code-unit width -/
def acceptParse (T : Ty) (s : List Nat) (a : ConvAnswer) : Bool :=
  match T with
  | .int t => acceptParseClass (classify t s) a
  | .bool => acceptBoolClass (classifyBool s) a
  | .flt F => FloatText.acceptParse F s a

def judgeParse (T : Ty) (s : List Nat) (a : Option ConvAnswer) : Verdict :=
  match a with
  | none => .bad "answer is neither a value nor one of the two conversion errors"
  | some a =>
    if !answerTyped T a then .bad "answer is not a value of the target type"
    else if acceptParse T s a then .ok
    else match a with
      | .ok _ => .bad "parsed value is not the value of the leading literal"
      | .err .outOfRange => .bad "out_of_range not justified by the leading literal"
      | .err .invalidArgument => .bad "invalid_argument although a representable literal leads the text"

/-- value → text: integers canonical decimal, bool `true`/`false`, floats shortest round-trip -/
def judgePrint (T : Ty) (v : Val) (a : Option (List Nat)) : Verdict :=
  match a with
  | none => .bad "no text produced"
  | some txt =>
    match T, v with
    | .int _, .int x => if txt = intText x then .ok else .bad "not the canonical decimal text of the value"
    | .bool, .int x => if txt = (if x = 1 then wTrue else wFalse) then .ok else .bad "bool text is not true/false"
    | .flt F, .flt b => FloatText.judgePrinted F b txt |>.elim .ok .bad
    | _, _ => .bad "ill-typed"

/-! ### ConvertByPolicy -/

inductive PolAnswer where
  | ret (loaded : Bool) (target : Val)
  | thrown (overflow : Bool)          -- true: Overflow, false: MismatchedTypes
  | other
  deriving DecidableEq, Repr

/-- `accept` = admissible answers of the underlying conversion; `sentinel` = prior target value. -/
def judgePolicy (accept : ConvAnswer → Bool) (T : Ty) (sentinel : Val) (ovfThrow misThrow : Bool)
    (a : PolAnswer) : Verdict :=
  let oor := accept (.err .outOfRange)
  let inv := accept (.err .invalidArgument)
  match a with
  | .ret true x =>
    if !valOk T x then .bad "loaded value is not a value of the target type"
    else if accept (.ok x) then .ok else .bad "loaded value differs from the source value"
  | .ret false x =>
    if x ≠ sentinel then .bad "target modified although reported as not loaded"
    else if (oor && !ovfThrow) || (inv && !misThrow) then .ok
    else .bad "skipped although the policy demands an error or the value is representable"
  | .thrown true => if oor && ovfThrow then .ok else .bad "Overflow error not justified by value and policy"
  | .thrown false => if inv && misThrow then .ok else .bad "MismatchedTypes error not justified by value and policy"
  | .other => .bad "neither loaded, skipped, Overflow nor MismatchedTypes"

/-- ConvertByPolicy over a direct conversion: strict judgement first; the recorded deviation is recognised
    when the answer is justified only by it. -/
def judgePolicyConv (S T : Ty) (v : Val) (sentinel : Val) (ovfThrow misThrow : Bool) (a : PolAnswer) : Verdict :=
  match judgePolicy (acceptConv S T v) T sentinel ovfThrow misThrow a with
  | .ok => .ok
  | other =>
    if knownConv S T v (.err .outOfRange) then
      (match judgePolicy (acceptConvOrKnown S T v) T sentinel ovfThrow misThrow a with
       | .ok => .known knownClassNonfinite
       | _ => other)
    else other

end BSVerif.Num.Oracle
