/-
  Shared vocabulary of the numeric-conversion area: the arithmetic types of C++ as the library sees
  them ([basic.fundamental]: two's complement integers of 8/16/32/64 bits, `bool`, binary32/64),
  values, and the two exception classes of `Convert::To`.
-/
import BSVerif.Num.Ieee

namespace BSVerif.Num

/-! ### types and ranges -/

structure IntTy where
  bits : Nat
  signed : Bool
  deriving DecidableEq, Repr

namespace IntTy
def lo (t : IntTy) : Int := if t.signed then -(2 ^ (t.bits - 1) : Int) else 0
def hi (t : IntTy) : Int := if t.signed then (2 ^ (t.bits - 1) : Int) - 1 else (2 ^ t.bits : Int) - 1
def Fits (t : IntTy) (v : Int) : Prop := t.lo ≤ v ∧ v ≤ t.hi
instance (t : IntTy) (v : Int) : Decidable (t.Fits v) := by unfold Fits; exact inferInstance
/-- the widths C++ has on the platforms the library supports -/
def Valid (t : IntTy) : Prop := t.bits = 8 ∨ t.bits = 16 ∨ t.bits = 32 ∨ t.bits = 64
instance (t : IntTy) : Decidable t.Valid := by unfold Valid; exact inferInstance
end IntTy

/-- arithmetic types: `bool`, the integer types (incl. the character types, which the library treats
    as integers of their width and signedness), `float`, `double`. -/
inductive Ty where
  | bool
  | int (t : IntTy)
  | flt (f : FloatFmt)
  deriving DecidableEq, Repr

/-- a value of an arithmetic type: integers and bool as the mathematical integer, floats as bit pattern -/
inductive Val where
  | int (v : Int)
  | flt (bits : Nat)
  deriving DecidableEq, Repr

inductive ConvErr where
  | outOfRange          -- std::out_of_range
  | invalidArgument     -- std::invalid_argument
  deriving DecidableEq, Repr

/-- range of the integer-valued types -/
def Ty.FitsInt : Ty → Int → Prop
  | .bool, v => 0 ≤ v ∧ v ≤ 1
  | .int t, v => t.Fits v
  | .flt _, _ => False

instance (t : Ty) (v : Int) : Decidable (t.FitsInt v) := by
  cases t <;> simp only [Ty.FitsInt] <;> exact inferInstance

def Ty.isFloat : Ty → Bool | .flt _ => true | _ => false

end BSVerif.Num
