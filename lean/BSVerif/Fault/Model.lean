/-
  MODEL for C20: the scope-lifetime machine of an archive session.
  A program is a sequence of instructions executed by a (de)serialization call; scopes are objects
  with destructors, held in `std::optional`s and closed in LIFO order. Any step may fail (raise an
  exception); unwinding then runs the destructors of all pending scopes. A destructor that throws
  — during unwinding, or during a normal close, because `std::optional<T>::~optional()` is
  noexcept — ends in `std::terminate`.
-/
namespace BSVerif.Fault

inductive Instr where
  | openScope (dtorThrows : Bool)     -- whether this scope's destructor will throw when it runs
  | step (fails : Option Nat)         -- `some e` = this step raises exception `e`
  | closeScope
  deriving Repr, DecidableEq

inductive Outcome where
  | completed
  | exception (e : Nat)
  | terminate
  deriving Repr, DecidableEq

/-- run the destructors of all pending scopes (innermost first) -/
def unwind : List Bool → Bool      -- returns true when some destructor throws
  | [] => false
  | d :: rest => d || unwind rest

def exec : List Instr → List Bool → Outcome
  | [], stack => if unwind stack then .terminate else .completed
  | .openScope d :: is, stack => exec is (d :: stack)
  | .step none :: is, stack => exec is stack
  | .step (some e) :: _, stack => if unwind stack then .terminate else .exception e
  | .closeScope :: is, stack =>
    match stack with
    | [] => exec is []
    | d :: rest => if d then .terminate else exec is rest

/-- first failing step of a program -/
def firstFailure : List Instr → Option Nat
  | [] => none
  | .step (some e) :: _ => some e
  | _ :: is => firstFailure is

def noThrowingDtor (prog : List Instr) : Prop := ∀ d, Instr.openScope d ∈ prog → d = false

end BSVerif.Fault
