/-
  MODEL for C20: the scope-lifetime machine of an archive session.
  A program is a sequence of instructions executed by a (de)serialization call; scopes are objects
  with destructors, held in `std::optional`s and closed in LIFO order. Any step may fail (raise an
  exception); unwinding then runs the destructors of all pending scopes. The work a destructor does
  (`~CMsgPackReadObjectScope` / `~CMsgPackReadArrayScope`: skip what was not read; `~CCsvWriteObjectScope`:
  `NextLine()`) may fail as well. A destructor either
    * lets that exception escape — during unwinding, or during a normal close, because
      `std::optional<T>::~optional()` is noexcept, this ends in `std::terminate`; or
    * catches it (`try { … } catch (...) { GetContext().DeferError(std::current_exception()); }`): the
      SerializationContext keeps the FIRST deferred error and `Finalize()` of the root scope — called by
      LoadObject/SaveObject right after the object has been (de)serialized, outside any destructor —
      rethrows it.
  Which of the two the library's destructors do is regenerated from the source on every run
  (`Generated/InventoryConsts.lean`, theorems in Props/C20.lean).
-/
namespace BSVerif.Fault

/-- what the destructor of a scope does when it runs -/
inductive Dtor where
  | clean                 -- its work succeeds (or it has none)
  | defers (e : Nat)      -- its work raises `e`, caught inside the destructor and deferred to `Finalize()`
  | throws (e : Nat)      -- its work raises `e` and the exception leaves the destructor
  deriving Repr, DecidableEq

inductive Instr where
  | openScope (d : Dtor)              -- what this scope's destructor will do when it runs
  | step (fails : Option Nat)         -- `some e` = this step raises exception `e`
  | closeScope
  deriving Repr, DecidableEq

inductive Outcome where
  | completed
  | exception (e : Nat)
  | terminate
  deriving Repr, DecidableEq

/-- `SerializationContext::DeferError`: only the first error is kept (later ones are its consequences) -/
def deferError (dfr : Option Nat) (e : Nat) : Option Nat :=
  match dfr with
  | some x => some x
  | none => some e

/-- run the destructors of all pending scopes (innermost first): `none` = an exception left a destructor,
    `some dfr` = the deferred-error slot afterwards -/
def unwind : List Dtor → Option Nat → Option (Option Nat)
  | [], dfr => some dfr
  | .clean :: rest, dfr => unwind rest dfr
  | .defers e :: rest, dfr => unwind rest (deferError dfr e)
  | .throws _ :: _, _ => none

/-- `stack`: pending scopes, innermost first; `dfr`: `SerializationContext::mDeferredError` -/
def exec : List Instr → List Dtor → Option Nat → Outcome
  | [], stack, dfr =>
    -- the object has been (de)serialized: `archive.Finalize()` rethrows the deferred error, then (normally or while
    -- that exception unwinds) the scopes that are still alive — the root scope — are destroyed; what a destructor
    -- defers now is lost with the context
    match unwind stack dfr, dfr with
    | none, _ => .terminate
    | some _, some e => .exception e
    | some _, none => .completed
  | .openScope d :: is, stack, dfr => exec is (d :: stack) dfr
  | .step none :: is, stack, dfr => exec is stack dfr
  | .step (some e) :: _, stack, dfr =>
    -- stack unwinding; `Finalize()` is not reached, so the caller sees the exception of the failing step
    match unwind stack dfr with
    | none => .terminate
    | some _ => .exception e
  | .closeScope :: is, stack, dfr =>
    match stack with
    | [] => exec is [] dfr
    | .clean :: rest => exec is rest dfr
    | .defers e :: rest => exec is rest (deferError dfr e)
    | .throws _ :: _ => .terminate

/-- first failing step of a program -/
def firstFailure : List Instr → Option Nat
  | [] => none
  | .step (some e) :: _ => some e
  | _ :: is => firstFailure is

def Dtor.escapes : Dtor → Bool
  | .throws _ => true
  | _ => false

/-- no destructor of the program lets an exception escape (discharged for the library by
    `C20.dtors_cannot_let_exceptions_escape` over the regenerated inventory) -/
def noEscapingDtor (prog : List Instr) : Prop := ∀ d, Instr.openScope d ∈ prog → d.escapes = false

/-- every scope whose destructor has fallible work is destroyed before `Finalize()` runs: in the library such scopes
    are locals of the functions called by `KeyValueProxy::SplitAndSerialize`, which returns before
    `archive.Finalize()`; only the root scope (destructor: `delete` of the reader/writer) is still alive -/
def endsClean : List Instr → List Dtor → Bool
  | [], stack => stack.all (· == .clean)
  | .openScope d :: is, stack => endsClean is (d :: stack)
  | .step _ :: is, stack => endsClean is stack
  | .closeScope :: is, stack => endsClean is stack.tail

end BSVerif.Fault
