/-
  MODEL of include/bitserializer/conversion_detail/convert_chrono.h and
  include/bitserializer/serialization_detail/bin_timestamp.h (transliteration, branch for branch),
  together with the parts of libstdc++ <chrono> (duration_cast, floor, round, duration/time_point
  arithmetic through common_type) and <charconv> (from_chars for integers) that the code relies on.

  Conventions
  * A C++ integer type is a `Rep` (signedness, width). Values are `Int`; every arithmetic step names
    the type it is evaluated in:
      - `Rep.wrap`  = `static_cast` to the type (modular; what g++ does for narrowing conversions),
      - `Rep.arith` = the result of ONE arithmetic operation whose operands have the type (after the
        usual promotions) stored back into the type: signed types of at least `int` width overflow
        into the distinguished outcome `ub "signed_integer_overflow"`; narrower signed types are
        computed in `int` and converted back (wrap); unsigned types wrap.
  * A `std::ratio` period is a `Period` (num/den, one of them is 1 for every period that occurs).
  * `Out α` = normal result | C++ exception class | undefined behaviour (what UBSan reports).
  * Text is a list of bytes; `char16_t`/`char32_t` input goes through the UTF model (`Utf8::Encode`
    with the default policy `Skip` and the default error mark U+2610) exactly as in the code.
  * Buffers are modelled by their length (`Generated.Chrono.utcBufSize`).
-/
import BSVerif.Basic
import BSVerif.Utf.Model
import BSVerif.Generated.ChronoConsts

namespace BSVerif.Chrono
open BSVerif.Generated.Chrono

/-! ### outcomes -/

inductive Err where
  | invalidArgument | outOfRange | runtimeError
  deriving DecidableEq, Repr

inductive Out (α : Type) where
  | ok (v : α)
  | err (e : Err)
  | ub (kind : String)
  deriving Repr, DecidableEq

namespace Out
def bind {α β : Type} (x : Out α) (f : α → Out β) : Out β :=
  match x with
  | .ok v => f v
  | .err e => .err e
  | .ub k => .ub k
instance : Monad Out where
  pure := .ok
  bind := Out.bind
@[simp] theorem bind_ok {α β : Type} (v : α) (f : α → Out β) : (Out.ok v >>= f) = f v := rfl
@[simp] theorem bind_err {α β : Type} (e : Err) (f : α → Out β) : ((Out.err e : Out α) >>= f) = Out.err e := rfl
@[simp] theorem bind_ub {α β : Type} (k : String) (f : α → Out β) : ((Out.ub k : Out α) >>= f) = Out.ub k := rfl
@[simp] theorem pure_eq {α : Type} (v : α) : (pure v : Out α) = Out.ok v := rfl
end Out

def ubOverflow : String := "signed_integer_overflow"

/-! ### integer types -/

structure Rep where
  signed : Bool
  bits : Nat
  deriving DecidableEq, Repr

def i64 : Rep := ⟨true, 64⟩
def i32 : Rep := ⟨true, 32⟩
def i8 : Rep := ⟨true, 8⟩
def u64 : Rep := ⟨false, 64⟩
def u32 : Rep := ⟨false, 32⟩

def Rep.lo (r : Rep) : Int := if r.signed then -(2 ^ (r.bits - 1) : Int) else 0
def Rep.hi (r : Rep) : Int := if r.signed then (2 ^ (r.bits - 1) : Int) - 1 else (2 ^ r.bits : Int) - 1
def Rep.fits (r : Rep) (x : Int) : Bool := decide (r.lo ≤ x) && decide (x ≤ r.hi)

/-- `static_cast<R>(x)` for an integer `x` of any width: reduction modulo 2^bits. -/
def Rep.wrap (r : Rep) (x : Int) : Int :=
  let m := x % (2 ^ r.bits : Int)
  if r.signed ∧ m ≥ (2 ^ (r.bits - 1) : Int) then m - (2 ^ r.bits : Int) else m

/-- result of one arithmetic operation evaluated on operands of type `r` and stored back into `r`. -/
def Rep.arith (r : Rep) (x : Int) : Out Int :=
  if r.signed then
    if r.bits ≥ 32 then (if r.fits x then .ok x else .ub ubOverflow)
    else .ok (r.wrap x)
  else .ok (r.wrap x)

/-- `std::common_type_t<a, b, intmax_t>` for the integer types that occur (at most 64 bits). -/
def commonRep3 (a b : Rep) : Rep :=
  if (¬ a.signed ∧ a.bits = 64) ∨ (¬ b.signed ∧ b.bits = 64) then u64 else i64

/-- `std::common_type_t<a, b>` where the two are equal or one of them is a 64-bit type. -/
def commonRep2 (a b : Rep) : Rep := if a = b then a else commonRep3 a b

/-- C++ integer division (truncation towards zero) by a positive constant. -/
def tdiv (a : Int) (b : Nat) : Int :=
  if 0 ≤ a then ((a.toNat / b : Nat) : Int) else -(((-a).toNat / b : Nat) : Int)

/-- C++ remainder (sign of the dividend). -/
def tmod (a : Int) (b : Nat) : Int := a - tdiv a b * b

/-! ### periods -/

structure Period where
  num : Nat
  den : Nat
  deriving DecidableEq, Repr

def pNano : Period := ⟨1, 1000000000⟩
def pMicro : Period := ⟨1, 1000000⟩
def pMilli : Period := ⟨1, 1000⟩
def pSec : Period := ⟨1, 1⟩
def pMin : Period := ⟨60, 1⟩
def pHour : Period := ⟨3600, 1⟩
def pDay : Period := ⟨86400, 1⟩
def pWeek : Period := ⟨604800, 1⟩

/-- `std::ratio_divide<p, q>` in lowest terms -/
def ratioDiv (p q : Period) : Nat × Nat :=
  let n := p.num * q.den
  let d := p.den * q.num
  let g := Nat.gcd n d
  (n / g, d / g)

/-- period of `common_type<duration<_, p>, duration<_, q>>` when one period divides the other -/
def finer (p q : Period) : Period := if p.num * q.den ≤ q.num * p.den then p else q

/-! ### <chrono> -/

/-- `std::chrono::duration_cast<duration<rt, pt>>(duration<rs, ps>(c))` (libstdc++ `__duration_cast_impl`). -/
def durationCast (rt : Rep) (pt : Period) (rs : Rep) (ps : Period) (c : Int) : Out Int :=
  let nd := ratioDiv ps pt
  let cr := commonRep3 rt rs
  if nd.2 = 1 then
    if nd.1 = 1 then .ok (rt.wrap c)
    else do
      let v ← cr.arith (cr.wrap c * nd.1)
      .ok (rt.wrap v)
  else if nd.1 = 1 then .ok (rt.wrap (tdiv (cr.wrap c) nd.2))
  else do
    let v ← cr.arith (cr.wrap c * nd.1)
    .ok (rt.wrap (tdiv v nd.2))

/-- `std::chrono::floor<duration<rt, pt>>(duration<rs, ps>(c))`; the comparison `__to > __d` is done in
    the common type of the two durations. -/
def floorDur (rt : Rep) (pt : Period) (rs : Rep) (ps : Period) (c : Int) : Out Int := do
  let t ← durationCast rt pt rs ps c
  let cr := commonRep2 rt rs
  let cp := finer pt ps
  let a ← durationCast cr cp rt pt t
  let b ← durationCast cr cp rs ps c
  if a > b then rt.arith (t - 1) else .ok t

/-- `std::chrono::round<duration<int64_t, p>>(nanoseconds(ns))` (ties to even). -/
def roundTo (p : Period) (ns : Int) : Out Int := do
  let t0 ← floorDur i64 p i64 pNano ns
  let t1 ← i64.arith (t0 + 1)
  let a0 ← durationCast i64 pNano i64 p t0
  let d0 ← i64.arith (ns - a0)
  let a1 ← durationCast i64 pNano i64 p t1
  let d1 ← i64.arith (a1 - ns)
  if d0 = d1 then (if t0 % 2 = 1 then .ok t1 else .ok t0)
  else if d0 < d1 then .ok t0
  else .ok t1

/-! ### SafeDurationCast / SafeAddDuration -/

/-- the body of `SafeDurationCast` for `TDivRatio = n/d`, `TOpRep = common_type<rt, rs, intmax_t>` -/
def safeCastCore (rt rs : Rep) (n d : Nat) (c : Int) : Out Int :=
  let op := commonRep3 rt rs
  if d = 1 then
    if n = 1 then
      let v := rt.wrap c
      if c ≠ rs.wrap v ∨ (c > 0 ∧ v < 0) ∨ (c < 0 ∧ v > 0) then .err .outOfRange else .ok v
    else
      let oc := op.wrap c
      if oc > tdiv op.hi n ∨ oc < tdiv op.lo n then .err .outOfRange else do
      let v ← op.arith (oc * n)
      let t := rt.wrap v
      if v ≠ op.wrap t ∨ (v > 0 ∧ t < 0) ∨ (v < 0 ∧ t > 0) then .err .outOfRange else .ok t
  else
    if n = 1 then do
      let v := rt.wrap (tdiv (op.wrap c) d)
      let pr ← op.arith (op.wrap v * d)
      if rs.wrap pr ≠ c ∨ (c > 0 ∧ v < 0) ∨ (c < 0 ∧ v > 0) then .err .outOfRange else .ok v
    else
      let oc := op.wrap c
      if oc > tdiv op.hi n ∨ oc < tdiv op.lo n then .err .outOfRange else do
      let m ← op.arith (oc * n)
      let v := rt.wrap (tdiv m d)
      let pr ← (commonRep3 rt i64).arith (v * d)
      if v ≠ 0 ∧ rs.wrap (tdiv pr n) ≠ c then .err .outOfRange else .ok v

/-- `SafeDurationCast<duration<rt, pt>>(duration<rs, ps>(c))` -/
def safeDurationCast (rt : Rep) (pt : Period) (rs : Rep) (ps : Period) (c : Int) : Out Int :=
  if rt = rs ∧ pt = ps then .ok c else
  let nd := ratioDiv ps pt
  safeCastCore rt rs nd.1 nd.2 c

/-- `SafeAddDuration(time_point<_, duration<r, p>>& tp, duration<rs, ps>(src))`; `tp` is the count of the time point. -/
def safeAddTp (r : Rep) (p : Period) (tp : Int) (rs : Rep) (ps : Period) (src : Int) : Out Int :=
  if src = 0 then .ok tp else
  let op := commonRep3 rs r
  match safeDurationCast op p rs ps src with
  | .err _ => .err .outOfRange
  | .ub k => .ub k
  | .ok a =>
    let add : Out Int := do
      let n ← op.arith (op.wrap tp + a)
      .ok (r.wrap n)
    if a > 0 then do
      let m ← op.arith (r.hi - a)
      if op.wrap tp > m then .err .outOfRange else add
    else if a < 0 then do
      let m ← op.arith (r.lo - a)
      if op.wrap tp < m then .err .outOfRange else add
    else add

/-- `SafeAddDuration(duration<r, p>& target, duration<rs, ps>(src))` -/
def safeAddDur (r : Rep) (p : Period) (target : Int) (rs : Rep) (ps : Period) (src : Int) : Out Int :=
  if src = 0 then .ok target else do
  let a ← safeDurationCast r p rs ps src
  if a > 0 then do
    let m ← r.arith (r.hi - a)
    if target > m then .err .outOfRange else r.arith (target + a)
  else if a < 0 then do
    let m ← r.arith (r.lo - a)
    if target < m then .err .outOfRange else r.arith (target + a)
  else r.arith (target + a)

/-! ### <charconv> and character classes -/

def isDigit (c : Nat) : Bool := 48 ≤ c && c ≤ 57
def isSpace (c : Nat) : Bool := c == 32 || (9 ≤ c && c ≤ 13)

/-- longest run of decimal digits: (value, number of digits, rest) -/
def spanDigits : List Nat → Nat → Nat → Nat × Nat × List Nat
  | [], acc, n => (acc, n, [])
  | c :: t, acc, n => if isDigit c then spanDigits t (acc * 10 + (c - 48)) (n + 1) else (acc, n, c :: t)

inductive Fc where
  | ok (v : Int) (digits : Nat) (rest : List Nat)
  | invalid
  | range
  deriving Repr

/-- `std::from_chars(first, last, value)` for an integer `value` of type `r`, base 10. -/
def fromChars (r : Rep) (s : List Nat) : Fc :=
  let ns : Bool × List Nat :=
    if r.signed then (match s with | 45 :: t => (true, t) | _ => (false, s)) else (false, s)
  let vr := spanDigits ns.2 0 0
  if vr.2.1 = 0 then .invalid
  else
    let x : Int := if ns.1 then -(vr.1 : Int) else (vr.1 : Int)
    if r.fits x then .ok x vr.2.1 vr.2.2 else .range

/-! ### ParseSecondFractions -/

/-- `ParseSecondFractions(pos, end, nanoseconds&)`: `none` = nullptr, otherwise (nanoseconds, rest) -/
def parseFractions (s : List Nat) : Option (Int × List Nat) :=
  match fromChars u32 s with
  | .ok v n rest =>
    if v = 0 then some (0, rest)
    else if n < 10 then some (((1000000000 * 1000000000 / (10 ^ n * 1000000000 / v.toNat) : Nat) : Int), rest)
    else none
  | _ => none

/-! ### ParseIsoUtc -/

structure Parts where
  year : Int
  mon : Int
  day : Int
  hour : Int
  min : Int
  sec : Int
  frac : Option Int
  deriving Repr, DecidableEq

def headIsDigit : List Nat → Bool
  | d :: _ => isDigit d
  | [] => false

/-- `value < optional` / `value > optional` (false for an empty optional) -/
def ltOpt (v : Int) : Option Int → Bool
  | some m => decide (v < m)
  | none => false
def gtOpt (v : Int) : Option Int → Bool
  | some m => decide (v > m)
  | none => false

/-- the lambda `parseDatetimePart` -/
def parsePart (s : List Nat) (r : Rep) (minV maxV : Option Int) (delim : Option Nat) (isYear : Bool) : Out (Int × List Nat) :=
  match s with
  | [] => .err .invalidArgument
  | c :: t =>
    if isDigit c ∨ isYear then
      let s' := if isYear ∧ c = 43 ∧ headIsDigit t then t else s
      match fromChars r s' with
      | .ok v _ rest =>
        if ltOpt v minV ∨ gtOpt v maxV then
          .err .invalidArgument
        else
          match delim with
          | some dl =>
            (match rest with
             | x :: rest' => if x = dl then .ok (v, rest') else .err .invalidArgument
             | [] => .err .invalidArgument)
          | none => .ok (v, rest)
      | .range => .err .outOfRange
      | .invalid => .err .invalidArgument
    else .err .invalidArgument

/-- `ParseIsoUtc` on 8-bit text -/
def parseIsoUtc8 (s : List Nat) : Out Parts := do
  let (y, s) ← parsePart s i64 none none (some 45) true
  let (mo, s) ← parsePart s i32 (some 1) (some 12) (some 45) false
  let maxd : Int := ((daysInMonth.getD (mo - 1).toNat 0 : Nat) : Int)
  let (d, s) ← parsePart s i32 (some 1) (some maxd) (some 84) false
  if mo = 2 ∧ d = 29 ∧ (tmod y 4 ≠ 0 ∨ (tmod y 100 = 0 ∧ tmod y 400 ≠ 0)) then .err .invalidArgument else
  let (h, s) ← parsePart s i32 (some 0) (some 23) (some 58) false
  let (mi, s) ← parsePart s i32 (some 0) (some 59) (some 58) false
  let (sec, s) ← parsePart s i32 (some 0) (some 59) none false
  let (fr, s) ← (match s with
    | c :: t =>
      if c = 46 ∨ c = 44 then
        (match parseFractions t with
         | none => (.err .invalidArgument : Out (Option Int × List Nat))
         | some (ns, r) => .ok (some ns, r))
      else .ok (none, s)
    | [] => .ok (none, s))
  match s with
  | 90 :: rest =>
    (match rest with
     | x :: _ => if isSpace x then .ok ⟨y, mo, d, h, mi, sec, fr⟩ else .err .invalidArgument
     | [] => .ok ⟨y, mo, d, h, mi, sec, fr⟩)
  | _ => .err .invalidArgument

/-- default error mark U+2610 in UTF-8 -/
def defaultMark8 : List Nat := [0xE2, 0x98, 0x90]

/-- text of width `w` as the bytes the parsers work on -/
def toBytes (w : Nat) (units : List Nat) : List Nat :=
  if w = 8 then units else (Utf.utf8Encode w .skip (some defaultMark8) units []).out

def parseIsoUtc (w : Nat) (units : List Nat) : Out Parts := parseIsoUtc8 (toBytes w units)

/-! ### string -> time_point -/

/-- the civil-to-days part of `To(string_view, time_point&)` (Hinnant's days_from_civil on int64) -/
def daysFromCivil (year mon day : Int) : Out Int := do
  let y ← i64.arith (year - (if mon ≤ 2 then 1 else 0))
  let m := mon.toNat
  let d := day.toNat
  let yy ← (if y ≥ 0 then .ok y else i64.arith (y - 399))
  let era := tdiv yy 400
  let e4 ← i64.arith (era * 400)
  let yo ← i64.arith (y - e4)
  let yoe := (u32.wrap yo).toNat
  let doy := (153 * (if m > 2 then m - 3 else m + 9) + 2) / 5 + d - 1
  let doe := yoe * 365 + yoe / 4 - yoe / 100 + doy
  if era > tdiv i64.hi 146097 ∨ era < tdiv i64.lo 146097 then .err .outOfRange else do
  let a ← i64.arith (era * 146097)
  let b ← i32.arith ((doe : Int) - 719468)
  i64.arith (a + b)

def tpFromParts (r : Rep) (p : Period) (u : Parts) : Out Int := do
  let days ← daysFromCivil u.year u.mon u.day
  let time := u.hour * 3600 + u.min * 60 + u.sec
  let tp ← safeAddTp r p 0 i64 pSec time
  let tp ← (match u.frac with
    | some ns => do
      let rd ← roundTo p ns
      safeAddTp r p tp i64 p rd
    | none => .ok tp)
  safeAddTp r p tp i64 pDay days

/-- `Convert::To<time_point<system_clock, duration<r, p>>>(text)` -/
def parseTp (r : Rep) (p : Period) (w : Nat) (units : List Nat) : Out Int := do
  let u ← parseIsoUtc w units
  tpFromParts r p u

/-- `Convert::To<tm>(text)`: (year, mon, mday, hour, min, sec) -/
def parseTm (w : Nat) (units : List Nat) : Out Parts := do
  let u ← parseIsoUtc w units
  if u.year > i32.hi ∨ u.year < i32.lo then .err .outOfRange else .ok { u with frac := none }

/-! ### printing -/

/-- decimal digits (ASCII codes) of a natural number, most significant first (`std::to_chars`, printf `%d`) -/
def digitsOf (n : Nat) : List Nat :=
  if h : n < 10 then [48 + n] else digitsOf (n / 10) ++ [48 + n % 10]
termination_by n
decreasing_by omega

/-- printf `%0<width>d` -/
def fmtInt (width : Nat) (v : Int) : List Nat :=
  let ds := digitsOf v.natAbs
  if v < 0 then 45 :: (List.replicate (width - 1 - ds.length) 48 ++ ds)
  else List.replicate (width - ds.length) 48 ++ ds

def fracDivs : List Nat := [100000000, 10000000, 1000000, 100000, 10000, 1000, 100, 10, 1]

/-- the digit loop of `PrintSecondsFractions`; `none` = nullptr (buffer exhausted) -/
def fracLoop (bufSize den : Nat) (fixed : Bool) : List Nat → Nat → List Nat → Option (List Nat)
  | [], _, cur => some cur
  | dv :: rest, val, cur =>
    if cur.length = bufSize then none
    else if dv < den then
      let n := val / dv
      let cur' := cur ++ [(n + 48) % 256]
      let val' := val - n * dv
      if !fixed ∧ val' = 0 then some cur' else fracLoop bufSize den fixed rest val' cur'
    else fracLoop bufSize den fixed rest val cur

/-- `PrintSecondsFractions(pos, end, duration<_, 1/den>(f), fixedWidth)` appended to `cur`; `none` = nullptr -/
def printFractions (bufSize : Nat) (cur : List Nat) (f : Int) (den : Nat) (fixed : Bool) : Option (List Nat) :=
  if f ≥ den then none
  else
    let cur := if cur.length ≠ bufSize then cur ++ [46] else cur
    fracLoop bufSize den fixed fracDivs f.natAbs cur

/-- `PrintIsoUtc(utc, buf, buf + bufSize)`; `frac` = (count, den) of `SecFractions` -/
def printIsoUtc (bufSize : Nat) (y mo d h mi s : Int) (frac : Option (Int × Nat)) : Out (List Nat) :=
  if bufSize = 0 then .err .runtimeError else
  let pre : List Nat := if y ≥ 10000 then [43] else []
  let body := fmtInt (if y < 0 then 5 else 4) y ++ 45 :: fmtInt 2 mo ++ 45 :: fmtInt 2 d ++ 84 :: fmtInt 2 h
              ++ 58 :: fmtInt 2 mi ++ 58 :: fmtInt 2 s
  if ¬ (0 < body.length ∧ body.length < bufSize - pre.length) then .err .runtimeError else
  let cur := pre ++ body
  match frac with
  | some (f, den) =>
    (match printFractions bufSize cur f den true with
     | none => .ub "null_pointer"
     | some cur' => if cur'.length ≠ bufSize then .ok (cur' ++ [90]) else .err .runtimeError)
  | none => if cur.length ≠ bufSize then .ok (cur ++ [90]) else .err .runtimeError

/-- unsigned 32-bit subtraction -/
def usub (a b : Nat) : Nat := (a + 4294967296 - b % 4294967296) % 4294967296

structure Civil where
  year : Int
  mon : Nat
  day : Nat
  deriving Repr, DecidableEq

/-- the days-to-civil part of `To(time_point, string&)` (Hinnant's civil_from_days); `days` has a signed type -/
def civilFromDays (days : Int) : Out Civil := do
  let z ← i64.arith (days + 719468)
  let zz ← (if z ≥ 0 then .ok z else i64.arith (z - 146096))
  let era := tdiv zz 146097
  let e1 ← i64.arith (era * 146097)
  let e2 ← i64.arith (z - e1)
  let doe := (u32.wrap e2).toNat
  let yoe := (usub (usub doe (doe / 1460) + doe / 36524) (doe / 146096)) % 4294967296 / 365
  let e4 ← i64.arith (era * 400)
  let y ← i64.arith ((yoe : Int) + e4)
  let doy := usub doe (usub ((365 * yoe + yoe / 4) % 4294967296) (yoe / 100))
  let mp := (5 * doy + 2) % 4294967296 / 153
  let d := (usub doy ((153 * mp + 2) % 4294967296 / 5) + 1) % 4294967296
  let m := if mp < 10 then mp + 3 else usub mp 9
  let year ← i64.arith (y + (if m ≤ 2 then 1 else 0))
  .ok ⟨year, m, d⟩

/-- `Convert::ToString(time_point<system_clock, duration<r, p>>(c))`, `r` signed -/
def printTp (r : Rep) (p : Period) (c : Int) : Out (List Nat) := do
  let days ← floorDur r pDay r p c
  let dp ← durationCast r p r pDay days
  let timePart ← r.arith (c - dp)
  let timeInSec ← floorDur i64 pSec r p timePart
  let cv ← civilFromDays days
  let hour := i32.wrap (tdiv timeInSec 3600)
  let mi := i32.wrap (tdiv (tmod timeInSec 3600) 60)
  let sec := i32.wrap (tmod timeInSec 60)
  if p.den > 1 then do
    let fr := commonRep2 i64 r
    let a ← durationCast fr p r p timePart
    let b ← durationCast fr p i64 pSec timeInSec
    let f ← fr.arith (a - b)
    printIsoUtc utcBufSize cv.year (i32.wrap cv.mon) (i32.wrap cv.day) hour mi sec (some (f, p.den))
  else
    printIsoUtc utcBufSize cv.year (i32.wrap cv.mon) (i32.wrap cv.day) hour mi sec none

/-- `Convert::ToString(tm)` -/
def printTm (y mo d h mi s : Int) : Out (List Nat) := printIsoUtc utcBufSize y mo d h mi s none

/-! ### duration -> string -/

structure DState where
  left : Int
  buf : List Nat
  deriving Repr

/-- `PrintDurationPart<duration<r, q>>(timeLeft, pos, endPos, suffix)` for `timeLeft : duration<r, p>` -/
def printDurPart (bufSize : Nat) (r : Rep) (p q : Period) (suffix : Nat) (isSec : Bool) (st : DState) : Out DState := do
  let tp ← durationCast r q r p st.left
  if tp ≠ 0 ∨ (isSec ∧ st.left ≠ 0) then
    let ds := digitsOf tp.natAbs
    if ds.length > bufSize - st.buf.length then .err .runtimeError else do
    let buf := st.buf ++ ds
    let back ← durationCast r p r q tp
    let left ← r.arith (st.left - back)
    let bl : Option (List Nat) × Int :=
      if isSec ∧ p.den > 1 then (printFractions bufSize buf left p.den false, 0) else (some buf, left)
    match bl.1 with
    | none => .err .runtimeError
    | some b => if b.length ≠ bufSize then .ok ⟨bl.2, b ++ [suffix]⟩ else .err .runtimeError
  else .ok st

/-- `Convert::ToString(duration<r, p>(c))` -/
def printDur (r : Rep) (p : Period) (c : Int) : Out (List Nat) :=
  if c = 0 then .ok [80, 84, 48, 83] else do
  let b0 : List Nat := (if c < 0 then [45] else []) ++ [80]
  let s1 ← printDurPart utcBufSize r p pDay 68 false ⟨c, b0⟩
  if s1.left ≠ 0 then do
    let s2 ← printDurPart utcBufSize r p pHour 72 false ⟨s1.left, s1.buf ++ [84]⟩
    let s3 ← printDurPart utcBufSize r p pMin 77 false s2
    let s4 ← printDurPart utcBufSize r p pSec 83 true s3
    .ok s4.buf
  else .ok s1.buf

/-! ### string -> duration -/

/-- the lambda `transformToDuration(value, type, isDatePart)`; `rs` is the type of `value` -/
def transformToDuration (r : Rep) (p : Period) (rs : Rep) (value : Int) (sym : Nat) (isDate : Bool) : Out Int :=
  if isDate then
    if sym = 87 then safeDurationCast r p rs pWeek value
    else if sym = 68 then safeDurationCast r p rs pDay value
    else .err .invalidArgument
  else
    if sym = 72 then safeDurationCast r p rs pHour value
    else if sym = 77 then safeDurationCast r p rs pMin value
    else if sym = 83 then safeDurationCast r p rs pSec value
    else .err .invalidArgument

/-- the lambda `parseNextPart`: (rest, new duration) -/
def parseNextPart (r : Rep) (p : Period) (s : List Nat) (isDate isNeg : Bool) (dur : Int) : Out (List Nat × Int) :=
  match s with
  | [] => .err .invalidArgument
  | c :: _ =>
    if ¬ isDigit c then .err .invalidArgument else
    match fromChars u64 s with
    | .range => .err .outOfRange
    | .invalid => .err .invalidArgument
    | .ok _ _ [] => .err .invalidArgument
    | .ok value _ (sym0 :: pos0) => do
      let (sym, pos, dur) ←
        (if sym0 = 46 ∨ sym0 = 44 then
          match parseFractions pos0 with
          | none => (.err .invalidArgument : Out (Nat × List Nat × Int))
          | some (ns, rest2) => do
            let (sym, pos) ← (match rest2 with
              | x :: rest3 => if x ≠ 83 then (.err .invalidArgument : Out (Nat × List Nat)) else .ok (x, rest3)
              | [] => .ok (sym0, rest2))
            let rd ← roundTo p (if isNeg then -ns else ns)
            let dur ← safeAddDur r p dur i64 p rd
            .ok (sym, pos, dur)
        else .ok (sym0, pos0, dur))
      if isNeg then
        if value ≤ 9223372036854775808 then do
          let t ← transformToDuration r p i64 (i64.wrap (u64.wrap (0 - value))) sym isDate
          let dur ← safeAddDur r p dur r p t
          .ok (pos, dur)
        else .err .outOfRange
      else do
        let t ← transformToDuration r p u64 value sym isDate
        let dur ← safeAddDur r p dur r p t
        .ok (pos, dur)

/-- the `do … while (pos != end && !isspace(*pos))` loop; every iteration consumes at least two
    characters, so `fuel = length + 1` is never exhausted -/
def parseDurLoop (r : Rep) (p : Period) (isNeg : Bool) : Nat → List Nat → Bool → Int → Out Int
  | 0, _, _, _ => .err .invalidArgument
  | fuel + 1, s, isDate, dur =>
    let ds : Bool × List Nat := match s with
      | 84 :: t => if isDate then (false, t) else (isDate, s)
      | _ => (isDate, s)
    match parseNextPart r p ds.2 ds.1 isNeg dur with
    | .err e => .err e
    | .ub k => .ub k
    | .ok (rest, dur') =>
      match rest with
      | [] => .ok dur'
      | c :: _ => if isSpace c then .ok dur' else parseDurLoop r p isNeg fuel rest ds.1 dur'

def parseDur8 (r : Rep) (p : Period) (s : List Nat) : Out Int :=
  if s.length ≥ 3 then
    match s with
    | [] => .err .invalidArgument
    | c :: t =>
      let isNeg := c == 45
      let s1 := if isNeg ∨ c = 43 then t else s
      match s1 with
      | 80 :: s2 =>
        if isNeg ∧ ¬ r.signed then .err .outOfRange
        else parseDurLoop r p isNeg (s2.length + 1) s2 true 0
      | _ => .err .invalidArgument
  else .err .invalidArgument

/-- `Convert::To<duration<r, p>>(text)` -/
def parseDur (r : Rep) (p : Period) (w : Nat) (units : List Nat) : Out Int := parseDur8 r p (toBytes w units)

/-! ### CBinTimestamp -/

/-- `To(time_point/duration<r, p>(c), CBinTimestamp&)`: (Seconds, Nanoseconds) -/
def toBinTimestamp (r : Rep) (p : Period) (c : Int) : Out (Int × Int) :=
  if p.den = 1 then do
    let s ← safeDurationCast i64 pSec r p c
    .ok (s, 0)
  else do
    let s ← durationCast i64 pSec r p c
    let back ← durationCast r p i64 pSec s
    let left ← r.arith (c - back)
    let ns64 ← durationCast i64 pNano r p left
    let ns := i32.wrap ns64
    if ns < 0 then do
      let s' ← i64.arith (s - 1)
      let ns' ← i32.arith (ns + 1000000000)
      .ok (s', ns')
    else .ok (s, ns)

/-- `To(CBinTimestamp(sec, ns), time_point<_, duration<r, p>>&)` -/
def tpFromBinTimestamp (r : Rep) (p : Period) (sec ns : Int) : Out Int := do
  let neg := decide (sec < 0) && decide (ns > 0)
  let sec' ← (if neg then i64.arith (sec + 1) else .ok sec)
  let ns' ← (if neg then i32.arith (ns - 1000000000) else .ok ns)
  let tp ← safeDurationCast r p i64 pSec sec'
  if ns' ≠ 0 then
    if p.num > 1 then .err .outOfRange
    else do
      let rd ← roundTo p ns'
      safeAddTp r p tp i64 p rd
  else .ok tp

/-- `To(CBinTimestamp(sec, ns), duration<r, p>&)` -/
def durFromBinTimestamp (r : Rep) (p : Period) (sec ns : Int) : Out Int := do
  let neg := decide (sec < 0) && decide (ns > 0)
  let sec' ← (if neg then i64.arith (sec + 1) else .ok sec)
  let ns' ← (if neg then i32.arith (ns - 1000000000) else .ok ns)
  let d ← safeDurationCast r p i64 pSec sec'
  if ns' ≠ 0 then
    if p.num > 1 then .err .outOfRange
    else do
      let rd ← roundTo p ns'
      safeAddDur r p d i64 p rd
  else .ok d

end BSVerif.Chrono
