/-
  Print → parse round trip at the level of the calendar fields: what `printTp` hands to the formatter, converted back by
  `tpFromParts`, is the original count.
-/
import BSVerif.Chrono.PrintTp
import BSVerif.Chrono.ParseTp
namespace BSVerif.Chrono
open BSVerif.Chrono.Hinnant BSVerif.Chrono.Calendar

theorem hms_recompose (S : Int) : S / 3600 * 3600 + S % 3600 / 60 * 60 + S % 60 = S := by omega

theorem i64_fits_of {x : Int} (h1 : -9223372036854775808 ≤ x) (h2 : x ≤ 9223372036854775807) : i64.fits x = true := by
  rw [fits_iff]; simp; omega

theorem daysFromCivil_civilOf {D : Int} (h1 : -9223000000000000000 ≤ D) (h2 : D ≤ 9223000000000000000) :
    daysFromCivil (civilOf D).year (civilOf D).mon (civilOf D).day = .ok D :=
  daysFromCivil_civilFromDays h1 h2 (civilFromDays_eq (by omega) (by omega))

/-- adding the time of day (whole seconds that are a multiple of the period) to the epoch -/
theorem addSec_i64 {p : Period} (hp : p.inTable) {S : Int} (h0 : 0 ≤ S) (h1 : S < 86400) (hex : S * p.den % p.num = 0) :
    safeAddTp i64 p 0 i64 pSec S = .ok (S * p.den / p.num) := by
  rw [safeAddTp_spec (Or.inl rfl) hp (Or.inl (Or.inl rfl)) (by decide) (i64_fits_of (by omega) (by omega)), ratio_sec hp]
  by_cases hs : S = 0
  · simp [hs]
  · have hb : -9223372036854775808 ≤ S * p.den / p.num ∧ S * p.den / p.num ≤ 9223372036854775807 := by
      rcases hp with rfl | rfl | rfl | rfl | rfl | rfl | rfl <;> simp [pNano, pMicro, pMilli, pSec, pMin, pHour, pDay] <;> omega
    simp only [hs, if_false, hex, cr3_i64_i64, Int.zero_add, i64_fits_of hb.1 hb.2, and_self, if_true]

/-- adding a non-negative fraction below one second that keeps the sum in range -/
theorem addFrac_i64 {p : Period} (hp : p.inTable) {tp F : Int} (htp : i64.fits tp = true) (h0 : 0 ≤ F) (h1 : F < 1000000000)
    (hsum : tp + F ≤ 9223372036854775807) :
    safeAddTp i64 p tp i64 p F = .ok (tp + F) := by
  rw [safeAddTp_spec (Or.inl rfl) hp (Or.inr rfl) htp (i64_fits_of (by omega) (by omega))]
  rw [fits_iff] at htp; simp at htp
  by_cases hf : F = 0
  · simp [hf]
  · simp only [hf, if_false, if_true, cr3_i64_i64]
    have e : F * ((1 : Nat) : Int) / ((1 : Nat) : Int) = F := by simp
    simp only [e, i64_fits_of (x := F) (by omega) (by omega), i64_fits_of (x := tp + F) (by omega) (by omega), and_self, and_true]
    simp

/-- adding the day count when both the midnight and the sum are representable -/
theorem addDays_i64 {p : Period} (hp : p.inTable) {tp D : Int} (htp : i64.fits tp = true) (hD : i64.fits D = true)
    (hmid : i64.fits (D * p.perDay) = true) (hsum : i64.fits (tp + D * p.perDay) = true) :
    safeAddTp i64 p tp i64 pDay D = .ok (tp + D * p.perDay) := by
  rw [safeAddTp_spec (Or.inl rfl) hp (Or.inl (Or.inr (Or.inr (Or.inr (Or.inl rfl))))) htp hD, ratio_day hp]
  by_cases hd : D = 0
  · simp [hd]
  · simp only [hd, if_false, cr3_i64_i64]
    have e : D * ((86400 * p.den / p.num : Nat) : Int) / ((1 : Nat) : Int) = D * p.perDay := by simp [Period.perDay]
    have e2 : D * ((86400 * p.den / p.num : Nat) : Int) % ((1 : Nat) : Int) = 0 := by simp
    simp only [e, e2, hmid, hsum, and_self, if_true]

/-- **Fields round trip.** Converting the fields that `printTp` hands to the formatter (print_tp_fields) back with
    `tpFromParts` (the parse side after the lexer) returns the original count, for every precision and every
    `Printable` int64 count whose day number is inside the calendar range of the parse side. -/
theorem fields_roundtrip {p : Period} (hp : p.inTable) {c : Int} (h : Printable p c)
    (hcal : -9223000000000000000 ≤ c / (p.perDay : Int) ∧ c / (p.perDay : Int) ≤ 9223000000000000000) :
    tpFromParts i64 p
      ⟨(civilOf (c / (p.perDay : Int))).year, (civilOf (c / (p.perDay : Int))).mon, (civilOf (c / (p.perDay : Int))).day,
       c % (p.perDay : Int) * p.num / p.den / 3600, c % (p.perDay : Int) * p.num / p.den % 3600 / 60, c % (p.perDay : Int) * p.num / p.den % 60,
       if p.den > 1 then some (c % (p.den : Int) * ((1000000000 / p.den : Nat) : Int)) else none⟩ = .ok c := by
  obtain ⟨h1, h2, h3, -⟩ := h
  rcases hp with rfl | rfl | rfl | rfl | rfl | rfl | rfl
  · -- pNano
    have hp : (pNano).inTable := Or.inl rfl
    simp only [Period.perDay, show (pNano).den = 1000000000 from rfl, show (pNano).num = 1 from rfl, show (86400 * 1000000000 / 1 : Nat) = 86400000000000 from rfl, show ((86400000000000 : Nat) : Int) = 86400000000000 from rfl,
      show ((1000000000 : Nat) : Int) = 1000000000 from rfl, show ((1 : Nat) : Int) = 1 from rfl, Int.mul_one, Int.ediv_one,
      show (1000000000 : Nat) > 1 from by decide, if_true, show (1000000000 / 1000000000 : Nat) = 1 from rfl, show ((1 : Nat) : Int) = 1 from rfl] at h1 h2 h3 hcal ⊢
    unfold tpFromParts
    simp only []
    rw [daysFromCivil_civilOf hcal.1 hcal.2]
    simp only [Out.bind_ok, hms_recompose]
    generalize hD : c / 86400000000000 = D at *
    generalize hS : c % 86400000000000 / 1000000000 = S
    have hSb : 0 ≤ S ∧ S < 86400 := by omega
    generalize hF : c % 1000000000 = F
    have hFb : 0 ≤ F ∧ F < 1000000000 := by omega
    have hc : c = D * 86400000000000 + S * 1000000000 + F := by omega
    have a1 := addSec_i64 hp hSb.1 hSb.2 (by simp [pNano])
    simp only [show (pNano).den = 1000000000 from rfl, show (pNano).num = 1 from rfl, show ((1000000000 : Nat) : Int) = 1000000000 from rfl, show ((1 : Nat) : Int) = 1 from rfl, Int.ediv_one] at a1
    rw [a1]
    simp only [Out.bind_ok]
    rw [roundTo_ns hFb.1 hFb.2]
    simp only [Out.bind_ok]
    rw [addFrac_i64 hp (i64_fits_of (by omega) (by omega)) hFb.1 (by omega) (by omega)]
    simp only [Out.bind_ok]
    have a3 := addDays_i64 hp (tp := S * 1000000000 + F) (D := D) (i64_fits_of (by omega) (by omega)) (i64_fits_of (by omega) (by omega))
      (by simp only [Period.perDay, show (pNano).den = 1000000000 from rfl, show (pNano).num = 1 from rfl]; exact i64_fits_of (by omega) (by omega))
      (by simp only [Period.perDay, show (pNano).den = 1000000000 from rfl, show (pNano).num = 1 from rfl]; exact i64_fits_of (by omega) (by omega))
    simp only [Period.perDay, show (pNano).den = 1000000000 from rfl, show (pNano).num = 1 from rfl, show (86400 * 1000000000 / 1 : Nat) = 86400000000000 from rfl, show ((86400000000000 : Nat) : Int) = 86400000000000 from rfl] at a3
    rw [a3]
    congr 1; omega
  · -- pMicro
    have hp : (pMicro).inTable := Or.inr (Or.inl rfl)
    simp only [Period.perDay, show (pMicro).den = 1000000 from rfl, show (pMicro).num = 1 from rfl, show (86400 * 1000000 / 1 : Nat) = 86400000000 from rfl, show ((86400000000 : Nat) : Int) = 86400000000 from rfl,
      show ((1000000 : Nat) : Int) = 1000000 from rfl, show ((1 : Nat) : Int) = 1 from rfl, Int.mul_one, Int.ediv_one,
      show (1000000 : Nat) > 1 from by decide, if_true, show (1000000000 / 1000000 : Nat) = 1000 from rfl, show ((1000 : Nat) : Int) = 1000 from rfl] at h1 h2 h3 hcal ⊢
    unfold tpFromParts
    simp only []
    rw [daysFromCivil_civilOf hcal.1 hcal.2]
    simp only [Out.bind_ok, hms_recompose]
    generalize hD : c / 86400000000 = D at *
    generalize hS : c % 86400000000 / 1000000 = S
    have hSb : 0 ≤ S ∧ S < 86400 := by omega
    generalize hF : c % 1000000 = F
    have hFb : 0 ≤ F ∧ F < 1000000 := by omega
    have hc : c = D * 86400000000 + S * 1000000 + F := by omega
    have a1 := addSec_i64 hp hSb.1 hSb.2 (by simp [pMicro])
    simp only [show (pMicro).den = 1000000 from rfl, show (pMicro).num = 1 from rfl, show ((1000000 : Nat) : Int) = 1000000 from rfl, show ((1 : Nat) : Int) = 1 from rfl, Int.ediv_one] at a1
    rw [a1]
    simp only [Out.bind_ok]
    rw [roundTo_us hFb.1 hFb.2]
    simp only [Out.bind_ok]
    rw [addFrac_i64 hp (i64_fits_of (by omega) (by omega)) hFb.1 (by omega) (by omega)]
    simp only [Out.bind_ok]
    have a3 := addDays_i64 hp (tp := S * 1000000 + F) (D := D) (i64_fits_of (by omega) (by omega)) (i64_fits_of (by omega) (by omega))
      (by simp only [Period.perDay, show (pMicro).den = 1000000 from rfl, show (pMicro).num = 1 from rfl]; exact i64_fits_of (by omega) (by omega))
      (by simp only [Period.perDay, show (pMicro).den = 1000000 from rfl, show (pMicro).num = 1 from rfl]; exact i64_fits_of (by omega) (by omega))
    simp only [Period.perDay, show (pMicro).den = 1000000 from rfl, show (pMicro).num = 1 from rfl, show (86400 * 1000000 / 1 : Nat) = 86400000000 from rfl, show ((86400000000 : Nat) : Int) = 86400000000 from rfl] at a3
    rw [a3]
    congr 1; omega
  · -- pMilli
    have hp : (pMilli).inTable := Or.inr (Or.inr (Or.inl rfl))
    simp only [Period.perDay, show (pMilli).den = 1000 from rfl, show (pMilli).num = 1 from rfl, show (86400 * 1000 / 1 : Nat) = 86400000 from rfl, show ((86400000 : Nat) : Int) = 86400000 from rfl,
      show ((1000 : Nat) : Int) = 1000 from rfl, show ((1 : Nat) : Int) = 1 from rfl, Int.mul_one, Int.ediv_one,
      show (1000 : Nat) > 1 from by decide, if_true, show (1000000000 / 1000 : Nat) = 1000000 from rfl, show ((1000000 : Nat) : Int) = 1000000 from rfl] at h1 h2 h3 hcal ⊢
    unfold tpFromParts
    simp only []
    rw [daysFromCivil_civilOf hcal.1 hcal.2]
    simp only [Out.bind_ok, hms_recompose]
    generalize hD : c / 86400000 = D at *
    generalize hS : c % 86400000 / 1000 = S
    have hSb : 0 ≤ S ∧ S < 86400 := by omega
    generalize hF : c % 1000 = F
    have hFb : 0 ≤ F ∧ F < 1000 := by omega
    have hc : c = D * 86400000 + S * 1000 + F := by omega
    have a1 := addSec_i64 hp hSb.1 hSb.2 (by simp [pMilli])
    simp only [show (pMilli).den = 1000 from rfl, show (pMilli).num = 1 from rfl, show ((1000 : Nat) : Int) = 1000 from rfl, show ((1 : Nat) : Int) = 1 from rfl, Int.ediv_one] at a1
    rw [a1]
    simp only [Out.bind_ok]
    rw [roundTo_ms hFb.1 hFb.2]
    simp only [Out.bind_ok]
    rw [addFrac_i64 hp (i64_fits_of (by omega) (by omega)) hFb.1 (by omega) (by omega)]
    simp only [Out.bind_ok]
    have a3 := addDays_i64 hp (tp := S * 1000 + F) (D := D) (i64_fits_of (by omega) (by omega)) (i64_fits_of (by omega) (by omega))
      (by simp only [Period.perDay, show (pMilli).den = 1000 from rfl, show (pMilli).num = 1 from rfl]; exact i64_fits_of (by omega) (by omega))
      (by simp only [Period.perDay, show (pMilli).den = 1000 from rfl, show (pMilli).num = 1 from rfl]; exact i64_fits_of (by omega) (by omega))
    simp only [Period.perDay, show (pMilli).den = 1000 from rfl, show (pMilli).num = 1 from rfl, show (86400 * 1000 / 1 : Nat) = 86400000 from rfl, show ((86400000 : Nat) : Int) = 86400000 from rfl] at a3
    rw [a3]
    congr 1; omega
  · -- pSec
    have hp : (pSec).inTable := Or.inr (Or.inr (Or.inr (Or.inl rfl)))
    simp only [Period.perDay, show (pSec).den = 1 from rfl, show (pSec).num = 1 from rfl, show (86400 * 1 / 1 : Nat) = 86400 from rfl,
      show ((86400 : Nat) : Int) = 86400 from rfl, show ((1 : Nat) : Int) = 1 from rfl, Int.mul_one, Int.ediv_one,
      show ¬ ((1 : Nat) > 1) from by decide, if_false] at h1 h2 h3 hcal ⊢
    unfold tpFromParts
    simp only []
    rw [daysFromCivil_civilOf hcal.1 hcal.2]
    simp only [Out.bind_ok, hms_recompose]
    generalize hD : c / 86400 = D at *
    generalize hT : c % 86400 = T
    have hTb : 0 ≤ T ∧ T < 86400 := by omega
    have hc : c = D * 86400 + T := by omega
    have a1 := addSec_i64 hp (S := T) (by omega) (by omega) (by simp [pSec])
    simp only [show (pSec).den = 1 from rfl, show (pSec).num = 1 from rfl, show ((1 : Nat) : Int) = 1 from rfl, Int.mul_one, Int.ediv_one] at a1
    rw [a1]
    simp only [Out.bind_ok]
    have a3 := addDays_i64 hp (tp := T) (D := D) (i64_fits_of (by omega) (by omega)) (i64_fits_of (by omega) (by omega))
      (by simp only [Period.perDay, show (pSec).den = 1 from rfl, show (pSec).num = 1 from rfl]; exact i64_fits_of (by omega) (by omega))
      (by simp only [Period.perDay, show (pSec).den = 1 from rfl, show (pSec).num = 1 from rfl]; exact i64_fits_of (by omega) (by omega))
    simp only [Period.perDay, show (pSec).den = 1 from rfl, show (pSec).num = 1 from rfl, show (86400 * 1 / 1 : Nat) = 86400 from rfl,
      show ((86400 : Nat) : Int) = 86400 from rfl] at a3
    rw [a3]
    congr 1; omega
  · -- pMin
    have hp : (pMin).inTable := Or.inr (Or.inr (Or.inr (Or.inr (Or.inl rfl))))
    simp only [Period.perDay, show (pMin).den = 1 from rfl, show (pMin).num = 60 from rfl, show (86400 * 1 / 60 : Nat) = 1440 from rfl, show ((1440 : Nat) : Int) = 1440 from rfl,
      show ((60 : Nat) : Int) = 60 from rfl, show ((1 : Nat) : Int) = 1 from rfl, Int.mul_one, Int.ediv_one,
      show ¬ ((1 : Nat) > 1) from by decide, if_false] at h1 h2 h3 hcal ⊢
    unfold tpFromParts
    simp only []
    rw [daysFromCivil_civilOf hcal.1 hcal.2]
    simp only [Out.bind_ok, hms_recompose]
    generalize hD : c / 1440 = D at *
    generalize hT : c % 1440 = T
    have hTb : 0 ≤ T ∧ T < 1440 := by omega
    have hc : c = D * 1440 + T := by omega
    have a1 := addSec_i64 hp (S := T * 60) (by omega) (by omega) (by simp [pMin] <;> omega)
    simp only [show (pMin).den = 1 from rfl, show (pMin).num = 60 from rfl, show ((60 : Nat) : Int) = 60 from rfl, show ((1 : Nat) : Int) = 1 from rfl, Int.mul_one] at a1
    rw [a1]
    simp only [Out.bind_ok]
    have e : T * 60 / 60 = T := by omega
    rw [e]
    have a3 := addDays_i64 hp (tp := T) (D := D) (i64_fits_of (by omega) (by omega)) (i64_fits_of (by omega) (by omega))
      (by simp only [Period.perDay, show (pMin).den = 1 from rfl, show (pMin).num = 60 from rfl]; exact i64_fits_of (by omega) (by omega))
      (by simp only [Period.perDay, show (pMin).den = 1 from rfl, show (pMin).num = 60 from rfl]; exact i64_fits_of (by omega) (by omega))
    simp only [Period.perDay, show (pMin).den = 1 from rfl, show (pMin).num = 60 from rfl, show (86400 * 1 / 60 : Nat) = 1440 from rfl, show ((1440 : Nat) : Int) = 1440 from rfl] at a3
    rw [a3]
    congr 1; omega
  · -- pHour
    have hp : (pHour).inTable := Or.inr (Or.inr (Or.inr (Or.inr (Or.inr (Or.inl rfl)))))
    simp only [Period.perDay, show (pHour).den = 1 from rfl, show (pHour).num = 3600 from rfl, show (86400 * 1 / 3600 : Nat) = 24 from rfl, show ((24 : Nat) : Int) = 24 from rfl,
      show ((3600 : Nat) : Int) = 3600 from rfl, show ((1 : Nat) : Int) = 1 from rfl, Int.mul_one, Int.ediv_one,
      show ¬ ((1 : Nat) > 1) from by decide, if_false] at h1 h2 h3 hcal ⊢
    unfold tpFromParts
    simp only []
    rw [daysFromCivil_civilOf hcal.1 hcal.2]
    simp only [Out.bind_ok, hms_recompose]
    generalize hD : c / 24 = D at *
    generalize hT : c % 24 = T
    have hTb : 0 ≤ T ∧ T < 24 := by omega
    have hc : c = D * 24 + T := by omega
    have a1 := addSec_i64 hp (S := T * 3600) (by omega) (by omega) (by simp [pHour] <;> omega)
    simp only [show (pHour).den = 1 from rfl, show (pHour).num = 3600 from rfl, show ((3600 : Nat) : Int) = 3600 from rfl, show ((1 : Nat) : Int) = 1 from rfl, Int.mul_one] at a1
    rw [a1]
    simp only [Out.bind_ok]
    have e : T * 3600 / 3600 = T := by omega
    rw [e]
    have a3 := addDays_i64 hp (tp := T) (D := D) (i64_fits_of (by omega) (by omega)) (i64_fits_of (by omega) (by omega))
      (by simp only [Period.perDay, show (pHour).den = 1 from rfl, show (pHour).num = 3600 from rfl]; exact i64_fits_of (by omega) (by omega))
      (by simp only [Period.perDay, show (pHour).den = 1 from rfl, show (pHour).num = 3600 from rfl]; exact i64_fits_of (by omega) (by omega))
    simp only [Period.perDay, show (pHour).den = 1 from rfl, show (pHour).num = 3600 from rfl, show (86400 * 1 / 3600 : Nat) = 24 from rfl, show ((24 : Nat) : Int) = 24 from rfl] at a3
    rw [a3]
    congr 1; omega
  · -- pDay
    have hp : (pDay).inTable := Or.inr (Or.inr (Or.inr (Or.inr (Or.inr (Or.inr rfl)))))
    simp only [Period.perDay, show (pDay).den = 1 from rfl, show (pDay).num = 86400 from rfl, show (86400 * 1 / 86400 : Nat) = 1 from rfl,
      show ((86400 : Nat) : Int) = 86400 from rfl, show ((1 : Nat) : Int) = 1 from rfl, Int.mul_one, Int.ediv_one, Int.emod_one, Int.zero_mul,
      show ¬ ((1 : Nat) > 1) from by decide, if_false] at h1 h2 h3 hcal ⊢
    unfold tpFromParts
    simp only []
    rw [daysFromCivil_civilOf hcal.1 hcal.2]
    simp only [Out.bind_ok]
    have a1 : safeAddTp i64 pDay 0 i64 pSec ((0 : Int) / 3600 * 3600 + (0 : Int) % 3600 / 60 * 60 + (0 : Int) % 60) = .ok 0 := by
      simp [safeAddTp]
    rw [a1]
    simp only [Out.bind_ok]
    have a3 := addDays_i64 hp (tp := 0) (D := c) (by decide) (i64_fits_of (by omega) (by omega))
      (by simp only [Period.perDay, show (pDay).den = 1 from rfl, show (pDay).num = 86400 from rfl]; exact i64_fits_of (by omega) (by omega))
      (by simp only [Period.perDay, show (pDay).den = 1 from rfl, show (pDay).num = 86400 from rfl]; exact i64_fits_of (by omega) (by omega))
    simp only [Period.perDay, show (pDay).den = 1 from rfl, show (pDay).num = 86400 from rfl, show (86400 * 1 / 86400 : Nat) = 1 from rfl,
      show ((1 : Nat) : Int) = 1 from rfl, Int.mul_one, Int.zero_add] at a3
    rw [a3]

end BSVerif.Chrono
