/-
  Contracts of `SafeDurationCast` over the periods of the table and of the two `SafeAddDuration`
  overloads (checked addition): exact result inside the target representation, or out_of_range.
-/
import BSVerif.Chrono.SafeCast

namespace BSVerif.Chrono

/-- target periods of the table -/
def Period.inTable (p : Period) : Prop :=
  p = pNano ∨ p = pMicro ∨ p = pMilli ∨ p = pSec ∨ p = pMin ∨ p = pHour ∨ p = pDay

/-- periods of the values the parsers feed in: seconds, minutes, hours, days, weeks -/
def Period.isSource (p : Period) : Prop := p = pSec ∨ p = pMin ∨ p = pHour ∨ p = pDay ∨ p = pWeek

/-- every ratio between a source period and a table period is `n/1` or `1/d` with `d` a table divisor -/
theorem ratio_shape {pt ps : Period} (hpt : pt.inTable) (hps : ps.isSource) :
    ((ratioDiv ps pt).2 = 1 ∧ 1 ≤ (ratioDiv ps pt).1) ∨ ((ratioDiv ps pt).1 = 1 ∧ Nat.isTableDivisor (ratioDiv ps pt).2) := by
  rcases hpt with rfl | rfl | rfl | rfl | rfl | rfl | rfl <;> rcases hps with rfl | rfl | rfl | rfl | rfl <;>
    simp [Nat.isTableDivisor, ratioDiv, pNano, pMicro, pMilli, pSec, pMin, pHour, pDay, pWeek]

/-- **SafeDurationCast contract**: the exact value `c·n/d` when it is an integer that fits `rt`, out_of_range otherwise. -/
theorem safeDurationCast_spec {rt rs : Rep} (hrt : rt.inTable) (hrs : rs.is64) {pt ps : Period} (hpt : pt.inTable) (hps : ps.isSource)
    {c : Int} (hc : rs.fits c = true) :
    safeDurationCast rt pt rs ps c = castSpec rt (ratioDiv ps pt).1 (ratioDiv ps pt).2 c := by
  unfold safeDurationCast
  by_cases hsame : rt = rs ∧ pt = ps
  · obtain ⟨rfl, rfl⟩ := hsame
    have : ratioDiv pt pt = (1, 1) := by
      rcases hpt with rfl | rfl | rfl | rfl | rfl | rfl | rfl <;> decide
    simp [hc, castSpec, this]
  · simp only [hsame, if_false]
    rcases ratio_shape hpt hps with ⟨h2, h1⟩ | ⟨h1, h2⟩
    · rw [h2]
      by_cases hn : (ratioDiv ps pt).1 = 1
      · rw [hn, safeCastCore_id hrt hrs hc]; simp [castSpec]
      · rw [safeCastCore_mul hrt hrs hc (by omega)]; simp [castSpec]
    · rw [h1, safeCastCore_div hrt hrs hc h2]; simp [castSpec]

/-- the checked addition at the end of `SafeAddDuration(time_point&, …)` -/
theorem safeAddTp_tail {r : Rep} (hr : r.inTable) {tp a : Int} (htp : r.fits tp = true) (ha : (commonRep3 i64 r).fits a = true) :
    (let op := commonRep3 i64 r
     let add : Out Int := do
       let n ← op.arith (op.wrap tp + a)
       .ok (r.wrap n)
     if a > 0 then do
       let m ← op.arith (r.hi - a)
       if op.wrap tp > m then .err .outOfRange else add
     else if a < 0 then do
       let m ← op.arith (r.lo - a)
       if op.wrap tp < m then .err .outOfRange else add
     else add) = if r.fits (tp + a) then .ok (tp + a) else .err .outOfRange := by
  rw [fits_iff] at htp ha
  rcases hr with rfl | rfl | rfl | rfl
  · simp_cast at htp ha ⊢
    have w := wrap_i64 tp
    have w' : i64.wrap tp = tp := by omega
    rw [w']
    have x := wrap_i64 (tp + a)
    finish_cast
  · simp only [cr3_i64_i32] at ha ⊢
    simp_cast at htp ha ⊢
    have w := wrap_i64 tp
    have w' : i64.wrap tp = tp := by omega
    rw [w']
    have x := wrap_i32 (tp + a)
    finish_cast
  · simp_cast at htp ha ⊢
    have w := wrap_u64 tp
    have w' : u64.wrap tp = tp := by omega
    rw [w']
    have x := wrap_u64 (tp + a)
    have y := wrap_u64 (u64.wrap (tp + a))
    have z := wrap_u64 (18446744073709551615 - a)
    have z' := wrap_u64 (0 - a)
    finish_cast
  · simp only [cr3_i64_i8] at ha ⊢
    simp_cast at htp ha ⊢
    have w := wrap_i64 tp
    have w' : i64.wrap tp = tp := by omega
    rw [w']
    have x := wrap_i8 (tp + a)
    finish_cast

/-- **SafeAddDuration(time_point) contract** for an int64 source: `tp + src·n/d` when the converted duration is exact,
    fits the 64-bit operation type (`common_type<int64_t, r>`) and the sum fits `r`; out_of_range otherwise; never
    undefined behaviour, never a wrapped sum. -/
theorem safeAddTp_spec {r : Rep} (hr : r.inTable) {p ps : Period} (hp : p.inTable) (hps : ps.isSource ∨ ps = p)
    {tp src : Int} (htp : r.fits tp = true) (hsrc : i64.fits src = true) :
    safeAddTp r p tp i64 ps src =
      if src = 0 then .ok tp else
      let nd := if ps = p then (1, 1) else ratioDiv ps p
      if (src * nd.1) % nd.2 = 0 ∧ (commonRep3 i64 r).fits (src * nd.1 / nd.2) ∧ r.fits (tp + src * nd.1 / nd.2)
      then .ok (tp + src * nd.1 / nd.2) else .err .outOfRange := by
  unfold safeAddTp
  by_cases h0 : src = 0
  · simp [h0]
  simp only [h0, if_false]
  have hop : (commonRep3 i64 r).inTable := by
    rcases hr with rfl | rfl | rfl | rfl <;> simp [Rep.inTable]
  -- the cast into the 64-bit operation type
  have hcast : safeDurationCast (commonRep3 i64 r) p i64 ps src =
      (let nd := if ps = p then (1, 1) else ratioDiv ps p
       if (src * nd.1) % nd.2 = 0 ∧ (commonRep3 i64 r).fits (src * nd.1 / nd.2) then .ok (src * nd.1 / nd.2) else .err .outOfRange) := by
    by_cases hpp : ps = p
    · subst hpp
      unfold safeDurationCast
      by_cases hsame : commonRep3 i64 r = i64 ∧ ps = ps
      · simp [hsame, hsrc]
      · have hr1 : ratioDiv ps ps = (1, 1) := by
          rcases hp with rfl | rfl | rfl | rfl | rfl | rfl | rfl <;> decide
        have hne : ¬ (commonRep3 i64 r = i64) := fun h => hsame ⟨h, rfl⟩
        simp only [hr1, safeCastCore_id hop (Or.inl rfl) hsrc]
        simp [hne]
    · rcases hps with hps | hps
      · rw [safeDurationCast_spec hop (Or.inl rfl) hp hps hsrc]
        simp [castSpec, hpp]
      · exact absurd hps hpp
  rw [hcast]
  generalize (if ps = p then ((1 : Nat), (1 : Nat)) else ratioDiv ps p) = nd
  simp only []
  by_cases hex : (src * (nd.1 : Int)) % (nd.2 : Int) = 0 ∧ (commonRep3 i64 r).fits (src * (nd.1 : Int) / (nd.2 : Int)) = true
  · simp only [hex, and_self, if_true, true_and]
    have := safeAddTp_tail hr htp hex.2
    simp only [] at this
    rw [this]
  · have hnot : ¬ ((src * (nd.1 : Int)) % (nd.2 : Int) = 0 ∧ (commonRep3 i64 r).fits (src * (nd.1 : Int) / (nd.2 : Int)) = true ∧
        r.fits (tp + src * (nd.1 : Int) / (nd.2 : Int)) = true) := fun ⟨h1, h2, _⟩ => hex ⟨h1, h2⟩
    simp only [hex, hnot, if_false]

/-- the checked addition at the end of `SafeAddDuration(duration&, …)` -/
theorem safeAddDur_tail {r : Rep} (hr : r.inTable) {target a : Int} (ht : r.fits target = true) (ha : r.fits a = true) :
    (if a > 0 then do
       let m ← r.arith (r.hi - a)
       if target > m then .err .outOfRange else r.arith (target + a)
     else if a < 0 then do
       let m ← r.arith (r.lo - a)
       if target < m then .err .outOfRange else r.arith (target + a)
     else r.arith (target + a)) = if r.fits (target + a) then .ok (target + a) else .err .outOfRange := by
  rw [fits_iff] at ht ha
  rcases hr with rfl | rfl | rfl | rfl
  · simp_cast at ht ha ⊢
    finish_cast
  · simp only [arith_i32] at ⊢
    simp_cast at ht ha ⊢
    finish_cast
  · simp_cast at ht ha ⊢
    have x := wrap_u64 (target + a)
    have z := wrap_u64 (18446744073709551615 - a)
    have z' := wrap_u64 (0 - a)
    finish_cast
  · simp only [arith_i8] at ⊢
    simp_cast at ht ha ⊢
    have x := wrap_i8 (target + a)
    have z := wrap_i8 (127 - a)
    have z' := wrap_i8 (-128 - a)
    finish_cast

/-- **SafeAddDuration(duration) contract**, source already of the target type: exact sum or out_of_range -/
theorem safeAddDur_same {r : Rep} (hr : r.inTable) (p : Period) {target src : Int} (ht : r.fits target = true) (hs : r.fits src = true) :
    safeAddDur r p target r p src =
      if src = 0 then .ok target else if r.fits (target + src) then .ok (target + src) else .err .outOfRange := by
  unfold safeAddDur
  by_cases h0 : src = 0
  · simp [h0]
  · simp only [h0, if_false, safeDurationCast, and_self, if_true, Out.bind_ok]
    exact safeAddDur_tail hr ht hs

/-- **SafeAddDuration(duration) contract**, int64 source of the same period (the rounded fraction): the source must
    fit the target type and so must the sum; out_of_range otherwise — never a wrapped value. -/
theorem safeAddDur_i64 {r : Rep} (hr : r.inTable) {p : Period} (hp : p.inTable) {target src : Int} (ht : r.fits target = true)
    (hs : i64.fits src = true) :
    safeAddDur r p target i64 p src =
      if src = 0 then .ok target else if r.fits src ∧ r.fits (target + src) then .ok (target + src) else .err .outOfRange := by
  unfold safeAddDur
  by_cases h0 : src = 0
  · simp [h0]
  · simp only [h0, if_false]
    have hcast : safeDurationCast r p i64 p src = if r.fits src then .ok src else .err .outOfRange := by
      unfold safeDurationCast
      by_cases hsame : r = i64 ∧ p = p
      · obtain ⟨rfl, -⟩ := hsame
        simp [hs]
      · have hr1 : ratioDiv p p = (1, 1) := by
          rcases hp with rfl | rfl | rfl | rfl | rfl | rfl | rfl <;> decide
        have hne : ¬ r = i64 := fun h => hsame ⟨h, rfl⟩
        simp only [hr1, safeCastCore_id hr (Or.inl rfl) hs]
        simp [hne]
    rw [hcast]
    by_cases hf : r.fits src = true
    · simp only [hf, if_true, Out.bind_ok, true_and]
      exact safeAddDur_tail hr ht hf
    · simp [hf]

end BSVerif.Chrono
