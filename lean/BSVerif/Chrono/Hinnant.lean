/-
  Correctness of the two calendar algorithms of convert_chrono.h (Howard Hinnant's civil_from_days /
  days_from_civil as transliterated in `Model.civilFromDays` / `Model.daysFromCivil`) against the
  closed-form calendar of `Calendar.lean`, for ALL day numbers / years (no bound other than the
  64-bit arithmetic of the code itself).

  Proof plan: reduce to one 400-year era (146097 days) — everything outside is linear arithmetic
  (`omega`); inside the era the year-of-era formula is monotone and is checked at both end points of
  each of the 400 years by one kernel computation; month/day from day-of-year is checked for the 366
  days of a (March-based) year by another.
-/
import BSVerif.Chrono.Model
import BSVerif.Chrono.Calendar

namespace BSVerif.Chrono.Hinnant
open BSVerif.Chrono BSVerif.Chrono.Calendar

/-! ### finite checks -/

def allLt (n : Nat) (f : Nat → Bool) : Bool :=
  match n with
  | 0 => true
  | k + 1 => f k && allLt k f

theorem allLt_spec {n : Nat} {f : Nat → Bool} (h : allLt n f = true) : ∀ k, k < n → f k = true := by
  induction n with
  | zero => intro k hk; omega
  | succ n ih =>
    intro k hk
    simp only [allLt, Bool.and_eq_true] at h
    by_cases hkn : k = n
    · subst hkn; exact h.1
    · exact ih h.2 k (by omega)

/-! ### year of era -/

/-- days from 1 March of era-year 0 to 1 March of era-year `y` -/
def yearStart (y : Nat) : Nat := 365 * y + y / 4 - y / 100 + y / 400

def nOf (doe : Nat) : Nat := doe - doe / 1460 + doe / 36524 - doe / 146096
def yoeOf (doe : Nat) : Nat := nOf doe / 365

theorem nOf_mono {a b : Nat} (h : a ≤ b) : nOf a ≤ nOf b := by
  unfold nOf; omega

theorem yoeOf_mono {a b : Nat} (h : a ≤ b) : yoeOf a ≤ yoeOf b :=
  Nat.div_le_div_right (nOf_mono h)

def endpointOk (y : Nat) : Bool :=
  Nat.beq (yoeOf (yearStart y)) y && Nat.beq (yoeOf (yearStart (y + 1) - 1)) y

theorem endpoints_ok : allLt 400 endpointOk = true := by decide +kernel

theorem endpoint_lo {y : Nat} (h : y < 400) : yoeOf (yearStart y) = y := by
  have := allLt_spec endpoints_ok y h
  simp only [endpointOk, Bool.and_eq_true] at this
  exact Nat.eq_of_beq_eq_true this.1

theorem endpoint_hi {y : Nat} (h : y < 400) : yoeOf (yearStart (y + 1) - 1) = y := by
  have := allLt_spec endpoints_ok y h
  simp only [endpointOk, Bool.and_eq_true] at this
  exact Nat.eq_of_beq_eq_true this.2

theorem yearStart_400 : yearStart 400 = 146097 := by decide

/-- the year-of-era formula brackets the day of era -/
theorem yoe_bracket {doe : Nat} (h : doe < 146097) :
    yoeOf doe < 400 ∧ yearStart (yoeOf doe) ≤ doe ∧ doe < yearStart (yoeOf doe + 1) := by
  have h399 : yoeOf doe ≤ 399 := by
    have := yoeOf_mono (show doe ≤ yearStart (399 + 1) - 1 by rw [yearStart_400]; omega)
    rw [endpoint_hi (by omega)] at this; exact this
  refine ⟨by omega, ?_, ?_⟩
  · by_cases h0 : yoeOf doe = 0
    · rw [h0]; simp [yearStart]
    · apply Classical.byContradiction; intro hc
      have hlt : doe ≤ yearStart ((yoeOf doe - 1) + 1) - 1 := by
        have : yoeOf doe - 1 + 1 = yoeOf doe := by omega
        rw [this]; omega
      have := yoeOf_mono hlt
      rw [endpoint_hi (by omega)] at this
      omega
  · apply Classical.byContradiction; intro hc
    have hge : yearStart (yoeOf doe + 1) ≤ doe := by omega
    by_cases h4 : yoeOf doe + 1 < 400
    · have := yoeOf_mono hge
      rw [endpoint_lo h4] at this
      omega
    · have : yoeOf doe + 1 = 400 := by omega
      rw [this, yearStart_400] at hge
      omega

/-- conversely, any era-year whose March-based year contains the day is the computed one -/
theorem yoe_unique {doe y : Nat} (hy : y < 400) (h1 : yearStart y ≤ doe) (h2 : doe < yearStart (y + 1)) : yoeOf doe = y := by
  have a := yoeOf_mono h1
  rw [endpoint_lo hy] at a
  have b := yoeOf_mono (show doe ≤ yearStart (y + 1) - 1 by omega)
  rw [endpoint_hi hy] at b
  omega

/-! ### month and day of a March-based year -/

/-- 0-based day inside the March-based year of the civil month/day: 1 March = 0, …, 29 February = 365 -/
def marchDoy (m d : Nat) : Nat := (if m ≥ 3 then cumDays m - 59 else cumDays m + 306) + (d - 1)

/-- month length with the leap-day flag of the February that ENDS the March-based year -/
def monthLenMarch (leapFeb : Bool) (m : Nat) : Nat :=
  if m = 2 then (if leapFeb then 29 else 28) else monthLen 1 m

/-- the month/day computation of the code: mp = (5*doy + 2)/153, d = doy − (153*mp+2)/5 + 1, m = mp<10 ? mp+3 : mp−9 -/
def codeMonthDay (doy : Nat) : Nat × Nat :=
  let mp := (5 * doy + 2) / 153
  (if mp < 10 then mp + 3 else mp - 9, doy - (153 * mp + 2) / 5 + 1)

def doyOk (leapFeb : Bool) (doy : Nat) : Bool :=
  let md := codeMonthDay doy
  Nat.ble 1 md.1 && Nat.ble md.1 12 && Nat.ble 1 md.2 && Nat.ble md.2 (monthLenMarch leapFeb md.1) && Nat.beq (marchDoy md.1 md.2) doy

theorem doy_ok_leap : allLt 366 (doyOk true) = true := by decide +kernel
theorem doy_ok_common : allLt 365 (doyOk false) = true := by decide +kernel

theorem codeMonthDay_spec (leapFeb : Bool) {doy : Nat} (h : doy < (if leapFeb then 366 else 365)) :
    1 ≤ (codeMonthDay doy).1 ∧ (codeMonthDay doy).1 ≤ 12 ∧ 1 ≤ (codeMonthDay doy).2 ∧
    (codeMonthDay doy).2 ≤ monthLenMarch leapFeb (codeMonthDay doy).1 ∧
    marchDoy (codeMonthDay doy).1 (codeMonthDay doy).2 = doy := by
  have key : doyOk leapFeb doy = true := by
    cases leapFeb
    · exact allLt_spec doy_ok_common doy (by simpa using h)
    · exact allLt_spec doy_ok_leap doy (by simpa using h)
  simp only [doyOk, Bool.and_eq_true] at key
  obtain ⟨⟨⟨⟨a, b⟩, c⟩, d⟩, e⟩ := key
  exact ⟨Nat.le_of_ble_eq_true a, Nat.le_of_ble_eq_true b, Nat.le_of_ble_eq_true c, Nat.le_of_ble_eq_true d,
    Nat.eq_of_beq_eq_true e⟩

/-- the inverse direction used by days_from_civil: doy = (153*(m>2 ? m−3 : m+9) + 2)/5 + d − 1 -/
def codeDoy (m d : Nat) : Nat := (153 * (if m > 2 then m - 3 else m + 9) + 2) / 5 + d - 1

theorem codeDoy_eq_marchDoy {m d : Nat} (hm1 : 1 ≤ m) (hm : m ≤ 12) (hd : 1 ≤ d) : codeDoy m d = marchDoy m d := by
  have : m = 1 ∨ m = 2 ∨ m = 3 ∨ m = 4 ∨ m = 5 ∨ m = 6 ∨ m = 7 ∨ m = 8 ∨ m = 9 ∨ m = 10 ∨ m = 11 ∨ m = 12 := by omega
  rcases this with rfl | rfl | rfl | rfl | rfl | rfl | rfl | rfl | rfl | rfl | rfl | rfl <;>
    simp [codeDoy, marchDoy, cumDays] <;> omega

/-! ### link to the closed-form calendar -/

theorem isLeap_iff (y : Int) : isLeap y = true ↔ (y % 4 = 0 ∧ y % 100 ≠ 0) ∨ y % 400 = 0 := by
  simp [isLeap]

/-- day number of a civil date written through its March-based era-year -/
theorem dayNumber_march (era : Int) {yoe : Nat} (hy : yoe < 400) {m d : Nat} (hm1 : 1 ≤ m) (hm : m ≤ 12) (hd : 1 ≤ d) :
    dayNumber ((yoe : Int) + era * 400 + (if m ≤ 2 then 1 else 0)) m d
      = era * 146097 + (yearStart yoe : Nat) + (marchDoy m d : Nat) - 719468 := by
  have hm' : m = 1 ∨ m = 2 ∨ m = 3 ∨ m = 4 ∨ m = 5 ∨ m = 6 ∨ m = 7 ∨ m = 8 ∨ m = 9 ∨ m = 10 ∨ m = 11 ∨ m = 12 := by omega
  rcases hm' with rfl | rfl | rfl | rfl | rfl | rfl | rfl | rfl | rfl | rfl | rfl | rfl <;>
    simp [dayNumber, daysBeforeYear, dayOfYear, marchDoy, yearStart, cumDays, epochOffset, isLeap_iff] <;>
    (try split) <;> omega

/-- length of the March-based era-year `yoe` -/
theorem yearStart_succ (era : Int) {yoe : Nat} (hy : yoe < 400) :
    yearStart (yoe + 1) = yearStart yoe + (if isLeap ((yoe : Int) + era * 400 + 1) then 366 else 365) := by
  unfold yearStart
  split
  · rename_i h; rw [isLeap_iff] at h; omega
  · rename_i h; rw [isLeap_iff] at h; omega

theorem monthLenMarch_eq (y : Int) {m : Nat} (hm1 : 1 ≤ m) (hm : m ≤ 12) :
    monthLenMarch (isLeap (y + 1)) m = monthLen (y + (if m ≤ 2 then 1 else 0)) m := by
  have hm' : m = 1 ∨ m = 2 ∨ m = 3 ∨ m = 4 ∨ m = 5 ∨ m = 6 ∨ m = 7 ∨ m = 8 ∨ m = 9 ∨ m = 10 ∨ m = 11 ∨ m = 12 := by omega
  rcases hm' with rfl | rfl | rfl | rfl | rfl | rfl | rfl | rfl | rfl | rfl | rfl | rfl <;> simp [monthLenMarch, monthLen]

/-! ### civil_from_days -/

/-- what `civilFromDays` computes when no 64-bit operation overflows (pure integer arithmetic, floor division) -/
def civilOf (z : Int) : Civil :=
  let z' := z + 719468
  let era := z' / 146097
  let doe := (z' - era * 146097).toNat
  let yoe := yoeOf doe
  let md := codeMonthDay (doe - yearStart yoe)
  ⟨(yoe : Int) + era * 400 + (if md.1 ≤ 2 then 1 else 0), md.1, md.2⟩

/-- **Calendar correctness of the day → civil direction, for every integer day number.** -/
theorem civilOf_correct (z : Int) :
    ValidDate (civilOf z).year (civilOf z).mon (civilOf z).day ∧
    dayNumber (civilOf z).year (civilOf z).mon (civilOf z).day = z := by
  simp only [civilOf]
  generalize hera : (z + 719468) / 146097 = era
  generalize hdoe : (z + 719468 - era * 146097).toNat = doe
  have hdoe_lt : doe < 146097 := by omega
  have hz : z + 719468 = era * 146097 + (doe : Int) := by omega
  obtain ⟨hy, hlo, hhi⟩ := yoe_bracket hdoe_lt
  generalize hyoe : yoeOf doe = yoe at hy hlo hhi
  have hlen := yearStart_succ era hy
  generalize hleap : isLeap ((yoe : Int) + era * 400 + 1) = leapFeb at hlen
  have hdoy : doe - yearStart yoe < (if leapFeb then 366 else 365) := by
    cases leapFeb <;> simp at hlen ⊢ <;> omega
  obtain ⟨m1, m12, d1, dlen, hmd⟩ := codeMonthDay_spec leapFeb hdoy
  generalize codeMonthDay (doe - yearStart yoe) = md at m1 m12 d1 dlen hmd
  have hdn := dayNumber_march era hy m1 m12 d1
  refine ⟨⟨m1, m12, d1, ?_⟩, ?_⟩
  · have := monthLenMarch_eq ((yoe : Int) + era * 400) m1 m12
    rw [hleap] at this
    rw [← this]; exact dlen
  · rw [hdn, hmd]; omega

end BSVerif.Chrono.Hinnant
