/-
  The fraction arithmetic of `ParseSecondFractions`: the double division is exact, so the parsed fraction is
  exactly `digits × 10^(9 − number of digits)` nanoseconds.
-/
import BSVerif.Chrono.Model
namespace BSVerif.Chrono

theorem double_div_core {v q r N X : Nat} (hv0 : 0 < v) (hrX : r * X = v * N) (hq1 : q * v ≤ X) (hq2 : X < v * (q + 1))
    (hrq : r ≤ q) (hqpos : 0 < q) : N / q = r := by
  apply Nat.le_antisymm
  · have : N / q < r + 1 := by
      rw [Nat.div_lt_iff_lt_mul hqpos]
      by_cases hr0 : r = 0
      · subst hr0
        have : v * N = 0 := by rw [← hrX]; simp
        rcases Nat.mul_eq_zero.mp this with h | h <;> omega
      · have h1 : N * v < (r * (q + 1)) * v := by
          calc N * v = r * X := by rw [hrX, Nat.mul_comm]
            _ < r * (v * (q + 1)) := Nat.mul_lt_mul_of_le_of_lt (Nat.le_refl _) hq2 (by omega)
            _ = (r * (q + 1)) * v := by rw [Nat.mul_comm v, Nat.mul_assoc]
        have h2 : N < r * (q + 1) := Nat.lt_of_mul_lt_mul_right h1
        have h3 : r * (q + 1) ≤ (r + 1) * q := by
          rw [Nat.mul_add, Nat.add_mul, Nat.mul_one, Nat.one_mul]; omega
        omega
    omega
  · rw [Nat.le_div_iff_mul_le hqpos]
    have h1 : (r * q) * v ≤ N * v := by
      calc (r * q) * v = r * (q * v) := Nat.mul_assoc _ _ _
        _ ≤ r * X := Nat.mul_le_mul_left _ hq1
        _ = N * v := by rw [hrX, Nat.mul_comm]
    exact Nat.le_of_mul_le_mul_right h1 hv0

/-- the double division of `ParseSecondFractions` is exact: `10^18 / (10^(n+9) / v) = v·10^(9−n)` -/
theorem fraction_scaling_exact {n v : Nat} (hn : n ≤ 9) (hv0 : 0 < v) (hv : v < 10 ^ n) :
    1000000000 * 1000000000 / (10 ^ n * 1000000000 / v) = v * 10 ^ (9 - n) := by
  have hpow : 10 ^ (9 - n) * 10 ^ n = 1000000000 := by
    rw [← Nat.pow_add, show 9 - n + n = 9 by omega]
  have hpos : 0 < 10 ^ (9 - n) := Nat.pow_pos (by omega)
  have hq9 : 1000000000 ≤ 10 ^ n * 1000000000 / v := by
    rw [Nat.le_div_iff_mul_le hv0, Nat.mul_comm]
    exact Nat.mul_le_mul_right _ (Nat.le_of_lt hv)
  have hr9 : v * 10 ^ (9 - n) < 1000000000 := by
    rw [← hpow, Nat.mul_comm (10 ^ (9 - n))]
    exact Nat.mul_lt_mul_of_lt_of_le' hv (Nat.le_refl _) hpos
  refine double_div_core (X := 10 ^ n * 1000000000) hv0 ?_ (Nat.div_mul_le_self _ v) (Nat.lt_mul_div_succ _ hv0) (by omega) (by omega)
  calc v * 10 ^ (9 - n) * (10 ^ n * 1000000000) = v * ((10 ^ (9 - n) * 10 ^ n) * 1000000000) := by
        simp only [Nat.mul_assoc]
    _ = v * (1000000000 * 1000000000) := by rw [hpow]

/-- a run of `n − k` more digits read after `acc` gives a value below `(acc + 1)·10^(n−k)` -/
theorem spanDigits_bound (s : List Nat) (acc k : Nat) :
    k ≤ (spanDigits s acc k).2.1 ∧ (spanDigits s acc k).1 < (acc + 1) * 10 ^ ((spanDigits s acc k).2.1 - k) := by
  induction s generalizing acc k with
  | nil => simp [spanDigits]
  | cons c t ih =>
    unfold spanDigits
    split
    · rename_i hd
      obtain ⟨h1, h2⟩ := ih (acc * 10 + (c - 48)) (k + 1)
      refine ⟨by omega, ?_⟩
      have hc : c - 48 ≤ 9 := by simp [isDigit] at hd; omega
      generalize (spanDigits t (acc * 10 + (c - 48)) (k + 1)).2.1 = n at *
      generalize (spanDigits t (acc * 10 + (c - 48)) (k + 1)).1 = v at *
      have e : n - k = (n - (k + 1)) + 1 := by omega
      rw [e, Nat.pow_succ]
      calc v < (acc * 10 + (c - 48) + 1) * 10 ^ (n - (k + 1)) := h2
        _ ≤ ((acc + 1) * 10) * 10 ^ (n - (k + 1)) := Nat.mul_le_mul_right _ (by omega)
        _ = (acc + 1) * (10 ^ (n - (k + 1)) * 10) := by rw [Nat.mul_assoc, Nat.mul_comm 10]
    · simp

/-- **`ParseSecondFractions` is exact**: a successful result is `0 ≤ ns < 10^9` and equals the digit run (value `v`,
    `n ≤ 9` digits, or any number of zeros) scaled to nanoseconds without any rounding. -/
theorem parseFractions_exact {s : List Nat} {ns : Int} {rest : List Nat} (h : parseFractions s = some (ns, rest)) :
    ∃ v n : Nat, fromChars u32 s = .ok v n rest ∧ ((v = 0 ∧ ns = 0) ∨ (0 < v ∧ n ≤ 9 ∧ ns = ((v * 10 ^ (9 - n) : Nat) : Int))) ∧
      0 ≤ ns ∧ ns < 1000000000 := by
  unfold parseFractions at h
  cases hf : fromChars u32 s with
  | invalid => rw [hf] at h; simp at h
  | range => rw [hf] at h; simp at h
  | ok v n r =>
    rw [hf] at h; simp only at h
    -- the value comes from spanDigits on an unsigned type
    have hv : 0 ≤ v ∧ v.toNat < 10 ^ n := by
      unfold fromChars at hf
      simp only [u32, Bool.false_eq_true, if_false] at hf
      split at hf
      · simp at hf
      · split at hf
        · injection hf with a b c
          have := spanDigits_bound s 0 0
          subst a b
          simp at this ⊢
          omega
        · simp at hf
    by_cases h0 : v = 0
    · simp only [h0, if_true] at h
      injection h with h; injection h with h1 h2
      subst h1 h2
      exact ⟨0, n, by rw [h0]; rfl, Or.inl ⟨rfl, rfl⟩, by omega, by omega⟩
    · simp only [h0, if_false] at h
      split at h
      · rename_i hn
        injection h with h; injection h with h1 h2
        subst h2
        have hvpos : 0 < v.toNat := by omega
        have key := fraction_scaling_exact (n := n) (v := v.toNat) (by omega) hvpos hv.2
        rw [key] at h1
        have hlt : v.toNat * 10 ^ (9 - n) < 1000000000 := by
          have hpow : 10 ^ (9 - n) * 10 ^ n = 1000000000 := by
            rw [← Nat.pow_add, show 9 - n + n = 9 by omega]
          rw [← hpow, Nat.mul_comm (10 ^ (9 - n))]
          exact Nat.mul_lt_mul_of_lt_of_le' hv.2 (Nat.le_refl _) (Nat.pow_pos (by omega))
        refine ⟨v.toNat, n, ?_, Or.inr ⟨hvpos, by omega, h1.symm⟩, by omega, by omega⟩
        congr 1; omega
      · simp at h

end BSVerif.Chrono
