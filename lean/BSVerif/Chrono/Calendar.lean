/-
  SPEC: the proleptic Gregorian calendar (ISO 8601:2004 §3.2.1 "The Gregorian calendar", C++20
  [time.cal] for the epoch: day 0 = 1970-01-01), written from the calendar rules, not from the C++.

    * a year is a leap year iff it is divisible by 4 and not by 100, or divisible by 400
      (astronomical year numbering: year 0 exists and is a leap year, year −1 precedes it);
    * month lengths 31 28/29 31 30 31 30 31 31 30 31 30 31;
    * `dayNumber y m d` = number of days from 1970-01-01 to y-m-d, by the closed form
      365·y + ⌊y/4⌋ − ⌊y/100⌋ + ⌊y/400⌋ for the days before 1 January of year `y`, plus the
      month table, minus the same quantity for 1970-01-01.

  `Int` division `/` is floor division for a positive divisor (Lean's `Int.ediv`).
-/
namespace BSVerif.Chrono.Calendar

def isLeap (y : Int) : Bool := (y % 4 == 0 && y % 100 != 0) || y % 400 == 0

def monthLen (y : Int) (m : Nat) : Nat :=
  match m with
  | 1 => 31 | 2 => if isLeap y then 29 else 28 | 3 => 31 | 4 => 30 | 5 => 31 | 6 => 30
  | 7 => 31 | 8 => 31 | 9 => 30 | 10 => 31 | 11 => 30 | 12 => 31 | _ => 0

/-- days of a common year before the first of month `m` -/
def cumDays (m : Nat) : Nat :=
  match m with
  | 1 => 0 | 2 => 31 | 3 => 59 | 4 => 90 | 5 => 120 | 6 => 151
  | 7 => 181 | 8 => 212 | 9 => 243 | 10 => 273 | 11 => 304 | 12 => 334 | _ => 0

/-- number of days from 0000-01-01 to 1 January of year `y` (negative before year 0) -/
def daysBeforeYear (y : Int) : Int :=
  365 * y + ((y + 3) / 4 - (y + 99) / 100 + (y + 399) / 400)

/-- 0-based day of the year of y-m-d -/
def dayOfYear (y : Int) (m d : Nat) : Nat :=
  cumDays m + (if m > 2 ∧ isLeap y then 1 else 0) + (d - 1)

/-- 0000-01-01 → 1970-01-01 -/
def epochOffset : Int := 719528

/-- days from 1970-01-01 to y-m-d -/
def dayNumber (y : Int) (m d : Nat) : Int :=
  daysBeforeYear y + dayOfYear y m d - epochOffset

structure ValidDate (y : Int) (m d : Nat) : Prop where
  m_lo : 1 ≤ m
  m_hi : m ≤ 12
  d_lo : 1 ≤ d
  d_hi : d ≤ monthLen y m

def validDate (y : Int) (m d : Nat) : Bool :=
  1 ≤ m && m ≤ 12 && 1 ≤ d && d ≤ monthLen y m

theorem validDate_iff {y : Int} {m d : Nat} : validDate y m d = true ↔ ValidDate y m d := by
  simp only [validDate, Bool.and_eq_true, decide_eq_true_eq]
  constructor
  · rintro ⟨⟨⟨a, b⟩, c⟩, e⟩; exact ⟨a, b, c, e⟩
  · rintro ⟨a, b, c, e⟩; exact ⟨⟨⟨a, b⟩, c⟩, e⟩

-- sanity: literal dates from the documentation / standards
example : dayNumber 1970 1 1 = 0 := by decide
example : dayNumber 2000 3 1 = 11017 := by decide
example : dayNumber 0 1 1 = -719528 := by decide
example : dayNumber (-1) 12 31 = -719529 := by decide
example : dayNumber 9999 12 31 = 2932896 := by decide
example : dayNumber 2262 4 11 = 106751 := by decide
example : isLeap 2000 = true ∧ isLeap 1900 = false ∧ isLeap 2024 = true ∧ isLeap 2023 = false ∧ isLeap 0 = true ∧ isLeap (-4) = true := by decide

end BSVerif.Chrono.Calendar
