/-
  Helper lemmas about the integer-type layer of the chrono Model (`Rep.wrap`, `Rep.arith`, `tdiv`)
  and the link between `Model.civilFromDays` / `Model.daysFromCivil` and the pure calendar functions
  of `Hinnant.lean`.
-/
import BSVerif.Chrono.Hinnant

namespace BSVerif.Chrono
open BSVerif.Chrono.Calendar BSVerif.Chrono.Hinnant

@[simp] theorem i64_lo : i64.lo = -9223372036854775808 := by decide
@[simp] theorem i64_hi : i64.hi = 9223372036854775807 := by decide
@[simp] theorem i32_lo : i32.lo = -2147483648 := by decide
@[simp] theorem i32_hi : i32.hi = 2147483647 := by decide

theorem i64_arith_ok {x : Int} (h1 : -9223372036854775808 ≤ x) (h2 : x ≤ 9223372036854775807) : i64.arith x = .ok x := by
  simp [Rep.arith, i64, Rep.fits, Rep.lo, Rep.hi]
  omega

theorem i32_arith_ok {x : Int} (h1 : -2147483648 ≤ x) (h2 : x ≤ 2147483647) : i32.arith x = .ok x := by
  simp [Rep.arith, i32, Rep.fits, Rep.lo, Rep.hi]
  omega

theorem u32_wrap_of_range {x : Int} (h1 : 0 ≤ x) (h2 : x < 4294967296) : u32.wrap x = x := by
  simp [Rep.wrap, u32]
  omega

theorem i32_wrap_of_range {x : Int} (h1 : -2147483648 ≤ x) (h2 : x ≤ 2147483647) : i32.wrap x = x := by
  simp [Rep.wrap, i32]
  omega

theorem usub_eq {a b : Nat} (hb : b ≤ a) (ha : a < 4294967296) : usub a b = a - b := by
  unfold usub; omega

theorem tdiv_of_nonneg {a : Int} (b : Nat) (h : 0 ≤ a) : tdiv a b = a / (b : Int) := by
  simp only [tdiv, h, if_true]
  rw [Int.natCast_ediv, Int.toNat_of_nonneg h]

theorem tdiv_of_neg {a : Int} (b : Nat) (h : a < 0) : tdiv a b = -((-a) / (b : Int)) := by
  have : ¬ 0 ≤ a := by omega
  simp only [tdiv, this, if_false]
  rw [Int.natCast_ediv, Int.toNat_of_nonneg (by omega)]

/-- **the Model's civil_from_days equals the pure function whenever `days + 719468` is representable** -/
theorem civilFromDays_eq {z : Int} (h1 : -9223372036854775808 ≤ z) (h2 : z ≤ 9223372036854775807 - 719468) :
    civilFromDays z = .ok (civilOf z) := by
  unfold civilFromDays
  rw [i64_arith_ok (x := z + 719468) (by omega) (by omega)]
  simp only [Out.bind_ok]
  generalize hz' : z + 719468 = z' at *
  have hera : (if z' ≥ 0 then Out.ok z' else i64.arith (z' - 146096)) = .ok (if z' ≥ 0 then z' else z' - 146096) := by
    split
    · rfl
    · exact i64_arith_ok (by omega) (by omega)
  rw [hera]; simp only [Out.bind_ok]
  have hq : tdiv (if z' ≥ 0 then z' else z' - 146096) 146097 = z' / 146097 := by
    split
    · rename_i h; rw [tdiv_of_nonneg _ h]; rfl
    · rename_i h; rw [tdiv_of_neg _ (by omega)]; omega
  rw [hq]
  generalize hera' : z' / 146097 = era
  rw [i64_arith_ok (x := era * 146097) (by omega) (by omega)]
  simp only [Out.bind_ok]
  rw [i64_arith_ok (x := z' - era * 146097) (by omega) (by omega)]
  simp only [Out.bind_ok]
  rw [u32_wrap_of_range (x := z' - era * 146097) (by omega) (by omega)]
  generalize hdoe : (z' - era * 146097).toNat = doe
  have hdoe_lt : doe < 146097 := by omega
  obtain ⟨hy, hlo, hhi⟩ := yoe_bracket hdoe_lt
  have hyoe : (usub (usub doe (doe / 1460) + doe / 36524) (doe / 146096)) % 4294967296 / 365 = yoeOf doe := by
    rw [usub_eq (a := doe) (b := doe / 1460) (by omega) (by omega), usub_eq (by omega) (by omega), Nat.mod_eq_of_lt (by omega)]
    rfl
  rw [hyoe]
  generalize hyv : yoeOf doe = yoe at hy hlo hhi
  rw [i64_arith_ok (x := era * 400) (by omega) (by omega)]
  simp only [Out.bind_ok]
  rw [i64_arith_ok (x := (yoe : Int) + era * 400) (by omega) (by omega)]
  simp only [Out.bind_ok]
  have hlen := yearStart_succ era hy
  have hys : yearStart yoe = 365 * yoe + yoe / 4 - yoe / 100 := by unfold yearStart; omega
  have hdoy : usub doe (usub ((365 * yoe + yoe / 4) % 4294967296) (yoe / 100)) = doe - yearStart yoe := by
    rw [Nat.mod_eq_of_lt (by omega), usub_eq (a := 365 * yoe + yoe / 4) (b := yoe / 100) (by omega) (by omega), usub_eq (by omega) (by omega), hys]
  rw [hdoy]
  have hdoy_lt : doe - yearStart yoe < 366 := by
    revert hlen; split <;> intro hlen <;> omega
  generalize hdv : doe - yearStart yoe = doy at hdoy_lt
  have hmp : (5 * doy + 2) % 4294967296 / 153 = (5 * doy + 2) / 153 := by rw [Nat.mod_eq_of_lt (by omega)]
  rw [hmp]
  generalize hmpv : (5 * doy + 2) / 153 = mp
  have hmp_lt : mp ≤ 11 := by omega
  have hd : (usub doy ((153 * mp + 2) % 4294967296 / 5) + 1) % 4294967296 = doy - (153 * mp + 2) / 5 + 1 := by
    rw [Nat.mod_eq_of_lt (a := 153 * mp + 2) (by omega), usub_eq (by omega) (by omega), Nat.mod_eq_of_lt (by omega)]
  have hm : (if mp < 10 then mp + 3 else usub mp 9) = (if mp < 10 then mp + 3 else mp - 9) := by
    split
    · rfl
    · rw [usub_eq (by omega) (by omega)]
  rw [hd, hm]
  have hmle : (if mp < 10 then mp + 3 else mp - 9) ≤ 12 := by split <;> omega
  rw [i64_arith_ok (by split <;> omega) (by split <;> omega)]
  simp only [Out.bind_ok, civilOf, hz', hera', hdoe, hyv, hdv, codeMonthDay, hmpv]

/-- **the Model's days_from_civil yields the closed-form day number** for every month/day in the lexical ranges
    and every year whose day number is inside the 64-bit range with the margin the code needs. -/
theorem daysFromCivil_eq {year mon day : Int} (hy1 : -25252000000000000 ≤ year) (hy2 : year ≤ 25252000000000000)
    (hm1 : 1 ≤ mon) (hm2 : mon ≤ 12) (hd1 : 1 ≤ day) (hd2 : day ≤ 31) :
    daysFromCivil year mon day = .ok (dayNumber year mon.toNat day.toNat) := by
  unfold daysFromCivil
  generalize hadj : (if mon ≤ 2 then (1 : Int) else 0) = adj
  have hadj01 : adj = 0 ∨ adj = 1 := by subst hadj; split <;> simp
  rw [i64_arith_ok (x := year - adj) (by omega) (by omega)]
  simp only [Out.bind_ok]
  generalize hyv : year - adj = y
  have hyy : (if y ≥ 0 then Out.ok y else i64.arith (y - 399)) = .ok (if y ≥ 0 then y else y - 399) := by
    split
    · rfl
    · exact i64_arith_ok (by omega) (by omega)
  rw [hyy]; simp only [Out.bind_ok]
  have hq : tdiv (if y ≥ 0 then y else y - 399) 400 = y / 400 := by
    split
    · rename_i h; rw [tdiv_of_nonneg _ h]; rfl
    · rename_i h; rw [tdiv_of_neg _ (by omega)]; omega
  rw [hq]
  generalize hera : y / 400 = era
  rw [i64_arith_ok (x := era * 400) (by omega) (by omega)]
  simp only [Out.bind_ok]
  rw [i64_arith_ok (x := y - era * 400) (by omega) (by omega)]
  simp only [Out.bind_ok]
  rw [u32_wrap_of_range (x := y - era * 400) (by omega) (by omega)]
  generalize hyoe : (y - era * 400).toNat = yoe
  have hyoe_lt : yoe < 400 := by omega
  have hguard : ¬ (era > tdiv i64.hi 146097 ∨ era < tdiv i64.lo 146097) := by
    have a : tdiv i64.hi 146097 = 63131837319416 := by decide
    have b : tdiv i64.lo 146097 = -63131837319416 := by decide
    rw [a, b]; omega
  simp only [hguard, if_false]
  rw [i64_arith_ok (x := era * 146097) (by omega) (by omega)]
  simp only [Out.bind_ok]
  generalize hm : mon.toNat = m
  generalize hd : day.toNat = d
  have hm1' : 1 ≤ m := by omega
  have hm2' : m ≤ 12 := by omega
  have hd1' : 1 ≤ d := by omega
  have hd2' : d ≤ 31 := by omega
  have hdoy : (153 * (if m > 2 then m - 3 else m + 9) + 2) / 5 + d - 1 = marchDoy m d := codeDoy_eq_marchDoy hm1' hm2' hd1'
  rw [hdoy]
  have hmd_lt : marchDoy m d ≤ 400 := by
    have : m = 1 ∨ m = 2 ∨ m = 3 ∨ m = 4 ∨ m = 5 ∨ m = 6 ∨ m = 7 ∨ m = 8 ∨ m = 9 ∨ m = 10 ∨ m = 11 ∨ m = 12 := by omega
    rcases this with rfl | rfl | rfl | rfl | rfl | rfl | rfl | rfl | rfl | rfl | rfl | rfl <;> simp [marchDoy, cumDays] <;> omega
  have hys : yoe * 365 + yoe / 4 - yoe / 100 = yearStart yoe := by unfold yearStart; omega
  rw [hys]
  have hys_lt : yearStart yoe ≤ 146097 := by unfold yearStart; omega
  rw [i32_arith_ok (by omega) (by omega)]
  simp only [Out.bind_ok]
  have hadj' : adj = (if m ≤ 2 then 1 else 0) := by
    subst hadj
    by_cases h : mon ≤ 2
    · have : m ≤ 2 := by omega
      simp [h, this]
    · have : ¬ m ≤ 2 := by omega
      simp [h, this]
  have hdn := dayNumber_march era hyoe_lt hm1' hm2' hd1'
  have hyear : year = (yoe : Int) + era * 400 + (if m ≤ 2 then 1 else 0) := by rw [← hadj']; omega
  rw [i64_arith_ok (by omega) (by omega), hyear, hdn]
  congr 1
  omega

/-- **days_from_civil inverts civil_from_days** on the Model, for every day number with the margin the code needs -/
theorem daysFromCivil_civilFromDays {z : Int} (h1 : -9223000000000000000 ≤ z) (h2 : z ≤ 9223000000000000000) {c : Civil}
    (h : civilFromDays z = .ok c) : daysFromCivil c.year c.mon c.day = .ok z := by
  rw [civilFromDays_eq (by omega) (by omega)] at h
  injection h with h
  subst h
  obtain ⟨⟨m1, m12, d1, dlen⟩, hdn⟩ := civilOf_correct z
  have hd31 : (civilOf z).day ≤ 31 := by
    refine Nat.le_trans dlen ?_
    generalize (civilOf z).mon = m at m1 m12
    have : m = 1 ∨ m = 2 ∨ m = 3 ∨ m = 4 ∨ m = 5 ∨ m = 6 ∨ m = 7 ∨ m = 8 ∨ m = 9 ∨ m = 10 ∨ m = 11 ∨ m = 12 := by omega
    rcases this with rfl | rfl | rfl | rfl | rfl | rfl | rfl | rfl | rfl | rfl | rfl | rfl <;> simp [monthLen] <;> split <;> omega
  have hyear : -25252000000000000 ≤ (civilOf z).year ∧ (civilOf z).year ≤ 25252000000000000 := by
    simp only [civilOf]
    have := (yoe_bracket (doe := (z + 719468 - (z + 719468) / 146097 * 146097).toNat) (by omega)).1
    constructor <;> split <;> omega
  have := daysFromCivil_eq hyear.1 hyear.2 (mon := (civilOf z).mon) (day := (civilOf z).day) (by omega) (by omega) (by omega) (by omega)
  rw [this]
  simp only [Int.toNat_natCast]
  rw [hdn]

end BSVerif.Chrono
