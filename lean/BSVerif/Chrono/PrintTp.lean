/-
  Printing of time points: for int64 counts the Model's `printTp` hands exactly the calendar fields of the instant
  (Spec calendar via `civilOf`, time of day, fraction) to `printIsoUtc`, without undefined behaviour, for every count
  that is not in one of the two recorded classes (first partial day of the range, int64 day counts next to the maximum).
-/
import BSVerif.Chrono.SafeAdd
namespace BSVerif.Chrono
open BSVerif.Chrono.Hinnant BSVerif.Generated.Chrono

theorem cr2_i64 : commonRep2 i64 i64 = i64 := by decide
theorem i64_wrap_small {x : Int} (h1 : -9223372036854775808 ≤ x) (h2 : x ≤ 9223372036854775807) : i64.wrap x = x := by
  have := wrap_i64 x; omega

/-- quotient/remainder uniqueness in the form needed below -/
theorem ediv_unique {c q : Int} {K : Nat} (hK : 0 < K) (h1 : q * K ≤ c) (h2 : c < q * K + K) : c / (K : Int) = q := by
  have hK' : (0 : Int) < (K : Int) := by omega
  have := (Int.ediv_emod_unique (a := c) (b := (K : Int)) (r := c - q * K) (q := q) hK').mpr
    ⟨by rw [Int.mul_comm]; omega, by omega, by omega⟩
  exact this.1

/-- `floor` between two int64 durations whose periods differ by the factor K (finer → coarser) is floor division -/
theorem floorDur_div {pt ps : Period} {K : Nat} (hK : 2 ≤ K) (r1 : ratioDiv ps pt = (1, K)) (r2 : ratioDiv pt ps = (K, 1))
    (r3 : ratioDiv ps ps = (1, 1)) (f : finer pt ps = ps) {c : Int} (h1 : -9223372036854775808 ≤ c) (h2 : c ≤ 9223372036854775807) :
    floorDur i64 pt i64 ps c = .ok (c / (K : Int)) := by
  have hK1 : ¬ K = 1 := by omega
  have hK0 : 0 < K := by omega
  simp only [floorDur, durationCast, r1, r2, r3, f, cr2_i64, cr3_i64_i64, if_true, hK1, if_false]
  rw [i64_wrap_small h1 h2]
  obtain ⟨t1, t2⟩ := tdiv_mul_bounds c hK0
  have hd1 := Int.ediv_mul_le c (show (K : Int) ≠ 0 by omega)
  have hd2 := Int.lt_ediv_add_one_mul_self c (show (0 : Int) < K by omega)
  rw [Int.add_mul] at hd2
  -- |t| ≤ |c|
  generalize hT : tdiv c K = T at *
  have s1 : 0 ≤ T → 0 ≤ T * K ∧ T ≤ T * K := fun h => by
    have a := Int.mul_nonneg h (show (0 : Int) ≤ K by omega)
    have b := Int.mul_le_mul_of_nonneg_left (show (1 : Int) ≤ K by omega) h
    omega
  have s2 : T ≤ 0 → T * K ≤ 0 ∧ T * K ≤ T := fun h => by
    have a := Int.mul_nonneg (show 0 ≤ -T by omega) (show (0 : Int) ≤ K by omega)
    have b := Int.mul_le_mul_of_nonneg_left (show (1 : Int) ≤ K by omega) (show 0 ≤ -T by omega)
    simp only [Int.neg_mul, Int.mul_one] at a b
    omega
  have hTK : -9223372036854775808 ≤ T * K ∧ T * K ≤ 9223372036854775807 := by
    by_cases hc : 0 ≤ c
    · have := t1 hc; have := s1 this.2.2; omega
    · have := t2 (by omega); have := s2 this.2.2; omega
  have hTb : -9223372036854775808 ≤ T ∧ T ≤ 9223372036854775807 := by
    by_cases h : 0 ≤ T
    · have := s1 h; omega
    · have := s2 (by omega); omega
  simp only [Out.bind_ok]
  rw [i64_wrap_small hTb.1 hTb.2, i64_wrap_small hTb.1 hTb.2, i64_arith_ok hTK.1 hTK.2]
  simp only [Out.bind_ok]
  rw [i64_wrap_small hTK.1 hTK.2]
  by_cases hgt : T * K > c
  · simp only [hgt, if_true]
    have hc : c < 0 := by
      apply Classical.byContradiction; intro h
      have := t1 (by omega); omega
    have := t2 hc
    have hq : c / (K : Int) = T - 1 := ediv_unique hK0 (by rw [Int.sub_mul]; omega) (by rw [Int.sub_mul]; omega)
    rw [i64_arith_ok (by omega) (by omega), hq]
  · simp only [hgt, if_false]
    have hq : c / (K : Int) = T := by
      by_cases hc : 0 ≤ c
      · have := t1 hc; exact ediv_unique hK0 (by omega) (by omega)
      · have := t2 (by omega); exact ediv_unique hK0 (by omega) (by omega)
    rw [hq]


theorem tdiv_small {a : Int} {b : Nat} (h : 0 ≤ a) : tdiv a b = a / (b : Int) := tdiv_of_nonneg b h

theorem hms_fields {S : Int} (h0 : 0 ≤ S) (h1 : S < 86400) :
    i32.wrap (tdiv S 3600) = S / 3600 ∧ i32.wrap (tdiv (tmod S 3600) 60) = S % 3600 / 60 ∧ i32.wrap (tmod S 60) = S % 60 := by
  refine ⟨?_, ?_, ?_⟩
  · rw [tdiv_small h0]; exact i32_wrap_of_range (by omega) (by omega)
  · have : tmod S 3600 = S % 3600 := by unfold tmod; rw [tdiv_small h0]; omega
    rw [this, tdiv_small (by omega)]; exact i32_wrap_of_range (by omega) (by omega)
  · have : tmod S 60 = S % 60 := by unfold tmod; rw [tdiv_small h0]; omega
    rw [this]; exact i32_wrap_of_range (by omega) (by omega)

theorem civil_md_wrap (D : Int) :
    i32.wrap ((civilOf D).mon : Int) = (civilOf D).mon ∧ i32.wrap ((civilOf D).day : Int) = (civilOf D).day := by
  obtain ⟨⟨m1, m12, d1, dlen⟩, -⟩ := civilOf_correct D
  have : (civilOf D).day ≤ 31 := by
    refine Nat.le_trans dlen ?_
    generalize (civilOf D).mon = m at m1 m12
    have : m = 1 ∨ m = 2 ∨ m = 3 ∨ m = 4 ∨ m = 5 ∨ m = 6 ∨ m = 7 ∨ m = 8 ∨ m = 9 ∨ m = 10 ∨ m = 11 ∨ m = 12 := by omega
    rcases this with rfl | rfl | rfl | rfl | rfl | rfl | rfl | rfl | rfl | rfl | rfl | rfl <;> simp [Calendar.monthLen] <;> split <;> omega
  exact ⟨i32_wrap_of_range (by omega) (by omega), i32_wrap_of_range (by omega) (by omega)⟩

theorem printTp_ns {c : Int} (h1 : -9223372036854775808 ≤ c) (h2 : c ≤ 9223372036854775807)
    (hfd : -9223372036854775808 ≤ c / 86400000000000 * 86400000000000) :
    printTp i64 pNano c =
      printIsoUtc utcBufSize (civilOf (c / 86400000000000)).year (civilOf (c / 86400000000000)).mon (civilOf (c / 86400000000000)).day
        (c % 86400000000000 / 1000000000 / 3600) (c % 86400000000000 / 1000000000 % 3600 / 60) (c % 86400000000000 / 1000000000 % 60)
        (some (c % 1000000000, 1000000000)) := by
  have r1 : ratioDiv pNano pDay = (1, 86400000000000) := by decide
  have r2 : ratioDiv pDay pNano = (86400000000000, 1) := by decide
  have r3 : ratioDiv pNano pNano = (1, 1) := by decide
  have r4 : ratioDiv pNano pSec = (1, 1000000000) := by decide
  have r5 : ratioDiv pSec pNano = (1000000000, 1) := by decide
  have f1 : finer pDay pNano = pNano := by decide
  have f2 : finer pSec pNano = pNano := by decide
  unfold printTp
  rw [floorDur_div (K := 86400000000000) (by omega) r1 r2 r3 f1 h1 h2]
  simp only [Out.bind_ok, show ((86400000000000 : Nat) : Int) = 86400000000000 from rfl]
  generalize hD : c / 86400000000000 = D at *
  simp only [durationCast, r2, cr3_i64_i64, if_true, show ¬ ((86400000000000 : Nat) = 1) by decide, if_false,
    show ((86400000000000 : Nat) : Int) = 86400000000000 from rfl]
  have hDb : -106752 ≤ D ∧ D ≤ 106751 := by omega
  rw [i64_wrap_small (x := D) (by omega) (by omega), i64_arith_ok (x := D * 86400000000000) (by omega) (by omega)]
  simp only [Out.bind_ok]
  rw [i64_wrap_small (x := D * 86400000000000) (by omega) (by omega)]
  have htp : c - D * 86400000000000 = c % 86400000000000 := by omega
  rw [show i64.arith (c - D * 86400000000000) = .ok (c % 86400000000000) by rw [htp]; exact i64_arith_ok (by omega) (by omega)]
  simp only [Out.bind_ok]
  generalize hT : c % 86400000000000 = T at *
  have hTb : 0 ≤ T ∧ T < 86400000000000 := by omega
  rw [floorDur_div (K := 1000000000) (by omega) r4 r5 r3 f2 (by omega) (by omega)]
  simp only [Out.bind_ok, show ((1000000000 : Nat) : Int) = 1000000000 from rfl]
  rw [civilFromDays_eq (by omega) (by omega)]
  simp only [Out.bind_ok]
  generalize hS : T / 1000000000 = S at *
  have hSb : 0 ≤ S ∧ S < 86400 := by omega
  obtain ⟨e1, e2, e3⟩ := hms_fields hSb.1 hSb.2
  rw [e1, e2, e3]
  have hden : (pNano).den = 1000000000 := rfl
  simp only [hden, show (1000000000 : Nat) > 1 by decide, if_true, cr2_i64, cr3_i64_i64, r3, r5, if_true,
    show ¬ ((1000000000 : Nat) = 1) by decide, if_false, show ((1000000000 : Nat) : Int) = 1000000000 from rfl]
  rw [i64_wrap_small (x := T) (by omega) (by omega)]
  simp only [Out.bind_ok]
  rw [i64_wrap_small (x := S) (by omega) (by omega), i64_arith_ok (x := S * 1000000000) (by omega) (by omega)]
  simp only [Out.bind_ok]
  rw [i64_wrap_small (x := S * 1000000000) (by omega) (by omega)]
  have hf : T - S * 1000000000 = c % 1000000000 := by omega
  rw [show i64.arith (T - S * 1000000000) = .ok (c % 1000000000) by rw [hf]; exact i64_arith_ok (by omega) (by omega)]
  simp only [Out.bind_ok]
  rw [(civil_md_wrap D).1, (civil_md_wrap D).2]

theorem printTp_us {c : Int} (h1 : -9223372036854775808 ≤ c) (h2 : c ≤ 9223372036854775807)
    (hfd : -9223372036854775808 ≤ c / 86400000000 * 86400000000) :
    printTp i64 pMicro c =
      printIsoUtc utcBufSize (civilOf (c / 86400000000)).year (civilOf (c / 86400000000)).mon (civilOf (c / 86400000000)).day
        (c % 86400000000 / 1000000 / 3600) (c % 86400000000 / 1000000 % 3600 / 60) (c % 86400000000 / 1000000 % 60)
        (some (c % 1000000, 1000000)) := by
  have r1 : ratioDiv pMicro pDay = (1, 86400000000) := by decide
  have r2 : ratioDiv pDay pMicro = (86400000000, 1) := by decide
  have r3 : ratioDiv pMicro pMicro = (1, 1) := by decide
  have r4 : ratioDiv pMicro pSec = (1, 1000000) := by decide
  have r5 : ratioDiv pSec pMicro = (1000000, 1) := by decide
  have f1 : finer pDay pMicro = pMicro := by decide
  have f2 : finer pSec pMicro = pMicro := by decide
  unfold printTp
  rw [floorDur_div (K := 86400000000) (by omega) r1 r2 r3 f1 h1 h2]
  simp only [Out.bind_ok, show ((86400000000 : Nat) : Int) = 86400000000 from rfl]
  generalize hD : c / 86400000000 = D at *
  simp only [durationCast, r2, cr3_i64_i64, if_true, show ¬ ((86400000000 : Nat) = 1) by decide, if_false,
    show ((86400000000 : Nat) : Int) = 86400000000 from rfl]
  have hDb : -106751992 ≤ D ∧ D ≤ 106751991 := by omega
  rw [i64_wrap_small (x := D) (by omega) (by omega), i64_arith_ok (x := D * 86400000000) (by omega) (by omega)]
  simp only [Out.bind_ok]
  rw [i64_wrap_small (x := D * 86400000000) (by omega) (by omega)]
  have htp : c - D * 86400000000 = c % 86400000000 := by omega
  rw [show i64.arith (c - D * 86400000000) = .ok (c % 86400000000) by rw [htp]; exact i64_arith_ok (by omega) (by omega)]
  simp only [Out.bind_ok]
  generalize hT : c % 86400000000 = T at *
  have hTb : 0 ≤ T ∧ T < 86400000000 := by omega
  rw [floorDur_div (K := 1000000) (by omega) r4 r5 r3 f2 (by omega) (by omega)]
  simp only [Out.bind_ok, show ((1000000 : Nat) : Int) = 1000000 from rfl]
  rw [civilFromDays_eq (by omega) (by omega)]
  simp only [Out.bind_ok]
  generalize hS : T / 1000000 = S at *
  have hSb : 0 ≤ S ∧ S < 86400 := by omega
  obtain ⟨e1, e2, e3⟩ := hms_fields hSb.1 hSb.2
  rw [e1, e2, e3]
  have hden : (pMicro).den = 1000000 := rfl
  simp only [hden, show (1000000 : Nat) > 1 by decide, if_true, cr2_i64, cr3_i64_i64, r3, r5, if_true,
    show ¬ ((1000000 : Nat) = 1) by decide, if_false, show ((1000000 : Nat) : Int) = 1000000 from rfl]
  rw [i64_wrap_small (x := T) (by omega) (by omega)]
  simp only [Out.bind_ok]
  rw [i64_wrap_small (x := S) (by omega) (by omega), i64_arith_ok (x := S * 1000000) (by omega) (by omega)]
  simp only [Out.bind_ok]
  rw [i64_wrap_small (x := S * 1000000) (by omega) (by omega)]
  have hf : T - S * 1000000 = c % 1000000 := by omega
  rw [show i64.arith (T - S * 1000000) = .ok (c % 1000000) by rw [hf]; exact i64_arith_ok (by omega) (by omega)]
  simp only [Out.bind_ok]
  rw [(civil_md_wrap D).1, (civil_md_wrap D).2]

theorem printTp_ms {c : Int} (h1 : -9223372036854775808 ≤ c) (h2 : c ≤ 9223372036854775807)
    (hfd : -9223372036854775808 ≤ c / 86400000 * 86400000) :
    printTp i64 pMilli c =
      printIsoUtc utcBufSize (civilOf (c / 86400000)).year (civilOf (c / 86400000)).mon (civilOf (c / 86400000)).day
        (c % 86400000 / 1000 / 3600) (c % 86400000 / 1000 % 3600 / 60) (c % 86400000 / 1000 % 60)
        (some (c % 1000, 1000)) := by
  have r1 : ratioDiv pMilli pDay = (1, 86400000) := by decide
  have r2 : ratioDiv pDay pMilli = (86400000, 1) := by decide
  have r3 : ratioDiv pMilli pMilli = (1, 1) := by decide
  have r4 : ratioDiv pMilli pSec = (1, 1000) := by decide
  have r5 : ratioDiv pSec pMilli = (1000, 1) := by decide
  have f1 : finer pDay pMilli = pMilli := by decide
  have f2 : finer pSec pMilli = pMilli := by decide
  unfold printTp
  rw [floorDur_div (K := 86400000) (by omega) r1 r2 r3 f1 h1 h2]
  simp only [Out.bind_ok, show ((86400000 : Nat) : Int) = 86400000 from rfl]
  generalize hD : c / 86400000 = D at *
  simp only [durationCast, r2, cr3_i64_i64, if_true, show ¬ ((86400000 : Nat) = 1) by decide, if_false,
    show ((86400000 : Nat) : Int) = 86400000 from rfl]
  have hDb : -106751991168 ≤ D ∧ D ≤ 106751991167 := by omega
  rw [i64_wrap_small (x := D) (by omega) (by omega), i64_arith_ok (x := D * 86400000) (by omega) (by omega)]
  simp only [Out.bind_ok]
  rw [i64_wrap_small (x := D * 86400000) (by omega) (by omega)]
  have htp : c - D * 86400000 = c % 86400000 := by omega
  rw [show i64.arith (c - D * 86400000) = .ok (c % 86400000) by rw [htp]; exact i64_arith_ok (by omega) (by omega)]
  simp only [Out.bind_ok]
  generalize hT : c % 86400000 = T at *
  have hTb : 0 ≤ T ∧ T < 86400000 := by omega
  rw [floorDur_div (K := 1000) (by omega) r4 r5 r3 f2 (by omega) (by omega)]
  simp only [Out.bind_ok, show ((1000 : Nat) : Int) = 1000 from rfl]
  rw [civilFromDays_eq (by omega) (by omega)]
  simp only [Out.bind_ok]
  generalize hS : T / 1000 = S at *
  have hSb : 0 ≤ S ∧ S < 86400 := by omega
  obtain ⟨e1, e2, e3⟩ := hms_fields hSb.1 hSb.2
  rw [e1, e2, e3]
  have hden : (pMilli).den = 1000 := rfl
  simp only [hden, show (1000 : Nat) > 1 by decide, if_true, cr2_i64, cr3_i64_i64, r3, r5, if_true,
    show ¬ ((1000 : Nat) = 1) by decide, if_false, show ((1000 : Nat) : Int) = 1000 from rfl]
  rw [i64_wrap_small (x := T) (by omega) (by omega)]
  simp only [Out.bind_ok]
  rw [i64_wrap_small (x := S) (by omega) (by omega), i64_arith_ok (x := S * 1000) (by omega) (by omega)]
  simp only [Out.bind_ok]
  rw [i64_wrap_small (x := S * 1000) (by omega) (by omega)]
  have hf : T - S * 1000 = c % 1000 := by omega
  rw [show i64.arith (T - S * 1000) = .ok (c % 1000) by rw [hf]; exact i64_arith_ok (by omega) (by omega)]
  simp only [Out.bind_ok]
  rw [(civil_md_wrap D).1, (civil_md_wrap D).2]

theorem printTp_s {c : Int} (h1 : -9223372036854775808 ≤ c) (h2 : c ≤ 9223372036854775807)
    (hfd : -9223372036854775808 ≤ c / 86400 * 86400) :
    printTp i64 pSec c =
      printIsoUtc utcBufSize (civilOf (c / 86400)).year (civilOf (c / 86400)).mon (civilOf (c / 86400)).day
        (c % 86400 / 3600) (c % 86400 % 3600 / 60) (c % 86400 % 60) none := by
  have r1 : ratioDiv pSec pDay = (1, 86400) := by decide
  have r2 : ratioDiv pDay pSec = (86400, 1) := by decide
  have r3 : ratioDiv pSec pSec = (1, 1) := by decide
  have f1 : finer pDay pSec = pSec := by decide
  have f2 : finer pSec pSec = pSec := by decide
  unfold printTp
  rw [floorDur_div (K := 86400) (by omega) r1 r2 r3 f1 h1 h2]
  simp only [Out.bind_ok, show ((86400 : Nat) : Int) = 86400 from rfl]
  generalize hD : c / 86400 = D at *
  simp only [durationCast, r2, cr3_i64_i64, if_true, show ¬ ((86400 : Nat) = 1) by decide, if_false,
    show ((86400 : Nat) : Int) = 86400 from rfl]
  rw [i64_wrap_small (x := D) (by omega) (by omega), i64_arith_ok (x := D * 86400) (by omega) (by omega)]
  simp only [Out.bind_ok]
  rw [i64_wrap_small (x := D * 86400) (by omega) (by omega)]
  have htp : c - D * 86400 = c % 86400 := by omega
  rw [show i64.arith (c - D * 86400) = .ok (c % 86400) by rw [htp]; exact i64_arith_ok (by omega) (by omega)]
  simp only [Out.bind_ok]
  generalize hT : c % 86400 = T at *
  have hTb : 0 ≤ T ∧ T < 86400 := by omega
  simp only [floorDur, durationCast, r3, f2, cr2_i64, cr3_i64_i64, if_true, Out.bind_ok]
  simp only [i64_wrap_small (x := T) (by omega) (by omega), Int.lt_irrefl, gt_iff_lt, if_false, Out.bind_ok]
  rw [civilFromDays_eq (by omega) (by omega)]
  simp only [Out.bind_ok]
  obtain ⟨e1, e2, e3⟩ := hms_fields hTb.1 hTb.2
  rw [e1, e2, e3]
  have hden : ¬ (pSec.den > 1) := by decide
  simp only [hden, if_false]
  rw [(civil_md_wrap D).1, (civil_md_wrap D).2]

theorem printTp_min {c : Int} (h1 : -9223372036854775808 ≤ c) (h2 : c ≤ 9223372036854775807)
    (hfd : -9223372036854775808 ≤ c / 1440 * 1440) :
    printTp i64 pMin c =
      printIsoUtc utcBufSize (civilOf (c / 1440)).year (civilOf (c / 1440)).mon (civilOf (c / 1440)).day
        (c % 1440 * 60 / 3600) (c % 1440 * 60 % 3600 / 60) (c % 1440 * 60 % 60) none := by
  have r1 : ratioDiv pMin pDay = (1, 1440) := by decide
  have r2 : ratioDiv pDay pMin = (1440, 1) := by decide
  have r3 : ratioDiv pMin pMin = (1, 1) := by decide
  have r4 : ratioDiv pMin pSec = (60, 1) := by decide
  have r5 : ratioDiv pSec pSec = (1, 1) := by decide
  have f1 : finer pDay pMin = pMin := by decide
  have f2 : finer pSec pMin = pSec := by decide
  unfold printTp
  rw [floorDur_div (K := 1440) (by omega) r1 r2 r3 f1 h1 h2]
  simp only [Out.bind_ok, show ((1440 : Nat) : Int) = 1440 from rfl]
  generalize hD : c / 1440 = D at *
  simp only [durationCast, r2, cr3_i64_i64, if_true, show ¬ ((1440 : Nat) = 1) by decide, if_false,
    show ((1440 : Nat) : Int) = 1440 from rfl]
  rw [i64_wrap_small (x := D) (by omega) (by omega), i64_arith_ok (x := D * 1440) (by omega) (by omega)]
  simp only [Out.bind_ok]
  rw [i64_wrap_small (x := D * 1440) (by omega) (by omega)]
  have htp : c - D * 1440 = c % 1440 := by omega
  rw [show i64.arith (c - D * 1440) = .ok (c % 1440) by rw [htp]; exact i64_arith_ok (by omega) (by omega)]
  simp only [Out.bind_ok]
  generalize hT : c % 1440 = T at *
  have hTb : 0 ≤ T ∧ T < 1440 := by omega
  simp only [floorDur, durationCast, r4, r5, f2, cr2_i64, cr3_i64_i64, if_true, show ¬ ((60 : Nat) = 1) by decide, if_false,
    show ((60 : Nat) : Int) = 60 from rfl]
  rw [i64_wrap_small (x := T) (by omega) (by omega), i64_arith_ok (x := T * 60) (by omega) (by omega)]
  simp only [Out.bind_ok, i64_wrap_small (x := T * 60) (by omega) (by omega), Int.lt_irrefl, gt_iff_lt, if_false]
  rw [civilFromDays_eq (by omega) (by omega)]
  simp only [Out.bind_ok]
  obtain ⟨e1, e2, e3⟩ := hms_fields (S := T * 60) (by omega) (by omega)
  rw [e1, e2, e3]
  have hden : ¬ ((pMin).den > 1) := by decide
  simp only [hden, if_false]
  rw [(civil_md_wrap D).1, (civil_md_wrap D).2]

theorem printTp_h {c : Int} (h1 : -9223372036854775808 ≤ c) (h2 : c ≤ 9223372036854775807)
    (hfd : -9223372036854775808 ≤ c / 24 * 24) :
    printTp i64 pHour c =
      printIsoUtc utcBufSize (civilOf (c / 24)).year (civilOf (c / 24)).mon (civilOf (c / 24)).day
        (c % 24 * 3600 / 3600) (c % 24 * 3600 % 3600 / 60) (c % 24 * 3600 % 60) none := by
  have r1 : ratioDiv pHour pDay = (1, 24) := by decide
  have r2 : ratioDiv pDay pHour = (24, 1) := by decide
  have r3 : ratioDiv pHour pHour = (1, 1) := by decide
  have r4 : ratioDiv pHour pSec = (3600, 1) := by decide
  have r5 : ratioDiv pSec pSec = (1, 1) := by decide
  have f1 : finer pDay pHour = pHour := by decide
  have f2 : finer pSec pHour = pSec := by decide
  unfold printTp
  rw [floorDur_div (K := 24) (by omega) r1 r2 r3 f1 h1 h2]
  simp only [Out.bind_ok, show ((24 : Nat) : Int) = 24 from rfl]
  generalize hD : c / 24 = D at *
  simp only [durationCast, r2, cr3_i64_i64, if_true, show ¬ ((24 : Nat) = 1) by decide, if_false,
    show ((24 : Nat) : Int) = 24 from rfl]
  rw [i64_wrap_small (x := D) (by omega) (by omega), i64_arith_ok (x := D * 24) (by omega) (by omega)]
  simp only [Out.bind_ok]
  rw [i64_wrap_small (x := D * 24) (by omega) (by omega)]
  have htp : c - D * 24 = c % 24 := by omega
  rw [show i64.arith (c - D * 24) = .ok (c % 24) by rw [htp]; exact i64_arith_ok (by omega) (by omega)]
  simp only [Out.bind_ok]
  generalize hT : c % 24 = T at *
  have hTb : 0 ≤ T ∧ T < 24 := by omega
  simp only [floorDur, durationCast, r4, r5, f2, cr2_i64, cr3_i64_i64, if_true, show ¬ ((3600 : Nat) = 1) by decide, if_false,
    show ((3600 : Nat) : Int) = 3600 from rfl]
  rw [i64_wrap_small (x := T) (by omega) (by omega), i64_arith_ok (x := T * 3600) (by omega) (by omega)]
  simp only [Out.bind_ok, i64_wrap_small (x := T * 3600) (by omega) (by omega), Int.lt_irrefl, gt_iff_lt, if_false]
  rw [civilFromDays_eq (by omega) (by omega)]
  simp only [Out.bind_ok]
  obtain ⟨e1, e2, e3⟩ := hms_fields (S := T * 3600) (by omega) (by omega)
  rw [e1, e2, e3]
  have hden : ¬ ((pHour).den > 1) := by decide
  simp only [hden, if_false]
  rw [(civil_md_wrap D).1, (civil_md_wrap D).2]

theorem printTp_d {c : Int} (h1 : -9223372036854775808 ≤ c) (h2 : c ≤ 9223372036854775807 - 719468) :
    printTp i64 pDay c =
      printIsoUtc utcBufSize (civilOf c).year (civilOf c).mon (civilOf c).day 0 0 0 none := by
  have r3 : ratioDiv pDay pDay = (1, 1) := by decide
  have r4 : ratioDiv pDay pSec = (86400, 1) := by decide
  have r5 : ratioDiv pSec pSec = (1, 1) := by decide
  have f1 : finer pDay pDay = pDay := by decide
  have f2 : finer pSec pDay = pSec := by decide
  unfold printTp
  simp only [floorDur, durationCast, r3, r4, r5, f1, f2, cr2_i64, cr3_i64_i64, if_true, Out.bind_ok,
    show ¬ ((86400 : Nat) = 1) by decide, if_false, show ((86400 : Nat) : Int) = 86400 from rfl]
  simp only [i64_wrap_small (x := c) (by omega) (by omega), Int.lt_irrefl, gt_iff_lt, if_false, Out.bind_ok, Int.sub_self]
  rw [i64_arith_ok (x := 0) (by omega) (by omega)]
  simp only [Out.bind_ok, i64_wrap_small (x := 0) (by omega) (by omega), Int.zero_mul]
  rw [i64_arith_ok (x := 0) (by omega) (by omega)]
  simp only [Out.bind_ok, i64_wrap_small (x := 0) (by omega) (by omega), Int.lt_irrefl, gt_iff_lt, if_false]
  rw [civilFromDays_eq (by omega) (by omega)]
  simp only [Out.bind_ok]
  obtain ⟨e1, e2, e3⟩ := hms_fields (S := 0) (by omega) (by omega)
  rw [e1, e2, e3]
  have hden : ¬ (pDay.den > 1) := by decide
  simp only [hden, if_false]
  rw [(civil_md_wrap c).1, (civil_md_wrap c).2]
  simp

/-! ### `round` of a fraction that is already a multiple of the period is exact -/

theorem roundTo_ms {F : Int} (h0 : 0 ≤ F) (h1 : F < 1000) : roundTo pMilli (F * 1000000) = .ok F := by
  have r1 : ratioDiv pNano pMilli = (1, 1000000) := by decide
  have r2 : ratioDiv pMilli pNano = (1000000, 1) := by decide
  have r3 : ratioDiv pNano pNano = (1, 1) := by decide
  have f1 : finer pMilli pNano = pNano := by decide
  unfold roundTo
  rw [floorDur_div (K := 1000000) (by omega) r1 r2 r3 f1 (by omega) (by omega)]
  simp only [Out.bind_ok, show ((1000000 : Nat) : Int) = 1000000 from rfl]
  have hq : F * 1000000 / 1000000 = F := by omega
  rw [hq, i64_arith_ok (x := F + 1) (by omega) (by omega)]
  simp only [Out.bind_ok, durationCast, r2, cr3_i64_i64, if_true, show ¬ ((1000000 : Nat) = 1) by decide, if_false,
    show ((1000000 : Nat) : Int) = 1000000 from rfl]
  rw [i64_wrap_small (x := F) (by omega) (by omega), i64_arith_ok (x := F * 1000000) (by omega) (by omega)]
  simp only [Out.bind_ok, i64_wrap_small (x := F * 1000000) (by omega) (by omega), Int.sub_self]
  rw [i64_arith_ok (x := 0) (by omega) (by omega)]
  simp only [Out.bind_ok]
  rw [i64_wrap_small (x := F + 1) (by omega) (by omega), i64_arith_ok (x := (F + 1) * 1000000) (by omega) (by omega)]
  simp only [Out.bind_ok, i64_wrap_small (x := (F + 1) * 1000000) (by omega) (by omega)]
  rw [i64_arith_ok (x := (F + 1) * 1000000 - F * 1000000) (by omega) (by omega)]
  simp only [Out.bind_ok]
  have : ¬ (0 = (F + 1) * 1000000 - F * 1000000) := by omega
  have h2 : (0 : Int) < (F + 1) * 1000000 - F * 1000000 := by omega
  simp only [this, if_false, h2, if_true]

theorem roundTo_us {F : Int} (h0 : 0 ≤ F) (h1 : F < 1000000) : roundTo pMicro (F * 1000) = .ok F := by
  have r1 : ratioDiv pNano pMicro = (1, 1000) := by decide
  have r2 : ratioDiv pMicro pNano = (1000, 1) := by decide
  have r3 : ratioDiv pNano pNano = (1, 1) := by decide
  have f1 : finer pMicro pNano = pNano := by decide
  unfold roundTo
  rw [floorDur_div (K := 1000) (by omega) r1 r2 r3 f1 (by omega) (by omega)]
  simp only [Out.bind_ok, show ((1000 : Nat) : Int) = 1000 from rfl]
  have hq : F * 1000 / 1000 = F := by omega
  rw [hq, i64_arith_ok (x := F + 1) (by omega) (by omega)]
  simp only [Out.bind_ok, durationCast, r2, cr3_i64_i64, if_true, show ¬ ((1000 : Nat) = 1) by decide, if_false,
    show ((1000 : Nat) : Int) = 1000 from rfl]
  rw [i64_wrap_small (x := F) (by omega) (by omega), i64_arith_ok (x := F * 1000) (by omega) (by omega)]
  simp only [Out.bind_ok, i64_wrap_small (x := F * 1000) (by omega) (by omega), Int.sub_self]
  rw [i64_arith_ok (x := 0) (by omega) (by omega)]
  simp only [Out.bind_ok]
  rw [i64_wrap_small (x := F + 1) (by omega) (by omega), i64_arith_ok (x := (F + 1) * 1000) (by omega) (by omega)]
  simp only [Out.bind_ok, i64_wrap_small (x := (F + 1) * 1000) (by omega) (by omega)]
  rw [i64_arith_ok (x := (F + 1) * 1000 - F * 1000) (by omega) (by omega)]
  simp only [Out.bind_ok]
  have : ¬ (0 = (F + 1) * 1000 - F * 1000) := by omega
  have h2 : (0 : Int) < (F + 1) * 1000 - F * 1000 := by omega
  simp only [this, if_false, h2, if_true]

theorem roundTo_ns {F : Int} (h0 : 0 ≤ F) (h1 : F < 1000000000) : roundTo pNano F = .ok F := by
  have r3 : ratioDiv pNano pNano = (1, 1) := by decide
  have f1 : finer pNano pNano = pNano := by decide
  unfold roundTo
  simp only [floorDur, durationCast, r3, f1, cr2_i64, cr3_i64_i64, if_true, Out.bind_ok,
    i64_wrap_small (x := F) (by omega) (by omega), Int.lt_irrefl, gt_iff_lt, if_false]
  rw [i64_arith_ok (x := F + 1) (by omega) (by omega)]
  simp only [Out.bind_ok, Int.sub_self]
  rw [i64_arith_ok (x := 0) (by omega) (by omega)]
  simp only [Out.bind_ok, i64_wrap_small (x := F + 1) (by omega) (by omega)]
  rw [i64_arith_ok (x := F + 1 - F) (by omega) (by omega)]
  simp only [Out.bind_ok]
  have : ¬ (0 = F + 1 - F) := by omega
  have h2 : (0 : Int) < F + 1 - F := by omega
  simp only [this, if_false, h2, if_true]

/-- period units per day -/
def Period.perDay (p : Period) : Nat := 86400 * p.den / p.num

/-- the int64 counts outside the two recorded classes: the midnight before the instant is representable, and (for day
    precision) the day count is at least 719468 below the maximum -/
def Printable (p : Period) (c : Int) : Prop :=
  -9223372036854775808 ≤ c ∧ c ≤ 9223372036854775807 ∧
  -9223372036854775808 ≤ c / (p.perDay : Int) * p.perDay ∧ c / (p.perDay : Int) ≤ 9223372036854775807 - 719468

instance (p : Period) (c : Int) : Decidable (Printable p c) := by unfold Printable; infer_instance

theorem print_tp_fields {p : Period} (hp : p.inTable) {c : Int} (h : Printable p c) :
    printTp i64 p c =
      printIsoUtc utcBufSize (civilOf (c / (p.perDay : Int))).year (civilOf (c / (p.perDay : Int))).mon (civilOf (c / (p.perDay : Int))).day
        (c % (p.perDay : Int) * p.num / p.den / 3600) (c % (p.perDay : Int) * p.num / p.den % 3600 / 60) (c % (p.perDay : Int) * p.num / p.den % 60)
        (if p.den > 1 then some (c % (p.den : Int), p.den) else none) := by
  obtain ⟨h1, h2, h3, h4⟩ := h
  rcases hp with rfl | rfl | rfl | rfl | rfl | rfl | rfl
  · have := printTp_ns h1 h2 h3
    simpa [Period.perDay, pNano] using this
  · have := printTp_us h1 h2 h3
    simpa [Period.perDay, pMicro] using this
  · have := printTp_ms h1 h2 h3
    simpa [Period.perDay, pMilli] using this
  · have := printTp_s h1 h2 h3
    simpa [Period.perDay, pSec] using this
  · have := printTp_min h1 h2 h3
    simpa [Period.perDay, pMin] using this
  · have := printTp_h h1 h2 h3
    simpa [Period.perDay, pHour] using this
  · have := printTp_d h1 (by simpa [Period.perDay, pDay] using h4)
    simpa [Period.perDay, pDay] using this

end BSVerif.Chrono
