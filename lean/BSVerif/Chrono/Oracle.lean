/-
  ORACLE for C14/C15: judges an implementation answer for a chrono op directly against the Spec
  (Calendar + ISO grammar), independently of the Model.

  Reading of the properties made precise:
  * print (C14): the text must be in the documented OUTPUT form (Spec `isCanonical` for time points:
    sign exactly for years outside 0000…9999, ≥ 4 year digits, two-digit fields, 0/3/6/9 fraction
    digits for s-or-coarser/ms/us/ns; strict duration grammar for durations, '-' only for negative
    values) and must denote EXACTLY the instant/duration `count × period`.
  * parse (C15): for STRICT text the answer must be a count within half a unit of the denoted value
    ("only fractions of a second may be rounded": the whole-second part must be an exact multiple of
    the period), inside the target range; out_of_range exactly when no such count exists.
    LENIENT text may alternatively be rejected with invalid_argument. Any other text must be
    rejected with invalid_argument.
    Allowances (documented behaviour, not findings): out_of_range is also accepted when a single
    duration component is not a multiple of the target period, when a number in the text is ≥ 2^63
    ("contains too big number"), when a negative sign meets an unsigned target, and — for text
    that has to be rejected anyway — when it contains a number ≥ 2^31.
  * CBinTimestamp (C14): Seconds = ⌊t⌋, 0 ≤ Nanoseconds ≤ 999 999 999, exact; back conversion within
    half a unit; a non-zero fraction into a period coarser than a second may be rejected.

  Known-finding classes (see known_findings.json):
    chrono-first-day-of-range : instants earlier than the first midnight inside the representable
                                range (print: signed overflow; parse: out_of_range)
    chrono-int64-limit-ub     : signed overflow in the calendar arithmetic next to the int64 limits
-/
import BSVerif.Chrono.Model
import BSVerif.Chrono.Spec

namespace BSVerif.Chrono.Oracle
open BSVerif.Chrono BSVerif.Chrono.Spec BSVerif.Chrono.Calendar

inductive Verdict where
  | ok
  | known (cls : String)
  | bad (why : String)
  deriving Repr, DecidableEq

/-- structured implementation answer -/
inductive Impl (α : Type) where
  | ok (v : α)
  | err (e : Err)
  | crash
  | other
  deriving Repr

def clsFirstDay : String := "chrono-first-day-of-range"
def clsLimit : String := "chrono-int64-limit-ub"

/-- number of period units in a day -/
def unitsPerDay (p : Period) : Int := 86400 * p.den / p.num

/-- the instant `c` lies before the first midnight that is inside the range of `r` -/
def firstDay (r : Rep) (p : Period) (c : Int) : Bool :=
  decide (c / unitsPerDay p * unitsPerDay p < r.lo)

/-- documented number of fraction digits of the output at period `p` -/
def fracDigitsOf (p : Period) : Nat :=
  if p.den = 1000 then 3 else if p.den = 1000000 then 6 else if p.den = 1000000000 then 9 else 0

/-! ### printing -/

def judgePrintTp (r : Rep) (p : Period) (c : Int) (impl : Impl (List Nat)) : Verdict :=
  match impl with
  | .ok text =>
    (match recogniseDateTime text with
     | none => .bad "output is not an ISO date-time of the proleptic Gregorian calendar"
     | some t =>
       if ¬ t.isCanonical (fracDigitsOf p) then .bad "output is not in the documented format"
       else if (t.wholeSeconds * 10 ^ t.fracDigits + t.fracNum) * p.den = c * p.num * 10 ^ t.fracDigits then .ok
       else .bad "output denotes another instant")
  | .crash =>
    if firstDay r p c then .known clsFirstDay
    else if r = i64 ∧ p = pDay ∧ c > i64.hi - 719468 then .known clsLimit
    else .bad "crash"
  | .err _ => .bad "exception while printing a representable time point"
  | .other => .bad "unparsable answer"

def judgePrintTm (y mo d h mi s : Int) (impl : Impl (List Nat)) : Verdict :=
  -- only well-formed broken-down times are judged (the generator produces no others)
  if ¬ (validDate y mo.toNat d.toNat ∧ 0 ≤ mo ∧ 0 ≤ d ∧ 0 ≤ h ∧ h ≤ 23 ∧ 0 ≤ mi ∧ mi ≤ 59 ∧ 0 ≤ s ∧ s ≤ 59) then
    (match impl with | .crash => .bad "crash" | _ => .ok)
  else
  match impl with
  | .ok text =>
    (match recogniseDateTime text with
     | none => .bad "output is not an ISO date-time"
     | some t =>
       if ¬ t.isCanonical 0 then .bad "output is not in the documented format"
       else if t.year = y ∧ (t.month : Int) = mo ∧ (t.day : Int) = d ∧ (t.hour : Int) = h ∧ (t.minute : Int) = mi ∧ (t.second : Int) = s then .ok
       else .bad "output denotes other fields")
  | .crash => .bad "crash"
  | .err _ => .bad "exception while printing a valid tm"
  | .other => .bad "unparsable answer"

def judgePrintDur (_r : Rep) (p : Period) (c : Int) (impl : Impl (List Nat)) : Verdict :=
  match impl with
  | .ok text =>
    (match recogniseDuration text with
     | none => .bad "output is not an ISO duration"
     | some d =>
       if ¬ d.isStrict then .bad "output is not in the documented PnWnDTnHnMnS form"
       else if d.neg ∧ c ≥ 0 then .bad "negative sign on a non-negative duration"
       else
         let mag : Int := (d.wholeSeconds * 10 ^ d.maxFracDigits + d.fracSum : Nat)
         let v : Int := if d.neg then -mag else mag
         if v * p.den = c * p.num * 10 ^ d.maxFracDigits then .ok else .bad "output denotes another duration")
  | .crash => .bad "crash"
  | .err _ => .bad "exception while printing a representable duration"
  | .other => .bad "unparsable answer"

/-! ### parsing -/

/-- does the byte text contain a decimal number ≥ `bound`? -/
def hasBigNumber (bound : Nat) : List Nat → Bool
  | [] => false
  | c :: t =>
    if isDigitC c then
      match takeDigits (c :: t) 0 0 with
      | (v, _, _) => decide (v ≥ bound) || hasBigNumber bound t
    else hasBigNumber bound t

/-- judgement of a count against an exact value  sgn·(whole + fnum/10^fd) seconds  with tolerance `k` half-units -/
structure Target where
  whole : Int          -- signed whole seconds
  fnum : Int           -- signed fraction numerator
  fd : Nat             -- fraction denominator 10^fd
  k : Nat              -- number of separately rounded fractions (tolerance k/2 units)

/-- |c·num·10^fd − (whole·10^fd + fnum)·den| · 2 ≤ k · num · 10^fd -/
def Target.accepts (t : Target) (p : Period) (c : Int) : Bool :=
  let x := (t.whole * 10 ^ t.fd + t.fnum) * p.den
  let y := c * p.num * 10 ^ t.fd
  decide ((y - x).natAbs * 2 ≤ max t.k 1 * p.num * 10 ^ t.fd)

def Target.wholeRepresentable (t : Target) (p : Period) : Bool := (t.whole * p.den) % p.num == 0

/-- the counts that could be accepted (a small window around the exact value) -/
def Target.candidates (t : Target) (p : Period) : List Int :=
  let base := ((t.whole * 10 ^ t.fd + t.fnum) * p.den) / (p.num * 10 ^ t.fd)
  ((List.range (2 * t.k + 4)).map fun (i : Nat) => base - ((t.k : Int) + 1) + (i : Int)).filter (t.accepts p)

def judgeValue (r : Rep) (p : Period) (t : Target) (strict : Bool) (lenientOor : Bool) (knownOor : Option String)
    (knownCrash : Option String) (impl : Impl (List Int)) : Verdict :=
  let cands := t.candidates p
  let repr := t.wholeRepresentable p
  match impl with
  | .ok [c] =>
    if ¬ repr then .bad "value that is not a multiple of the period was accepted (rounded)"
    else if ¬ t.accepts p c then .bad "returned count is not the denoted value"
    else if ¬ r.fits c then .bad "returned count outside the representation"
    else .ok
  | .ok _ => .bad "unparsable answer"
  | .err .outOfRange =>
    if ¬ repr ∨ lenientOor then .ok
    else if cands.any (fun c => ¬ r.fits c) ∨ cands.isEmpty then .ok
    else (match knownOor with | some k => .known k | none => .bad "out_of_range for a value that fits")
  | .err .invalidArgument => if strict then .bad "documented form rejected as invalid_argument" else .ok
  | .err .runtimeError => .bad "runtime_error"
  | .crash => (match knownCrash with | some k => .known k | none => .bad "crash")
  | .other => .bad "unparsable answer"

/-- text that is not ISO text at all -/
def judgeReject (bytes : List Nat) (impl : Impl (List Int)) : Verdict :=
  match impl with
  | .ok _ => .bad "text outside the grammar was accepted"
  | .err .invalidArgument => .ok
  | .err .outOfRange => if hasBigNumber 2147483648 bytes then .ok else .bad "out_of_range instead of invalid_argument"
  | .err .runtimeError => .bad "runtime_error"
  | .crash => .bad "crash"
  | .other => .bad "unparsable answer"

/-- years within the last/first ~10^12 years of what a 64-bit day count can hold -/
def yearBeyondLimit (y : Int) : Bool := decide (y.natAbs ≥ 25252000000000000)

def judgeParseTp (r : Rep) (p : Period) (w : Nat) (units : List Nat) (impl : Impl (List Int)) : Verdict :=
  let bytes := toBytes w units
  match recogniseDateTime bytes with
  | none =>
    (match impl with
     | .crash => if hasBigNumber 25252000000000000 bytes then .known clsLimit else .bad "crash"
     | _ => judgeReject bytes impl)
  | some t =>
    let tg : Target := ⟨t.wholeSeconds, t.fracNum, t.fracDigits, 1⟩
    -- the calendar day of the text starts before the representable range although the instant is inside it
    let fd := decide (dayNumber t.year t.month t.day * unitsPerDay p < r.lo)
    judgeValue r p tg t.isStrict (hasBigNumber 9223372036854775808 bytes)
      (if fd then some clsFirstDay else if yearBeyondLimit t.year then some clsLimit else none)
      (if yearBeyondLimit t.year then some clsLimit else none) impl

def judgeParseTm (w : Nat) (units : List Nat) (impl : Impl (List Int)) : Verdict :=
  let bytes := toBytes w units
  match recogniseDateTime bytes with
  | none => judgeReject bytes impl
  | some t =>
    match impl with
    | .ok [y, mo, d, h, mi, s] =>
      if y = t.year ∧ mo = t.month ∧ d = t.day ∧ h = t.hour ∧ mi = t.minute ∧ s = t.second ∧ i32.fits y then .ok
      else .bad "returned fields are not the denoted ones"
    | .ok _ => .bad "unparsable answer"
    | .err .outOfRange => if ¬ i32.fits t.year then .ok else .bad "out_of_range for a year that fits"
    | .err .invalidArgument => if t.isStrict then .bad "documented form rejected as invalid_argument" else .ok
    | .err .runtimeError => .bad "runtime_error"
    | .crash => .bad "crash"
    | .other => .bad "unparsable answer"

/-- may the value denoted by these components (with tolerance for their fractions) be reported as out_of_range? -/
def durOorJustified (r : Rep) (p : Period) (neg : Bool) (cs : List Comp) : Bool :=
  let d : Duration := ⟨neg, cs, false⟩
  let sgn : Int := if neg then -1 else 1
  let tg : Target := ⟨sgn * d.wholeSeconds, sgn * d.fracSum, d.maxFracDigits, d.fracCount⟩
  (neg && !r.signed) || !tg.wholeRepresentable p || (cs.any fun c => (c.value * c.unit.seconds * p.den) % p.num != 0)
    || (tg.candidates p).any (fun c => !r.fits c)

def prefixes {α : Type} : List α → List (List α)
  | [] => [[]]
  | a :: t => [] :: (prefixes t).map (a :: ·)

def judgeParseDur (r : Rep) (p : Period) (w : Nat) (units : List Nat) (impl : Impl (List Int)) : Verdict :=
  let bytes := toBytes w units
  match recogniseDuration bytes with
  | none =>
    -- malformed text: invalid_argument, unless the well-formed part read before the defect already
    -- did not fit the target (then out_of_range is what a left-to-right reader reports)
    (match impl, scanDuration bytes with
     | .err .outOfRange, some (neg, cs, _, _) =>
       if (prefixes cs).any (durOorJustified r p neg) then .ok else judgeReject bytes impl
     | _, _ => judgeReject bytes impl)
  | some d =>
    let sgn : Int := if d.neg then -1 else 1
    let tg : Target := ⟨sgn * d.wholeSeconds, sgn * d.fracSum, d.maxFracDigits, d.fracCount⟩
    let compOdd := d.comps.any fun c => (c.value * c.unit.seconds * p.den) % p.num != 0
    let lenientOor := compOdd || hasBigNumber 9223372036854775808 bytes || (d.neg && !r.signed)
    judgeValue r p tg d.isStrict lenientOor none none impl

/-! ### CBinTimestamp -/

def judgeToBin (_r : Rep) (p : Period) (c : Int) (impl : Impl (List Int)) : Verdict :=
  -- exact instant in nanoseconds = c · num · 10^9 / den
  let totalNs : Int := c * p.num * (1000000000 / p.den)
  match impl with
  | .ok [sec, ns] =>
    if ¬ (0 ≤ ns ∧ ns ≤ 999999999) then .bad "nanoseconds outside 0..999999999"
    else if sec * 1000000000 + ns = totalNs ∧ i64.fits sec then .ok
    else .bad "timestamp denotes another instant"
  | .ok _ => .bad "unparsable answer"
  | .err .outOfRange => if ¬ i64.fits (totalNs / 1000000000) then .ok else .bad "out_of_range for a representable instant"
  | .err _ => .bad "unexpected exception"
  | .crash => .bad "crash"
  | .other => .bad "unparsable answer"

def judgeFromBin (r : Rep) (p : Period) (sec ns : Int) (impl : Impl (List Int)) : Verdict :=
  if ¬ (0 ≤ ns ∧ ns ≤ 999999999) then (match impl with | .crash => .bad "crash" | _ => .ok) else
  let tg : Target := ⟨sec, ns, 9, 1⟩
  judgeValue r p tg true (decide (p.num > 1) && decide (ns ≠ 0)) none none impl

/-! ### composite ops -/

def worst : Verdict → Verdict → Verdict
  | .bad w, _ => .bad w
  | _, .bad w => .bad w
  | .known k, _ => .known k
  | _, .known k => .known k
  | .ok, .ok => .ok

/-- print followed by parse of the printed text: both halves are judged, and the value must come back -/
def judgeRt (c : Int) (first : Verdict) (second : Impl (List Int) → Verdict) (back : Impl (List Int)) : Verdict :=
  let v := worst first (second back)
  match v, back with
  | .ok, .ok [c'] => if c' = c then .ok else .bad "round trip changed the value"
  | .ok, _ => .bad "round trip failed"
  | v, _ => v

def splitOn (sep : Nat) : List Nat → List (List Nat)
  | [] => [[]]
  | c :: t =>
    match splitOn sep t with
    | [] => [[c]]
    | h :: r => if c = sep then [] :: h :: r else (c :: h) :: r

/-- `iso.print_days`: midnights of `n` consecutive days starting at day `first` -/
def judgePrintDays (r : Rep) (p : Period) (first : Int) (n : Nat) (impl : Impl (List Nat)) : Verdict :=
  match impl with
  | .ok text =>
    let parts := splitOn 44 text
    if parts.length ≠ n then .bad "wrong number of texts" else
    (List.range n).zip parts |>.foldl (fun v (ip : Nat × List Nat) =>
      match v with
      | .ok => judgePrintTp r p ((first + (ip.1 : Int)) * unitsPerDay p) (.ok ip.2)
      | v => v) .ok
  | .crash => .bad "crash"
  | .err _ => .bad "exception while printing a representable time point"
  | .other => .bad "unparsable answer"

end BSVerif.Chrono.Oracle
