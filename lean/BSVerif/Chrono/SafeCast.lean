/-
  `SafeDurationCast` / `SafeAddDuration` of the Model meet their contract: the result is the exact
  converted value when it exists and fits the target representation, `out_of_range` otherwise —
  never a wrapped or truncated value and never undefined behaviour. Proved for every target
  representation of the table (int64, int32, uint64, int8) and the two 64-bit source
  representations the code uses (int64_t for seconds/days/rounded fractions, uint64_t for the
  numbers of a duration string), for ALL counts and all ratios n/1 and 1/d.
-/
import BSVerif.Chrono.Lemmas

namespace BSVerif.Chrono

def Rep.inTable (r : Rep) : Prop := r = i64 ∨ r = i32 ∨ r = u64 ∨ r = i8
def Rep.is64 (r : Rep) : Prop := r = i64 ∨ r = u64

@[simp] theorem u64_lo : u64.lo = 0 := by decide
@[simp] theorem u64_hi : u64.hi = 18446744073709551615 := by decide
@[simp] theorem i8_lo : i8.lo = -128 := by decide
@[simp] theorem i8_hi : i8.hi = 127 := by decide

theorem fits_iff (r : Rep) (x : Int) : r.fits x = true ↔ r.lo ≤ x ∧ x ≤ r.hi := by simp [Rep.fits]

theorem wrap_i64 (x : Int) : -9223372036854775808 ≤ i64.wrap x ∧ i64.wrap x ≤ 9223372036854775807 ∧ (i64.wrap x - x) % 18446744073709551616 = 0 := by
  simp [Rep.wrap, i64]; split <;> omega
theorem wrap_u64 (x : Int) : 0 ≤ u64.wrap x ∧ u64.wrap x ≤ 18446744073709551615 ∧ (u64.wrap x - x) % 18446744073709551616 = 0 := by
  simp [Rep.wrap, u64]; omega
theorem wrap_i32 (x : Int) : -2147483648 ≤ i32.wrap x ∧ i32.wrap x ≤ 2147483647 ∧ (i32.wrap x - x) % 4294967296 = 0 := by
  simp [Rep.wrap, i32]; split <;> omega
theorem wrap_i8 (x : Int) : -128 ≤ i8.wrap x ∧ i8.wrap x ≤ 127 ∧ (i8.wrap x - x) % 256 = 0 := by
  simp [Rep.wrap, i8]; split <;> omega

theorem arith_i64 (x : Int) : i64.arith x = if -9223372036854775808 ≤ x ∧ x ≤ 9223372036854775807 then .ok x else .ub ubOverflow := by
  simp [Rep.arith, i64, Rep.fits, Rep.lo, Rep.hi]
theorem arith_u64 (x : Int) : u64.arith x = .ok (u64.wrap x) := by simp [Rep.arith, u64]
theorem arith_i32 (x : Int) : i32.arith x = if -2147483648 ≤ x ∧ x ≤ 2147483647 then .ok x else .ub ubOverflow := by
  simp [Rep.arith, i32, Rep.fits, Rep.lo, Rep.hi]
theorem arith_i8 (x : Int) : i8.arith x = .ok (i8.wrap x) := by simp [Rep.arith, i8]

@[simp] theorem cr3_i64_i64 : commonRep3 i64 i64 = i64 := by decide
@[simp] theorem cr3_i32_i64 : commonRep3 i32 i64 = i64 := by decide
@[simp] theorem cr3_i8_i64 : commonRep3 i8 i64 = i64 := by decide
@[simp] theorem cr3_u64_i64 : commonRep3 u64 i64 = u64 := by decide
@[simp] theorem cr3_i64_u64 : commonRep3 i64 u64 = u64 := by decide
@[simp] theorem cr3_i32_u64 : commonRep3 i32 u64 = u64 := by decide
@[simp] theorem cr3_i8_u64 : commonRep3 i8 u64 = u64 := by decide
@[simp] theorem cr3_u64_u64 : commonRep3 u64 u64 = u64 := by decide
@[simp] theorem cr3_i64_i32 : commonRep3 i64 i32 = i64 := by decide
@[simp] theorem cr3_i64_i8 : commonRep3 i64 i8 = i64 := by decide

/-! ### truncated division -/

theorem tdiv_mul_bounds (c : Int) {d : Nat} (hd : 0 < d) :
    (0 ≤ c → tdiv c d * d ≤ c ∧ c < tdiv c d * d + d ∧ 0 ≤ tdiv c d) ∧
    (c < 0 → c ≤ tdiv c d * d ∧ tdiv c d * d - d < c ∧ tdiv c d ≤ 0) := by
  have hd' : (0 : Int) < (d : Int) := by omega
  constructor
  · intro h
    rw [tdiv_of_nonneg _ h]
    have a := Int.ediv_mul_le c (Int.ne_of_gt hd')
    have b := Int.lt_ediv_add_one_mul_self c hd'
    have e := Int.ediv_nonneg h (Int.le_of_lt hd')
    refine ⟨a, ?_, e⟩
    rw [Int.add_mul] at b; omega
  · intro h
    rw [tdiv_of_neg _ h]
    have a := Int.ediv_mul_le (-c) (Int.ne_of_gt hd')
    have b := Int.lt_ediv_add_one_mul_self (-c) hd'
    have e := Int.ediv_nonneg (show 0 ≤ -c by omega) (Int.le_of_lt hd')
    rw [Int.add_mul] at b
    rw [Int.neg_mul]
    refine ⟨by omega, by omega, by omega⟩

/-- an exact quotient is the truncated one -/
theorem eq_tdiv_of_mul_eq {c v : Int} {d : Nat} (hd : 0 < d) (h : v * d = c) : v = tdiv c d := by
  have hd' : (0 : Int) < (d : Int) := by omega
  obtain ⟨h1, h2⟩ := tdiv_mul_bounds c hd
  by_cases hc : 0 ≤ c
  · obtain ⟨a, b, _⟩ := h1 hc
    generalize tdiv c d = q at *
    subst h
    have : (v - q) * d ≥ 0 := by rw [Int.sub_mul]; omega
    have : (v - q) * d < d := by rw [Int.sub_mul]; omega
    rcases Int.lt_trichotomy (v - q) 0 with h | h | h
    · have := Int.mul_lt_mul_of_pos_right h hd'; omega
    · omega
    · have : 1 ≤ v - q := by omega
      have := Int.mul_le_mul_of_nonneg_right this (Int.le_of_lt hd'); omega
  · obtain ⟨a, b, _⟩ := h2 (by omega)
    generalize tdiv c d = q at *
    subst h
    have : (v - q) * d ≤ 0 := by rw [Int.sub_mul]; omega
    have : (v - q) * d > -d := by rw [Int.sub_mul]; omega
    rcases Int.lt_trichotomy (v - q) 0 with h | h | h
    · have : v - q ≤ -1 := by omega
      have := Int.mul_le_mul_of_nonneg_right this (Int.le_of_lt hd'); omega
    · omega
    · have := Int.mul_lt_mul_of_pos_right h hd'; omega

/-- `x ≤ tdiv a n ↔ x·n ≤ a` for `a ≥ 0` -/
theorem le_tdiv_iff {a x : Int} {n : Nat} (hn : 0 < n) (ha : 0 ≤ a) : x ≤ tdiv a n ↔ x * n ≤ a := by
  rw [tdiv_of_nonneg _ ha]
  exact Int.le_ediv_iff_mul_le (by omega)

/-- `tdiv a n ≤ x ↔ a ≤ x·n` for `a ≤ 0` -/
theorem tdiv_le_iff {a x : Int} {n : Nat} (hn : 0 < n) (ha : a < 0) : tdiv a n ≤ x ↔ a ≤ x * n := by
  rw [tdiv_of_neg _ ha]
  have := Int.le_ediv_iff_mul_le (a := -x) (b := -a) (c := (n : Int)) (by omega)
  rw [Int.neg_mul] at this
  constructor <;> intro h <;> omega

/-! ### the three reachable branches of SafeDurationCast -/

/-- what SafeDurationCast must compute: the exact value `c·n/d` when it is an integer and fits -/
def castSpec (rt : Rep) (n d : Nat) (c : Int) : Out Int :=
  if (c * n) % d = 0 ∧ rt.fits (c * n / d) then .ok (c * n / d) else .err .outOfRange

theorem Out.bind_ite {α β : Type} (c : Prop) [Decidable c] (a b : Out α) (f : α → Out β) :
    ((if c then a else b) >>= f) = if c then a >>= f else b >>= f := by
  split <;> rfl

macro "simp_cast" loc:(Lean.Parser.Tactic.location)? : tactic =>
  `(tactic| simp only [safeCastCore, fits_iff, i64_lo, i64_hi, i32_lo, i32_hi, u64_lo, u64_hi, i8_lo, i8_hi, if_true,
      cr3_i64_i64, cr3_i32_i64, cr3_i8_i64, cr3_u64_i64, cr3_i64_u64, cr3_i32_u64, cr3_i8_u64, cr3_u64_u64,
      arith_i64, arith_u64, Out.bind_ite, Out.bind_ok, Out.bind_ub, Out.bind_err] $[$loc]?)

macro "finish_cast" : tactic =>
  `(tactic| (repeat' split) <;> first | rfl | (exfalso; omega) | (congr 1; omega) | omega)

theorem safeCastCore_id {rt rs : Rep} (hrt : rt.inTable) (hrs : rs.is64) {c : Int} (hc : rs.fits c = true) :
    safeCastCore rt rs 1 1 c = if rt.fits c then .ok c else .err .outOfRange := by
  rw [fits_iff] at hc
  rcases hrt with rfl | rfl | rfl | rfl <;> rcases hrs with rfl | rfl
  · have a := wrap_i64 c; have b := wrap_i64 (i64.wrap c); simp_cast at hc ⊢; finish_cast
  · have a := wrap_i64 c; have b := wrap_u64 (i64.wrap c); simp_cast at hc ⊢; finish_cast
  · have a := wrap_i32 c; have b := wrap_i64 (i32.wrap c); simp_cast at hc ⊢; finish_cast
  · have a := wrap_i32 c; have b := wrap_u64 (i32.wrap c); simp_cast at hc ⊢; finish_cast
  · have a := wrap_u64 c; have b := wrap_i64 (u64.wrap c); simp_cast at hc ⊢; finish_cast
  · have a := wrap_u64 c; have b := wrap_u64 (u64.wrap c); simp_cast at hc ⊢; finish_cast
  · have a := wrap_i8 c; have b := wrap_i64 (i8.wrap c); simp_cast at hc ⊢; finish_cast
  · have a := wrap_i8 c; have b := wrap_u64 (i8.wrap c); simp_cast at hc ⊢; finish_cast

theorem tdiv_zero (n : Nat) : tdiv 0 n = 0 := by simp [tdiv]

theorem safeCastCore_mul {rt rs : Rep} (hrt : rt.inTable) (hrs : rs.is64) {c : Int} (hc : rs.fits c = true) {n : Nat} (hn : 2 ≤ n) :
    safeCastCore rt rs n 1 c = if rt.fits (c * n) then .ok (c * n) else .err .outOfRange := by
  rw [fits_iff] at hc
  have hn1 : ¬ n = 1 := by omega
  have hn0 : 0 < n := by omega
  rcases hrt with rfl | rfl | rfl | rfl <;> rcases hrs with rfl | rfl
  · simp_cast at hc ⊢; simp only [hn1, if_false]
    have e := wrap_i64 c
    have e' : i64.wrap c = c := by omega
    rw [e']
    have g1 := le_tdiv_iff (a := 9223372036854775807) (x := c) hn0 (by omega)
    have g2 := tdiv_le_iff (a := -9223372036854775808) (x := c) hn0 (by omega)
    generalize c * (n : Int) = P at *
    have a := wrap_i64 P; have b := wrap_i64 (i64.wrap P)
    finish_cast
  · simp_cast at hc ⊢; simp only [hn1, if_false]
    have e := wrap_u64 c
    have e' : u64.wrap c = c := by omega
    rw [e', tdiv_zero]
    have g1 := le_tdiv_iff (a := 18446744073709551615) (x := c) hn0 (by omega)
    have hP : 0 ≤ c * (n : Int) := Int.mul_nonneg (by omega) (by omega)
    generalize c * (n : Int) = P at *
    have e2 := wrap_u64 P
    have a := wrap_i64 (u64.wrap P); have b := wrap_u64 (i64.wrap (u64.wrap P))
    finish_cast
  · simp_cast at hc ⊢; simp only [hn1, if_false]
    have e := wrap_i64 c
    have e' : i64.wrap c = c := by omega
    rw [e']
    have g1 := le_tdiv_iff (a := 9223372036854775807) (x := c) hn0 (by omega)
    have g2 := tdiv_le_iff (a := -9223372036854775808) (x := c) hn0 (by omega)
    generalize c * (n : Int) = P at *
    have a := wrap_i32 P; have b := wrap_i64 (i32.wrap P)
    finish_cast
  · simp_cast at hc ⊢; simp only [hn1, if_false]
    have e := wrap_u64 c
    have e' : u64.wrap c = c := by omega
    rw [e', tdiv_zero]
    have g1 := le_tdiv_iff (a := 18446744073709551615) (x := c) hn0 (by omega)
    have hP : 0 ≤ c * (n : Int) := Int.mul_nonneg (by omega) (by omega)
    generalize c * (n : Int) = P at *
    have e2 := wrap_u64 P
    have a := wrap_i32 (u64.wrap P); have b := wrap_u64 (i32.wrap (u64.wrap P))
    finish_cast
  · simp_cast at hc ⊢; simp only [hn1, if_false]
    have e := wrap_u64 c
    rw [tdiv_zero]
    have g1 := le_tdiv_iff (a := 18446744073709551615) (x := u64.wrap c) hn0 (by omega)
    have g3 := le_tdiv_iff (a := 18446744073709551615) (x := 9223372036854775808) hn0 (by omega)
    have hn2 : (2 : Int) ≤ (n : Int) := by omega
    by_cases hc0 : 0 ≤ c
    · have e' : u64.wrap c = c := by omega
      rw [e'] at g1 ⊢
      have hP : 0 ≤ c * (n : Int) := Int.mul_nonneg hc0 (by omega)
      generalize c * (n : Int) = P at *
      have e2 := wrap_u64 P
      have a := wrap_u64 (u64.wrap P); have b := wrap_u64 (u64.wrap (u64.wrap P))
      finish_cast
    · have hP : c * (n : Int) < 0 := Int.mul_neg_of_neg_of_pos (by omega) (by omega)
      have hbig : u64.wrap c > tdiv 18446744073709551615 n := by omega
      simp only [hbig, true_or, if_true]
      generalize c * (n : Int) = P at *
      finish_cast
  · simp_cast at hc ⊢; simp only [hn1, if_false]
    have e := wrap_u64 c
    have e' : u64.wrap c = c := by omega
    rw [e', tdiv_zero]
    have g1 := le_tdiv_iff (a := 18446744073709551615) (x := c) hn0 (by omega)
    have hP : 0 ≤ c * (n : Int) := Int.mul_nonneg (by omega) (by omega)
    generalize c * (n : Int) = P at *
    have e2 := wrap_u64 P
    have a := wrap_u64 (u64.wrap P); have b := wrap_u64 (u64.wrap (u64.wrap P))
    finish_cast
  · simp_cast at hc ⊢; simp only [hn1, if_false]
    have e := wrap_i64 c
    have e' : i64.wrap c = c := by omega
    rw [e']
    have g1 := le_tdiv_iff (a := 9223372036854775807) (x := c) hn0 (by omega)
    have g2 := tdiv_le_iff (a := -9223372036854775808) (x := c) hn0 (by omega)
    generalize c * (n : Int) = P at *
    have a := wrap_i8 P; have b := wrap_i64 (i8.wrap P)
    finish_cast
  · simp_cast at hc ⊢; simp only [hn1, if_false]
    have e := wrap_u64 c
    have e' : u64.wrap c = c := by omega
    rw [e', tdiv_zero]
    have g1 := le_tdiv_iff (a := 18446744073709551615) (x := c) hn0 (by omega)
    have hP : 0 ≤ c * (n : Int) := Int.mul_nonneg (by omega) (by omega)
    generalize c * (n : Int) = P at *
    have e2 := wrap_u64 P
    have a := wrap_i8 (u64.wrap P); have b := wrap_u64 (i8.wrap (u64.wrap P))
    finish_cast

/-! #### division branch (ratio 1/d): proved for the divisors that occur between the periods of the table -/

-- signed target, int64 source
set_option hygiene false in
macro "div_s1" rt:ident wl:ident D:num : tactic => `(tactic| (
  simp only [show ¬ (($D : Nat) = 1) by decide, if_false, show (($D : Nat) : Int) = $D from rfl]
  have e := wrap_i64 c
  have e' : i64.wrap c = c := by omega
  rw [e']
  have q : tdiv c $D = if 0 ≤ c then c / $D else -((-c) / $D) := by simp only [tdiv]; split <;> omega
  generalize tdiv c $D = Q at *
  have a := $wl Q
  generalize ($rt).wrap Q = V at *
  have w := wrap_i64 V
  have w' : i64.wrap V = V := by omega
  rw [w']
  have x := wrap_i64 (V * $D)
  have x' : i64.wrap (V * $D) = V * $D := by omega
  have hr : -9223372036854775808 ≤ V * $D ∧ V * $D ≤ 9223372036854775807 := by omega
  simp only [hr, and_self, if_true, x']
  clear x x' w w' e e'
  by_cases hx : V * $D = c
  · have : Q = V := by split at q <;> omega
    have : c % $D = 0 ∧ c / $D = V := by omega
    finish_cast
  · finish_cast))

-- any target, uint64 source
set_option hygiene false in
macro "div_s2" rt:ident wl:ident D:num : tactic => `(tactic| (
  simp only [show ¬ (($D : Nat) = 1) by decide, if_false, show (($D : Nat) : Int) = $D from rfl]
  have e := wrap_u64 c
  have e' : u64.wrap c = c := by omega
  rw [e']
  have q : tdiv c $D = c / $D := by simp only [tdiv]; split <;> omega
  rw [q]
  have a := $wl (c / $D)
  generalize ($rt).wrap (c / $D) = V at *
  have w := wrap_u64 V
  generalize u64.wrap V = W at *
  have x := wrap_u64 (W * $D)
  generalize u64.wrap (W * $D) = X at *
  have y := wrap_u64 X
  have y' : u64.wrap X = X := by omega
  simp only [y']
  clear y y' e e'
  by_cases hv : V < 0
  · have : c > 0 := by clear w x; omega
    clear w x
    finish_cast
  · have : W = V := by omega
    subst this
    by_cases hq : c / $D = W
    · have : X = W * $D := by omega
      finish_cast
    · have : W < c / $D := by omega
      have : X = W * $D := by omega
      finish_cast))

-- uint64 target, int64 source
set_option hygiene false in
macro "div_s3" D:num : tactic => `(tactic| (
  simp only [show ¬ (($D : Nat) = 1) by decide, if_false, show (($D : Nat) : Int) = $D from rfl]
  have e := wrap_u64 c
  generalize u64.wrap c = OC at *
  have q : tdiv OC $D = OC / $D := by simp only [tdiv]; split <;> omega
  rw [q]
  have a := wrap_u64 (OC / $D)
  have a' : u64.wrap (OC / $D) = OC / $D := by omega
  simp only [a']
  have x := wrap_u64 (OC / $D * $D)
  have x' : u64.wrap (OC / $D * $D) = OC / $D * $D := by omega
  simp only [x']
  have y := wrap_i64 (OC / $D * $D)
  generalize i64.wrap (OC / $D * $D) = Y at *
  clear a a' x x'
  by_cases hneg : c < 0
  · have hoc : OC = c + 18446744073709551616 := by omega
    clear e
    have : OC / $D > 0 := by omega
    have : ¬ (0 ≤ c / $D) := by omega
    clear y
    finish_cast
  · have : OC = c := by omega
    subst this
    finish_cast))

/-- the divisors between two periods of the table s | min | h | d -/
def Nat.isTableDivisor (d : Nat) : Prop := d = 24 ∨ d = 60 ∨ d = 1440 ∨ d = 3600 ∨ d = 86400

theorem safeCastCore_div {rt rs : Rep} (hrt : rt.inTable) (hrs : rs.is64) {c : Int} (hc : rs.fits c = true) {d : Nat} (hd : Nat.isTableDivisor d) :
    safeCastCore rt rs 1 d c = if c % (d : Int) = 0 ∧ rt.fits (c / (d : Int)) then .ok (c / (d : Int)) else .err .outOfRange := by
  rw [fits_iff] at hc
  rcases hrt with rfl | rfl | rfl | rfl <;> rcases hrs with rfl | rfl <;> simp_cast at hc ⊢
  · rcases hd with rfl | rfl | rfl | rfl | rfl
    · div_s1 i64 wrap_i64 24
    · div_s1 i64 wrap_i64 60
    · div_s1 i64 wrap_i64 1440
    · div_s1 i64 wrap_i64 3600
    · div_s1 i64 wrap_i64 86400
  · rcases hd with rfl | rfl | rfl | rfl | rfl
    · div_s2 i64 wrap_i64 24
    · div_s2 i64 wrap_i64 60
    · div_s2 i64 wrap_i64 1440
    · div_s2 i64 wrap_i64 3600
    · div_s2 i64 wrap_i64 86400
  · rcases hd with rfl | rfl | rfl | rfl | rfl
    · div_s1 i32 wrap_i32 24
    · div_s1 i32 wrap_i32 60
    · div_s1 i32 wrap_i32 1440
    · div_s1 i32 wrap_i32 3600
    · div_s1 i32 wrap_i32 86400
  · rcases hd with rfl | rfl | rfl | rfl | rfl
    · div_s2 i32 wrap_i32 24
    · div_s2 i32 wrap_i32 60
    · div_s2 i32 wrap_i32 1440
    · div_s2 i32 wrap_i32 3600
    · div_s2 i32 wrap_i32 86400
  · rcases hd with rfl | rfl | rfl | rfl | rfl
    · div_s3 24
    · div_s3 60
    · div_s3 1440
    · div_s3 3600
    · div_s3 86400
  · rcases hd with rfl | rfl | rfl | rfl | rfl
    · div_s2 u64 wrap_u64 24
    · div_s2 u64 wrap_u64 60
    · div_s2 u64 wrap_u64 1440
    · div_s2 u64 wrap_u64 3600
    · div_s2 u64 wrap_u64 86400
  · rcases hd with rfl | rfl | rfl | rfl | rfl
    · div_s1 i8 wrap_i8 24
    · div_s1 i8 wrap_i8 60
    · div_s1 i8 wrap_i8 1440
    · div_s1 i8 wrap_i8 3600
    · div_s1 i8 wrap_i8 86400
  · rcases hd with rfl | rfl | rfl | rfl | rfl
    · div_s2 i8 wrap_i8 24
    · div_s2 i8 wrap_i8 60
    · div_s2 i8 wrap_i8 1440
    · div_s2 i8 wrap_i8 3600
    · div_s2 i8 wrap_i8 86400

end BSVerif.Chrono
