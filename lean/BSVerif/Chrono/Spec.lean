/-
  SPEC of the ISO 8601 text forms documented in docs/bitserializer_convert.md ("Date and time
  conversion"), written from that documentation and ISO 8601, not from the C++:

    time point : [±]YYYY-MM-DDThh:mm:ss[.SSS]Z      UTC only, fraction optional, up to 9 digits,
                 '.' or ',' as decimal separator, sign for years before 0000 / after 9999,
                 proleptic Gregorian calendar, epoch 1970-01-01T00:00:00Z, no leap seconds
    duration   : [±]PnWnDTnHnMnS                    no years/months, decimal fraction only in the
                 seconds part (up to 9 digits, '.' or ','), optional sign (ISO 8601-2)

  Two levels are distinguished:
    * STRICT  — exactly the documented form; such text MUST be converted (or out_of_range);
    * LENIENT — a superset whose meaning is still unambiguous (fields with other digit counts, more
      fraction digits, duration designators repeated / in any order, text after white space
      following the value); an implementation may convert it to the denoted value or reject it
      with invalid_argument.
  Everything else is not ISO text: it must be rejected with invalid_argument.

  The denotation is exact (integers and decimal fractions): no rounding happens in the Spec.
-/
import BSVerif.Chrono.Calendar

namespace BSVerif.Chrono.Spec
open BSVerif.Chrono.Calendar

def isDigitC (c : Nat) : Bool := 48 ≤ c && c ≤ 57
def isWhite (c : Nat) : Bool := c == 32 || c == 9 || c == 10 || c == 11 || c == 12 || c == 13

/-- maximal run of ASCII digits: (value, number of digits, rest) -/
def takeDigits : List Nat → Nat → Nat → Nat × Nat × List Nat
  | [], v, n => (v, n, [])
  | c :: t, v, n => if isDigitC c then takeDigits t (v * 10 + (c - 48)) (n + 1) else (v, n, c :: t)

/-- `digits+` followed by the literal character `sep` -/
def field (s : List Nat) (sep : Nat) : Option (Nat × Nat × List Nat) :=
  match takeDigits s 0 0 with
  | (v, n, c :: rest) => if n > 0 ∧ c = sep then some (v, n, rest) else none
  | _ => none

/-- text after the value: nothing, or white space followed by anything -/
def trailerOk : List Nat → Option Bool
  | [] => some false
  | c :: _ => if isWhite c then some true else none

/-! ### date-time -/

structure DateTime where
  year : Int
  month : Nat
  day : Nat
  hour : Nat
  minute : Nat
  second : Nat
  fracNum : Nat          -- fraction of a second = fracNum / 10^fracDigits
  fracDigits : Nat
  -- lexical facts
  sign : Option Bool     -- some true = '+', some false = '-'
  yearDigits : Nat
  twoDigit : Bool        -- MM DD hh mm ss all written with exactly two digits
  hasTrailer : Bool
  deriving Repr, DecidableEq

/-- Recognise the lenient form (field values in range for the calendar and the 24-hour clock). -/
def recogniseDateTime (s : List Nat) : Option DateTime :=
  let sg : Option Bool × List Nat := match s with
    | 43 :: t => (some true, t)
    | 45 :: t => (some false, t)
    | _ => (none, s)
  match field sg.2 45 with
  | none => none
  | some (yv, yn, s1) =>
  match field s1 45 with
  | none => none
  | some (mo, mon, s2) =>
  match field s2 84 with
  | none => none
  | some (d, dn, s3) =>
  match field s3 58 with
  | none => none
  | some (h, hn, s4) =>
  match field s4 58 with
  | none => none
  | some (mi, min, s5) =>
  match takeDigits s5 0 0 with
  | (sec, sn, s6) =>
  if sn = 0 then none else
  let fr : Option (Nat × Nat × List Nat) := match s6 with
    | c :: t =>
      if c = 46 ∨ c = 44 then
        (match takeDigits t 0 0 with
         | (fv, fn, r) => if fn = 0 then none else some (fv, fn, r))
      else some (0, 0, s6)
    | [] => some (0, 0, s6)
  match fr with
  | none => none
  | some (fv, fn, s7) =>
  match s7 with
  | 90 :: s8 =>
    (match trailerOk s8 with
     | none => none
     | some tr =>
       let y : Int := if sg.1 = some false then -(yv : Int) else (yv : Int)
       if validDate y mo d ∧ h ≤ 23 ∧ mi ≤ 59 ∧ sec ≤ 59 then
         some ⟨y, mo, d, h, mi, sec, fv, fn, sg.1, yn, mon = 2 ∧ dn = 2 ∧ hn = 2 ∧ min = 2 ∧ sn = 2, tr⟩
       else none)
  | _ => none

/-- exactly the documented form -/
def DateTime.isStrict (t : DateTime) : Bool :=
  t.yearDigits ≥ 4 && t.twoDigit && t.fracDigits ≤ 9 && !t.hasTrailer

/-- the form the library documents for its OUTPUT at a precision with `fd` fraction digits: sign only (and
    always) for years outside 0000…9999, at least four year digits and no superfluous leading zero,
    exactly `fd` fraction digits -/
def DateTime.isCanonical (t : DateTime) (fd : Nat) : Bool :=
  t.isStrict && t.fracDigits == fd &&
  (if t.year < 0 then t.sign == some false
   else if t.year > 9999 then t.sign == some true
   else t.sign == none) &&
  (t.yearDigits == 4 || (t.yearDigits > 4 && t.year.natAbs ≥ 10 ^ (t.yearDigits - 1)))

/-- whole seconds from the epoch to the start of the denoted second -/
def DateTime.wholeSeconds (t : DateTime) : Int :=
  dayNumber t.year t.month t.day * 86400 + (t.hour * 3600 + t.minute * 60 + t.second : Nat)

/-! ### duration -/

inductive DUnit where
  | W | D | H | M | S
  deriving Repr, DecidableEq

def DUnit.seconds : DUnit → Nat
  | .W => 604800 | .D => 86400 | .H => 3600 | .M => 60 | .S => 1

/-- rank inside the documented order PnWnDTnHnMnS -/
def DUnit.rank : DUnit → Nat
  | .W => 0 | .D => 1 | .H => 2 | .M => 3 | .S => 4

structure Comp where
  value : Nat
  unit : DUnit
  hasFrac : Bool
  fracNum : Nat
  fracDigits : Nat
  deriving Repr, DecidableEq

structure Duration where
  neg : Bool
  comps : List Comp
  hasTrailer : Bool
  deriving Repr, DecidableEq

/-- components of one section; stops at end of input, at white space, or (date section) at 'T'.
    Result: (components recognised, rest, whole section well-formed?) — on a malformed component
    the components before it are still returned (the Oracle uses them to explain an out_of_range
    that was raised before the malformed part was reached). -/
def comps : Nat → List Nat → Bool → List Comp × List Nat × Bool
  | 0, s, _ => ([], s, false)
  | fuel + 1, s, timeSec =>
    match s with
    | [] => ([], [], true)
    | c :: _ =>
      if isWhite c ∨ (c = 84 ∧ ¬ timeSec) then ([], s, true) else
      match takeDigits s 0 0 with
      | (v, n, rest) =>
        if n = 0 then ([], s, false) else
        match rest with
        | [] => ([], s, false)
        | u :: rest1 =>
          let unitOf (x : Nat) : Option DUnit :=
            if timeSec then (if x = 72 then some .H else if x = 77 then some .M else if x = 83 then some .S else none)
            else (if x = 87 then some .W else if x = 68 then some .D else none)
          if u = 46 ∨ u = 44 then
            match takeDigits rest1 0 0 with
            | (fv, fn, rest2) =>
              if fn = 0 then ([], s, false) else
              match rest2 with
              | 83 :: rest3 =>
                if timeSec then
                  (match comps fuel rest3 timeSec with
                   | (cs, r, ok) => (⟨v, .S, true, fv, fn⟩ :: cs, r, ok))
                else ([⟨0, .S, true, fv, fn⟩], s, false)
              | _ => ([⟨0, .S, true, fv, fn⟩], s, false)
          else
            match unitOf u with
            | none => ([], s, false)
            | some un =>
              match comps fuel rest1 timeSec with
              | (cs, r, ok) => (⟨v, un, false, 0, 0⟩ :: cs, r, ok)

/-- sign, components of the date section, then (after 'T') of the time section; `none` = no leading [±]P.
    The flag tells whether the whole text is a well-formed (lenient) duration. -/
def scanDuration (s : List Nat) : Option (Bool × List Comp × Bool × Bool) :=
  let sg : Bool × List Nat := match s with
    | 43 :: t => (false, t)
    | 45 :: t => (true, t)
    | _ => (false, s)
  match sg.2 with
  | 80 :: s1 =>
    (match comps (s1.length + 1) s1 false with
     | (dcs, r, ok) =>
       if ¬ ok then some (sg.1, dcs, false, false) else
       match r with
       | 84 :: s2 =>
         (match comps (s2.length + 1) s2 true with
          | (tcs, r2, ok2) =>
            if ¬ ok2 ∨ tcs.isEmpty then some (sg.1, dcs ++ tcs, false, false) else
            match trailerOk r2 with
            | none => some (sg.1, dcs ++ tcs, false, false)
            | some tr => some (sg.1, dcs ++ tcs, tr, true))
       | _ =>
         if dcs.isEmpty then some (sg.1, dcs, false, false) else
         match trailerOk r with
         | none => some (sg.1, dcs, false, false)
         | some tr => some (sg.1, dcs, tr, true))
  | _ => none

/-- Recognise the lenient duration form. -/
def recogniseDuration (s : List Nat) : Option Duration :=
  match scanDuration s with
  | some (neg, cs, tr, true) => some ⟨neg, cs, tr⟩
  | _ => none

def strictlyIncreasing : List Nat → Bool
  | a :: b :: t => decide (a < b) && strictlyIncreasing (b :: t)
  | _ => true

/-- exactly the documented form: every designator at most once and in the order W D H M S, a
    fraction (1–9 digits) only in the seconds part, nothing after the value -/
def Duration.isStrict (d : Duration) : Bool :=
  strictlyIncreasing (d.comps.map (·.unit.rank)) && d.comps.all (fun c => c.fracDigits ≤ 9) && !d.hasTrailer

/-- whole seconds (magnitude) -/
def Duration.wholeSeconds (d : Duration) : Nat := (d.comps.map fun c => c.value * c.unit.seconds).sum

def Duration.maxFracDigits (d : Duration) : Nat := d.comps.foldl (fun a c => max a c.fracDigits) 0

/-- sum of the fractions of a second, as a numerator over 10^maxFracDigits (magnitude) -/
def Duration.fracSum (d : Duration) : Nat :=
  (d.comps.map fun c => c.fracNum * 10 ^ (d.maxFracDigits - c.fracDigits)).sum

def Duration.fracCount (d : Duration) : Nat := (d.comps.filter (·.hasFrac)).length

end BSVerif.Chrono.Spec
