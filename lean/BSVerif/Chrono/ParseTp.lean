/-
  From the step contracts (SafeAdd.lean) and the calendar theorems (Lemmas.lean) to statements about
  `tpFromParts` (the conversion of parsed ISO fields to a time point) and about `parseIsoUtc8`
  (field validation).
-/
import BSVerif.Chrono.SafeAdd

namespace BSVerif.Chrono
open BSVerif.Chrono.Calendar BSVerif.Generated.Chrono

theorem ratio_sec {p : Period} (hp : p.inTable) :
    (if pSec = p then ((1 : Nat), (1 : Nat)) else ratioDiv pSec p) = (p.den, p.num) := by
  rcases hp with rfl | rfl | rfl | rfl | rfl | rfl | rfl <;> decide

theorem ratio_day {p : Period} (hp : p.inTable) :
    (if pDay = p then ((1 : Nat), (1 : Nat)) else ratioDiv pDay p) = (86400 * p.den / p.num, 1) := by
  rcases hp with rfl | rfl | rfl | rfl | rfl | rfl | rfl <;> decide

theorem zero_fits {r : Rep} (hr : r.inTable) : r.fits 0 = true := by
  rcases hr with rfl | rfl | rfl | rfl <;> decide

theorem cumDays_le (m : Nat) : cumDays m ≤ 334 := by
  unfold cumDays; split <;> omega

theorem dayNumber_fits {y : Int} {m d : Nat} (hy1 : -25252000000000000 ≤ y) (hy2 : y ≤ 25252000000000000) (hd : d ≤ 31) :
    i64.fits (dayNumber y m d) = true := by
  rw [fits_iff]
  have := cumDays_le m
  simp only [dayNumber, daysBeforeYear, dayOfYear, epochOffset, i64_lo, i64_hi]
  split <;> omega

/-- the second half of the conversion: adding the day count -/
theorem addDays_exact {r : Rep} (hr : r.inTable) {p : Period} (hp : p.inTable) {tp D v : Int} (htp : r.fits tp = true)
    (hD : i64.fits D = true) (h : safeAddTp r p tp i64 pDay D = .ok v) :
    r.fits v = true ∧ v * p.num = tp * p.num + D * 86400 * p.den := by
  rw [safeAddTp_spec hr hp (Or.inl (Or.inr (Or.inr (Or.inr (Or.inl rfl))))) htp hD, ratio_day hp] at h
  by_cases h0 : D = 0
  · simp only [h0, if_true] at h
    injection h with h; subst h
    exact ⟨htp, by rw [h0]; simp⟩
  · simp only [h0, if_false] at h
    split at h
    · rename_i hc
      injection h with h; subst h
      refine ⟨hc.2.2, ?_⟩
      rcases hp with rfl | rfl | rfl | rfl | rfl | rfl | rfl <;> simp [pNano, pMicro, pMilli, pSec, pMin, pHour, pDay] <;> omega
    · exact absurd h (by simp)

/-- **C15, never wraps (whole seconds).** When the conversion of parsed fields without a fraction succeeds, the
    count is inside the target representation and is EXACTLY the denoted instant: count·num = seconds·den. -/
theorem tpFromParts_exact {r : Rep} (hr : r.inTable) {p : Period} (hp : p.inTable) {u : Parts} (hfrac : u.frac = none)
    (hy1 : -25252000000000000 ≤ u.year) (hy2 : u.year ≤ 25252000000000000)
    (hm1 : 1 ≤ u.mon) (hm2 : u.mon ≤ 12) (hd1 : 1 ≤ u.day) (hd2 : u.day ≤ 31)
    (hh : 0 ≤ u.hour ∧ u.hour ≤ 23) (hmi : 0 ≤ u.min ∧ u.min ≤ 59) (hs : 0 ≤ u.sec ∧ u.sec ≤ 59)
    {v : Int} (h : tpFromParts r p u = .ok v) :
    r.fits v = true ∧
    v * p.num = (dayNumber u.year u.mon.toNat u.day.toNat * 86400 + (u.hour * 3600 + u.min * 60 + u.sec)) * p.den := by
  unfold tpFromParts at h
  rw [daysFromCivil_eq hy1 hy2 hm1 hm2 hd1 hd2, hfrac] at h
  simp only [Out.bind_ok] at h
  have hDfit := dayNumber_fits (m := u.mon.toNat) (d := u.day.toNat) hy1 hy2 (by omega)
  generalize dayNumber u.year u.mon.toNat u.day.toNat = D at *
  generalize hT : u.hour * 3600 + u.min * 60 + u.sec = T at *
  have hT1 : 0 ≤ T ∧ T ≤ 86399 := by omega
  rw [safeAddTp_spec hr hp (Or.inl (Or.inl rfl)) (zero_fits hr) (by rw [fits_iff]; simp; omega), ratio_sec hp] at h
  by_cases h0 : T = 0
  · simp only [h0, if_true, Out.bind_ok] at h
    have := addDays_exact hr hp (zero_fits hr) hDfit h
    refine ⟨this.1, ?_⟩
    rw [this.2, h0]; simp
  · simp only [h0, if_false] at h
    split at h
    · rename_i hc
      simp only [Out.bind_ok] at h
      have := addDays_exact hr hp hc.2.2 hDfit h
      refine ⟨this.1, ?_⟩
      rw [this.2]
      obtain ⟨hex, -, -⟩ := hc
      simp only [Int.zero_add] at hex ⊢
      have hnum : (0 : Int) < (p.num : Int) := by
        rcases hp with rfl | rfl | rfl | rfl | rfl | rfl | rfl <;> decide
      have := Int.ediv_mul_cancel (Int.dvd_of_emod_eq_zero hex)
      rw [this, Int.add_mul]
      omega
    · exact absurd h (by simp)

/-! ### field validation of ParseIsoUtc -/

theorem parsePart_bounds {s : List Nat} {r : Rep} {lo hi : Int} {dl : Option Nat} {isYear : Bool} {v : Int} {rest : List Nat}
    (h : parsePart s r (some lo) (some hi) dl isYear = .ok (v, rest)) : lo ≤ v ∧ v ≤ hi := by
  unfold parsePart at h
  cases s with
  | nil => simp at h
  | cons c t =>
    simp only at h
    by_cases hc : isDigit c = true ∨ isYear = true
    · simp only [hc, if_true] at h
      generalize (if isYear = true ∧ c = 43 ∧ headIsDigit t = true then t else c :: t) = s' at h
      cases hf : fromChars r s' with
      | ok v' n rest' =>
        rw [hf] at h; simp only at h
        by_cases hb : ltOpt v' (some lo) = true ∨ gtOpt v' (some hi) = true
        · simp [hb] at h
        · simp only [hb, if_false] at h
          have hv : lo ≤ v' ∧ v' ≤ hi := by
            simp only [ltOpt, gtOpt, decide_eq_true_eq, not_or, Int.not_lt] at hb
            omega
          have : v = v' := by
            cases dl with
            | none => simp at h; exact h.1.symm
            | some d =>
              cases rest' with
              | nil => simp at h
              | cons x r' =>
                simp only at h
                split at h
                · simp at h; exact h.1.symm
                · simp at h
          subst this; exact hv
      | range => rw [hf] at h; simp at h
      | invalid => rw [hf] at h; simp at h
    · simp [hc] at h

/-- the named table of the code agrees with the calendar: entry m−1 is the length of month m in a leap year -/
theorem daysInMonth_leap' : ∀ m, m < 12 → daysInMonth.getD m 0 = monthLen 2000 (m + 1) := by decide

theorem daysInMonth_leap (m : Nat) (h1 : 1 ≤ m) (h2 : m ≤ 12) : daysInMonth.getD (m - 1) 0 = monthLen 2000 m := by
  have := daysInMonth_leap' (m - 1) (by omega)
  rwa [show m - 1 + 1 = m by omega] at this

theorem tmod_eq_zero_iff (y : Int) (k : Nat) (hk : 0 < k) : tmod y k = 0 ↔ y % (k : Int) = 0 := by
  unfold tmod
  obtain ⟨h1, h2⟩ := tdiv_mul_bounds y hk
  have e := Int.emod_def y k
  have b1 := Int.emod_nonneg y (show (k : Int) ≠ 0 by omega)
  have b2 := Int.emod_lt_of_pos y (show (0 : Int) < k by omega)
  constructor
  · intro h
    have hx : tdiv y k * k = y := by omega
    rw [← hx]; exact Int.mul_emod_left _ _
  · intro h
    have hd := Int.ediv_mul_cancel (Int.dvd_of_emod_eq_zero h)
    have := eq_tdiv_of_mul_eq hk hd
    rw [← this]; omega

/-- the tail of `parseIsoUtc8` (optional fraction already read, then 'Z' and the trailer) keeps the fields -/
theorem parseTail_fields {X : Out (Option Int × List Nat)} {y mo d hr mi sec : Int} {u : Parts}
    (h : (X >>= fun (x : Option Int × List Nat) =>
      match x.2 with
      | 90 :: rest =>
        (match rest with
         | c :: _ => if isSpace c then Out.ok (⟨y, mo, d, hr, mi, sec, x.1⟩ : Parts) else .err .invalidArgument
         | [] => .ok ⟨y, mo, d, hr, mi, sec, x.1⟩)
      | _ => .err .invalidArgument) = .ok u) :
    u.year = y ∧ u.mon = mo ∧ u.day = d ∧ u.hour = hr ∧ u.min = mi ∧ u.sec = sec := by
  cases X with
  | err e => simp at h
  | ub k => simp at h
  | ok fs =>
    simp only [Out.bind_ok] at h
    split at h
    · split at h
      · split at h
        · injection h with h; subst h; exact ⟨rfl, rfl, rfl, rfl, rfl, rfl⟩
        · simp at h
      · injection h with h; subst h; exact ⟨rfl, rfl, rfl, rfl, rfl, rfl⟩
    · simp at h

/-- **C15, field ranges.** Whatever `ParseIsoUtc` accepts has a month 1…12, a day that exists in that month of that
    year of the proleptic Gregorian calendar (so 29 February only in leap years), hour ≤ 23, minute ≤ 59, second ≤ 59;
    everything else was rejected (the only exceptions the parser raises are invalid_argument and, for numbers that do
    not fit the field type, out_of_range). -/
theorem parseIsoUtc8_valid {s : List Nat} {u : Parts} (h : parseIsoUtc8 s = .ok u) :
    ValidDate u.year u.mon.toNat u.day.toNat ∧ 1 ≤ u.mon ∧ u.mon ≤ 12 ∧ 1 ≤ u.day ∧ u.day ≤ 31 ∧
    0 ≤ u.hour ∧ u.hour ≤ 23 ∧ 0 ≤ u.min ∧ u.min ≤ 59 ∧ 0 ≤ u.sec ∧ u.sec ≤ 59 := by
  unfold parseIsoUtc8 at h
  -- year
  cases hy : parsePart s i64 none none (some 45) true with
  | err e => rw [hy] at h; exact absurd h (by simp)
  | ub k => rw [hy] at h; exact absurd h (by simp)
  | ok ys =>
  obtain ⟨y, s1⟩ := ys
  rw [hy] at h; simp only [Out.bind_ok] at h
  cases hmo : parsePart s1 i32 (some 1) (some 12) (some 45) false with
  | err e => rw [hmo] at h; exact absurd h (by simp)
  | ub k => rw [hmo] at h; exact absurd h (by simp)
  | ok ms =>
  obtain ⟨mo, s2⟩ := ms
  rw [hmo] at h; simp only [Out.bind_ok] at h
  have bmo := parsePart_bounds hmo
  cases hd : parsePart s2 i32 (some 1) (some ((daysInMonth.getD (mo - 1).toNat 0 : Nat) : Int)) (some 84) false with
  | err e => rw [hd] at h; exact absurd h (by simp)
  | ub k => rw [hd] at h; exact absurd h (by simp)
  | ok ds =>
  obtain ⟨d, s3⟩ := ds
  rw [hd] at h; simp only [Out.bind_ok] at h
  have bd := parsePart_bounds hd
  split at h
  · exact absurd h (by simp)
  rename_i hfeb
  cases hh : parsePart s3 i32 (some 0) (some 23) (some 58) false with
  | err e => rw [hh] at h; exact absurd h (by simp)
  | ub k => rw [hh] at h; exact absurd h (by simp)
  | ok hs =>
  obtain ⟨hr, s4⟩ := hs
  rw [hh] at h; simp only [Out.bind_ok] at h
  have bh := parsePart_bounds hh
  cases hmi : parsePart s4 i32 (some 0) (some 59) (some 58) false with
  | err e => rw [hmi] at h; exact absurd h (by simp)
  | ub k => rw [hmi] at h; exact absurd h (by simp)
  | ok mis =>
  obtain ⟨mi, s5⟩ := mis
  rw [hmi] at h; simp only [Out.bind_ok] at h
  have bmi := parsePart_bounds hmi
  cases hsec : parsePart s5 i32 (some 0) (some 59) none false with
  | err e => rw [hsec] at h; exact absurd h (by simp)
  | ub k => rw [hsec] at h; exact absurd h (by simp)
  | ok ss =>
  obtain ⟨sec, s6⟩ := ss
  rw [hsec] at h; simp only [Out.bind_ok] at h
  have bs := parsePart_bounds hsec
  -- whatever follows, the fields of a successful result are these
  have hu : u.year = y ∧ u.mon = mo ∧ u.day = d ∧ u.hour = hr ∧ u.min = mi ∧ u.sec = sec := parseTail_fields h
  obtain ⟨e1, e2, e3, e4, e5, e6⟩ := hu
  rw [e1, e2, e3, e4, e5, e6]
  have hmoNat : 1 ≤ mo.toNat ∧ mo.toNat ≤ 12 := by omega
  have htab := daysInMonth_leap mo.toNat hmoNat.1 hmoNat.2
  have hidx : (mo - 1).toNat = mo.toNat - 1 := by omega
  rw [hidx, htab] at bd
  generalize hm : mo.toNat = m at *
  have hd31 : monthLen 2000 m ≤ 31 := by
    have : m = 1 ∨ m = 2 ∨ m = 3 ∨ m = 4 ∨ m = 5 ∨ m = 6 ∨ m = 7 ∨ m = 8 ∨ m = 9 ∨ m = 10 ∨ m = 11 ∨ m = 12 := by omega
    rcases this with rfl | rfl | rfl | rfl | rfl | rfl | rfl | rfl | rfl | rfl | rfl | rfl <;> decide
  refine ⟨⟨hmoNat.1, hmoNat.2, by omega, ?_⟩, bmo.1, bmo.2, bd.1, by omega, bh.1, bh.2, bmi.1, bmi.2, bs.1, bs.2⟩
  -- the day exists in that month of that year
  by_cases hm2 : m = 2
  · subst hm2
    have hmo2 : mo = 2 := by omega
    have h2000 : monthLen 2000 2 = 29 := by decide
    rw [h2000] at bd
    by_cases h29 : d = 29
    · have hl : isLeap y = true := by
        rw [BSVerif.Chrono.Hinnant.isLeap_iff]
        have t4 := tmod_eq_zero_iff y 4 (by omega)
        have t100 := tmod_eq_zero_iff y 100 (by omega)
        have t400 := tmod_eq_zero_iff y 400 (by omega)
        have hf : ¬ (tmod y 4 ≠ 0 ∨ (tmod y 100 = 0 ∧ tmod y 400 ≠ 0)) := fun hx => hfeb ⟨hmo2, h29, hx⟩
        simp only [not_or, not_and, Decidable.not_not] at hf
        obtain ⟨a, b⟩ := hf
        have a' := t4.mp a
        by_cases c : y % 100 = 0
        · right; exact t400.mp (b (t100.mpr c))
        · left; exact ⟨a', c⟩
      simp only [monthLen, hl, if_true]; omega
    · simp only [monthLen]; split <;> omega
  · have : monthLen y m = monthLen 2000 m := by
      have : m = 1 ∨ m = 3 ∨ m = 4 ∨ m = 5 ∨ m = 6 ∨ m = 7 ∨ m = 8 ∨ m = 9 ∨ m = 10 ∨ m = 11 ∨ m = 12 := by omega
      rcases this with rfl | rfl | rfl | rfl | rfl | rfl | rfl | rfl | rfl | rfl | rfl <;> rfl
    rw [this]; omega

end BSVerif.Chrono
