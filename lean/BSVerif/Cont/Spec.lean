/-
  SPEC / ORACLE for C18, written from the property and the documented data model, not from the C++ loops:
  there is no estimated size, no resize and no loop here — only "which values does the document hold, and
  what may the target hold afterwards".

  Data model. A document value either holds a loadable value for the target kind or it does not (wrong kind,
  nil: "not loaded"). Loading a document array of n values into a sequence gives n elements; element i is the
  loaded value, and where the document holds nothing loadable it is the value-initialised value — or, by the
  library's documented "values are loaded into existing elements" design, the value the target held at
  that place before. The second alternative is exactly what C18 ("no stale element survives") forbids: the
  oracle accepts it as consistent with the data model but then reports the recorded class
  `known:stale-value-kept-when-not-loaded` (populated result ≠ fresh result).

  Verdicts: `ok`; `known:<class>`; `bad:<why>`; `nospec`.
-/
import BSVerif.Scope.Spec

namespace BSVerif.Cont.Spec
open BSVerif.Scope BSVerif.Scope.Spec

/-- canonical container content: sequence elements have no key; an int is a one-element list -/
abbrev Entry := Option Int × List Int
/-- result of one load: the content, or the error class of the exception -/
abbrev Res := Except String (List Entry)

def sortInts (l : List Int) : List Int := l.mergeSort (· ≤ ·)

def dedup (l : List Int) : List Int := l.foldl (fun acc x => if acc.contains x then acc else acc ++ [x]) []

/-- lexicographic order on int lists -/
def listLe : List Int → List Int → Bool
  | [], _ => true
  | _ :: _, [] => false
  | a :: as, b :: bs => a < b || (a == b && listLe as bs)

def entryLe (a b : Entry) : Bool :=
  match a.1, b.1 with
  | some x, some y => x < y || (x == y && listLe a.2 b.2)
  | none, some _ => true
  | some _, none => false
  | none, none => listLe a.2 b.2

def sortEntries (l : List Entry) : List Entry := l.mergeSort entryLe

/-! ### what may a target hold after loading one document value -/

/-- integer target -/
def accInt (v : Val) (old : Option Int) (r : Int) : Bool :=
  match v with
  | .sc (.int x) => r == x
  | _ => r == 0 || old == some r

/-- boolean element of vector<bool>/bitset: a loaded value must arrive; the property says nothing about the
    value of an element that is not loaded (the code repeats the previous element's value) -/
def accBool (v : Val) (r : Int) : Bool :=
  match v with
  | .sc (.bool b) => r == (if b then 1 else 0)
  | _ => r == 0 || r == 1

/-- sequence-of-integers target (`old = none`: the slot did not exist before) -/
def accVec (v : Val) (old : Option (List Int)) (r : List Int) : Bool :=
  match v with
  | .arr items =>
    r.length == items.length &&
      ((items.zip r).zipIdx.all fun p => accInt p.1.1 (old.bind (·[p.2]?)) p.1.2)
  | _ => r == [] || old == some r

def accBoolVec (items : List Val) (r : List Int) : Bool :=
  r.length == items.length && ((items.zip r).all fun p => accBool p.1 p.2)

/-- an int held as a one-element list (the value type of the int maps) -/
def accInt1 (v : Val) (old : Option (List Int)) (r : List Int) : Bool :=
  match r with
  | [x] => accInt v (old.bind (·.head?)) x
  | _ => false

def keyOfVal : Val → Option Int
  | .sc (.int k) => some k
  | _ => none

def intOfVal : Val → Option Int
  | .sc (.int k) => some k
  | _ => none

def lookupEntry (m : List Entry) (k : Int) : Option (List Int) :=
  (m.find? fun e => e.1 == some k).map (·.2)

def keysOf (m : List Entry) : List Int := m.filterMap (·.1)

inductive Mode where
  | clean | exist | update
  deriving DecidableEq, Repr

/-- map target; `accV` judges one value against the value the key had before (if any) -/
def accMap (accV : Val → Option (List Int) → List Int → Bool) (mode : Mode) (v : Val) (old : Option (List Entry))
    (r : List Entry) : Bool :=
  match v with
  | .map entries =>
    let base : List Entry := if mode = .clean then [] else old.getD []
    let docKeys := dedup (entries.filterMap fun e => keyOfVal e.1)
    let expectedKeys := match mode with
      | .clean => docKeys
      | .exist => keysOf base
      | .update => dedup (keysOf base ++ docKeys)
    sortInts (keysOf r) == sortInts expectedKeys && r.all (fun e => e.1.isSome) &&
      r.all fun e =>
        match e.1 with
        | none => false
        | some k =>
          let occ := entries.filter fun d => keyOfVal d.1 == some k
          let oldv := lookupEntry base k
          match occ with
          | [] => oldv == some e.2
          | [d] => accV d.2 oldv e.2
          | ds => ds.any fun d => accV d.2 oldv e.2      -- a key repeated in the document: any of its values
  | _ => r == [] || old == some r

def strBytes (s : String) : List Nat := s.toList.map Char.toNat

/-- the multimap is stored as an array of {"key":k,"value":v} objects; it is cleared first, so the result is
    exactly the pairs of the document (absent/unloadable members leave the value-initialised 0) -/
def expectedMultiMap (items : List Val) : List Entry :=
  items.filterMap fun it =>
    match it with
    | .map es =>
      let get (name : String) : Int :=
        match es.find? fun e => match e.1 with | .sc (.str s) => s == strBytes name | _ => false with
        | some e => (intOfVal e.2).getD 0
        | none => 0
      some (some (get "key"), [get "value"])
    | _ => none

def seqInts (l : List Entry) : Option (List Int) :=
  l.mapM fun e => match e with | (none, [x]) => some x | _ => none

def seqVecs (l : List Entry) : Option (List (List Int)) :=
  l.mapM fun e => match e with | (none, xs) => some xs | _ => none

/-- set targets are cleared first: members = the loaded values (+ value-initialised 0 for unloadable elements) -/
def accSet (unique : Bool) (v : Val) (old : Option (List Int)) (r : List Int) : Bool :=
  match v with
  | .arr items =>
    let loaded := items.filterMap intOfVal
    let skipped := items.length - loaded.length
    let nz := r.filter (· != 0)
    let zeros := r.length - nz.length
    let expect := sortInts ((if unique then dedup loaded else loaded).filter (· != 0))
    let zerosLoaded := (loaded.filter (· == 0)).length
    sortInts nz == expect &&
      (if unique then decide (zeros ≤ 1) && (zeros == 0 || decide (skipped + zerosLoaded > 0)) && (zerosLoaded == 0 || zeros == 1)
       else decide (zerosLoaded ≤ zeros) && decide (zeros ≤ zerosLoaded + skipped))
  | _ => r == [] || old == some (sortInts r) || old == some r

inductive Kind where
  | seq            -- vector deque list forward_list valarray queue stack priority_queue
  | fixed (n : Nat)
  | vbool
  | bits (n : Nat)
  | set (unique : Bool)
  | map (mode : Mode)
  | mapVec (mode : Mode)
  | multimap
  | opt
  | optVec
  | str
  | vecVec
  deriving Repr

def parseMode : String → Option Mode
  | "clean" => some .clean | "cleanw" => some .clean | "exist" => some .exist | "update" => some .update | _ => none

def parseKind (kind mode : String) : Option Kind :=
  if ["vector", "deque", "list", "forward_list", "valarray", "queue", "stack", "priority_queue"].contains kind then
    (if mode == "-" then some .seq else none)
  else if kind == "map" || kind == "unordered_map" then (parseMode mode).map .map
  else if kind == "map_of_vector" then (parseMode mode).map .mapVec
  else if mode != "-" then none
  else match kind with
    | "array3" => some (.fixed 3) | "vector_bool" => some .vbool | "bitset8" => some (.bits 8)
    | "set" => some (.set true) | "unordered_set" => some (.set true)
    | "multiset" => some (.set false) | "unordered_multiset" => some (.set false)
    | "multimap" => some .multimap | "unordered_multimap" => some .multimap
    | "optional" => some .opt | "unique_ptr" => some .opt | "shared_ptr" => some .opt
    | "optional_vector" => some .optVec | "string" => some .str | "vector_of_vector" => some .vecVec
    | _ => none

/-- is one load result acceptable for the data model? `old = none`: fresh target.
    returns `none` when acceptable, else the reason -/
def accRes (k : Kind) (doc : Val) (old : Option (List Entry)) (r : Res) : Option String :=
  let sizeErr : Option String := match r with | .error "ser_out_of_range" => none | _ => some "expected_OutOfRange_for_size_mismatch"
  let check (b : Bool) (why : String) : Option String := if b then none else some why
  match k, doc, r with
  | .fixed n, .arr items, r =>
    if items.length ≠ n then sizeErr
    else match r with
      | .ok es => match seqInts es with
        | some xs => check (accVec doc (old.bind seqInts) xs) "element_differs_from_the_document"
        | none => some "shape"
      | .error _ => some "unexpected_exception"
  | .bits n, .arr items, r =>
    if items.length < n then sizeErr
    else match r with
      | .ok es => match seqInts es with
        | some xs => check (accBoolVec (items.take n) xs) "element_differs_from_the_document"
        | none => some "shape"
      | .error _ => some "unexpected_exception"
  | _, _, .error _ => some "unexpected_exception"
  | .fixed n, _, .ok es => check (seqInts es == some (List.replicate n 0) || (old.isSome && some es == old)) "target_changed_by_a_value_that_is_not_an_array"
  | .bits n, _, .ok es => check (seqInts es == some (List.replicate n 0) || (old.isSome && some es == old)) "target_changed_by_a_value_that_is_not_an_array"
  | .seq, _, .ok es => match seqInts es with
    | some xs => check (accVec doc (old.bind seqInts) xs) "element_differs_from_the_document"
    | none => some "shape"
  | .vbool, .arr items, .ok es => match seqInts es with
    | some xs => check (accBoolVec items xs) "element_differs_from_the_document"
    | none => some "shape"
  | .vbool, _, .ok es => check (es == [] || some es == old) "target_changed_by_a_value_that_is_not_an_array"
  | .set u, _, .ok es => match seqInts es with
    | some xs => check (accSet u doc (old.bind seqInts) xs) "members_differ_from_the_document"
    | none => some "shape"
  | .map m, _, .ok es => check (accMap accInt1 m doc old es) "entries_differ_from_the_document_and_mode"
  | .mapVec m, _, .ok es => check (accMap accVec m doc old es) "entries_differ_from_the_document_and_mode"
  | .multimap, .arr items, .ok es => check (sortEntries es == sortEntries (expectedMultiMap items)) "pairs_differ_from_the_document"
  | .multimap, _, .ok es => check (es == [] || some es == old) "target_changed_by_a_value_that_is_not_an_array"
  | .opt, .sc (.int x), .ok es => check (es == [(none, [x])]) "optional_value"
  | .opt, _, .ok es => check (es == []) "optional_not_reset_when_not_loaded"
  | .optVec, .arr _, .ok es => match es with
    | [(none, xs)] => check (accVec doc ((old.bind seqVecs).bind (·.head?)) xs) "element_differs_from_the_document"
    | _ => some "optional_value"
  | .optVec, _, .ok es => check (es == []) "optional_not_reset_when_not_loaded"
  | .str, .sc (.str s), .ok es => check (es == [(none, s.map Int.ofNat)]) "string_value"
  | .str, _, .ok es => check (es == [(none, [])] || some es == old) "string_changed_by_a_value_that_is_not_a_string"
  | .vecVec, .arr items, .ok es => match seqVecs es with
    | some rs =>
      let olds := old.bind seqVecs
      check (rs.length == items.length && ((items.zip rs).zipIdx.all fun p => accVec p.1.1 (olds.bind (·[p.2]?)) p.1.2))
        "element_differs_from_the_document"
    | none => some "shape"
  | .vecVec, _, .ok es => check (es == [] || some es == old) "target_changed_by_a_value_that_is_not_an_array"

/-- C18 demands populated = fresh for every kind except the two documented non-default map modes -/
def equalityDemanded : Kind → Bool
  | .map m => m == .clean
  | .mapVec m => m == .clean
  | _ => true

def canonical (k : Kind) (r : Res) : Res :=
  match k, r with
  | .set _, .ok es => .ok (sortEntries es)
  | .map _, .ok es => .ok (sortEntries es)
  | .mapVec _, .ok es => .ok (sortEntries es)
  | .multimap, .ok es => .ok (sortEntries es)
  | _, r => r

def resEq (a b : Res) : Bool :=
  match a, b with
  | .ok x, .ok y => x == y
  | .error x, .error y => x == y
  | _, _ => false

def subset (a b : List Int) : Bool := a.all b.contains

def judge (k : Kind) (prior : List Entry) (doc : Val) (pop fresh : Res) : String :=
  match accRes k doc (some prior) pop with
  | some why => s!"bad:populated:{why}"
  | none =>
  match accRes k doc none fresh with
  | some why => s!"bad:fresh:{why}"
  | none =>
    if equalityDemanded k then
      if resEq (canonical k pop) (canonical k fresh) then "ok" else "known:stale-value-kept-when-not-loaded"
    else
      -- the documented laws of the two other modes, checked directly on the answer
      match k, pop with
      | .map .exist, .ok es | .mapVec .exist, .ok es =>
        if subset (keysOf es) (keysOf prior) then "ok" else "bad:only_exist_keys_added_a_key"
      | .map .update, .ok es | .mapVec .update, .ok es =>
        if subset (keysOf prior) (keysOf es) then "ok" else "bad:update_keys_removed_a_key"
      | _, _ => "ok"

/-! ### CSV rows (`cont.csv`): a vector of objects {a, b}; CSV reports no estimated size -/

def parseCell (s : String) : Option Int :=
  if s.startsWith "-" then (s.drop 1).toString.toNat?.map fun n => -(Int.ofNat n)
  else s.toNat?.map Int.ofNat

def accRow (header : List String) (cells : List String) (old : Option (Int × Int)) (r : Int × Int) : Bool :=
  let field (name : String) (oldv : Option Int) (x : Int) : Bool :=
    match (header.zip cells).find? (fun p => p.1 == name) with
    | some p => match parseCell p.2 with
      | some v => x == v
      | none => x == 0 || oldv == some x
    | none => x == 0 || oldv == some x
  field "a" (old.map (·.1)) r.1 && field "b" (old.map (·.2)) r.2

def rowsOf (es : List Entry) : Option (List (Int × Int)) :=
  es.mapM fun e => match e with | (some a, [b]) => some (a, b) | _ => none

def judgeCsv (prior : List Entry) (header : List String) (rows : List (List String)) (pop fresh : Res) : String :=
  let acc (old : Option (List (Int × Int))) (r : Res) : Option String :=
    match r with
    | .error _ => some "unexpected_exception"
    | .ok es => match rowsOf es with
      | none => some "shape"
      | some rs =>
        if rs.length == rows.length && ((rows.zip rs).zipIdx.all fun p => accRow header p.1.1 (old.bind (·[p.2]?)) p.1.2)
        then none else some "row_differs_from_the_document"
  match acc (rowsOf prior) pop with
  | some why => s!"bad:populated:{why}"
  | none =>
  match acc none fresh with
  | some why => s!"bad:fresh:{why}"
  | none => if resEq pop fresh then "ok" else "known:stale-value-kept-when-not-loaded"

end BSVerif.Cont.Spec
