/-
  Helper lemmas for C18: the loops of the container loaders computed in closed form.
  `specLoad L slots items`: element i is `load items[i]` applied to slot i if that slot exists, else to the
  value-initialised value; the result has exactly `items.length` elements.
-/
import BSVerif.Cont.Model

namespace BSVerif.Cont

variable {ι α : Type}

/-- the result of `Serialize` for this item does not depend on what the target held before -/
def PriorIndep (L : Loader ι α) (it : ι) : Prop := ∀ a b, L.load it a = L.load it b

def specLoad (L : Loader ι α) : List α → List ι → List α
  | _, [] => []
  | [], it :: its => (L.load it L.dflt).2 :: specLoad L [] its
  | c :: cs, it :: its => (L.load it c).2 :: specLoad L cs its

@[simp] theorem specLoad_length (L : Loader ι α) (c : List α) (its : List ι) : (specLoad L c its).length = its.length := by
  induction its generalizing c with
  | nil => cases c <;> simp [specLoad]
  | cons it its ih => cases c <;> simp [specLoad, ih]

theorem specLoad_nil (L : Loader ι α) (its : List ι) : specLoad L [] its = its.map fun it => (L.load it L.dflt).2 := by
  induction its with
  | nil => rfl
  | cons it its ih => simp [specLoad, ih]

theorem specLoad_eq_mapIdx (L : Loader ι α) (c : List α) (its : List ι) :
    specLoad L c its = its.mapIdx fun i it => (L.load it (c[i]?.getD L.dflt)).2 := by
  induction its generalizing c with
  | nil => cases c <;> simp [specLoad]
  | cons it its ih =>
    cases c with
    | nil => simp [specLoad, List.mapIdx_cons, ih]
    | cons c cs => simp [specLoad, List.mapIdx_cons, ih]

/-- two slot lists give the same result when they agree wherever the item looks at its slot -/
theorem specLoad_congr (L : Loader ι α) (c c' : List α) (its : List ι)
    (h : ∀ (i : Nat) (hi : i < its.length), PriorIndep L its[i] ∨ c[i]?.getD L.dflt = c'[i]?.getD L.dflt) :
    specLoad L c its = specLoad L c' its := by
  rw [specLoad_eq_mapIdx, specLoad_eq_mapIdx, List.mapIdx_eq_mapIdx_iff]
  intro i hi
  rcases h i hi with hp | he
  · rw [hp]
  · rw [he]

theorem resize_zero (d : α) (l : List α) : resize d 0 l = [] := by simp [resize]

theorem resize_succ_cons (d : α) (n : Nat) (x : α) (l : List α) : resize d (n + 1) (x :: l) = x :: resize d n l := by
  simp [resize]

theorem resize_length_self (d : α) (l : List α) : resize d l.length l = l := by simp [resize]

theorem resize_nil (d : α) (n : Nat) : resize d n ([] : List α) = List.replicate n d := by simp [resize]

@[simp] theorem resize_length (d : α) (n : Nat) (l : List α) : (resize d n l).length = n := by
  simp [resize]; omega

theorem resize_getElem? (d : α) (n : Nat) (l : List α) (i : Nat) (hi : i < n) :
    (resize d n l)[i]?.getD d = l[i]?.getD d := by
  simp only [resize, List.getElem?_append, List.length_take, List.getElem?_take, List.getElem?_replicate]
  by_cases h : i < l.length
  · have : i < min n l.length := by omega
    simp [this, hi]
  · have h1 : ¬ i < min n l.length := by omega
    have h2 : l[i]? = none := List.getElem?_eq_none (by omega)
    simp only [h1, if_false, h2, Option.getD_none]
    split <;> rfl

/-! ### SerializeContainer -/

theorem loadRest_spec (L : Loader ι α) (cont : List α) (its : List ι) (n : Nat) :
    loadRest L cont its n = (cont ++ its.map (fun it => (L.load it L.dflt).2), n + its.length) := by
  induction its generalizing cont n with
  | nil => simp [loadRest]
  | cons it its ih => simp [loadRest, ih]; omega

theorem loops_spec (L : Loader ι α) (c : List α) (its : List ι) :
    resize L.dflt (loadRest L (loadExisting L c its).1 (loadExisting L c its).2.1 (loadExisting L c its).2.2).2
      (loadRest L (loadExisting L c its).1 (loadExisting L c its).2.1 (loadExisting L c its).2.2).1 = specLoad L c its := by
  induction c generalizing its with
  | nil =>
    simp only [loadExisting, loadRest_spec, List.nil_append, Nat.zero_add, specLoad_nil]
    have := resize_length_self L.dflt (its.map fun it => (L.load it L.dflt).2)
    simpa using this
  | cons c cs ih =>
    cases its with
    | nil => simp [loadExisting, loadRest, resize_zero, specLoad]
    | cons it its =>
      have := ih its
      simp only [loadRest_spec] at this ⊢
      simp only [loadExisting, specLoad, List.cons_append]
      rw [show (loadExisting L cs its).2.2 + 1 + (loadExisting L cs its).2.1.length
            = ((loadExisting L cs its).2.2 + (loadExisting L cs its).2.1.length) + 1 by omega, resize_succ_cons, this]

theorem serializeContainer_spec (L : Loader ι α) (prior : List α) (est : Nat) (items : List ι) :
    serializeContainer L prior est items = specLoad L (if est ≠ 0 then resize L.dflt est prior else prior) items := by
  unfold serializeContainer
  exact loops_spec L _ items

@[simp] theorem serializeContainer_length (L : Loader ι α) (prior : List α) (est : Nat) (items : List ι) :
    (serializeContainer L prior est items).length = items.length := by
  rw [serializeContainer_spec]; simp

theorem scalar_priorIndep {β : Type} (d : β) (it : Option β) (h : it.isSome = true) : PriorIndep (scalar d) it := by
  cases it with
  | none => simp at h
  | some v => intro a b; rfl

/-! ### forward_list -/

theorem fwdLoop2_tail (L : Loader ι α) (x : α) (v : List α) (its : List ι) (n : Nat) :
    fwdLoop2 L (x :: v) [] its n = some ((x :: v).reverse ++ its.map (fun it => (L.load it L.dflt).2), n + its.length) := by
  induction its generalizing x v n with
  | nil => simp [fwdLoop2]
  | cons it its ih =>
    simp only [fwdLoop2]
    rw [ih]
    simp; omega

theorem fwd_loops_spec (L : Loader ι α) (v c : List α) (its : List ι) (n : Nat) (hne : v ≠ [] ∨ c ≠ []) :
    fwdLoop2 L (fwdLoop1 L v c its n).1 (fwdLoop1 L v c its n).2.1 (fwdLoop1 L v c its n).2.2.1 (fwdLoop1 L v c its n).2.2.2
      = some (v.reverse ++ specLoad L c its ++ c.drop its.length, n + its.length) := by
  induction its generalizing v c n with
  | nil => cases c <;> simp [fwdLoop1, fwdLoop2, specLoad]
  | cons it its ih =>
    cases c with
    | nil =>
      cases v with
      | nil => simp at hne
      | cons x v =>
        simp only [fwdLoop1]
        rw [fwdLoop2_tail]
        simp [specLoad_nil]
    | cons c cs =>
      simp only [fwdLoop1]
      rw [ih _ cs (n + 1) (Or.inl (by simp))]
      simp [specLoad]; omega

theorem serializeForwardList_spec (L : Loader ι α) (prior : List α) (est : Nat) (items : List ι) :
    serializeForwardList L prior est items
      = some (specLoad L (if est ≠ 0 then resize L.dflt est prior else if prior.isEmpty then resize L.dflt 1 prior else prior) items) := by
  unfold serializeForwardList
  have hne : ([] : List α) ≠ [] ∨
      (if est ≠ 0 then resize L.dflt est prior else if prior.isEmpty then resize L.dflt 1 prior else prior) ≠ [] := by
    right
    intro h
    have hl := congrArg List.length h
    split at hl
    · simp at hl; omega
    · split at hl
      · simp at hl
      · rename_i h1 h2
        cases prior with
        | nil => simp at h2
        | cons => simp at hl
  simp only []
  rw [fwd_loops_spec L [] _ items 0 hne]
  simp only [List.reverse_nil, List.nil_append, Nat.zero_add]
  congr 1
  simp [resize]

/-! ### vector<bool>, bitset: the carried value -/

/-- the values written when one `bool value` (initially `v`) is carried through the items -/
def runBool : Bool → List (Option Bool) → List Bool
  | _, [] => []
  | v, it :: its => it.getD v :: runBool (it.getD v) its

@[simp] theorem runBool_length (v : Bool) (its : List (Option Bool)) : (runBool v its).length = its.length := by
  induction its generalizing v with
  | nil => rfl
  | cons it its ih => simp [runBool, ih]

theorem vbLoop2_spec (v : Bool) (cont : List Bool) (its : List (Option Bool)) (n : Nat) :
    vbLoop2 v cont its n = (cont ++ runBool v its, n + its.length) := by
  induction its generalizing v cont n with
  | nil => simp [vbLoop2, runBool]
  | cons it its ih => simp [vbLoop2, runBool, ih]; omega

theorem vb_loops_spec (v : Bool) (c : List Bool) (its : List (Option Bool)) :
    resize false (vbLoop2 (vbLoop1 v c its).2.2.2 (vbLoop1 v c its).1 (vbLoop1 v c its).2.1 (vbLoop1 v c its).2.2.1).2
      (vbLoop2 (vbLoop1 v c its).2.2.2 (vbLoop1 v c its).1 (vbLoop1 v c its).2.1 (vbLoop1 v c its).2.2.1).1 = runBool v its := by
  induction c generalizing v its with
  | nil =>
    simp only [vbLoop1, vbLoop2_spec, List.nil_append, Nat.zero_add]
    have := resize_length_self false (runBool v its)
    simpa using this
  | cons c cs ih =>
    cases its with
    | nil => simp [vbLoop1, vbLoop2, resize_zero, runBool]
    | cons it its =>
      have := ih (it.getD v) its
      simp only [vbLoop2_spec] at this ⊢
      simp only [vbLoop1, runBool, List.cons_append]
      rw [show (vbLoop1 (it.getD v) cs its).2.2.1 + 1 + (vbLoop1 (it.getD v) cs its).2.1.length
            = ((vbLoop1 (it.getD v) cs its).2.2.1 + (vbLoop1 (it.getD v) cs its).2.1.length) + 1 by omega, resize_succ_cons, this]

theorem serializeVectorBool_spec (prior : List Bool) (est : Nat) (items : List (Option Bool)) :
    serializeVectorBool prior est items = runBool false items := by
  unfold serializeVectorBool
  exact vb_loops_spec false _ items

theorem bitsetLoop_congr (v : Bool) (c c' : List Bool) (its : List (Option Bool)) (h : c.length = c'.length) :
    bitsetLoop v c its = bitsetLoop v c' its := by
  induction c generalizing v c' its with
  | nil => cases c' with
    | nil => rfl
    | cons => simp at h
  | cons x cs ih =>
    cases c' with
    | nil => simp at h
    | cons y cs' =>
      cases its with
      | nil => rfl
      | cons it its =>
        simp only [bitsetLoop]
        rw [ih (it.getD v) cs' its (by simpa using h)]

/-! ### fixed size arrays -/

theorem fixedLoop_spec (L : Loader ι α) (c : List α) (its : List ι) :
    fixedLoop L c its = ((specLoad L c its).take c.length ++ c.drop its.length, decide (c.length ≤ its.length), decide (its.length ≤ c.length)) := by
  induction c generalizing its with
  | nil => cases its <;> simp [fixedLoop, specLoad]
  | cons c cs ih =>
    cases its with
    | nil => simp [fixedLoop, specLoad]
    | cons it its => simp [fixedLoop, specLoad, ih]

theorem serializeFixedArray_spec (L : Loader ι α) (prior : List α) (items : List ι) :
    serializeFixedArray L prior items =
      if prior.length = items.length then .ok (specLoad L prior items) else .error .outOfRange := by
  unfold serializeFixedArray
  rw [fixedLoop_spec]
  by_cases h : prior.length = items.length
  · have h1 : List.take items.length (specLoad L prior items) = specLoad L prior items :=
      List.take_of_length_le (by simp)
    have h2 : List.drop items.length prior = [] := List.drop_of_length_le (by omega)
    simp [h, h1, h2]
  · simp only [h, if_false]
    have : (decide (prior.length ≤ items.length) && decide (items.length ≤ prior.length)) = false := by
      simp; omega
    cases h1 : decide (prior.length ≤ items.length) <;> cases h2 : decide (items.length ≤ prior.length) <;> simp_all

/-! ### sets -/

theorem setInsert_mem [DecidableEq α] (u : Bool) (s : List α) (v x : α) : x ∈ setInsert u s v ↔ x ∈ s ∨ x = v := by
  unfold setInsert
  split
  · rename_i h
    constructor
    · intro hx; exact Or.inl hx
    · rintro (hx | rfl)
      · exact hx
      · exact h.2
  · simp

theorem foldl_setInsert_mem [DecidableEq α] (u : Bool) (f : ι → α) (its : List ι) (s : List α) (x : α) :
    x ∈ its.foldl (fun s it => setInsert u s (f it)) s ↔ x ∈ s ∨ ∃ it ∈ its, f it = x := by
  induction its generalizing s with
  | nil => simp
  | cons it its ih =>
    simp only [List.foldl_cons, ih, setInsert_mem, List.mem_cons, exists_eq_or_imp]
    constructor
    · rintro ((h | h) | h)
      · exact Or.inl h
      · exact Or.inr (Or.inl h.symm)
      · exact Or.inr (Or.inr h)
    · rintro (h | h | h)
      · exact Or.inl (Or.inl h)
      · exact Or.inl (Or.inr h.symm)
      · exact Or.inr h

/-! ### maps -/

def keys (m : MapOf α) : List Int := m.map Prod.fst

theorem keys_mapSet (k : Int) (v : α) (m : MapOf α) : keys (mapSet k v m) = keys m := by
  induction m with
  | nil => rfl
  | cons e m ih =>
    obtain ⟨k', v'⟩ := e
    unfold mapSet
    split
    · simp [keys]
    · simp only [keys, List.map_cons] at ih ⊢
      rw [ih]

theorem mapFind_some_mem (k : Int) (m : MapOf α) (v : α) (h : mapFind k m = some v) : k ∈ keys m := by
  induction m with
  | nil => simp [mapFind] at h
  | cons e m ih =>
    obtain ⟨k', v'⟩ := e
    unfold mapFind at h
    split at h
    · rename_i hk; simp [keys, hk]
    · simp only [keys, List.map_cons, List.mem_cons]
      exact Or.inr (ih h)

theorem mapFind_none_not_mem (k : Int) (m : MapOf α) (h : mapFind k m = none) : k ∉ keys m := by
  induction m with
  | nil => simp [keys]
  | cons e m ih =>
    obtain ⟨k', v'⟩ := e
    unfold mapFind at h
    split at h
    · simp at h
    · rename_i hk
      simp only [keys, List.map_cons, List.mem_cons, not_or]
      exact ⟨fun h' => hk h'.symm, ih h⟩

theorem keys_mapEmplace (k : Int) (d : α) (m : MapOf α) :
    keys (mapEmplace k d m) = if k ∈ keys m then keys m else keys m ++ [k] := by
  unfold mapEmplace
  cases h : mapFind k m with
  | some v => simp [mapFind_some_mem k m v h]
  | none =>
    have := mapFind_none_not_mem k m h
    simp only [keys] at this ⊢
    simp [this]

theorem keys_mapStep_onlyExist (L : Loader ι α) (m : MapOf α) (e : Option Int × ι) :
    keys (mapStep L .onlyExist m e) = keys m := by
  unfold mapStep
  cases e.1 with
  | none => rfl
  | some k =>
    simp only
    cases mapFind k m with
    | none => rfl
    | some old => simp [keys_mapSet]

theorem keys_mapStep_update (L : Loader ι α) (m : MapOf α) (e : Option Int × ι) :
    keys (mapStep L .update m e) = match e.1 with
      | none => keys m
      | some k => if k ∈ keys m then keys m else keys m ++ [k] := by
  unfold mapStep
  cases e.1 with
  | none => rfl
  | some k => simp [keys_mapSet, keys_mapEmplace]

theorem keys_foldl_onlyExist (L : Loader ι α) (doc : List (Option Int × ι)) (m : MapOf α) :
    keys (doc.foldl (mapStep L .onlyExist) m) = keys m := by
  induction doc generalizing m with
  | nil => rfl
  | cons e doc ih => simp [ih, keys_mapStep_onlyExist]

theorem keys_foldl_update_mono (L : Loader ι α) (doc : List (Option Int × ι)) (m : MapOf α) (k : Int) (h : k ∈ keys m) :
    k ∈ keys (doc.foldl (mapStep L .update) m) := by
  induction doc generalizing m with
  | nil => exact h
  | cons e doc ih =>
    simp only [List.foldl_cons]
    apply ih
    rw [keys_mapStep_update]
    cases e.1 with
    | none => exact h
    | some k' =>
      simp only
      split
      · exact h
      · simp [h]

theorem keys_foldl_update_doc (L : Loader ι α) (doc : List (Option Int × ι)) (m : MapOf α) (k : Int) (it : ι)
    (h : (some k, it) ∈ doc) : k ∈ keys (doc.foldl (mapStep L .update) m) := by
  induction doc generalizing m with
  | nil => simp at h
  | cons e doc ih =>
    simp only [List.foldl_cons]
    rcases List.mem_cons.mp h with rfl | h'
    · apply keys_foldl_update_mono
      rw [keys_mapStep_update]
      simp only
      split
      · assumption
      · simp
    · exact ih _ h'

end BSVerif.Cont
