/-
  MODEL of container loading (C18):
    serialization_detail/generic_container.h  SerializeContainer      -> `serializeContainer`
    types/std/forward_list.h                  SerializeArray          -> `serializeForwardList`
    types/std/vector.h  (vector<bool>)        SerializeArray          -> `serializeVectorBool`
    types/std/bitset.h                        SerializeArray          -> `serializeBitset`
    serialization_base_types.h                SerializeFixedSizeArray -> `serializeFixedArray`
    types/std/valarray.h                      SerializeArray          -> `serializeValarray`
    types/std/{queue,stack}.h                 (the underlying container through SerializeContainer)
    serialization_detail/generic_set.h        SerializeSetImpl        -> `serializeSet`
    serialization_detail/generic_map.h        SerializeMapImpl / SerializeMultiMapImpl -> `serializeMap`, `serializeMultiMap`
    types/std/optional.h, memory.h            Serialize               -> `serializeOptional`
    serialization_base_types.h                Serialize(string)       -> `scalar` loader over byte lists

  The archive is ABSTRACT: an array scope is `(estimatedSize, items)`; what one `Serialize(scope, elem)`
  does to an element target is a `Loader`: `load item old = (returned flag, new value)`. A scalar element is
  `Option α` (`none` = Serialize returned false: skipped by policy / nil / wrong kind; target untouched).
  Container kinds are loaders again, so nesting is composition.
-/
namespace BSVerif.Cont

/-- what `Serialize(scope, target)` does for one archive item: `(result flag, new target value)`.
    `dflt` is the value of a value-initialised target (`TValue()`, `emplace_back()`, `resize`). -/
structure Loader (ι α : Type) where
  dflt : α
  load : ι → α → Bool × α

/-- fundamental types and strings: `some v` loads `v` and returns true; `none` returns false and leaves the target -/
def scalar {α : Type} (d : α) : Loader (Option α) α :=
  ⟨d, fun it old => match it with | some v => (true, v) | none => (false, old)⟩

/-- `cont.resize(n)` -/
def resize {α : Type} (d : α) (n : Nat) (l : List α) : List α := l.take n ++ List.replicate (n - l.length) d

/-! ### SerializeContainer (vector, deque, list, and the containers under queue/stack/priority_queue) -/

/-- `for (it = begin; it != end && !IsEnd(); ++it, ++loadedItems) Serialize(scope, *it);`
    returns (container, unread items, loadedItems) -/
def loadExisting {ι α : Type} (L : Loader ι α) : List α → List ι → List α × List ι × Nat
  | [], its => ([], its, 0)
  | c :: cs, [] => (c :: cs, [], 0)
  | c :: cs, it :: its =>
    let r := loadExisting L cs its
    ((L.load it c).2 :: r.1, r.2.1, r.2.2 + 1)

/-- `for (; !IsEnd(); ++loadedItems) Serialize(scope, cont.emplace_back());` -/
def loadRest {ι α : Type} (L : Loader ι α) : List α → List ι → Nat → List α × Nat
  | cont, [], n => (cont, n)
  | cont, it :: its, n => loadRest L (cont ++ [(L.load it L.dflt).2]) its (n + 1)

def serializeContainer {ι α : Type} (L : Loader ι α) (prior : List α) (est : Nat) (items : List ι) : List α :=
  let cont := if est ≠ 0 then resize L.dflt est prior else prior
  let r1 := loadExisting L cont items
  let r2 := loadRest L r1.1 r1.2.1 r1.2.2
  resize L.dflt r2.2 r2.1

/-- an array value in the archive: `none` = the value is not an array (OpenArrayScope returned nullopt: the
    target is not touched and Serialize returns false) -/
abbrev ArrItem (ι : Type) := Option (Nat × List ι)

def vecLoader {ι α : Type} (L : Loader ι α) : Loader (ArrItem ι) (List α) :=
  ⟨[], fun it old => match it with
    | some (est, items) => (true, serializeContainer L old est items)
    | none => (false, old)⟩

/-! ### std::forward_list — a zipper: nodes already passed (reversed; its head is `LastIt`) and nodes ahead -/

/-- first loop; `LastIt` is the head of the first component afterwards (or `begin()` if nothing was visited) -/
def fwdLoop1 {ι α : Type} (L : Loader ι α) : List α → List α → List ι → Nat → List α × List α × List ι × Nat
  | v, [], its, n => (v, [], its, n)
  | v, c :: cs, [], n => (v, c :: cs, [], n)
  | v, c :: cs, it :: its, n => fwdLoop1 L ((L.load it c).2 :: v) cs its (n + 1)

/-- second loop: `LastIt = cont.emplace_after(LastIt); Serialize(scope, *LastIt);`
    `none` = undefined behaviour (`emplace_after(end())` on an empty list) -/
def fwdLoop2 {ι α : Type} (L : Loader ι α) : List α → List α → List ι → Nat → Option (List α × Nat)
  | v, a, [], n => some (v.reverse ++ a, n)
  | [], [], _ :: _, _ => none
  | [], c :: cs, it :: its, n => fwdLoop2 L [(L.load it L.dflt).2, c] cs its (n + 1)
  | x :: v, a, it :: its, n => fwdLoop2 L ((L.load it L.dflt).2 :: x :: v) a its (n + 1)

def serializeForwardList {ι α : Type} (L : Loader ι α) (prior : List α) (est : Nat) (items : List ι) : Option (List α) :=
  let cont := if est ≠ 0 then resize L.dflt est prior else if prior.isEmpty then resize L.dflt 1 prior else prior
  let r1 := fwdLoop1 L [] cont items 0
  match fwdLoop2 L r1.1 r1.2.1 r1.2.2.1 r1.2.2.2 with
  | some r2 => some (resize L.dflt r2.2 r2.1)
  | none => none

/-! ### std::vector<bool> and std::bitset: ONE local `bool value` is carried through all iterations -/

/-- first loop of the vector<bool> overload: `Serialize(archive, value); *it = value;` -/
def vbLoop1 : Bool → List Bool → List (Option Bool) → List Bool × List (Option Bool) × Nat × Bool
  | v, [], its => ([], its, 0, v)
  | v, c :: cs, [] => (c :: cs, [], 0, v)
  | v, _ :: cs, it :: its =>
    let v' := it.getD v
    let r := vbLoop1 v' cs its
    (v' :: r.1, r.2.1, r.2.2.1 + 1, r.2.2.2)

/-- second loop: `Serialize(archive, value); cont.push_back(value);` -/
def vbLoop2 : Bool → List Bool → List (Option Bool) → Nat → List Bool × Nat
  | _, cont, [], n => (cont, n)
  | v, cont, it :: its, n => vbLoop2 (it.getD v) (cont ++ [it.getD v]) its (n + 1)

def serializeVectorBool (prior : List Bool) (est : Nat) (items : List (Option Bool)) : List Bool :=
  let cont := if est ≠ 0 then resize false est prior else prior
  let r1 := vbLoop1 false cont items
  let r2 := vbLoop2 r1.2.2.2 r1.1 r1.2.1 r1.2.2.1
  resize false r2.2 r2.1

inductive Err where
  | outOfRange
  deriving Repr, DecidableEq

/-- `for (i < Size) { Serialize(archive, value); cont.set(i, value); }`; the array scope throws OutOfRange
    when it has no more items (CheckEnd); surplus items are not looked at -/
def bitsetLoop : Bool → List Bool → List (Option Bool) → Except Err (List Bool)
  | _, [], _ => .ok []
  | _, _ :: _, [] => .error .outOfRange
  | v, _ :: cs, it :: its =>
    match bitsetLoop (it.getD v) cs its with
    | .ok r => .ok (it.getD v :: r)
    | .error e => .error e

def serializeBitset (prior : List Bool) (items : List (Option Bool)) : Except Err (List Bool) :=
  bitsetLoop false prior items

/-! ### fixed size arrays (std::array, C arrays) -/

/-- `for (; it != endIt && !IsEnd(); ++it) Serialize(scope, *it);` returns (array, reached endIt, scope at end) -/
def fixedLoop {ι α : Type} (L : Loader ι α) : List α → List ι → List α × Bool × Bool
  | [], its => ([], true, its.isEmpty)
  | c :: cs, [] => (c :: cs, false, true)
  | c :: cs, it :: its =>
    let r := fixedLoop L cs its
    ((L.load it c).2 :: r.1, r.2.1, r.2.2)

def serializeFixedArray {ι α : Type} (L : Loader ι α) (prior : List α) (items : List ι) : Except Err (List α) :=
  let r := fixedLoop L prior items
  if !r.2.1 || !r.2.2 then .error .outOfRange else .ok r.1

/-! ### std::valarray: loaded through a temporary vector -/

def serializeValarray {ι α : Type} (L : Loader ι α) (_prior : List α) (est : Nat) (items : List ι) : List α :=
  let temp := serializeContainer L [] est items
  resize L.dflt temp.length [] |>.zipWith (fun _ t => t) temp

/-! ### sets: `clear(); while (!IsEnd()) { TValue value{}; Serialize(scope, value); hint = insert(hint, value); }`
    A set is the list of its members in insertion order (the driver sorts for printing); the hint does not
    change the resulting set. -/

def setInsert {α : Type} [DecidableEq α] (unique : Bool) (s : List α) (v : α) : List α :=
  if unique ∧ v ∈ s then s else s ++ [v]

def serializeSet {ι α : Type} [DecidableEq α] (L : Loader ι α) (unique : Bool) (_prior : List α) (items : List ι) : List α :=
  items.foldl (fun s it => setInsert unique s (L.load it L.dflt).2) []

/-! ### maps -/

inductive MapMode where
  | clean | onlyExist | update
  deriving Repr, DecidableEq

abbrev MapOf (α : Type) := List (Int × α)      -- association list with unique keys

def mapFind {α : Type} (k : Int) : MapOf α → Option α
  | [] => none
  | (k', v) :: m => if k' = k then some v else mapFind k m

def mapSet {α : Type} (k : Int) (v : α) : MapOf α → MapOf α
  | [] => []
  | (k', v') :: m => if k' = k then (k', v) :: m else (k', v') :: mapSet k v m

/-- `try_emplace(key)` / `operator[]`: add a value-initialised entry when the key is new -/
def mapEmplace {α : Type} (k : Int) (d : α) (m : MapOf α) : MapOf α :=
  match mapFind k m with
  | some _ => m
  | none => m ++ [(k, d)]

/-- one key visited by `VisitKeys`: `key = none` = the archive key is not convertible to the map's key type
    (ConvertByPolicy returned false): the entry is passed over -/
def mapStep {ι α : Type} (L : Loader ι α) (mode : MapMode) (m : MapOf α) (e : Option Int × ι) : MapOf α :=
  match e.1 with
  | none => m
  | some k =>
    match mode with
    | .clean =>          -- hint = try_emplace(hint, key); Serialize(scope, archiveKey, hint->second)
      let m1 := mapEmplace k L.dflt m
      mapSet k (L.load e.2 ((mapFind k m1).getD L.dflt)).2 m1
    | .onlyExist =>      -- hint = find(key); if (hint != end) Serialize(scope, archiveKey, hint->second)
      match mapFind k m with
      | some old => mapSet k (L.load e.2 old).2 m
      | none => m
    | .update =>         -- Serialize(scope, archiveKey, cont[key])
      let m1 := mapEmplace k L.dflt m
      mapSet k (L.load e.2 ((mapFind k m1).getD L.dflt)).2 m1

def serializeMap {ι α : Type} (L : Loader ι α) (mode : MapMode) (prior : MapOf α) (doc : List (Option Int × ι)) : MapOf α :=
  doc.foldl (mapStep L mode) (if mode = .clean then [] else prior)

/-- an object value in the archive (`none` = not an object: target untouched) -/
abbrev ObjItem (ι : Type) := Option (List (Option Int × ι))

def mapLoader {ι α : Type} (L : Loader ι α) (mode : MapMode) : Loader (ObjItem ι) (MapOf α) :=
  ⟨[], fun it old => match it with
    | some doc => (true, serializeMap L mode old doc)
    | none => (false, old)⟩

/-- multimap: `clear(); while (!IsEnd()) { value_type pair; if (Serialize(scope, pair)) emplace_hint(end(), pair); }`
    (the list is in insertion order; a std::multimap iterates it stably sorted by key).
    An item is `none` when the element is not an object; otherwise the optional "key" and the "value" field.
    (A pair is value-initialised by std::pair's default constructor.) -/
def serializeMultiMap {ι α : Type} (L : Loader ι α) (_prior : List (Int × α)) (items : List (Option (Option Int × ι))) : List (Int × α) :=
  items.foldl (fun m it => match it with
    | some (k, v) => m ++ [(k.getD 0, (L.load v L.dflt).2)]
    | none => m) []

/-! ### optional / unique_ptr / shared_ptr: create when empty, load, reset on failure -/

def serializeOptional {ι α : Type} (L : Loader ι α) (it : ι) (prior : Option α) : Bool × Option α :=
  let cur := prior.getD L.dflt
  let r := L.load it cur
  if r.1 then (true, some r.2) else (false, none)

def optLoader {ι α : Type} (L : Loader ι α) : Loader ι (Option α) := ⟨none, serializeOptional L⟩

/-! ### the root: `LoadObject(target, doc)` is `Serialize(rootScope, target)` -/

def loadObject {ι α : Type} (L : Loader ι α) (it : ι) (prior : α) : α := (L.load it prior).2

end BSVerif.Cont
