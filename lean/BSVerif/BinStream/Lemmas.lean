/-
  Helper lemmas for C10: slices of the underlying byte string and the invariant of the
  CBinaryStreamReader model.
-/
import BSVerif.BinStream.Model

namespace BSVerif.BinStream

/-- `n` bytes of `d` starting at offset `a` (fewer at the end) -/
def slice (d : List Nat) (a n : Nat) : List Nat := (d.drop a).take n

theorem slice_length (d : List Nat) (a n : Nat) : (slice d a n).length = min n (d.length - a) := by
  simp [slice, List.length_take, List.length_drop]

theorem slice_zero (d : List Nat) (a : Nat) : slice d a 0 = [] := by simp [slice]

theorem slice_beyond (d : List Nat) (a n : Nat) (h : d.length ≤ a) : slice d a n = [] := by
  simp [slice, List.drop_eq_nil_of_le h]

theorem slice_append (d : List Nat) (a n m : Nat) : slice d a n ++ slice d (a + n) m = slice d a (n + m) := by
  simp only [slice]
  rw [List.take_add, List.drop_drop]

theorem slice_drop (d : List Nat) (a n k : Nat) : (slice d a n).drop k = slice d (a + k) (n - k) := by
  simp only [slice]
  rw [List.drop_take, List.drop_drop]

theorem slice_take (d : List Nat) (a n k : Nat) : (slice d a n).take k = slice d a (min k n) := by
  simp only [slice]
  rw [List.take_take]

theorem slice_head (d : List Nat) (a n : Nat) (hn : 0 < n) : (slice d a n).head? = d[a]? := by
  simp only [slice]
  rw [List.head?_take]
  simp [Nat.ne_of_gt hn, List.head?_drop]

theorem slice_full (d : List Nat) (a n : Nat) (h : d.length - a ≤ n) : slice d a n = d.drop a := by
  simp only [slice]
  exact List.take_of_length_le (by simp [List.length_drop]; omega)

theorem slice_eq_of_le (d : List Nat) (a n m : Nat) (hn : d.length - a ≤ n) (hm : d.length - a ≤ m) :
    slice d a n = slice d a m := by
  rw [slice_full d a n hn, slice_full d a m hm]

local macro "triv" : term => `(by first | rfl | trivial)

structure RInv0 (r : Reader) : Prop where
  nPos : 0 < r.N
  startLe : r.startOff ≤ r.buf.length
  bufLe : r.buf.length ≤ r.N
  posGe : r.buf.length ≤ r.streamPos
  posLe : r.streamPos ≤ r.stream.data.length
  bufEq : r.buf = slice r.stream.data (r.streamPos - r.buf.length) r.buf.length
  spos : r.stream.pos = r.streamPos
  eofEnd : r.stream.eof = true → r.streamPos = r.stream.data.length
  failEof : r.stream.fail = true → r.stream.eof = true

/-- full invariant between operations: additionally, an emptied window at the very end of the data
    has already been noticed (`IsEnd()` is exact) -/
structure RInv (r : Reader) : Prop where
  base : RInv0 r
  endEof : r.startOff = r.buf.length → r.streamPos = r.stream.data.length → r.stream.eof = true

theorem slice_min (d : List Nat) (a n : Nat) : slice d a (min n (d.length - a)) = slice d a n := by
  by_cases h : n ≤ d.length - a
  · rw [Nat.min_eq_left h]
  · have h' : d.length - a ≤ n := by omega
    rw [Nat.min_eq_right h']
    exact slice_eq_of_le _ _ _ _ (Nat.le_refl _) h'

theorem win_length (r : Reader) : r.win.length = r.buf.length - r.startOff := by
  simp [Reader.win, List.length_drop]

theorem win_eq (r : Reader) (h : RInv0 r) :
    r.win = slice r.stream.data r.getPosition r.win.length := by
  have hw := win_length r
  unfold Reader.getPosition
  rw [hw]
  unfold Reader.win
  conv => lhs; rw [h.bufEq]
  rw [slice_drop]
  have := h.startLe; have := h.posGe
  congr 1; omega

/-- `istream::read` on a healthy stream -/
theorem read_good (s : Stream) (n : Nat) (hg : s.good = true) (hp : s.pos ≤ s.data.length) :
    (s.read n).1 = slice s.data s.pos n ∧ (s.read n).2.data = s.data ∧
    (s.read n).2.pos = s.pos + (s.read n).1.length ∧
    ((s.read n).2.eof = decide (s.data.length - s.pos < n)) ∧ ((s.read n).2.fail = (s.read n).2.eof) := by
  unfold Stream.read
  simp only [hg, Bool.not_true, Bool.false_eq_true, if_false]
  unfold Stream.good at hg
  simp at hg
  by_cases ha : s.data.length - s.pos < n
  · simp only [ha, if_true, decide_true]
    refine ⟨(slice_full _ _ _ (by omega)).symm, trivial, ?_, trivial, trivial⟩
    simp [List.length_drop]; omega
  · simp only [ha, if_false, decide_false]
    refine ⟨rfl, trivial, ?_, hg.1, by simp [hg.1, hg.2]⟩
    simp [List.length_take, List.length_drop]; omega

theorem read_bad (s : Stream) (n : Nat) (hg : s.good = false) :
    (s.read n).1 = [] ∧ (s.read n).2 = { s with fail := true } := by
  unfold Stream.read; simp [hg]

/-- the three squeeze/reset branches of `ReadNextChunk` all leave `buf = unread window`, `startOff = 0` -/
theorem squeeze_eq (r : Reader) (h : RInv0 r) :
    (if r.startOff = r.N then { r with buf := [], startOff := 0 }
     else if r.startOff ≠ 0 then { r with buf := r.win, startOff := 0 } else r)
      = { r with buf := r.win, startOff := 0 } := by
  by_cases h1 : r.startOff = r.N
  · have : r.win = [] := by
      have hl := win_length r
      have := h.startLe; have := h.bufLe
      have : r.win.length = 0 := by omega
      simpa using this
    simp [h1, this]
  · by_cases h2 : r.startOff = 0
    · have : r.win = r.buf := by simp [Reader.win, h2]
      simp only [h1, if_false, h2, ne_eq, not_true_eq_false, this]
      cases r; simp_all
    · simp [h1, h2]

theorem getPosition_le (r : Reader) (h : RInv0 r) : r.getPosition ≤ r.stream.data.length := by
  unfold Reader.getPosition; have := h.posLe; omega

theorem rnc_eq (r : Reader) (h : RInv0 r) (hend : r.isEnd = false) :
    r.readNextChunk = (!(r.stream.read (r.N - r.win.length)).1.isEmpty,
      { N := r.N, buf := r.win ++ (r.stream.read (r.N - r.win.length)).1, startOff := 0,
        streamPos := r.streamPos + (r.stream.read (r.N - r.win.length)).1.length,
        stream := (r.stream.read (r.N - r.win.length)).2 }) := by
  unfold Reader.readNextChunk
  simp only [hend, Bool.false_eq_true, if_false]
  rw [squeeze_eq r h]

theorem win_mk (N : Nat) (b : List Nat) (sp : Nat) (st : Stream) :
    (Reader.mk N b 0 sp st).win = b := by simp [Reader.win]

theorem readNextChunk_spec (r : Reader) (h : RInv0 r) :
    RInv r.readNextChunk.2 ∧ r.readNextChunk.2.getPosition = r.getPosition ∧
    r.readNextChunk.2.stream.data = r.stream.data ∧ r.readNextChunk.2.N = r.N ∧
    r.readNextChunk.2.win = slice r.stream.data r.getPosition r.N ∧
    (r.readNextChunk.1 = (decide (r.win.length < r.readNextChunk.2.win.length))) := by
  have hwl := win_length r
  have hweq := win_eq r h
  have hple := getPosition_le r h
  have hsl := h.startLe; have hpg := h.posGe; have hbl := h.bufLe; have hpl := h.posLe; have hsp := h.spos; have hn := h.nPos
  have hpos : r.getPosition + r.win.length = r.streamPos := by
    unfold Reader.getPosition; omega
  by_cases hend : r.isEnd = true
  · have : r.readNextChunk = (false, r) := by unfold Reader.readNextChunk; simp [hend]
    rw [this]
    unfold Reader.isEnd at hend
    simp at hend
    have hw : r.win = [] := hend.1
    have he := h.eofEnd hend.2
    refine ⟨⟨h, fun _ _ => hend.2⟩, rfl, rfl, rfl, ?_, by simp⟩
    simp only
    rw [hw]
    have : r.getPosition = r.stream.data.length := by rw [hw] at hpos; simp at hpos; omega
    rw [this, slice_beyond _ _ _ (Nat.le_refl _)]
  · have hend' : r.isEnd = false := by simpa using hend
    rw [rnc_eq r h hend']
    by_cases hg : r.stream.good = true
    · obtain ⟨g1, g2, g3, g4, g5⟩ := read_good r.stream (r.N - r.win.length) hg (by rw [h.spos]; exact h.posLe)
      generalize r.stream.read (r.N - r.win.length) = rd at *
      obtain ⟨got, st⟩ := rd
      simp only at g1 g2 g3 g4 g5 ⊢
      have hwin' : r.win ++ got = slice r.stream.data r.getPosition r.N := by
        rw [g1, h.spos, ← hpos]
        conv => lhs; lhs; rw [hweq]
        rw [slice_append]
        congr 1
        omega
      have hgl : got.length = min (r.N - r.win.length) (r.stream.data.length - r.streamPos) := by
        rw [g1, slice_length, h.spos]
      have hlen : r.win.length + got.length = min r.N (r.stream.data.length - r.getPosition) := by
        have := congrArg List.length hwin'
        simpa [slice_length] using this
      refine ⟨?_, ?_, g2, trivial, ?_, ?_⟩
      · refine ⟨⟨hn, Nat.zero_le _, ?_, ?_, ?_, ?_, ?_, ?_, ?_⟩, ?_⟩
        · simp only [List.length_append]; omega
        · simp only [List.length_append]; omega
        · simp only [g2]; omega
        · simp only [g2, List.length_append]
          rw [hwin', hlen]
          have : r.streamPos + got.length - min r.N (r.stream.data.length - r.getPosition) = r.getPosition := by omega
          rw [this, slice_min]
        · simp only [g3, h.spos]
        · intro he; rw [g4] at he; simp at he; simp only [g2]; omega
        · intro hf; rw [g5] at hf; exact hf
        · intro hs hp
          simp only [List.length_append] at hs
          simp only [g2] at hp
          rw [g4]; simp; omega
      · unfold Reader.getPosition
        rw [win_mk]; simp only [List.length_append]; omega
      · rw [win_mk]; exact hwin'
      · rw [win_mk]; simp only [List.length_append]
        cases got <;> simp
    · have hg' : r.stream.good = false := by simpa using hg
      obtain ⟨b1, b2⟩ := read_bad r.stream (r.N - r.win.length) hg'
      generalize r.stream.read (r.N - r.win.length) = rd at *
      obtain ⟨got, st⟩ := rd
      simp only at b1 b2 ⊢
      subst b1 b2
      have heof : r.stream.eof = true := by
        unfold Stream.good at hg'
        cases he : r.stream.eof
        · cases hf : r.stream.fail
          · simp [he, hf] at hg'
          · exact absurd (h.failEof hf) (by simp [he])
        · rfl
      have hse := h.eofEnd heof
      refine ⟨?_, ?_, rfl, trivial, ?_, ?_⟩
      · refine ⟨⟨hn, Nat.zero_le _, ?_, ?_, ?_, ?_, ?_, ?_, ?_⟩, ?_⟩
        · simp; omega
        · simp; omega
        · simp; omega
        · simp only [List.append_nil, List.length_nil, Nat.add_zero]
          have : r.streamPos - r.win.length = r.getPosition := by omega
          rw [this]; exact hweq
        · simp [h.spos]
        · intro _; simp; exact hse
        · intro _; exact heof
        · intro _ _; exact heof
      · unfold Reader.getPosition; rw [win_mk]; simp
      · rw [win_mk]; simp only [List.append_nil]
        rw [hweq]
        exact slice_eq_of_le _ _ _ _ (by omega) (by omega)
      · rw [win_mk]; simp

/-! ### operation-level lemmas -/

theorem win_nonempty_pos (r : Reader) (h : RInv0 r) (hw : r.win ≠ []) :
    r.getPosition < r.stream.data.length ∧ r.win.head? = r.stream.data[r.getPosition]? := by
  have hweq := win_eq r h
  have hl : 0 < r.win.length := by cases hr : r.win with
    | nil => exact absurd hr hw
    | cons _ _ => simp
  have := congrArg List.length hweq
  rw [slice_length] at this
  refine ⟨by omega, ?_⟩
  rw [hweq, slice_head _ _ _ hl]

theorem ensure_spec (r : Reader) (h : RInv r) :
    RInv r.ensure.2 ∧ r.ensure.2.getPosition = r.getPosition ∧ r.ensure.2.stream.data = r.stream.data ∧
    r.ensure.2.N = r.N ∧ r.ensure.1 = decide (r.getPosition < r.stream.data.length) ∧
    (r.ensure.1 = true → r.ensure.2.win ≠ []) := by
  unfold Reader.ensure
  by_cases hw : r.win.isEmpty = true
  · have hw' : r.win = [] := by simpa using hw
    simp only [hw, Bool.not_true, Bool.false_eq_true, if_false]
    obtain ⟨a1, a2, a3, a4, a5, a6⟩ := readNextChunk_spec r h.base
    refine ⟨a1, a2, a3, a4, ?_, ?_⟩
    · rw [a6, a5, hw', slice_length]
      have := h.base.nPos
      simp only [List.length_nil]
      by_cases hp : r.getPosition < r.stream.data.length
      · simp [hp]; omega
      · simp [hp]; omega
    · rw [a6, hw']; simp
      intro hl h0; rw [h0] at hl; simp at hl
  · have hw' : r.win ≠ [] := by simpa using hw
    simp only [hw, Bool.not_false, if_true]
    refine ⟨h, triv, triv, triv, ?_, fun _ => hw'⟩
    simp [(win_nonempty_pos r h.base hw').1]

/-- consuming `k` buffered bytes -/
theorem advance_spec (r : Reader) (h : RInv0 r) (k : Nat) (hk : k ≤ r.win.length) :
    RInv0 { r with startOff := r.startOff + k } ∧
    ({ r with startOff := r.startOff + k } : Reader).getPosition = r.getPosition + k := by
  have hwl := win_length r
  have := h.startLe; have := h.posGe
  refine ⟨⟨h.nPos, by simp; omega, h.bufLe, h.posGe, h.posLe, h.bufEq, h.spos, h.eofEnd, h.failEof⟩, ?_⟩
  unfold Reader.getPosition
  simp only [win_length]; omega

theorem finish_rnc (r : Reader) (h : RInv0 r) :
    RInv (if r.win.isEmpty then r.readNextChunk.2 else r) ∧
    (if r.win.isEmpty then r.readNextChunk.2 else r).getPosition = r.getPosition ∧
    (if r.win.isEmpty then r.readNextChunk.2 else r).stream.data = r.stream.data ∧
    (if r.win.isEmpty then r.readNextChunk.2 else r).N = r.N := by
  by_cases hw : r.win.isEmpty = true
  · simp only [hw, if_true]
    obtain ⟨a1, a2, a3, a4, _, _⟩ := readNextChunk_spec r h
    exact ⟨a1, a2, a3, a4⟩
  · simp only [hw, Bool.false_eq_true, if_false]
    refine ⟨⟨h, ?_⟩, triv, triv, triv⟩
    intro hs
    have : r.win.length = 0 := by rw [win_length]; omega
    have : r.win = [] := by simpa using this
    simp [this] at hw

theorem finish_peek (r : Reader) (h : RInv0 r) :
    RInv (if r.win.isEmpty then { r with stream := r.stream.peek } else r) ∧
    (if r.win.isEmpty then { r with stream := r.stream.peek } else r).getPosition = r.getPosition ∧
    (if r.win.isEmpty then { r with stream := r.stream.peek } else r).stream.data = r.stream.data ∧
    (if r.win.isEmpty then { r with stream := r.stream.peek } else r).N = r.N := by
  by_cases hw : r.win.isEmpty = true
  · simp only [hw, if_true]
    have hpl := h.posLe; have hsp := h.spos
    unfold Stream.peek
    by_cases hg : r.stream.good = true
    · simp only [hg, Bool.not_true, Bool.false_eq_true, if_false]
      unfold Stream.good at hg; simp at hg
      by_cases hp : r.stream.pos ≥ r.stream.data.length
      · simp only [hp, if_true]
        refine ⟨⟨⟨h.nPos, h.startLe, h.bufLe, h.posGe, h.posLe, h.bufEq, h.spos, ?_, ?_⟩, ?_⟩, ?_, triv, triv⟩
        · intro _; simp only; omega
        · intro hf; simp only at hf; simp [hg.2] at hf
        · intro _ _; rfl
        · simp [Reader.getPosition, Reader.win]
      · simp only [hp, if_false]
        refine ⟨⟨h, ?_⟩, triv, triv, triv⟩
        intro _ hs; simp only at hs; omega
    · have hg' : r.stream.good = false := by simpa using hg
      simp only [hg', Bool.not_false, if_true]
      have heof : r.stream.eof = true := by
        unfold Stream.good at hg'
        cases he : r.stream.eof
        · cases hf : r.stream.fail
          · simp [he, hf] at hg'
          · exact absurd (h.failEof hf) (by simp [he])
        · rfl
      refine ⟨⟨⟨h.nPos, h.startLe, h.bufLe, h.posGe, h.posLe, h.bufEq, h.spos, h.eofEnd, fun _ => heof⟩, fun _ _ => heof⟩, ?_, triv, triv⟩
      simp [Reader.getPosition, Reader.win]
  · simp only [hw, Bool.false_eq_true, if_false]
    refine ⟨⟨h, ?_⟩, triv, triv, triv⟩
    intro hs
    have : r.win.length = 0 := by rw [win_length]; omega
    have : r.win = [] := by simpa using this
    simp [this] at hw


end BSVerif.BinStream
