/-
  MODEL of `CBinaryStreamReader` (src/common/binary_stream_reader.{h,cpp}), generic in the cache
  size `N` (= chunk_size), over a seekable `std::istream` backed by a byte string.

  The istream is `(data, pos, eof, fail)` with the C++ rules that matter here:
  * `read(n)`: a sentry fails (nothing read, failbit set) unless the stream is good; otherwise
    `min n (len-pos)` bytes are delivered and, if fewer than `n`, eofbit|failbit are set;
  * `peek()`: if good and at the end, sets eofbit; if not good, sets failbit;
  * `clear()`: resets both flags;  `seekg(p)`: clears eofbit first, is a no-op when failbit is set,
    fails (failbit) when `p > len`, else moves.
  The reader keeps the whole cached chunk `buf` (bytes between mBuffer and mEndDataPtr) and
  `startOff` = mStartDataPtr − mBuffer; the unread window is `buf.drop startOff`.
-/
import BSVerif.Basic

namespace BSVerif.BinStream

structure Stream where
  data : List Nat
  pos : Nat
  eof : Bool
  fail : Bool
  deriving Repr, DecidableEq

def Stream.good (s : Stream) : Bool := !s.eof && !s.fail

def Stream.read (s : Stream) (n : Nat) : List Nat × Stream :=
  if !s.good then ([], { s with fail := true })
  else
    let avail := s.data.length - s.pos
    if avail < n then ((s.data.drop s.pos), { s with pos := s.data.length, eof := true, fail := true })
    else ((s.data.drop s.pos).take n, { s with pos := s.pos + n })

def Stream.peek (s : Stream) : Stream :=
  if !s.good then { s with fail := true }
  else if s.pos ≥ s.data.length then { s with eof := true }
  else s

def Stream.clear (s : Stream) : Stream := { s with eof := false, fail := false }

def Stream.seekg (s : Stream) (p : Nat) : Stream :=
  let s1 := { s with eof := false }
  if s1.fail then s1
  else if p > s1.data.length then { s1 with fail := true }
  else { s1 with pos := p }

structure Reader where
  N : Nat
  buf : List Nat        -- bytes from mBuffer to mEndDataPtr
  startOff : Nat        -- mStartDataPtr - mBuffer
  streamPos : Nat       -- mStreamPos
  stream : Stream
  deriving Repr

def Reader.win (r : Reader) : List Nat := r.buf.drop r.startOff

/-- `IsEnd()` -/
def Reader.isEnd (r : Reader) : Bool := r.win.isEmpty && r.stream.eof

/-- `IsFailed()` -/
def Reader.isFailed (r : Reader) : Bool := r.stream.fail

/-- `GetPosition()` -/
def Reader.getPosition (r : Reader) : Nat := r.streamPos - r.win.length

/-- `ReadNextChunk()` -/
def Reader.readNextChunk (r : Reader) : Bool × Reader :=
  if r.isEnd then (false, r)
  else
    let r1 : Reader :=
      if r.startOff = r.N then { r with buf := [], startOff := 0 }
      else if r.startOff ≠ 0 then { r with buf := r.win, startOff := 0 }
      else r
    let (got, st) := r1.stream.read (r1.N - r1.buf.length)
    (!got.isEmpty, { r1 with buf := r1.buf ++ got, streamPos := r1.streamPos + got.length, stream := st })

/-- constructor -/
def Reader.mk' (N : Nat) (data : List Nat) : Reader :=
  (Reader.readNextChunk ⟨N, [], 0, 0, ⟨data, 0, false, false⟩⟩).2

/-- `SetPosition(pos)` -/
def Reader.setPosition (r : Reader) (pos : Nat) : Bool × Reader :=
  let cached := r.buf.length
  if pos + cached ≥ r.streamPos ∧ pos < r.streamPos then
    (true, { r with startOff := pos + cached - r.streamPos })
  else
    let st := if pos ≠ r.streamPos then r.stream.clear else r.stream
    let st2 := if pos = r.streamPos then st else st.seekg pos
    if pos = r.streamPos ∨ !st2.fail then
      let r1 := { r with streamPos := pos, buf := [], startOff := 0, stream := st2 }
      (true, r1.readNextChunk.2)
    else (false, { r with stream := st2 })

/-- common guard `mStartDataPtr != mEndDataPtr || ReadNextChunk()` -/
def Reader.ensure (r : Reader) : Bool × Reader :=
  if !r.win.isEmpty then (true, r) else r.readNextChunk

/-- `PeekByte()` -/
def Reader.peekByte (r : Reader) : Option Nat × Reader :=
  let (ok, r1) := r.ensure
  if ok then (r1.win.head?, r1) else (none, r1)

/-- `GotoNextByte()` -/
def Reader.gotoNextByte (r : Reader) : Reader :=
  let (ok, r1) := r.ensure
  if ok then
    let r2 := { r1 with startOff := r1.startOff + 1 }
    if r2.win.isEmpty then r2.readNextChunk.2 else r2
  else r1

/-- `ReadByte()` -/
def Reader.readByte (r : Reader) : Option Nat × Reader :=
  let (ok, r1) := r.ensure
  if ok then
    let b := r1.win.head?
    let r2 := { r1 with startOff := r1.startOff + 1 }
    (b, if r2.win.isEmpty then r2.readNextChunk.2 else r2)
  else (none, r1)

/-- `ReadSolidBlock(blockSize)`: `none` models the empty string_view returned on failure -/
def Reader.readSolidBlock (r : Reader) (k : Nat) : Option (List Nat) × Reader :=
  if k > r.N then (none, r)
  else
    let (okRead, r1) : Bool × Reader :=
      if r.win.length < k then
        let (ok, r') := r.readNextChunk
        (ok && !(r'.win.length < k), r')
      else (true, r)
    if !okRead then (none, r1)
    else
      let block := r1.win.take k
      let r2 := { r1 with startOff := r1.startOff + k }
      (some block, if r2.win.isEmpty then { r2 with stream := r2.stream.peek } else r2)

/-- `ReadByChunks(remainingSize)` -/
def Reader.readByChunks (r : Reader) (remaining : Nat) : Option (List Nat) × Reader :=
  let (ok, r1) := r.ensure
  if ok then
    let n := min r1.win.length remaining
    let block := r1.win.take n
    let r2 := { r1 with startOff := r1.startOff + n }
    (some block, if r2.win.isEmpty then { r2 with stream := r2.stream.peek } else r2)
  else (none, r1)

/-! ### abstract specification: a cursor over the byte string -/

structure Cursor where
  data : List Nat
  pos : Nat
  deriving Repr, DecidableEq

def Cursor.peekByte (c : Cursor) : Option Nat := c.data[c.pos]?
def Cursor.advance (c : Cursor) (k : Nat) : Cursor := { c with pos := min (c.pos + k) c.data.length }
def Cursor.isEnd (c : Cursor) : Bool := c.pos ≥ c.data.length
def Cursor.block (c : Cursor) (k : Nat) : Option (List Nat) :=
  if c.pos + k ≤ c.data.length then some ((c.data.drop c.pos).take k) else none

end BSVerif.BinStream
