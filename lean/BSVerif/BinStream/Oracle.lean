/-
  ORACLE for the binary stream reader: judges a sequence of implementation answers against the
  abstract cursor specification (a position in the byte string), independently of the Model.
  After a failed `SetPosition` (beyond the end of the stream) the reader is in an error state and
  nothing further is required (the library reports a parsing error in that case).
-/
import BSVerif.BinStream.Model

namespace BSVerif.BinStream.Oracle
open BSVerif BSVerif.BinStream

inductive Op where
  | peek | next | rb | solid (k : Nat) | chunks (k : Nat) | set (p : Nat) | pos | isEnd | failed
  deriving Repr, DecidableEq

def parseOp (s : String) : Option Op :=
  match s.splitOn ":" with
  | ["peek"] => some .peek | ["next"] => some .next | ["rb"] => some .rb
  | ["solid", k] => k.toNat?.map .solid | ["chunks", k] => k.toNat?.map .chunks
  | ["set", p] => p.toNat?.map .set | ["pos"] => some .pos | ["end"] => some .isEnd | ["failed"] => some .failed
  | _ => none

def optByte : Option Nat → String
  | some b => hexByte b | none => "none"

def optBlock : Option (List Nat) → String
  | some b => "b" ++ hexBytes b | none => "none"

/-- run the MODEL on one op -/
def stepModel (r : Reader) : Op → String × Reader
  | .peek => let (b, r') := r.peekByte; (optByte b, r')
  | .next => ("ok", r.gotoNextByte)
  | .rb => let (b, r') := r.readByte; (optByte b, r')
  | .solid k => let (b, r') := r.readSolidBlock k; (optBlock b, r')
  | .chunks k => let (b, r') := r.readByChunks k; (optBlock b, r')
  | .set p => let (ok, r') := r.setPosition p; (if ok then "true" else "false", r')
  | .pos => (toString r.getPosition, r)
  | .isEnd => (if r.isEnd then "true" else "false", r)
  | .failed => (if r.isFailed then "true" else "false", r)

/-- judge one implementation answer against the cursor; returns the new cursor or a complaint;
    `none` cursor = error state (after a failed SetPosition), everything accepted from then on -/
def stepSpec (N : Nat) (c : Cursor) (op : Op) (ans : String) : Except String (Option Cursor) :=
  match op with
  | .peek => if ans = optByte c.peekByte then .ok (some c) else .error "peek"
  | .next => .ok (some (c.advance 1))
  | .rb => if ans = optByte c.peekByte then .ok (some (c.advance 1)) else .error "readByte"
  | .solid k =>
    if k = 0 then (if ans = "b-" ∨ ans = "none" then .ok (some c) else .error "solid0")
    else if k ≤ N then
      match c.block k with
      | some b => if ans = optBlock (some b) then .ok (some (c.advance k)) else .error "solid block differs"
      | none => if ans = "none" then .ok (some c) else .error "solid beyond end accepted"
    else if ans = "none" then .ok (some c) else .error "solid>chunk accepted"
  | .chunks k =>
    if c.isEnd then (if ans = "none" then .ok (some c) else .error "chunks at end")
    else if k = 0 then (if ans = "b-" then .ok (some c) else .error "chunks0")
    else
      -- any non-empty prefix of the remaining data, not longer than k
      match parseBytes (ans.drop 1).toString with
      | some b =>
        if ans.startsWith "b" ∧ 0 < b.length ∧ b.length ≤ k ∧ b = (c.data.drop c.pos).take b.length then .ok (some (c.advance b.length))
        else .error "chunks block is not a prefix of the remaining data"
      | none => .error "chunks answer"
  | .set p =>
    if p ≤ c.data.length then (if ans = "true" then .ok (some { c with pos := p }) else .error "SetPosition inside the stream failed")
    else if ans = "false" then .ok none else .error "SetPosition beyond the end succeeded"
  | .pos => if ans = toString c.pos then .ok (some c) else .error "GetPosition"
  | .isEnd => if ans = (if c.isEnd then "true" else "false") then .ok (some c) else .error "IsEnd"
  | .failed => .ok (some c)   -- iostream sets failbit on the short final read too: not specified

def judgeRun (N : Nat) (data : List Nat) (ops : List Op) (answers : List String) : String :=
  let rec go (c : Cursor) : List Op → List String → Nat → String
    | [], [], _ => "ok"
    | op :: ops, a :: as, i =>
      match stepSpec N c op a with
      | .error e => s!"bad:op{i}:{e.replace " " "_"}"
      | .ok none => "ok"
      | .ok (some c') => go c' ops as (i + 1)
    | _, _, _ => "bad:answer_count"
  go ⟨data, 0⟩ ops answers 0

end BSVerif.BinStream.Oracle
