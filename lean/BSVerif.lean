import BSVerif.Basic
import BSVerif.Utf.Spec
import BSVerif.Utf.Model
import BSVerif.Utf.Lemmas
import BSVerif.Utf.Oracle
import BSVerif.Props.C11
import BSVerif.Driver.All
