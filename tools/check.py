#!/usr/bin/env python3
"""
check.py <PROP> [--tier quick|thorough] [--replay FILE]

Decides one property (C01..C20) of /repo's current working tree:

  1. translators regenerate lean/BSVerif/Generated/*.lean from the source tree
  2. `lake build bsmodel`        (definitions only: model, spec, oracle, driver)
  3. `lake build BSVerif.Props.<PROP>`  -> proof obligations (theorems) + axiom audit + banned-token grep
  4. harness (real code, ASan+UBSan) is rebuilt from /repo (cached by content hash)
  5. corpus + generated ops are run through the implementation and through the Lean driver:
        correspondence  (model answer == implementation answer)
        oracle          (Lean Spec judges the implementation answer directly)
  6. known findings are recognised by class; anything else that the Spec rejects is a VIOLATION
  7. evidence/<PROP>.json is rewritten

exit 0: property held on everything explored (KNOWN-FINDING lines for listed findings)
exit 1: `VIOLATION property=<id> replay=<path>` (… `no-failing-input-found` when only a proof or the
        correspondence broke and no failing input could be exhibited)
"""
import sys, os, json, time, hashlib, subprocess, random, re, shutil, importlib, argparse, signal, tempfile
from concurrent.futures import ThreadPoolExecutor

HERE = os.path.dirname(os.path.abspath(__file__))
VERIF = os.path.dirname(HERE)
REPO = os.environ.get("VERIF_REPO", "/repo")
LEAN = os.path.join(VERIF, "lean")
CACHE = os.path.join(VERIF, ".cache")
HARNESS = os.path.join(VERIF, "harness")
NPROC = max(1, min(16, os.cpu_count() or 4))
sys.path.insert(0, HERE)

ALLOWED_AXIOMS = {"propext", "Classical.choice", "Quot.sound"}
BANNED = re.compile(r"\bsorry\b|\badmit\b|^\s*axiom\s|native_decide|bv_decide|implemented_by|\bunsafe\s|maxHeartbeats\s+0")

CXXFLAGS = ["-std=c++17", "-O1", "-g", "-fsanitize=address,undefined,float-cast-overflow", "-fno-sanitize=alignment",
            "-fno-sanitize-recover=all", "-fno-omit-frame-pointer", "-DBITSERIALIZER_VERIF",
            f"-I{REPO}/include", f"-I{REPO}/src", f"-I{HARNESS}"]
LDFLAGS = ["-fsanitize=address,undefined", "-lpugixml", "-lpthread"]


def log(*a):
    print(*a, file=sys.stderr, flush=True)


def sh(cmd, cwd=None, timeout=None, env=None):
    p = subprocess.run(cmd, cwd=cwd, stdout=subprocess.PIPE, stderr=subprocess.STDOUT, text=True, errors="replace", timeout=timeout, env=env)
    return p.returncode, p.stdout


# --------------------------------------------------------------------------------------------
# source hashing / harness build
# --------------------------------------------------------------------------------------------
def tree_hash(paths, extra=""):
    h = hashlib.sha256()
    h.update(extra.encode())
    for root in paths:
        if os.path.isfile(root):
            files = [root]
        else:
            files = []
            for d, _, fs in os.walk(root):
                for f in fs:
                    if f.endswith((".h", ".cpp", ".hpp")):
                        files.append(os.path.join(d, f))
        for f in sorted(files):
            h.update(f.encode())
            with open(f, "rb") as fh:
                h.update(fh.read())
    return h.hexdigest()[:20]


def repo_sources():
    out = []
    for sub in ("src/common", "src/csv", "src/msgpack"):
        d = os.path.join(REPO, sub)
        if os.path.isdir(d):
            out += [os.path.join(d, f) for f in sorted(os.listdir(d)) if f.endswith(".cpp")]
    return out


def _prune_cache(prefix, keep=6):
    """disk space is limited: keep only the most recently used cached builds"""
    try:
        ds = sorted((d for d in os.listdir(CACHE) if d.startswith(prefix)), key=lambda d: os.path.getmtime(os.path.join(CACHE, d)), reverse=True)
        for d in ds[keep:]:
            shutil.rmtree(os.path.join(CACHE, d), ignore_errors=True)
    except OSError:
        pass


def build_harness(extra_flags=(), tag="main"):
    """Build bsimpl from the CURRENT /repo tree; cached under .cache/<hash>/."""
    key = tree_hash([os.path.join(REPO, "include"), os.path.join(REPO, "src/common"), os.path.join(REPO, "src/csv"),
                     os.path.join(REPO, "src/msgpack"), HARNESS], extra=" ".join(CXXFLAGS + list(extra_flags)) + tag)
    outdir = os.path.join(CACHE, "harness-" + key)
    exe = os.path.join(outdir, "bsimpl")
    if os.path.exists(exe):
        os.utime(outdir, None)
        return exe, None
    _prune_cache("harness-")
    _prune_cache("aux-", keep=4)
    os.makedirs(outdir, exist_ok=True)
    srcs = [os.path.join(HARNESS, f) for f in sorted(os.listdir(HARNESS)) if f.endswith(".cpp")] + repo_sources()
    objs = []
    jobs = []
    for s in srcs:
        o = os.path.join(outdir, hashlib.md5(s.encode()).hexdigest()[:8] + "_" + os.path.basename(s) + ".o")
        objs.append(o)
        jobs.append((s, o))

    def comp(j):
        s, o = j
        return s, sh(["g++"] + CXXFLAGS + list(extra_flags) + ["-c", s, "-o", o], timeout=1800)

    errs = []
    with ThreadPoolExecutor(NPROC) as ex:
        for s, (rc, out) in ex.map(comp, jobs):
            if rc != 0:
                errs.append((s, out))
    if errs:
        shutil.rmtree(outdir, ignore_errors=True)
        return None, "\n".join(f"{s}:\n{o[-3000:]}" for s, o in errs)
    rc, out = sh(["g++"] + objs + LDFLAGS + ["-o", exe + ".tmp"], timeout=900)
    if rc != 0:
        shutil.rmtree(outdir, ignore_errors=True)
        return None, out[-3000:]
    os.rename(exe + ".tmp", exe)
    # keep the cache small: drop older harness builds
    olds = sorted((d for d in os.listdir(CACHE) if d.startswith("harness-") and d != "harness-" + key),
                  key=lambda d: os.path.getmtime(os.path.join(CACHE, d)))
    for d in olds[:-3]:
        shutil.rmtree(os.path.join(CACHE, d), ignore_errors=True)
    return exe, None


def build_aux(name, sources, flags, libs=("-lpugixml", "-lpthread")):
    """Build an auxiliary binary (e.g. the TSan stress) from the CURRENT /repo tree; cached by content hash."""
    key = tree_hash([os.path.join(REPO, "include"), os.path.join(REPO, "src/common"), os.path.join(REPO, "src/csv"),
                     os.path.join(REPO, "src/msgpack")] + list(sources), extra=name + " ".join(flags))
    outdir = os.path.join(CACHE, f"aux-{name}-{key}")
    exe = os.path.join(outdir, name)
    if os.path.exists(exe):
        return exe, None
    os.makedirs(outdir, exist_ok=True)
    srcs = list(sources) + repo_sources()
    objs = [os.path.join(outdir, hashlib.md5(x.encode()).hexdigest()[:8] + "_" + os.path.basename(x) + ".o") for x in srcs]
    base = ["-std=c++17", f"-I{REPO}/include", f"-I{REPO}/src", f"-I{HARNESS}", "-DBITSERIALIZER_VERIF"]

    def comp(j):
        return j[0], sh(["g++"] + base + list(flags) + ["-c", j[0], "-o", j[1]], timeout=1800)

    errs = []
    with ThreadPoolExecutor(NPROC) as ex:
        for src, (rc, out) in ex.map(comp, zip(srcs, objs)):
            if rc != 0:
                errs.append(f"{src}:\n{out[-2000:]}")
    if errs:
        shutil.rmtree(outdir, ignore_errors=True)
        return None, "\n".join(errs)
    rc, out = sh(["g++"] + objs + [f for f in flags if f.startswith("-fsanitize")] + list(libs) + ["-o", exe + ".tmp"], timeout=900)
    if rc != 0:
        shutil.rmtree(outdir, ignore_errors=True)
        return None, out[-3000:]
    os.rename(exe + ".tmp", exe)
    for d in sorted((d for d in os.listdir(CACHE) if d.startswith(f"aux-{name}-") and d != f"aux-{name}-{key}"),
                    key=lambda d: os.path.getmtime(os.path.join(CACHE, d)))[:-1]:
        shutil.rmtree(os.path.join(CACHE, d), ignore_errors=True)
    return exe, None


# --------------------------------------------------------------------------------------------
# running ops through the implementation (restart on crash) and the Lean driver
# --------------------------------------------------------------------------------------------
SAN_RE = re.compile(r"(AddressSanitizer|UndefinedBehaviorSanitizer|runtime error|LeakSanitizer)[^\n]*")


def run_impl_chunk(exe, ops, per_op_timeout=10.0):
    """Feed ops to bsimpl one process at a time; on crash/timeout record the outcome and restart after the op."""
    answers = []
    i = 0
    env = dict(os.environ)
    env["ASAN_OPTIONS"] = "detect_leaks=1:abort_on_error=0:exitcode=77:allocator_may_return_null=0:max_allocation_size_mb=2048:detect_stack_use_after_return=0"
    env["UBSAN_OPTIONS"] = "print_stacktrace=0:halt_on_error=1:exitcode=78"
    env["LSAN_OPTIONS"] = "exitcode=79"
    while i < len(ops):
        batch = ops[i:]
        data = "\n".join(batch) + "\n"
        to = max(30.0, per_op_timeout + len(batch) * 0.02)
        try:
            p = subprocess.run([exe], input=data, stdout=subprocess.PIPE, stderr=subprocess.PIPE, text=True, errors="replace",
                               timeout=to, env=env, preexec_fn=_limits)
            out_lines = p.stdout.split("\n")
            if out_lines and out_lines[-1] == "":
                out_lines.pop()
            rc = p.returncode
            stderr = p.stderr
            timed_out = False
        except subprocess.TimeoutExpired as e:
            so = e.stdout.decode() if isinstance(e.stdout, bytes) else (e.stdout or "")
            out_lines = so.split("\n")
            if out_lines and out_lines[-1] == "":
                out_lines.pop()
            rc = -999
            stderr = ""
            timed_out = True
        if rc == 0 and len(out_lines) == len(batch):
            answers += out_lines
            break
        # crashed, terminated or hung while processing op number len(out_lines) (or printed "terminate" for it)
        n = len(out_lines)
        if n > 0 and out_lines[-1] == "terminate":
            answers += out_lines[:-1]
            answers.append("terminate")
            i += n
            continue
        if rc == 79 and n == len(batch):
            # leak report at exit: attribute by re-running ops individually (rare; only a few ops)
            answers += _bisect_leak(exe, batch, out_lines, env)
            break
        answers += out_lines[:n]
        if n >= len(batch):
            break
        if timed_out:
            # find whether it is a genuine hang on op n: rerun op n alone
            try:
                p1 = subprocess.run([exe], input=batch[n] + "\n", stdout=subprocess.PIPE, stderr=subprocess.PIPE, text=True, errors="replace",
                                    timeout=per_op_timeout, env=env, preexec_fn=_limits)
                one = p1.stdout.strip().split("\n")[0] if p1.stdout.strip() else _crash_label(p1.returncode, p1.stderr)
            except subprocess.TimeoutExpired:
                one = "timeout"
            answers.append(one)
        else:
            answers.append(_crash_label(rc, stderr))
        i += n + 1
    return answers


def _limits():
    import resource
    resource.setrlimit(resource.RLIMIT_CORE, (0, 0))


def _crash_label(rc, stderr):
    m = SAN_RE.search(stderr or "")
    if m:
        txt = m.group(0)
        kind = "asan" if "Address" in txt else "lsan" if "Leak" in txt else "ubsan"
        m2 = re.search(r"(heap-buffer-overflow|stack-buffer-overflow|stack-overflow|allocation-size-too-big|out-of-memory|"
                       r"SEGV|signed integer overflow|float-cast-overflow|outside the range of representable values|negation of|shift|index \S+ out of bounds|memcpy-param-overlap|"
                       r"load of|null pointer|division by zero|detected memory leaks|misaligned)", stderr)
        what = (m2.group(1) if m2 else 'other').replace(' ', '_')
        if what == "outside_the_range_of_representable_values":
            what = "float-cast-overflow"
        return f"crash:{kind}:{what}"
    if rc < 0:
        return f"crash:signal:{-rc}"
    return f"crash:exit:{rc}"


def _bisect_leak(exe, batch, out_lines, env):
    res = []
    for op, ans in zip(batch, out_lines):
        p = subprocess.run([exe], input=op + "\n", stdout=subprocess.PIPE, stderr=subprocess.PIPE, text=True, errors="replace", timeout=60, env=env)
        res.append("crash:lsan:detected_memory_leaks" if p.returncode == 79 else ans)
    return res


def run_impl(exe, ops, per_op_timeout=10.0):
    if not ops:
        return []
    n = min(NPROC, max(1, len(ops) // 200))
    size = (len(ops) + n - 1) // n
    chunks = [ops[i:i + size] for i in range(0, len(ops), size)]
    with ThreadPoolExecutor(n) as ex:
        parts = list(ex.map(lambda c: run_impl_chunk(exe, c, per_op_timeout), chunks))
    out = []
    for p in parts:
        out += p
    assert len(out) == len(ops), (len(out), len(ops))
    return out


def bsmodel_exe():
    return os.path.join(LEAN, ".lake", "build", "bin", "bsmodel")


def run_model(ops, impl_answers=None):
    """returns list of (model_answer, agree, verdict)"""
    if not ops:
        return []
    lines = [op if impl_answers is None else op + "\t" + impl_answers[i] for i, op in enumerate(ops)]
    n = min(NPROC, max(1, len(lines) // 500))
    size = (len(lines) + n - 1) // n
    chunks = [lines[i:i + size] for i in range(0, len(lines), size)]

    def one(chunk):
        p = subprocess.run([bsmodel_exe()], input="\n".join(chunk) + "\n", stdout=subprocess.PIPE, stderr=subprocess.PIPE,
                           text=True, errors="replace", timeout=3600)
        if p.returncode != 0:
            raise RuntimeError("bsmodel failed: " + p.stderr[-2000:])
        outl = p.stdout.split("\n")
        if outl and outl[-1] == "":
            outl.pop()
        if len(outl) != len(chunk):
            raise RuntimeError(f"bsmodel answered {len(outl)} lines for {len(chunk)} ops")
        return [tuple((l.split("\t") + ["-", "nospec"])[:3]) for l in outl]

    with ThreadPoolExecutor(n) as ex:
        parts = list(ex.map(one, chunks))
    out = []
    for p in parts:
        out += p
    return out


# --------------------------------------------------------------------------------------------
# Lean side: translators, build, audit
# --------------------------------------------------------------------------------------------
def run_translators(objdir=None):
    """Regenerate lean/BSVerif/Generated/*.lean from the current tree. Returns (ok, notes)."""
    import translate
    return translate.run_all(REPO, os.path.join(LEAN, "BSVerif", "Generated"), CACHE, CXXFLAGS, objdir)


LAKE_LOCK = os.path.join(CACHE, "lake.lock")


class FileLock:
    def __init__(self, path):
        self.path = path

    def __enter__(self):
        import fcntl
        os.makedirs(os.path.dirname(self.path), exist_ok=True)
        self.f = open(self.path, "w")
        fcntl.flock(self.f, fcntl.LOCK_EX)

    def __exit__(self, *a):
        import fcntl
        fcntl.flock(self.f, fcntl.LOCK_UN)
        self.f.close()


def lake_build(target, timeout=3600):
    rc, out = sh(["lake", "build", target], cwd=LEAN, timeout=timeout)
    return rc, out


def parse_lean_errors(out):
    """list of (file, line, message-first-line)"""
    errs = []
    for m in re.finditer(r"error: ([^\s:]+\.lean):(\d+):(\d+): ([^\n]*)", out):
        errs.append((m.group(1), int(m.group(2)), m.group(4)))
    return errs


def theorem_at(file, line):
    """name of the declaration that encloses `line` in a Lean source file"""
    try:
        src = open(os.path.join(LEAN, file)).read().split("\n")
    except OSError:
        return None
    for i in range(min(line, len(src)) - 1, -1, -1):
        m = re.match(r"\s*(?:@\[[^\]]*\]\s*)?(?:private\s+|protected\s+)?(theorem|lemma|def|example|instance|abbrev)\s+([^\s:(\[{]+)?", src[i])
        if m:
            return (m.group(2) or "example") + f" ({file}:{i + 1})"
    return None


def audit_axioms(prop, theorems):
    """#print axioms for every property theorem; returns (ok, {thm: [axioms]}, problems)"""
    if not theorems:
        return True, {}, []
    mod = f"BSVerif.Props.{prop}"
    src = f"import {mod}\n" + "\n".join(f"#print axioms {t}" for t in theorems) + "\n"
    os.makedirs(os.path.join(CACHE, "audit"), exist_ok=True)
    path = os.path.join(CACHE, "audit", f"Audit_{prop}_{os.getpid()}.lean")
    with open(path, "w") as f:
        f.write(src)
    rc, out = sh(["lake", "env", "lean", path], cwd=LEAN, timeout=1800)
    os.unlink(path)
    res = {}
    problems = []
    for t in theorems:
        m = re.search(r"'" + re.escape(t) + r"' depends on axioms: \[([^\]]*)\]", out)
        m0 = re.search(r"'" + re.escape(t) + r"' does not depend on any axioms", out)
        if m:
            ax = [a.strip() for a in m.group(1).replace("\n", " ").split(",") if a.strip()]
            res[t] = ax
            badax = [a for a in ax if a not in ALLOWED_AXIOMS]
            if badax:
                problems.append(f"{t}: disallowed axioms {badax}")
        elif m0:
            res[t] = []
        else:
            problems.append(f"{t}: not found / not checked ({out[-300:].strip()})")
    return not problems, res, problems


def grep_banned():
    hits = []
    for d, _, fs in os.walk(os.path.join(LEAN, "BSVerif")):
        for f in fs:
            if not f.endswith(".lean"):
                continue
            p = os.path.join(d, f)
            in_block = 0
            for n, line in enumerate(open(p), 1):
                # strip comments (block comments tracked coarsely, line comments exactly)
                l = line
                if in_block:
                    if "-/" in l:
                        in_block = 0
                        l = l.split("-/", 1)[1]
                    else:
                        continue
                if "/-" in l:
                    pre, rest = l.split("/-", 1)
                    if "-/" in rest:
                        l = pre + rest.split("-/", 1)[1]
                    else:
                        in_block = 1
                        l = pre
                l = l.split("--", 1)[0]
                if BANNED.search(l):
                    hits.append(f"{os.path.relpath(p, LEAN)}:{n}: {line.strip()}")
    return hits


# --------------------------------------------------------------------------------------------
# findings / evidence / replay
# --------------------------------------------------------------------------------------------
def load_known(prop):
    p = os.path.join(VERIF, "known_findings.json")
    if not os.path.exists(p):
        return []
    data = json.load(open(p))
    return [f for f in data.get("findings", []) if f.get("property") == prop and f.get("status", "open") == "open"]


def write_replay(prop, kind, payload):
    os.makedirs(os.path.join(VERIF, "replays"), exist_ok=True)
    h = hashlib.sha1(json.dumps(payload, sort_keys=True).encode()).hexdigest()[:10]
    path = os.path.join(VERIF, "replays", f"{prop}-{kind}-{h}.json")
    with open(path, "w") as f:
        json.dump(payload, f, indent=1)
    return path


def write_evidence(prop, ev):
    # VERIF_EVIDENCE_DIR: used by tools/seeded_eval.py so that runs against a deliberately broken tree do not overwrite the evidence
    d = os.environ.get("VERIF_EVIDENCE_DIR") or os.path.join(VERIF, "evidence")
    os.makedirs(d, exist_ok=True)
    with open(os.path.join(d, f"{prop}.json"), "w") as f:
        json.dump(ev, f, indent=1)


def load_corpus(prop):
    d = os.path.join(VERIF, "corpus", prop)
    ops = []
    if os.path.isdir(d):
        for f in sorted(os.listdir(d)):
            if f.endswith(".ops"):
                for l in open(os.path.join(d, f)):
                    l = l.rstrip("\n")
                    if l and not l.startswith("#"):
                        ops.append(l)
    return ops


def is_crash(ans):
    return ans.startswith("crash:") or ans in ("terminate", "timeout")


# --------------------------------------------------------------------------------------------
def main():
    ap = argparse.ArgumentParser()
    ap.add_argument("prop")
    ap.add_argument("--tier", default=os.environ.get("VERIF_TIER", "quick"))
    ap.add_argument("--replay")
    args = ap.parse_args()
    prop = args.prop
    tier = args.tier if args.tier in ("quick", "thorough") else "quick"
    seed = int(os.environ.get("VERIF_SEED", "1") or 1)
    t0 = time.time()
    os.makedirs(CACHE, exist_ok=True)
    spec = importlib.import_module(f"props.{prop}")

    violations = []      # (kind, description, replay payload)
    notes = []
    obligations = []     # dicts {name, kind, discharged}

    # ---- harness first (its object files feed the inventory translator) ----------------------
    exe, err = build_harness()
    if exe is None:
        log(err)
        payload = {"property": prop, "kind": "harness-build", "detail": err[-3000:]}
        path = write_replay(prop, "build", payload)
        print(f"INFRA-ERROR: harness does not build against the current tree")
        print(f"VIOLATION property={prop} replay={path} no-failing-input-found")
        sys.exit(1)

    # ---- 1-3: Lean side -------------------------------------------------------------------
    with FileLock(LAKE_LOCK):
        tr_ok, tr_notes = run_translators(os.path.dirname(exe))
        notes += tr_notes
        rc, out = lake_build("bsmodel")
        if rc != 0:
            log(out[-4000:])
            errs = parse_lean_errors(out)
            # a definition file no longer elaborates (e.g. a generated table is malformed): infrastructure failure
            print(f"INFRA-ERROR: bsmodel does not build: {errs[:3]}")
            payload = {"property": prop, "kind": "infra", "detail": out[-2000:]}
            path = write_replay(prop, "infra", payload)
            print(f"VIOLATION property={prop} replay={path} no-failing-input-found")
            sys.exit(1)
        rc, out = lake_build(f"BSVerif.Props.{prop}")
        broken_theorems = []
        if rc != 0:
            for f, ln, msg in parse_lean_errors(out):
                th = theorem_at(f, ln) or f"{f}:{ln}"
                broken_theorems.append({"theorem": th, "message": msg})
            if not broken_theorems:
                broken_theorems.append({"theorem": f"BSVerif.Props.{prop}", "message": out[-500:]})
            log("proof obligations broken:", broken_theorems)
        theorems = list(getattr(spec, "THEOREMS", []))
        if rc == 0:
            ok, axmap, problems = audit_axioms(prop, theorems)
            for t in theorems:
                obligations.append({"name": t, "kind": "theorem", "discharged": t in axmap and not any(t in p for p in problems),
                                    "axioms": axmap.get(t)})
            if problems:
                for p in problems:
                    broken_theorems.append({"theorem": p.split(":")[0], "message": p})
        else:
            bt = " ".join(b["theorem"] for b in broken_theorems)
            for t in theorems:
                obligations.append({"name": t, "kind": "theorem", "discharged": False if (t.split(".")[-1] in bt or True) else True,
                                    "axioms": None})
        banned = grep_banned()
        obligations.append({"name": "no sorry/admit/axiom/native_decide/bv_decide/implemented_by/unsafe in BSVerif/**", "kind": "audit",
                            "discharged": not banned})
        if banned:
            broken_theorems.append({"theorem": "banned-token audit", "message": "; ".join(banned[:5])})
        if tier == "thorough" and rc == 0 and getattr(spec, "LEANCHECKER", True):
            rc2, out2 = sh(["lake", "env", "leanchecker", f"BSVerif.Props.{prop}"], cwd=LEAN, timeout=3600)
            obligations.append({"name": f"leanchecker BSVerif.Props.{prop}", "kind": "recheck", "discharged": rc2 == 0})
            if rc2 != 0:
                broken_theorems.append({"theorem": "leanchecker", "message": out2[-300:]})

    # ---- replay mode ----------------------------------------------------------------------
    if args.replay:
        payload = json.load(open(args.replay))
        ops = payload.get("ops") or ([payload["op"]] if "op" in payload else [])
        impl = run_impl(exe, ops)
        res = run_model(ops, impl)
        bad = 0
        for op, ia, (ma, ag, vd) in zip(ops, impl, res):
            print(f"op: {op}\n  impl : {ia}\n  model: {ma}  [{ag}]\n  spec : {vd}")
            if vd.startswith("bad") or is_crash(ia):
                bad += 1
        sys.exit(1 if bad else 0)

    # ---- 5: ops ---------------------------------------------------------------------------
    rng = random.Random(seed * 1000003 + sum(map(ord, prop)))
    boost = 1
    if broken_theorems:
        boost = 5      # a proof broke: search harder for a failing input
    corpus = load_corpus(prop)
    gen_ops = list(spec.gen(tier, rng, boost))
    ops = corpus + gen_ops
    impl = run_impl(exe, ops, per_op_timeout=getattr(spec, "OP_TIMEOUT", 10.0))
    res = run_model(ops, impl)
    # property-specific extra executions outside the line protocol (e.g. the TSan stress of C19)
    extra_run = getattr(spec, "extra_run", None)
    if extra_run:
        for xop, xans, xverdict in extra_run(sys.modules[__name__], tier, rng, boost):
            ops.append(xop)
            impl.append(xans)
            res.append((xans, "agree", xverdict))

    known = load_known(prop)
    known_classes = {k["class"]: k for k in known}
    known_hits = {}
    disagreements = []
    bad = []
    stats = {"agree": 0, "disagree": 0, "ok": 0, "known": 0, "bad": 0, "nospec": 0, "crash": 0}
    kinds = {}
    distinct = set()
    adjust = getattr(spec, "adjust_verdict", None)
    for op, ia, (ma, ag, vd) in zip(ops, impl, res):
        if adjust:
            vd = adjust(op, ia, vd)
        kinds[op.split(" ", 1)[0]] = kinds.get(op.split(" ", 1)[0], 0) + 1
        if ma == "bad-op":
            bad.append((op, ia, ma, "bad:op-not-understood-by-driver"))
            continue
        if ag == "DISAGREE":
            stats["disagree"] += 1
            disagreements.append((op, ia, ma, vd))
        else:
            stats["agree"] += 1
        if is_crash(ia):
            stats["crash"] += 1
        if vd == "ok":
            stats["ok"] += 1
            if spec.nontrivial(op, ia):
                distinct.add(op)
        elif vd.startswith("known:"):
            cls = vd[6:]
            if ag == "DISAGREE":
                # a listed finding is recognised only in the exact form the model (= the unchanged code) exhibits it
                stats["bad"] += 1
                bad.append((op, ia, ma, vd + " (but the implementation deviates from the recorded behaviour)"))
            elif cls in known_classes:
                stats["known"] += 1
                known_hits.setdefault(cls, op)
                distinct.add(op)
            else:
                stats["bad"] += 1
                bad.append((op, ia, ma, vd + " (class not listed in known_findings.json)"))
        elif vd.startswith("bad"):
            stats["bad"] += 1
            bad.append((op, ia, ma, vd))
        else:
            stats["nospec"] += 1
            if is_crash(ia):
                bad.append((op, ia, ma, "bad:" + ia))

    # property-specific extra checks (metamorphic relations across ops etc.)
    extra = getattr(spec, "extra_checks", None)
    if extra:
        for item in extra(ops, impl, res, known_classes, known_hits):
            bad.append(item)

    # ---- 6: decide ------------------------------------------------------------------------
    exit_code = 0
    out_lines = []
    if bad:
        # shrink: prefer the shortest failing op
        bad.sort(key=lambda b: len(b[0]))
        op, ia, ma, vd = bad[0]
        payload = {"property": prop, "kind": "spec-rejects-implementation", "op": op, "impl": ia, "model": ma, "verdict": vd,
                   "others": [b[0] for b in bad[1:20]], "seed": seed, "tier": tier,
                   "broken_theorems": broken_theorems}
        path = write_replay(prop, "input", payload)
        out_lines.append(f"VIOLATION property={prop} replay={path}")
        exit_code = 1
    elif broken_theorems or disagreements:
        payload = {"property": prop, "kind": "proof-or-correspondence-broken", "broken_theorems": broken_theorems,
                   "correspondence": [{"op": d[0], "impl": d[1], "model": d[2], "verdict": d[3]} for d in disagreements[:10]],
                   "ops": [d[0] for d in disagreements[:10]],
                   "searched_ops": len(ops), "seed": seed, "tier": tier}
        path = write_replay(prop, "nofail", payload)
        out_lines.append(f"VIOLATION property={prop} replay={path} no-failing-input-found")
        exit_code = 1
    for cls, k in known_classes.items():
        if cls in known_hits:
            out_lines.append(f"KNOWN-FINDING: property={prop} {k['what']} [class {cls}; e.g. {known_hits[cls]}]")

    # ---- 7: evidence ----------------------------------------------------------------------
    obligations.append({"name": f"correspondence model==implementation on {len(ops)} ops", "kind": "correspondence",
                        "discharged": not disagreements})
    obligations.append({"name": "Spec oracle accepts every implementation answer (or a listed known-finding class)", "kind": "oracle",
                        "discharged": not bad})
    n_ob = len(obligations)
    n_dis = sum(1 for o in obligations if o["discharged"])
    samples = [{"op": o, "impl": i, "model": r[0], "verdict": r[2]} for o, i, r in list(zip(ops, impl, res))[:3]]
    if len(ops) > 6:
        idx = rng.sample(range(len(ops)), 3)
        samples += [{"op": ops[j], "impl": impl[j], "model": res[j][0], "verdict": res[j][2]} for j in idx]
    ev = {
        "property_id": prop, "tier": tier, "seed": seed, "level": "proof",
        "coverage": {
            "obligations": n_ob, "discharged": n_dis,
            "checker_cmd": f"cd lean && lake build BSVerif.Props.{prop} && lake env lean <#print axioms> ; python3 tools/check.py {prop} --tier {tier}",
            "trusted_base": ["Lean 4.33.0 kernel", "axioms: propext, Classical.choice, Quot.sound only (audited by #print axioms on every run)",
                             "hand-written Lean model tied to the code by the correspondence run below",
                             "translators tools/translate.py (generated constants/tables)", "g++ 12.2 / libstdc++ / x86-64 as execution platform"]
                            + list(getattr(spec, "TRUSTED", [])),
            "obligation_list": obligations,
            "evaluations": len(ops), "distinct_nontrivial": len(distinct),
            "rule": getattr(spec, "RULE", "ops generated by props/%s.py; non-trivial = reaches a non-default branch" % prop),
            "samples": samples,
            "op_kinds": kinds, "stats": stats,
            "broken_theorems": broken_theorems,
            "translator_notes": notes,
            "known_findings_reproduced": sorted(known_hits.keys()),
            "exhaustive": bool(getattr(spec, "EXHAUSTIVE", {}).get(tier, False)),
        },
        "assumptions": list(getattr(spec, "ASSUMPTIONS", [])),
        "wall_s": round(time.time() - t0, 2),
        "violations": 1 if exit_code else 0,
    }
    write_evidence(prop, ev)
    for l in out_lines:
        print(l)
    print(f"{prop} {tier}: obligations {n_dis}/{n_ob}, ops {len(ops)}, stats {stats}, wall {ev['wall_s']}s")
    sys.exit(exit_code)


if __name__ == "__main__":
    main()
