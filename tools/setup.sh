#!/bin/sh
# MANIFEST.setup_cmd: build the Lean library (all proofs), the model driver and the harness, offline.
set -e
cd "$(dirname "$0")/.."
mkdir -p .cache evidence replays
python3 - <<'PY'
import sys, os
sys.path.insert(0, "tools")
import check
exe, err = check.build_harness()
if exe is None:
    print(err); sys.exit(1)
print("harness:", exe)
ok, notes = check.run_translators(os.path.dirname(exe))
print("translators:", ok, notes)
PY
(cd lean && lake build)
