#!/usr/bin/env python3
"""Regenerates MANIFEST.json from the table below (kept in one place so it is always valid)."""
import json, os
HERE = os.path.dirname(os.path.abspath(__file__))
VERIF = os.path.dirname(HERE)

CLAIMED = {
 "C01": ("proof", "Token-level whole-object theorem for the MsgPack archive (every saved tree is one complete value; every field saved under a key is what a load of that key returns, in any request order; closing leaves the reader behind the object) composed from C03/C05/C06/C07; CSV archive round trip (C09); text/number round trips (C11, C16); save->load round trips through all four real archives from memory and streams judged for equality.",
         "PARTIAL: JSON/XML adapters and third-party codecs are exercised (round trips) but not modelled here; encodings/pretty-printing covered by C13/C08 ops; recorded findings: XML empty element, CSV empty array"),
 "C02": ("proof", "Totality of every model function (no hang), progress/termination theorem of the chunked reader, iterator/position bounds, every failure a value of the error type; two resource findings stated as refutation theorems; structure-aware mutations of documents of all four archives and malformed converter inputs run under ASan+UBSan with time limits.",
         "PARTIAL: RapidJSON/pugixml parsers are exercised, not proved; misaligned loads excluded from UBSan; recorded findings: header-driven pre-allocation, unbounded recursion"),
 "C17": ("proof", "For every class/validator subset/document/cap: ValidationException iff some validator fails; the report is exactly the failing fields with their messages in declaration order (cap 0), or the first n fields with the n-th cut at its first message (cap n); passing fields loaded; built-in validator semantics; default messages regenerated from the source.",
         "Email/PhoneNumber exercised only; object state after an early (capped) throw not modelled"),
 "C18": ("proof", "For all priors, estimates and item lists of every container kind: loading into a populated target equals loading into a fresh one whenever no element is skipped inside a reused slot (exact decidable exclusion, refutation witness for the unrestricted statement); map modes never add / never remove keys; optional/pointers independent of prior.",
         "abstract array archive (estimate + per-item loaded flag); MsgPack and CSV executed; one recorded finding (stale value kept when an element is not loaded, by design per README)"),
 "C03": ("proof", "Unbounded theorems about the model of CMsgPackReadObjectScope: cursor invariant, cyclic key scan with wrap-around, every request history answered as the abstract finite map — also histories that leave array scopes partly read (the array destructor skips the rest) —, destructor leaves the reader behind the object; real scopes driven with request histories from memory and streams and judged against an abstract data model.",
         "token-level reader abstraction (byte level: C07 model); JSON/XML/CSV lookups exercised only"),
 "C04": ("proof", "Theorems for all 64 integer type pairs and all values (exact or out_of_range, never wrapped), bool and float-source branches, ConvertByPolicy total case split; floating-point operations are a parameter with explicit laws; 8-bit sources exhaustive in the correspondence run.",
         "conversion layer and text cells (archive positions of MsgPack: C07; JSON/XML positions pending); IEEE laws assumed, checked on samples; one recorded finding (non-finite double to float)"),
 "C05": ("proof", "Reader level: SkipValue equals 'consume one Spec object' for all inputs/positions/nestings, mismatch and overflow skip consume exactly one value; scope level: array element index and reader position stay in step, object cursor invariant re-established after any skipped member.",
         "MsgPack only at proof level; DOM archives advance an iterator before type checks (exercised by C08 ops)"),
 "C06": ("proof", "Every writer entry point decodes back under the independent Spec decoder to the intended token in the most compact format (all values); timestamp layouts; string and stream writers compared byte for byte.",
         "token level; whole-document balance (field counting) exercised by round-trip ops; recorded finding timestamp-96 field order"),
 "C07": ("proof", "ByteCodeTable (regenerated) equals the spec's format table for all 256 bytes; all 10 integer formats x 10 targets at any position; floats, headers of every width; no strict prefix of a token is a token; stream reader compared with the string reader on every op.",
         "value readers proved on well-formed encodings + truncation; stream reader tied by correspondence only; recorded findings: timestamp-96 order, nanoseconds not validated, NaN/Inf into float"),
 "C08": ("proof", "Adapter theorems over an abstract DOM: the DOM built on save is the intended data model (names, nesting, order, attributes, lexical values); loading a DOM delivers the abstract result for any member order; numbers exact or policy; save raises exactly when the writer rejects; round trip under an explicit lawful-codec hypothesis. Spec parsers written from RFC 8259 / XML 1.0 judge every produced document; Python json/ElementTree re-render and re-load (test oracle).",
         "PARTIAL: RapidJSON/pugixml print/parse are a parameter (hypothesis `Codec.Lawful`), exercised not proved; Python parsers are test oracles; 9 recorded finding classes (third-party behaviour and XML mapping non-injectivity)"),
 "C09": ("proof", "For every allowed separator and every table with arbitrary cells the RFC-4180 recogniser reads the writer's output back exactly; the reader conforms to the recogniser on every rendering (any quoting, LF/CRLF, final break, column order) and every by-key/by-index script; width mismatch rejected.",
         "cells are strings (numbers/dates via C16/C14); one recorded finding (empty array does not round-trip)"),
 "C10": ("proof", "Refinement: CBinaryStreamReader equals a plain cursor for every cache size N>0, byte string and operation history; CSV stream reader refines the memory reader for every chunk size, text and script; stream writers equal string writers. MsgPack/CSV documents run from memory and from streams across the 256-byte boundary.",
         "seekable istringstream; MsgPack stream reader tied to the string reader by correspondence; JSON/XML streams are third-party"),
 "C11": ("proof", "Unbounded theorems (all scalar lists x 9 width pairs x policies x marks x prior output) about the Lean model of convert_utf.h; model tied to the code by the correspondence run (thorough: every one of the 1,112,064 scalars) and regenerated constants.",
         "hand-written model of Utf8/Utf16/Utf32 Decode/Encode/Transcode and Memory::Reverse; little-endian host"),
 "C12": ("proof", "Unbounded theorems for ALL code-unit sequences: iterator in bounds, termination (total functions), output = scalars+marks only (hence well-formed), count = marks, ThrowError never accepts ill-formed UTF-8; Lean Spec (Table 3-7 segmentation) judges every implementation answer.",
         "hand-written model; oracle interpretation of 'one or more marks per ill-formed run'; one recorded finding (pinned tail-swallowing)"),
 "C13": ("proof", "Progress + termination theorem of the chunked reader for every stream, chunk size >= 32, policy; BOM table and BOM detection theorems over regenerated constants; ambiguity theorem; Spec encoders judge reader/writer answers at every chunk alignment/truncation.",
         "hand-written model of DetectEncoding/CEncodedStreamReader/Writer; istream modelled as (bytes, eof); chunk-independence of the decoded text validated by correspondence, not yet proved"),
 "C14": ("proof", "Hinnant days<->civil correct for every integer day number (periodicity + endpoint table by decide +kernel + monotonicity), generated DaysInMonth/UtcBufSize; for every int64 count outside two recorded classes and all 7 precisions printing hits no UB and yields exactly the Gregorian date/time/fraction, and parsing those fields returns the count; double division of ParseSecondFractions exact. Thorough: every day of years -10000..+20000.",
         "text layer (snprintf/from_chars), duration loops and CBinTimestamp round trip tied by correspondence/oracle only; two recorded finding classes (first day of range, int64 limits)"),
 "C15": ("proof", "SafeDurationCast/SafeAddDuration contracts (exact value or out_of_range, all counts, 4 target reps); every accepted date-time is a real calendar date (29 February only in leap years, generated table); whole-second text never wraps for any target; year/month designators rejected; Lean recogniser judges grammar-generated and mutated strings in three widths.",
         "division branch of SafeDurationCast proved for the ratios that occur; roundTo for inexact fractions by correspondence; recorded findings shared with C14"),
 "C16": ("proof", "Every integer of every width prints to text that parses back to itself (all string widths); for every string the parser's answer is the Spec's classification (value of the leading literal / out_of_range / invalid_argument); bool parser; printing fits the buffer. Floats: exact-arithmetic reference vs libstdc++ on all 2^32 float patterns (thorough).",
         "libstdc++ to_chars/from_chars for floats assumed (tested exhaustively for float32); std::isdigit on ASCII"),
 "C19": ("proof", "Non-interference theorem for every schedule of threads with footprints confined to private locations and shared constants; side conditions regenerated from the clang AST (all statics immutable or written only during static initialisation) and from objdump (writable-section symbols); TSan stress compares every result with the sequential run.",
         "PARTIAL: the memory-model behaviour of the compiled code is only exhibited by the ThreadSanitizer validation run; AST inventory translator trusted"),
 "C20": ("proof", "Scope-lifetime machine with deferring destructors: when no destructor lets an exception escape no program/fault schedule terminates, a failing step surfaces as its own exception and a deferred destructor error is rethrown by Finalize(), never swallowed; destructor inventory with transitive, try/catch-all aware may-throw analysis regenerated from the clang AST (no destructor of the library can let an exception escape; exactly three defer); fault enumeration (every truncation, k-th allocation failure, stream failure at every offset, mid-save errors) on 16 scenarios.",
         "PARTIAL: allocator and iostream failure behaviour are runtime validation"),
}
NOT_YET = "check not built yet in this round (work in progress; see DESIGN.md §9)"

def main():
    props = [json.loads(l) for l in open(os.path.join(VERIF, "properties.jsonl"))]
    man = {
     "version": 1,
     "setup_cmd": "sh tools/setup.sh",
     "hooks": {"guard": "BITSERIALIZER_VERIF",
               "enable": "-DBITSERIALIZER_VERIF (passed by tools/check.py when it compiles the harness against /repo)",
               "baseline_off_cmd": "cmake --build /repo/_build -j16 && ctest --test-dir /repo/_build -j8 --timeout 900",
               "source_commits": [], "add_only": True},
     "engines": [{"name": "lean4+correspondence", "path": "tools/check.py", "serves_properties": sorted(CLAIMED),
                  "kind_free_text": "Lean 4 theorems about a model of the code (lean/BSVerif), tied to /repo by regenerated constants (tools/translate.py) and a line-protocol correspondence run (harness/ vs the Lean driver bsmodel) with the Lean Spec as oracle"}],
     "checks": [], "not_applicable": [], "notes": "see DESIGN.md"}
    for p in props:
        pid = p["id"]
        if pid in CLAIMED:
            cat, text, note = CLAIMED[pid]
            man["checks"].append({
              "property_id": pid,
              "quick_cmd": f"python3 tools/check.py {pid} --tier quick",
              "thorough_cmd": f"python3 tools/check.py {pid} --tier thorough",
              "evidence_file": f"/verif/evidence/{pid}.json",
              "replay_cmd_template": f"python3 tools/check.py {pid} --replay {{path}}",
              "engine": "lean4+correspondence",
              "level_claimed": {"category": cat, "text": text, "design_ref": f"DESIGN.md §4 {pid}"},
              "level_note": "trusted: Lean 4.33 kernel; axioms propext/Classical.choice/Quot.sound only (audited every run); " + note + "; translators; g++/libstdc++ x86-64",
              "technique": "machine-checked proof (Lean 4) + model/implementation correspondence with Lean Spec oracle"})
        else:
            man["not_applicable"].append({"property_id": pid, "reason": NOT_YET})
    json.dump(man, open(os.path.join(VERIF, "MANIFEST.json"), "w"), indent=1)

if __name__ == "__main__":
    main()
