#!/usr/bin/env python3
"""Regenerates MANIFEST.json from the table below (kept in one place so it is always valid)."""
import json, os
HERE = os.path.dirname(os.path.abspath(__file__))
VERIF = os.path.dirname(HERE)

CLAIMED = {
 "C11": ("proof", "Unbounded theorems (all scalar lists x 9 width pairs x policies x marks x prior output) about the Lean model of convert_utf.h; model tied to the code by the correspondence run (thorough: every one of the 1,112,064 scalars) and regenerated constants.",
         "hand-written model of Utf8/Utf16/Utf32 Decode/Encode/Transcode and Memory::Reverse; little-endian host"),
 "C12": ("proof", "Unbounded theorems for ALL code-unit sequences: iterator in bounds, termination (total functions), output = scalars+marks only (hence well-formed), count = marks, ThrowError never accepts ill-formed UTF-8; Lean Spec (Table 3-7 segmentation) judges every implementation answer.",
         "hand-written model; oracle interpretation of 'one or more marks per ill-formed run'; one recorded finding (pinned tail-swallowing)"),
 "C13": ("proof", "Progress + termination theorem of the chunked reader for every stream, chunk size >= 32, policy; BOM table and BOM detection theorems over regenerated constants; ambiguity theorem; Spec encoders judge reader/writer answers at every chunk alignment/truncation.",
         "hand-written model of DetectEncoding/CEncodedStreamReader/Writer; istream modelled as (bytes, eof) with short-read-sets-eof; chunk-independence of the decoded text is validated by correspondence, not yet proved"),
}
NOT_YET = "check not built yet in this round (work in progress; see DESIGN.md §9)"

def main():
    props = [json.loads(l) for l in open(os.path.join(VERIF, "properties.jsonl"))]
    man = {
     "version": 1,
     "setup_cmd": "sh tools/setup.sh",
     "hooks": {"guard": "BITSERIALIZER_VERIF",
               "enable": "-DBITSERIALIZER_VERIF (passed by tools/check.py when it compiles the harness against /repo)",
               "baseline_off_cmd": "cmake --build /repo/_build -j16 && ctest --test-dir /repo/_build -j8 --timeout 900",
               "source_commits": [], "add_only": True},
     "engines": [{"name": "lean4+correspondence", "path": "tools/check.py", "serves_properties": sorted(CLAIMED),
                  "kind_free_text": "Lean 4 theorems about a model of the code (lean/BSVerif), tied to /repo by regenerated constants (tools/translate.py) and a line-protocol correspondence run (harness/ vs the Lean driver bsmodel) with the Lean Spec as oracle"}],
     "checks": [], "not_applicable": [], "notes": "see DESIGN.md"}
    for p in props:
        pid = p["id"]
        if pid in CLAIMED:
            cat, text, note = CLAIMED[pid]
            man["checks"].append({
              "property_id": pid,
              "quick_cmd": f"python3 tools/check.py {pid} --tier quick",
              "thorough_cmd": f"python3 tools/check.py {pid} --tier thorough",
              "evidence_file": f"/verif/evidence/{pid}.json",
              "replay_cmd_template": f"python3 tools/check.py {pid} --replay {{path}}",
              "engine": "lean4+correspondence",
              "level_claimed": {"category": cat, "text": text, "design_ref": f"DESIGN.md §4 {pid}"},
              "level_note": "trusted: Lean 4.33 kernel; axioms propext/Classical.choice/Quot.sound only (audited every run); " + note + "; translators; g++/libstdc++ x86-64",
              "technique": "machine-checked proof (Lean 4) + model/implementation correspondence with Lean Spec oracle"})
        else:
            man["not_applicable"].append({"property_id": pid, "reason": NOT_YET})
    json.dump(man, open(os.path.join(VERIF, "MANIFEST.json"), "w"), indent=1)

if __name__ == "__main__":
    main()
