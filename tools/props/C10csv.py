"""CSV half of C10 — memory reader vs stream reader equivalence, stream writer vs string writer.

`gen_c10(tier, rng, boost)`, `THEOREMS_C10CSV`, `extra_checks_c10` and `nontrivial_c10` are meant to be
called from C10.py; the module is also a complete property module of its own (`check.py C10csv`)."""
from .csvgen import *

THEOREMS_C10CSV = [
    "BSVerif.Props.C10.Csv.stream_reader_refines_memory",
    "BSVerif.Props.C10.Csv.stream_reader_refines_memory_default",
    "BSVerif.Props.C10.Csv.chunking_irrelevant",
    "BSVerif.Props.C10.Csv.stream_reader_conforms",
    "BSVerif.Props.C10.Csv.stream_reader_satisfies_oracle",
    "BSVerif.Props.C10.Csv.load_stream_eq_load_string",
    "BSVerif.Props.C10.Csv.stream_writer_equals_string_writer",
    "BSVerif.Props.C10.Csv.save_stream_eq_save_string",
    "BSVerif.Props.C10.Csv.stream_line_refines",
    "BSVerif.Csv.Stream.streamSession_eq_abs",
    "BSVerif.Csv.Stream.scanLineS_abs",
    "BSVerif.Csv.Stream.scanLineS_spans",
    "BSVerif.Csv.Stream.unescapeInPlace_spec",
]
THEOREMS = THEOREMS_C10CSV
RULE = ("the same request (text x separator x script) through CCsvStringReader and CCsvStreamReader, answers compared pairwise; documents with "
        "a quoted field / escaped quote / CRLF / multi-byte character / separator / end of text at every offset -6..+6 (thorough -16..+16) around "
        "the 256-, 512- (and 768-) byte chunk boundaries, in every column, read by key / by index / twice; values of several chunks; every string "
        "over {a,\",sep,CR,LF} up to length 4 (quick) / 7 (thorough); malformed documents; writer ops through both writers; "
        "non-trivial = text longer than one chunk, or containing a quote, or an error outcome")
EXHAUSTIVE = {"quick": False, "thorough": False}
ASSUMPTIONS = ["stream input is UTF-8 without BOM and without NUL in the first chunk (encoding detection and the BOM squeeze are C13)",
               "std::istream::read delivers min(n, remaining) bytes and sets eofbit iff fewer than n arrived (std::istringstream)",
               "chunk size >= 1 (the library asserts >= 32)"]
TRUSTED = ["harness/ops_csv.cpp"]


def nontrivial_c10(op, impl):
    t = op.split(" ")
    if impl.startswith("err") or " E" in impl or impl.startswith("E"):
        return True
    if t[0] in ("csv.read", "csv.load"):
        return "22" in t[-1] or len(t[-1]) > 2 * CHUNK
    return "22" in impl


nontrivial = nontrivial_c10


def gen_c10(tier, rng, boost=1):
    q = tier == "quick"
    ops = []
    ops += gen_malformed(rng)
    ops += gen_small_alphabet(rng, 4 if q else 7)
    ops += gen_boundary(rng, range(-6, 7) if q else range(-16, 17), boundaries=(CHUNK, 2 * CHUNK) if q else (CHUNK, 2 * CHUNK, 3 * CHUNK), tier=tier)
    ops += gen_long_values(rng, (40 if q else 600) * boost)
    ops += gen_tables_read(rng, (100 if q else 2000) * boost, full_scripts_every=2)
    ops += gen_wrong_width(rng, (30 if q else 400) * boost)
    ops += gen_write(rng, (100 if q else 2000) * boost)
    ops += gen_archive(rng, (60 if q else 1000) * boost, allow_empty=False)
    return ops


gen = gen_c10


def extra_checks_c10(ops, impl, res, known_classes, known_hits):
    return list(pair_checks(ops, impl))


extra_checks = extra_checks_c10
