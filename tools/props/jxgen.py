"""Generators and independent test oracles for the JSON / XML adapter ops (json.* / xml.*), shared by C08, C01, C04.

Python's `json` and `xml.etree.ElementTree` are used as INDEPENDENT STANDARD PARSERS (test oracles, not part of the
proved base): every produced document is parsed with them and compared with the data model of the saved value, and
every document is re-rendered by the emitters below (random whitespace, escapes / character references, member order,
numeric spelling, encoding + BOM) and loaded back through the real code, expecting the original value.

schema (python)  : ('leaf', name) | ('vec', S) | ('cls', [(attr, keybytes, S), ...]) | ('map', S) | ('opt', S)
value  (python)  : bool | int | ('f64', bits) | ('f32', bits) | bytes | None (the null leaf)
                   | list (vec) | ('cls', [V...]) | dict bytes->V (map) | ('none',) (empty optional)
"""
import json, struct, math

INT_TYPES = {"i8": (8, True), "u8": (8, False), "i16": (16, True), "u16": (16, False), "i32": (32, True), "u32": (32, False),
             "i64": (64, True), "u64": (64, False), "ll": (64, True), "ull": (64, False)}
LEAVES = ["b", "i8", "u8", "i16", "u16", "i32", "u32", "i64", "u64", "f32", "f64", "s", "n"]
ENCS = ["utf8", "utf16le", "utf16be", "utf32le", "utf32be"]
PYCODEC = {"utf8": "utf-8", "utf16le": "utf-16-le", "utf16be": "utf-16-be", "utf32le": "utf-32-le", "utf32be": "utf-32-be"}
BOMS = {"utf8": b"\xef\xbb\xbf", "utf16le": b"\xff\xfe", "utf16be": b"\xfe\xff", "utf32le": b"\xff\xfe\x00\x00", "utf32be": b"\x00\x00\xfe\xff"}


def hexb(b):
    return b.hex() if b else "-"


def irange(t):
    bits, signed = INT_TYPES[t]
    return (-(1 << (bits - 1)), (1 << (bits - 1)) - 1) if signed else (0, (1 << bits) - 1)


# ------------------------------------------------------------------------------------------------
# schema / value syntax
# ------------------------------------------------------------------------------------------------
def schema_str(s):
    k = s[0]
    if k == "leaf":
        return s[1]
    if k == "vec":
        return "[" + schema_str(s[1]) + "]"
    if k == "map":
        return "<" + schema_str(s[1]) + ">"
    if k == "opt":
        return "?" + schema_str(s[1])
    return "{" + ",".join(("@" if a else "") + hexb(key) + ":" + schema_str(fs) for a, key, fs in s[1]) + "}"


def value_str(s, v):
    k = s[0]
    if k == "leaf":
        t = s[1]
        if t == "b":
            return "t" if v else "f"
        if t == "n":
            return "n"
        if t == "s":
            return "s" + hexb(v)
        if t == "f64":
            return "x%016x" % v[1]
        if t == "f32":
            return "y%08x" % v[1]
        return str(v)
    if k == "vec":
        return "[" + ",".join(value_str(s[1], x) for x in v) + "]"
    if k == "map":
        return "<" + ",".join(hexb(key) + "=" + value_str(s[1], v[key]) for key in sorted(v)) + ">"
    if k == "opt":
        return "~" if v == ("none",) else value_str(s[1], v)
    return "{" + ",".join(value_str(fs[2], x) for fs, x in zip(s[1], v[1])) + "}"


def f64_of_bits(b):
    return struct.unpack(">d", struct.pack(">Q", b))[0]


def bits_of_f64(x):
    return struct.unpack(">Q", struct.pack(">d", x))[0]


def f32_of_bits(b):
    return struct.unpack(">f", struct.pack(">I", b))[0]


def is_finite_tree(s, v):
    k = s[0]
    if k == "leaf":
        if s[1] == "f64":
            return (v[1] >> 52) & 0x7FF != 0x7FF
        if s[1] == "f32":
            return (v[1] >> 23) & 0xFF != 0xFF
        return True
    if k == "vec":
        return all(is_finite_tree(s[1], x) for x in v)
    if k == "map":
        return all(is_finite_tree(s[1], x) for x in v.values())
    if k == "opt":
        return v == ("none",) or is_finite_tree(s[1], v)
    return all(is_finite_tree(fs[2], x) for fs, x in zip(s[1], v[1]))


# ------------------------------------------------------------------------------------------------
# random schemas and values
# ------------------------------------------------------------------------------------------------
def rand_scalar_cp(rng, xml):
    """a Unicode scalar value; xml=True restricts to the XML 1.0 Char production"""
    r = rng.random()
    if r < 0.35:
        return rng.randrange(0x20, 0x7F)
    if r < 0.50:
        return rng.choice([0x22, 0x5C, 0x2F, 0x27, 0x3C, 0x3E, 0x26, 0x20, 0x09, 0x0A, 0x5D, 0x3B, 0x23, 0x7B, 0x7D, 0x5B, 0x3A, 0x2C])
    if r < 0.58:
        c = rng.choice([0x00, 0x01, 0x08, 0x0B, 0x0C, 0x0D, 0x1F, 0x7F, 0x1B, 0x0A, 0x09])
        if xml and c not in (0x09, 0x0A, 0x7F):
            return 0x09       # \r is normalised by XML parsers (recorded finding, generated separately)
        return c
    if r < 0.70:
        return rng.randrange(0x80, 0x800)
    if r < 0.85:
        c = rng.choice([0x800, 0xD7FF, 0xE000, 0xFFFD, 0x2028, 0x2029, 0xFEFF, 0x20AC, 0x4E2D, rng.randrange(0x800, 0xD800), rng.randrange(0xE000, 0xFFFE)])
        return c
    if r < 0.88 and not xml:
        return rng.choice([0xFFFE, 0xFFFF])
    return rng.choice([0x10000, 0x10FFFF, 0x1F600, 0x1FFFF, rng.randrange(0x10000, 0x110000)])


def rand_text(rng, xml=False, maxlen=12):
    n = rng.choice([0, 1, 1, 2, 3, 5, 8, maxlen])
    return "".join(chr(rand_scalar_cp(rng, xml)) for _ in range(n)).encode("utf-8")


# names from the intersection of XML 1.0 4th edition (expat) and 5th edition name rules
NAME_START = [0x41, 0x5A, 0x61, 0x7A, 0x5F, 0xC0, 0xD6, 0xD8, 0xF6, 0xF8, 0xFF, 0x100, 0x3B1, 0x3C9, 0x410, 0x44F, 0x4E00, 0x4E2D, 0x9FA5, 0xAC00, 0xD7A3]
NAME_MORE = [0x2D, 0x2E, 0x30, 0x39, 0xB7, 0x300, 0x301, 0x660, 0x3005]


def rand_xml_name(rng):
    """an XML 1.0 (5th ed.) Name without colon"""
    n = rng.choice([1, 1, 2, 3, 6])
    cps = [rng.choice(NAME_START) if rng.random() < 0.3 else rng.choice([rng.randrange(0x61, 0x7B), rng.randrange(0x41, 0x5B), 0x5F])]
    for _ in range(n - 1):
        r = rng.random()
        cps.append(rng.choice(NAME_MORE) if r < 0.25 else rng.choice(NAME_START) if r < 0.4 else rng.randrange(0x61, 0x7B))
    return "".join(map(chr, cps)).encode("utf-8")


def rand_key(rng, used, xml):
    for _ in range(100):
        if xml:
            k = rand_xml_name(rng)
        else:
            k = rand_text(rng, False, 6).replace(b"\x00", b"0")      # keys travel as C strings in VisitKeys: no NUL
        if k not in used:
            used.add(k)
            return k
    k = b"k%d" % len(used)
    used.add(k)
    return k


F64_SPECIAL = [0x0000000000000000, 0x8000000000000000, 0x0000000000000001, 0x000FFFFFFFFFFFFF, 0x0010000000000000, 0x7FEFFFFFFFFFFFFF,
               0xFFEFFFFFFFFFFFFF, 0x3FF0000000000000, 0xBFF0000000000000, 0x3FB999999999999A, 0x4340000000000000, 0x4340000000000001,
               0x433FFFFFFFFFFFFF, 0x43E0000000000000, 0x43F0000000000000, 0xC3E0000000000000, 0x444B1AE4D6E2EF50, 0x3FD5555555555555,
               0x47EFFFFFE0000000, 0x47EFFFFFE0000001, 0x47EFFFFFF0000000, 0x36A0000000000000, 0x3690000000000000, 0x4059000000000000,
               0x40C3880000000000, 0x7FF0000000000000, 0xFFF0000000000000, 0x7FF8000000000000, 0x7FF0000000000001]
F32_SPECIAL = [0x00000000, 0x80000000, 0x00000001, 0x007FFFFF, 0x00800000, 0x7F7FFFFF, 0xFF7FFFFF, 0x3F800000, 0x3DCCCCCD, 0x4B800000, 0x4B7FFFFF,
               0x7F800000, 0xFF800000, 0x7FC00000, 0x3EAAAAAB]


def rand_int(rng, t):
    lo, hi = irange(t)
    r = rng.random()
    if r < 0.45:
        return rng.choice([lo, lo + 1, lo + 2, hi, hi - 1, hi - 2, 0, 1, -1 if lo < 0 else 2, 90])
    if r < 0.7:
        k = rng.randrange(1, INT_TYPES[t][0])
        v = (1 << k) + rng.choice([-1, 0, 1])
        if lo < 0 and rng.random() < 0.5:
            v = -v
        return min(hi, max(lo, v))
    return rng.randint(lo, hi)


def rand_leaf(rng, t, xml=False, finite=False):
    if t == "b":
        return rng.random() < 0.5
    if t == "n":
        return None
    if t == "s":
        return rand_text(rng, xml)
    if t == "f64":
        while True:
            b = rng.choice(F64_SPECIAL) if rng.random() < 0.4 else rng.getrandbits(64)
            if rng.random() < 0.15:
                b = bits_of_f64(float(rng.choice([0, 1, -1, 5, 100, 255, 256, 65536, 2 ** 31, 2 ** 32, 2 ** 53, -2 ** 63, 2 ** 64, 10 ** 15, 10 ** 22])))
            if not finite or (b >> 52) & 0x7FF != 0x7FF:
                return ("f64", b)
    if t == "f32":
        while True:
            b = rng.choice(F32_SPECIAL) if rng.random() < 0.4 else rng.getrandbits(32)
            if not finite or (b >> 23) & 0xFF != 0xFF:
                return ("f32", b)
    return rand_int(rng, t)


def rand_schema(rng, depth, xml=False, at_root=False, leaves=None, allow_opt=True, in_array=False):
    leaves = leaves or LEAVES
    r = rng.random()
    if xml and at_root:
        r = 0.5 + r / 2          # the XML root scope has no scalar values
    if depth <= 0 or r < 0.5:
        t = rng.choice(leaves)
        if at_root and not xml and rng.random() < 0.1:
            t = rng.choice(["ll", "ull"])     # compile only at the JSON root
        return ("leaf", t)
    if r < 0.68:
        return ("vec", rand_schema(rng, depth - 1, xml, leaves=leaves, allow_opt=allow_opt, in_array=True))
    if r < 0.88 or not allow_opt:
        n = rng.choice([0, 1, 2, 3, 5])
        used = set()
        fields = []
        for _ in range(n):
            key = rand_key(rng, used, xml)
            if xml and rng.random() < 0.3:
                leaf = ("leaf", rng.choice([x for x in leaves if x != "n"] or ["i32"]))
                fields.append((True, key, ("opt", leaf) if allow_opt and rng.random() < 0.25 else leaf))
            else:
                fields.append((False, key, rand_schema(rng, depth - 1, xml, leaves=leaves, allow_opt=allow_opt)))
        if xml:
            # attribute names live in their own name space, but keep all names of one element distinct anyway
            pass
        return ("cls", fields)
    if r < 0.94:
        return ("map", rand_schema(rng, depth - 1, xml, leaves=leaves, allow_opt=allow_opt))
    inner = rand_schema(rng, depth - 1, xml, leaves=[x for x in leaves if x != "n"] or leaves, allow_opt=False)
    return ("opt", inner)


def rand_value(rng, s, xml=False, finite=False):
    k = s[0]
    if k == "leaf":
        return rand_leaf(rng, s[1], xml, finite)
    if k == "vec":
        return [rand_value(rng, s[1], xml, finite) for _ in range(rng.choice([0, 0, 1, 2, 3, 6]))]
    if k == "map":
        used = set()
        return {rand_key(rng, used, xml): rand_value(rng, s[1], xml, finite) for _ in range(rng.choice([0, 1, 2, 4]))}
    if k == "opt":
        return ("none",) if rng.random() < 0.4 else rand_value(rng, s[1], xml, finite)
    return ("cls", [rand_value(rng, fs[2], xml, finite) for fs in s[1]])


def rand_cfg(rng, xml=False):
    if rng.random() < 0.5:
        return "compact"
    ch = rng.choice(["20", "09"]) if xml or rng.random() < 0.8 else rng.choice(["0a", "0d"])
    return "pretty:%s:%d" % (ch, rng.choice([1, 1, 2, 4, 7]) if xml else rng.choice([0, 1, 2, 4, 7]))


def rand_out(rng):
    if rng.random() < 0.35:
        return "str"
    return "%s:%d" % (rng.choice(ENCS), rng.choice([0, 1]))


# ------------------------------------------------------------------------------------------------
# JSON: expected data model, independent parse, re-rendering
# ------------------------------------------------------------------------------------------------
class Obj:
    """ordered members (name, value) as Python's json delivers them through object_pairs_hook"""
    def __init__(self, pairs):
        self.pairs = list(pairs)

    def __eq__(self, o):
        return isinstance(o, Obj) and len(self.pairs) == len(o.pairs) and all(a[0] == b[0] and dom_eq(a[1], b[1]) for a, b in zip(self.pairs, o.pairs))


def dom_eq(a, b):
    if isinstance(a, float) or isinstance(b, float):
        return type(a) is type(b) and struct.pack(">d", a) == struct.pack(">d", b)
    if isinstance(a, bool) or isinstance(b, bool):
        return type(a) is type(b) and a == b
    if isinstance(a, list):
        return isinstance(b, list) and len(a) == len(b) and all(dom_eq(x, y) for x, y in zip(a, b))
    return type(a) is type(b) and a == b


def json_dom(s, v):
    """the JSON data model of a value: names, nesting, order, exact scalar values"""
    k = s[0]
    if k == "leaf":
        t = s[1]
        if t == "s":
            return v.decode("utf-8")
        if t == "f64":
            return f64_of_bits(v[1])
        if t == "f32":
            return f32_of_bits(v[1])
        return v            # bool / int / None
    if k == "vec":
        return [json_dom(s[1], x) for x in v]
    if k == "map":
        return Obj((key.decode("utf-8"), json_dom(s[1], v[key])) for key in sorted(v))
    if k == "opt":
        return None if v == ("none",) else json_dom(s[1], v)
    return Obj((fs[1].decode("utf-8"), json_dom(fs[2], x)) for fs, x in zip(s[1], v[1]))


def decode_output(out, data):
    """bytes -> str according to the output configuration (str = UTF-8 without BOM); None when not conforming"""
    if out == "str":
        enc, bom = "utf8", False
    else:
        enc, b = out.split(":")
        bom = b == "1"
    if bom:
        if not data.startswith(BOMS[enc]):
            return None
        data = data[len(BOMS[enc]):]
    try:
        return data.decode(PYCODEC[enc])
    except UnicodeDecodeError:
        return None


def py_json_parse(text):
    def nope(x):
        raise ValueError("non-finite literal " + x)
    return json.loads(text, object_pairs_hook=Obj, parse_constant=nope)


def has_lone_surrogate(text):
    return any(0xD800 <= ord(c) <= 0xDFFF for c in text)


def spell_double(rng, x):
    """a decimal spelling of the finite double x (verified to read back as x with a correctly rounding parser)"""
    if x == 0:
        # (long spellings of zero run into undefined behaviour in RapidJSON 1.1.0's full-precision path: corpus witness)
        return rng.choice(["0.0", "0.00", "0e0", "0E-5", "0.0e+10", "0"] if math.copysign(1, x) > 0 else ["-0.0", "-0.00", "-0e0", "-0.0E-7"])
    cands = [repr(x), "%.17g" % x, "%.17e" % x, "%.25e" % x]
    if x == int(x) and abs(x) < 2 ** 63 and not (x == 0 and math.copysign(1, x) < 0):
        cands += [str(int(x)), str(int(x)) + ".0", str(int(x)) + "e0", str(int(x)) + ".000E+00"]
    if abs(x) < 1e15 and x != 0:
        cands.append("%.30f" % x if abs(x) > 1e-10 else repr(x))
    s = rng.choice(cands)
    if "e" in s and rng.random() < 0.5:
        s = s.replace("e", "E")
    if "e+" in s.lower() and rng.random() < 0.3:
        s = s.replace("e+", "e").replace("E+", "E")
    if "inf" in s or "nan" in s:
        return repr(x)
    # JSON forbids a leading '+', leading zeros, a bare '.'; Python's formats above never produce them
    m = s.lower()
    if m.startswith(".") or m.startswith("-."):
        return repr(x)
    try:
        if struct.pack(">d", float(s)) != struct.pack(">d", x):
            return repr(x)
    except ValueError:
        return repr(x)
    return s


def json_ws(rng):
    return "".join(rng.choice(" \t\n\r") for _ in range(rng.choice([0, 0, 0, 1, 1, 2, 5])))


SHORT_ESC = {0x22: '\\"', 0x5C: "\\\\", 0x2F: "\\/", 0x08: "\\b", 0x0C: "\\f", 0x0A: "\\n", 0x0D: "\\r", 0x09: "\\t"}


def render_json_string(rng, text, mode):
    out = ['"']
    for ch in text:
        c = ord(ch)
        must = c < 0x20 or c in (0x22, 0x5C)
        r = rng.random()
        if c in SHORT_ESC and (must or r < 0.3) and (mode != "u" or not must) and rng.random() < 0.7:
            out.append(SHORT_ESC[c])
        elif must or (mode == "u") or (mode == "mix" and r < 0.3):
            if c >= 0x10000:
                c -= 0x10000
                units = [0xD800 + (c >> 10), 0xDC00 + (c & 0x3FF)]
            else:
                units = [c]
            for u in units:
                h = "%04x" % u
                out.append("\\u" + (h.upper() if rng.random() < 0.5 else h))
        else:
            out.append(ch)
    out.append('"')
    return "".join(out)


def render_json(rng, s, v, mode=None):
    """an independent rendering of the data of (s, v): random whitespace, escapes, member order, numeric spelling"""
    mode = mode or rng.choice(["raw", "u", "mix", "mix"])
    w = lambda: json_ws(rng)
    k = s[0]
    if k == "leaf":
        t = s[1]
        if t == "b":
            return "true" if v else "false"
        if t == "n":
            return "null"
        if t == "s":
            return render_json_string(rng, v.decode("utf-8"), mode)
        if t == "f64":
            return spell_double(rng, f64_of_bits(v[1]))
        if t == "f32":
            return spell_double(rng, f32_of_bits(v[1]))
        if v == 0 and rng.random() < 0.2:
            return "-0"
        return str(v)
    if k == "vec":
        return "[" + w() + ("," + w()).join(render_json(rng, s[1], x, mode) + w() for x in v) + "]"
    if k == "opt":
        return "null" if v == ("none",) else render_json(rng, s[1], v, mode)
    if k == "map":
        members = [(key, s[1], v[key]) for key in v]
    else:
        members = [(fs[1], fs[2], x) for fs, x in zip(s[1], v[1])]
        if rng.random() < 0.3:
            # an unknown extra member must be ignored
            extra = b"zz~extra"
            if all(m[0] != extra for m in members):
                members.append((extra, ("vec", ("leaf", "i8")), [1, 2]))
    rng.shuffle(members)
    return "{" + w() + ("," + w()).join(render_json_string(rng, key.decode("utf-8"), mode) + w() + ":" + w() + render_json(rng, ms, mv, mode) + w()
                                         for key, ms, mv in members) + "}"


def bomless_detectable(enc, text):
    """RapidJSON's AutoUTFInputStream recognises BOM-less UTF-16 by the zero pattern of the first four bytes (two characters in
    U+0001..U+00FF), UTF-32 by the first character"""
    if enc == "utf8":
        return True
    if enc.startswith("utf32"):
        return len(text) >= 1 and 0 < ord(text[0]) < 0x100
    return len(text) >= 2 and 0 < ord(text[0]) < 0x100 and 0 < ord(text[1]) < 0x100


def encode_doc(rng, text, enc=None, bom=None):
    enc = enc or rng.choice(ENCS)
    bom = rng.random() < 0.5 if bom is None else bom
    if not bom and not bomless_detectable(enc, text):
        bom = True
    return enc, bom, (BOMS[enc] if bom else b"") + text.encode(PYCODEC[enc])


def py_dumps(rng, s, v):
    """Python's own emitter as a second independent renderer (only for trees without duplicate names)"""
    def conv(s, v):
        k = s[0]
        if k == "leaf":
            t = s[1]
            if t == "s":
                return v.decode("utf-8")
            if t == "f64":
                return f64_of_bits(v[1])
            if t == "f32":
                return f32_of_bits(v[1])
            return v
        if k == "vec":
            return [conv(s[1], x) for x in v]
        if k == "opt":
            return None if v == ("none",) else conv(s[1], v)
        if k == "map":
            items = [(key.decode("utf-8"), conv(s[1], v[key])) for key in v]
        else:
            items = [(fs[1].decode("utf-8"), conv(fs[2], x)) for fs, x in zip(s[1], v[1])]
        rng.shuffle(items)
        return dict(items)
    indent = rng.choice([None, None, 0, 1, 3, "\t"])
    seps = rng.choice([None, (",", ":"), (" , ", " : ")])
    return json.dumps(conv(s, v), ensure_ascii=rng.random() < 0.5, indent=indent, separators=seps, allow_nan=False)


# ------------------------------------------------------------------------------------------------
# XML: independent parse (ElementTree / expat), expected load result, re-rendering
# ------------------------------------------------------------------------------------------------
import xml.etree.ElementTree as ET

XML_ENC_NAME = {"utf8": "UTF-8", "utf16le": "UTF-16", "utf16be": "UTF-16", "utf32le": "UTF-32", "utf32be": "UTF-32"}


def is_xml_char(c):
    return c in (0x9, 0xA, 0xD) or 0x20 <= c <= 0xD7FF or 0xE000 <= c <= 0xFFFD or 0x10000 <= c <= 0x10FFFF


def xml_domain(s, v):
    """finite numbers, XML 1.0 characters, (names are generated as XML names)"""
    k = s[0]
    if k == "leaf":
        if s[1] == "s":
            try:
                return all(is_xml_char(ord(ch)) for ch in v.decode("utf-8"))
            except UnicodeDecodeError:
                return False
        return is_finite_tree(s, v)
    if k == "vec":
        return all(xml_domain(s[1], x) for x in v)
    if k == "map":
        return all(xml_domain(s[1], x) for x in v.values())
    if k == "opt":
        return v == ("none",) or xml_domain(s[1], v)
    return all(xml_domain(fs[2], x) for fs, x in zip(s[1], v[1]))


def has_cr_text(s, v, attr=False):
    k = s[0]
    if k == "leaf":
        return s[1] == "s" and not attr and b"\r" in v
    if k == "vec":
        return any(has_cr_text(s[1], x) for x in v)
    if k == "map":
        return any(has_cr_text(s[1], x) for x in v.values())
    if k == "opt":
        return v != ("none",) and has_cr_text(s[1], v, attr)
    return any(has_cr_text(fs[2], x, fs[0]) for fs, x in zip(s[1], v[1]))


def item_name(s, v):
    k = s[0]
    if k == "opt":
        return "value" if v == ("none",) else item_name(s[1], v)
    return {"vec": "array", "cls": "object", "map": "object"}.get(k, "value")


def leaf_text(t, v):
    """canonical text of a scalar; None = no character data"""
    if t == "n":
        return None
    if t == "b":
        return "true" if v else "false"
    if t == "s":
        return v.decode("utf-8")
    if t == "f64":
        return repr(f64_of_bits(v[1]))
    if t == "f32":
        return "%.9g" % f32_of_bits(v[1])
    return str(v)


def leaf_text_matches(t, v, text):
    if t == "n":
        return text is None
    if t == "s":
        return (text or "") == v.decode("utf-8")
    if text is None:
        return False
    if t == "f64":
        try:
            return struct.pack(">d", float(text)) == struct.pack(">Q", v[1])
        except ValueError:
            return False
    if t == "f32":
        try:
            return struct.pack(">f", float(text)) == struct.pack(">I", v[1])
        except (ValueError, OverflowError):
            return False
    return text == leaf_text(t, v)


def et_children(e):
    """child elements; raises when non-white-space character data stands between them"""
    if len(e):
        texts = [e.text] + [c.tail for c in e]
        if any(t is not None and t.strip(" \t\r\n") != "" for t in texts):
            raise ValueError("mixed content")
    return list(e)


def xml_dom_matches(s, v, e, name):
    """ElementTree element `e` is the data model of (s, v): names, nesting, child order, attributes, lexical values"""
    if e.tag != name:
        return False
    k = s[0]
    if k == "opt":
        if v == ("none",):
            return len(e) == 0 and not e.attrib and e.text is None
        return xml_dom_matches(s[1], v, e, name)
    if k == "leaf":
        return len(e) == 0 and not e.attrib and leaf_text_matches(s[1], v, e.text)
    try:
        kids = et_children(e)
    except ValueError:
        return False
    if k == "vec":
        return not e.attrib and len(kids) == len(v) and all(xml_dom_matches(s[1], x, c, item_name(s[1], x)) for x, c in zip(v, kids))
    if k == "map":
        keys = sorted(v)
        return not e.attrib and len(kids) == len(keys) and all(xml_dom_matches(s[1], v[key], c, key.decode("utf-8")) for key, c in zip(keys, kids))
    attrs = [(fs, x) for fs, x in zip(s[1], v[1]) if fs[0]]
    elems = [(fs, x) for fs, x in zip(s[1], v[1]) if not fs[0]]
    if len(e.attrib) != len(attrs) or len(kids) != len(elems):
        return False
    for fs, x in attrs:
        key = fs[1].decode("utf-8")
        if key not in e.attrib:
            return False
        fsch = fs[2]
        if fsch[0] == "opt":
            if x == ("none",):
                if e.attrib[key] != "":
                    return False
                continue
            fsch = fsch[1]
        t = fsch[1]
        if t == "n":
            if e.attrib[key] != "":
                return False
        elif not leaf_text_matches(t, x, e.attrib[key]):
            return False
    return all(xml_dom_matches(fs[2], x, c, fs[1].decode("utf-8")) for (fs, x), c in zip(elems, kids))


def absent_str(s):
    return "~" if s[0] == "opt" else "_"


def xml_expect(s, v, attr=False):
    """canonical answer of a load of a conforming rendering of (s, v) into a fresh target: the documented mapping of XML
    (an empty element is null; element without children = empty container)"""
    k = s[0]
    if k == "leaf":
        t = s[1]
        if t == "n":
            return "n" if attr else "_"
        if t == "s" and v == b"" and not attr:
            return "_"
        return value_str(s, v)
    if k == "vec":
        return "[" + ",".join(xml_expect(s[1], x) for x in v) + "]"
    if k == "map":
        return "<" + ",".join(hexb(key) + "=" + xml_expect(s[1], v[key]) for key in sorted(v)) + ">"
    if k == "opt":
        inner = s[1]
        if v == ("none",):
            if attr and inner == ("leaf", "s"):
                return "s-"          # an empty optional string attribute is written as key="" and reads back as ""
            if inner[0] == "vec":
                return "[]"
            if inner[0] == "map":
                return "<>"
            if inner[0] == "cls":
                return "{" + ",".join(absent_str(fs[2]) for fs in inner[1]) + "}"
            return "~"
        r = xml_expect(inner, v, attr)
        return "~" if r == "_" else r
    return "{" + ",".join(xml_expect(fs[2], x, fs[0]) for fs, x in zip(s[1], v[1])) + "}"


def xml_escape_text(rng, text, attr_quote=None, mode="mix"):
    out = []
    for ch in text:
        c = ord(ch)
        r = rng.random()
        if ch == "<":
            out.append(rng.choice(["&lt;", "&#60;", "&#x3c;", "&#x3C;"]))
        elif ch == "&":
            out.append(rng.choice(["&amp;", "&#38;", "&#x26;"]))
        elif ch == ">":
            out.append(rng.choice(["&gt;", "&#62;", ">"]) if not (len(out) >= 2 and out[-1] == "]" and out[-2] == "]") else "&gt;")
        elif ch == "\r" or (attr_quote and ch in "\t\n"):
            out.append(rng.choice(["&#%d;" % c, "&#x%X;" % c, "&#x%x;" % c]))
        elif attr_quote and ch == attr_quote:
            out.append("&quot;" if ch == '"' else "&apos;")
        elif ch in "\"'" and r < 0.3:
            out.append("&quot;" if ch == '"' else "&apos;")
        elif mode == "refs" or (mode == "mix" and r < 0.25) or (ch in " \t\n" and r < 0.5):
            out.append(rng.choice(["&#%d;" % c, "&#x%X;" % c, "&#x%x;" % c, "&#x00%x;" % c]))
        else:
            out.append(ch)
    return "".join(out)


def xml_misc(rng):
    r = rng.random()
    if r < 0.6:
        return ""
    if r < 0.8:
        return "<!-- %s -->" % rng.choice(["c", "a < b & c", "", "x - y", "é"])
    return "<?%s %s?>" % (rng.choice(["pi", "xml-stylesheet", "p1"]), rng.choice(["", "data", 'href="a"', "<&>"]))


def spell_int_xml(rng, v):
    s = str(v)
    r = rng.random()
    if r < 0.15:
        return ("-" if v < 0 else "") + "0" * rng.choice([1, 3]) + s.lstrip("-")
    if r < 0.25:
        return " " + s
    if r < 0.3 and v == 0:
        return "-0"
    return s


def xml_leaf_spelling(rng, t, v):
    if t == "b":
        return rng.choice(["true", "1", "TRUE", "True"]) if v else rng.choice(["false", "0", "FALSE", "False"])
    if t == "f64":
        return spell_double(rng, f64_of_bits(v[1]))
    if t == "f32":
        x = f32_of_bits(v[1])
        c = rng.choice(["%.9g" % x, repr(x), "%.17g" % x, "%.12e" % x])
        return c
    if t == "s":
        return v.decode("utf-8")
    return spell_int_xml(rng, v)


def render_xml_node(rng, s, v, name, depth, pretty, mode):
    """independent rendering of (s, v) as element `name`"""
    k = s[0]
    nl = ("\n" + rng.choice([" ", "\t", "  "]) * depth) if pretty else ""

    def empty():
        return rng.choice(["<%s/>", "<%s />", "<%s></%s>", "<%s\n/>"]).replace("%s", name)
    if k == "opt":
        if v == ("none",):
            return empty()
        return render_xml_node(rng, s[1], v, name, depth, pretty, mode)
    if k == "leaf":
        t = s[1]
        if t == "n":
            return empty()
        text = xml_leaf_spelling(rng, t, v)
        if text == "":
            return empty()
        if t == "s" and "]]>" not in text and "\r" not in text and rng.random() < 0.2:
            body = "<![CDATA[" + text + "]]>"
        else:
            body = xml_escape_text(rng, text, None, mode)
            if body.strip(" \t\n") == "" and body != "":
                body = "".join("&#%d;" % ord(ch) for ch in body)      # literal white space only would be dropped by the loader (recorded finding)
        return "<%s>%s</%s%s>" % (name, body, name, rng.choice(["", "", " ", "\n"]))
    if k == "vec":
        kids = [render_xml_node(rng, s[1], x, item_name(s[1], x), depth + 1, pretty, mode) for x in v]
        attrs = ""
    elif k == "map":
        keys = list(v)
        rng.shuffle(keys)
        kids = [render_xml_node(rng, s[1], v[key], key.decode("utf-8"), depth + 1, pretty, mode) for key in keys]
        attrs = ""
    else:
        fields = list(zip(s[1], v[1]))
        elems = [(fs, x) for fs, x in fields if not fs[0]]
        attl = [(fs, x) for fs, x in fields if fs[0]]
        rng.shuffle(elems)
        rng.shuffle(attl)
        kids = [render_xml_node(rng, fs[2], x, fs[1].decode("utf-8"), depth + 1, pretty, mode) for fs, x in elems]
        if rng.random() < 0.3 and all(fs[1] != b"zzExtra" for fs, _ in fields):
            kids.append("<zzExtra><value>1</value></zzExtra>")        # an unknown child must be ignored
        parts = []
        for fs, x in attl:
            fsch = fs[2]
            if fsch[0] == "opt":
                if x == ("none",):
                    text = ""
                    fsch = None
                else:
                    fsch = fsch[1]
            if fsch is not None:
                text = "" if fsch[1] == "n" else xml_leaf_spelling(rng, fsch[1], x)
            q = rng.choice(['"', "'"])
            parts.append("%s%s%s=%s%s%s%s" % (rng.choice([" ", "  ", "\n", "\t"]), fs[1].decode("utf-8"), rng.choice(["", " "]), rng.choice(["", " "]), q,
                                               xml_escape_text(rng, text, q, mode), q))
        attrs = "".join(parts)
    if not kids:
        return rng.choice(["<%s%s/>", "<%s%s />", "<%s%s></%s>", "<%s%s>" + (nl if pretty else "") + "</%s>"]).replace("%s%s", name + attrs, 1).replace("%s", name)
    inner = "".join(nl + xml_misc(rng) + kd for kd in kids)
    close_nl = ("\n" + " " * max(0, depth - 1)) if pretty else ""
    return "<%s%s>%s%s</%s>" % (name, attrs, inner, close_nl + xml_misc(rng), name)


def render_xml(rng, s, v, root_name, enc_name=None):
    pretty = rng.random() < 0.5
    mode = rng.choice(["raw", "mix", "mix", "refs"])
    body = render_xml_node(rng, s, v, root_name, 1, pretty, mode)
    r = rng.random()
    q = rng.choice(['"', "'"])
    if enc_name is not None:
        decl = "<?xml version=%s1.0%s encoding=%s%s%s%s?>" % (q, q, q, enc_name, q, rng.choice(["", " standalone=%syes%s" % (q, q), " "]))
    elif r < 0.4:
        decl = ""
    else:
        decl = "<?xml version=%s1.0%s%s?>" % (q, q, rng.choice(["", " ", " standalone=%sno%s" % (q, q)]))
    pro = decl + rng.choice(["", "\n", "\r\n"]) if decl else ""
    return pro + xml_misc(rng) + rng.choice(["", "\n"]) + body + rng.choice(["", "\n", "\n<!-- end -->\n"])


def et_build(s, v, name):
    """the same data through ElementTree (second independent emitter)"""
    k = s[0]
    e = ET.Element(name)
    if k == "opt":
        if v == ("none",):
            return e
        return et_build(s[1], v, name)
    if k == "leaf":
        t = leaf_text(s[1], v)
        if t:
            e.text = t
        return e
    if k == "vec":
        for x in v:
            e.append(et_build(s[1], x, item_name(s[1], x)))
    elif k == "map":
        for key in v:
            e.append(et_build(s[1], v[key], key.decode("utf-8")))
    else:
        for fs, x in zip(s[1], v[1]):
            if fs[0]:
                fsch = fs[2]
                if fsch[0] == "opt":
                    if x == ("none",):
                        e.set(fs[1].decode("utf-8"), "")
                        continue
                    fsch = fsch[1]
                e.set(fs[1].decode("utf-8"), leaf_text(fsch[1], x) or "")
            else:
                e.append(et_build(fs[2], x, fs[1].decode("utf-8")))
    return e
