"""C19 — independent serializations on different threads do not interfere."""
import os, re, subprocess

THEOREMS = [
    "BSVerif.Props.C19.interleaving_eq_sequential",
    "BSVerif.Props.C19.step_preserves",
    "BSVerif.Props.C19.all_statics_safe",
    "BSVerif.Props.C19.compiled_mutable_safe",
]
RULE = ("ThreadSanitizer stress: T threads x a seeded mix of 18 operation kinds (SaveObject/LoadObject on MsgPack/JSON/XML/CSV from memory "
        "and streams, Convert::To for numbers/enums/chrono/UTF, validation-failing loads) on thread-local data plus shared read-only "
        "inputs (literal documents, one const source object with members of every supported kind incl. std::byte, enums, smart pointers, "
        "all containers); the concurrent run starts cold (nothing of the library has run before), every result compared with the sequential "
        "run made afterwards; saves from a source object placed in a read-only page (a write into the source is a crash); a TSan report or a differing result is a violation; "
        "non-trivial = a run with >= 2 threads; distinct = distinct (threads, iterations, seed) configurations")
EXHAUSTIVE = {"quick": False, "thorough": False}
ASSUMPTIONS = ["the program does not call setlocale (libstdc++ locale data is read-only otherwise)",
               "happens-before race detection of ThreadSanitizer on the executed schedules (validation of the footprint abstraction, not a proof)",
               "enum registration happens during static initialisation, before any thread is started"]
TRUSTED = ["tools/translate_inv.py (clang AST inventory of statics, objdump of writable sections)", "harness/tsan/tsan_stress.cpp"]


def nontrivial(op, impl):
    return True


def gen(tier, rng, boost=1):
    return []


def extra_run(check, tier, rng, boost=1):
    src = os.path.join(check.HARNESS, "tsan", "tsan_stress.cpp")
    exe, err = check.build_aux("tsan_stress", [src], ["-O1", "-g", "-fsanitize=thread"])
    if exe is None:
        return [("tsan.build", "build-failed", "bad:tsan_stress_does_not_build_against_the_current_tree:" + (err or "")[-200:].replace(" ", "_").replace("\n", "|"))]
    cfgs = [(2, 300), (8, 400), (16, 300)] if tier == "quick" else [(2, 2000), (8, 5000), (16, 5000), (32, 2000)]
    seeds = (3 if tier == "quick" else 10) * boost
    out = []
    env = dict(os.environ)
    env["TSAN_OPTIONS"] = "halt_on_error=0:exitcode=66:report_signal_unsafe=0:history_size=4"
    for (t, it) in cfgs:
        for _ in range(seeds):
            seed = rng.randrange(1, 10 ** 6)
            op = f"tsan.run {t} {it} {seed}"
            try:
                p = subprocess.run([exe, str(t), str(it), str(seed)], stdout=subprocess.PIPE, stderr=subprocess.PIPE, text=True, timeout=600, env=env)
            except subprocess.TimeoutExpired:
                out.append((op, "timeout", "bad:timeout"))
                continue
            ans = (p.stdout.strip().split("\n") or ["?"])[-1] or "?"
            if "WARNING: ThreadSanitizer" in p.stderr:
                m = re.search(r"WARNING: ThreadSanitizer: ([^\n(]*)", p.stderr)
                loc = re.search(r"#0 ([^\n]*)", p.stderr)
                ans = "race:" + (m.group(1).strip().replace(" ", "_") if m else "report")
                out.append((op, ans, "bad:" + ans + ("@" + loc.group(1).strip().replace(" ", "_")[:120] if loc else "")))
            elif p.returncode != 0 or not ans.startswith("ok"):
                out.append((op, ans.replace(" ", "_"), "bad:result_differs_from_sequential_run_or_crash_rc" + str(p.returncode)))
            else:
                out.append((op, ans, "ok"))
    return out
