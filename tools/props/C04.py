"""C04 — numbers load exactly or are reported per policy, never silently altered
(direct conversions Convert::To/TryTo between arithmetic types, Detail::ConvertByPolicy)."""
from .numgen import *

THEOREMS = [
    "BSVerif.Props.C04.conv_exact",
    "BSVerif.Props.C04.conv_never_alters",
    "BSVerif.Props.C04.conv_bool_exact",
    "BSVerif.Props.C04.conv_from_bool_exact",
    "BSVerif.Props.C04.conv_same_type_identity",
    "BSVerif.Props.C04.float_to_integer_is_mismatch",
    "BSVerif.Props.C04.int_to_float_sound",
    "BSVerif.Props.C04.int_to_float_no_ub",
    "BSVerif.Props.C04.int_to_float_exact_small",
    "BSVerif.Props.C04.unguarded_cast_back_is_ub",
    "BSVerif.Props.C04.float_widen_total",
    "BSVerif.Props.C04.float_narrow_cases",
    "BSVerif.Props.C04.float_narrow_full",
    
    "BSVerif.Props.C04.convTo_total",
    "BSVerif.Props.C04.tryTo_spec",
    "BSVerif.Props.C04.policy_total",
    "BSVerif.Props.C04.policy_int_exact",
    "BSVerif.Props.C04.policy_never_parsing",
    "BSVerif.Props.C04.refOps_laws_sample",
]
RULE = ("Convert::To over S x T for the 15 arithmetic type tokens: every value of the 8-bit types and bool x every target (quick), "
        "every value of the 16-bit types x every target (thorough), every type limit +-2, +-2^k+-1 (k<=64), float exactness thresholds, "
        "the 2^N-rounding neighbourhoods and random values for 32/64-bit sources, float/double bit patterns (specials, FLT_MAX / subnormal "
        "thresholds, random) x every target; ConvertByPolicy over the same values x {throw,skip}^2 plus string and non-convertible sources; "
        "non-trivial = source and target type differ; distinct = distinct op lines")
EXHAUSTIVE = {"quick": False, "thorough": False}
ASSUMPTIONS = [
    "x86-64 SSE2 float<->int / float<->double conversions and comparisons behave as the IEEE 754 reference in BSVerif/Num/Ieee.lean "
    "(roundTiesToEven; NaN payload kept and quieted) — laws listed in NOTES.md, exercised on every run",
    "plain char is signed 8-bit, wchar_t signed 32-bit, char16_t/char32_t unsigned (x86-64 Linux ABI)",
    "archive positions (MsgPack/JSON/XML/CSV cells) are covered by the archive builders; here: the conversion layer they all call",
]
TRUSTED = ["IEEE 754 reference implementation BSVerif/Num/Ieee.lean as the meaning of the SSE2 instructions"]


def nontrivial(op, impl):
    t = op.split(" ")
    if t[0] in ("num.conv", "num.try", "num.policy"):
        return t[1] != t[2]
    return True


def showv(t, v):
    return fhex(t, v) if t in FLOAT_TYPES else str(v)


def conv_all_targets(s, v):
    return [f"num.conv {s} {t} {showv(s, v)}" for t in ALL_TYPES]


from .C08 import gen_c04_jsonxml, extra_checks_jsonxml


def gen(tier, rng, boost=1):
    ops = []
    # ---- exhaustive small sources x all targets
    for s in ("i8", "u8", "char", "bool"):
        lo, hi = rng_of(s)
        for v in range(lo, hi + 1):
            ops += conv_all_targets(s, v)
    if tier == "thorough":
        for s in ("i16", "u16", "c16"):
            lo, hi = rng_of(s)
            for v in range(lo, hi + 1):
                ops += conv_all_targets(s, v)
    else:
        for s in ("i16", "u16", "c16"):
            lo, hi = rng_of(s)
            for v in rng.sample(range(lo, hi + 1), 300 * boost):
                ops += conv_all_targets(s, v)
    # ---- boundaries for every integer source
    bnd = boundary_ints()
    pool = []      # (S, v) kept for the policy ops
    for s in list(INT_TYPES) + ["bool"]:
        for v in bnd:
            if fits(s, v):
                ops += conv_all_targets(s, v)
                pool.append((s, v))
    # ---- random wide sources
    n = (1500 if tier == "quick" else 60000) * boost
    for _ in range(n):
        s = rng.choice(["i32", "u32", "i64", "u64", "c32", "wc", "i16", "u16"])
        v = rand_int(rng)
        if not fits(s, v):
            lo, hi = rng_of(s)
            v = max(lo, min(hi, v))
        for t in rng.sample(ALL_TYPES, 4):
            ops.append(f"num.conv {s} {t} {v}")
        pool.append((s, v))
    # ---- floating sources
    fpool = [("f32", b) for b in F32_SPECIAL] + [("f64", b) for b in F64_SPECIAL]
    for _ in range((1500 if tier == "quick" else 60000) * boost):
        t = rng.choice(["f32", "f64", "f64"])
        fpool.append((t, rand_float_bits(rng, t)))
    for s, b in fpool:
        for t in ("f32", "f64", rng.choice(ALL_TYPES[:13])):
            ops.append(f"num.conv {s} {t} {fhex(s, b)}")
    for s, b in fpool[:len(F32_SPECIAL) + len(F64_SPECIAL)]:
        ops += conv_all_targets(s, b)
    # ---- TryTo
    for s, v in rng.sample(pool, min(len(pool), 1500 * boost)):
        ops.append(f"num.try {s} {rng.choice(ALL_TYPES)} {v}")
    for s, b in rng.sample(fpool, min(len(fpool), 300 * boost)):
        ops.append(f"num.try {s} {rng.choice(ALL_TYPES)} {fhex(s, b)}")
    # ---- ConvertByPolicy
    pols = [(o, m) for o in ("throw", "skip") for m in ("throw", "skip")]
    for s, v in rng.sample(pool, min(len(pool), (3000 if tier == "quick" else 30000) * boost)):
        t = rng.choice(ALL_TYPES)
        for o, m in (pols if rng.random() < 0.25 else [rng.choice(pols)]):
            ops.append(f"num.policy {s} {t} {o} {m} {v}")
    for s, b in rng.sample(fpool, min(len(fpool), (1000 if tier == "quick" else 10000) * boost)):
        t = rng.choice(ALL_TYPES)
        o, m = rng.choice(pols)
        ops.append(f"num.policy {s} {t} {o} {m} {fhex(s, b)}")
    for t in ALL_TYPES:
        for o, m in pols:
            ops.append(f"num.policy null {t} {o} {m} 0")
    # string sources: the text parsers that XML / CSV cells and map keys go through
    texts = ["", " ", "0", "1", "-1", "42", "  42", "42  ", "4.2", "4.", ".5", "1e3", "-0", "+1", "x", "true", "FALSE", "tru", "127", "128",
             "-128", "-129", "255", "256", "32767", "32768", "65535", "65536", "2147483647", "2147483648", "-2147483649", "4294967295",
             "4294967296", "9223372036854775807", "9223372036854775808", "-9223372036854775809", "18446744073709551615",
             "18446744073709551616", "99999999999999999999999", "1e39", "1e309", "1e-400", "3.4028235e38", "3.4028236e38", "nan", "inf",
             "0x10", "12abc", "1.5.5", "\t7", "7é", "é7"]
    for tx in texts:
        for t in TEXT_TYPES + ["bool", "f32", "f64"]:
            src = rng.choice(["str8", "str16", "str32"])
            o, m = rng.choice(pols)
            w = {"str8": "8", "str16": "16", "str32": "32"}[src]
            us = list(tx.encode("utf-8")) if w == "8" else ustr(tx)
            ops.append(f"num.policy {src} {t} {o} {m} {units(w, us)}")
    ops += gen_c04_jsonxml(tier, rng, boost)
    # JSON numbers that need 16-17 significant digits or a large exponent, into double and float targets, from a string AND from a stream
    from . import C08 as J
    for _ in range((60 if tier == "quick" else 4000) * boost):
        x = J.G.f64_of_bits(J.G.rand_leaf(rng, "f64", finite=True)[1])
        lit = J.G.spell_double(rng, x)
        for t in ("f64", "f32"):
            for inp in ("str", "stream"):
                ops.append(J.json_load_op(rng, ("vec", ("leaf", t)), ("[" + lit + "]").encode(), inp=inp, pol=rng.choice(J.POLS)))
    # ---- the same conversion carried by a MsgPack document: every integer format of a value x every arithmetic target, through the
    # memory reader AND the stream reader (two separately written copies of ReadInteger), both overflow policies
    from . import mpgen as M
    vals = sorted(set(M.INT_THRESHOLDS) | set(range(-140, 140)) | {rng.randrange(-2 ** 63, 2 ** 64) for _ in range(100 if tier == "quick" else 5000)})
    for v in vals:
        if not -2 ** 63 <= v < 2 ** 64:
            continue
        for f in M.int_formats(v):
            for T in (M.INT_TARGETS if tier == "thorough" else rng.sample(M.INT_TARGETS, 3)):
                for src in ("mem", "stream"):
                    ops.append(M.read_op(src, rng.choice(["throw", "skip"]), "throw", T, rng.choice([0, 0, 254, 255]), M.enc_int(v, f) + bytes([0xC3])))
    # float 64 values inside / at the edge of / beyond the float range into a float target, both readers, both overflow policies
    f64s = [0x47EFFFFFE0000000, 0x47EFFFFFE0000001, 0x47EFFFFFF0000000, 0x47F0000000000000, 0xC7EFFFFFE0000000, 0xC7F0000000000000, 0x7FE0000000000000,
            0x3FF0000000000000, 0x36A0000000000000, 0x0000000000000001, 0x7FF0000000000000, 0x7FF8000000000000, 0xFFF0000000000000]
    f64s += [rng.getrandbits(64) for _ in range(60 if tier == "quick" else 3000)]
    for b in f64s:
        for src in ("mem", "stream"):
            for ovf in ("throw", "skip"):
                ops.append(M.read_op(src, ovf, "throw", "f32", rng.choice([0, 250, 253]), bytes([0xCB]) + b.to_bytes(8, "big") + bytes([0xC3])))
    return ops


def extra_checks(ops, impl, res, known_classes, known_hits):
    return list(extra_checks_jsonxml(ops, impl, res, known_classes, known_hits) or [])
