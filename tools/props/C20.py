"""C20 — every failure surfaces as a catchable exception: no terminate, no leak."""
from .scopegen import gen_scope_ops

THEOREMS = [
    "BSVerif.Props.C20.no_terminate",
    "BSVerif.Props.C20.error_surfaces",
    "BSVerif.Props.C20.deferred_error_surfaces",
    "BSVerif.Props.C20.deferred_never_completes",
    "BSVerif.Props.C20.exception_is_genuine",
    "BSVerif.Props.C20.throwing_dtor_terminates",
    "BSVerif.Props.C20.first_deferred_error_is_kept",
    "BSVerif.Props.C20.dtors_cannot_let_exceptions_escape",
    "BSVerif.Props.C20.deferring_dtors_are_the_four_scopes",
    "BSVerif.Props.C20.dtor_inventory",
    "BSVerif.Props.C20.csv_deferred_save_eq",
]
RULE = ("fault enumeration on 16 scenarios (load/save x MsgPack/JSON/XML/CSV x memory/stream of a nested class with strings, vector, map, "
        "optional; CSV rows): every truncation length of each sample document (memory and stream), the k-th operator new failing for every "
        "k up to the number of allocations of the scenario, the stream buffer failing/throwing at every byte offset, library-detected mid-save "
        "errors; outcomes other than ok/exception (terminate, crash, sanitizer or leak report, timeout) are violations; "
        "non-trivial = the injected fault was actually reached; distinct = distinct op lines")
EXHAUSTIVE = {"quick": False, "thorough": True}
ASSUMPTIONS = ["allocation failure = operator new throwing std::bad_alloc (interposed in the harness; malloc underneath so ASan/LSan still track)",
               "stream failure = streambuf throwing from underflow (input) / refusing bytes (output)",
               "third-party parsers (RapidJSON, pugixml) are exercised, not modelled"]
TRUSTED = ["harness/ops_fault.cpp (fault injection points)", "clang AST may-throw analysis of tools/translate_inv.py"]
OP_TIMEOUT = 20.0
SCEN = [f"{a}_{d}_{s}" for a in ("mp", "json", "xml", "csv") for d in ("load", "save") for s in ("mem", "stream")]


def nontrivial(op, impl):
    return impl != "skip"


def gen(tier, rng, boost=1):
    ops = []
    q = tier == "quick"
    # mpbin: byte containers (`bin` values read through CMsgPackReadBinaryScope; every length, also in the quick tier: a cut
    # inside a payload is noticed by ReadBinary() and, while that exception unwinds, again by the scope's destructor)
    for arch, n in (("mp", 140), ("mpvec", 20), ("mpx", 178), ("mptup", 66), ("mpbin", 380), ("csv", 420), ("json", 260), ("xml", 420)):
        ks = range(0, n) if (not q or arch == "mpbin") else sorted(set(list(range(0, min(n, 60))) + rng.sample(range(n), min(n, 40)) +
                                                    (list(range(max(0, n - 66), n)) if arch in ("mpx", "mptup") else [])))
        for k in ks:
            for src in ("mem", "stream"):
                ops.append(f"fault.trunc {arch} {src} @ {k}")
    for sc in SCEN:
        for k in (range(0, 40) if q else range(0, 200)):
            ops.append(f"fault.alloc {sc} {k}")
    for sc in SCEN:
        if sc.endswith("_stream"):
            offs = range(0, 450) if not q else sorted(set(list(range(0, 40)) + rng.sample(range(450), 40)))
            for off in offs:
                ops.append(f"fault.io {sc} {off}")
    ops += ["fault.midsave csv_ragged_mem", "fault.midsave csv_ragged_stream", "fault.midsave json_nan"]
    # output streams that are already in a failed state (failbit only)
    for arch in ("mp", "json", "xml", "csv"):
        for st in ("fail", "eof", "unopened"):
            ops.append(f"fault.preset {arch} {st}")
    # the deferred-error slot of SerializationContext on its own: first error kept, rethrown exactly once
    classes = ["parsing", "ser_out_of_range", "mismatched", "overflow", "utf", "bad_alloc", "out_of_range"]
    ops.append("fault.defer -")
    for a in classes:
        ops.append(f"fault.defer {a}")
        for b in classes:
            if a != b:
                ops.append(f"fault.defer {a} {b}")
    for _ in range(20 if q else 300):
        ops.append("fault.defer " + " ".join(rng.choice(classes + ["-"]) for _ in range(rng.randrange(3, 7))))
    # scope histories over documents cut at a token boundary: every scope that is closed over the missing part fails in its
    # destructor's skip loop; the model (deferred-error path of Scope/Model.lean) must agree answer by answer
    ops += gen_scope_ops(tier, rng, boost, count=(250 if q else 5000) * boost, truncated=1.0)
    # options the library itself rejects while the root scope is being set up (exception expected, nothing leaked)
    seps = list(range(1, 128)) if not q else sorted({44, 59, 9, 32, 124, 120, 58, 35, 34, 10, 13, 65, 48, 46, 1, 127} | set(rng.sample(range(1, 128), 8)))
    for sc in ("csv_load_mem", "csv_load_stream", "csv_save_mem", "csv_save_stream"):
        for sep in seps:
            ops.append(f"fault.option {sc} {sep}")
    return ops
