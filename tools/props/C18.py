"""C18 — loading into a populated target gives the same result as into a fresh one."""

THEOREMS = [
    "BSVerif.Props.C18.container_fresh_eq",
    "BSVerif.Props.C18.container_result",
    "BSVerif.Props.C18.container_general",
    "BSVerif.Props.C18.container_partial",
    "BSVerif.Props.C18.container_full_refuted",
    "BSVerif.Props.C18.container_meets_data_model",
    "BSVerif.Props.C18.forward_list_eq_container",
    "BSVerif.Props.C18.forward_list_fresh_eq",
    "BSVerif.Props.C18.vector_bool_fresh_eq",
    "BSVerif.Props.C18.bitset_fresh_eq",
    "BSVerif.Props.C18.fixed_array_fresh_eq",
    "BSVerif.Props.C18.fixed_array_size_mismatch",
    "BSVerif.Props.C18.valarray_fresh_eq",
    "BSVerif.Props.C18.set_fresh_eq",
    "BSVerif.Props.C18.set_members",
    "BSVerif.Props.C18.multimap_fresh_eq",
    "BSVerif.Props.C18.clean_fresh_eq",
    "BSVerif.Props.C18.only_exist_never_adds",
    "BSVerif.Props.C18.update_never_removes",
    "BSVerif.Props.C18.update_adds_document_keys",
    "BSVerif.Props.C18.optional_fresh_eq",
    "BSVerif.Props.C18.optional_scalar_independent",
    "BSVerif.Props.C18.vecLoader_priorIndep",
    "BSVerif.Props.C18.nested_fresh_eq",
    "BSVerif.Props.C18.nested_full_refuted",
]
RULE = ("every kind (vector deque list forward_list array3 valarray vector_bool queue stack priority_queue set multiset unordered_set "
        "unordered_multiset map unordered_map multimap unordered_multimap optional unique_ptr shared_ptr bitset8 string vector_of_vector "
        "map_of_vector optional_vector) x map load mode x ALL pairs (prior size 0..5, data size 0..5) with distinguishable values, plus an "
        "element of another kind (string, nil, float, nested array, object, binary) at EVERY position, repeated keys / values, keys that "
        "are not convertible, a root value of another kind, nested documents, and CSV rows (no estimated size) with absent columns and "
        "unloadable cells; each op loads the real container twice (populated and fresh) from a MsgPack document built by an independent "
        "encoder; non-trivial = populated target and non-empty document; distinct = distinct op lines")
EXHAUSTIVE = {"quick": False, "thorough": False}
ASSUMPTIONS = ["archive abstraction: a MsgPack value of another kind is 'not loaded' under MismatchedTypesPolicy::Skip (C05), the array scope "
               "reports its exact size as the estimate (MsgPack) or 0 (CSV); JSON/XML/YAML scopes follow the same contract and are not run here",
               "element types int64 / bool / vector<int64> / class{a,b}; integer<->boolean funnelling and numeric-string keys are C04 territory "
               "and are not generated",
               "std containers behave as specified by ISO C++ (resize, emplace_back, emplace_after, hinted insert, try_emplace)",
               "array and bitset targets are modelled at the root only (their OutOfRange exception is not threaded through enclosing containers)"]
TRUSTED = ["archive abstraction in lean/BSVerif/Driver/Cont.lean (document -> abstract items)"]

SKIPS = ["s78", "n", "d3ff0000000000000", "a1,i9", "m1,s6b,i9", "b00", "s-"]
SEQ = ["vector", "deque", "list", "forward_list", "valarray", "queue", "stack", "priority_queue"]
SETS = ["set", "multiset", "unordered_set", "unordered_multiset"]
KEY = "s6b6579"
VALUE = "s76616c7565"


def nontrivial(op, impl):
    t = op.split(" ")
    if t[0] == "cont.csv":
        return t[2] != "-" and t[4] != "-"
    return t[3] not in ("-", "0,0,0", "0,0,0,0,0,0,0,0") and t[4] not in ("a0", "m0")


def seq(vals):
    return ",".join(str(v) for v in vals) if vals else "-"


def inner(vals):
    return ".".join(str(v) for v in vals) if vals else "e"


def arr(items):
    return ",".join(["a%d" % len(items)] + list(items))


def obj(entries):
    return ",".join(["m%d" % len(entries)] + [k + "," + v for k, v in entries])


def ints(n, base=1):
    return ["i%d" % (base + i) for i in range(n)]


def load(kind, mode, prior, doc):
    return "cont.load %s %s %s %s" % (kind, mode, prior, doc)


def prior_vals(kind, p):
    if kind == "priority_queue":
        return [900 + p - i for i in range(p)]      # descending = already a max-heap
    return [901 + i for i in range(p)]


def gen_seq(kind, sizes, rng, ops, thorough):
    for p in sizes:
        pv = seq(prior_vals(kind, p))
        for n in sizes:
            ops.append(load(kind, "-", pv, arr(ints(n))))
            for pos in range(n):
                items = ints(n)
                items[pos] = SKIPS[(pos + p + n) % len(SKIPS)]
                ops.append(load(kind, "-", pv, arr(items)))
            if n >= 2:
                for _ in range(3 if thorough else 1):
                    items = [t if rng.random() < 0.5 else rng.choice(SKIPS) for t in ints(n)]
                    ops.append(load(kind, "-", pv, arr(items)))
        for root in ("i7", "n", "s78", "m0", "m1,i1,i2"):
            ops.append(load(kind, "-", pv, root))
    for p in (40, 300):                     # a populated target far larger than the document
        for n in (0, 1, 3):
            ops.append(load(kind, "-", seq(prior_vals(kind, p)), arr(ints(n))))


def gen_sets(kind, sizes, rng, ops, thorough):
    for p in sizes:
        pv = seq(prior_vals(kind, p))
        for n in sizes:
            ops.append(load(kind, "-", pv, arr(ints(n))))
            if n >= 2:
                ops.append(load(kind, "-", pv, arr(["i%d" % (1 + i % 2) for i in range(n)])))     # repeated values
                ops.append(load(kind, "-", pv, arr(list(reversed(ints(n))))))
            for pos in range(n):
                items = ints(n)
                items[pos] = SKIPS[(pos + p) % len(SKIPS)]
                ops.append(load(kind, "-", pv, arr(items)))
            if n >= 2:
                ops.append(load(kind, "-", pv, arr([rng.choice(SKIPS) for _ in range(n)])))
        # a document value equal to a prior member, and the value-initialised value itself
        ops.append(load(kind, "-", pv, arr(["i901", "i0", "i5"])))
        ops.append(load(kind, "-", pv, "i7"))
        ops.append(load(kind, "-", pv, "n"))
    for p in (40, 300):                     # a populated target far larger than the document
        for n in (0, 1, 3):
            ops.append(load(kind, "-", seq(prior_vals(kind, p)), arr(ints(n))))


def gen_fixed(rng, ops):
    for prior in ("901,902,903", "0,0,0"):
        for n in range(0, 6):
            ops.append(load("array3", "-", prior, arr(ints(n))))
        for pos in range(3):
            for sk in SKIPS:
                items = ints(3)
                items[pos] = sk
                ops.append(load("array3", "-", prior, arr(items)))
        ops.append(load("array3", "-", prior, arr(["n", "s78", "n"])))
        for pos in range(4):
            items = ints(4)
            items[pos] = "n"
            ops.append(load("array3", "-", prior, arr(items)))
        for root in ("i7", "n", "m0"):
            ops.append(load("array3", "-", prior, root))


def bools(n, phase=0):
    return ["t" if (i + phase) % 2 == 0 else "f" for i in range(n)]


def gen_bool(sizes, rng, ops, thorough):
    bskips = ["s78", "n", "d3ff0000000000000", "a1,t", "b00"]
    for p in sizes:
        for pat in (0, 1):
            pv = seq([(i + pat) % 2 for i in range(p)]) if p else "-"
            if p == 0 and pat == 1:
                continue
            for n in sizes:
                for phase in (0, 1):
                    ops.append(load("vector_bool", "-", pv, arr(bools(n, phase))))
                for pos in range(n):
                    items = bools(n, pos % 2)
                    items[pos] = bskips[(pos + p) % len(bskips)]
                    ops.append(load("vector_bool", "-", pv, arr(items)))
                if n >= 2:
                    items = [t if rng.random() < 0.5 else rng.choice(bskips) for t in bools(n)]
                    ops.append(load("vector_bool", "-", pv, arr(items)))
            ops.append(load("vector_bool", "-", pv, "n"))
    for prior in ("1,1,1,1,1,1,1,1", "0,0,0,0,0,0,0,0", "1,0,1,0,0,1,1,0"):
        for n in (0, 1, 5, 7, 8, 9, 12):
            ops.append(load("bitset8", "-", prior, arr(bools(n))))
            ops.append(load("bitset8", "-", prior, arr(bools(n, 1))))
        for pos in range(8):
            items = bools(8, pos % 2)
            items[pos] = bskips[pos % len(bskips)]
            ops.append(load("bitset8", "-", prior, arr(items)))
            items = bools(9, 1)
            items[pos] = "n"
            ops.append(load("bitset8", "-", prior, arr(items)))
        for _ in range(6 if thorough else 2):
            ops.append(load("bitset8", "-", prior, arr([rng.choice(["t", "f", "n", "s78"]) for _ in range(8)])))
        ops.append(load("bitset8", "-", prior, "s78"))


def gen_maps(kind, sizes, rng, ops, thorough):
    vec = kind == "map_of_vector"

    def pval(i):
        return inner([950 + 10 * i + j for j in range(i % 4)]) if vec else str(901 + i)

    def dval(i, skip_inner=None):
        if not vec:
            return "i%d" % (10 + i)
        items = ints(i % 4, 10 * (i + 1))
        if skip_inner is not None and items:
            items[skip_inner % len(items)] = "n"
        return arr(items)

    for mode in ("clean", "exist", "update", "cleanw"):
        for p in sizes:
            prior = ",".join("%d:%s" % (k + 1, pval(k)) for k in range(p)) if p else "-"
            for n in sizes:
                for first in sorted({1, max(1, p), p + 1}):       # document keys overlap all / one / none of the prior keys
                    keys = list(range(first, first + n))
                    ops.append(load(kind, mode, prior, obj([("i%d" % k, dval(k)) for k in keys])))
                    if first == 1:
                        for pos in range(n):
                            e = [("i%d" % k, dval(k)) for k in keys]
                            e[pos] = (e[pos][0], SKIPS[(pos + p) % len(SKIPS)])
                            ops.append(load(kind, mode, prior, obj(e)))
                            if vec:
                                e = [("i%d" % k, dval(k, skip_inner=pos)) for k in keys]
                                ops.append(load(kind, mode, prior, obj(e)))
                        if n >= 1:
                            e = [("i%d" % k, dval(k)) for k in keys]
                            e.insert(rng.randrange(0, n + 1), ("s6b", dval(7)))            # a key that is not convertible
                            ops.append(load(kind, mode, prior, obj(e)))
                        if n >= 2:
                            e = [("i%d" % k, dval(k)) for k in keys]
                            e[n - 1] = (e[0][0], e[n - 1][1])                               # a repeated key
                            ops.append(load(kind, mode, prior, obj(e)))
                            e = list(reversed([("i%d" % k, dval(k)) for k in keys]))      # descending keys (hint is wrong)
                            ops.append(load(kind, mode, prior, obj(e)))
            for root in ("i7", "n", "a0", "a1,i1"):
                ops.append(load(kind, mode, prior, root))
        # a populated target FAR larger than the document (capacity / bucket-table handling must not touch its entries unless the mode says so)
        for p in (33, 70, 260):
            prior = ",".join("%d:%s" % (k + 1, pval(k)) for k in range(p))
            for n in (0, 1, 2, 3):
                for first in (1, p, p + 1):
                    ops.append(load(kind, mode, prior, obj([("i%d" % k, dval(k)) for k in range(first, first + n)])))


def pair(k, v):
    e = []
    if k is not None:
        e.append((KEY, k))
    if v is not None:
        e.append((VALUE, v))
    return obj(e)


def gen_multimap(kind, sizes, rng, ops, thorough):
    for p in sizes:
        prior = ",".join("%d:%d" % (1 + k // 2, 901 + k) for k in range(p)) if p else "-"
        for n in sizes:
            ops.append(load(kind, "-", prior, arr([pair("i%d" % (1 + k // 2), "i%d" % (10 + k)) for k in range(n)])))
            ops.append(load(kind, "-", prior, arr([pair("i%d" % (n - k), "i%d" % (10 + k)) for k in range(n)])))
            for pos in range(n):
                items = [pair("i%d" % (1 + k // 2), "i%d" % (10 + k)) for k in range(n)]
                items[pos] = [SKIPS[(pos + p) % len(SKIPS)], pair(None, "i77"), pair("i3", None), pair("s78", "i78"), pair("i4", "n"), obj([])][(pos + n) % 6]
                ops.append(load(kind, "-", prior, arr(items)))
        ops.append(load(kind, "-", prior, "i7"))
        ops.append(load(kind, "-", prior, "m0"))


def gen_opt(ops):
    docs = ["i5", "i0", "i-7", "n", "s78", "a1,i1", "m0", "d3ff0000000000000", "b00"]
    for kind in ("optional", "unique_ptr", "shared_ptr"):
        for prior in ("-", "901", "0"):
            for d in docs:
                ops.append(load(kind, "-", prior, d))
    for prior in ("-", "e", "901", "901.902", "901.902.903.904"):
        for n in range(0, 5):
            ops.append(load("optional_vector", "-", prior, arr(ints(n))))
            for pos in range(n):
                items = ints(n)
                items[pos] = SKIPS[pos % len(SKIPS)]
                ops.append(load("optional_vector", "-", prior, arr(items)))
        for d in ("n", "i5", "s78", "m0"):
            ops.append(load("optional_vector", "-", prior, d))
    for prior in ("-", "616263", "00ff"):
        for d in ("s-", "s78", "s" + "41" * 31, "s" + "42" * 32, "s" + "43" * 300, "i5", "n", "a0", "m0", "b6162", "d3ff0000000000000"):
            ops.append(load("string", "-", prior, d))


def gen_nested(sizes, rng, ops, thorough):
    small = [s for s in sizes if s <= 3]
    for p in small:
        for plen in ((0, 2) if p else (0,)):
            prior = ",".join(inner([900 + 10 * i + j for j in range((plen + i) % 4)]) for i in range(p)) if p else "-"
            for n in small:
                for ilen in (0, 1, 3):
                    items = [arr(ints((ilen + i) % 4, 10 * (i + 1))) for i in range(n)]
                    ops.append(load("vector_of_vector", "-", prior, arr(items)))
                    for pos in range(n):
                        it2 = list(items)
                        it2[pos] = SKIPS[(pos + p) % len(SKIPS)]             # outer element of another kind
                        ops.append(load("vector_of_vector", "-", prior, arr(it2)))
                        inn = ints((ilen + pos) % 4, 10 * (pos + 1))
                        for ip in range(len(inn)):                              # inner element of another kind
                            inn2 = list(inn)
                            inn2[ip] = SKIPS[(ip + n) % len(SKIPS)]
                            it3 = list(items)
                            it3[pos] = arr(inn2)
                            ops.append(load("vector_of_vector", "-", prior, arr(it3)))
            ops.append(load("vector_of_vector", "-", prior, "n"))


def gen_csv(rng, ops, thorough):
    headers = ["a:b", "b:a", "a", "b", "c:a", "a:c:b", "c"]
    for kind, p in [(k, p) for k in ("vector", "forward_list", "list", "deque") for p in range(0, 4)]:
        prior = ",".join("%d:%d" % (901 + 2 * i, 902 + 2 * i) for i in range(p)) if p else "-"
        for h in (headers if kind in ("vector", "forward_list") else headers[:3]):
            w = h.count(":") + 1
            for n in range(0, 5):
                rows = [":".join(str(10 * (r + 1) + c) for c in range(w)) for r in range(n)]
                ops.append("cont.csv %s %s %s %s" % (kind, prior, h, ";".join(rows) if rows else "-"))
                for pos in range(n):
                    for cell in ("x", "_", "1.5"):
                        cells = [str(10 * (pos + 1) + c) for c in range(w)]
                        cells[(pos + len(cell)) % w] = cell
                        r2 = list(rows)
                        r2[pos] = ":".join(cells)
                        ops.append("cont.csv %s %s %s %s" % (kind, prior, h, ";".join(r2)))


def gen(tier, rng, boost=1):
    thorough = tier != "quick"
    sizes = list(range(0, 6)) if not thorough else list(range(0, 9))
    ops = []
    for kind in SEQ:
        gen_seq(kind, sizes, rng, ops, thorough)
    for kind in SETS:
        gen_sets(kind, sizes, rng, ops, thorough)
    gen_fixed(rng, ops)
    gen_bool(sizes, rng, ops, thorough)
    for kind in ("map", "unordered_map", "map_of_vector"):
        gen_maps(kind, sizes if not thorough else list(range(0, 7)), rng, ops, thorough)
    for kind in ("multimap", "unordered_multimap"):
        gen_multimap(kind, sizes, rng, ops, thorough)
    gen_opt(ops)
    gen_nested(sizes, rng, ops, thorough)
    gen_csv(rng, ops, thorough)
    # random mixed documents
    for _ in range((300 if not thorough else 40000) * boost):
        kind = rng.choice(SEQ + SETS)
        p = rng.randrange(0, 10)
        n = rng.randrange(0, 20 if thorough else 10)
        items = [("i%d" % rng.choice([1, 2, 3, 127, 128, 255, 256, 65536, -1, -33, -129, 2 ** 40, -2 ** 40])) if rng.random() < 0.75 else rng.choice(SKIPS)
                 for _ in range(n)]
        ops.append(load(kind, "-", seq(prior_vals(kind, p)), arr(items)))
    return ops
