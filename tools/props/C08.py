"""C08 — JSON/XML output is standard-conformant; standard renderings load identically.
Also exports gen_c01_jsonxml / gen_c04_jsonxml / extra_checks_jsonxml for C01.py / C04.py."""
import os, random
from . import jxgen as G

THEOREMS = [
    "BSVerif.Props.C08.dom_of_save",
    "BSVerif.Props.C08.save_ok_iff",
    "BSVerif.Props.C08.save_rejects_nonfinite",
    "BSVerif.Props.C08.load_of_dom",
    "BSVerif.Props.C08.number_exact_or_policy",
    "BSVerif.Props.C08.leaf_load_meets_spec",
    "BSVerif.Props.C08.load_member_order_independent",
    "BSVerif.Props.C08.load_build_roundtrip",
    "BSVerif.Props.C08.save_then_load",
    "BSVerif.Props.C08.root_int_exact",
    "BSVerif.Props.C08.setInt_survivors",
    "BSVerif.Props.C08.rootIntBeforeFix_refuted",
    "BSVerif.Props.C08.xml_dom_of_save",
    "BSVerif.Props.C08.xml_root_of_save",
    "BSVerif.Props.C08.xml_names_match_code",
    "BSVerif.Adapter.convIntToInt_spec",
    "BSVerif.Adapter.load_meets_spec",
    "BSVerif.Adapter.load_build",
    "BSVerif.Adapter.findMember_perm",
    "BSVerif.Adapter.domMatches_build",
]
RULE = ("random typed value trees (every integer width incl. limits +-2, float/double incl. subnormals, extremes and non-finite, strings over "
        "the full Unicode range with quotes/backslashes/control/markup characters, empty and nested containers, maps, optionals, null; XML: "
        "attributes, explicit root names) x {string, stream x 5 encodings x BOM} x {compact, pretty x padding char x count} through "
        "SaveObject; every produced document parsed by the Lean SPEC parser and by Python json / ElementTree and compared with the data "
        "model; every document re-rendered (whitespace, escapes / character references, member order, numeric spelling, encoding, BOM, "
        "declaration) by independent emitters and loaded back through LoadObject; plus hand-made and mutated documents x target types x "
        "policies; non-trivial = container value or non-ASCII / escaped text or a number outside int32; distinct = distinct op lines")
EXHAUSTIVE = {"quick": False, "thorough": False}
ASSUMPTIONS = ["the RapidJSON / pugixml printer-parser pairs are parameters: parse (print d) = d on finite numbers and valid Unicode text "
               "(hypothesis `Codec` of the theorems; exercised by every save op through the SPEC parsers and Python's parsers)",
               "keys contain no NUL (they travel as C strings through VisitKeys / pugixml names); class fields have distinct keys",
               "XML names are XML 1.0 Names; XML text is made of XML 1.0 Chars",
               "JSON numbers with more than 5000 digits / exponent beyond +-5000 are not evaluated by the oracle"]
TRUSTED = ["Python json and xml.etree.ElementTree (expat) as independent standard parsers/emitters in the generator-side test oracles",
           "RapidJSON 1.1.0 Writer/Reader and pugixml 1.13 as the codec parameter of the adapter theorems"]
OP_TIMEOUT = 20.0


def nontrivial(op, impl):
    t = op.split(" ")
    if t[0].endswith(".save"):
        return any(c in t[-2] for c in "[{<") or len(t[-1]) > 12
    return len(t[-1]) > 16


# ------------------------------------------------------------------------------------------------
# op builders
# ------------------------------------------------------------------------------------------------
def json_save_op(rng, s, v, out=None, cfg=None, keys=None):
    return "json.save %s %s %s %s %s" % (keys or rng.choice(["kc", "ks"]), out or G.rand_out(rng), cfg or G.rand_cfg(rng),
                                         G.schema_str(s), G.value_str(s, v))


def json_load_op(rng, s, data, inp=None, pol=None, keys=None):
    return "json.load %s %s %s %s %s" % (keys or rng.choice(["kc", "ks"]), inp or rng.choice(["str", "stream"]), pol or "tt",
                                         G.schema_str(s), G.hexb(data))


POLS = ["tt", "ts", "st", "ss"]

# documents written by hand: every JSON value kind into every target kind (mismatch matrix), spellings, malformed input
JSON_DOCS = [
    b"null", b"true", b"false", b"0", b"-0", b"1", b"-1", b"127", b"128", b"-128", b"-129", b"255", b"256", b"32767", b"32768", b"-32768", b"-32769",
    b"65535", b"65536", b"2147483647", b"2147483648", b"-2147483648", b"-2147483649", b"4294967295", b"4294967296",
    b"9223372036854775807", b"9223372036854775808", b"-9223372036854775808", b"-9223372036854775809", b"18446744073709551615",
    b"18446744073709551616", b"1.0", b"1e0", b"1E2", b"0.5", b"-0.0", b"1e-400", b"1e400", b"-1e400", b"3.4028234663852886e38", b"3.4028235e38",
    b"3.4028236e38", b"1e39", b"16777217", b"9007199254740993", b"0.1", b"1e22", b"1e23", b"5e-324", b"2e-324", b"1.7976931348623157e308", b"1.7976931348623159e308",
    b'""', b'"a"', b'"1"', b'"true"', b"[]", b"[1]", b"[[]]", b"{}", b'{"a":1}', b'{"a":1,"a":2}', b'{"b":2,"a":1}',
    b" 1 ", b"\t\n\r 1", b"01", b"1.", b".5", b"+1", b"1e", b"- 1", b"0x10", b"NaN", b"Infinity", b"-Infinity", b"nul", b"True", b"'a'", b'"\\x41"', b'"\\u12"', b'"\\ud800"',
    b'"\\udc00"', b'"\\ud800\\u0041"', b'"\\ud83d\\ude00"', b'"a\nb"', b'"\x7f"', b"[1,]", b"[,1]", b"[1 2]", b'{"a"}', b'{"a":}', b'{a:1}', b'{"a":1,}', b"{", b"[", b"]", b"", b" ",
    b"1 2", b"1,", b"[1]]", b'{"a":1}}', b"\xef\xbb\xbf1", b'"\xc3\xa9"', b'"\xf0\x9f\x98\x80"', b"/*c*/1", b"1//c", b"[1,\n2]", b'"\\/"', b'"\\b\\f\\n\\r\\t\\"\\\\"',
]


def gen_json_docs(rng, tier, boost):
    ops = []
    targets = [("leaf", t) for t in G.LEAVES + ["ll", "ull"]] + [("vec", ("leaf", "i8")), ("vec", ("leaf", "s")), ("cls", [(False, b"a", ("leaf", "i32"))]),
                                                                 ("cls", [(False, b"a", ("leaf", "i32")), (False, b"b", ("opt", ("leaf", "s")))]),
                                                                 ("map", ("leaf", "u8")), ("opt", ("leaf", "i16")), ("vec", ("vec", ("leaf", "f32"))),
                                                                 ("cls", [])]
    for d in JSON_DOCS:
        for tg in (targets if tier == "thorough" else rng.sample(targets, 7)):
            ops.append(json_load_op(rng, tg, d, pol=rng.choice(POLS)))
    return ops


def gen_c04_json(rng, tier, boost):
    """numbers at root / array element / member x every arithmetic target x policies"""
    ops = []
    lits = set()
    for t in G.INT_TYPES:
        lo, hi = G.irange(t)
        for d in (-2, -1, 0, 1, 2):
            lits.add(lo + d)
            lits.add(hi + d)
    for k in range(0, 66):
        for d in (-1, 0, 1):
            lits.add((1 << k) + d)
            lits.add(-(1 << k) + d)
    lits = sorted(lits)
    n = (500 if tier == "quick" else 40000) * boost
    tys = ["b", "i8", "u8", "i16", "u16", "i32", "u32", "i64", "u64", "f32", "f64"]
    for _ in range(n):
        t = rng.choice(tys)
        r = rng.random()
        if r < 0.6:
            lit = str(rng.choice(lits))
        elif r < 0.7:
            lit = str(rng.randint(-2 ** 65, 2 ** 65))
        elif r < 0.8:
            lit = rng.choice(["true", "false"])
        else:
            x = G.f64_of_bits(G.rand_leaf(rng, "f64", finite=True)[1])
            lit = G.spell_double(rng, x)
        pos = rng.choice(["root", "arr", "mem"])
        if pos == "root":
            s, doc = ("leaf", t), lit
        elif pos == "arr":
            s, doc = ("vec", ("leaf", t)), "[7," + lit + ",8]"
        else:
            s, doc = ("cls", [(False, b"k", ("leaf", t)), (False, b"z", ("leaf", "u8"))]), '{"z":9,"k":' + lit + "}"
        ops.append(json_load_op(rng, s, doc.encode(), pol=rng.choice(POLS)))
    return ops


def gen_json_saves(rng, tier, boost, count):
    ops = []
    for i in range(count):
        s = G.rand_schema(rng, rng.choice([0, 1, 2, 3]), at_root=True)
        finite = rng.random() < 0.93
        v = G.rand_value(rng, s, finite=finite)
        ops.append(json_save_op(rng, s, v))
    # a REJECTED save (NaN / Infinity after part of the document has been produced) followed by accepted saves of the same kind of
    # output: nothing of the rejected document may leak into the next one
    nonfinite64 = [0x7FF8000000000000, 0x7FF0000000000000, 0xFFF0000000000000, 0xFFF8000000000001]
    for _ in range(10 if tier == "quick" else 200):
        vs = ("vec", ("leaf", "f64"))
        pre = [("f64", G.bits_of_f64(float(rng.choice([1, 2.5, -3, 100])))) for _ in range(rng.choice([1, 2, 5]))]
        bad = pre + [("f64", rng.choice(nonfinite64))]
        cs = ("cls", [(False, b"name", ("leaf", "s")), (False, b"samples", vs), (False, b"z", ("leaf", "i32"))])
        out = rng.choice(["str", "str", "utf8:0", "utf16le:1"])
        cfg = rng.choice(["compact", "pretty:20:2"])
        if rng.random() < 0.5:
            ops.append(json_save_op(rng, vs, bad, out=out, cfg=cfg))
        else:
            ops.append(json_save_op(rng, cs, ("cls", [b"sensor", bad, 7]), out=out, cfg=cfg))
        ops.append(json_save_op(rng, vs, pre, out=out, cfg=cfg))
        ops.append(json_save_op(rng, cs, ("cls", [b"second", pre, -1]), out=out, cfg=cfg))
    # documents of several kilobytes (beyond the writers' internal buffers)
    for _ in range(4 if tier == "quick" else 60):
        big = ("vec", ("cls", [(False, b"id", ("leaf", "i32")), (False, b"text", ("leaf", "s"))]))
        v = [("cls", [i, G.rand_text(rng, False, maxlen=40)]) for i in range(rng.choice([60, 150, 400]))]
        ops.append(json_save_op(rng, big, v))
        ops.append(json_save_op(rng, ("leaf", "s"), b"".join(G.rand_text(rng, False, maxlen=40) for _ in range(rng.choice([80, 300])))))
    # every leaf type at root / in vector / as member, limits
    for t in G.LEAVES + ["ll", "ull"]:
        for _ in range(3 if tier == "quick" else 40):
            s = ("leaf", t)
            ops.append(json_save_op(rng, s, G.rand_leaf(rng, t, finite=True)))
            if t not in ("ll", "ull"):
                s2 = ("vec", s)
                ops.append(json_save_op(rng, s2, G.rand_value(rng, s2, finite=True)))
                s3 = ("cls", [(False, G.rand_key(rng, set(), False), s)])
                ops.append(json_save_op(rng, s3, G.rand_value(rng, s3, finite=True)))
    return ops


def gen_tuples(rng, tier, boost):
    """std::tuple<int32,int32> from arrays of 0..3 items: the array scopes must raise OutOfRange past the end"""
    ops = []
    for n in range(4):
        for pol in POLS:
            items = [str(rng.choice([1, -7, 2147483647, 2147483648, 0])) for _ in range(n)]
            ops.append("json.tuple %s %s" % (pol, G.hexb(("[" + ",".join(items) + "]").encode())))
            ops.append("xml.tuple %s %s" % (pol, G.hexb(("<array>" + "".join("<value>%s</value>" % x for x in items) + "</array>").encode())))
    return ops


def gen_json(tier, rng, boost):
    ops = gen_json_saves(rng, tier, boost, (350 if tier == "quick" else 40000) * boost)
    ops += gen_json_docs(rng, tier, boost)
    ops += gen_c04_json(rng, tier, boost)[: (250 if tier == "quick" else 40000) * boost]
    ops += gen_tuples(rng, tier, boost)
    return ops


# ------------------------------------------------------------------------------------------------
# XML
# ------------------------------------------------------------------------------------------------
def xml_save_op(rng, s, v, root=None, out=None, cfg=None, keys=None):
    return "xml.save %s %s %s %s %s %s" % (keys or rng.choice(["kc", "ks"]), out or G.rand_out(rng), cfg or G.rand_cfg(rng, xml=True),
                                           G.hexb(root) if root else "-", G.schema_str(s), G.value_str(s, v))


def xml_load_op(rng, s, data, root=None, inp=None, pol=None, keys=None):
    return "xml.load %s %s %s %s %s %s" % (keys or rng.choice(["kc", "ks"]), inp or rng.choice(["str", "stream"]), pol or "tt",
                                           G.hexb(root) if root else "-", G.schema_str(s), G.hexb(data))


def rand_xml_root_schema(rng, depth):
    while True:
        s = G.rand_schema(rng, depth, xml=True, at_root=True)
        if s[0] in ("vec", "cls", "map"):
            return s


def gen_xml_saves(rng, tier, boost, count):
    ops = []
    for i in range(count):
        s = rand_xml_root_schema(rng, rng.choice([1, 2, 3]))
        v = G.rand_value(rng, s, xml=True, finite=rng.random() < 0.95)
        root = G.rand_xml_name(rng) if rng.random() < 0.3 else None
        ops.append(xml_save_op(rng, s, v, root=root))
    # documents of several kilobytes (pugixml flushes its writer in 2 KiB chunks), to a string and to streams
    for _ in range(6 if tier == "quick" else 80):
        big = ("vec", ("cls", [(False, b"id", ("leaf", "i32")), (False, b"text", ("leaf", "s"))]))
        v = [("cls", [i, b"t" + G.rand_text(rng, True, maxlen=30) + b"x"]) for i in range(rng.choice([40, 120, 400]))]
        ops.append(xml_save_op(rng, big, v, out=rng.choice(["str", "str", None])))
    # every leaf type in a vector / as member / as attribute, limits
    for t in G.LEAVES:
        for _ in range(2 if tier == "quick" else 30):
            leaf = ("leaf", t)
            s2 = ("vec", leaf)
            ops.append(xml_save_op(rng, s2, G.rand_value(rng, s2, xml=True, finite=True)))
            fields = [(False, b"m", leaf)]
            if t != "n" or True:
                fields.append((True, b"a", leaf))
            s3 = ("cls", fields)
            ops.append(xml_save_op(rng, s3, G.rand_value(rng, s3, xml=True, finite=True)))
    return ops


XML_TARGETS = None


def xml_targets():
    L = lambda t: ("leaf", t)
    return [("vec", L(t)) for t in ["b", "i8", "u8", "i16", "u16", "i32", "u32", "i64", "u64", "f32", "f64", "s", "n"]] + \
        [("cls", [(False, b"a", L("i32")), (True, b"b", L("u8")), (False, b"c", ("opt", L("s")))]), ("map", L("i16")), ("vec", ("vec", L("i8"))),
         ("cls", [(True, b"a", L("f32")), (True, b"b", L("b")), (True, b"c", L("s"))]), ("vec", ("cls", [(True, b"id", L("i64"))])),
         ("cls", [(False, b"a", ("vec", L("s")))]), ("cls", [])]


XML_DOCS = [
    b"<array/>", b"<array></array>", b"<a><value>1</value></a>", b"<array><value>1</value><value>2</value></array>", b"<root a='1' b=\"2\" c=\"x\"/>",
    b"<root><a>5</a><c>t</c></root>", b"<root><c/><a> 7</a></root>", b"<?xml version=\"1.0\"?><array><value>-1</value></array>",
    b"<array><value>300</value></array>", b"<array><value>-129</value></array>", b"<array><value>1.5</value></array>", b"<array><value>1e3</value></array>",
    b"<array><value>abc</value></array>", b"<array><value>12abc</value></array>", b"<array><value>1 2</value></array>", b"<array><value>+5</value></array>",
    b"<array><value>0x10</value></array>", b"<array><value>true</value><value>false</value><value>1</value><value>0</value><value>2</value></array>",
    b"<array><value>truex</value></array>", b"<array><value>TRUE</value></array>", b"<array><value></value></array>", b"<array><value/></array>",
    b"<array><value> </value></array>", b"<array><value>&#32;</value></array>", b"<array><value>a<![CDATA[b]]>c</value></array>", b"<array><value>a<!--x-->b</value></array>",
    b"<array><value><![CDATA[ ]]></value></array>", b"<array><value>a&#13;b</value></array>", b"<array><value>a\rb</value><value>c\r\nd</value></array>",
    b"<array><array/><array><value>1</value></array></array>", b"<array><object/></array>", b"<array><object id='5'/></array>", b"<array>text</array>",
    b"<array>text<value>1</value></array>", b"<array><value>1</value>tail</array>", b"<root><a>1</a><a>2</a></root>", b"<root a='1'><a>2</a></root>",
    b"<root b='300'/>", b"<root b='-1'/>", b"<root b=''/>", b"<root b=' 7'/>", b"<root b='7 '/>", b"<root b='0x10'/>", b"<root a='1e39' b='yes' c='&lt;&#10;&#9;'/>",
    b"<root a='3.4028235e38' b='1'/>", b"<root a='3.4028236e38'/>", b"<root a='nan'/>", b"<root a='inf'/>", b"<root a='1e-50'/>",
    b"<array><value>9223372036854775807</value><value>9223372036854775808</value><value>-9223372036854775808</value><value>-9223372036854775809</value><value>18446744073709551615</value><value>18446744073709551616</value></array>",
    b"<array><value>1.7976931348623157e308</value><value>1.7976931348623159e308</value><value>4.9e-324</value><value>1e-400</value></array>",
    b"<array", b"<array>", b"<array></arra>", b"<a><b></a></b>", b"", b" ", b"text", b"<a/><b/>", b"<a b='1' b='2'/>", b"<a b=1/>", b"<a b='<'/>", b"<a>&foo;</a>", b"<a>&#0;</a>",
    b"<a>&#xD800;</a>", b"<a>]]></a>", b"<1a/>", b"<a:b/>", b"<!DOCTYPE a><a/>", b"<?xml version='1.0' encoding='ISO-8859-1'?><array><value>\xe9</value></array>",
    b"<?xml version='1.0' encoding='UTF-8'?><array><value>\xc3\xa9</value></array>", b"\xef\xbb\xbf<array><value>\xc3\xa9</value></array>",
    b"<!-- c --><array/><!-- d -->", b"<?pi x?><array/>", b"\n<array/>\n", b"<array><?pi?><value>1</value><!----></array>", b"<array><value>1</value>\n  <value>2</value>\n</array>",
]


def gen_xml_docs(rng, tier, boost):
    ops = []
    targets = xml_targets()
    attr_targets = [t for t in targets if t[0] == "cls" and any(f[0] for f in t[1])]
    for d in XML_DOCS:
        chosen = targets if tier == "thorough" else rng.sample(targets, 6)
        if tier != "thorough" and d.startswith(b"<root "):
            chosen = chosen + [t for t in attr_targets if t not in chosen]       # attribute documents always meet the attribute targets
        for tg in chosen:
            ops.append(xml_load_op(rng, tg, d, pol=rng.choice(POLS), root=rng.choice([None, None, None, b"root", b"array"])))
    return ops


def gen_c04_xml(rng, tier, boost):
    """numbers in array element / member / attribute x every arithmetic target x policies"""
    ops = []
    lits = set()
    for t in G.INT_TYPES:
        lo, hi = G.irange(t)
        for d in (-2, -1, 0, 1, 2):
            lits.add(lo + d)
            lits.add(hi + d)
    for k in range(0, 66):
        for d in (-1, 0, 1):
            lits.add((1 << k) + d)
            lits.add(-(1 << k) + d)
    lits = sorted(lits)
    n = (400 if tier == "quick" else 40000) * boost
    tys = ["b", "i8", "u8", "i16", "u16", "i32", "u32", "i64", "u64", "f32", "f64"]
    for _ in range(n):
        t = rng.choice(tys)
        r = rng.random()
        if r < 0.6:
            lit = str(rng.choice(lits))
        elif r < 0.7:
            lit = str(rng.randint(-2 ** 65, 2 ** 65))
        elif r < 0.78:
            lit = rng.choice(["true", "false"])
        else:
            lit = G.spell_double(rng, G.f64_of_bits(G.rand_leaf(rng, "f64", finite=True)[1]))
        pos = rng.choice(["arr", "mem", "attr"])
        if pos == "arr":
            s, doc = ("vec", ("leaf", t)), "<array><value>7</value><value>%s</value><value>1</value></array>" % lit
        elif pos == "mem":
            s, doc = ("cls", [(False, b"k", ("leaf", t)), (False, b"z", ("leaf", "u8"))]), "<root><z>9</z><k>%s</k></root>" % lit
        else:
            s, doc = ("cls", [(True, b"k", ("leaf", t)), (False, b"z", ("leaf", "u8"))]), "<root k='%s'><z>9</z></root>" % lit
        ops.append(xml_load_op(rng, s, doc.encode(), pol=rng.choice(POLS)))
    return ops


def gen_xml(tier, rng, boost):
    ops = gen_xml_saves(rng, tier, boost, (300 if tier == "quick" else 40000) * boost)
    ops += gen_xml_docs(rng, tier, boost)
    ops += gen_c04_xml(rng, tier, boost)[: (200 if tier == "quick" else 40000) * boost]
    return ops


def gen(tier, rng, boost=1):
    ops = gen_json(tier, rng, boost)
    ops += gen_xml(tier, rng, boost)
    return ops


def gen_c01_jsonxml(tier, rng, boost=1):
    n = (250 if tier == "quick" else 5000) * boost
    return gen_json_saves(rng, tier, boost, n) + gen_xml_saves(rng, tier, boost, n)


def gen_c04_jsonxml(tier, rng, boost=1):
    return gen_c04_json(rng, tier, boost) + gen_c04_xml(rng, tier, boost)


# ------------------------------------------------------------------------------------------------
# extra checks: independent parsers + re-rendering
# ------------------------------------------------------------------------------------------------
def _parse_schema(txt):
    """schema string -> python schema (inverse of schema_str)"""
    pos = 0

    def at():
        nonlocal pos
        c = txt[pos]
        if c == "[":
            pos += 1
            e = at()
            assert txt[pos] == "]"
            pos += 1
            return ("vec", e)
        if c == "<":
            pos += 1
            e = at()
            assert txt[pos] == ">"
            pos += 1
            return ("map", e)
        if c == "?":
            pos += 1
            return ("opt", at())
        if c == "{":
            pos += 1
            fields = []
            if txt[pos] == "}":
                pos += 1
                return ("cls", fields)
            while True:
                attr = txt[pos] == "@"
                if attr:
                    pos += 1
                j = txt.index(":", pos)
                key = b"" if txt[pos:j] == "-" else bytes.fromhex(txt[pos:j])
                pos = j + 1
                fields.append((attr, key, at()))
                if txt[pos] == "}":
                    pos += 1
                    return ("cls", fields)
                assert txt[pos] == ","
                pos += 1
        j = pos
        while j < len(txt) and txt[j] not in ",]}>":
            j += 1
        w = txt[pos:j]
        pos = j
        return ("leaf", w)
    r = at()
    assert pos == len(txt)
    return r


def _parse_value(s, txt):
    pos = 0

    def word():
        nonlocal pos
        j = pos
        while j < len(txt) and txt[j] not in ",]}>":
            j += 1
        w = txt[pos:j]
        pos = j
        return w

    def at(s):
        nonlocal pos
        k = s[0]
        if k == "leaf":
            t = s[1]
            w = word()
            if t == "b":
                return w == "t"
            if t == "n":
                return None
            if t == "s":
                return b"" if w == "s-" else bytes.fromhex(w[1:])
            if t == "f64":
                return ("f64", int(w[1:], 16))
            if t == "f32":
                return ("f32", int(w[1:], 16))
            return int(w)
        if k == "vec":
            assert txt[pos] == "["
            pos += 1
            items = []
            if txt[pos] == "]":
                pos += 1
                return items
            while True:
                items.append(at(s[1]))
                if txt[pos] == "]":
                    pos += 1
                    return items
                pos += 1
        if k == "map":
            assert txt[pos] == "<"
            pos += 1
            d = {}
            if txt[pos] == ">":
                pos += 1
                return d
            while True:
                j = txt.index("=", pos)
                key = b"" if txt[pos:j] == "-" else bytes.fromhex(txt[pos:j])
                pos = j + 1
                d[key] = at(s[1])
                if txt[pos] == ">":
                    pos += 1
                    return d
                pos += 1
        if k == "opt":
            if txt[pos] == "~":
                pos += 1
                return ("none",)
            return at(s[1])
        assert txt[pos] == "{"
        pos += 1
        vals = []
        for i, f in enumerate(s[1]):
            if i:
                pos += 1
            vals.append(at(f[2]))
        assert txt[pos] == "}"
        pos += 1
        return ("cls", vals)
    r = at(s)
    assert pos == len(txt), (txt, pos)
    return r


def _valid_utf8_tree(s, v):
    k = s[0]
    try:
        if k == "leaf":
            if s[1] == "s":
                v.decode("utf-8")
            return True
        if k == "vec":
            return all(_valid_utf8_tree(s[1], x) for x in v)
        if k == "map":
            for key in v:
                key.decode("utf-8")
            return all(_valid_utf8_tree(s[1], x) for x in v.values())
        if k == "opt":
            return v == ("none",) or _valid_utf8_tree(s[1], v)
        for f in s[1]:
            f[1].decode("utf-8")
        return all(_valid_utf8_tree(f[2], x) for f, x in zip(s[1], v[1]))
    except UnicodeDecodeError:
        return False


def _all_names(s, v, root_name):
    out = [root_name]

    def walk(s, v):
        k = s[0]
        if k == "vec":
            for x in v:
                walk(s[1], x)
        elif k == "map":
            for key, x in v.items():
                out.append(key.decode("utf-8"))
                walk(s[1], x)
        elif k == "opt":
            if v != ("none",):
                walk(s[1], v)
        elif k == "cls":
            for fs, x in zip(s[1], v[1]):
                out.append(fs[1].decode("utf-8"))
                walk(fs[2], x)
    walk(s, v)
    return out


def _run_followups(follow):
    """follow: list of (origin op, new op, expected impl answer or None). Runs the new ops through the real code and the
    Lean driver; yields (op, impl, model, verdict) failures."""
    import check
    exe, err = check.build_harness()
    if exe is None:
        yield (follow[0][1] if follow else "-", "-", "-", "bad:harness_unavailable_for_followups")
        return
    ops = [f[1] for f in follow]
    impl = check.run_impl(exe, ops, per_op_timeout=OP_TIMEOUT)
    res = check.run_model(ops, impl)
    for (origin, op, expect), ia, (ma, ag, vd) in zip(follow, impl, res):
        if ma == "bad-op":
            yield (op, ia, ma, "bad:op-not-understood-by-driver")
        elif vd.startswith("known:"):
            yield ("KNOWN", vd[6:], op, ag)
        elif check.is_crash(ia):
            yield (op, ia, ma, "bad:" + ia)
        elif vd.startswith("bad"):
            yield (op, ia, ma, vd)
        elif ag == "DISAGREE":
            yield (op, ia, ma, "bad:model_and_implementation_disagree_on_a_rerendered_document")
        elif expect is not None and ia != expect:
            yield (op, ia, ma, "bad:rerendered_document_loads_to_%s_instead_of_%s_(from_%s)" % (ia.replace(" ", "_")[:80], expect.replace(" ", "_")[:80], origin.replace(" ", "_")[:120]))


def _format_problem(kind, cfg, text):
    """formatting options are honoured: compact = no insignificant white space (JSON); pretty = one line per node, every line
    indented by a multiple of <count> copies of <char> and nothing else"""
    if kind == "json":
        out, in_str, esc = [], False, False
        for ch in text:                      # blank out string contents
            if in_str:
                if esc:
                    esc = False
                elif ch == "\\":
                    esc = True
                elif ch == '"':
                    in_str = False
                out.append("s" if in_str else '"')
            else:
                if ch == '"':
                    in_str = True
                out.append(ch)
        bare = "".join(out)
        if cfg == "compact":
            return "white_space_in_compact_output" if any(c in bare for c in " \t\n\r") else None
        _, chx, cnt = cfg.split(":")
        pad, cnt = chr(int(chx, 16)), int(cnt)
        if pad in "\n\r":
            return None                      # indentation made of line breaks cannot be told from the line structure
        for line in bare.split("\n"):
            body = line.lstrip(pad)
            lead = len(line) - len(body)
            if cnt and lead % cnt:
                return "indentation_is_not_a_multiple_of_the_padding"
            if cnt == 0 and lead:
                return "indentation_despite_zero_padding"
            if body[:1] in (" ", "\t") and body[:1] != pad:
                return "foreign_indentation_character"
        return None
    if cfg == "compact":
        return None
    _, chx, cnt = cfg.split(":")
    pad, cnt = chr(int(chx, 16)), int(cnt)
    # lines that begin INSIDE a text value (character data that is not white space only and contains line breaks) are content, not
    # formatting: the closing tag after a text ending in "\n\t" would otherwise be mistaken for a mis-indented node
    inside = set()
    line_no, i, n = 0, 0, len(text)
    while i < n:
        if text[i] == "<":
            j = text.find(">", i)
            if j < 0:
                break
            line_no += text.count("\n", i, j + 1)
            i = j + 1
        else:
            j = text.find("<", i)
            j = n if j < 0 else j
            seg = text[i:j]
            if seg.strip(" \t\r\n"):
                for k, ch in enumerate(seg):
                    if ch == "\n":
                        line_no += 1
                        inside.add(line_no)
            else:
                line_no += seg.count("\n")
            i = j
    for no, line in enumerate(text.split("\n")):
        if no in inside:
            continue
        if not line.startswith(pad) and not line.startswith("<") and line != "":
            continue                         # continuation of a multi-line text value
        body = line.lstrip(pad)
        lead = len(line) - len(body)
        if body.startswith("<") and lead % cnt:
            return "indentation_is_not_a_multiple_of_the_padding"
    return None


def extra_checks_jsonxml(ops, impl, res, known_classes, known_hits, seed_tag="C08"):
    rng = random.Random(len(ops) * 7919 + sum(len(o) for o in ops[:50]))
    follow = []
    for op, ia in zip(ops, impl):
        t = op.split(" ")
        if t[0] == "json.save" and ia.startswith("ok "):
            keys, out, cfg, ss, vs = t[1:6]
            s = _parse_schema(ss)
            v = _parse_value(s, vs)
            if not _valid_utf8_tree(s, v):
                continue
            data = b"" if ia[3:] == "-" else bytes.fromhex(ia[3:])
            # (a) independent standard parser recovers the same data model
            text = G.decode_output(out, data)
            if text is None:
                yield (op, ia, "-", "bad:python:output_is_not_in_the_configured_encoding")
                continue
            try:
                got = G.py_json_parse(text)
            except ValueError as e:
                yield (op, ia, "-", "bad:python_json_rejects_the_document:" + str(e).replace(" ", "_")[:60])
                continue
            if not G.dom_eq(got, G.json_dom(s, v)):
                yield (op, ia, "-", "bad:python_json_reads_a_different_data_model")
                continue
            fp = _format_problem("json", cfg, text[1:] if text.startswith("\ufeff") else text)
            if fp:
                yield (op, ia, "-", "bad:format_options:" + fp)
                continue
            # (b) load back: the document itself and independent re-renderings
            expect = "ok " + vs
            if out == "str":
                follow.append((op, json_load_op(rng, s, data, inp="str"), expect))
                follow.append((op, json_load_op(rng, s, data, inp="stream"), expect))
            else:
                follow.append((op, json_load_op(rng, s, data, inp="stream"), expect))
            for _ in range(2):
                txt = G.render_json(rng, s, v)
                if rng.random() < 0.5:
                    follow.append((op, json_load_op(rng, s, (G.BOMS["utf8"] if rng.random() < 0.3 else b"") + txt.encode("utf-8"), inp="str"), expect))
                else:
                    enc, bom, d2 = G.encode_doc(rng, txt)
                    follow.append((op, json_load_op(rng, s, d2, inp="stream"), expect))
            if rng.random() < 0.5:
                follow.append((op, json_load_op(rng, s, G.py_dumps(rng, s, v).encode("utf-8"), inp=rng.choice(["str", "stream"])), expect))
        elif t[0] == "xml.save" and ia.startswith("ok "):
            keys, out, cfg, rootS, ss, vs = t[1:7]
            s = _parse_schema(ss)
            v = _parse_value(s, vs)
            root = None if rootS == "-" else bytes.fromhex(rootS)
            if not G.xml_domain(s, v):
                continue
            data = bytes.fromhex(ia[3:])
            root_name = root.decode("utf-8") if root else ("array" if s[0] == "vec" else "root")
            # (a) independent standard parser (expat through ElementTree) recovers the same data model
            text = G.decode_output(out, data)
            if text is None:
                yield (op, ia, "-", "bad:python:output_is_not_in_the_configured_encoding")
                continue
            cr = G.has_cr_text(s, v)
            try:
                e = G.ET.fromstring(text)
                ok = G.xml_dom_matches(s, v, e, root_name)
            except G.ET.ParseError as ex:
                yield (op, ia, "-", "bad:expat_rejects_the_document:" + str(ex).replace(" ", "_")[:60])
                continue
            if not ok and not cr:
                yield (op, ia, "-", "bad:expat_reads_a_different_data_model")
                continue
            fp = _format_problem("xml", cfg, text)
            if fp:
                yield (op, ia, "-", "bad:format_options:" + fp)
                continue
            if out != "str" and (out.startswith("utf8") or (out.startswith("utf16") and out.endswith(":1"))):
                # the real parser's own encoding detection on the raw bytes
                try:
                    e2 = G.ET.fromstring(data)
                    if not cr and not G.xml_dom_matches(s, v, e2, root_name):
                        yield (op, ia, "-", "bad:expat_reads_a_different_data_model_from_the_raw_bytes")
                        continue
                except G.ET.ParseError as ex:
                    yield (op, ia, "-", "bad:expat_rejects_the_raw_bytes:" + str(ex).replace(" ", "_")[:60])
                    continue
            # (b) load back: the document itself and independent re-renderings
            expect = "ok " + G.xml_expect(s, v)
            own_expect = None if cr else expect
            if out == "str":
                follow.append((op, xml_load_op(rng, s, data, root=root, inp="str"), own_expect))
            follow.append((op, xml_load_op(rng, s, data, root=root, inp="stream"), own_expect))
            for _ in range(2):
                r = rng.random()
                if r < 0.4:
                    txt = G.render_xml(rng, s, v, root_name, enc_name=rng.choice([None, None, "UTF-8", "utf-8"]))
                    d2 = (G.BOMS["utf8"] if rng.random() < 0.3 else b"") + txt.encode("utf-8")
                    follow.append((op, xml_load_op(rng, s, d2, root=root, inp=rng.choice(["str", "stream"])), expect))
                elif r < 0.8:
                    enc = rng.choice(G.ENCS[1:])
                    named = rng.random() < 0.5
                    txt = G.render_xml(rng, s, v, root_name, enc_name=G.XML_ENC_NAME[enc] if named else None)
                    bom = rng.random() < 0.7 or not txt.startswith("<?xml")
                    d2 = (G.BOMS[enc] if bom else b"") + txt.encode(G.PYCODEC[enc])
                    follow.append((op, xml_load_op(rng, s, d2, root=root, inp="stream"), expect))
                else:
                    txt = G.render_xml(rng, s, v, root_name, enc_name=rng.choice(["ISO-8859-1", "iso-8859-1", "latin1"]))
                    try:
                        d2 = txt.encode("latin-1")
                    except UnicodeEncodeError:
                        d2 = txt.encode("latin-1", "xmlcharrefreplace")
                        if b"<![CDATA[" in d2 or b"<!--" in d2 or b"<?pi" in d2:
                            d2 = None          # character references are not recognised there
                    if d2 is not None and all(ord(c) < 128 or c.isalpha() or True for c in txt):
                        # names must stay names: only use this rendering when every name is Latin-1
                        try:
                            for nm in _all_names(s, v, root_name):
                                nm.encode("latin-1")
                            follow.append((op, xml_load_op(rng, s, d2, root=root, inp="stream"), expect))
                        except UnicodeEncodeError:
                            pass
            if rng.random() < 0.5 and not cr:
                et = G.et_build(s, v, root_name)
                enc = rng.choice(["utf-8", "utf-16", "us-ascii", "iso-8859-1"])
                try:
                    for nm in _all_names(s, v, root_name):
                        nm.encode("ascii" if enc == "us-ascii" else "latin-1" if enc == "iso-8859-1" else "utf-8")
                except UnicodeEncodeError:
                    enc = "utf-8"          # ElementTree would write character references into names
                d2 = G.ET.tostring(et, encoding=enc, short_empty_elements=rng.random() < 0.5)
                if enc in ("us-ascii",):
                    follow.append((op, xml_load_op(rng, s, d2, root=root, inp=rng.choice(["str", "stream"])), expect))
                elif enc == "utf-8":
                    follow.append((op, xml_load_op(rng, s, d2, root=root, inp=rng.choice(["str", "stream"])), expect))
                else:
                    follow.append((op, xml_load_op(rng, s, d2, root=root, inp="stream"), expect))
    for item in _run_followups(follow):
        if item[0] == "KNOWN":
            cls = item[1]
            if cls in known_classes and item[3] != "DISAGREE":
                known_hits.setdefault(cls, item[2])
            else:
                yield (item[2], "-", "-", "known:" + cls + " (class not listed in known_findings.json or deviates)")
        else:
            yield item


def extra_checks(ops, impl, res, known_classes, known_hits):
    yield from extra_checks_jsonxml(ops, impl, res, known_classes, known_hits)
