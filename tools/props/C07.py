"""C07 — MsgPack reader accepts every valid encoding and matches a reference decoder (token-level readers)."""
import itertools
from .mpgen import *

THEOREMS = [
    "BSVerif.Props.C07.table_matches_spec",
    "BSVerif.Props.C07.table_size",
    "BSVerif.Props.C07.conv_by_policy_is_range",
    "BSVerif.Props.C07.read_int_any_format",
    "BSVerif.Props.C07.read_bool_as_int",
    "BSVerif.Props.C07.read_int_truncated",
    "BSVerif.Props.C07.read_f32_from_float32",
    "BSVerif.Props.C07.read_f64_from_float64",
    "BSVerif.Props.C07.read_f64_from_float32",
    "BSVerif.Props.C07.read_f32_from_float64",
    "BSVerif.Props.C07.float_narrow_full",
    "BSVerif.Props.C07.read_nil",
    "BSVerif.Props.C07.read_str_any_format",
    "BSVerif.Props.C07.read_array_size_any_format",
    "BSVerif.Props.C07.read_map_size_any_format",
    "BSVerif.Props.C07.read_bin_size_any_format",
    "BSVerif.Props.C07.truncation_rejected",
    "BSVerif.Props.C07.decode_independent_of_rest",
    "BSVerif.Props.C07.read_timestamp32",
    "BSVerif.Props.C07.read_timestamp64_shape",
    "BSVerif.Props.C07.read_timestamp64_refuted",
    "BSVerif.Props.C07.read_timestamp64_partial",
    "BSVerif.Props.C07.read_timestamp96_shape",
    "BSVerif.Props.C07.read_timestamp96_refuted",
]
RULE = ("one ReadValue/Read*Size/ReadValueType/SkipValue on the string reader AND on the stream reader per op; every integer format "
        "(fixint, uint8..64, int8..64) x every integer target (bool, char, u8..u64, i8..i64) at all format/target thresholds +-2 "
        "(thorough: every 16-bit value in uint16/int16 format); both float widths x both float targets on special patterns "
        "(NaN/Inf/subnormals/rounding ties/FLT_MAX boundary) + random bits; str/bin/array/map headers in fix/8/16/32 form at lengths "
        "0..33,254..257,65534..65537 incl. non-minimal widths; ext/timestamp in fixext/ext8/16/32; every token kind x every target "
        "x 4 policy combinations (mismatch matrix); ALL strict prefixes and single-byte corruptions of the generated tokens and of random "
        "nested documents; stream positions straddling the 256-byte chunk boundary; non-trivial = the reader returned true/false "
        "(not an exception); distinct = distinct op lines")
EXHAUSTIVE = {"quick": False, "thorough": False}
ASSUMPTIONS = ["little-endian host; `char` is signed 8 bit",
               "IEEE-754 binary32/binary64 conversions of the platform equal lean/BSVerif/MsgPack/Ieee.lean (checked by every f32/f64 op)",
               "input bytes are < 256; input length < 2^32",
               "nesting depth of skipped values small enough for the C++ stack (SkipValueImpl recursion is unbounded: see NOTES, C02)"]
TRUSTED = ["Spec.decodeToken/objects written from the MessagePack specification (lean/BSVerif/MsgPack/Spec.lean)",
           "lean/BSVerif/MsgPack/Ieee.lean (binary32<->binary64 conversion written from IEEE 754)"]
TAIL = bytes([0xC3, 0x01])      # bytes after the token: must not be touched


def nontrivial(op, impl):
    return impl.startswith("ok") or impl.startswith("no")


def token_zoo(rng):
    """(kind, bytes) list: every format of the specification at least once, incl. non-minimal widths"""
    z = []
    for v in (0, 1, 127, -1, -32, 128, 255, 256, 65535, 65536, U(32) - 1, U(32), U(64) - 1, -33, -128, -129, -U(15), -U(15) - 1, -U(31),
              -U(31) - 1, -U(63), U(63) - 1, U(63)):
        for f in int_formats(v):
            z.append(("int", enc_int(v, f)))
    z += [("nil", b"\xC0"), ("bool", b"\xC2"), ("bool", b"\xC3")]
    z += [("f32", enc_f32(b)) for b in (0x3F800000, 0x7FC00000, 0x7F800000, 0x00000001)]
    z += [("f64", enc_f64(b)) for b in (0x3FF0000000000000, 0x7FF8000000000000, 0x7FF0000000000000, 0x47EFFFFFE0000001, 0x3690000000000001)]
    for n in (0, 1, 31, 32, 255, 256):
        d = rand_bytes(rng, n)
        z += [("str", enc_str(d, k)) for k in str_formats(n)]
        z += [("bin", enc_bin(d, k)) for k in bin_formats(n)]
    for n in (0, 1, 15, 16):
        z += [("arr", enc_arr(n, k) + b"\x01" * n) for k in cnt_formats(n)]
        z += [("map", enc_map(n, k) + b"\x01\xC0" * n) for k in cnt_formats(n)]
    for n in (0, 1, 2, 4, 8, 16, 3, 12):
        d = rand_bytes(rng, n)
        for ty in (5, -1):
            z += [("ext", enc_ext(ty, d, k)) for k in ext_formats(n)]
    for s, ns in ((1, 0), (U(32) - 1, 0), (U(32), 0), (1, 1), (U(34) - 1, 999999999), (U(34), 5), (-1, 999999999), (-U(63), 0)):
        for p in ts_payloads(s, ns):
            z += [("ts", enc_ext(-1, p, k)) for k in ext_formats(len(p))]
    z.append(("never", b"\xC1"))
    return z


def reads(rng, T, data, pre=0, allpol=False, srcs=("mem", "stream")):
    ops = []
    pols = list(itertools.product(["throw", "skip"], repeat=2)) if allpol else [pol(rng)]
    for ovf, mis in pols:
        for src in srcs:
            ops.append(read_op(src, ovf, mis, T, pre, data))
    return ops


def gen(tier, rng, boost=1):
    ops = []
    thorough = tier == "thorough"
    # 1. every integer format x every integer target at thresholds
    tvals = sorted(set(INT_THRESHOLDS) | {v for lo, hi in INT_TYPES.values() for v in (lo - 1, lo, lo + 1, hi - 1, hi, hi + 1)})
    for v in tvals:
        if v >= U(64) or v < -U(63):
            continue
        for f in int_formats(v):
            data = enc_int(v, f) + TAIL
            for T in INT_TARGETS:
                ops += reads(rng, T, data, allpol=(abs(v) < 300 or rng.random() < 0.1))
    # bool -> integer targets
    for b in (b"\xC2", b"\xC3"):
        for T in INT_TARGETS:
            ops += reads(rng, T, b + TAIL, allpol=True)
    if thorough:
        for v in range(-U(15), U(16)):
            for f in ("uint16", "int16"):
                if f in int_formats(v):
                    data = enc_int(v, f) + TAIL
                    for T in ("bool", "u8", "i8", "char", "u16", "i16", "i32", "u64"):
                        ops.append(read_op("mem" if v & 1 else "stream", "skip" if v & 2 else "throw", "throw", T, 0, data))
    else:
        for _ in range(1500 * boost):
            v = rand_int(rng)
            if v >= U(64):
                continue
            data = enc_int(v, rng.choice(int_formats(v))) + TAIL
            ops += reads(rng, rng.choice(INT_TARGETS), data)
    # 2. floats: both widths x both targets
    f32s = F32_SPECIAL + [rng.getrandbits(32) for _ in range((300 if not thorough else 20000) * boost)]
    f64s = F64_SPECIAL + [rng.getrandbits(64) for _ in range((300 if not thorough else 20000) * boost)]
    # doubles near the float range (exponent 0x380..0x47F) exercise rounding / subnormal results
    f64s += [(rng.getrandbits(1) << 63) | (rng.randrange(0x360, 0x481) << 52) | rng.getrandbits(52) for _ in range((600 if not thorough else 40000) * boost)]
    f64s += [(rng.getrandbits(1) << 63) | (rng.randrange(0x360, 0x481) << 52) | (rng.getrandbits(24) << 28) for _ in range(300 * boost)]
    for b in f32s:
        for T in ("f32", "f64"):
            ops += reads(rng, T, enc_f32(b) + TAIL, allpol=(b in F32_SPECIAL))
    for b in f64s:
        for T in ("f32", "f64"):
            ops += reads(rng, T, enc_f64(b) + TAIL, allpol=(b in F64_SPECIAL))
    # 3. str / bin / array / map headers in every width
    lens = LEN_THRESHOLDS + ([65535, 65536] if not thorough else BIG_LENS)
    for n in lens:
        d = rand_bytes(rng, n)
        for k in str_formats(n):
            ops += reads(rng, "str", enc_str(d, k) + TAIL, allpol=n < 40)
        for k in bin_formats(n):
            ops += reads(rng, "bin", enc_bin(d, k) + TAIL, allpol=n < 40)
    for n in LEN_THRESHOLDS + BIG_LENS + [U(32) - 1, U(31)]:
        for k in cnt_formats(n):
            ops += reads(rng, "arr", enc_arr(n, k) + TAIL, allpol=n < 40)
            ops += reads(rng, "map", enc_map(n, k) + TAIL, allpol=n < 40)
    # 4. ext / timestamp
    secs = [0, 1, U(32) - 1, U(32), U(34) - 1, U(34), -1, -U(63), U(63) - 1, 1700000000] + [rng.randrange(0, U(34)) for _ in range(20)]
    for s in secs:
        for ns in (0, 1, 999999999, rng.randrange(0, 1000000000)):
            for p in ts_payloads(s, ns):
                for k in ext_formats(len(p)):
                    ops += reads(rng, "ts", enc_ext(-1, p, k) + TAIL, allpol=(s in (0, 1, -1)))
    # invalid timestamps: nanoseconds > 999999999, wrong payload sizes, foreign ext types
    for nsbad in (1000000000, U(30) - 1):
        ops += reads(rng, "ts", enc_ext(-1, be((nsbad << 34) | 5, 8), 0) + TAIL, allpol=True)
        ops += reads(rng, "ts", enc_ext(-1, be(nsbad, 4) + be(5, 8), 1) + TAIL, allpol=True)
        ops += reads(rng, "ts", enc_ext(-1, be(5, 8) + be(nsbad, 4), 1) + TAIL, allpol=True)
    ops += reads(rng, "ts", enc_ext(-1, be(U(32) - 1, 4) + be(5, 8), 1) + TAIL, allpol=True)
    # nanoseconds at the validity threshold 999999999 +-2 and at the field limits: timestamp 64 (30-bit field), the
    # specification's timestamp 96 (nanoseconds first, uint32) and the library's 12-byte layout (nanoseconds last, int32:
    # INT32_MAX, INT32_MIN .. -1 are the values from 2^31-1 upwards) in every ext format able to hold the payload
    ns_edges = [999999997, 999999998, 999999999, 1000000000, 1000000001, U(30) - 2, U(30) - 1]
    ns_edges32 = ns_edges + [U(30), U(31) - 1, U(31), U(31) + 1, U(32) - 1000000000, U(32) - 2, U(32) - 1]
    for sec in (5, 0, U(34) - 1, rng.randrange(0, U(34))):
        for nsv in ns_edges + [rng.randrange(1000000000, U(30)) for _ in range(4)]:
            for k in ext_formats(8):
                ops += reads(rng, "ts", enc_ext(-1, be((nsv << 34) | sec, 8), k) + TAIL, allpol=(sec == 5 and k == 0))
    for sec in (5, -1, U(34), -U(63), U(63) - 1, rng.randrange(-U(63), U(63))):
        for nsv in ns_edges32 + [rng.randrange(1000000000, U(32)) for _ in range(4)]:
            for k in ext_formats(12):
                ops += reads(rng, "ts", enc_ext(-1, be(nsv, 4) + be(sec, 8), k) + TAIL, allpol=(sec == 5))
                ops += reads(rng, "ts", enc_ext(-1, be(sec, 8) + be(nsv, 4), k) + TAIL, allpol=(sec == 5))
    # random 8- and 12-byte payloads (most have out-of-range nanoseconds in at least one of the readings)
    for _ in range((150 if not thorough else 5000) * boost):
        n = rng.choice((8, 12))
        ops += reads(rng, "ts", enc_ext(-1, rand_bytes(rng, n), rng.choice(ext_formats(n))) + TAIL)
    for n in (0, 1, 2, 3, 5, 16, 13):
        for k in ext_formats(n):
            ops += reads(rng, "ts", enc_ext(-1, rand_bytes(rng, n), k) + TAIL, allpol=True)
    for ty in (0, 1, 127, -128, -2):
        for n in (4, 8, 12):
            for k in ext_formats(n):
                ops += reads(rng, "ts", enc_ext(ty, rand_bytes(rng, n), k) + TAIL, allpol=True)
    # 5. mismatch matrix + ReadValueType + SkipValue over the token zoo; truncations and corruptions
    zoo = token_zoo(rng)
    for kind, t in zoo:
        for T in ALL_TARGETS:
            ops += reads(rng, T, t + TAIL, allpol=True)
        for src in ("mem", "stream"):
            ops.append(f"mp.type {src} 0 {hx(t + TAIL)}")
            ops.append(f"mp.skip {src} 0 {hx(t + TAIL)}")
    short = [(k, t) for k, t in zoo if len(t) <= 24]
    for kind, t in short:
        compat = {"int": ["i64", "u8"], "nil": ["nil"], "bool": ["bool", "i8"], "f32": ["f32", "f64"], "f64": ["f64", "f32"], "str": ["str"],
                  "bin": ["bin"], "arr": ["arr"], "map": ["map"], "ext": ["ts"], "ts": ["ts"], "never": ["i32"]}[kind]
        foreign = rng.choice([T for T in ALL_TARGETS if T not in compat])
        # all strict prefixes
        for cut in range(0, len(t)):
            for T in compat + [foreign]:
                ops += reads(rng, T, t[:cut], allpol=False)
            src = rng.choice(["mem", "stream"])
            ops.append(f"mp.skip {src} 0 {hx(t[:cut])}")
            ops.append(f"mp.type {src} 0 {hx(t[:cut])}")
        # single-byte corruptions
        for i in range(len(t)):
            repl = range(256) if ((i == 0 and (thorough or rng.random() < 0.15)) or (thorough and len(t) <= 12)) else \
                {t[i] ^ 0x01, t[i] ^ 0x80, t[i] ^ 0xFF, 0x00, 0xFF, 0xC1, rng.getrandbits(8)}
            for b in repl:
                if b == t[i]:
                    continue
                c = t[:i] + bytes([b]) + t[i + 1:]
                T = rng.choice(compat + [foreign])
                ovf, mis = pol(rng)
                src = rng.choice(["mem", "stream"])
                ops.append(read_op(src, ovf, mis, T, 0, c + TAIL))
                ops.append(f"mp.skip {src} 0 {hx(c)}")
    # 6. random nested documents (adversarial formats): skip / type / mismatched reads, their truncations and corruptions
    ndocs = (250 if not thorough else 4000) * boost
    for _ in range(ndocs):
        kind, d = rand_doc(rng)
        src = rng.choice(["mem", "stream"])
        pre = rng.choice([0, 0, 0, 1, 7])
        ops.append(f"mp.skip {src} {pre} {hx(d + TAIL)}")
        ops.append(f"mp.type {src} {pre} {hx(d + TAIL)}")
        for T in rng.sample(ALL_TARGETS, 3):
            ovf, mis = pol(rng)
            ops.append(read_op(src, ovf, mis, T, pre, d + TAIL))
        if len(d) <= 60:
            for cut in range(len(d)):
                ops.append(f"mp.skip {rng.choice(['mem', 'stream'])} 0 {hx(d[:cut])}")
            for i in range(len(d)):
                c = d[:i] + bytes([rng.choice([d[i] ^ 0x01, d[i] ^ 0x80, 0xC1, 0xFF, 0x00, rng.getrandbits(8)])]) + d[i + 1:]
                if c != d:
                    s2 = rng.choice(["mem", "stream"])
                    ops.append(f"mp.skip {s2} 0 {hx(c)}")
                    ovf, mis = pol(rng)
                    ops.append(read_op(s2, ovf, mis, rng.choice(ALL_TARGETS), 0, c))
    # 7. stream chunk boundary (256 bytes): tokens placed so that they straddle it, after the last chunk was read
    for pre in (250, 251, 252, 253, 254, 255, 256, 257, 510, 511, 512):
        for kind, t in rng.sample(zoo, 25) + [z for z in zoo if z[0] in ("ts", "ext")][:30]:
            for T in rng.sample(ALL_TARGETS, 2) + (["ts"] if kind in ("ts", "ext") else []):
                ovf, mis = pol(rng)
                for src in ("mem", "stream"):
                    ops.append(read_op(src, ovf, mis, T, pre, t + TAIL))
            ops.append(f"mp.type stream {pre} {hx(t + TAIL)}")
            ops.append(f"mp.skip stream {pre} {hx(t)}")
        for n in (200, 300, 600):
            d = rand_bytes(rng, n)
            for src in ("mem", "stream"):
                ops.append(read_op(src, "throw", "throw", "str", pre, enc_str(d, 2) + TAIL))
                ops.append(f"mp.skip {src} {pre} {hx(enc_bin(d, 4) + TAIL)}")
                ops.append(f"mp.skip {src} {pre} {hx(enc_arr(n, 2) + bytes([1]) * n + TAIL)}")
    # 8. empty input, lone never-used byte
    for T in ALL_TARGETS:
        ops += reads(rng, T, b"", allpol=True)
        ops += reads(rng, T, b"\xC1" + TAIL, allpol=True)
    # loading through the scopes (sequences, maps, classes): nil / other kinds in any position of nested arrays and objects
    from .scopegen import gen_scope_ops
    ops += gen_scope_ops(tier, rng, boost, count=(400 if tier == "quick" else 8000) * boost, truncated=0.15)
    # typed map keys: the comparison of a key read in ANY integer format with a key requested as any C++ integer type
    from .C03 import keyeq_ops
    ops += keyeq_ops(tier, rng)
    return ops
